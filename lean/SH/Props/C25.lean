/-
  C25 — Table queries assemble aligned, unique, ordered rows.

  "For any split of a query into levels of detail and any storage output, every table row has exactly one
   column per requested function (missing values are NaN), rows are unique by time and tags and sorted in the
   requested direction, the requested row window and limit are respected, and the has-more flag is set exactly
   when rows beyond the limit exist."

  Model: SH.Model.Table. `Variant.fixed` is internal/api/table.go after /verif/fixes/C25-table-window-limit-columns.diff,
  `Variant.old` the code before it (kept to exhibit the defects by `decide`, section "old code").
  Storage (`loadPoints`) is an arbitrary input: per handler-what and per LOD an error or any list of time groups.

  Reading of the sentence, clause by clause
  * window = rows strictly after the `from` marker and strictly before the `to` marker in the requested direction
    (`inRange`, both markers exclusive as in Test_limitQueries; a marker with time 0 is absent);
  * "window and limit respected / has-more exact", per storage answer: `limitQueries_window_limit`;
    across the LOD split, per requested function: `lodLoop_page`; for the whole table: `table_page`;
    every returned row is in the window: `rows_in_window`;
  * unique by time and tags: `rows_unique_by_time_tags` (the key is what the code indexes by: time, all tags, skey);
  * sorted: `rows_sorted` (ascending by queryTableRows.Less, descending with fromEnd);
  * one column per requested function: `one_column_per_function` — needs that the storage answers of one handler-what
    contain no key twice (a duplicate key gets its values appended twice; GROUP BY never returns one).
  Not proved here: that the non-NaN cells are the storage values of that key (checked by the correspondence and the
  direct oracle `table-value` only).
-/
import SH.Model.Table

namespace SH.C25
open SH.Table

/-! ## limitQueries: the window and the limit are respected, has-more is exact -/

theorem scanRows_fixed (w : Win) : ∀ (g : List Row) (n : Nat),
    scanRows .fixed w n g =
      ((g.filter (inRange w)).take n, decide (n < (g.filter (inRange w)).length), n - (g.filter (inRange w)).length) := by
  intro g
  induction g with
  | nil => intro n; simp [scanRows]
  | cons r rs ih =>
    intro n
    by_cases h : inRange w r = true
    · cases n with
      | zero => simp [scanRows, limitFirst, h]
      | succ m =>
        simp only [scanRows, limitFirst, h, List.filter_cons]
        simp [ih m]
    · simp only [Bool.not_eq_true] at h
      simp [scanRows, limitFirst, h, ih n]

theorem scanGroups_fixed (w : Win) : ∀ (gs : List (List Row)) (n : Nat),
    scanGroups .fixed w n gs =
      ((gs.flatten.filter (inRange w)).take n, decide (n < (gs.flatten.filter (inRange w)).length)) := by
  intro gs
  induction gs with
  | nil => intro n; simp [scanGroups]
  | cons g gs ih =>
    intro n
    simp only [scanGroups, skipsGroups, Bool.false_and, scanRows_fixed, ih, List.flatten_cons, List.filter_append,
      List.length_append]
    by_cases h : n < (g.filter (inRange w)).length
    · simp [h, List.take_append_of_le_length (Nat.le_of_lt h)]
      omega
    · simp [h]
      have h' : (g.filter (inRange w)).length ≤ n := Nat.le_of_not_lt h
      rw [List.take_append]
      simp [List.take_of_length_le h']
      omega

/-- the rows of one storage answer that lie in the requested window, in visiting order -/
def windowRows (w : Win) (groups : List (List Row)) : List Row := (dir w.fromEnd groups).flatten.filter (inRange w)

theorem limitQueries_fixed (w : Win) (groups : List (List Row)) (limit : Int) :
    limitQueries .fixed w groups limit =
      ((windowRows w groups).take limit.toNat, decide (limit.toNat < (windowRows w groups).length)) := by
  simp [limitQueries, scanGroups_fixed, windowRows]


/-- **window_respected / has_more_iff (one storage answer).** For every window, every storage answer and every limit
    the fixed limitQueries returns exactly the first `limit` rows of the window in visiting order, and reports
    has-more iff the window holds more than `limit` rows. (`limit ≤ 0` counts as 0.) -/
theorem limitQueries_window_limit (w : Win) (groups : List (List Row)) (limit : Int) :
    (limitQueries .fixed w groups limit).1 = (windowRows w groups).take limit.toNat ∧
    ((limitQueries .fixed w groups limit).2 = true ↔ limit.toNat < (windowRows w groups).length) := by
  simp [limitQueries_fixed]

/-! ### old code: the same statement is false (design-round findings F9a, F9b and the limit-0 shortcut) -/

def wMid : Win := { frm := ⟨10, [(0, 3)], 0⟩, to := ⟨10, [(0, 7)], 0⟩, fromEnd := false }
def wTo : Win := { frm := ⟨0, [], 0⟩, to := ⟨10, [(0, 5)], 0⟩, fromEnd := false }
def wAll : Win := { frm := ⟨0, [], 0⟩, to := ⟨0, [], 0⟩, fromEnd := false }
def rowT (t : Int) (tag0 : Int) : Row := ⟨⟨t, [tag0], 0⟩, [1]⟩

/-- F9a: first and last row of the group are outside the window, the middle one is inside: the old code drops it -/
example : limitQueries .old wMid [[rowT 10 1, rowT 10 5, rowT 10 9]] 10 = ([], false) := by decide
example : windowRows wMid [[rowT 10 1, rowT 10 5, rowT 10 9]] = [rowT 10 5] := by decide
example : limitQueries .fixed wMid [[rowT 10 1, rowT 10 5, rowT 10 9]] 10 = ([rowT 10 5], false) := by decide
/-- F9b: the row met after the limit is beyond the `to` marker: the old code reports has-more -/
example : limitQueries .old wTo [[rowT 10 3, rowT 10 7]] 1 = ([rowT 10 3], true) := by decide
example : (windowRows wTo [[rowT 10 3, rowT 10 7]]).length = 1 := by decide
example : limitQueries .fixed wTo [[rowT 10 3, rowT 10 7]] 1 = ([rowT 10 3], false) := by decide
/-- limit 0 (page filled by the previous LOD), the next answer has two empty time groups: the old code reports has-more -/
example : limitQueries .old wAll [[], []] 0 = ([], true) := by decide
example : limitQueries .fixed wAll [[], []] 0 = ([], false) := by decide
/-- hence `limitQueries_window_limit` does not hold of the old variant -/
example : ¬ ((limitQueries .old wMid [[rowT 10 1, rowT 10 5, rowT 10 9]] 10).1
            = (windowRows wMid [[rowT 10 1, rowT 10 5, rowT 10 9]]).take (10 : Int).toNat) := by decide
example : ¬ ((limitQueries .old wTo [[rowT 10 3, rowT 10 7]] 1).2 = true ↔
            (1 : Int).toNat < (windowRows wTo [[rowT 10 3, rowT 10 7]]).length) := by decide

/-! ## every variant: limitQueries only returns rows of the answer that lie in the window -/

theorem scanRows_mem (v : Variant) (w : Win) : ∀ (g : List Row) (n : Nat) (r : Row),
    r ∈ (scanRows v w n g).1 → r ∈ g ∧ inRange w r = true := by
  intro g
  induction g with
  | nil => intro n r h; simp [scanRows] at h
  | cons x xs ih =>
    intro n r h
    simp only [scanRows] at h
    by_cases hl : limitFirst v = true <;> by_cases hn : n = 0 <;> by_cases hx : inRange w x = true <;>
      simp [hl, hn, hx] at h
    all_goals first
      | (rcases h with h | h
         · subst h; exact ⟨by simp, hx⟩
         · have := ih _ _ h; exact ⟨by simp [this.1], this.2⟩)
      | (have := ih _ _ h; exact ⟨by simp [this.1], this.2⟩)

theorem scanGroups_mem (v : Variant) (w : Win) : ∀ (gs : List (List Row)) (n : Nat) (r : Row),
    r ∈ (scanGroups v w n gs).1 → (∃ g ∈ gs, r ∈ g) ∧ inRange w r = true := by
  intro gs
  induction gs with
  | nil => intro n r h; simp [scanGroups] at h
  | cons g gs ih =>
    intro n r h
    simp only [scanGroups] at h
    split at h
    · have := ih _ _ h
      obtain ⟨⟨g', hg', hr⟩, hin⟩ := this
      exact ⟨⟨g', by simp [hg'], hr⟩, hin⟩
    · split at h
      · have := scanRows_mem v w g n r h
        exact ⟨⟨g, by simp, this.1⟩, this.2⟩
      · simp only [List.mem_append] at h
        rcases h with h | h
        · have := scanRows_mem v w g n r h
          exact ⟨⟨g, by simp, this.1⟩, this.2⟩
        · obtain ⟨⟨g', hg', hr⟩, hin⟩ := ih _ _ h
          exact ⟨⟨g', by simp [hg'], hr⟩, hin⟩

theorem mem_dir {α} (fe : Bool) (l : List α) (x : α) : x ∈ dir fe l ↔ x ∈ l := by
  unfold dir; split <;> simp

theorem limitQueries_mem (v : Variant) (w : Win) (groups : List (List Row)) (limit : Int) (r : Row)
    (h : r ∈ (limitQueries v w groups limit).1) : (∃ g ∈ groups, r ∈ g) ∧ inRange w r = true := by
  unfold limitQueries at h
  cases v with
  | fixed =>
    obtain ⟨⟨g, hg, hr⟩, hin⟩ := scanGroups_mem _ _ _ _ _ h
    exact ⟨⟨g, (mem_dir _ _ _).1 hg, hr⟩, hin⟩
  | old =>
    simp only at h
    split at h
    · simp at h
    · obtain ⟨⟨g, hg, hr⟩, hin⟩ := scanGroups_mem _ _ _ _ _ h
      exact ⟨⟨g, (mem_dir _ _ _).1 hg, hr⟩, hin⟩


/-! ## getTableFromLODs: invariants of the key list -/

def keysOf (out : List ORow) : List Key := out.map (·.key)

theorem hasKey_iff (out : List ORow) (k : Key) : hasKey out k = true ↔ k ∈ keysOf out := by
  simp [hasKey, keysOf, List.any_eq_true]

theorem keys_addRow (pad : Nat) (cols : List Nat) (out : List ORow) (r : Row) :
    keysOf (addRow pad cols out r) = if hasKey out r.key then keysOf out else keysOf out ++ [r.key] := by
  unfold addRow
  split
  · simp only [keysOf, List.map_map]
    apply List.map_congr_left
    intro o _
    simp only [Function.comp]
    split <;> rfl
  · simp [keysOf]

theorem keys_endPass (v : Variant) (cols : List Nat) (out : List ORow) : keysOf (endPass v cols out) = keysOf out := by
  simp only [keysOf, endPass, List.map_map]
  apply List.map_congr_left
  intro o _
  simp only [Function.comp]
  split <;> rfl

/-- an invariant of the key list that every accepted storage row preserves is an invariant of the LOD loop -/
theorem lodLoop_keys (P : List Key → Prop) (v : Variant) (q : Req) (pad : Nat) (cols : List Nat)
    (hadd : ∀ ks (r : Row), P ks → inRange q.win r = true → timeSkipped q r = false → r.key ∉ ks → P (ks ++ [r.key])) :
    ∀ (answers : List (Lod × Option (List (List Row)))) (cnt : Nat) (out : List ORow) (res : List ORow × Bool),
      P (keysOf out) → lodLoop v q pad cols answers cnt out = some res → P (keysOf res.1) := by
  have hfold : ∀ (rows : List Row) (out : List ORow), (∀ r ∈ rows, inRange q.win r = true ∧ timeSkipped q r = false) →
      P (keysOf out) → P (keysOf (rows.foldl (addRow pad cols) out)) := by
    intro rows
    induction rows with
    | nil => intro out _ h; simpa using h
    | cons r rs ih =>
      intro out hr h
      simp only [List.foldl_cons]
      apply ih
      · intro x hx; exact hr x (by simp [hx])
      · rw [keys_addRow]
        split
        · exact h
        · rename_i hk
          have := hr r (by simp)
          exact hadd _ _ h this.1 this.2 (by rw [← hasKey_iff]; simpa using hk)
  intro answers
  induction answers with
  | nil => intro cnt out res h he; simp [lodLoop] at he; subst he; exact h
  | cons a rest ih =>
    intro cnt out res h he
    obtain ⟨l, ans⟩ := a
    simp only [lodLoop] at he
    split at he
    · exact ih _ _ _ h he
    · cases ans with
      | none => simp at he
      | some groups =>
        simp only at he
        have hrows : ∀ r ∈ List.filter (fun r => !timeSkipped q r) (limitQueries v q.win groups (q.limit - ↑cnt)).1,
            inRange q.win r = true ∧ timeSkipped q r = false := by
          intro r hr
          simp only [List.mem_filter, Bool.not_eq_true'] at hr
          exact ⟨((limitQueries_mem v q.win groups _ r hr.1).2), hr.2⟩
        split at he
        · simp at he; subst he; exact hfold _ _ hrows h
        · exact ih _ _ _ (hfold _ _ hrows h) he

theorem whatLoop_keys (P : List Key → Prop) (v : Variant) (q : Req)
    (hadd : ∀ ks (r : Row), P ks → inRange q.win r = true → timeSkipped q r = false → r.key ∉ ks → P (ks ++ [r.key])) :
    ∀ (todo : List (List Nat × List (Lod × Option (List (List Row))))) (prev : List (List Nat)) (out : List ORow) (more : Bool)
      (res : List ORow × Bool), P (keysOf out) → whatLoop v q prev todo out more = some res → P (keysOf res.1) := by
  intro todo
  induction todo with
  | nil => intro prev out more res h he; simp [whatLoop] at he; subst he; exact h
  | cons t rest ih =>
    intro prev out more res h he
    obtain ⟨cols, answers⟩ := t
    simp only [whatLoop] at he
    split at he
    · simp at he
    · rename_i r hr
      apply ih _ _ _ _ _ he
      rw [keys_endPass]
      exact lodLoop_keys P v q _ cols hadd answers 0 out r h hr

theorem insertRow_perm (q : Req) (x : ORow) : ∀ l : List ORow, (insertRow q x l).Perm (x :: l) := by
  intro l
  induction l with
  | nil => simp [insertRow]
  | cons y ys ih =>
    simp only [insertRow]
    split
    · exact List.Perm.refl _
    · exact (List.Perm.cons y ih).trans (List.Perm.swap x y ys)

theorem sortRows_perm (q : Req) : ∀ l : List ORow, (sortRows q l).Perm l := by
  intro l
  induction l with
  | nil => simp [sortRows]
  | cons x xs ih =>
    simp only [sortRows]
    exact (insertRow_perm q x _).trans (List.Perm.cons x ih)

theorem lessThan_time_ne (l : Marker) (k : Key) (orEq fe : Bool) (h : l.time ≠ k.time) :
    lessThan l k orEq fe = if fe then decide (l.time > k.time) else decide (l.time < k.time) := by
  simp [lessThan, h]

theorem afterFrom_time (w : Win) (k : Key) (h : afterFrom w k = true) :
    w.frm.time = 0 ∨ (if w.fromEnd then k.time ≤ w.frm.time else w.frm.time ≤ k.time) := by
  simp only [afterFrom, Bool.or_eq_true, beq_iff_eq] at h
  rcases h with h | h
  · exact Or.inl h
  · right
    by_cases e : w.frm.time = k.time
    · cases w.fromEnd <;> simp <;> omega
    · rw [lessThan_time_ne _ _ _ _ e] at h
      cases hf : w.fromEnd <;> simp [hf] at h ⊢ <;> omega

theorem beforeTo_time (w : Win) (k : Key) (h : beforeTo w k = true) :
    w.to.time = 0 ∨ (if w.fromEnd then w.to.time ≤ k.time else k.time ≤ w.to.time) := by
  simp only [beforeTo, Bool.or_eq_true, beq_iff_eq, Bool.not_eq_true'] at h
  rcases h with h | h
  · exact Or.inl h
  · right
    by_cases e : w.to.time = k.time
    · cases w.fromEnd <;> simp <;> omega
    · rw [lessThan_time_ne _ _ _ _ e] at h
      cases hf : w.fromEnd <;> simp [hf] at h ⊢ <;> omega

/-- the time test of the row loop never rejects a row that limitQueries accepted (row times are not negative) -/
theorem inRange_not_timeSkipped (q : Req) (r : Row) (h : inRange q.win r = true) (ht : 0 ≤ r.key.time) :
    timeSkipped q r = false := by
  simp only [inRange, Bool.and_eq_true] at h
  have h1 := afterFrom_time _ _ h.1
  have h2 := beforeTo_time _ _ h.2
  simp only [timeSkipped, aboveTo, fromTime, toTime]
  by_cases hf : q.win.fromEnd = true
  · simp [hf] at h1 h2 ⊢; omega
  · simp [hf] at h1 h2 ⊢; omega


/-! ## order lemmas for queryTableRows.Less -/

/-- tags-then-skey part of `less` -/
def tl (l1 : List Int) (s1 : Nat) (l2 : List Int) (s2 : Nat) : Bool :=
  match tagsLess l1 l2 with
  | some x => x
  | none => decide (s1 < s2)

theorem tl_nil (s1 s2 : Nat) : tl [] s1 [] s2 = true ↔ s1 < s2 := by simp [tl, tagsLess]

theorem tl_cons (x y : Int) (l1 l2 : List Int) (s1 s2 : Nat) :
    tl (x :: l1) s1 (y :: l2) s2 = true ↔ x < y ∨ (x = y ∧ tl l1 s1 l2 s2 = true) := by
  simp only [tl, tagsLess]
  by_cases h : x = y
  · subst h; simp
  · simp [h]

theorem tl_asymm : ∀ (l1 l2 : List Int) (s1 s2 : Nat), l1.length = l2.length →
    tl l1 s1 l2 s2 = true → ¬ tl l2 s2 l1 s1 = true := by
  intro l1
  induction l1 with
  | nil =>
    intro l2 s1 s2 hl h
    cases l2 with
    | nil => simp only [tl_nil] at *; omega
    | cons => simp at hl
  | cons x l1 ih =>
    intro l2 s1 s2 hl h
    cases l2 with
    | nil => simp at hl
    | cons y l2 =>
      simp only [tl_cons] at *
      have hl' : l1.length = l2.length := by simpa using hl
      rcases h with h | ⟨h1, h2⟩
      · rintro (g | ⟨g1, _⟩) <;> omega
      · rintro (g | ⟨_, g2⟩)
        · omega
        · exact ih _ _ _ hl' h2 g2

theorem tl_negtrans : ∀ (l1 l2 l3 : List Int) (s1 s2 s3 : Nat), l1.length = l2.length → l2.length = l3.length →
    tl l1 s1 l3 s3 = true → tl l1 s1 l2 s2 = true ∨ tl l2 s2 l3 s3 = true := by
  intro l1
  induction l1 with
  | nil =>
    intro l2 l3 s1 s2 s3 h12 h23 h
    cases l2 with
    | nil =>
      cases l3 with
      | nil => simp only [tl_nil] at *; omega
      | cons => simp at h23
    | cons => simp at h12
  | cons x l1 ih =>
    intro l2 l3 s1 s2 s3 h12 h23 h
    cases l2 with
    | nil => simp at h12
    | cons y l2 =>
      cases l3 with
      | nil => simp at h23
      | cons z l3 =>
        simp only [tl_cons] at *
        have h12' : l1.length = l2.length := by simpa using h12
        have h23' : l2.length = l3.length := by simpa using h23
        rcases h with h | ⟨h1, h2⟩
        · by_cases hxy : x < y
          · exact Or.inl (Or.inl hxy)
          · by_cases hyz : y < z
            · exact Or.inr (Or.inl hyz)
            · omega
        · by_cases hxy : x < y
          · exact Or.inl (Or.inl hxy)
          · by_cases hyx : y < x
            · exact Or.inr (Or.inl (by omega))
            · have e : x = y := by omega
              rcases ih l2 l3 s1 s2 s3 h12' h23' h2 with g | g
              · exact Or.inl (Or.inr ⟨e, g⟩)
              · exact Or.inr (Or.inr ⟨by omega, g⟩)

theorem less_iff (a b : RowRepr) : less a b = true ↔
    (a.time < b.time ∨ (a.time = b.time ∧ (a.tags.length < b.tags.length ∨
      (a.tags.length = b.tags.length ∧ tl a.tags a.skey b.tags b.skey = true)))) := by
  simp only [less]
  by_cases ht : a.time = b.time
  · by_cases hl : a.tags.length = b.tags.length
    · simp [ht, hl, tl]
      cases tagsLess a.tags b.tags <;> rfl
    · simp [ht, hl]
  · simp [ht]

theorem less_asymm (a b : RowRepr) (h : less a b = true) : ¬ less b a = true := by
  simp only [less_iff] at *
  rcases h with h | ⟨h1, h | ⟨h2, h3⟩⟩
  · rintro (g | ⟨g1, _⟩) <;> omega
  · rintro (g | ⟨_, g | ⟨g2, _⟩⟩) <;> omega
  · rintro (g | ⟨_, g | ⟨_, g3⟩⟩)
    · omega
    · omega
    · exact tl_asymm _ _ _ _ h2 h3 g3

theorem less_negtrans (a b c : RowRepr) (h : less a c = true) : less a b = true ∨ less b c = true := by
  simp only [less_iff] at *
  by_cases t1 : a.time < b.time
  · exact Or.inl (Or.inl t1)
  by_cases t2 : b.time < c.time
  · exact Or.inr (Or.inl t2)
  rcases h with h | ⟨h1, h⟩
  · omega
  have e1 : a.time = b.time := by omega
  have e2 : b.time = c.time := by omega
  by_cases l1 : a.tags.length < b.tags.length
  · exact Or.inl (Or.inr ⟨e1, Or.inl l1⟩)
  by_cases l2 : b.tags.length < c.tags.length
  · exact Or.inr (Or.inr ⟨e2, Or.inl l2⟩)
  rcases h with h | ⟨h2, h3⟩
  · omega
  have f1 : a.tags.length = b.tags.length := by omega
  have f2 : b.tags.length = c.tags.length := by omega
  rcases tl_negtrans _ _ _ a.skey b.skey c.skey f1 f2 h3 with g | g
  · exact Or.inl (Or.inr ⟨e1, Or.inr ⟨f1, g⟩⟩)
  · exact Or.inr (Or.inr ⟨e2, Or.inr ⟨f2, g⟩⟩)

/-! ## column alignment -/

/-- ghost: the storage rows that one pass of the LOD loop hands to the row loop body, in order -/
def passRows (v : Variant) (q : Req) : List (Lod × Option (List (List Row))) → Nat → List Row
  | [], _ => []
  | (l, ans) :: rest, cnt =>
    if lodSkipped q l then passRows v q rest cnt
    else match ans with
      | none => []
      | some groups =>
        let lq := limitQueries v q.win groups (q.limit - cnt)
        let rows := lq.1.filter (fun r => !timeSkipped q r)
        if lq.2 then rows else rows ++ passRows v q rest (cnt + rows.length)

theorem lodLoop_eq_fold (v : Variant) (q : Req) (pad : Nat) (cols : List Nat) :
    ∀ (answers : List (Lod × Option (List (List Row)))) (cnt : Nat) (out : List ORow) (res : List ORow × Bool),
      lodLoop v q pad cols answers cnt out = some res →
      res.1 = (passRows v q answers cnt).foldl (addRow pad cols) out := by
  intro answers
  induction answers with
  | nil => intro cnt out res he; simp [lodLoop] at he; subst he; simp [passRows]
  | cons a rest ih =>
    intro cnt out res he
    obtain ⟨l, ans⟩ := a
    simp only [lodLoop] at he
    simp only [passRows]
    split at he
    · rename_i hs; simp only [hs, if_true]; exact ih _ _ _ he
    · rename_i hs
      simp only [hs]
      cases ans with
      | none => simp at he
      | some groups =>
        simp only at he ⊢
        split at he
        · rename_i hm; simp at he; subst he; simp [hm]
        · rename_i hm
          simp only [hm]
          rw [ih _ _ _ he]
          simp [List.foldl_append]

/-- alignment invariant inside a pass: `n` columns before this handler-what, `c` columns of this one -/
def J (n c : Nat) (seen : List Key) (out : List ORow) : Prop :=
  ∀ o ∈ out, (o.used = true → o.key ∈ seen) ∧ o.data.length = n + (if o.used then c else 0)

theorem J_addRow (n : Nat) (cols : List Nat) (seen : List Key) (out : List ORow) (r : Row)
    (h : J n cols.length seen out) (hr : r.key ∉ seen) : J n cols.length (r.key :: seen) (addRow n cols out r) := by
  unfold addRow
  split
  · intro o' ho'
    simp only [List.mem_map] at ho'
    obtain ⟨o, ho, rfl⟩ := ho'
    have := h o ho
    by_cases hk : (o.key == r.key) = true
    · have hk' : o.key = r.key := by simpa using hk
      have hu : o.used = false := by
        cases hu : o.used with
        | false => rfl
        | true => exact absurd (hk' ▸ this.1 hu) hr
      simp [hk', rowVals, this.2, hu]
    · simp only [hk]
      refine ⟨fun hu => List.mem_cons_of_mem _ (this.1 hu), this.2⟩
  · intro o ho
    simp only [List.mem_append, List.mem_singleton] at ho
    rcases ho with ho | rfl
    · have := h o ho
      exact ⟨fun hu => List.mem_cons_of_mem _ (this.1 hu), this.2⟩
    · simp [rowVals]

theorem J_fold (n : Nat) (cols : List Nat) : ∀ (rows : List Row) (seen : List Key) (out : List ORow),
    J n cols.length seen out → (rows.map (·.key)).Nodup → (∀ r ∈ rows, r.key ∉ seen) →
    ∃ seen', J n cols.length seen' (rows.foldl (addRow n cols) out) := by
  intro rows
  induction rows with
  | nil => intro seen out h _ _; exact ⟨seen, by simpa using h⟩
  | cons r rs ih =>
    intro seen out h hnd hdis
    simp only [List.map_cons, List.nodup_cons] at hnd
    simp only [List.foldl_cons]
    apply ih (r.key :: seen) _ (J_addRow n cols seen out r h (hdis r (by simp))) hnd.2
    intro x hx
    simp only [List.mem_cons, not_or]
    refine ⟨?_, hdis x (by simp [hx])⟩
    intro e
    exact hnd.1 (by simp only [List.mem_map]; exact ⟨x, hx, e⟩)

/-- all rows have `n` columns and nobody is marked used (state between two passes) -/
def Aligned (n : Nat) (out : List ORow) : Prop := ∀ o ∈ out, o.used = false ∧ o.data.length = n

theorem endPass_aligned (n : Nat) (cols : List Nat) (seen : List Key) (out : List ORow)
    (h : J n cols.length seen out) : Aligned (n + cols.length) (endPass .fixed cols out) := by
  intro o' ho'
  simp only [endPass, List.mem_map] at ho'
  obtain ⟨o, ho, rfl⟩ := ho'
  have := (h o ho).2
  cases hu : o.used <;> simp [hu, padMissing] at this ⊢ <;> omega

theorem sum_append_single (prev : List (List Nat)) (cols : List Nat) :
    ((prev ++ [cols]).map List.length).sum = (prev.map List.length).sum + cols.length := by
  simp

/-- no key is handed to the row loop twice within one pass -/
def NoRepeat (v : Variant) (q : Req) (todo : List (List Nat × List (Lod × Option (List (List Row))))) : Prop :=
  ∀ t ∈ todo, ((passRows v q t.2 0).map (·.key)).Nodup

theorem whatLoop_aligned (q : Req) :
    ∀ (todo : List (List Nat × List (Lod × Option (List (List Row))))) (prev : List (List Nat)) (out : List ORow) (more : Bool)
      (res : List ORow × Bool), NoRepeat .fixed q todo → Aligned (prev.map List.length).sum out →
      whatLoop .fixed q prev todo out more = some res →
      Aligned ((prev ++ todo.map (·.1)).map List.length).sum res.1 := by
  intro todo
  induction todo with
  | nil => intro prev out more res _ h he; simp [whatLoop] at he; subst he; simpa using h
  | cons t rest ih =>
    intro prev out more res hn h he
    obtain ⟨cols, answers⟩ := t
    simp only [whatLoop] at he
    split at he
    · simp at he
    · rename_i r hr
      have hfold := lodLoop_eq_fold .fixed q _ cols answers 0 out r hr
      have hJ0 : J (prev.map List.length).sum cols.length [] out := by
        intro o ho
        have := h o ho
        simp [this.1, this.2]
      obtain ⟨seen', hJ⟩ := J_fold (prev.map List.length).sum cols (passRows .fixed q answers 0) [] out hJ0
        (hn (cols, answers) (by simp)) (by simp)
      have hal := endPass_aligned _ cols seen' _ hJ
      rw [← sum_append_single] at hal
      have := ih (prev ++ [cols]) _ _ res (fun t ht => hn t (by simp [ht])) (by
        simp only [padBefore] at hfold
        rw [hfold]; exact hal) he
      simpa [List.append_assoc] using this

/-! ## the page across the LOD split -/

/-- the window rows of all LODs that are not skipped, in visiting order (an error answer contributes nothing) -/
def candRows (q : Req) : List (Lod × Option (List (List Row))) → List Row
  | [] => []
  | (l, ans) :: rest =>
    if lodSkipped q l then candRows q rest
    else windowRows q.win (ans.getD []) ++ candRows q rest

theorem filter_take_all {α} (p : α → Bool) (l : List α) (n : Nat) (h : ∀ x ∈ l, p x = true) :
    (l.take n).filter p = l.take n := by
  apply List.filter_eq_self.2
  intro x hx
  exact h x (List.mem_of_mem_take hx)

theorem lodLoop_page (q : Req) (pad : Nat) (cols : List Nat) :
    ∀ (answers : List (Lod × Option (List (List Row)))) (cnt : Nat) (out : List ORow) (res : List ORow × Bool),
      (∀ r ∈ candRows q answers, timeSkipped q r = false) →
      lodLoop .fixed q pad cols answers cnt out = some res →
      res.1 = ((candRows q answers).take (q.limit - cnt).toNat).foldl (addRow pad cols) out ∧
      res.2 = decide ((q.limit - cnt).toNat < (candRows q answers).length) := by
  intro answers
  induction answers with
  | nil => intro cnt out res _ he; simp [lodLoop] at he; subst he; simp [candRows]
  | cons a rest ih =>
    intro cnt out res hts he
    obtain ⟨l, ans⟩ := a
    simp only [lodLoop] at he
    simp only [candRows] at hts ⊢
    split at he
    · rename_i hs; simp only [hs, if_true] at hts ⊢; exact ih _ _ _ hts he
    · rename_i hs
      simp only [hs, Bool.false_eq_true, if_false] at hts ⊢
      cases ans with
      | none => simp at he
      | some groups =>
        simp only [limitQueries_fixed, Option.getD_some] at he hts ⊢
        have hw : ∀ x ∈ windowRows q.win groups, (!timeSkipped q x) = true := by
          intro x hx; simp [hts x (by simp [hx])]
        rw [filter_take_all _ _ _ hw] at he
        by_cases hm : (q.limit - ↑cnt).toNat < (windowRows q.win groups).length
        · simp only [hm, decide_true, if_true] at he
          simp only [Option.some.injEq] at he; subst he
          simp only [List.length_append]
          refine ⟨?_, ?_⟩
          · rw [List.take_append_of_le_length (Nat.le_of_lt hm)]
          · simp; omega
        · simp only [hm, decide_false] at he
          have hle : (windowRows q.win groups).length ≤ (q.limit - ↑cnt).toNat := Nat.le_of_not_lt hm
          have hrest := ih _ _ _ (fun r hr => hts r (by simp [hr])) he
          rw [List.take_of_length_le hle] at hrest
          have hn : (q.limit - ↑(cnt + (windowRows q.win groups).length)).toNat
              = (q.limit - ↑cnt).toNat - (windowRows q.win groups).length := by
            omega
          rw [hn] at hrest
          refine ⟨?_, ?_⟩
          · rw [hrest.1, List.take_append, List.take_of_length_le hle, List.foldl_append]
          · rw [hrest.2]; simp only [List.length_append]
            by_cases hx : (q.limit - ↑cnt).toNat - (windowRows q.win groups).length < (candRows q rest).length
            · simp; omega
            · simp; omega

theorem candRows_inRange (q : Req) : ∀ (answers : List (Lod × Option (List (List Row)))) (r : Row),
    r ∈ candRows q answers → inRange q.win r = true := by
  intro answers
  induction answers with
  | nil => intro r h; simp [candRows] at h
  | cons a rest ih =>
    intro r h
    obtain ⟨l, ans⟩ := a
    simp only [candRows] at h
    split at h
    · exact ih r h
    · simp only [List.mem_append] at h
      rcases h with h | h
      · simp only [windowRows, List.mem_filter] at h; exact h.2
      · exact ih r h

/-! ## duplicate-free storage answers -/

/-- all rows of the storage answers of one requested function (errors contribute nothing) -/
def storedRows : List (Lod × Option (List (List Row))) → List Row
  | [] => []
  | (_, ans) :: rest => (ans.getD []).flatten ++ storedRows rest

def storedRowsDir (fe : Bool) : List (Lod × Option (List (List Row))) → List Row
  | [] => []
  | (_, ans) :: rest => (dir fe (ans.getD [])).flatten ++ storedRowsDir fe rest

theorem storedRowsDir_perm (fe : Bool) : ∀ answers, (storedRowsDir fe answers).Perm (storedRows answers) := by
  intro answers
  induction answers with
  | nil => simp [storedRowsDir, storedRows]
  | cons a rest ih =>
    obtain ⟨l, ans⟩ := a
    simp only [storedRowsDir, storedRows]
    refine List.Perm.append ?_ ih
    unfold dir
    split
    · exact (List.reverse_perm _).flatten
    · exact List.Perm.refl _

theorem passRows_sublist (q : Req) : ∀ (answers : List (Lod × Option (List (List Row)))) (cnt : Nat),
    (passRows .fixed q answers cnt).Sublist (storedRowsDir q.win.fromEnd answers) := by
  intro answers
  induction answers with
  | nil => intro cnt; simp [passRows, storedRowsDir]
  | cons a rest ih =>
    intro cnt
    obtain ⟨l, ans⟩ := a
    simp only [passRows, storedRowsDir]
    split
    · exact (ih cnt).trans (List.sublist_append_right _ _)
    · cases ans with
      | none => simp
      | some groups =>
        simp only [limitQueries_fixed, Option.getD_some]
        have hrows : (List.filter (fun r => !timeSkipped q r)
            (List.take (q.limit - ↑cnt).toNat (windowRows q.win groups))).Sublist (dir q.win.fromEnd groups).flatten :=
          List.filter_sublist.trans ((List.take_sublist _ _).trans List.filter_sublist)
        split
        · exact hrows.trans (List.sublist_append_left _ _)
        · exact List.Sublist.append hrows (ih _)

/-- storage answers without duplicate keys (per requested function, over all its LODs) never hand a key to the
    row loop twice -/
theorem noRepeat_of_nodup (q : Req) (todo : List (List Nat × List (Lod × Option (List (List Row)))))
    (h : ∀ t ∈ todo, ((storedRows t.2).map (·.key)).Nodup) : NoRepeat .fixed q todo := by
  intro t ht
  have h1 := ((storedRowsDir_perm q.win.fromEnd t.2).map (fun r : Row => r.key)).nodup_iff.2 (h t ht)
  exact List.Nodup.sublist ((passRows_sublist q t.2 0).map _) h1

/-! ## headline theorems on getTableFromLODs -/

/-- the per-handler-what work list getTable builds: columns, and the (LOD, answer) pairs in visiting order -/
def todoOf (q : Req) (lods : List Lod) (store : List (List (Option (List (List Row))))) :
    List (List Nat × List (Lod × Option (List (List Row)))) :=
  (q.cols.zip store).map (fun p => (p.1, dir q.win.fromEnd (lods.zip p.2)))

theorem getTable_some (v : Variant) (q : Req) (lods : List Lod) (store : List (List (Option (List (List Row)))))
    (rows : List ORow) (more : Bool) (h : getTable v q lods store = some (rows, more)) :
    ∃ r, whatLoop v q [] (todoOf q lods store) [] false = some r ∧ rows = sortRows q r.1 ∧ more = r.2 := by
  simp only [getTable, todoOf] at h ⊢
  split at h
  · simp at h
  · rename_i r hr
    simp only [Option.some.injEq, Prod.mk.injEq] at h
    exact ⟨r, hr, h.1.symm, h.2.symm⟩

/-- a key is acceptable for the request: in the row window and in the marker time range -/
def KeyOk (q : Req) (k : Key) : Prop := inRange q.win ⟨k, []⟩ = true ∧ timeSkipped q ⟨k, []⟩ = false

/-- **window_respected (table).** For every variant, LOD split, storage output, markers, direction and limit: every row
    of the table lies strictly between the two row markers and inside the marker time range. -/
theorem rows_in_window (v : Variant) (q : Req) (lods : List Lod) (store : List (List (Option (List (List Row)))))
    (rows : List ORow) (more : Bool) (h : getTable v q lods store = some (rows, more)) :
    ∀ o ∈ rows, KeyOk q o.key := by
  obtain ⟨r, hr, rfl, _⟩ := getTable_some v q lods store rows more h
  have := whatLoop_keys (fun ks => ∀ k ∈ ks, KeyOk q k) v q
    (by
      intro ks r' hks hin hts _ k hk
      simp only [List.mem_append, List.mem_singleton] at hk
      rcases hk with hk | rfl
      · exact hks k hk
      · exact ⟨hin, hts⟩)
    (todoOf q lods store) [] [] false r (by simp [keysOf]) hr
  intro o ho
  exact this o.key (by simp only [keysOf, List.mem_map]; exact ⟨o, (sortRows_perm q r.1).mem_iff.1 ho, rfl⟩)

/-- **rows_unique_by_time_tags.** For every variant and every input no two rows of the table have the same
    (time, tags, string-top value). -/
theorem rows_unique_by_time_tags (v : Variant) (q : Req) (lods : List Lod) (store : List (List (Option (List (List Row)))))
    (rows : List ORow) (more : Bool) (h : getTable v q lods store = some (rows, more)) :
    (rows.map (·.key)).Nodup := by
  obtain ⟨r, hr, rfl, _⟩ := getTable_some v q lods store rows more h
  have := whatLoop_keys (fun ks => ks.Nodup) v q
    (by
      intro ks r' hks _ _ hnot
      exact List.nodup_append.2 ⟨hks, by simp, by
        intro a ha b hb
        simp only [List.mem_singleton] at hb
        subst hb
        exact fun e => hnot (e ▸ ha)⟩)
    (todoOf q lods store) [] [] false r (by simp [keysOf]) hr
  exact ((sortRows_perm q r.1).map (fun o : ORow => o.key)).nodup_iff.2 this

/-! ### sorted -/

theorem lessDir_asymm (q : Req) (a b : ORow) (h : lessDir q a b = true) : ¬ lessDir q b a = true := by
  unfold lessDir at *
  by_cases hf : q.win.fromEnd = true
  · simp only [hf, if_true] at h ⊢; exact less_asymm _ _ h
  · simp only [hf] at h ⊢; exact less_asymm _ _ h

theorem lessDir_negtrans (q : Req) (a b c : ORow) (h : lessDir q a c = true) :
    lessDir q a b = true ∨ lessDir q b c = true := by
  unfold lessDir at *
  by_cases hf : q.win.fromEnd = true
  · simp only [hf, if_true] at h ⊢; exact (less_negtrans _ (reprOf q b.key) _ h).symm
  · simp only [hf] at h ⊢; exact less_negtrans _ (reprOf q b.key) _ h

/-- `a` may stand before `b`: `b` is not strictly less than `a` in the requested direction -/
def NotAfter (q : Req) (a b : ORow) : Prop := ¬ lessDir q b a = true

theorem insertRow_sorted (q : Req) (x : ORow) : ∀ l : List ORow, l.Pairwise (NotAfter q) →
    (insertRow q x l).Pairwise (NotAfter q) := by
  intro l
  induction l with
  | nil => intro _; simp [insertRow]
  | cons y ys ih =>
    intro hp
    have hy := List.pairwise_cons.1 hp
    simp only [insertRow]
    split
    · rename_i hb
      have hxy : NotAfter q x y := by
        simp only [before, Bool.or_eq_true, Bool.and_eq_true, Bool.not_eq_true'] at hb
        rcases hb with hb | hb
        · exact lessDir_asymm q x y hb
        · simp [NotAfter, hb.1]
      refine List.pairwise_cons.2 ⟨?_, hp⟩
      intro z hz
      simp only [List.mem_cons] at hz
      rcases hz with rfl | hz
      · exact hxy
      · intro hzx
        rcases lessDir_negtrans q z y x hzx with g | g
        · exact hy.1 z hz g
        · exact hxy g
    · rename_i hb
      have hyx : NotAfter q y x := by
        intro g
        apply hb
        simp [before, g]
      refine List.pairwise_cons.2 ⟨?_, ih hy.2⟩
      intro z hz
      have := (insertRow_perm q x ys).mem_iff.1 hz
      simp only [List.mem_cons] at this
      rcases this with rfl | hz'
      · exact hyx
      · exact hy.1 z hz'

theorem sortRows_sorted (q : Req) : ∀ l : List ORow, (sortRows q l).Pairwise (NotAfter q) := by
  intro l
  induction l with
  | nil => simp [sortRows]
  | cons x xs ih => simp only [sortRows]; exact insertRow_sorted q x _ ih

/-- **sorted.** For every variant and every input the table is ordered by the visible row key (time, grouped tags,
    string-top value — queryTableRows.Less) in the requested direction: no later row is strictly less than an
    earlier one (ascending), resp. strictly greater (fromEnd). -/
theorem rows_sorted (v : Variant) (q : Req) (lods : List Lod) (store : List (List (Option (List (List Row)))))
    (rows : List ORow) (more : Bool) (h : getTable v q lods store = some (rows, more)) :
    rows.Pairwise (fun a b =>
      if q.win.fromEnd then ¬ less (reprOf q a.key) (reprOf q b.key) = true
      else ¬ less (reprOf q b.key) (reprOf q a.key) = true) := by
  obtain ⟨r, _, rfl, _⟩ := getTable_some v q lods store rows more h
  refine (sortRows_sorted q r.1).imp ?_
  intro a b hab
  simp only [NotAfter, lessDir] at hab
  split <;> simp_all

/-! ### one column per requested function -/

/-- **one_column_per_function.** For every LOD split, storage output, markers, direction and limit: if every
    requested handler-what has a storage answer list and the storage answers of one handler-what (over all its LODs)
    contain no key twice (what GROUP BY over disjoint LODs returns; otherwise the values are appended twice), every row
    of the table has exactly one column per requested function. Answers of different handler-whats may differ freely. -/
theorem one_column_per_function (q : Req) (lods : List Lod) (store : List (List (Option (List (List Row)))))
    (rows : List ORow) (more : Bool) (hs : q.cols.length ≤ store.length)
    (hnd : ∀ t ∈ todoOf q lods store, ((storedRows t.2).map (·.key)).Nodup)
    (h : getTable .fixed q lods store = some (rows, more)) :
    ∀ o ∈ rows, o.data.length = (q.cols.map List.length).sum := by
  have hn := noRepeat_of_nodup q _ hnd
  obtain ⟨r, hr, rfl, _⟩ := getTable_some .fixed q lods store rows more h
  have := whatLoop_aligned q (todoOf q lods store) [] [] false r hn (by intro o ho; simp at ho) hr
  have hcols : (todoOf q lods store).map (·.1) = q.cols := by
    simp only [todoOf, List.map_map]
    have : ((fun x : List Nat × List (Lod × Option (List (List Row))) => x.1) ∘
        fun p : List Nat × List (Option (List (List Row))) => (p.1, dir q.win.fromEnd (lods.zip p.2))) = Prod.fst := by
      funext p; rfl
    rw [this]
    exact List.map_fst_zip hs
  simp only [List.nil_append, hcols] at this
  intro o ho
  exact (this o ((sortRows_perm q r.1).mem_iff.1 ho)).2

/-- old code: two handler-whats with 2 and 1 columns; a row that only the second answer contains gets
    1 NaN + 1 value = 2 columns for 3 requested functions -/
def reqPad : Req := { win := wAll, limit := 10, gby := [0], bySkey := false, cols := [[0, 1], [2]] }
def storePad : List (List (Option (List (List Row)))) :=
  [[some [[⟨⟨10, [1], 0⟩, [5, 6, 7]⟩]]], [some [[⟨⟨10, [2], 0⟩, [8, 9, 4]⟩]]]]

example : (getTable .old reqPad [⟨10, 11⟩] storePad).map (fun r => r.1.map (fun o => o.data.length)) = some [3, 2] := by decide
example : (getTable .fixed reqPad [⟨10, 11⟩] storePad).map (fun r => r.1.map (fun o => o.data)) =
    some [[some 5, some 6, none], [none, none, some 4]] := by decide
/-- non-vacuity of `rows_in_window`, `rows_unique_by_time_tags`, `rows_sorted` (hypothesis `getTable … = some …`): the
    same request descending — the row created by the second handler-what is moved in front by the final sort -/
example : (getTable .fixed { reqPad with win := { wAll with fromEnd := true } } [⟨10, 11⟩] storePad).map
    (fun r => r.1.map (fun o => o.key.tags)) = some [[2], [1]] := by decide
/-- non-vacuity of `one_column_per_function`: its hypotheses hold on this input -/
example : reqPad.cols.length ≤ storePad.length ∧
    ∀ t ∈ todoOf reqPad [⟨10, 11⟩] storePad, ((storedRows t.2).map (·.key)).Nodup := by decide

/-- key membership after the row loop -/
theorem mem_keys_fold (pad : Nat) (cols : List Nat) : ∀ (rows : List Row) (out : List ORow) (k : Key),
    k ∈ keysOf (rows.foldl (addRow pad cols) out) ↔ k ∈ keysOf out ∨ k ∈ rows.map (·.key) := by
  intro rows
  induction rows with
  | nil => intro out k; simp
  | cons r rs ih =>
    intro out k
    simp only [List.foldl_cons, ih, keys_addRow, List.map_cons, List.mem_cons]
    split
    · rename_i hk
      have := (hasKey_iff out r.key).1 hk
      constructor
      · rintro (g | g)
        · exact Or.inl g
        · exact Or.inr (Or.inr g)
      · rintro (g | g | g)
        · exact Or.inl g
        · exact Or.inl (g ▸ this)
        · exact Or.inr g
    · simp only [List.mem_append, List.mem_singleton]
      constructor
      · rintro ((g | g) | g)
        · exact Or.inl g
        · exact Or.inr (Or.inl g)
        · exact Or.inr (Or.inr g)
      · rintro (g | g | g)
        · exact Or.inl (Or.inl g)
        · exact Or.inl (Or.inr g)
        · exact Or.inr g

/-- the page of one requested function: the first `limit` window rows over all visited LODs -/
def pageRows (q : Req) (answers : List (Lod × Option (List (List Row)))) : List Row :=
  (candRows q answers).take q.limit.toNat

theorem whatLoop_page (q : Req) :
    ∀ (todo : List (List Nat × List (Lod × Option (List (List Row))))) (prev : List (List Nat)) (out : List ORow) (more : Bool)
      (res : List ORow × Bool),
      (∀ t ∈ todo, ∀ r ∈ candRows q t.2, timeSkipped q r = false) →
      whatLoop .fixed q prev todo out more = some res →
      (res.2 = (more || todo.any (fun t => decide (q.limit.toNat < (candRows q t.2).length)))) ∧
      (∀ k, k ∈ keysOf res.1 ↔ k ∈ keysOf out ∨ ∃ t ∈ todo, k ∈ (pageRows q t.2).map (·.key)) := by
  intro todo
  induction todo with
  | nil => intro prev out more res _ he; simp [whatLoop] at he; subst he; simp
  | cons t rest ih =>
    intro prev out more res hts he
    obtain ⟨cols, answers⟩ := t
    simp only [whatLoop] at he
    split at he
    · simp at he
    · rename_i r hr
      have hp := lodLoop_page q _ cols answers 0 out r (hts (cols, answers) (by simp)) hr
      have hz : (q.limit - ((0 : Nat) : Int)).toNat = q.limit.toNat := by simp
      rw [hz] at hp
      have := ih _ _ _ res (fun t ht => hts t (by simp [ht])) he
      refine ⟨?_, ?_⟩
      · rw [this.1, hp.2]; simp [Bool.or_assoc]
      · intro k
        rw [this.2 k, keys_endPass, hp.1, mem_keys_fold]
        simp only [pageRows, List.mem_cons, exists_eq_or_imp, or_assoc]

/-- **window_respected / has_more_iff (whole table).** For every LOD split, storage output without error, markers,
    direction and limit (row times not negative): the table holds exactly the keys of the pages of the requested
    functions — per function the first `limit` rows of the window over the visited LODs in visiting order — and the
    has-more flag is set iff for some requested function the window holds more than `limit` rows. With answers that
    agree across functions this is: exactly the first `limit` window rows, has-more iff rows beyond the limit exist. -/
theorem table_page (q : Req) (lods : List Lod) (store : List (List (Option (List (List Row)))))
    (rows : List ORow) (more : Bool)
    (hpos : ∀ t ∈ todoOf q lods store, ∀ r ∈ candRows q t.2, 0 ≤ r.key.time)
    (h : getTable .fixed q lods store = some (rows, more)) :
    (more = true ↔ ∃ t ∈ todoOf q lods store, q.limit.toNat < (candRows q t.2).length) ∧
    (∀ k, k ∈ rows.map (·.key) ↔ ∃ t ∈ todoOf q lods store, k ∈ (pageRows q t.2).map (·.key)) := by
  obtain ⟨r, hr, rfl, rfl⟩ := getTable_some .fixed q lods store rows more h
  have hts : ∀ t ∈ todoOf q lods store, ∀ x ∈ candRows q t.2, timeSkipped q x = false := by
    intro t ht x hx
    exact inRange_not_timeSkipped q x (candRows_inRange q t.2 x hx) (hpos t ht x hx)
  have := whatLoop_page q (todoOf q lods store) [] [] false r hts hr
  refine ⟨?_, ?_⟩
  · rw [this.1]; simp [List.any_eq_true]
  · intro k
    have hk := this.2 k
    simp only [keysOf, List.map_nil, List.not_mem_nil, false_or] at hk
    rw [← hk]
    exact ((sortRows_perm q r.1).map (·.key)).mem_iff

/-- a two-LOD request: limit 2, three window rows spread over both LODs -/
def reqPage : Req := { win := wAll, limit := 2, gby := [0], bySkey := false, cols := [[0]] }
def storePage : List (List (Option (List (List Row)))) :=
  [[some [[rowT 10 1, rowT 10 2]], some [[rowT 11 1], []]]]
def lodsPage : List Lod := [⟨10, 11⟩, ⟨11, 13⟩]

example : (getTable .fixed reqPage lodsPage storePage).map (fun r => (r.1.map (fun o => o.key), r.2)) =
    some ([⟨10, [1], 0⟩, ⟨10, [2], 0⟩], true) := by decide
/-- old code on the same request with limit 2 reached at the end of the first LOD and an empty second answer -/
example : (getTable .old reqPage lodsPage [[some [[rowT 10 1, rowT 10 2]], some [[], []]]]).map (·.2) = some true := by decide
example : (getTable .fixed reqPage lodsPage [[some [[rowT 10 1, rowT 10 2]], some [[], []]]]).map (·.2) = some false := by decide
/-- non-vacuity of `table_page` -/
example : ∀ t ∈ todoOf reqPage lodsPage storePage, ∀ r ∈ candRows reqPage t.2, 0 ≤ r.key.time := by decide

end SH.C25
