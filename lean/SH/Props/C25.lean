/-
  C25 — Table queries assemble aligned, unique, ordered rows.

  "For any split of a query into levels of detail and any storage output, every table row has exactly one
   column per requested function (missing values are NaN), rows are unique by time and tags and sorted in the
   requested direction, the requested row window and limit are respected, and the has-more flag is set exactly
   when rows beyond the limit exist."

  Model: SH.Model.Table. `Variant.fixed` is internal/api/table.go after /verif/fixes/C25-table-window-limit-columns.diff,
  `Variant.old` the code before it (kept to exhibit the defects by `decide`, section "old code").
  Storage (`loadPoints`) is an arbitrary input: per handler-what and per LOD an error or any list of time groups.

  Reading of the sentence, clause by clause
  * window = rows strictly after the `from` marker and strictly before the `to` marker in the requested direction
    (`inRange`, both markers exclusive as in Test_limitQueries; a marker with time 0 is absent);
  * "window and limit respected / has-more exact", per storage answer: `limitQueries_window_limit`;
    across the LOD split, per requested function: `lodLoop_page`; for the whole table: `table_page`;
    every returned row is in the window: `rows_in_window`;
  * unique by time and tags: `rows_unique_by_time_tags` (the key is what the code indexes by: time, all tags, skey);
  * sorted: `rows_sorted` (ascending by queryTableRows.Less, descending with fromEnd);
  * one column per requested function: `one_column_per_function` — needs that the storage answers of one handler-what
    contain no key twice (a duplicate key gets its values appended twice; GROUP BY never returns one).
  Not proved here: that the non-NaN cells are the storage values of that key (checked by the correspondence and the
  direct oracle `table-value` only).
-/
import SH.Lemmas.TableWhats

namespace SH.C25
open SH.Table

/-! ## limitQueries: the window and the limit are respected, has-more is exact -/

/-- **window_respected / has_more_iff (one storage answer).** For every window, every storage answer and every limit
    the fixed limitQueries returns exactly the first `limit` rows of the window in visiting order, and reports
    has-more iff the window holds more than `limit` rows. (`limit ≤ 0` counts as 0.) -/
theorem limitQueries_window_limit (w : Win) (groups : List (List Row)) (limit : Int) :
    (limitQueries .fixed w groups limit).1 = (windowRows w groups).take limit.toNat ∧
    ((limitQueries .fixed w groups limit).2 = true ↔ limit.toNat < (windowRows w groups).length) := by
  simp [limitQueries_fixed]

/-! ### old code: the same statement is false (design-round findings F9a, F9b and the limit-0 shortcut) -/

def wMid : Win := { frm := ⟨10, [(0, 3)], 0⟩, to := ⟨10, [(0, 7)], 0⟩, fromEnd := false }
def wTo : Win := { frm := ⟨0, [], 0⟩, to := ⟨10, [(0, 5)], 0⟩, fromEnd := false }
def wAll : Win := { frm := ⟨0, [], 0⟩, to := ⟨0, [], 0⟩, fromEnd := false }
def rowT (t : Int) (tag0 : Int) : Row := ⟨⟨t, [tag0], 0⟩, [1]⟩

/-- F9a: first and last row of the group are outside the window, the middle one is inside: the old code drops it -/
example : limitQueries .old wMid [[rowT 10 1, rowT 10 5, rowT 10 9]] 10 = ([], false) := by decide
example : windowRows wMid [[rowT 10 1, rowT 10 5, rowT 10 9]] = [rowT 10 5] := by decide
example : limitQueries .fixed wMid [[rowT 10 1, rowT 10 5, rowT 10 9]] 10 = ([rowT 10 5], false) := by decide
/-- F9b: the row met after the limit is beyond the `to` marker: the old code reports has-more -/
example : limitQueries .old wTo [[rowT 10 3, rowT 10 7]] 1 = ([rowT 10 3], true) := by decide
example : (windowRows wTo [[rowT 10 3, rowT 10 7]]).length = 1 := by decide
example : limitQueries .fixed wTo [[rowT 10 3, rowT 10 7]] 1 = ([rowT 10 3], false) := by decide
/-- limit 0 (page filled by the previous LOD), the next answer has two empty time groups: the old code reports has-more -/
example : limitQueries .old wAll [[], []] 0 = ([], true) := by decide
example : limitQueries .fixed wAll [[], []] 0 = ([], false) := by decide
/-- hence `limitQueries_window_limit` does not hold of the old variant -/
example : ¬ ((limitQueries .old wMid [[rowT 10 1, rowT 10 5, rowT 10 9]] 10).1
            = (windowRows wMid [[rowT 10 1, rowT 10 5, rowT 10 9]]).take (10 : Int).toNat) := by decide
example : ¬ ((limitQueries .old wTo [[rowT 10 3, rowT 10 7]] 1).2 = true ↔
            (1 : Int).toNat < (windowRows wTo [[rowT 10 3, rowT 10 7]]).length) := by decide

/-! ## headline theorems on getTableFromLODs -/

/-- the per-handler-what work list getTable builds: columns, and the (LOD, answer) pairs in visiting order -/
def todoOf (q : Req) (lods : List Lod) (store : List (List (Option (List (List Row))))) :
    List (List Nat × List (Lod × Option (List (List Row)))) :=
  (q.cols.zip store).map (fun p => (p.1, dir q.win.fromEnd (lods.zip p.2)))

theorem getTable_some (v : Variant) (q : Req) (lods : List Lod) (store : List (List (Option (List (List Row)))))
    (rows : List ORow) (more : Bool) (h : getTable v q lods store = some (rows, more)) :
    ∃ r, whatLoop v q [] (todoOf q lods store) [] false = some r ∧ rows = sortRows q r.1 ∧ more = r.2 := by
  simp only [getTable, todoOf] at h ⊢
  split at h
  · simp at h
  · rename_i r hr
    simp only [Option.some.injEq, Prod.mk.injEq] at h
    exact ⟨r, hr, h.1.symm, h.2.symm⟩

/-- a key is acceptable for the request: in the row window and in the marker time range -/
def KeyOk (q : Req) (k : Key) : Prop := inRange q.win ⟨k, []⟩ = true ∧ timeSkipped q ⟨k, []⟩ = false

/-- **window_respected (table).** For every variant, LOD split, storage output, markers, direction and limit: every row
    of the table lies strictly between the two row markers and inside the marker time range. -/
theorem rows_in_window (v : Variant) (q : Req) (lods : List Lod) (store : List (List (Option (List (List Row)))))
    (rows : List ORow) (more : Bool) (h : getTable v q lods store = some (rows, more)) :
    ∀ o ∈ rows, KeyOk q o.key := by
  obtain ⟨r, hr, rfl, _⟩ := getTable_some v q lods store rows more h
  have := whatLoop_keys (fun ks => ∀ k ∈ ks, KeyOk q k) v q
    (by
      intro ks r' hks hin hts _ k hk
      simp only [List.mem_append, List.mem_singleton] at hk
      rcases hk with hk | rfl
      · exact hks k hk
      · exact ⟨hin, hts⟩)
    (todoOf q lods store) [] [] false r (by simp [keysOf]) hr
  intro o ho
  exact this o.key (by simp only [keysOf, List.mem_map]; exact ⟨o, (sortRows_perm q r.1).mem_iff.1 ho, rfl⟩)

/-- **rows_unique_by_time_tags.** For every variant and every input no two rows of the table have the same
    (time, tags, string-top value). -/
theorem rows_unique_by_time_tags (v : Variant) (q : Req) (lods : List Lod) (store : List (List (Option (List (List Row)))))
    (rows : List ORow) (more : Bool) (h : getTable v q lods store = some (rows, more)) :
    (rows.map (·.key)).Nodup := by
  obtain ⟨r, hr, rfl, _⟩ := getTable_some v q lods store rows more h
  have := whatLoop_keys (fun ks => ks.Nodup) v q
    (by
      intro ks r' hks _ _ hnot
      exact List.nodup_append.2 ⟨hks, by simp, by
        intro a ha b hb
        simp only [List.mem_singleton] at hb
        subst hb
        exact fun e => hnot (e ▸ ha)⟩)
    (todoOf q lods store) [] [] false r (by simp [keysOf]) hr
  exact ((sortRows_perm q r.1).map (fun o : ORow => o.key)).nodup_iff.2 this

/-! ### sorted -/

theorem lessDir_asymm (q : Req) (a b : ORow) (h : lessDir q a b = true) : ¬ lessDir q b a = true := by
  unfold lessDir at *
  by_cases hf : q.win.fromEnd = true
  · simp only [hf, if_true] at h ⊢; exact less_asymm _ _ h
  · simp only [hf] at h ⊢; exact less_asymm _ _ h

theorem lessDir_negtrans (q : Req) (a b c : ORow) (h : lessDir q a c = true) :
    lessDir q a b = true ∨ lessDir q b c = true := by
  unfold lessDir at *
  by_cases hf : q.win.fromEnd = true
  · simp only [hf, if_true] at h ⊢; exact (less_negtrans _ (reprOf q b.key) _ h).symm
  · simp only [hf] at h ⊢; exact less_negtrans _ (reprOf q b.key) _ h

/-- `a` may stand before `b`: `b` is not strictly less than `a` in the requested direction -/
def NotAfter (q : Req) (a b : ORow) : Prop := ¬ lessDir q b a = true

theorem insertRow_sorted (q : Req) (x : ORow) : ∀ l : List ORow, l.Pairwise (NotAfter q) →
    (insertRow q x l).Pairwise (NotAfter q) := by
  intro l
  induction l with
  | nil => intro _; simp [insertRow]
  | cons y ys ih =>
    intro hp
    have hy := List.pairwise_cons.1 hp
    simp only [insertRow]
    split
    · rename_i hb
      have hxy : NotAfter q x y := by
        simp only [before, Bool.or_eq_true, Bool.and_eq_true, Bool.not_eq_true'] at hb
        rcases hb with hb | hb
        · exact lessDir_asymm q x y hb
        · simp [NotAfter, hb.1]
      refine List.pairwise_cons.2 ⟨?_, hp⟩
      intro z hz
      simp only [List.mem_cons] at hz
      rcases hz with rfl | hz
      · exact hxy
      · intro hzx
        rcases lessDir_negtrans q z y x hzx with g | g
        · exact hy.1 z hz g
        · exact hxy g
    · rename_i hb
      have hyx : NotAfter q y x := by
        intro g
        apply hb
        simp [before, g]
      refine List.pairwise_cons.2 ⟨?_, ih hy.2⟩
      intro z hz
      have := (insertRow_perm q x ys).mem_iff.1 hz
      simp only [List.mem_cons] at this
      rcases this with rfl | hz'
      · exact hyx
      · exact hy.1 z hz'

theorem sortRows_sorted (q : Req) : ∀ l : List ORow, (sortRows q l).Pairwise (NotAfter q) := by
  intro l
  induction l with
  | nil => simp [sortRows]
  | cons x xs ih => simp only [sortRows]; exact insertRow_sorted q x _ ih

/-- **sorted.** For every variant and every input the table is ordered by the visible row key (time, grouped tags,
    string-top value — queryTableRows.Less) in the requested direction: no later row is strictly less than an
    earlier one (ascending), resp. strictly greater (fromEnd). -/
theorem rows_sorted (v : Variant) (q : Req) (lods : List Lod) (store : List (List (Option (List (List Row)))))
    (rows : List ORow) (more : Bool) (h : getTable v q lods store = some (rows, more)) :
    rows.Pairwise (fun a b =>
      if q.win.fromEnd then ¬ less (reprOf q a.key) (reprOf q b.key) = true
      else ¬ less (reprOf q b.key) (reprOf q a.key) = true) := by
  obtain ⟨r, _, rfl, _⟩ := getTable_some v q lods store rows more h
  refine (sortRows_sorted q r.1).imp ?_
  intro a b hab
  simp only [NotAfter, lessDir] at hab
  split <;> simp_all

/-! ### one column per requested function -/

/-- **one_column_per_function.** For every LOD split, storage output, markers, direction and limit: if every
    requested handler-what has a storage answer list and the storage answers of one handler-what (over all its LODs)
    contain no key twice (what GROUP BY over disjoint LODs returns; otherwise the values are appended twice), every row
    of the table has exactly one column per requested function. Answers of different handler-whats may differ freely. -/
theorem one_column_per_function (q : Req) (lods : List Lod) (store : List (List (Option (List (List Row)))))
    (rows : List ORow) (more : Bool) (hs : q.cols.length ≤ store.length)
    (hnd : ∀ t ∈ todoOf q lods store, ((storedRows t.2).map (·.key)).Nodup)
    (h : getTable .fixed q lods store = some (rows, more)) :
    ∀ o ∈ rows, o.data.length = (q.cols.map List.length).sum := by
  have hn := noRepeat_of_nodup q _ hnd
  obtain ⟨r, hr, rfl, _⟩ := getTable_some .fixed q lods store rows more h
  have := whatLoop_aligned q (todoOf q lods store) [] [] false r hn (by intro o ho; simp at ho) hr
  have hcols : (todoOf q lods store).map (·.1) = q.cols := by
    simp only [todoOf, List.map_map]
    have : ((fun x : List Nat × List (Lod × Option (List (List Row))) => x.1) ∘
        fun p : List Nat × List (Option (List (List Row))) => (p.1, dir q.win.fromEnd (lods.zip p.2))) = Prod.fst := by
      funext p; rfl
    rw [this]
    exact List.map_fst_zip hs
  simp only [List.nil_append, hcols] at this
  intro o ho
  exact (this o ((sortRows_perm q r.1).mem_iff.1 ho)).2

/-- old code: two handler-whats with 2 and 1 columns; a row that only the second answer contains gets
    1 NaN + 1 value = 2 columns for 3 requested functions -/
def reqPad : Req := { win := wAll, limit := 10, gby := [0], bySkey := false, cols := [[0, 1], [2]] }
def storePad : List (List (Option (List (List Row)))) :=
  [[some [[⟨⟨10, [1], 0⟩, [5, 6, 7]⟩]]], [some [[⟨⟨10, [2], 0⟩, [8, 9, 4]⟩]]]]

example : (getTable .old reqPad [⟨10, 11⟩] storePad).map (fun r => r.1.map (fun o => o.data.length)) = some [3, 2] := by decide
example : (getTable .fixed reqPad [⟨10, 11⟩] storePad).map (fun r => r.1.map (fun o => o.data)) =
    some [[some 5, some 6, none], [none, none, some 4]] := by decide
/-- non-vacuity of `rows_in_window`, `rows_unique_by_time_tags`, `rows_sorted` (hypothesis `getTable … = some …`): the
    same request descending — the row created by the second handler-what is moved in front by the final sort -/
example : (getTable .fixed { reqPad with win := { wAll with fromEnd := true } } [⟨10, 11⟩] storePad).map
    (fun r => r.1.map (fun o => o.key.tags)) = some [[2], [1]] := by decide
/-- non-vacuity of `one_column_per_function`: its hypotheses hold on this input -/
example : reqPad.cols.length ≤ storePad.length ∧
    ∀ t ∈ todoOf reqPad [⟨10, 11⟩] storePad, ((storedRows t.2).map (·.key)).Nodup := by decide

/-- key membership after the row loop -/
theorem mem_keys_fold (pad : Nat) (cols : List Nat) : ∀ (rows : List Row) (out : List ORow) (k : Key),
    k ∈ keysOf (rows.foldl (addRow pad cols) out) ↔ k ∈ keysOf out ∨ k ∈ rows.map (·.key) := by
  intro rows
  induction rows with
  | nil => intro out k; simp
  | cons r rs ih =>
    intro out k
    simp only [List.foldl_cons, ih, keys_addRow, List.map_cons, List.mem_cons]
    split
    · rename_i hk
      have := (hasKey_iff out r.key).1 hk
      constructor
      · rintro (g | g)
        · exact Or.inl g
        · exact Or.inr (Or.inr g)
      · rintro (g | g | g)
        · exact Or.inl g
        · exact Or.inl (g ▸ this)
        · exact Or.inr g
    · simp only [List.mem_append, List.mem_singleton]
      constructor
      · rintro ((g | g) | g)
        · exact Or.inl g
        · exact Or.inr (Or.inl g)
        · exact Or.inr (Or.inr g)
      · rintro (g | g | g)
        · exact Or.inl (Or.inl g)
        · exact Or.inl (Or.inr g)
        · exact Or.inr g

/-- the page of one requested function: the first `limit` window rows over all visited LODs -/
def pageRows (q : Req) (answers : List (Lod × Option (List (List Row)))) : List Row :=
  (candRows q answers).take q.limit.toNat

theorem whatLoop_page (q : Req) :
    ∀ (todo : List (List Nat × List (Lod × Option (List (List Row))))) (prev : List (List Nat)) (out : List ORow) (more : Bool)
      (res : List ORow × Bool),
      (∀ t ∈ todo, ∀ r ∈ candRows q t.2, timeSkipped q r = false) →
      whatLoop .fixed q prev todo out more = some res →
      (res.2 = (more || todo.any (fun t => decide (q.limit.toNat < (candRows q t.2).length)))) ∧
      (∀ k, k ∈ keysOf res.1 ↔ k ∈ keysOf out ∨ ∃ t ∈ todo, k ∈ (pageRows q t.2).map (·.key)) := by
  intro todo
  induction todo with
  | nil => intro prev out more res _ he; simp [whatLoop] at he; subst he; simp
  | cons t rest ih =>
    intro prev out more res hts he
    obtain ⟨cols, answers⟩ := t
    simp only [whatLoop] at he
    split at he
    · simp at he
    · rename_i r hr
      have hp := lodLoop_page q _ cols answers 0 out r (hts (cols, answers) (by simp)) hr
      have hz : (q.limit - ((0 : Nat) : Int)).toNat = q.limit.toNat := by simp
      rw [hz] at hp
      have := ih _ _ _ res (fun t ht => hts t (by simp [ht])) he
      refine ⟨?_, ?_⟩
      · rw [this.1, hp.2]; simp [Bool.or_assoc]
      · intro k
        rw [this.2 k, keys_endPass, hp.1, mem_keys_fold]
        simp only [pageRows, List.mem_cons, exists_eq_or_imp, or_assoc]

/-- **window_respected / has_more_iff (whole table).** For every LOD split, storage output without error, markers,
    direction and limit (row times not negative): the table holds exactly the keys of the pages of the requested
    functions — per function the first `limit` rows of the window over the visited LODs in visiting order — and the
    has-more flag is set iff for some requested function the window holds more than `limit` rows. With answers that
    agree across functions this is: exactly the first `limit` window rows, has-more iff rows beyond the limit exist. -/
theorem table_page (q : Req) (lods : List Lod) (store : List (List (Option (List (List Row)))))
    (rows : List ORow) (more : Bool)
    (hpos : ∀ t ∈ todoOf q lods store, ∀ r ∈ candRows q t.2, 0 ≤ r.key.time)
    (h : getTable .fixed q lods store = some (rows, more)) :
    (more = true ↔ ∃ t ∈ todoOf q lods store, q.limit.toNat < (candRows q t.2).length) ∧
    (∀ k, k ∈ rows.map (·.key) ↔ ∃ t ∈ todoOf q lods store, k ∈ (pageRows q t.2).map (·.key)) := by
  obtain ⟨r, hr, rfl, rfl⟩ := getTable_some .fixed q lods store rows more h
  have hts : ∀ t ∈ todoOf q lods store, ∀ x ∈ candRows q t.2, timeSkipped q x = false := by
    intro t ht x hx
    exact inRange_not_timeSkipped q x (candRows_inRange q t.2 x hx) (hpos t ht x hx)
  have := whatLoop_page q (todoOf q lods store) [] [] false r hts hr
  refine ⟨?_, ?_⟩
  · rw [this.1]; simp [List.any_eq_true]
  · intro k
    have hk := this.2 k
    simp only [keysOf, List.map_nil, List.not_mem_nil, false_or] at hk
    rw [← hk]
    exact ((sortRows_perm q r.1).map (·.key)).mem_iff

/-- a two-LOD request: limit 2, three window rows spread over both LODs -/
def reqPage : Req := { win := wAll, limit := 2, gby := [0], bySkey := false, cols := [[0]] }
def storePage : List (List (Option (List (List Row)))) :=
  [[some [[rowT 10 1, rowT 10 2]], some [[rowT 11 1], []]]]
def lodsPage : List Lod := [⟨10, 11⟩, ⟨11, 13⟩]

example : (getTable .fixed reqPage lodsPage storePage).map (fun r => (r.1.map (fun o => o.key), r.2)) =
    some ([⟨10, [1], 0⟩, ⟨10, [2], 0⟩], true) := by decide
/-- old code on the same request with limit 2 reached at the end of the first LOD and an empty second answer -/
example : (getTable .old reqPage lodsPage [[some [[rowT 10 1, rowT 10 2]], some [[], []]]]).map (·.2) = some true := by decide
example : (getTable .fixed reqPage lodsPage [[some [[rowT 10 1, rowT 10 2]], some [[], []]]]).map (·.2) = some false := by decide
/-- non-vacuity of `table_page` -/
example : ∀ t ∈ todoOf reqPage lodsPage storePage, ∀ r ∈ candRows reqPage t.2, 0 ≤ r.key.time := by decide

/-! ## the content of the cells: storage values, NaN exactly where a function has no row for the key -/

/-- **cell_content.** For every LOD split, storage output, markers, direction and limit (storage answers of one
    handler-what without duplicate keys): the data of every table row is, handler-what by handler-what in request
    order, `cellBlock`: the value fields (one per column of that handler-what) of the storage row with the table row's
    key that the pass of that handler-what handed to the row loop — whichever LOD produced it —, and one NaN per
    column if that pass handed over no row with that key. `cellBlock_value` / `cellBlock_nan_iff` spell the two cases
    out; `cell_content_page` identifies the rows handed over with the page of the function. -/
theorem cell_content (q : Req) (lods : List Lod) (store : List (List (Option (List (List Row)))))
    (rows : List ORow) (more : Bool)
    (hnd : ∀ t ∈ todoOf q lods store, ((storedRows t.2).map (·.key)).Nodup)
    (h : getTable .fixed q lods store = some (rows, more)) :
    ∀ o ∈ rows, o.data = (todoOf q lods store).flatMap (fun t => cellBlock t.1 (passRows .fixed q t.2 0) o.key) := by
  have hn := noRepeat_of_nodup q _ hnd
  obtain ⟨r, hr, rfl, _⟩ := getTable_some .fixed q lods store rows more h
  have := whatLoop_filled q (todoOf q lods store) [] [] false r hn (by simp [Filled, keysOf]) (by simpa using hr)
  intro o ho
  have := (this.1 o ((sortRows_perm q r.1).mem_iff.1 ho)).2
  simpa [cellsOf] using this

/-- **cell_content (pages).** Without storage errors and with row times ≥ 0: a cell block of the table row with key `k`
    shows the storage values of the row with key `k` on the page of that function (the first `limit` rows of its
    window over the visited LODs), and is NaN in every column iff that page holds no row with key `k` — i.e. iff the
    storage returned no row for that key and function inside the requested window and limit. -/
theorem cell_content_page (q : Req) (lods : List Lod) (store : List (List (Option (List (List Row)))))
    (rows : List ORow) (more : Bool)
    (hnd : ∀ t ∈ todoOf q lods store, ((storedRows t.2).map (·.key)).Nodup)
    (hne : ∀ t ∈ todoOf q lods store, ∀ a ∈ t.2, a.2 ≠ none)
    (hpos : ∀ t ∈ todoOf q lods store, ∀ r ∈ candRows q t.2, 0 ≤ r.key.time)
    (h : getTable .fixed q lods store = some (rows, more)) :
    ∀ o ∈ rows, o.data = (todoOf q lods store).flatMap (fun t => cellBlock t.1 (pageRows q t.2) o.key) := by
  intro o ho
  rw [cell_content q lods store rows more hnd h o ho]
  simp only [List.flatMap_def]
  congr 1
  apply List.map_congr_left
  intro t ht
  have hts : ∀ x ∈ candRows q t.2, timeSkipped q x = false := fun x hx =>
    inRange_not_timeSkipped q x (candRows_inRange q t.2 x hx) (hpos t ht x hx)
  rw [passRows_page q t.2 0 (hne t ht) hts]
  simp [pageRows]

/-- non-vacuity of `cell_content` / `cell_content_page` (the request of `one_column_per_function`'s example) and the
    two cases of a cell on it: values of the key's row, NaN for the function that has no row for the key -/
example : (∀ t ∈ todoOf reqPad [⟨10, 11⟩] storePad, ((storedRows t.2).map (·.key)).Nodup) ∧
    (∀ t ∈ todoOf reqPad [⟨10, 11⟩] storePad, ∀ a ∈ t.2, a.2 ≠ none) ∧
    (∀ t ∈ todoOf reqPad [⟨10, 11⟩] storePad, ∀ r ∈ candRows reqPad t.2, 0 ≤ r.key.time) := by decide
example : (todoOf reqPad [⟨10, 11⟩] storePad).map (fun t => cellBlock t.1 (pageRows reqPad t.2) ⟨10, [1], 0⟩) =
    [[some 5, some 6], [none]] := by decide

/-! ## handleGetTable: the LOD order handed to getTableFromLODs -/

/-- the fixed handleGetTable passes the ascending LOD list on unchanged: every theorem above about `getTable` is a
    theorem about `handleGetTable .keeps`; for `fromEnd` the LODs are then visited from the newest one
    (`todoOf … = … dir true (lods.zip answers)`), for ascending requests from the oldest -/
theorem handleGetTable_keeps (v : Variant) (q : Req) (lods : List Lod) (store : List (List (Option (List (List Row))))) :
    handleGetTable .keeps v q lods store = getTable v q lods store := by
  have : store.map (callerOrder .keeps q.win.fromEnd) = store := by
    have hid : (callerOrder .keeps q.win.fromEnd : List (Option (List (List Row))) → _) = id := by
      funext l; rfl
    rw [hid, List.map_id]
  simp only [handleGetTable, this]
  rfl

/-- the code before the fix reversed the list only to have it reversed again: a descending request got the visiting
    order of an ascending one -/
theorem handleGetTable_reverses_visits_ascending (q : Req) (lods : List Lod)
    (store : List (List (Option (List (List Row))))) (hfe : q.win.fromEnd = true)
    (hlen : ∀ s ∈ store, s.length = lods.length) :
    (todoOf q (callerOrder .reversesFromEnd true lods) (store.map (callerOrder .reversesFromEnd true))).map (·.2) =
      (q.cols.zip store).map (fun p => lods.zip p.2) := by
  simp only [todoOf, callerOrder, if_true, hfe, dir, List.map_map]
  rw [List.zip_map_right]
  simp only [List.map_map]
  apply List.map_congr_left
  intro p hp
  have hl := hlen p.2 (List.of_mem_zip hp).2
  simp only [Function.comp, Prod.map]
  have hc : callerOrder .reversesFromEnd true p.2 = p.2.reverse := by simp [callerOrder]
  rw [hc]
  simp only [List.zip]
  rw [← List.reverse_zipWith (by simp [hl])]
  simp

/-- descending request, limit 1, two LODs with one row each -/
def reqDesc : Req := { win := { wAll with fromEnd := true }, limit := 1, gby := [], bySkey := false, cols := [[0]] }
def storeDesc : List (List (Option (List (List Row)))) := [[some [[⟨⟨10, [], 0⟩, [1]⟩]], some [[⟨⟨11, [], 0⟩, [1]⟩]]]]

/-- old handleGetTable: the page of the descending request is the row of the OLDEST LOD -/
example : (handleGetTable .reversesFromEnd .fixed reqDesc [⟨10, 11⟩, ⟨11, 12⟩] storeDesc).map
    (fun r => (r.1.map (fun o => o.key.time), r.2)) = some ([10], true) := by decide
/-- fixed: the newest row -/
example : (handleGetTable .keeps .fixed reqDesc [⟨10, 11⟩, ⟨11, 12⟩] storeDesc).map
    (fun r => (r.1.map (fun o => o.key.time), r.2)) = some ([11], true) := by decide
/-- non-vacuity of `handleGetTable_reverses_visits_ascending` -/
example : reqDesc.win.fromEnd = true ∧ ∀ s ∈ storeDesc, s.length = [(⟨10, 11⟩ : Lod), ⟨11, 12⟩].length := by decide

/-! ## the page is the leading part of the window in time -/

/-- **limit respected, in the requested direction.** For every request, LOD split and storage output that is ordered in
    time (`TimeOrdered`: answers in ascending LOD order as handleGetTable passes them, ascending time groups): the rows
    on the page of a function precede, in the requested time direction, every window row of that function that did not
    fit the limit — ascending: no later than; fromEnd: no earlier than. (Order among the rows of one second is the
    storage's: see fixes/C25-order-by-desc-every-key.) -/
theorem page_leads_in_time (q : Req) (answers : List (Lod × Option (List (List Row)))) (h : TimeOrdered answers) :
    ∀ a ∈ pageRows q (dir q.win.fromEnd answers),
      ∀ b ∈ (candRows q (dir q.win.fromEnd answers)).drop q.limit.toNat, timeDir q.win.fromEnd a b := by
  have hs := candRows_time_sorted q answers h
  rw [← List.take_append_drop q.limit.toNat (candRows q (dir q.win.fromEnd answers))] at hs
  exact (List.pairwise_append.1 hs).2.2

/-- non-vacuity: the two-LOD descending request; its page is the newest row and leads the older one -/
example : TimeOrdered ([(⟨10, 11⟩ : Lod), ⟨11, 12⟩].zip (storeDesc.headD [])) := by
  unfold TimeOrdered; decide
example : (pageRows reqDesc (dir true ([(⟨10, 11⟩ : Lod), ⟨11, 12⟩].zip (storeDesc.headD [])))).map (·.key.time) = [11] ∧
    ((candRows reqDesc (dir true ([(⟨10, 11⟩ : Lod), ⟨11, 12⟩].zip (storeDesc.headD [])))).drop 1).map (·.key.time) = [10] := by
  decide

/-! ## the comparator of the final sort is the mathematical lexicographic order -/

/-- **less_lex.** `less` — the model of queryTableRows.Less, which `rows_sorted` is stated over — is exactly the
    lexicographic order on (time, number of tags, tag values, skey), with times and tag values compared as unbounded
    integers: there is no pair of tag values, however far apart, on which it answers by anything but `<` on ℤ. The real
    comparator must therefore agree with `<` on every pair of int64 values; the harness checks this directly on boundary
    pairs (ops `cmp`, `mlt`; oracle `less-order`, `lessthan-order`). -/
theorem less_lex (a b : RowRepr) : less a b = true ↔
    a.time < b.time ∨ (a.time = b.time ∧ (a.tags.length < b.tags.length ∨ (a.tags.length = b.tags.length ∧
      (a.tags < b.tags ∨ (a.tags = b.tags ∧ a.skey < b.skey))))) := by
  rw [less_iff]
  constructor
  · rintro (h | ⟨h1, h | ⟨h2, h3⟩⟩)
    · exact Or.inl h
    · exact Or.inr ⟨h1, Or.inl h⟩
    · exact Or.inr ⟨h1, Or.inr ⟨h2, (tl_lex _ _ _ _ h2).1 h3⟩⟩
  · rintro (h | ⟨h1, h | ⟨h2, h3⟩⟩)
    · exact Or.inl h
    · exact Or.inr ⟨h1, Or.inl h⟩
    · exact Or.inr ⟨h1, Or.inr ⟨h2, (tl_lex _ _ _ _ h2).2 h3⟩⟩

theorem tags_eq_of_not_lt : ∀ (l1 l2 : List Int), l1.length = l2.length → ¬ l1 < l2 → ¬ l2 < l1 → l1 = l2 := by
  intro l1
  induction l1 with
  | nil => intro l2 hl _ _; cases l2 with
    | nil => rfl
    | cons => simp at hl
  | cons x l1 ih =>
    intro l2 hl h1 h2
    cases l2 with
    | nil => simp at hl
    | cons y l2 =>
      rw [List.cons_lt_cons_iff] at h1 h2
      have hxy : x = y := by
        by_cases a : x < y
        · exact absurd (Or.inl a) h1
        · by_cases b : y < x
          · exact absurd (Or.inl b) h2
          · omega
      subst hxy
      have := ih l2 (by simpa using hl) (fun g => h1 (Or.inr ⟨rfl, g⟩)) (fun g => h2 (Or.inr ⟨rfl, g⟩))
      rw [this]

/-- it is a strict total order on row markers: two different markers are ordered one way or the other -/
theorem less_total (a b : RowRepr) (h : a ≠ b) : less a b = true ∨ less b a = true := by
  rw [less_lex, less_lex]
  by_cases t1 : a.time < b.time
  · exact Or.inl (Or.inl t1)
  by_cases t2 : b.time < a.time
  · exact Or.inr (Or.inl t2)
  have et : a.time = b.time := by omega
  by_cases l1 : a.tags.length < b.tags.length
  · exact Or.inl (Or.inr ⟨et, Or.inl l1⟩)
  by_cases l2 : b.tags.length < a.tags.length
  · exact Or.inr (Or.inr ⟨et.symm, Or.inl l2⟩)
  have el : a.tags.length = b.tags.length := by omega
  by_cases g1 : a.tags < b.tags
  · exact Or.inl (Or.inr ⟨et, Or.inr ⟨el, Or.inl g1⟩⟩)
  by_cases g2 : b.tags < a.tags
  · exact Or.inr (Or.inr ⟨et.symm, Or.inr ⟨el.symm, Or.inl g2⟩⟩)
  have eg : a.tags = b.tags := tags_eq_of_not_lt _ _ el g1 g2
  by_cases s1 : a.skey < b.skey
  · exact Or.inl (Or.inr ⟨et, Or.inr ⟨el, Or.inr ⟨eg, s1⟩⟩⟩)
  by_cases s2 : b.skey < a.skey
  · exact Or.inr (Or.inr ⟨et.symm, Or.inr ⟨el.symm, Or.inr ⟨eg.symm, s2⟩⟩⟩)
  have es : a.skey = b.skey := by omega
  exfalso
  apply h
  cases a; cases b
  simp_all

/-- values more than 2^63 apart: the model orders them as integers (a comparator that subtracts would wrap) -/
example : less ⟨10, [-6000000000000000000], 0⟩ ⟨10, [6000000000000000000], 0⟩ = true ∧
    less ⟨10, [6000000000000000000], 0⟩ ⟨10, [-6000000000000000000], 0⟩ = false ∧
    less ⟨10, [-9223372036854775808], 0⟩ ⟨10, [9223372036854775807], 0⟩ = true := by decide

/-! ## the page is the first `limit` rows of the window in the requested total order -/

/-- **page_is_first_limit_rows_in_requested_order (one requested function, all its LODs).** Under the storage-order
    contract (`VisitSorted`: the answers, passed in ascending LOD order, come sorted by (time, group-by keys) in the
    requested direction — the order the generated ORDER BY text asks the storage for), with rows inside their LODs and
    times ≥ 0, for every request, LOD split, markers, direction and limit:
    (1) the rows the pass considers are exactly ALL stored rows, over all LODs, that lie in the requested window;
    (2) they are considered in the requested total order (strictly increasing, so there is one such enumeration);
    (3) the page is its first `limit` elements, so (4) every row on the page precedes every window row that is not. -/
theorem page_is_first_limit_rows_in_requested_order (q : Req) (answers : List (Lod × Option (List (List Row))))
    (hs : VisitSorted q answers) (hl : InLod answers) (h0 : ∀ r ∈ storedRows answers, 0 ≤ r.key.time) :
    (∀ r, r ∈ candRows q (dir q.win.fromEnd answers) ↔ r ∈ storedRows answers ∧ inRange q.win r = true) ∧
    (candRows q (dir q.win.fromEnd answers)).Pairwise (rowBefore q) ∧
    pageRows q (dir q.win.fromEnd answers) = (candRows q (dir q.win.fromEnd answers)).take q.limit.toNat ∧
    (∀ a ∈ pageRows q (dir q.win.fromEnd answers),
      ∀ b ∈ (candRows q (dir q.win.fromEnd answers)).drop q.limit.toNat, rowBefore q a b) := by
  have hw := window_sorted q answers hs
  refine ⟨window_complete q answers hl h0, hw, rfl, ?_⟩
  have hs' := hw
  rw [← List.take_append_drop q.limit.toNat (candRows q (dir q.win.fromEnd answers))] at hs'
  exact (List.pairwise_append.1 hs').2.2

theorem pairwise_mem_total {α} (R : α → α → Prop) : ∀ (l : List α), l.Pairwise R →
    ∀ a ∈ l, ∀ b ∈ l, a ≠ b → R a b ∨ R b a := by
  intro l
  induction l with
  | nil => intro _ a ha; simp at ha
  | cons x xs ih =>
    intro hp a ha b hb hne
    have p := List.pairwise_cons.1 hp
    simp only [List.mem_cons] at ha hb
    rcases ha with rfl | ha <;> rcases hb with rfl | hb
    · exact absurd rfl hne
    · exact Or.inl (p.1 b hb)
    · exact Or.inr (p.1 a ha)
    · exact ih p.2 a ha b hb hne

/-- **the table is the page, in the requested order (the property's sentence).** For every request, LOD split, markers,
    direction and limit, under the storage-order contract for every requested function: if the pages of all requested
    functions hold the same keys `P` (always so for one function; for several it is what a GROUP BY storage returns,
    the functions differing in values only), then after the final sort the table rows are exactly `P`, in that order —
    i.e. the first `limit` rows of the window over all LODs in the requested total order — and has-more is set iff the
    window of some function holds more than `limit` rows. -/
theorem table_is_first_limit_rows_in_requested_order (q : Req) (lods : List Lod)
    (store : List (List (Option (List (List Row))))) (rows : List ORow) (more : Bool) (P : List Key)
    (hne : todoOf q lods store ≠ [])
    (hs : ∀ p ∈ q.cols.zip store, VisitSorted q (lods.zip p.2) ∧ InLod (lods.zip p.2) ∧
      ∀ r ∈ storedRows (lods.zip p.2), 0 ≤ r.key.time)
    (hP : ∀ t ∈ todoOf q lods store, (pageRows q t.2).map (·.key) = P)
    (h : getTable .fixed q lods store = some (rows, more)) :
    rows.map (·.key) = P ∧
    (more = true ↔ ∃ t ∈ todoOf q lods store, q.limit.toNat < (candRows q t.2).length) := by
  -- every work item is `dir fromEnd (lods.zip answers)` of a contract-abiding answer list
  have htodo : ∀ t ∈ todoOf q lods store, ∃ p ∈ q.cols.zip store, t.2 = dir q.win.fromEnd (lods.zip p.2) := by
    intro t ht
    simp only [todoOf, List.mem_map] at ht
    obtain ⟨p, hp, rfl⟩ := ht
    exact ⟨p, hp, rfl⟩
  have hpos : ∀ t ∈ todoOf q lods store, ∀ r ∈ candRows q t.2, 0 ≤ r.key.time := by
    intro t ht r hr
    obtain ⟨p, hp, e⟩ := htodo t ht
    obtain ⟨_, hl, h0⟩ := hs p hp
    rw [e] at hr
    exact h0 r ((window_complete q _ hl h0 r).1 hr).1
  have htp := table_page q lods store rows more hpos h
  refine ⟨?_, htp.1⟩
  -- members
  obtain ⟨t0, ht0⟩ := List.exists_mem_of_ne_nil _ hne
  have hmem : ∀ k, k ∈ rows.map (·.key) ↔ k ∈ P := by
    intro k
    rw [htp.2 k]
    constructor
    · rintro ⟨t, ht, hk⟩; rw [hP t ht] at hk; exact hk
    · intro hk; exact ⟨t0, ht0, by rw [hP t0 ht0]; exact hk⟩
  -- P is strictly sorted
  have hPs : P.Pairwise (keyBefore q) := by
    obtain ⟨p, hp, e⟩ := htodo t0 ht0
    obtain ⟨hv, _, _⟩ := hs p hp
    have hw := window_sorted q _ hv
    rw [← e] at hw
    have : (pageRows q t0.2).Pairwise (rowBefore q) := List.Pairwise.sublist (List.take_sublist _ _) hw
    rw [← hP t0 ht0, List.pairwise_map]
    exact this
  -- the table is strictly sorted too
  have hnd := rows_unique_by_time_tags .fixed q lods store rows more h
  have hsorted : (rows.map (·.key)).Pairwise (keyBefore q) := by
    obtain ⟨r, _, rfl, _⟩ := getTable_some .fixed q lods store rows more h
    have h1 := sortRows_sorted q r.1
    rw [List.pairwise_map]
    have h2 : (sortRows q r.1).Pairwise (fun a b => a.key ≠ b.key) := by
      have := hnd; rw [List.Nodup, List.pairwise_map] at this; exact this
    refine List.Pairwise.imp_of_mem ?_ (h1.and h2)
    intro a b ha hb hab
    have hka : a.key ∈ P := (hmem _).1 (by simp only [List.mem_map]; exact ⟨a, ha, rfl⟩)
    have hkb : b.key ∈ P := (hmem _).1 (by simp only [List.mem_map]; exact ⟨b, hb, rfl⟩)
    rcases pairwise_mem_total _ P hPs a.key hka b.key hkb hab.2 with g | g
    · exact g
    · exact absurd g hab.1
  exact eq_of_sorted_same_mem (keyBefore q) (keyBefore_irrefl q) (keyBefore_trans q) _ _ hsorted hPs hmem

/-- non-vacuity: a descending request over two LODs, two grouped-tag values per second, limit 3 of 4 window rows; the
    storage answers follow the contract (each second's rows descending); the table is rows (11,tag 2), (11,tag 1), (10,tag 2) -/
def reqOrd : Req := { win := { wAll with fromEnd := true }, limit := 3, gby := [0], bySkey := false, cols := [[0]] }
def storeOrd : List (List (Option (List (List Row)))) :=
  [[some [[rowT 10 2, rowT 10 1]], some [[rowT 11 2, rowT 11 1]]]]
def lodsOrd : List Lod := [⟨10, 11⟩, ⟨11, 12⟩]

example : todoOf reqOrd lodsOrd storeOrd ≠ [] ∧
    (∀ p ∈ reqOrd.cols.zip storeOrd, VisitSorted reqOrd (lodsOrd.zip p.2) ∧ InLod (lodsOrd.zip p.2) ∧
      ∀ r ∈ storedRows (lodsOrd.zip p.2), 0 ≤ r.key.time) ∧
    (∀ t ∈ todoOf reqOrd lodsOrd storeOrd, (pageRows reqOrd t.2).map (·.key) = [⟨11, [2], 0⟩, ⟨11, [1], 0⟩, ⟨10, [2], 0⟩]) := by
  unfold VisitSorted InLod; decide
example : (getTable .fixed reqOrd lodsOrd storeOrd).map (fun r => (r.1.map (fun o => o.key), r.2)) =
    some ([⟨11, [2], 0⟩, ⟨11, [1], 0⟩, ⟨10, [2], 0⟩], true) := by decide
/-- the storage-order contract stated on the answers themselves (ascending LODs, ascending time groups, the rows of one
    time group in the requested order) implies the visiting-order form used above -/
theorem storage_contract_suffices (q : Req) (answers : List (Lod × Option (List (List Row))))
    (h : StorageContract q answers) : VisitSorted q answers := visitSorted_of_contract q answers h

example : ∀ p ∈ reqOrd.cols.zip storeOrd, StorageContract reqOrd (lodsOrd.zip p.2) := by
  unfold StorageContract; decide
/-- the contract is needed: with the rows of a second in ascending order (what the ORDER BY text before e9888cce asked
    for) the page of the same request is cut wrongly — (10, tag 1) instead of (10, tag 2) -/
example : (getTable .fixed reqOrd lodsOrd [[some [[rowT 10 1, rowT 10 2]], some [[rowT 11 1, rowT 11 2]]]]).map
    (fun r => r.1.map (fun o => o.key)) = some [⟨11, [2], 0⟩, ⟨11, [1], 0⟩, ⟨10, [1], 0⟩] := by decide
example : ¬ VisitSorted reqOrd (lodsOrd.zip [some [[rowT 10 1, rowT 10 2]], some [[rowT 11 1, rowT 11 2]]]) := by
  unfold VisitSorted; decide

/-! ## getHandlerWhat: one column per requested function, in the order of the request -/

/-- **nothing dropped, order kept.** For every list of requested functions (any function codes, duplicates, runs of
    functions that share a storage selector): the function lists of the storage queries getHandlerWhat builds,
    concatenated, are the request sorted by function code (the order in which the response lists the functions);
    the sorted request is a permutation of the request; every storage query uses between 1 and 7 selectors. -/
theorem getHandlerWhat_keeps_every_function (request : List Fn) :
    (getHandlerWhat request).flatMap (·.sel) = sortFns request ∧
    (sortFns request).Perm request ∧
    (sortFns request).Pairwise (fun a b => a.digest ≤ b.digest) ∧
    (∀ g ∈ getHandlerWhat request, 1 ≤ g.qry.length ∧ g.qry.length ≤ tsValueCount) :=
  ⟨groupSorted_concat _, sortFns_perm _, sortFns_sorted _, groupSorted_qryOk _⟩

/-- **one column per requested function (over the modelled grouping).** For every request whose columns are the ones
    getHandlerWhat derives from the requested functions (`q.cols = colsOf request` — no longer an arbitrary grouping),
    every LOD split, storage output without duplicate keys per storage query, markers, direction and limit: every table
    row has exactly as many columns as functions were requested, and column `i` shows the value field of the `i`-th
    function of the (sorted) request: the row's data is, block by block, `cellBlock` of the query's columns
    (`cell_content`), and the blocks' columns concatenated are the fields of the sorted request in order. -/
theorem one_column_per_requested_function (request : List Fn) (q : Req) (hq : q.cols = colsOf request)
    (lods : List Lod) (store : List (List (Option (List (List Row)))))
    (rows : List ORow) (more : Bool) (hs : q.cols.length ≤ store.length)
    (hnd : ∀ t ∈ todoOf q lods store, ((storedRows t.2).map (·.key)).Nodup)
    (h : getTable .fixed q lods store = some (rows, more)) :
    (∀ o ∈ rows, o.data.length = request.length) ∧
    q.cols.flatten = (sortFns request).map (·.field) ∧
    (∀ o ∈ rows, o.data = (todoOf q lods store).flatMap (fun t => cellBlock t.1 (passRows .fixed q t.2 0) o.key)) := by
  refine ⟨?_, by rw [hq]; exact colsOf_flatten request, cell_content q lods store rows more hnd h⟩
  intro o ho
  rw [one_column_per_function q lods store rows more hs hnd h o ho, hq]
  exact colsOf_total request

/-- count, count_sec, count_raw, max: two storage selectors, one query, four columns in request order; a request with
    eight selectors is split after the seventh -/
example : (getHandlerWhat [⟨9, 3⟩, ⟨2, 0⟩, ⟨1, 0⟩, ⟨3, 0⟩]).map (fun g => (g.sel.map (·.digest), g.qry)) =
    [([1, 2, 3, 9], [(2, 0), (3, 0)])] := by decide
example : (getHandlerWhat ((List.range 8).map (fun i => ⟨10 + i, 5⟩))).map (fun g => g.sel.length) = [7, 1] := by decide
/-- non-vacuity of `one_column_per_requested_function`: a request (count_raw, count, max) whose columns are computed by
    the modelled getHandlerWhat -/
example : colsOf [⟨3, 0⟩, ⟨1, 0⟩, ⟨9, 3⟩] = [[0, 0, 3]] ∧ ([⟨3, 0⟩, ⟨1, 0⟩, ⟨9, 3⟩] : List Fn).length = 3 := by decide
/-- dropping the functions that share a selector (a grouping that appends to `sel` only when a new selector slot is
    taken) loses columns: the concatenation has 2 elements for 4 requested functions -/
example : ([([⟨1, 0⟩, ⟨9, 3⟩] : List Fn)].flatMap id).length = 2 ∧ (sortFns [⟨9, 3⟩, ⟨2, 0⟩, ⟨1, 0⟩, ⟨3, 0⟩]).length = 4 := by decide

/-! ## the row key is the whole tag block: unmapped string values of group-by tags keep rows apart -/

/-- `rows_unique_by_time_tags` and `one_column_per_function` are stated over `Key`, whose `tags` carry the integer value
    AND the unmapped string value of every tag: there is no hypothesis that string values are empty. Two rows of one
    second whose group-by tag 0 is unmapped (integer 0) with string values "a" (code 1) and "ab" (code 2): -/
def reqStr : Req := { win := wAll, limit := 10, gby := [0], bySkey := false, cols := [[0]] }
def storeStr : List (List (Option (List (List Row)))) :=
  [[some [[⟨⟨10, [0, 1], 0⟩, [5]⟩, ⟨⟨10, [0, 2], 0⟩, [7]⟩]]]]

/-- the code: two table rows, one column each -/
example : (getTable .fixed reqStr [⟨10, 11⟩] storeStr).map (fun r => r.1.map (fun o => (o.key.tags, o.data))) =
    some [([0, 1], [some 5]), ([0, 2], [some 7])] := by decide
/-- a key made of the integer tag values and the string-top key only (C25-r4-2): the rows collide — one row survives
    and gets both rows' values, i.e. two columns for one requested function -/
example : (getTable .fixed reqStr [⟨10, 11⟩] (slimStore 1 storeStr)).map (fun r => r.1.map (fun o => o.data)) =
    some [[some 5, some 7]] := by decide
/-- and the hypothesis of `one_column_per_function` (no key twice in one answer) holds for the real key, fails for the
    slim one -/
example : (∀ t ∈ todoOf reqStr [⟨10, 11⟩] storeStr, ((storedRows t.2).map (·.key)).Nodup) ∧
    ¬ (∀ t ∈ todoOf reqStr [⟨10, 11⟩] (slimStore 1 storeStr), ((storedRows t.2).map (·.key)).Nodup) := by decide

/-! ## old code (before 8d8821bd): the shared backing array of rowRepr.Tags -/

/-- two handler-whats; the first answer holds the rows with tag 1 and 3, the second answer only a row with tag 2 -/
def reqAlias : Req := { win := wAll, limit := 10, gby := [0], bySkey := false, cols := [[0], [1]] }
def storeAlias : List (List (Option (List (List Row)))) :=
  [[some [[rowT 10 1, rowT 10 3]]], [some [[rowT 10 2]]]]

/-- markers in output order: both rows created from the first answer carry the tags of its last row (3), so the
    row with tag 1 no longer knows its own tag … -/
example : (getTableAliased reqAlias [⟨10, 11⟩] storeAlias).map (fun l => l.map (·.2)) = some [[2], [3], [3]] := by decide
/-- … and the final sort, which compares these markers, puts the row with tag 2 in front of the row with tag 1 -/
example : (getTableAliased reqAlias [⟨10, 11⟩] storeAlias).map (fun l => (l.map (·.1.tags)).head?) = some (some [2]) := by decide
example : (getTableAliased reqAlias [⟨10, 11⟩] storeAlias).map (fun l => l.any (fun p => p.1.tags == [1])) = some true := by decide
/-- the fixed code on the same input: sorted, and (by `reprOf`) every row's marker is made of its own tags -/
example : (getTable .fixed reqAlias [⟨10, 11⟩] storeAlias).map (fun r => r.1.map (fun o => o.key.tags)) =
    some [[1], [2], [3]] := by decide

/-! ## old code (before 8d8821bd): appendRowValues indexed `qry` with the column index -/

/-- `qry` holds at most 7 distinct selectors; the old `w.qry[i].Argument` with `i` ranging over the columns of the
    handler-what panicked (index out of range) as soon as a handler-what with more than 7 columns got a row -/
def oldPanics (q : Req) (todo : List (List Nat × List (Lod × Option (List (List Row))))) : Bool :=
  todo.any (fun t => decide (7 < t.1.length) && !(passRows .old q t.2 0).isEmpty)

/-- count, count_sec, count_raw, sum, sum_sec, sum_raw, min, max: 4 selectors, 8 columns in one handler-what -/
example : oldPanics { reqPage with cols := [[0, 0, 0, 1, 1, 1, 2, 3]] }
    (todoOf { reqPage with cols := [[0, 0, 0, 1, 1, 1, 2, 3]] } lodsPage storePage) = true := by decide

end SH.C25
