/-
  C02 — Row aggregates survive agent-to-aggregator transfer unchanged.

  "For every row an agent sends with any sample factor sf, the aggregator reconstructs the same key (tags, string tags,
   timestamp), the same string-top keys, and for each of them count*sf, min, max, sum*sf, sum-of-squares*sf, the
   min/max/max-count host attributions, the unique-value set and the percentile centroids with weights*sf. This holds
   for every mix of counter-only, value, histogram and unique events that contributed to the row."

  Model: SH.Model.Transfer.  All theorems are about `Variant.fixed` (= /repo with fixes/C02-compact-sum.diff and
  fixes/C02-empty-host.diff); the pinned tree is `Variant.repo`, for which the property is FALSE — see the `decide`
  counterexamples `repo_loses_sum` / `repo_misattributes_min_host` at the end.
  Numbers: any linearly ordered field (float64 is modelled by exact arithmetic, DESIGN §4.1).

  Headline theorems (all for every input, no bound):
    value_roundtrip        one MultiValue (tail or a string-top entry), any well-formed value, any sf ≥ 1
    built_value_roundtrip  … for the value built by ANY list of events (induction over the list: `built_WF`)
    key_roundtrip          tags / string tags / metric / timestamp (inside the believe window); `ts_clamps` for the rest
    row_roundtrip          whole row: key + every string-top entry (any enumeration order of the Top map) + tail
    built_row_roundtrip    … for the row built by ANY list of (string-top tag, event) pairs (`built_row_WF`)
    value/row/built_row_roundtrip_mapped   the same through the REAL handler glue of handleSendSourceBucket: an aggregator
                           with any string→int32 mapping table (`receiveM`; helper lemmas in SH/Lemmas/TransferMap.lean)
    agent_row_roundtrip    … for rows produced by ANY sequence of agent operations incl. string tops at capacity
                           (redirect to Tail, resample rounds, FinishStringTop) for every admissible draw / fold order
    sent_centroids, received_centroid_adds, received_implicit_centroid   exactly which part of "centroids with weights·sf"
                           is proved (the list as sent and as added) and which is trusted (tdigest compression)
  Hypotheses and why they are part of "valid": event host tags are normalized (TagUnion: I has priority over S); the
  scaled numbers pass format.ValidateCounter/ValidateValue (|x| ≤ MaxFloat32 — otherwise the aggregator deliberately
  rejects the value with an ingestion error); string tops stay below capacity (no resampling, which is random).
  Reading of "percentile centroids" for a value without a digest (agent keeps no digest while all values are equal):
  it counts as the single centroid (min, count) — `expectedDg`.  For a percentile row that holds several distinct
  values but no digest (possible only through unique events) the property does not say what the centroids are; the
  theorem then states what the code does (implicit centroid at min, see the example in the witnesses section) and the
  direct oracle does not judge that case.
-/
import SH.Model.Transfer
import SH.Lemmas.TransferMap
import Mathlib.Tactic.Ring
import Mathlib.Tactic.Linarith
import Mathlib.Algebra.Order.Field.Basic

namespace SH.C02
open SH.Transfer

/-- the aggregator substitutes the sending agent's host for an empty host -/
def sub (h t : Tag) : Tag := if t.isEmpty then h else t

section spec
variable {α : Type} [Zero α] [One α] [Add α] [Mul α] [Div α] [LT α] [LE α] [NatCast α]
  [DecidableEq α] [DecidableLT α] [DecidableLE α]

/-- the value part the aggregator must hold: count, sum, sum of squares × sf, same min/max, hosts with the agent's host for empty -/
def expectedV (v : ItemValue α) (sf : α) (h : Tag) : ItemValue α :=
  { counter := v.counter * sf
    hcnt := sub h v.hcnt
    min := v.min
    max := v.max
    sum := v.sum * sf
    sq := v.sq * sf
    hmin := if v.vset then sub h v.hmin else Tag.none
    hmax := if v.vset then sub h v.hmax else Tag.none
    vset := v.vset }

/-- the centroids the aggregator must hold for a row whose ValueSet is true -/
def expectedDg (m : MultiValue α) (sf : α) (pct : Bool) (cents : List (Centroid α)) : Option (List (Centroid α)) :=
  if pct then
    match m.dg with
    | some _ => if cents.isEmpty then none else some (scaleCentroids cents sf)
    | none => some [⟨m.v.min, m.v.counter * sf⟩]
  else none

/-- what the aggregator must hold for the agent-side value `m` sent with sample factor `sf` by the agent on host `h` -/
def expected (m : MultiValue α) (sf : α) (h : Tag) (pct : Bool) (cents : List (Centroid α)) : MultiValue α :=
  if m.v.counter * sf ≤ 0 then MultiValue.empty
  else
    { v := expectedV m.v sf h
      dg := if m.v.vset then expectedDg m sf pct cents else none
      uq := m.uq }

end spec

theorem restoreMax_spec (t h : Tag) (hn : t.isNorm = true) :
    (if (hostI t).isNone && (hostS t).isNone then h else tagOf (hostI t) (hostS t)) = sub h t := by
  obtain ⟨i, s⟩ := t
  by_cases hi : i = 0
  · subst hi
    cases s with
    | nil => simp [hostI, hostS, sub, Tag.isEmpty]
    | cons c cs => simp [hostI, hostS, sub, Tag.isEmpty, tagOf]
  · have : s = [] := by simpa [Tag.isNorm, hi] using hn
    subst this
    simp [hostI, hostS, sub, Tag.isEmpty, tagOf, hi]

theorem restoreOther_spec (t hmax h : Tag) (hn : t.isNorm = true) :
    restoreOther Variant.fixed (hostDiffI true t hmax) (hostDiffS t hmax) (sub h hmax) h = sub h t := by
  by_cases e : t = hmax
  · subst e; simp [restoreOther, hostDiffI, hostDiffS]
  · obtain ⟨i, s⟩ := t
    by_cases hi : i = 0
    · subst hi
      cases s with
      | nil => simp [restoreOther, hostDiffI, hostDiffS, e, hostS, sub, Tag.isEmpty, tagOf, Variant.fixed]
      | cons c cs => simp [restoreOther, hostDiffI, hostDiffS, e, hostS, sub, Tag.isEmpty, tagOf, Variant.fixed]
    · have : s = [] := by simpa [Tag.isNorm, hi] using hn
      subst this
      simp [restoreOther, hostDiffI, hostDiffS, e, hostS, sub, Tag.isEmpty, tagOf, Variant.fixed, hi]

variable {α : Type} [Field α] [LinearOrder α] [IsStrictOrderedRing α]

/-- |x| ≤ MaxFloat32 -/
def InF32 (x : α) : Prop := -((maxF32 : Nat) : α) ≤ x ∧ x ≤ ((maxF32 : Nat) : α)

theorem valueErr_ok (x : α) (h : InF32 x) : valueErr x = 0 := by
  obtain ⟨h1, h2⟩ := h
  have a : ¬ ((maxF32 : Nat) : α) < x := not_lt.mpr h2
  have b : ¬ x + ((maxF32 : Nat) : α) < 0 := by
    intro hb; linarith
  simp [valueErr, a, b]

theorem counterErr_ok (x : α) (h0 : 0 ≤ x) (h1 : x ≤ ((maxF32 : Nat) : α)) : counterErr x = 0 := by
  have a : ¬ x < 0 := not_lt.mpr h0
  have b : ¬ ((maxF32 : Nat) : α) < x := not_lt.mpr h1
  simp [counterErr, a, b]

/-- well-formed agent-side value: hosts normalized; nothing recorded in the value fields while ValueSet is false -/
structure WFv (v : ItemValue α) : Prop where
  hcnt : v.hcnt.isNorm = true
  hmin : v.hmin.isNorm = true
  hmax : v.hmax.isNorm = true
  unset : v.vset = false → v.min = 0 ∧ v.max = 0 ∧ v.sum = 0 ∧ v.sq = 0 ∧ v.hmin = Tag.none ∧ v.hmax = Tag.none

theorem tlCounter_head (var : Variant) (m : MultiValue α) (sf : α) :
    tlCounter (toTLHead var m sf) = m.v.counter * sf := by
  by_cases h : m.v.counter * sf = 1 <;> simp [tlCounter, toTLHead, TLValue.empty, h]

theorem tlCounter_toTL (var : Variant) (m : MultiValue α) (sf : α) (pct : Bool) (cents) (hpos : 0 < m.v.counter * sf) :
    tlCounter (toTL var m sf pct cents) = m.v.counter * sf := by
  have : ¬ m.v.counter * sf ≤ 0 := not_le.mpr hpos
  unfold toTL
  simp only [this, if_false]
  by_cases hv : m.v.vset = true
  · simp only [hv, Bool.not_true, Bool.false_eq_true, if_false]
    have := tlCounter_head var m sf
    simpa [tlCounter] using this
  · simp only [hv, Bool.not_false, if_true]
    simp at hv
    simp [hv, tlCounter_head]



omit [IsStrictOrderedRing α] in
theorem compact_fixed (v : ItemValue α) (h : compact Variant.fixed v = true) :
    v.min = v.max ∧ v.sum = v.min * v.counter ∧ v.sq = v.sum * v.min := by
  simpa [compact, Variant.fixed, and_assoc] using h

/-- MergeWithTLItem2 on a fresh aggregator value restores exactly the scaled agent value (fixed tree) -/
theorem mergeValueTL_spec (m : MultiValue α) (sf : α) (pct : Bool) (cents : List (Centroid α)) (h : Tag)
    (wf : WFv m.v) (hv : m.v.vset = true) (hpos : 0 < m.v.counter * sf) (s : ItemValue α) (hs : s.vset = false)
    (hs0 : s.sum = 0 ∧ s.sq = 0) :
    mergeValueTL Variant.fixed s (toTL Variant.fixed m sf pct cents) (m.v.counter * sf) h =
      { s with min := m.v.min, max := m.v.max, sum := m.v.sum * sf, sq := m.v.sq * sf,
               hmin := sub h m.v.hmin, hmax := sub h m.v.hmax, vset := true } := by
  have hn : ¬ m.v.counter * sf ≤ 0 := not_le.mpr hpos
  have hmaxh : restoreMaxHost (toTL Variant.fixed m sf pct cents) h = sub h m.v.hmax := by
    simp only [restoreMaxHost, toTL, hn, if_false, hv, Bool.not_true, Bool.false_eq_true, toTLHead]
    exact restoreMax_spec _ _ wf.hmax
  have hminh : restoreMinHost Variant.fixed (toTL Variant.fixed m sf pct cents) h = sub h m.v.hmin := by
    simp only [restoreMinHost, hmaxh]
    simp only [toTL, hn, if_false, hv, Bool.not_true, Bool.false_eq_true, toTLHead, Variant.fixed]
    exact restoreOther_spec _ _ _ wf.hmin
  have hmn : (toTL Variant.fixed m sf pct cents).min.getD 0 = m.v.min := by
    simp only [toTL, hn, if_false, hv, Bool.not_true, Bool.false_eq_true]
    by_cases h0 : m.v.min = 0 <;> simp [h0]
  obtain ⟨hs1, hs2⟩ := hs0
  unfold mergeValueTL
  simp only [hmaxh, hminh, hmn, newMin, newMax, hs, Bool.not_false, Bool.true_or, if_true, hs1, hs2, zero_add]
  by_cases hc : compact Variant.fixed m.v = true
  · obtain ⟨c1, c2, c3⟩ := compact_fixed m.v hc
    have e1 : m.v.min * (m.v.counter * sf) = m.v.sum * sf := by rw [c2]; ring
    have e3 : m.v.sum * sf * m.v.min = m.v.sq * sf := by rw [c3]; ring
    simp [toTL, hn, hv, hc, e1, e3, ← c1]
  · simp [toTL, hn, hv, hc]



theorem setInsert_append : ∀ (a : List Nat) (x : Nat), (∀ y ∈ a, y < x) → setInsert a x = a ++ [x]
  | [], x, _ => rfl
  | y :: ys, x, h => by
    have hy : y < x := h y (by simp)
    have h1 : ¬ x < y := by omega
    have h2 : ¬ x = y := by omega
    have ih := setInsert_append ys x (fun z hz => h z (by simp [hz]))
    simp [setInsert, h1, h2, ih]

theorem foldl_setInsert : ∀ (b a : List Nat), (a ++ b).Pairwise (· < ·) → b.foldl setInsert a = a ++ b
  | [], a, _ => by simp
  | x :: xs, a, h => by
    have hx : ∀ y ∈ a, y < x := by
      intro y hy
      exact (List.pairwise_append.mp h).2.2 y hy x (by simp)
    have h' : ((a ++ [x]) ++ xs).Pairwise (· < ·) := by simpa using h
    have ih := foldl_setInsert xs (a ++ [x]) h'
    simp [List.foldl, setInsert_append a x hx, ih]

theorem uqMerge_spec (u : List Nat) (hu : u.Pairwise (· < ·)) :
    uqMerge [] (if u.isEmpty then none else some u) = u := by
  cases u with
  | nil => simp [uqMerge]
  | cons x xs =>
    have := foldl_setInsert (x :: xs) [] (by simpa using hu)
    simpa [uqMerge] using this

/-- every centroid the agent's digest reports is accepted by the aggregator after scaling -/
def CentsOk (cents : List (Centroid α)) (sf : α) : Prop :=
  ∀ c ∈ cents, 0 < c.w ∧ c.w * sf ≤ ((maxF32 : Nat) : α) ∧ InF32 c.mean

theorem addCentroids_ok : ∀ (cs dg : List (Centroid α)),
    (∀ c ∈ cs, 0 < c.w ∧ c.w ≤ ((maxF32 : Nat) : α) ∧ InF32 c.mean) → addCentroids dg cs = (dg ++ cs, 0)
  | [], dg, _ => by simp [addCentroids]
  | c :: cs, dg, h => by
    obtain ⟨h1, h2, h3⟩ := h c (by simp)
    have a : ¬ c.w = 0 := ne_of_gt h1
    have b : counterErr c.w = 0 := counterErr_ok _ (le_of_lt h1) h2
    have d : valueErr c.mean = 0 := valueErr_ok _ h3
    have e : ¬ c.w ≤ 0 := not_le.mpr h1
    have ih := addCentroids_ok cs (dg ++ [c]) (fun x hx => h x (by simp [hx]))
    simp [addCentroids, a, b, d, dgAdd, e, ih]

theorem mergeDigest_spec (m : MultiValue α) (sf : α) (pct : Bool) (cents : List (Centroid α))
    (hv : m.v.vset = true) (hpos : 0 < m.v.counter * sf) (hsf : 0 < sf) (hc : CentsOk cents sf)
    (a : MultiValue α) (ha : a.dg = none) :
    mergeDigest a (toTL Variant.fixed m sf pct cents) (m.v.counter * sf) =
      ⟨{ a with dg := expectedDg m sf pct cents }, 0⟩ := by
  have hn : ¬ m.v.counter * sf ≤ 0 := not_le.mpr hpos
  have hmn : (toTL Variant.fixed m sf pct cents).min.getD 0 = m.v.min := by
    simp only [toTL, hn, if_false, hv, Bool.not_true, Bool.false_eq_true]
    by_cases h0 : m.v.min = 0 <;> simp [h0]
  have hcents : tlCents (toTL Variant.fixed m sf pct cents) = (toTLCents m sf pct cents).getD [] := by
    simp [tlCents, toTL, hn, hv]
  have himp : (toTL Variant.fixed m sf pct cents).implicit = toTLImplicit m pct := by
    simp [toTL, hn, hv]
  unfold mergeDigest
  rw [hcents, himp, hmn, ha]
  cases pct with
  | false => cases a; simp_all [toTLCents, toTLImplicit, expectedDg]
  | true =>
    cases hd : m.dg with
    | none =>
      cases a
      simp_all [toTLCents, toTLImplicit, expectedDg, dgAdd, hn]
    | some l =>
      by_cases he : cents = []
      · cases a; simp_all [toTLCents, toTLImplicit, expectedDg]
      · have hne : scaleCentroids cents sf ≠ [] := by simpa [scaleCentroids] using he
        have hok := addCentroids_ok (scaleCentroids cents sf) ([] : List (Centroid α)) (by
          intro c hcm
          simp only [scaleCentroids, List.mem_map] at hcm
          obtain ⟨c0, hc0, rfl⟩ := hcm
          obtain ⟨w1, w2, w3⟩ := hc c0 hc0
          exact ⟨mul_pos w1 hsf, w2, w3⟩)
        cases a
        simp_all [toTLCents, toTLImplicit, expectedDg]



/-- the numbers of the row pass the aggregator's validators (format.ValidateCounter / ValidateValue) -/
structure InRange (m : MultiValue α) (sf : α) (cents : List (Centroid α)) : Prop where
  counter : m.v.counter * sf ≤ ((maxF32 : Nat) : α)
  min : InF32 m.v.min
  max : InF32 m.v.max
  sum : InF32 (m.v.sum * sf)
  cents : CentsOk cents sf

theorem inF32_zero : InF32 (0 : α) := by
  have : (0 : α) ≤ ((maxF32 : Nat) : α) := Nat.cast_nonneg _
  exact ⟨by linarith, this⟩

theorem addCounterHost_empty (c : α) (host : Tag) (pick : Bool) (hc : 0 < c) :
    addCounterHost (ItemValue.empty : ItemValue α) c host pick = { (ItemValue.empty : ItemValue α) with hcnt := host, counter := c } := by
  have : ¬ c ≤ 0 := not_le.mpr hc
  simp [addCounterHost, this, ItemValue.empty]

theorem restoreCnt_toTL (m : MultiValue α) (sf : α) (pct : Bool) (cents : List (Centroid α)) (h : Tag)
    (wf : WFv m.v) (hpos : 0 < m.v.counter * sf) :
    restoreCntHost Variant.fixed (toTL Variant.fixed m sf pct cents) h = sub h m.v.hcnt := by
  have hn : ¬ m.v.counter * sf ≤ 0 := not_le.mpr hpos
  have hmaxh : restoreMaxHost (toTL Variant.fixed m sf pct cents) h = sub h m.v.hmax := by
    by_cases hv : m.v.vset = true
    · simp only [restoreMaxHost, toTL, hn, if_false, hv, Bool.not_true, Bool.false_eq_true, toTLHead]
      exact restoreMax_spec _ _ wf.hmax
    · simp at hv
      simp only [restoreMaxHost, toTL, hn, if_false, hv, Bool.not_false, if_true, toTLHead]
      exact restoreMax_spec _ _ wf.hmax
  simp only [restoreCntHost, hmaxh]
  by_cases hv : m.v.vset = true
  · simp only [toTL, hn, if_false, hv, Bool.not_true, Bool.false_eq_true, toTLHead, Variant.fixed]
    exact restoreOther_spec _ _ _ wf.hcnt
  · simp at hv
    simp only [toTL, hn, if_false, hv, Bool.not_false, if_true, toTLHead, Variant.fixed]
    exact restoreOther_spec _ _ _ wf.hcnt

/-- **C02, one MultiValue (tail or one string-top entry).**  For every well-formed agent-side value, every sample factor
    ≥ 1, every centroid list its digest reports and every agent host, merging the TL form into a fresh aggregator value
    yields count·sf, the same min and max, sum·sf, sumsq·sf, the three hosts (agent host for empty), the same unique
    set and the centroids with weights·sf, and no ingestion error. -/
theorem value_roundtrip (m : MultiValue α) (sf : α) (pct : Bool) (cents : List (Centroid α)) (h : Tag) (pick : Bool)
    (wf : WFv m.v) (hu : m.uq.Pairwise (· < ·)) (hsf : 1 ≤ sf) (rg : InRange m sf cents) :
    mergeTL Variant.fixed MultiValue.empty (toTL Variant.fixed m sf pct cents) h pick =
      ⟨expected m sf h pct cents, 0⟩ := by
  have hsf0 : 0 < sf := lt_of_lt_of_le one_pos hsf
  by_cases hn : m.v.counter * sf ≤ 0
  · simp [mergeTL, toTL, hn, tlCounter, TLValue.empty, expected]
  have hpos : 0 < m.v.counter * sf := not_le.mp hn
  have hc := tlCounter_toTL Variant.fixed m sf pct cents hpos
  have hc0 : ¬ m.v.counter * sf = 0 := ne_of_gt hpos
  have hce : counterErr (m.v.counter * sf) = 0 := counterErr_ok _ (le_of_lt hpos) rg.counter
  have hcnt := restoreCnt_toTL m sf pct cents h wf hpos
  have huq : (toTL Variant.fixed m sf pct cents).uq = if m.uq.isEmpty then none else some m.uq := by
    by_cases hv : m.v.vset = true <;> simp [toTL, hn, hv, toTLHead, TLValue.empty]
  have hmc : mergeCounterUq Variant.fixed MultiValue.empty (toTL Variant.fixed m sf pct cents) h pick =
      { v := { (ItemValue.empty : ItemValue α) with hcnt := sub h m.v.hcnt, counter := m.v.counter * sf }, dg := none, uq := m.uq } := by
    simp only [mergeCounterUq, hc, hcnt, huq, MultiValue.empty, addCounterHost_empty _ _ _ hpos, uqMerge_spec _ hu]
  unfold mergeTL
  rw [hc]
  simp only [hc0, if_false, hce, ne_eq, not_true_eq_false]
  by_cases hv : m.v.vset = true
  · have hvs : (toTL Variant.fixed m sf pct cents).vset = true := by simp [toTL, hn, hv]
    have hvf : valueFieldsErr (toTL Variant.fixed m sf pct cents) = 0 := by
      have e1 : valueErr ((toTL Variant.fixed m sf pct cents).min.getD 0) = 0 := by
        by_cases h0 : m.v.min = 0
        · simp [toTL, hn, hv, h0, valueErr_ok _ inF32_zero]
        · simp [toTL, hn, hv, h0, valueErr_ok _ rg.min]
      by_cases hcp : compact Variant.fixed m.v = true
      · have e2 : valueErr ((toTL Variant.fixed m sf pct cents).max.getD 0) = 0 := by
          simp [toTL, hn, hv, hcp, valueErr_ok _ inF32_zero]
        have e3 : valueErr ((toTL Variant.fixed m sf pct cents).sum) = 0 := by
          simp [toTL, hn, hv, hcp, valueErr_ok _ inF32_zero]
        simp [valueFieldsErr, e1, e2, e3]
      · have e2 : valueErr ((toTL Variant.fixed m sf pct cents).max.getD 0) = 0 := by
          simp [toTL, hn, hv, hcp, valueErr_ok _ rg.max]
        have e3 : valueErr ((toTL Variant.fixed m sf pct cents).sum) = 0 := by
          simp [toTL, hn, hv, hcp, valueErr_ok _ rg.sum]
        simp [valueFieldsErr, e1, e2, e3]
    simp only [hvs, Bool.not_true, Bool.false_eq_true, if_false, hvf, ne_eq, not_true_eq_false, hmc]
    rw [mergeValueTL_spec m sf pct cents h wf hv hpos _ (by simp [ItemValue.empty]) (by simp [ItemValue.empty])]
    rw [mergeDigest_spec m sf pct cents hv hpos hsf0 rg.cents _ rfl]
    simp [expected, hn, hv, expectedV, ItemValue.empty]
  · simp at hv
    have hvs : (toTL Variant.fixed m sf pct cents).vset = false := by simp [toTL, hn, hv, toTLHead, TLValue.empty]
    obtain ⟨u1, u2, u3, u4, u5, u6⟩ := wf.unset hv
    simp [hvs, hmc, expected, hn, hv, expectedV, ItemValue.empty, u1, u2, u3, u4]



/-! ### percentile centroids: what is proved and what is trusted

  PROVED (below): the list of centroids put on the wire is exactly the list `cents` reported by the agent digest's
  `Centroids()` with every weight multiplied by sf, in the same order, means untouched (`sent_centroids`); the aggregator
  adds exactly that list, element by element, to a fresh digest (`received_centroid_adds`); a value without digest
  travels as the implicit centroid and is added as (min, count·sf) (`received_implicit_centroid`).
  TRUSTED (library hrissan/tdigest, not modelled): what `Centroids()` returns for the adds made on the agent (the
  compression on the agent side, `cents` is universally quantified here), and how the aggregator-side digest
  compresses / merges the added list afterwards; float32 rounding of mean and weight on the wire. -/

omit [IsStrictOrderedRing α] in
theorem sent_centroids (var : Variant) (m : MultiValue α) (sf : α) (cents : List (Centroid α))
    (hpos : 0 < m.v.counter * sf) (hv : m.v.vset = true) (hd : m.dg.isSome = true) (hne : cents ≠ []) :
    (toTL var m sf true cents).cents = some (cents.map (fun c => ⟨c.mean, c.w * sf⟩)) ∧
      (toTL var m sf true cents).implicit = false := by
  have hn : ¬ m.v.counter * sf ≤ 0 := not_le.mpr hpos
  have he : cents.isEmpty = false := by cases cents <;> simp_all
  simp [toTL, hn, hv, toTLCents, toTLImplicit, hd, he, scaleCentroids]

theorem received_centroid_adds (m : MultiValue α) (sf : α) (cents : List (Centroid α)) (h : Tag) (pick : Bool)
    (wf : WFv m.v) (hu : m.uq.Pairwise (· < ·)) (hsf : 1 ≤ sf) (rg : InRange m sf cents)
    (hpos : 0 < m.v.counter * sf) (hv : m.v.vset = true) (hd : m.dg.isSome = true) (hne : cents ≠ []) :
    (mergeTL Variant.fixed MultiValue.empty (toTL Variant.fixed m sf true cents) h pick).mv.dg =
      some (cents.map (fun c => ⟨c.mean, c.w * sf⟩)) := by
  have hn : ¬ m.v.counter * sf ≤ 0 := not_le.mpr hpos
  have he : cents.isEmpty = false := by cases cents <;> simp_all
  rw [value_roundtrip m sf true cents h pick wf hu hsf rg]
  cases hdg : m.dg with
  | none => simp [hdg] at hd
  | some l => simp [expected, hn, hv, expectedDg, hdg, he, scaleCentroids]

theorem received_implicit_centroid (m : MultiValue α) (sf : α) (cents : List (Centroid α)) (h : Tag) (pick : Bool)
    (wf : WFv m.v) (hu : m.uq.Pairwise (· < ·)) (hsf : 1 ≤ sf) (rg : InRange m sf cents)
    (hpos : 0 < m.v.counter * sf) (hv : m.v.vset = true) (hd : m.dg = none) :
    (mergeTL Variant.fixed MultiValue.empty (toTL Variant.fixed m sf true cents) h pick).mv.dg =
      some [⟨m.v.min, m.v.counter * sf⟩] := by
  have hn : ¬ m.v.counter * sf ≤ 0 := not_le.mpr hpos
  rw [value_roundtrip m sf true cents h pick wf hu hsf rg]
  simp [expected, hn, hv, expectedDg, hd]


/-! ### rows built from events are well formed -/

structure WFm (m : MultiValue α) : Prop where
  v : WFv m.v
  uq : m.uq.Pairwise (· < ·)

omit [IsStrictOrderedRing α] in
theorem WFv_empty : WFv (ItemValue.empty : ItemValue α) :=
  ⟨rfl, rfl, rfl, fun _ => ⟨rfl, rfl, rfl, rfl, rfl, rfl⟩⟩

omit [IsStrictOrderedRing α] in
theorem addCounterHost_WFv (s : ItemValue α) (c : α) (host : Tag) (pick : Bool) (wf : WFv s) (hh : host.isNorm = true) :
    WFv (addCounterHost s c host pick) := by
  obtain ⟨a, b, d, e⟩ := wf
  unfold addCounterHost
  split
  · exact ⟨a, b, d, e⟩
  · split
    · exact ⟨hh, b, d, e⟩
    · split
      · exact ⟨a, b, d, e⟩
      · split
        · exact ⟨hh, b, d, e⟩
        · exact ⟨a, b, d, e⟩

omit [IsStrictOrderedRing α] in
theorem addOnlyValue_WFv (s : ItemValue α) (x c : α) (host : Tag) (wf : WFv s) (hh : host.isNorm = true) :
    WFv (addOnlyValue s x c host) := by
  obtain ⟨a, b, d, _⟩ := wf
  refine ⟨a, ?_, ?_, ?_⟩
  · simp only [addOnlyValue]; split <;> assumption
  · simp only [addOnlyValue]; split <;> assumption
  · intro h; simp [addOnlyValue] at h

omit [IsStrictOrderedRing α] in
theorem foldl_addOnlyValue_WFv {β : Type} (f : β → α × α) (host : Tag) (hh : host.isNorm = true) :
    ∀ (l : List β) (s : ItemValue α), WFv s → WFv (l.foldl (fun t b => addOnlyValue t (f b).1 (f b).2 host) s)
  | [], s, wf => wf
  | b :: l, s, wf => foldl_addOnlyValue_WFv f host hh l _ (addOnlyValue_WFv s _ _ host wf hh)

omit [IsStrictOrderedRing α] in
theorem simpleItemCounter_WFv (c : α) (host : Tag) (hh : host.isNorm = true) : WFv (simpleItemCounter c host) :=
  ⟨hh, rfl, rfl, fun _ => ⟨rfl, rfl, rfl, rfl, rfl, rfl⟩⟩

omit [IsStrictOrderedRing α] in
theorem scaleTmp_WFv (t : ItemValue α) (c tot : α) (wf : WFv t) : WFv (scaleTmp t c tot) := by
  obtain ⟨a, b, d, e⟩ := wf
  unfold scaleTmp
  split
  · exact ⟨a, b, d, e⟩
  · split
    · refine ⟨a, b, d, fun h => ?_⟩
      obtain ⟨e1, e2, e3, e4, e5, e6⟩ := e h
      exact ⟨e1, e2, by simp [e3], by simp [e4], e5, e6⟩
    · refine ⟨a, b, d, fun h => ?_⟩
      obtain ⟨e1, e2, e3, e4, e5, e6⟩ := e h
      exact ⟨e1, e2, by simp [e3], by simp [e4], e5, e6⟩

omit [IsStrictOrderedRing α] in
theorem mergeValuePart_WFv (s s2 : ItemValue α) (wf : WFv s) (wf2 : WFv s2) : WFv (mergeValuePart s s2) := by
  obtain ⟨a, b, d, _⟩ := wf
  obtain ⟨_, b2, d2, _⟩ := wf2
  refine ⟨a, ?_, ?_, ?_⟩
  · simp only [mergeValuePart]; split <;> assumption
  · simp only [mergeValuePart]; split <;> assumption
  · intro h; simp [mergeValuePart] at h

omit [IsStrictOrderedRing α] in
theorem itemMerge_WFv (s s2 : ItemValue α) (pick : Bool) (wf : WFv s) (wf2 : WFv s2) : WFv (itemMerge s s2 pick) := by
  unfold itemMerge
  split
  · exact mergeValuePart_WFv _ _ (addCounterHost_WFv _ _ _ _ wf wf2.hcnt) wf2
  · exact addCounterHost_WFv _ _ _ _ wf wf2.hcnt

omit [IsStrictOrderedRing α] in
theorem tmpOfValues_WFv (hist : List (α × α)) (vals : List α) (c tot : α) (host : Tag) (hh : host.isNorm = true) :
    WFv (tmpOfValues hist vals c tot host) := by
  unfold tmpOfValues
  apply scaleTmp_WFv
  apply foldl_addOnlyValue_WFv (fun kv : α × α => kv) host hh
  exact foldl_addOnlyValue_WFv (fun x : α => (x, (1 : α))) host hh vals _ (simpleItemCounter_WFv c host hh)

theorem mem_setInsert : ∀ (l : List Nat) (x y : Nat), y ∈ setInsert l x → y = x ∨ y ∈ l
  | [], x, y, h => by simp [setInsert] at h; exact Or.inl h
  | z :: zs, x, y, h => by
    unfold setInsert at h
    split at h
    · simp at h; rcases h with h | h | h <;> simp [h]
    · split at h
      · exact Or.inr h
      · simp at h
        rcases h with h | h
        · simp [h]
        · rcases mem_setInsert zs x y h with h | h <;> simp [h]

theorem setInsert_pairwise : ∀ (l : List Nat) (x : Nat), l.Pairwise (· < ·) → (setInsert l x).Pairwise (· < ·)
  | [], x, _ => by simp [setInsert]
  | z :: zs, x, h => by
    obtain ⟨h1, h2⟩ := List.pairwise_cons.mp h
    unfold setInsert
    split
    · rename_i hx
      refine List.pairwise_cons.mpr ⟨?_, h⟩
      intro a ha
      rcases List.mem_cons.mp ha with rfl | ha
      · exact hx
      · exact Nat.lt_trans hx (h1 a ha)
    · split
      · exact h
      · rename_i hx hne
        refine List.pairwise_cons.mpr ⟨?_, setInsert_pairwise zs x h2⟩
        intro a ha
        rcases mem_setInsert zs x a ha with rfl | ha
        · omega
        · exact h1 a ha

theorem foldl_setInsert_pairwise {β : Type} (f : β → Nat) : ∀ (l : List β) (u : List Nat), u.Pairwise (· < ·) →
    (l.foldl (fun u b => setInsert u (f b)) u).Pairwise (· < ·)
  | [], u, h => h
  | b :: l, u, h => foldl_setInsert_pairwise f l _ (setInsert_pairwise u (f b) h)

/-- the host tag carried by an event is normalized (`I` has priority over `S`; mapping produces one of them) -/
def _root_.SH.Transfer.Event.hostNorm : Event α → Prop
  | .counter _ host _ => host.isNorm = true
  | .values _ _ _ host _ _ => host.isNorm = true
  | .valuesLegacy _ _ _ host _ _ => host.isNorm = true
  | .valuePct _ _ host _ _ => host.isNorm = true
  | .unique _ _ host _ => host.isNorm = true

omit [IsStrictOrderedRing α] in
/-- every event keeps a MultiValue well formed -/
theorem applyEvent_WF (m : MultiValue α) (e : Event α) (wf : WFm m) (he : e.hostNorm) : WFm (applyEvent m e) := by
  obtain ⟨wv, wu⟩ := wf
  cases e with
  | counter c host pick => exact ⟨addCounterHost_WFv _ _ _ _ wv he, wu⟩
  | values hist vals c host pick pct =>
    have hm := itemMerge_WFv m.v (tmpOfValues hist vals (defaultCount c (totalCount hist vals)) (totalCount hist vals) host) pick wv
      (tmpOfValues_WFv _ _ _ _ host he)
    simp only [applyEvent, applyValues]
    split
    · exact ⟨wv, wu⟩
    · split
      · exact ⟨hm, wu⟩
      · split
        · exact ⟨hm, wu⟩
        · exact ⟨hm, wu⟩
  | valuesLegacy hist vals c host pick pct =>
    have hm := itemMerge_WFv m.v (tmpOfValues hist vals (defaultCount c (totalCount hist vals)) (totalCount hist vals) host) pick wv
      (tmpOfValues_WFv _ _ _ _ host he)
    simp only [applyEvent, applyValuesLegacy]
    split
    · exact ⟨wv, wu⟩
    · exact ⟨hm, wu⟩
  | valuePct x c host pick pct =>
    have hm := addOnlyValue_WFv _ x c host (addCounterHost_WFv m.v c host pick wv he) he
    simp only [applyEvent, addValuePct]
    split
    · exact ⟨hm, wu⟩
    · split
      · exact ⟨hm, wu⟩
      · exact ⟨hm, wu⟩
  | unique hashes c host pick =>
    simp only [applyEvent, applyUnique]
    split
    · exact ⟨wv, wu⟩
    · refine ⟨?_, foldl_setInsert_pairwise (fun h : α × Nat => h.2) hashes _ wu⟩
      apply itemMerge_WFv _ _ _ wv
      apply scaleTmp_WFv
      exact foldl_addOnlyValue_WFv (fun h : α × Nat => (h.1, (1 : α))) host he hashes _ (simpleItemCounter_WFv _ host he)

omit [IsStrictOrderedRing α] in
/-- rows built from any sequence of events with normalized hosts are well formed -/
theorem built_WF (evs : List (Event α)) (he : ∀ e ∈ evs, e.hostNorm) :
    WFm (evs.foldl applyEvent (MultiValue.empty : MultiValue α)) := by
  suffices h : ∀ (l : List (Event α)) (m : MultiValue α), WFm m → (∀ e ∈ l, e.hostNorm) → WFm (l.foldl applyEvent m) from
    h evs _ ⟨WFv_empty, List.Pairwise.nil⟩ he
  intro l
  induction l with
  | nil => intro m wf _; exact wf
  | cons e l ih =>
    intro m wf hl
    exact ih _ (applyEvent_WF m e wf (hl e (by simp))) (fun x hx => hl x (by simp [hx]))



/-- **C02 for rows built from events.**  Any sequence of counter / value / histogram / unique events (hosts normalized)
    builds a value that survives the transfer with every sample factor ≥ 1, as long as the scaled numbers pass the
    aggregator's float32 range validators. -/
theorem built_value_roundtrip (evs : List (Event α)) (he : ∀ e ∈ evs, e.hostNorm)
    (sf : α) (pct : Bool) (cents : List (Centroid α)) (h : Tag) (pick : Bool) (hsf : 1 ≤ sf)
    (rg : InRange (evs.foldl applyEvent (MultiValue.empty : MultiValue α)) sf cents) :
    mergeTL Variant.fixed MultiValue.empty
        (toTL Variant.fixed (evs.foldl applyEvent (MultiValue.empty : MultiValue α)) sf pct cents) h pick =
      ⟨expected (evs.foldl applyEvent (MultiValue.empty : MultiValue α)) sf h pct cents, 0⟩ :=
  value_roundtrip _ sf pct cents h pick (built_WF evs he).v (built_WF evs he).uq hsf rg

/-! ### key transport -/

theorem all_eq_replicate {β : Type} (d : β) : ∀ (l : List β), (∀ x ∈ l, x = d) → l = List.replicate l.length d
  | [], _ => rfl
  | x :: xs, h => by
    have hx : x = d := h x (by simp)
    have ih := all_eq_replicate d xs (fun y hy => h y (by simp [hy]))
    rw [List.length_cons, List.replicate_succ, ← ih, hx]

theorem takeWhile_all {β : Type} (p : β → Bool) : ∀ (l : List β), ∀ x ∈ l.takeWhile p, p x = true
  | [], x, h => by simp at h
  | y :: ys, x, h => by
    by_cases hy : p y = true
    · simp only [List.takeWhile_cons, hy, if_true, List.mem_cons] at h
      rcases h with rfl | h
      · exact hy
      · exact takeWhile_all p ys x h
    · simp [List.takeWhile_cons, hy] at h

/-- trimming trailing default entries and padding back restores a fixed-length array -/
theorem pad_dropTrailing {β : Type} (p : β → Bool) (d : β) (hp : ∀ x, p x = true → x = d) (n : Nat) (l : List β)
    (hl : l.length = n) : padTo n d (dropTrailing p l) = l := by
  have hsplit := List.takeWhile_append_dropWhile (p := p) (l := l.reverse)
  have hrev : l = (l.reverse.dropWhile p).reverse ++ (l.reverse.takeWhile p).reverse := by
    have := congrArg List.reverse hsplit
    rw [List.reverse_append, List.reverse_reverse] at this
    exact this.symm
  have hall : ∀ x ∈ (l.reverse.takeWhile p).reverse, x = d := by
    intro x hx
    have hx' : x ∈ l.reverse.takeWhile p := by simpa using hx
    exact hp x (takeWhile_all p _ x hx')
  have hrep := all_eq_replicate d _ hall
  have hlen : n = (l.reverse.dropWhile p).reverse.length + (l.reverse.takeWhile p).reverse.length := by
    rw [← hl]
    conv_lhs => rw [hrev]
    simp
  unfold padTo dropTrailing
  conv_rhs => rw [hrev, hrep]
  rw [hlen]
  simp only [Nat.add_sub_cancel_left]
  apply List.take_of_length_le
  simp

theorem key_ext (a b : Key) (h1 : a.ts = b.ts) (h2 : a.metric = b.metric) (h3 : a.tags = b.tags)
    (h4 : a.stags = b.stags) : a = b := by
  cases a; cases b; simp_all

/-- **C02, key.**  Tags, string tags, metric and timestamp arrive unchanged when the timestamp is set and inside the
    aggregator's believe window (0 < ts ≤ bucket ≤ ts + 93600); no ingestion warning is raised. -/
theorem key_roundtrip (var : Variant) (r : Row α) (bucketTs : Nat) (sf : α) (pct : Bool) (cents : Tag → List (Centroid α))
    (hl1 : r.key.tags.length = maxTags) (hl2 : r.key.stags.length = maxTags)
    (h0 : r.key.ts ≠ 0) (h1 : r.key.ts ≤ bucketTs) (h2 : bucketTs ≤ r.key.ts + believeWindow) :
    keyFromTL (rowToTL var r bucketTs sf pct cents) bucketTs = r.key ∧
      (tsFromTL (rowToTL var r bucketTs sf pct cents).t bucketTs).2 = 0 := by
  have e1 : padTo maxTags (0 : Int) (dropTrailing (fun x => x == 0) r.key.tags) = r.key.tags :=
    pad_dropTrailing _ 0 (by intro x hx; simpa using hx) _ _ hl1
  have e2 : padTo maxTags ([] : Str) (dropTrailing (fun (x : Str) => x.isEmpty) r.key.stags) = r.key.stags :=
    pad_dropTrailing _ [] (by intro x hx; simpa using hx) _ _ hl2
  have ets : tsFromTL (rowToTL var r bucketTs sf pct cents).t bucketTs = (r.key.ts, 0) := by
    by_cases hb : r.key.ts = bucketTs
    · simp [rowToTL, sendT, hb, tsFromTL]
    · have a : ¬ bucketTs < r.key.ts := by omega
      have b : ¬ r.key.ts + believeWindow < bucketTs := by omega
      simp [rowToTL, sendT, hb, h0, tsFromTL, a, b]
  refine ⟨?_, by rw [ets]⟩
  apply key_ext
  · simp only [keyFromTL, ets]
  · simp [keyFromTL, rowToTL]
  · simpa [keyFromTL, rowToTL] using e1
  · by_cases hs : (dropTrailing (fun (x : Str) => x.isEmpty) r.key.stags).isEmpty = true
    · have : dropTrailing (fun (x : Str) => x.isEmpty) r.key.stags = [] := by simpa using hs
      simp only [keyFromTL, rowToTL, hs, if_true, Option.getD_none]
      rw [← this]; exact e2
    · simp only [keyFromTL, rowToTL, hs, Bool.false_eq_true, if_false, Option.getD_some]
      exact e2

omit [Field α] [LinearOrder α] [IsStrictOrderedRing α] in
/-- the two deliberate clamps and the default: a timestamp in the future of the bucket or older than the believe window
    arrives as the bucket time with a warning; an unset (0) timestamp arrives as the bucket time -/
theorem ts_clamps (bucketTs ts : Nat) :
    (bucketTs < ts → tsFromTL (some ts) bucketTs = (bucketTs, 1)) ∧
    (ts + believeWindow < bucketTs → tsFromTL (some ts) bucketTs = (bucketTs, 2)) ∧
    tsFromTL none bucketTs = (bucketTs, 0) := by
  refine ⟨fun h => by simp [tsFromTL, h], fun h => ?_, rfl⟩
  have : ¬ bucketTs < ts := by omega
  simp [tsFromTL, this, h]

/-! ### the row identity: Key.MarshalAppend is injective

  The marshalled key is the map key of MultiItemMap on the agent (bucket) and on the aggregator (shard): two different
  keys must never share it, otherwise one key is not reconstructed and the other carries both rows' aggregates. -/

section marshal

theorem split_at_sep {β : Type} (x : β) : ∀ (a b r r' : List β), x ∉ a → x ∉ b → a ++ x :: r = b ++ x :: r' → a = b ∧ r = r'
  | [], [], r, r', _, _, h => by simpa using h
  | [], y :: b, r, r', _, hb, h => by
    simp at h
    exact absurd h.1 (fun e => hb (by simp [e]))
  | y :: a, [], r, r', ha, _, h => by
    simp at h
    exact absurd h.1 (fun e => ha (by simp [e]))
  | y :: a, z :: b, r, r', ha, hb, h => by
    simp at h
    obtain ⟨h1, h2⟩ := h
    have := split_at_sep x a b r r' (fun m => ha (by simp [m])) (fun m => hb (by simp [m])) h2
    exact ⟨by rw [h1, this.1], this.2⟩

/-- zero-terminated NUL-free strings can be read back unambiguously -/
theorem terminated_inj : ∀ (l1 l2 : List Str), (∀ s ∈ l1, nul ∉ s) → (∀ s ∈ l2, nul ∉ s) →
    terminated l1 = terminated l2 → l1 = l2
  | [], [], _, _, _ => rfl
  | [], s :: l2, _, _, h => by
    simp [terminated] at h
  | s :: l1, [], _, _, h => by
    simp [terminated] at h
  | s1 :: l1, s2 :: l2, h1, h2, h => by
    have h' : s1 ++ nul :: terminated l1 = s2 ++ nul :: terminated l2 := by
      simpa [terminated, List.append_assoc] using h
    obtain ⟨e1, e2⟩ := split_at_sep nul s1 s2 _ _ (h1 s1 (by simp)) (h2 s2 (by simp)) h'
    have := terminated_inj l1 l2 (fun s hs => h1 s (by simp [hs])) (fun s hs => h2 s (by simp [hs])) e2
    rw [e1, this]

theorem terminated_len (l : List Str) (hne : l ≠ []) : 1 ≤ (terminated l).length := by
  cases l with
  | nil => exact absurd rfl hne
  | cons s l => simp [terminated]; omega

/-- the string section of the tree's MarshalAppend determines the (trailing-empties-trimmed) string tags -/
theorem stagSection_inj (s1 s2 : List Str) (h1 : ∀ s ∈ s1, nul ∉ s) (h2 : ∀ s ∈ s2, nul ∉ s)
    (h : stagSection false s1 = stagSection false s2) :
    dropTrailing (fun (x : Str) => x.isEmpty) s1 = dropTrailing (fun (x : Str) => x.isEmpty) s2 := by
  have sub : ∀ (l : List Str), ∀ s ∈ dropTrailing (fun (x : Str) => x.isEmpty) l, s ∈ l := by
    intro l s hs
    unfold dropTrailing at hs
    have := List.mem_reverse.mp hs
    exact List.mem_reverse.mp ((List.dropWhile_sublist _).subset this)
  have hf : ∀ l : List Str, l.filter (fun _ => true) = l := fun l => by induction l <;> simp_all
  unfold stagSection at h
  simp only [Bool.false_and, Bool.not_false, hf] at h
  by_cases e1 : (dropTrailing (fun (x : Str) => x.isEmpty) s1).isEmpty = true
  · by_cases e2 : (dropTrailing (fun (x : Str) => x.isEmpty) s2).isEmpty = true
    · rw [List.isEmpty_iff.mp e1, List.isEmpty_iff.mp e2]
    · simp only [e1, e2, if_true, Bool.false_eq_true, if_false] at h
      have hne : dropTrailing (fun (x : Str) => x.isEmpty) s2 ≠ [] := fun e => e2 (by simp [e])
      have := terminated_len _ hne
      have hl := congrArg List.length h
      rw [List.length_append] at hl
      simp only [List.length_cons, List.length_nil] at hl
      omega
  · by_cases e2 : (dropTrailing (fun (x : Str) => x.isEmpty) s2).isEmpty = true
    · simp only [e1, e2, if_true, Bool.false_eq_true, if_false] at h
      have hne : dropTrailing (fun (x : Str) => x.isEmpty) s1 ≠ [] := fun e => e1 (by simp [e])
      have := terminated_len _ hne
      have hl := congrArg List.length h
      rw [List.length_append] at hl
      simp only [List.length_cons, List.length_nil] at hl
      omega
    · simp only [e1, e2, Bool.false_eq_true, if_false] at h
      have h' := List.append_cancel_right h
      exact terminated_inj _ _ (fun s hs => h1 s (sub s1 s hs)) (fun s hs => h2 s (sub s2 s hs)) h'

/-- **Key.MarshalAppend is injective** on keys with tag arrays of the same size whose string tags contain no NUL byte:
    equal marshalled bytes ⇒ the same key (every tag and string tag in the same POSITION). -/
theorem marshal_injective (k1 k2 : Key) (n : Nat)
    (ht1 : k1.tags.length = n) (ht2 : k2.tags.length = n) (hs1 : k1.stags.length = n) (hs2 : k2.stags.length = n)
    (hn1 : ∀ s ∈ k1.stags, nul ∉ s) (hn2 : ∀ s ∈ k2.stags, nul ∉ s)
    (h : marshalKey k1 = marshalKey k2) : k1 = k2 := by
  simp only [marshalKey, marshalKeyV, Marshalled.mk.injEq] at h
  obtain ⟨e1, e2, e3, e4⟩ := h
  have e4' := stagSection_inj _ _ hn1 hn2 e4
  apply key_ext _ _ e1 e2
  · rw [← pad_dropTrailing (fun x => x == 0) (0 : Int) (by intro x hx; simpa using hx) n k1.tags ht1,
      ← pad_dropTrailing (fun x => x == 0) (0 : Int) (by intro x hx; simpa using hx) n k2.tags ht2, e3]
  · rw [← pad_dropTrailing (fun (x : Str) => x.isEmpty) ([] : Str) (by intro x hx; simpa using hx) n k1.stags hs1,
      ← pad_dropTrailing (fun (x : Str) => x.isEmpty) ([] : Str) (by intro x hx; simpa using hx) n k2.stags hs2, e4']

/-- non-vacuity and the seeded variant C02-r5-1 ("unset string tags take no space"): two keys that differ only in the
    POSITION of equal string-tag values are distinct, satisfy the hypotheses, marshal differently in the tree — and
    marshal to the same bytes in the variant (the aggregator would merge the two rows). -/
def keyA : Key := ⟨5, 7, [0, 3, 0, 0], [[], ['c', 'o'], [], ['e', 'u']]⟩
def keyB : Key := ⟨5, 7, [0, 3, 0, 0], [[], [], ['c', 'o'], ['e', 'u']]⟩

example : keyA ≠ keyB ∧ keyA.tags.length = 4 ∧ keyB.stags.length = 4 ∧ (∀ s ∈ keyA.stags, nul ∉ s) ∧
    marshalKey keyA ≠ marshalKey keyB ∧ marshalKeyV true keyA = marshalKeyV true keyB := by decide

end marshal

/-! ### string tops and the whole row -/

/-- a string-top key as the agent stores it: not empty and normalized -/
def TopKeyOk (k : Tag) : Prop := k.isEmpty = false ∧ k.isNorm = true

omit [Field α] [LinearOrder α] [IsStrictOrderedRing α] in
/-- the aggregator recovers the string-top key from (stag, tag) of the TL top element -/
theorem topKey_spec (k : Tag) (hk : TopKeyOk k) :
    (tagOf (hostI k) (some k.s)).isEmpty = false ∧ (tagOf (hostI k) (some k.s)).normalize = k := by
  obtain ⟨i, s⟩ := k
  obtain ⟨h1, h2⟩ := hk
  by_cases hi : i = 0
  · subst hi
    cases s with
    | nil => simp [Tag.isEmpty] at h1
    | cons c cs => simp [tagOf, hostI, Tag.isEmpty, Tag.normalize]
  · have : s = [] := by simpa [Tag.isNorm, hi] using h2
    subst this
    simp [tagOf, hostI, Tag.isEmpty, Tag.normalize, hi]

theorem topUpdate_fresh (f : MultiValue α → MultiValue α) (k : Tag) :
    ∀ (top : List (Tag × MultiValue α)), (∀ kv ∈ top, kv.1 ≠ k) → topUpdate top k f = top ++ [(k, f MultiValue.empty)]
  | [], _ => rfl
  | (k', m) :: rest, h => by
    have h1 : ¬ k' = k := h (k', m) (by simp)
    have ih := topUpdate_fresh f k rest (fun kv hkv => h kv (by simp [hkv]))
    simp [topUpdate, h1, ih]

theorem lookup_fresh (k : Tag) :
    ∀ (top : List (Tag × MultiValue α)), (∀ kv ∈ top, kv.1 ≠ k) → top.lookup k = none
  | [], _ => rfl
  | (k', m) :: rest, h => by
    have h1 : ¬ k = k' := fun e => h (k', m) (by simp) e.symm
    have hb : (k == k') = false := by simpa using h1
    have ih := lookup_fresh k rest (fun kv hkv => h kv (by simp [hkv]))
    simp [List.lookup, hb, ih]

/-- one Top element whose key is new to the row: appended with the value merged into a fresh MultiValue -/
theorem mergeTopElem_fresh (var : Variant) (r : Row α) (e : TLTop α) (h : Tag) (pick : Bool) (k : Tag)
    (h1 : (tagOf e.tag (some e.stag)).isEmpty = false) (h2 : (tagOf e.tag (some e.stag)).normalize = k)
    (hfr : ∀ d ∈ r.top, d.1 ≠ k) :
    mergeTopElem var r e h pick =
      ⟨{ r with top := r.top ++ [(k, (mergeTL var MultiValue.empty e.value h pick).mv)] },
        (mergeTL var MultiValue.empty e.value h pick).err⟩ := by
  unfold mergeTopElem
  rw [h1, h2, topUpdate_fresh _ _ _ hfr, lookup_fresh _ _ hfr]
  simp

/-- one TL top element as keepF builds it -/
def tlTop (sf : α) (pct : Bool) (cents : Tag → List (Centroid α)) (kv : Tag × MultiValue α) : TLTop α :=
  ⟨kv.1.s, hostI kv.1, toTL Variant.fixed kv.2 sf pct (cents kv.1)⟩

/-- the string-top entry the aggregator must hold -/
def expectedTop (sf : α) (h : Tag) (pct : Bool) (cents : Tag → List (Centroid α)) (kv : Tag × MultiValue α) :
    Tag × MultiValue α := (kv.1, expected kv.2 sf h pct (cents kv.1))

/-- every entry of an agent-side Top map: key ok, value well formed and in range -/
def TopOk (sf : α) (cents : Tag → List (Centroid α)) (kv : Tag × MultiValue α) : Prop :=
  TopKeyOk kv.1 ∧ WFm kv.2 ∧ InRange kv.2 sf (cents kv.1)

/-- the Top loop of MergeWithTLMultiItem: elements with pairwise distinct keys, in ANY order (Go map iteration),
    are appended one by one, each equal to the expected scaled entry -/
theorem mergeTops_spec (sf : α) (pct : Bool) (cents : Tag → List (Centroid α)) (h : Tag) (pick : Bool) (hsf : 1 ≤ sf) :
    ∀ (es : List (Tag × MultiValue α)) (r : Row α),
      (∀ kv ∈ es, TopOk sf cents kv) → es.Pairwise (fun a b => a.1 ≠ b.1) → (∀ kv ∈ es, ∀ d ∈ r.top, d.1 ≠ kv.1) →
      mergeTops Variant.fixed h pick r (es.map (tlTop sf pct cents)) =
        ⟨{ r with top := r.top ++ es.map (expectedTop sf h pct cents) }, 0⟩
  | [], r, _, _, _ => by simp [mergeTops]
  | kv :: es, r, hok, hpw, hfresh => by
    obtain ⟨hk, hwf, hrg⟩ := hok kv (by simp)
    obtain ⟨hk1, hk2⟩ := topKey_spec kv.1 hk
    have hfr : ∀ d ∈ r.top, d.1 ≠ kv.1 := hfresh kv (by simp)
    have hval := value_roundtrip kv.2 sf pct (cents kv.1) h pick hwf.v hwf.uq hsf hrg
    have helem : mergeTopElem Variant.fixed r (tlTop sf pct cents kv) h pick =
        ⟨{ r with top := r.top ++ [expectedTop sf h pct cents kv] }, 0⟩ := by
      unfold mergeTopElem
      simp only [tlTop, hk1, hk2, Bool.false_eq_true, if_false]
      rw [topUpdate_fresh _ _ _ hfr, lookup_fresh _ _ hfr]
      simp only [Option.getD_none, hval, expectedTop]
    obtain ⟨hpw1, hpw2⟩ := List.pairwise_cons.mp hpw
    have ih := mergeTops_spec sf pct cents h pick hsf es { r with top := r.top ++ [expectedTop sf h pct cents kv] }
      (fun x hx => hok x (by simp [hx])) hpw2 (by
        intro x hx d hd
        simp only [List.mem_append, List.mem_singleton] at hd
        rcases hd with hd | hd
        · exact hfresh x (by simp [hx]) d hd
        · subst hd; exact hpw1 x hx)
    simp only [List.map_cons, mergeTops, helem, ne_eq, not_true_eq_false, if_false, ih]
    simp

/-- the row the aggregator must hold -/
def expectedRow (r : Row α) (sf : α) (h : Tag) (pct : Bool) (cents : Tag → List (Centroid α)) : Row α :=
  { key := r.key
    top := r.top.map (expectedTop sf h pct cents)
    tail := expected r.tail sf h pct (cents Tag.none) }

/-- well-formed agent-side row: key arrays of MaxTags entries, timestamp set and inside the believe window, distinct
    non-empty normalized string-top keys, every value well formed and in the float32 range after scaling -/
structure RowOk (r : Row α) (bucketTs : Nat) (sf : α) (cents : Tag → List (Centroid α)) : Prop where
  tags : r.key.tags.length = maxTags
  stags : r.key.stags.length = maxTags
  ts0 : r.key.ts ≠ 0
  ts1 : r.key.ts ≤ bucketTs
  ts2 : bucketTs ≤ r.key.ts + believeWindow
  top : ∀ kv ∈ r.top, TopOk sf cents kv
  distinct : r.top.Pairwise (fun a b => a.1 ≠ b.1)
  tail : WFm r.tail
  tailRange : InRange r.tail sf (cents Tag.none)

/-- **C02, whole row.**  For every well-formed row, every sample factor ≥ 1 and every agent host, the aggregator that
    receives the row's TL item in a fresh bucket entry holds the same key, the same string-top keys (in the order they
    were sent, whatever that order was) and, for the tail and every top entry, the scaled aggregates; no ingestion
    error is raised.  `rowToTL` enumerates `r.top` in list order; Go enumerates a map in arbitrary order, which is
    covered because `r.top` is an arbitrary list with distinct keys. -/
theorem row_roundtrip (r : Row α) (bucketTs : Nat) (sf : α) (pct : Bool) (cents : Tag → List (Centroid α)) (h : Tag)
    (hsf : 1 ≤ sf) (ok : RowOk r bucketTs sf cents) :
    receive Variant.fixed (rowToTL Variant.fixed r bucketTs sf pct cents) bucketTs h =
      ⟨expectedRow r sf h pct cents, 0⟩ := by
  have hkey := (key_roundtrip Variant.fixed r bucketTs sf pct cents ok.tags ok.stags ok.ts0 ok.ts1 ok.ts2).1
  have htops : ((rowToTL Variant.fixed r bucketTs sf pct cents).top.getD []) = r.top.map (tlTop sf pct cents) := by
    cases ht : r.top with
    | nil => simp [rowToTL, ht]
    | cons a l => simp [rowToTL, ht, tlTop]
  have hm := mergeTops_spec sf pct cents h false hsf r.top (Row.empty r.key) ok.top ok.distinct (by simp [Row.empty])
  have htail := value_roundtrip r.tail sf pct (cents Tag.none) h false ok.tail.v ok.tail.uq hsf ok.tailRange
  have htl : (rowToTL Variant.fixed r bucketTs sf pct cents).tail = toTL Variant.fixed r.tail sf pct (cents Tag.none) := rfl
  simp only [receive, mergeItemTL, hkey, htops, hm, htl, ne_eq, not_true_eq_false, if_false]
  simp [Row.empty, htail, expectedRow]

/-! ### rows built from events (string-top routing) are well formed -/

/-- what every agent-side row built by events satisfies -/
structure RowWF (r : Row α) : Prop where
  top : ∀ kv ∈ r.top, TopKeyOk kv.1 ∧ WFm kv.2
  distinct : r.top.Pairwise (fun a b => a.1 ≠ b.1)
  tail : WFm r.tail

omit [Field α] [LinearOrder α] [IsStrictOrderedRing α] in
theorem normalize_ok (t : Tag) (h : t.isEmpty = false) : TopKeyOk t.normalize := by
  obtain ⟨i, s⟩ := t
  by_cases hi : i = 0
  · subst hi
    cases s with
    | nil => simp [Tag.isEmpty] at h
    | cons c cs => exact ⟨rfl, rfl⟩
  · refine ⟨?_, ?_⟩ <;> simp [Tag.normalize, hi, Tag.isEmpty, Tag.isNorm]

theorem topUpdate_mem (f : MultiValue α → MultiValue α) (k : Tag) :
    ∀ (top : List (Tag × MultiValue α)) (kv : Tag × MultiValue α), kv ∈ topUpdate top k f →
      kv ∈ top ∨ (kv.1 = k ∧ ∃ m, (m = MultiValue.empty ∨ (k, m) ∈ top) ∧ kv.2 = f m)
  | [], kv, h => by
    simp only [topUpdate, List.mem_singleton] at h
    subst h
    exact Or.inr ⟨rfl, MultiValue.empty, Or.inl rfl, rfl⟩
  | (k', m) :: rest, kv, h => by
    by_cases hk : k' = k
    · subst hk
      simp only [topUpdate, if_true, List.mem_cons] at h
      rcases h with h | h
      · subst h
        exact Or.inr ⟨rfl, m, Or.inr (by simp), rfl⟩
      · exact Or.inl (by simp [h])
    · simp only [topUpdate, hk, if_false, List.mem_cons] at h
      rcases h with h | h
      · exact Or.inl (by simp [h])
      · rcases topUpdate_mem f k rest kv h with h' | ⟨h1, m', h2, h3⟩
        · exact Or.inl (by simp [h'])
        · refine Or.inr ⟨h1, m', ?_, h3⟩
          rcases h2 with h2 | h2
          · exact Or.inl h2
          · exact Or.inr (by simp [h2])

theorem topUpdate_distinct (f : MultiValue α → MultiValue α) (k : Tag) :
    ∀ (top : List (Tag × MultiValue α)), top.Pairwise (fun a b => a.1 ≠ b.1) →
      (topUpdate top k f).Pairwise (fun a b => a.1 ≠ b.1)
  | [], _ => by simp [topUpdate]
  | (k', m) :: rest, h => by
    obtain ⟨h1, h2⟩ := List.pairwise_cons.mp h
    by_cases hk : k' = k
    · simp only [topUpdate, hk, if_true]
      exact List.pairwise_cons.mpr ⟨fun b hb => by simpa [hk] using h1 b hb, h2⟩
    · simp only [topUpdate, hk, if_false]
      refine List.pairwise_cons.mpr ⟨?_, topUpdate_distinct f k rest h2⟩
      intro b hb
      rcases topUpdate_mem f k rest b hb with hb' | ⟨hb1, _⟩
      · exact h1 b hb'
      · simpa [hb1] using hk

omit [IsStrictOrderedRing α] in
theorem WFm_empty : WFm (MultiValue.empty : MultiValue α) := ⟨WFv_empty, List.Pairwise.nil⟩

/-- one event, routed by its string-top tag, keeps the row well formed -/
theorem rowEvent_WF (r : Row α) (topTag : Tag) (e : Event α) (wf : RowWF r) (he : e.hostNorm) :
    RowWF (rowEvent r topTag e) := by
  obtain ⟨w1, w2, w3⟩ := wf
  unfold rowEvent
  split
  · exact ⟨w1, w2, w3⟩
  · split
    · exact ⟨w1, w2, applyEvent_WF _ e w3 he⟩
    · rename_i hemp
      have hemp' : topTag.isEmpty = false := by simpa using hemp
      refine ⟨?_, topUpdate_distinct _ _ _ w2, w3⟩
      intro kv hkv
      rcases topUpdate_mem _ _ _ kv hkv with h | ⟨h1, m, h2, h3⟩
      · exact w1 kv h
      · refine ⟨by rw [h1]; exact normalize_ok topTag hemp', ?_⟩
        rw [h3]
        rcases h2 with h2 | h2
        · subst h2; exact applyEvent_WF _ e WFm_empty he
        · exact applyEvent_WF _ e (w1 _ h2).2 he

/-- rows built from ANY sequence of (string-top tag, event) pairs are well formed -/
theorem built_row_WF (k : Key) (evs : List (Tag × Event α)) (he : ∀ p ∈ evs, p.2.hostNorm) :
    RowWF (evs.foldl (fun r p => rowEvent r p.1 p.2) (Row.empty k : Row α)) := by
  suffices h : ∀ (l : List (Tag × Event α)) (r : Row α), RowWF r → (∀ p ∈ l, p.2.hostNorm) →
      RowWF (l.foldl (fun r p => rowEvent r p.1 p.2) r) from
    h evs _ ⟨by simp [Row.empty], by simp [Row.empty], WFm_empty⟩ he
  intro l
  induction l with
  | nil => intro r wf _; exact wf
  | cons p l ih =>
    intro r wf hl
    exact ih _ (rowEvent_WF r p.1 p.2 wf (hl p (by simp))) (fun x hx => hl x (by simp [hx]))

omit [IsStrictOrderedRing α] in
theorem built_row_key (k : Key) : ∀ (evs : List (Tag × Event α)) (r : Row α), r.key = k →
    (evs.foldl (fun r p => rowEvent r p.1 p.2) r).key = k
  | [], r, h => h
  | p :: l, r, h => by
    have hr : (rowEvent r p.1 p.2).key = k := by
      unfold rowEvent
      split
      · exact h
      · split <;> exact h
    exact built_row_key k l _ hr

/-- **C02, headline.**  Take any key with 48-entry tag arrays and a timestamp inside the believe window, any sequence
    of counter / value / histogram / single-value / unique events with any string-top tags (hosts normalized), any
    sample factor ≥ 1, any agent host: if the scaled numbers are inside the aggregator's float32 range, the aggregator
    reconstructs exactly `expectedRow` — same key, same string-top keys, and for each of them count·sf, min, max,
    sum·sf, sumsq·sf, hosts, unique set, centroids with weights·sf — without ingestion error. -/
theorem built_row_roundtrip (k : Key) (evs : List (Tag × Event α)) (he : ∀ p ∈ evs, p.2.hostNorm)
    (bucketTs : Nat) (sf : α) (pct : Bool) (cents : Tag → List (Centroid α)) (h : Tag) (hsf : 1 ≤ sf)
    (hl1 : k.tags.length = maxTags) (hl2 : k.stags.length = maxTags)
    (h0 : k.ts ≠ 0) (h1 : k.ts ≤ bucketTs) (h2 : bucketTs ≤ k.ts + believeWindow)
    (rgTop : ∀ kv ∈ (evs.foldl (fun r p => rowEvent r p.1 p.2) (Row.empty k : Row α)).top, InRange kv.2 sf (cents kv.1))
    (rgTail : InRange (evs.foldl (fun r p => rowEvent r p.1 p.2) (Row.empty k : Row α)).tail sf (cents Tag.none)) :
    receive Variant.fixed (rowToTL Variant.fixed (evs.foldl (fun r p => rowEvent r p.1 p.2) (Row.empty k : Row α))
        bucketTs sf pct cents) bucketTs h =
      ⟨expectedRow (evs.foldl (fun r p => rowEvent r p.1 p.2) (Row.empty k : Row α)) sf h pct cents, 0⟩ := by
  have wf := built_row_WF k evs he
  have hk := built_row_key k evs (Row.empty k : Row α) rfl
  apply row_roundtrip _ _ _ _ _ _ hsf
  exact ⟨by rw [hk]; exact hl1, by rw [hk]; exact hl2, by rw [hk]; exact h0, by rw [hk]; exact h1, by rw [hk]; exact h2,
    fun kv hkv => ⟨(wf.top kv hkv).1, (wf.top kv hkv).2, rgTop kv hkv⟩, wf.distinct, wf.tail, rgTail⟩

/-! ### the aggregator knows string mappings (handleSendSourceBucket glue)

  `mp` is the aggregator's string → int32 table.  Every string it maps (key string tags, host string tags, string-top
  tags) arrives as its int; everything else is as in the unmapped theorems.  `mapTag mp h = h` says the agent host `h`
  is what `getTagUnionBytes` returned (already an int if the host name is mapped). -/

section mapped

omit [Field α] [LinearOrder α] [IsStrictOrderedRing α] in
theorem hostPair_ok (t : Tag) : HostPairOk (hostI t) (hostS t) := by
  intro hs
  by_cases hi : t.i = 0
  · simp [hostI, hi]
  · simp [hostS, hi] at hs

omit [Field α] [LinearOrder α] [IsStrictOrderedRing α] in
theorem hostDiffPair_ok (e : Bool) (t hmax : Tag) : HostPairOk (hostDiffI e t hmax) (hostDiffS t hmax) := by
  intro hs
  by_cases he : t = hmax
  · simp [hostDiffS, he] at hs
  · by_cases hi : t.i = 0
    · cases hts : t.s with
      | nil => simp [hostDiffS, he, hostS, hi, hts] at hs
      | cons c cs => simp [hostDiffI, he, hi, hts]
    · simp [hostDiffS, he, hostS, hi] at hs

omit [IsStrictOrderedRing α] in
/-- MultiValueToTL never writes a string host next to a non-zero int host -/
theorem toTL_hostsOk (var : Variant) (m : MultiValue α) (sf : α) (pct : Bool) (cents : List (Centroid α)) :
    TLHostsOk (toTL var m sf pct cents) := by
  have hd : TLHostsOk (toTLHead var m sf) :=
    ⟨hostPair_ok _, hostDiffPair_ok _ _ _, hostDiffPair_ok _ _ _⟩
  unfold toTL
  split
  · exact ⟨fun h => by simp [TLValue.empty] at h, fun h => by simp [TLValue.empty] at h, fun h => by simp [TLValue.empty] at h⟩
  · split
    · exact hd
    · exact ⟨hd.max, hd.min, hd.cnt⟩

omit [Field α] [LinearOrder α] [IsStrictOrderedRing α] in
theorem mapTag_sub (mp : Str → Int) (h t : Tag) (hh : mapTag mp h = h) : mapTag mp (sub h t) = sub h (mapTag mp t) := by
  unfold sub
  rw [isEmpty_mapTag]
  split <;> simp [hh]

/-- **C02, one MultiValue, aggregator with mappings.**  As `value_roundtrip`, with the three hosts mapped. -/
theorem value_roundtrip_mapped (mp : Str → Int) (m : MultiValue α) (sf : α) (pct : Bool) (cents : List (Centroid α))
    (h : Tag) (pick : Bool) (hh : mapTag mp h = h)
    (wf : WFv m.v) (hu : m.uq.Pairwise (· < ·)) (hsf : 1 ≤ sf) (rg : InRange m sf cents) :
    mergeTL Variant.fixed MultiValue.empty (mapTLValue mp (toTL Variant.fixed m sf pct cents)) h pick =
      ⟨mapHostsMV mp (expected m sf h pct cents), 0⟩ := by
  rw [mergeTL_map Variant.fixed mp _ h pick (toTL_hostsOk _ _ _ _ _) hh (le_refl 0),
    value_roundtrip m sf pct cents h pick wf hu hsf rg]
  rfl

omit [Field α] [LinearOrder α] [IsStrictOrderedRing α] in
/-- the hosts of the mapped expectation: the agent host for empty, else the host with its string mapped -/
theorem mapped_hosts (mp : Str → Int) (v : ItemValue α) (h : Tag) (hh : mapTag mp h = h) :
    mapTag mp (sub h v.hcnt) = sub h (mapTag mp v.hcnt) ∧ mapTag mp (sub h v.hmin) = sub h (mapTag mp v.hmin) ∧
      mapTag mp (sub h v.hmax) = sub h (mapTag mp v.hmax) :=
  ⟨mapTag_sub mp h _ hh, mapTag_sub mp h _ hh, mapTag_sub mp h _ hh⟩

omit [Field α] [LinearOrder α] [IsStrictOrderedRing α] in
/-- the aggregator recovers the MAPPED string-top key from the rewritten (stag, tag) -/
theorem topKey_spec_m (mp : Str → Int) (k : Tag) (hk : TopKeyOk k) :
    (tagOf (if 0 < mapStr mp k.s then some (mapStr mp k.s) else hostI k)
        (some (if 0 < mapStr mp k.s then [] else k.s))).isEmpty = false ∧
    (tagOf (if 0 < mapStr mp k.s then some (mapStr mp k.s) else hostI k)
        (some (if 0 < mapStr mp k.s then [] else k.s))).normalize = mapTag mp k := by
  obtain ⟨i, s⟩ := k
  obtain ⟨h1, h2⟩ := hk
  by_cases hi : i = 0
  · subst hi
    by_cases hm : 0 < mapStr mp s
    · have hne : mapStr mp s ≠ 0 := by omega
      simp [tagOf, Tag.isEmpty, Tag.normalize, mapTag, hm, hne]
    · cases s with
      | nil => simp [Tag.isEmpty] at h1
      | cons c cs => simp [tagOf, hostI, Tag.isEmpty, Tag.normalize, mapTag, hm]
  · have : s = [] := by simpa [Tag.isNorm, hi] using h2
    subst this
    simp [tagOf, hostI, Tag.isEmpty, Tag.normalize, mapTag, mapStr, hi]

/-- **every string-top key survives the transfer as the same key — no sign hypothesis.**  Take ANY tag with I ≠ 0 or
    S ≠ "" (I is a full int32: raw tag values may be negative, e.g. −1 or MinInt32).  The agent stores it normalized
    (`MapStringTop`), keepF sends (stag, tag-if-I≠0), the handler rewrites a mapped string, and MapStringTopBytes on the
    aggregator recovers a non-empty key equal to the agent's key with a mapped string replaced by its id.  An integer key
    is never touched by the mapping, whatever its sign. -/
theorem top_key_survives (mp : Str → Int) (k : Tag) (hk : k.i ≠ 0 ∨ k.s ≠ []) :
    (tagOf (mapTLTop mp (⟨k.normalize.s, hostI k.normalize, (TLValue.empty : TLValue α)⟩ : TLTop α)).tag
        (some (mapTLTop mp (⟨k.normalize.s, hostI k.normalize, (TLValue.empty : TLValue α)⟩ : TLTop α)).stag)).isEmpty = false ∧
    (tagOf (mapTLTop mp (⟨k.normalize.s, hostI k.normalize, (TLValue.empty : TLValue α)⟩ : TLTop α)).tag
        (some (mapTLTop mp (⟨k.normalize.s, hostI k.normalize, (TLValue.empty : TLValue α)⟩ : TLTop α)).stag)).normalize =
      mapTag mp k.normalize ∧
    (k.i ≠ 0 → mapTag mp k.normalize = ⟨k.i, []⟩) := by
  have hne : k.isEmpty = false := by
    obtain ⟨i, s⟩ := k
    rcases hk with h | h
    · simp [Tag.isEmpty, h]
    · cases s with
      | nil => exact absurd rfl h
      | cons c cs => simp [Tag.isEmpty]
  have hok := normalize_ok k hne
  obtain ⟨h1, h2⟩ := topKey_spec_m mp k.normalize hok
  refine ⟨h1, h2, ?_⟩
  intro hi
  obtain ⟨i, s⟩ := k
  simp only at hi
  simp [Tag.normalize, hi, mapTag]

/-- negative raw int32 top keys (−1, MinInt32) and a positive one: sent with their tag, recovered unchanged -/
example : (tagOf (hostI ⟨-1, []⟩) (some [])).normalize = ⟨-1, []⟩ ∧ (tagOf (hostI ⟨-1, []⟩) (some [])).isEmpty = false ∧
    (tagOf (hostI ⟨-2147483648, []⟩) (some [])).normalize = ⟨-2147483648, []⟩ ∧
    hostI ⟨-1, []⟩ = some (-1) ∧ hostI ⟨-2147483648, []⟩ = some (-2147483648) ∧ hostI ⟨41, []⟩ = some 41 := by decide

/-- what the seeded change `if key.I > 0 { SetTag }` would do: without the tag the aggregator sees an EMPTY key and
    MergeWithTLMultiItem folds the entry into Tail (`mergeTopElem`, first branch) -/
example : (tagOf (none : Option Int) (some [])).isEmpty = true := by decide

/-- the string-top entry an aggregator with mappings must hold -/
def expectedTopM (mp : Str → Int) (sf : α) (h : Tag) (pct : Bool) (cents : Tag → List (Centroid α))
    (kv : Tag × MultiValue α) : Tag × MultiValue α :=
  (mapTag mp kv.1, mapHostsMV mp (expected kv.2 sf h pct (cents kv.1)))

/-- Top loop of MergeWithTLMultiItem after the handler rewrote mapped strings; the MAPPED keys must stay distinct
    (a string key and the int it maps to would be merged by the aggregator, with a random max-counter host) -/
theorem mergeTops_spec_m (mp : Str → Int) (sf : α) (pct : Bool) (cents : Tag → List (Centroid α)) (h : Tag) (pick : Bool)
    (hh : mapTag mp h = h) (hsf : 1 ≤ sf) :
    ∀ (es : List (Tag × MultiValue α)) (r : Row α),
      (∀ kv ∈ es, TopOk sf cents kv) → es.Pairwise (fun a b => mapTag mp a.1 ≠ mapTag mp b.1) →
      (∀ kv ∈ es, ∀ d ∈ r.top, d.1 ≠ mapTag mp kv.1) →
      mergeTops Variant.fixed h pick r (es.map (fun kv => mapTLTop mp (tlTop sf pct cents kv))) =
        ⟨{ r with top := r.top ++ es.map (expectedTopM mp sf h pct cents) }, 0⟩
  | [], r, _, _, _ => by simp [mergeTops]
  | kv :: es, r, hok, hpw, hfresh => by
    obtain ⟨hk, hwf, hrg⟩ := hok kv (by simp)
    obtain ⟨hk1, hk2⟩ := topKey_spec_m mp kv.1 hk
    have hfr : ∀ d ∈ r.top, d.1 ≠ mapTag mp kv.1 := hfresh kv (by simp)
    have hval := value_roundtrip_mapped mp kv.2 sf pct (cents kv.1) h pick hh hwf.v hwf.uq hsf hrg
    have helem : mergeTopElem Variant.fixed r (mapTLTop mp (tlTop sf pct cents kv)) h pick =
        ⟨{ r with top := r.top ++ [expectedTopM mp sf h pct cents kv] }, 0⟩ := by
      rw [mergeTopElem_fresh Variant.fixed r (mapTLTop mp (tlTop sf pct cents kv)) h pick (mapTag mp kv.1) hk1 hk2 hfr]
      have hv' : mergeTL Variant.fixed MultiValue.empty (mapTLTop mp (tlTop sf pct cents kv)).value h pick =
          ⟨mapHostsMV mp (expected kv.2 sf h pct (cents kv.1)), 0⟩ := hval
      rw [hv']
      rfl
    obtain ⟨hpw1, hpw2⟩ := List.pairwise_cons.mp hpw
    have ih := mergeTops_spec_m mp sf pct cents h pick hh hsf es
      { r with top := r.top ++ [expectedTopM mp sf h pct cents kv] }
      (fun x hx => hok x (by simp [hx])) hpw2 (by
        intro x hx d hd
        simp only [List.mem_append, List.mem_singleton] at hd
        rcases hd with hd | hd
        · exact hfresh x (by simp [hx]) d hd
        · subst hd; exact hpw1 x hx)
    simp only [List.map_cons, mergeTops, helem, ne_eq, not_true_eq_false, if_false, ih]
    simp

/-- the key as an aggregator with mappings stores it: a mapped string tag moves into the int tag of the same index -/
def mapKey (mp : Str → Int) (k : Key) : Key :=
  { k with
    tags := List.zipWith (fun (t : Int) (s : Str) => if 0 < mapStr mp s then mapStr mp s else t) k.tags k.stags
    stags := k.stags.map (fun (s : Str) => if 0 < mapStr mp s then [] else s) }

/-- the row an aggregator with mappings must hold -/
def expectedRowM (mp : Str → Int) (r : Row α) (sf : α) (h : Tag) (pct : Bool) (cents : Tag → List (Centroid α)) : Row α :=
  { key := mapKey mp r.key
    top := r.top.map (expectedTopM mp sf h pct cents)
    tail := mapHostsMV mp (expected r.tail sf h pct (cents Tag.none)) }

/-- **C02, whole row through the real handler glue.**  `receiveM` = KeyFromStatshouseMultiItem + Skeys mapping loop +
    host / string-top mapping + MergeWithTLMultiItem, as handleSendSourceBucket composes them. -/
theorem row_roundtrip_mapped (mp : Str → Int) (r : Row α) (bucketTs : Nat) (sf : α) (pct : Bool)
    (cents : Tag → List (Centroid α)) (h : Tag) (hh : mapTag mp h = h) (hsf : 1 ≤ sf) (ok : RowOk r bucketTs sf cents)
    (hdist : r.top.Pairwise (fun a b => mapTag mp a.1 ≠ mapTag mp b.1)) :
    receiveM Variant.fixed mp (rowToTL Variant.fixed r bucketTs sf pct cents) bucketTs h =
      ⟨expectedRowM mp r sf h pct cents, 0⟩ := by
  have hk0 := key_roundtrip Variant.fixed r bucketTs sf pct cents ok.tags ok.stags ok.ts0 ok.ts1 ok.ts2
  have hkey : keyFromTLm mp (rowToTL Variant.fixed r bucketTs sf pct cents) bucketTs = mapKey mp r.key := by
    have hk := hk0.1
    have e1 : padTo maxTags (0 : Int) (rowToTL Variant.fixed r bucketTs sf pct cents).keys = r.key.tags := by
      have := congrArg Key.tags hk; simpa [keyFromTL] using this
    have e2 : padTo maxTags ([] : Str) ((rowToTL Variant.fixed r bucketTs sf pct cents).skeys.getD []) = r.key.stags := by
      have := congrArg Key.stags hk; simpa [keyFromTL] using this
    have e3 : (tsFromTL (rowToTL Variant.fixed r bucketTs sf pct cents).t bucketTs).1 = r.key.ts := by
      have := congrArg Key.ts hk; simpa [keyFromTL] using this
    have e4 : (rowToTL Variant.fixed r bucketTs sf pct cents).metric = r.key.metric := rfl
    simp only [keyFromTLm, e1, e2, e3, e4, mapKey]
  have htops : ((mapItem mp (rowToTL Variant.fixed r bucketTs sf pct cents)).top.getD []) =
      r.top.map (fun kv => mapTLTop mp (tlTop sf pct cents kv)) := by
    cases ht : r.top with
    | nil => simp [mapItem, rowToTL, ht]
    | cons a l => simp [mapItem, rowToTL, ht, tlTop]
  have hm := mergeTops_spec_m mp sf pct cents h false hh hsf r.top (Row.empty (mapKey mp r.key)) ok.top hdist
    (by simp [Row.empty])
  have htail := value_roundtrip_mapped mp r.tail sf pct (cents Tag.none) h false hh ok.tail.v ok.tail.uq hsf ok.tailRange
  have htl : (mapItem mp (rowToTL Variant.fixed r bucketTs sf pct cents)).tail =
      mapTLValue mp (toTL Variant.fixed r.tail sf pct (cents Tag.none)) := rfl
  simp only [receiveM, mergeItemTL, hkey, htops, hm, htl, ne_eq, not_true_eq_false, if_false]
  simp [Row.empty, htail, expectedRowM]

/-- **C02, headline with the real handler glue**: rows built from any event list, aggregator with any mapping table. -/
theorem built_row_roundtrip_mapped (mp : Str → Int) (k : Key) (evs : List (Tag × Event α)) (he : ∀ p ∈ evs, p.2.hostNorm)
    (bucketTs : Nat) (sf : α) (pct : Bool) (cents : Tag → List (Centroid α)) (h : Tag) (hh : mapTag mp h = h) (hsf : 1 ≤ sf)
    (hl1 : k.tags.length = maxTags) (hl2 : k.stags.length = maxTags)
    (h0 : k.ts ≠ 0) (h1 : k.ts ≤ bucketTs) (h2 : bucketTs ≤ k.ts + believeWindow)
    (rgTop : ∀ kv ∈ (evs.foldl (fun r p => rowEvent r p.1 p.2) (Row.empty k : Row α)).top, InRange kv.2 sf (cents kv.1))
    (rgTail : InRange (evs.foldl (fun r p => rowEvent r p.1 p.2) (Row.empty k : Row α)).tail sf (cents Tag.none))
    (hdist : (evs.foldl (fun r p => rowEvent r p.1 p.2) (Row.empty k : Row α)).top.Pairwise
      (fun a b => mapTag mp a.1 ≠ mapTag mp b.1)) :
    receiveM Variant.fixed mp (rowToTL Variant.fixed (evs.foldl (fun r p => rowEvent r p.1 p.2) (Row.empty k : Row α))
        bucketTs sf pct cents) bucketTs h =
      ⟨expectedRowM mp (evs.foldl (fun r p => rowEvent r p.1 p.2) (Row.empty k : Row α)) sf h pct cents, 0⟩ := by
  have wf := built_row_WF k evs he
  have hk := built_row_key k evs (Row.empty k : Row α) rfl
  apply row_roundtrip_mapped mp _ _ _ _ _ _ hh hsf _ hdist
  exact ⟨by rw [hk]; exact hl1, by rw [hk]; exact hl2, by rw [hk]; exact h0, by rw [hk]; exact h1, by rw [hk]; exact h2,
    fun kv hkv => ⟨(wf.top kv hkv).1, (wf.top kv hkv).2, rgTop kv hkv⟩, wf.distinct, wf.tail, rgTail⟩

/-- non-vacuity: a mapping table, a mapped agent host (int) and an unmapped one (string) satisfy `mapTag mp h = h`;
    a mapped string host / string-top key really changes -/
example : let mp : Str → Int := fun s => if s = ['y', 'y'] then 77 else if s = ['h'] then 7 else 0
    mapTag mp ⟨1000, []⟩ = ⟨1000, []⟩ ∧ mapTag mp ⟨0, ['a', 'g']⟩ = ⟨0, ['a', 'g']⟩ ∧
    mapTag mp ⟨0, ['y', 'y']⟩ = ⟨77, []⟩ ∧ mapTag mp ⟨0, ['h']⟩ = ⟨7, []⟩ ∧
    [(⟨0, ['y', 'y']⟩ : Tag), ⟨2, []⟩, ⟨0, ['x']⟩].Pairwise (fun a b => mapTag mp a ≠ mapTag mp b) := by decide

end mapped

/-! ### string tops at capacity: resampling and FinishStringTop keep the row well formed, so the round trip covers them -/

section capacity

omit [IsStrictOrderedRing α] in
theorem mvMerge_WF (a b : MultiValue α) (pick : Bool) (wa : WFm a) (wb : WFm b) : WFm (mvMerge a b pick) :=
  ⟨itemMerge_WFv _ _ _ wa.v wb.v, foldl_setInsert_pairwise (fun x : Nat => x) b.uq a.uq wa.uq⟩

omit [Field α] [LinearOrder α] [IsStrictOrderedRing α] in
theorem lookup_mem (k : Tag) : ∀ (top : List (Tag × MultiValue α)) (m : MultiValue α), top.lookup k = some m → (k, m) ∈ top
  | [], m, h => by simp [List.lookup] at h
  | (k', m') :: rest, m, h => by
    by_cases hk : k = k'
    · subst hk
      simp [List.lookup] at h
      subst h; simp
    · have hb : (k == k') = false := by simpa using hk
      simp only [List.lookup, hb] at h
      exact List.mem_cons_of_mem _ (lookup_mem k rest m h)

theorem foldIntoTail_WF : ∀ (ks : List (Tag × Bool)) (r : Row α), RowWF r → RowWF (foldIntoTail r ks)
  | [], r, wf => wf
  | (k, pick) :: ks, r, wf => by
    unfold foldIntoTail
    cases hl : r.top.lookup k with
    | none => exact foldIntoTail_WF ks r wf
    | some m =>
      apply foldIntoTail_WF ks
      have hm := lookup_mem k r.top m hl
      refine ⟨?_, ?_, mvMerge_WF _ _ _ wf.tail (wf.top _ hm).2⟩
      · intro kv hkv
        exact wf.top kv (List.mem_filter.mp hkv).1
      · exact List.Pairwise.sublist List.filter_sublist wf.distinct

theorem RowWF_tail (r : Row α) (e : Event α) (wf : RowWF r) (he : e.hostNorm) :
    RowWF { r with tail := applyEvent r.tail e } :=
  ⟨wf.top, wf.distinct, applyEvent_WF _ e wf.tail he⟩

theorem RowWF_top (r : Row α) (topTag : Tag) (e : Event α) (wf : RowWF r) (he : e.hostNorm) (hemp : topTag.isEmpty = false) :
    RowWF { r with top := topUpdate r.top topTag.normalize (fun m => applyEvent m e) } := by
  refine ⟨?_, topUpdate_distinct _ _ _ wf.distinct, wf.tail⟩
  intro kv hkv
  rcases topUpdate_mem _ _ _ kv hkv with h | ⟨h1, m, h2, h3⟩
  · exact wf.top kv h
  · refine ⟨by rw [h1]; exact normalize_ok topTag hemp, ?_⟩
    rw [h3]
    rcases h2 with h2 | h2
    · subst h2; exact applyEvent_WF _ e WFm_empty he
    · exact applyEvent_WF _ e (wf.top _ h2).2 he

theorem resampleLoop_WF (cap : Nat) : ∀ (rounds : List (List (Tag × Bool))) (a a' : AgentRow α),
    RowWF a.row → resampleLoop cap a rounds = some a' → RowWF a'.row
  | [], a, a', wf, h => by
    unfold resampleLoop at h
    split at h
    · simp at h; subst h; exact wf
    · simp at h
  | ev :: rest, a, a', wf, h => by
    unfold resampleLoop at h
    split at h
    · simp at h
    · cases hr : resampleRound a ev with
      | none => simp [hr] at h
      | some a2 =>
        simp only [hr] at h
        unfold resampleRound at hr
        split at hr
        · simp at hr; subst hr
          exact resampleLoop_WF cap rest _ a' (foldIntoTail_WF ev a.row wf) h
        · simp at hr

/-- every agent-side operation (event with the full MapStringTop incl. redirect and resample rounds; FinishStringTop)
    keeps the row well formed — for every outcome of the random draws and every enumeration order -/
theorem agentStep_WF (a a' : AgentRow α) (op : AgentOp α) (wf : RowWF a.row)
    (he : ∀ cap t e rd rs, op = .event cap t e rd rs → e.hostNorm) (h : agentStep a op = some a') : RowWF a'.row := by
  cases op with
  | event cap topTag e redirect rounds =>
    have hn := he cap topTag e redirect rounds rfl
    simp only [agentStep, rowEventCap] at h
    split at h
    · simp at h; subst h; exact wf
    · split at h
      · simp at h; subst h; exact RowWF_tail _ e wf hn
      · rename_i hemp
        have hemp' : topTag.isEmpty = false := by simpa using hemp
        split at h
        · simp at h; subst h; exact RowWF_top _ topTag e wf hn hemp'
        · split at h
          · split at h
            · simp at h
            · simp at h; subst h; exact RowWF_tail _ e wf hn
          · split at h
            · simp at h
            · rename_i a2 hl
              simp at h; subst h
              exact RowWF_top _ topTag e (resampleLoop_WF _ rounds a a2 wf hl) hn hemp'
  | finish cap ev =>
    simp only [agentStep, finishTop] at h
    split at h
    · simp at h; subst h; exact foldIntoTail_WF ev a.row wf
    · simp at h

def AgentOp.hostNorm : AgentOp α → Prop
  | .event _ _ e _ _ => e.hostNorm
  | .finish _ _ => True

theorem agentRun_WF : ∀ (ops : List (AgentOp α)) (a a' : AgentRow α), RowWF a.row → (∀ op ∈ ops, AgentOp.hostNorm op) →
    agentRun a ops = some a' → RowWF a'.row
  | [], a, a', wf, _, h => by simp [agentRun] at h; subst h; exact wf
  | op :: ops, a, a', wf, hn, h => by
    unfold agentRun at h
    split at h
    · simp at h
    · rename_i a2 hs
      refine agentRun_WF ops a2 a' (agentStep_WF a a2 op wf ?_ hs) (fun o ho => hn o (by simp [ho])) h
      intro cap t e rd rs heq
      have := hn op (by simp)
      rw [heq] at this
      exact this

omit [IsStrictOrderedRing α] in
theorem agentRun_key : ∀ (ops : List (AgentOp α)) (a a' : AgentRow α), agentRun a ops = some a' → a'.row.key = a.row.key := by
  intro ops
  induction ops with
  | nil => intro a a' h; simp [agentRun] at h; subst h; rfl
  | cons op ops ih =>
    intro a a' h
    unfold agentRun at h
    split at h
    · simp at h
    · rename_i a2 hs
      rw [ih a2 a' h]
      have foldKey : ∀ (ks : List (Tag × Bool)) (r : Row α), (foldIntoTail r ks).key = r.key := by
        intro ks
        induction ks with
        | nil => intro r; rfl
        | cons kp ks ihk =>
          intro r
          obtain ⟨k, pick⟩ := kp
          unfold foldIntoTail
          split
          · exact ihk r
          · rw [ihk]
      have loopKey : ∀ (rounds : List (List (Tag × Bool))) (cap : Nat) (x y : AgentRow α),
          resampleLoop cap x rounds = some y → y.row.key = x.row.key := by
        intro rounds
        induction rounds with
        | nil =>
          intro cap x y hh
          unfold resampleLoop at hh
          split at hh
          · simp at hh; subst hh; rfl
          · simp at hh
        | cons ev rest ihr =>
          intro cap x y hh
          unfold resampleLoop at hh
          split at hh
          · simp at hh
          · cases hr : resampleRound x ev with
            | none => simp [hr] at hh
            | some x2 =>
              simp only [hr] at hh
              unfold resampleRound at hr
              split at hr
              · simp at hr; subst hr
                rw [ihr cap _ y hh]; exact foldKey ev x.row
              · simp at hr
      cases op with
      | event cap topTag e redirect rounds =>
        simp only [agentStep, rowEventCap] at hs
        split at hs
        · simp at hs; subst hs; rfl
        · split at hs
          · simp at hs; subst hs; rfl
          · split at hs
            · simp at hs; subst hs; rfl
            · split at hs
              · split at hs
                · simp at hs
                · simp at hs; subst hs; rfl
              · split at hs
                · simp at hs
                · rename_i a3 hl
                  simp at hs; subst hs
                  exact loopKey rounds _ a a3 hl
      | finish cap ev =>
        simp only [agentStep, finishTop] at hs
        split at hs
        · simp at hs; subst hs; exact foldKey ev a.row
        · simp at hs

/-- **C02, headline incl. string tops at capacity.**  The row is produced by ANY sequence of agent operations — events
    routed by the full MapStringTop (redirect to Tail after a resample, resample rounds evicting any admissible entries
    in any order) and FinishStringTop — for any outcome of the random draws the code could see (`agentRun … = some a`).
    The aggregator (with any mapping table) reconstructs exactly the row as it was sent: key, the string-top keys that
    survived, and for each of them and for the tail (which now contains the folded entries) the scaled aggregates. -/
theorem agent_row_roundtrip (mp : Str → Int) (k : Key) (ops : List (AgentOp α)) (a : AgentRow α)
    (hn : ∀ op ∈ ops, AgentOp.hostNorm op) (hrun : agentRun ⟨Row.empty k, 0⟩ ops = some a)
    (bucketTs : Nat) (sf : α) (pct : Bool) (cents : Tag → List (Centroid α)) (h : Tag) (hh : mapTag mp h = h) (hsf : 1 ≤ sf)
    (hl1 : k.tags.length = maxTags) (hl2 : k.stags.length = maxTags)
    (h0 : k.ts ≠ 0) (h1 : k.ts ≤ bucketTs) (h2 : bucketTs ≤ k.ts + believeWindow)
    (rgTop : ∀ kv ∈ a.row.top, InRange kv.2 sf (cents kv.1)) (rgTail : InRange a.row.tail sf (cents Tag.none))
    (hdist : a.row.top.Pairwise (fun x y => mapTag mp x.1 ≠ mapTag mp y.1)) :
    receiveM Variant.fixed mp (rowToTL Variant.fixed a.row bucketTs sf pct cents) bucketTs h =
      ⟨expectedRowM mp a.row sf h pct cents, 0⟩ := by
  have wf := agentRun_WF ops ⟨Row.empty k, 0⟩ a ⟨by simp [Row.empty], by simp [Row.empty], WFm_empty⟩ hn hrun
  have hk : a.row.key = k := agentRun_key ops ⟨Row.empty k, 0⟩ a hrun
  apply row_roundtrip_mapped mp _ _ _ _ _ _ hh hsf _ hdist
  exact ⟨by rw [hk]; exact hl1, by rw [hk]; exact hl2, by rw [hk]; exact h0, by rw [hk]; exact h1, by rw [hk]; exact h2,
    fun kv hkv => ⟨(wf.top kv hkv).1, (wf.top kv hkv).2, rgTop kv hkv⟩, wf.distinct, wf.tail, rgTail⟩

end capacity

/-! ### the pinned tree (`Variant.repo`) violates the property: concrete, kernel-evaluated counterexamples over `Int` -/

section witnesses

/-- F1: one counter-only event and one value event 7 on the same row (count 2, min = max = 7, sum 7, sumsq 49) -/
def mixedRow : MultiValue Int :=
  applyEvent (applyEvent MultiValue.empty (.counter 1 Tag.none false)) (.values [] [7] 0 Tag.none false false)

example : mixedRow.v.counter = 2 ∧ mixedRow.v.min = 7 ∧ mixedRow.v.max = 7 ∧ mixedRow.v.sum = 7 ∧ mixedRow.v.sq = 49 := by decide

/-- pinned tree: the compact form drops the sum, the aggregator re-derives 7·2 = 14 (sumsq 98) — the row does NOT
    arrive as `expected` -/
theorem repo_loses_sum :
    (mergeTL Variant.repo MultiValue.empty (toTL Variant.repo mixedRow 1 false []) ⟨1000, []⟩ false).mv.v.sum = 14 ∧
    (mergeTL Variant.repo MultiValue.empty (toTL Variant.repo mixedRow 1 false []) ⟨1000, []⟩ false).mv.v.sq = 98 ∧
    mergeTL Variant.repo MultiValue.empty (toTL Variant.repo mixedRow 1 false []) ⟨1000, []⟩ false ≠
      ⟨expected mixedRow 1 ⟨1000, []⟩ false [], 0⟩ := by decide

/-- fixed tree on the same row (also with sf = 3): exactly the expected row -/
example : mergeTL Variant.fixed MultiValue.empty (toTL Variant.fixed mixedRow 1 false []) ⟨1000, []⟩ false =
    ⟨expected mixedRow 1 ⟨1000, []⟩ false [], 0⟩ := by decide
example : (mergeTL Variant.fixed MultiValue.empty (toTL Variant.fixed mixedRow 3 false []) ⟨1000, []⟩ false).mv.v.sum = 21 := by decide
/-- rows whose sum is consistent still use the compact form after the fix (no behaviour removed) -/
example : (toTL Variant.fixed (applyEvent (MultiValue.empty : MultiValue Int) (.values [] [7, 7] 0 Tag.none false false)) 2 false []).max = none := by decide

/-- F12: value 3 without host tag, then value 5 with host tag 9: max host 9, min host empty (= the agent itself) -/
def hostRow : MultiValue Int :=
  applyEvent (applyEvent MultiValue.empty (.values [] [3] 0 Tag.none false false)) (.values [] [5] 0 ⟨9, []⟩ false false)

example : hostRow.v.hmin = Tag.none ∧ hostRow.v.hmax = ⟨9, []⟩ ∧ hostRow.v.hcnt = Tag.none := by decide

/-- pinned tree: the minimum (and the counter) is attributed to host 9 instead of the sending agent 1000 -/
theorem repo_misattributes_min_host :
    (mergeTL Variant.repo MultiValue.empty (toTL Variant.repo hostRow 1 false []) ⟨1000, []⟩ false).mv.v.hmin = ⟨9, []⟩ ∧
    (mergeTL Variant.repo MultiValue.empty (toTL Variant.repo hostRow 1 false []) ⟨1000, []⟩ false).mv.v.hcnt = ⟨9, []⟩ ∧
    mergeTL Variant.repo MultiValue.empty (toTL Variant.repo hostRow 1 false []) ⟨1000, []⟩ false ≠
      ⟨expected hostRow 1 ⟨1000, []⟩ false [], 0⟩ := by decide

example : mergeTL Variant.fixed MultiValue.empty (toTL Variant.fixed hostRow 1 false []) ⟨1000, []⟩ false =
    ⟨expected hostRow 1 ⟨1000, []⟩ false [], 0⟩ := by decide

/-- what stays outside the theorem (hypothesis-free model behaviour, both variants): a percentile row that holds two
    distinct values but no digest (unique events) is sent with an implicit centroid, which the aggregator places at
    `min` with the whole count -/
example : (mergeTL Variant.fixed MultiValue.empty
    (toTL Variant.fixed (applyEvent (MultiValue.empty : MultiValue Int) (.unique [(1, 11), (5, 55)] 0 Tag.none false)) 1 true [])
    ⟨1000, []⟩ false).mv.dg = some [⟨1, 2⟩] := by decide

/-- the shape of seeded change C02-r6-2: a legacy-path percentile row whose values are all 0 (it HAS a digest: one
    centroid (0, 1)) plus a counter-only event (count 3).  The tree sends the explicit centroid list — the aggregator
    holds weight 1·sf; sending the implicit flag instead would restore the whole count 3·sf. -/
def legacyZeroRow : MultiValue Int :=
  applyEvent (applyEvent MultiValue.empty (.valuesLegacy [] [0] 0 Tag.none false true)) (.counter 2 Tag.none false)

example : legacyZeroRow.dg = some [⟨0, 1⟩] ∧ legacyZeroRow.v.counter = 3 ∧ compact Variant.fixed legacyZeroRow.v = true ∧
    (toTL Variant.fixed legacyZeroRow 2 true [⟨0, 1⟩]).cents = some [⟨0, 2⟩] ∧
    (toTL Variant.fixed legacyZeroRow 2 true [⟨0, 1⟩]).implicit = false ∧
    (mergeTL Variant.fixed MultiValue.empty (toTL Variant.fixed legacyZeroRow 2 true [⟨0, 1⟩]) ⟨1000, []⟩ false).mv.dg =
      some [⟨0, 2⟩] := by decide

end witnesses

/-! ### non-vacuity: the hypotheses of the theorems are satisfiable by non-trivial rows (over `Rat`) -/

section nonvacuity

/-- count 2, single value 7 seen once (the F1 shape), hosts: max host 9, the others empty (the F12 shape) -/
def exValue : MultiValue Rat :=
  ⟨⟨2, Tag.none, 7, 7, 7, 49, Tag.none, ⟨9, []⟩, true⟩, some [⟨7, 1⟩], [3, 8]⟩

example : WFv exValue.v := ⟨rfl, rfl, rfl, fun h => by simp [exValue] at h⟩
example : exValue.uq.Pairwise (· < ·) := by decide

theorem maxF32_rat_pos : (100 : Rat) ≤ ((maxF32 : Nat) : Rat) := by
  have : (100 : Nat) ≤ maxF32 := by decide
  exact_mod_cast this

example : InRange exValue (3 / 2) [⟨7, 1⟩] := by
  have h := maxF32_rat_pos
  refine ⟨?_, ⟨?_, ?_⟩, ⟨?_, ?_⟩, ⟨?_, ?_⟩, ?_⟩ <;> try (simp only [exValue]; linarith)
  intro c hc
  simp only [List.mem_singleton] at hc
  subst hc
  refine ⟨by norm_num, by simp only []; linarith, ⟨by simp only []; linarith, by simp only []; linarith⟩⟩

/-- events with normalized hosts exist, of all four kinds -/
example : ∀ e ∈ ([.counter 1 Tag.none false, .values [(2, 3)] [7] 0 ⟨9, []⟩ true true, .valuePct 1 2 ⟨0, ['h']⟩ false true,
    .unique [(5, 55)] 0 Tag.none false] : List (Event Rat)), e.hostNorm := by
  intro e he
  simp only [List.mem_cons, List.mem_nil_iff, or_false] at he
  rcases he with rfl | rfl | rfl | rfl <;> exact rfl

example : TopKeyOk ⟨5, []⟩ ∧ TopKeyOk ⟨0, ['x']⟩ := ⟨⟨rfl, rfl⟩, ⟨rfl, rfl⟩⟩

/-- non-vacuity of `sent_centroids` / `received_centroid_adds` (with `exValue`, sf = 3/2, cents = [(7,1)]) -/
example : (0 : Rat) < exValue.v.counter * (3 / 2) ∧ exValue.v.vset = true ∧ exValue.dg.isSome = true ∧
    ([⟨7, 1⟩] : List (Centroid Rat)) ≠ [] := by
  refine ⟨by norm_num [exValue], rfl, rfl, by simp⟩

/-- non-vacuity of `agent_row_roundtrip` (`agentRun … = some a` with a real resample and a real FinishStringTop; the
    model functions are generic, evaluated here over `Int`): capacity 2, three keys — the third insert resamples
    (factor 2) and evicts key 1 into Tail, FinishStringTop(1) then folds key 2; key 3 survives, Tail holds count 2 -/
example :
    (agentRun (⟨Row.empty ⟨5, 1, [], []⟩, 0⟩ : AgentRow Int)
      [.event 2 ⟨1, []⟩ (.counter 1 Tag.none false) false [],
       .event 2 ⟨2, []⟩ (.counter 1 Tag.none false) false [],
       .event 2 ⟨3, []⟩ (.counter 1 Tag.none false) false [[(⟨1, []⟩, false)]],
       .finish 1 [(⟨2, []⟩, false)]]).map
      (fun a => (a.sfLog2, a.row.top.map (·.1), a.row.tail.v.counter)) = some (1, [⟨3, []⟩], 2) := by decide

/-- an impossible draw is rejected: an entry with count 5 cannot be evicted by a round with factor 2 -/
example :
    agentRun (⟨Row.empty ⟨5, 1, [], []⟩, 0⟩ : AgentRow Int)
      [.event 1 ⟨1, []⟩ (.counter 5 Tag.none false) false [],
       .event 1 ⟨2, []⟩ (.counter 1 Tag.none false) false [[(⟨1, []⟩, false)]]] = none := by decide

end nonvacuity
end SH.C02
