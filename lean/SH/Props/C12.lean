/-
  SH.Props.C12 — Ingestion accepts only valid events and accounts for every rejected one.

  Property (properties.jsonl): "An event contributes to its metric only if its counter, values and histogram entries
  are finite, within ±MaxFloat32, counters are non-negative, values and uniques are not both present, the event is
  not empty, and its tag names and values are valid; every other event contributes nothing but one ingestion-status
  record naming the reason. For accepted events, an absent counter means one event per value (or the histogram
  weight), and a present counter scales the value aggregates so that count and average match the documented
  semantics."  Quantifier: all events against all metric descriptions.

  Model: SH.Model.Ingest (Agent.Map + Agent.ApplyMetric + shard/bucket arithmetic); status codes and limits come from
  SH.Gen.C12, regenerated from /repo on every run. The theorems:

    verdict_zero_iff               accepted  ⇔  metric found/enabled ∧ shardable ∧ all tags valid ∧ numbers valid
    rejected_effects               rejected  ⇒  ApplyMetric = one status record with the verdict as status (+ its copy for shard 2)
    rejected_record_count          …exactly one per shard, never two in the same shard
    rejected_contributes_nothing   rejected  ⇒  no row outside the two status metrics is added/changed/removed (any store)
    rejected_invisible             ∀ event sequences: the non-status rows equal those produced by the accepted events alone
    status_has_witness, validateCounter_meaning, validateValue_meaning, tag_status_first_invalid
                                   the recorded status names a defect the event really has (first invalid tag wins)
    accepted_effects               accepted  ⇒  one ok record, then warnings only, then the contribution
    counter_semantics              absent counter ⇒ Δcount = #values + Σ weights, Δsum = Σ v·w; present counter c ⇒ Δcount = c and
                                   Δsum/Δcount = Σ v·w / total (average preserved); mvApplyValues_delta, uniques_as_values
-/
import SH.Model.Ingest
import Mathlib.Tactic.Ring
import Mathlib.Tactic.FieldSimp
import Mathlib.Tactic.Linarith
import Mathlib.Algebra.Order.Field.Rat

namespace SH.Props.C12
open SH.Ingest SH.Gen.C12


/-- a float that is finite and within ±MaxFloat32 -/
def InRange (f : XR) : Prop := ∃ q, f = .fin q ∧ -maxF ≤ q ∧ q ≤ maxF
/-- a float that is finite, non-negative and at most MaxFloat32 -/
def ValidCount (f : XR) : Prop := ∃ q, f = .fin q ∧ 0 ≤ q ∧ q ≤ maxF

theorem maxF_pos : 0 < maxF := by unfold maxF maxFloat32; norm_num

theorem validateValue_eq_zero_iff (f : XR) : validateValue f = 0 ↔ InRange f := by
  cases f with
  | nan => simp [validateValue, XR.isNaN, InRange]; decide
  | ninf => simp [validateValue, XR.isNaN, XR.gtMax, XR.ltNegMax, InRange]; decide
  | pinf => simp [validateValue, XR.isNaN, XR.gtMax, InRange]; decide
  | fin q =>
    simp only [validateValue, XR.isNaN, XR.gtMax, XR.ltNegMax, InRange]
    by_cases h1 : maxF < q
    · simp [h1]; constructor
      · intro h; exact absurd h (by decide)
      · intro h; linarith
    · by_cases h2 : q < -maxF
      · simp [h1, h2]; constructor
        · intro h; exact absurd h (by decide)
        · intro h; linarith
      · simp [h1, h2]; constructor <;> linarith

theorem validateCounter_eq_zero_iff (f : XR) : validateCounter f = 0 ↔ ValidCount f := by
  cases f with
  | nan => simp [validateCounter, XR.isNaN, ValidCount]; decide
  | ninf => simp [validateCounter, XR.isNaN, XR.ltZero, ValidCount]; decide
  | pinf => simp [validateCounter, XR.isNaN, XR.ltZero, XR.gtMax, ValidCount]; decide
  | fin q =>
    simp only [validateCounter, XR.isNaN, XR.ltZero, XR.gtMax, ValidCount]
    by_cases h1 : q < 0
    · simp [h1]; constructor
      · intro h; exact absurd h (by decide)
      · intro h; linarith
    · by_cases h2 : maxF < q
      · simp [h1, h2]; constructor
        · intro h; exact absurd h (by decide)
        · intro h; linarith
      · simp [h1, h2]; constructor <;> linarith

theorem validateValues_eq_zero_iff (l : List XR) : validateValues l = 0 ↔ ∀ v ∈ l, InRange v := by
  induction l with
  | nil => simp [validateValues]
  | cons v vs ih =>
    simp only [validateValues, List.mem_cons, forall_eq_or_imp]
    by_cases h : validateValue v = 0
    · simp [h, ih, (validateValue_eq_zero_iff v).1 h]
    · simp [h]; intro h'; exact absurd ((validateValue_eq_zero_iff v).2 h') h

theorem validateHist_eq_zero_iff (l : List (XR × XR)) :
    validateHist l = 0 ↔ ∀ p ∈ l, InRange p.1 ∧ ValidCount p.2 := by
  induction l with
  | nil => simp [validateHist]
  | cons p ps ih =>
    simp only [validateHist, List.mem_cons, forall_eq_or_imp]
    by_cases h : validateValue p.1 = 0
    · by_cases h2 : validateCounter p.2 = 0
      · simp [h, h2, ih, (validateValue_eq_zero_iff _).1 h, (validateCounter_eq_zero_iff _).1 h2]
      · simp [h, h2]; intro _ h'; exact absurd ((validateCounter_eq_zero_iff _).2 h') h2
    · simp [h]; intro h'; exact absurd ((validateValue_eq_zero_iff _).2 h') h



/-- the number part of the property's validity condition -/
def NumbersValid (e : Event) : Prop :=
  bothSet e = false ∧ isEmptyEvent e = false ∧ ValidCount e.counter ∧
  (∀ v ∈ e.values, InRange v) ∧ (∀ p ∈ e.hist, InRange p.1 ∧ ValidCount p.2)

theorem validateMetricData_eq_zero_iff (e : Event) : validateMetricData e = 0 ↔ NumbersValid e := by
  unfold validateMetricData NumbersValid
  by_cases h1 : bothSet e = true
  · simp [h1]; decide
  · by_cases h2 : isEmptyEvent e = true
    · simp [h1, h2]; decide
    · by_cases h3 : validateCounter e.counter = 0
      · by_cases h4 : validateValues e.values = 0
        · have hv := (validateValues_eq_zero_iff _).1 h4
          simp [h1, h2, h3, h4, validateHist_eq_zero_iff, (validateCounter_eq_zero_iff _).1 h3]
          intro _; exact hv
        · simp [h1, h2, h3, h4]
          intro _ hv
          exact absurd ((validateValues_eq_zero_iff _).2 hv) h4
      · simp [h1, h2, h3]
        intro hc
        exact absurd ((validateCounter_eq_zero_iff _).2 hc) h3

/-- tag validity as the code checks it: the value of a tag the metric knows must be well-formed text without the
    corrupted-balancer marker; the NAME of a tag the metric does not know must be well-formed text -/
def TagValid (t : TagIn) : Prop :=
  if tagKnown t = true then t.valNorm.isSome = true ∧ t.corrupted = false else t.keyNorm.isSome = true

theorem setTag_status (h : Hdr) (i v : Int) (s : Str) (k : Int) : (h.setTag i v s k).status = h.status := by
  unfold Hdr.setTag; split <;> rfl

theorem setValue_status (mp) (h : Hdr) (t : TagIn) (i k : Int) (v : Str) : (setValue mp h t i k v).status = h.status := by
  unfold setValue
  split
  · simp [setTag_status]
  · split
    · split <;> simp [setTag_status]
    · split
      · split <;> simp [setTag_status]
      · split <;> simp [setTag_status]

/-- one loop iteration either continues with an unchanged status, or stops with a non-zero status; it continues
    exactly when the tag is valid -/
theorem mapTag_spec (mp) (h : Hdr) (t : TagIn) :
    ((mapTag mp h t).2 = true → (mapTag mp h t).1.status = h.status) ∧
    ((mapTag mp h t).2 = false → (mapTag mp h t).1.status ≠ 0) ∧
    ((mapTag mp h t).2 = true ↔ TagValid t) := by
  unfold mapTag TagValid tagKnown
  cases hm : t.metaIdx with
  | none =>
    simp only [mapTagUnknown]
    cases hk : t.keyNorm with
    | none => simp; decide
    | some k => by_cases hd : t.draft = true <;> simp [hd]
  | some idx =>
    by_cases hlt : idx < (maxTags : Int)
    · simp only [hlt, if_true, mapTagKnown, decide_true]
      cases hv : t.valNorm with
      | none => simp; decide
      | some v =>
        by_cases hc : t.corrupted = true
        · simp [hc]; decide
        · simp [hc, setValue_status]
          by_cases hl : t.legacy = true <;> simp [hl]
    · simp only [hlt, if_false, mapTagUnknown, decide_false]
      cases hk : t.keyNorm with
      | none => simp; decide
      | some k => by_cases hd : t.draft = true <;> simp [hd]

theorem mapAllTags_status (mp) (h : Hdr) (ts : List TagIn) (h0 : h.status = 0) :
    (mapAllTags mp h ts).status = 0 ↔ ∀ t ∈ ts, TagValid t := by
  induction ts generalizing h with
  | nil => simp [mapAllTags, h0]
  | cons t ts ih =>
    have sp := mapTag_spec mp h t
    simp only [mapAllTags, List.mem_cons, forall_eq_or_imp]
    by_cases hc : (mapTag mp h t).2 = true
    · simp only [hc, if_true]
      rw [ih _ (by rw [sp.1 hc]; exact h0)]
      simp [sp.2.2.1 hc]
    · simp only [hc]
      have hne := sp.2.1 (by simpa using hc)
      have : ¬ TagValid t := fun hv => hc (sp.2.2.2 hv)
      simp [hne, this]

theorem mapEnvironment_status (mp) (h : Hdr) (ts : List TagIn) : (mapEnvironment mp h ts).status = h.status := by
  induction ts with
  | nil => rfl
  | cons t ts ih =>
    unfold mapEnvironment
    split
    · split
      · rfl
      · split
        · rfl
        · split <;> rfl
    · exact ih

/-- input well-formedness guaranteed by worker.fillMetricMeta: a missing metric description always comes with a status -/
def WF (e : Event) : Prop := e.hasMeta = false → e.pre ≠ 0

/-- **Acceptance condition.** The verdict is "accepted" (0) exactly when the metric was found and enabled, it can be
    sharded, every tag is valid and the numbers are valid: counter finite, ≥ 0, ≤ MaxFloat32; every value and
    histogram value finite within ±MaxFloat32; histogram weights like counters; values and uniques not both present;
    the event not empty. -/
theorem verdict_zero_iff (cfg : Cfg) (e : Event) (wf : WF e) :
    verdict cfg e = 0 ↔
      e.pre = 0 ∧ e.hasMeta = true ∧ shardOk cfg = true ∧ (∀ t ∈ e.tags, TagValid t) ∧ NumbersValid e := by
  have hdr : e.pre = 0 → ((header cfg.mapping e).status = 0 ↔ (∀ t ∈ e.tags, TagValid t) ∧ NumbersValid e) := by
    intro hp
    simp only [header, hp, if_true, mapEvent]
    have ht := mapAllTags_status cfg.mapping {} e.tags rfl
    by_cases hs : (mapAllTags cfg.mapping {} e.tags).status = 0
    · simp [hs, ← ht, validateMetricData_eq_zero_iff]
    · simp [hs, ← ht]
  have hpre : e.pre ≠ 0 → (header cfg.mapping e).status ≠ 0 := by
    intro hp
    simp only [header, hp, if_false, mapEnvironment_status]
    exact hp
  unfold verdict
  by_cases hm : e.hasMeta = true
  · by_cases hsh : shardOk cfg = true
    · by_cases hp : e.pre = 0
      · simp [hm, hsh, hp, hdr hp]
      · simp [hm, hsh, hp, hpre hp]
    · simp [hm, hsh]; decide
  · have hm' : e.hasMeta = false := by simpa using hm
    simp [hm', hpre (wf hm'), wf hm']



/-! ### the recorded status names a defect the event really has -/

def allCounters (e : Event) : List XR := e.counter :: e.hist.map (·.2)
def allValues (e : Event) : List XR := e.values ++ e.hist.map (·.1)

theorem validateValues_witness (l : List XR) (h : validateValues l ≠ 0) :
    ∃ v ∈ l, validateValue v = validateValues l ∧ validateValue v ≠ 0 := by
  induction l with
  | nil => simp [validateValues] at h
  | cons v vs ih =>
    simp only [validateValues] at h ⊢
    by_cases hv : validateValue v = 0
    · simp only [hv, ne_eq, not_true_eq_false, if_false] at h ⊢
      obtain ⟨w, hw, he⟩ := ih h
      exact ⟨w, List.mem_cons_of_mem _ hw, he⟩
    · simp only [ne_eq, hv, not_false_eq_true, if_true]
      exact ⟨v, List.mem_cons_self, rfl, hv⟩

theorem validateHist_witness (l : List (XR × XR)) (h : validateHist l ≠ 0) :
    (∃ p ∈ l, validateValue p.1 = validateHist l) ∨ (∃ p ∈ l, validateCounter p.2 = validateHist l) := by
  induction l with
  | nil => simp [validateHist] at h
  | cons p ps ih =>
    simp only [validateHist] at h ⊢
    by_cases hv : validateValue p.1 = 0
    · by_cases hc : validateCounter p.2 = 0
      · simp only [hv, hc, ne_eq, not_true_eq_false, if_false] at h ⊢
        rcases ih h with ⟨q, hq, he⟩ | ⟨q, hq, he⟩
        · exact Or.inl ⟨q, List.mem_cons_of_mem _ hq, he⟩
        · exact Or.inr ⟨q, List.mem_cons_of_mem _ hq, he⟩
      · simp only [hv, hc, ne_eq, not_true_eq_false, not_false_eq_true, if_false, if_true]
        exact Or.inr ⟨p, List.mem_cons_self, rfl⟩
    · simp only [ne_eq, hv, not_false_eq_true, if_true]
      exact Or.inl ⟨p, List.mem_cons_self, rfl⟩

/-- **The status names the reason (numbers).** A non-zero result of ValidateMetricData is either "both set" on an event
    that has both, "zero counter" on an empty event, or the result of ValidateCounter on the counter or on a histogram
    weight, or of ValidateValue on a value or a histogram value, of this very event. -/
theorem status_has_witness (e : Event) (hs : validateMetricData e ≠ 0) :
    (validateMetricData e = stErrValueUniqueBothSet ∧ bothSet e = true) ∨
    (validateMetricData e = stErrZeroCounter ∧ isEmptyEvent e = true) ∨
    (∃ c ∈ allCounters e, validateCounter c = validateMetricData e) ∨
    (∃ v ∈ allValues e, validateValue v = validateMetricData e) := by
  unfold validateMetricData at hs ⊢
  by_cases h1 : bothSet e = true
  · simp [h1]
  · by_cases h2 : isEmptyEvent e = true
    · simp [h1, h2]
    · by_cases h3 : validateCounter e.counter = 0
      · by_cases h4 : validateValues e.values = 0
        · simp only [h1, h2, h3, h4, ne_eq, not_true_eq_false, if_false] at hs ⊢
          rcases validateHist_witness e.hist hs with ⟨p, hp, he⟩ | ⟨p, hp, he⟩
          · exact Or.inr (Or.inr (Or.inr ⟨p.1, by simp [allValues]; exact Or.inr ⟨p.2, hp⟩, he⟩))
          · exact Or.inr (Or.inr (Or.inl ⟨p.2, by simp [allCounters]; exact Or.inr ⟨p.1, hp⟩, he⟩))
        · simp only [h1, h2, h3, h4, ne_eq, not_true_eq_false, not_false_eq_true, if_false, if_true]
          obtain ⟨v, hv, he, _⟩ := validateValues_witness e.values h4
          exact Or.inr (Or.inr (Or.inr ⟨v, by simp [allValues, hv], he⟩))
      · simp only [h1, h2, h3, ne_eq, not_false_eq_true, if_true]
        exact Or.inr (Or.inr (Or.inl ⟨e.counter, by simp [allCounters], rfl⟩))

/-- what each counter status means (first failing comparison of ValidateCounter wins) -/
theorem validateCounter_meaning (c : XR) :
    (validateCounter c = stErrNanInfCounter ↔ c = .nan) ∧
    (validateCounter c = stErrNegativeCounter ↔ c.ltZero = true) ∧
    (validateCounter c = stErrTooBigCounter ↔ c.gtMax = true) ∧
    (validateCounter c = 0 ∨ validateCounter c = stErrNanInfCounter ∨ validateCounter c = stErrNegativeCounter ∨
      validateCounter c = stErrTooBigCounter) := by
  cases c with
  | nan => simp [validateCounter, XR.isNaN, XR.ltZero, XR.gtMax]; decide
  | ninf => simp [validateCounter, XR.isNaN, XR.ltZero, XR.gtMax]; decide
  | pinf => simp [validateCounter, XR.isNaN, XR.ltZero, XR.gtMax]; decide
  | fin q =>
    simp only [validateCounter, XR.isNaN, XR.ltZero, XR.gtMax]
    by_cases h1 : q < 0
    · have : ¬ maxF < q := by have := maxF_pos; intro h; linarith
      simp [h1, this]; decide
    · by_cases h2 : maxF < q <;> simp [h1, h2] <;> decide

/-- what each value status means -/
theorem validateValue_meaning (v : XR) :
    (validateValue v = stErrNanInfValue ↔ v = .nan) ∧
    (validateValue v = stErrTooBigValue ↔ (v.gtMax = true ∨ v.ltNegMax = true)) ∧
    (validateValue v = 0 ∨ validateValue v = stErrNanInfValue ∨ validateValue v = stErrTooBigValue) := by
  cases v with
  | nan => simp [validateValue, XR.isNaN, XR.gtMax, XR.ltNegMax]; decide
  | ninf => simp [validateValue, XR.isNaN, XR.gtMax, XR.ltNegMax]; decide
  | pinf => simp [validateValue, XR.isNaN, XR.gtMax, XR.ltNegMax]; decide
  | fin q =>
    simp only [validateValue, XR.isNaN, XR.gtMax, XR.ltNegMax]
    by_cases h1 : maxF < q
    · simp [h1]; decide
    · by_cases h2 : q < -maxF <;> simp [h1, h2] <;> decide

/-- the status a single invalid tag produces -/
def tagReason (t : TagIn) : Int :=
  if tagKnown t = true then (if t.valNorm.isSome = true then stErrMapTagValueCorrupted else stErrMapTagValueEncoding)
  else stErrMapTagNameEncoding

theorem mapTag_stop_status (mp) (h : Hdr) (t : TagIn) (hstop : (mapTag mp h t).2 = false) :
    (mapTag mp h t).1.status = tagReason t := by
  unfold mapTag tagReason tagKnown at *
  cases hm : t.metaIdx with
  | none =>
    simp only [hm, mapTagUnknown] at hstop ⊢
    cases hk : t.keyNorm with
    | none => simp
    | some k => simp [hk] at hstop
  | some idx =>
    by_cases hlt : idx < (maxTags : Int)
    · simp only [hm, hlt, if_true, mapTagKnown, decide_true] at hstop ⊢
      cases hv : t.valNorm with
      | none => simp
      | some v =>
        by_cases hc : t.corrupted = true
        · simp [hc]
        · simp [hv, hc] at hstop
    · simp only [hm, hlt, if_false, mapTagUnknown, decide_false] at hstop ⊢
      cases hk : t.keyNorm with
      | none => simp
      | some k => simp [hk] at hstop

/-- **The status names the reason (tags): the first invalid tag wins.** -/
theorem tag_status_first_invalid (mp) (h : Hdr) (ts : List TagIn) (h0 : h.status = 0)
    (hne : (mapAllTags mp h ts).status ≠ 0) :
    ∃ l1 t l2, ts = l1 ++ t :: l2 ∧ (∀ x ∈ l1, TagValid x) ∧ ¬ TagValid t ∧
      (mapAllTags mp h ts).status = tagReason t := by
  induction ts generalizing h with
  | nil => simp [mapAllTags, h0] at hne
  | cons t ts ih =>
    have sp := mapTag_spec mp h t
    simp only [mapAllTags] at hne ⊢
    by_cases hc : (mapTag mp h t).2 = true
    · simp only [hc, if_true] at hne ⊢
      obtain ⟨l1, u, l2, he, hv, hnv, hst⟩ := ih _ (by rw [sp.1 hc]; exact h0) hne
      refine ⟨t :: l1, u, l2, by simp [he], ?_, hnv, hst⟩
      intro x hx
      rcases List.mem_cons.1 hx with rfl | hx
      · exact sp.2.2.1 hc
      · exact hv x hx
    · have hf : (mapTag mp h t).2 = false := by simpa using hc
      simp only [hf] at hne ⊢
      refine ⟨[], t, ts, rfl, by simp, fun hv => hc (sp.2.2.2 hv), ?_⟩
      simpa using mapTag_stop_status mp h t hf



/-! ### what ApplyMetric does with a rejected / an accepted event -/

def _root_.SH.Ingest.Effect.isStatus : Effect → Bool
  | .status .. => true
  | _ => false

/-- status code (tag 2) of a status record -/
def _root_.SH.Ingest.Effect.code : Effect → Int
  | .status _ _ _ tags _ _ => tags.getD 2 0
  | _ => 0

def _root_.SH.Ingest.Effect.shard : Effect → Nat
  | .status s .. => s
  | .counter s .. => s
  | .values s .. => s
  | .unique s .. => s

/-- the one status record of a rejected event (and its copy for the metric's second shard, if it has one) -/
def rejectionRecords (cfg : Cfg) (e : Event) (env tagKey : Int) (str : Str) : List Effect :=
  if e.hasMeta = true ∧ shardOk cfg = true then statusBoth cfg env (keyMetric cfg e) (verdict cfg e) tagKey str
  else [.status 0 noShardMetricID noShardMetricRes [env, keyMetric cfg e, verdict cfg e, tagKey] str 0]

/-- **Rejected events: nothing but one ingestion-status record naming the reason.** If the verdict is not 0, everything
    ApplyMetric does is to add 1 to a single `__src_ingestion_status` row whose status tag is the verdict (the same
    record is repeated in the metric's second shard when one is configured). No ApplyValues/ApplyUnique/ApplyCounter. -/
theorem rejected_effects (cfg : Cfg) (e : Event) (hv : verdict cfg e ≠ 0) :
    ∃ env tagKey str, effects cfg e (header cfg.mapping e) = rejectionRecords cfg e env tagKey str := by
  unfold verdict at hv
  unfold effects rejectionRecords verdict
  by_cases hm : e.hasMeta = true
  · by_cases hsh : shardOk cfg = true
    · simp only [hm, hsh, Bool.not_true, Bool.false_eq_true, if_false, and_self, if_true] at hv ⊢
      simp only [ne_eq, hv, not_false_eq_true, if_true]
      exact ⟨_, _, _, rfl⟩
    · simp only [hm, hsh, Bool.not_true, Bool.false_eq_true, if_false, Bool.not_false, if_true, and_false]
      exact ⟨_, 0, "-", rfl⟩
  · have hm' : e.hasMeta = false := by simpa using hm
    simp only [hm', Bool.not_false, if_true, Bool.false_eq_true, false_and, if_false]
    exact ⟨_, _, _, rfl⟩

theorem both_length (cfg : Cfg) (f : Nat → Nat → Effect) :
    (both cfg f = [f (shard1 cfg) 0] ∧ shard2 cfg = none) ∨
    (∃ s2, shard2 cfg = some s2 ∧ s2 ≠ shard1 cfg ∧ both cfg f = [f (shard1 cfg) 0, f s2 cfg.metric.shard2Ts]) := by
  unfold both
  cases h : shard2 cfg with
  | none => exact Or.inl ⟨rfl, rfl⟩
  | some s2 =>
    refine Or.inr ⟨s2, rfl, ?_, rfl⟩
    unfold shard2 at h
    split at h
    · rename_i hc; injection h with h; rw [← h]; exact hc.2.2
    · cases h

/-- exactly one record in the metric's shard; a second one only in a *different*, configured second shard -/
theorem rejected_record_count (cfg : Cfg) (e : Event) (hv : verdict cfg e ≠ 0) :
    let effs := effects cfg e (header cfg.mapping e)
    (∀ x ∈ effs, x.isStatus = true ∧ x.code = verdict cfg e) ∧
    (effs.length = 1 ∨ (effs.length = 2 ∧ ∃ a b, effs = [a, b] ∧ a.shard ≠ b.shard ∧ shard2 cfg = some b.shard)) := by
  obtain ⟨env, tagKey, str, he⟩ := rejected_effects cfg e hv
  simp only [he, rejectionRecords]
  by_cases hc : e.hasMeta = true ∧ shardOk cfg = true
  · simp only [hc, and_self, if_true, statusBoth]
    rcases both_length cfg (fun sh drop => Effect.status sh statusMetricID statusMetricRes (stTags env (keyMetric cfg e) (verdict cfg e) tagKey) str drop)
      with ⟨hb, _⟩ | ⟨s2, hs2, hne, hb⟩
    · rw [hb]; simp [Effect.isStatus, Effect.code, stTags]
    · rw [hb]; simp [Effect.isStatus, Effect.code, stTags, Effect.shard, hs2]; exact fun h => hne h.symm
  · simp [hc, Effect.isStatus, Effect.code]

def isWarnCode (c : Int) : Bool :=
  c == stWarnMapTagNameNotFound || c == stWarnMapTagNameFoundDraft || c == stWarnMapTagSetTwice ||
  c == stWarnMapInvalidRawTagValue || c == stWarnDeprecatedKeyName

theorem statusBoth_all (cfg : Cfg) (env m c k : Int) (s : Str) :
    ∀ x ∈ statusBoth cfg env m c k s, x.isStatus = true ∧ x.code = c := by
  intro x hx
  unfold statusBoth both at hx
  split at hx <;> simp at hx <;> rcases hx with rfl | rfl <;> simp [Effect.isStatus, Effect.code, stTags]

theorem warnings_all (cfg : Cfg) (h : Hdr) (env m : Int) :
    ∀ x ∈ warnings cfg h env m, x.isStatus = true ∧ isWarnCode x.code = true := by
  intro x hx
  unfold warnings at hx
  simp only [List.mem_append] at hx
  rcases hx with (((hx | hx) | hx) | hx) | hx
  · split at hx
    · have := statusBoth_all _ _ _ _ _ _ x hx; simp [this.1, this.2, isWarnCode]
    · cases hx
  · split at hx
    · have := statusBoth_all _ _ _ _ _ _ x hx; simp [this.1, this.2, isWarnCode]
    · cases hx
  · split at hx
    · have := statusBoth_all _ _ _ _ _ _ x hx; simp [this.1, this.2, isWarnCode]
    · cases hx
  · split at hx
    · have := statusBoth_all _ _ _ _ _ _ x hx; simp [this.1, this.2, isWarnCode]
    · cases hx
  · split at hx
    · have := statusBoth_all _ _ _ _ _ _ x hx; simp [this.1, this.2, isWarnCode]
    · cases hx

theorem payload_no_status (cfg : Cfg) (e : Event) : ∀ x ∈ payload cfg e, x.isStatus = false := by
  intro x hx
  unfold payload both at hx
  split at hx
  · split at hx <;> simp at hx <;> rcases hx with rfl | rfl <;> rfl
  · split at hx
    · split at hx <;> simp at hx <;> rcases hx with rfl | rfl <;> rfl
    · split at hx <;> simp at hx <;> rcases hx with rfl | rfl <;> rfl

/-- **Accepted events**: one "ok" status record, then only warnings, then the contribution itself; no error status. -/
theorem accepted_effects (cfg : Cfg) (e : Event) (wf : WF e) (hv : verdict cfg e = 0) :
    let h := header cfg.mapping e
    let env := ktGetI h.ktags 0
    effects cfg e h =
      statusBoth cfg env cfg.metric.id stOKCached h.statusTagKey "-" ++ warnings cfg h env cfg.metric.id ++ payload cfg e ∧
    (∀ x ∈ warnings cfg h env cfg.metric.id, x.isStatus = true ∧ isWarnCode x.code = true) ∧
    (∀ x ∈ payload cfg e, x.isStatus = false) := by
  have hz := (verdict_zero_iff cfg e wf).1 hv
  obtain ⟨_, hm, hsh, _, _⟩ := hz
  have hs : (header cfg.mapping e).status = 0 := by
    unfold verdict at hv; simpa [hm, hsh] using hv
  refine ⟨?_, warnings_all _ _ _ _, payload_no_status _ _⟩
  simp [effects, hm, hsh, hs, keyMetric]

/-! ### store level: a rejected event changes no row of any metric other than the two status metrics -/

/-- rows that do not belong to `__src_ingestion_status` / `__src_ingestion_status_no_shard` -/
def keep (it : Item) : Bool := it.metric != statusMetricID && it.metric != noShardMetricID

theorem upd_metric (it : Item) (t : Int × Str) (f : MV → MV) : (it.upd t f).metric = it.metric := by
  unfold Item.upd; split <;> rfl

theorem storeUpd_filter_keep (sh : Nat) (m : Int) (ts : Nat) (kt : KeyTags) (t : Int × Str) (f : MV → MV) (st : Store)
    (hm : m = statusMetricID ∨ m = noShardMetricID) :
    (storeUpd sh m ts kt t f st).filter keep = st.filter keep := by
  have hk : ∀ it : Item, it.metric = m → keep it = false := by
    intro it h; unfold keep; rcases hm with hm | hm <;> simp [h, hm]
  induction st with
  | nil =>
    have : keep (({ shard := sh, metric := m, ts := ts, ktags := kt } : Item).upd t f) = false :=
      hk _ (upd_metric _ _ _)
    simp [storeUpd, List.filter, this]
  | cons it r ih =>
    unfold storeUpd
    by_cases hs : it.sameKey sh m ts kt = true
    · have him : it.metric = m := by
        unfold Item.sameKey at hs; simp at hs; exact hs.1.1.2
      simp [hs, List.filter, hk it him, hk _ ((upd_metric it t f).trans him)]
    · simp [hs, List.filter, ih]

theorem addStatus_filter_keep (cfg : Cfg) (st : Store) (sh : Nat) (m : Int) (res t : Nat) (tags : List Int) (str : Str) (drop : Nat)
    (hm : m = statusMetricID ∨ m = noShardMetricID) :
    (addStatus cfg st sh m res t tags str drop).filter keep = st.filter keep := by
  unfold addStatus
  simp only
  split
  · rfl
  · exact storeUpd_filter_keep _ _ _ _ _ _ _ hm

theorem foldl_status_keep (cfg : Cfg) (effs : List Effect) (s : Store × EvKey)
    (h : ∀ x ∈ effs, ∃ sh m res tags str drop, x = .status sh m res tags str drop ∧ (m = statusMetricID ∨ m = noShardMetricID)) :
    ((effs.foldl (runEffect cfg) s).1).filter keep = s.1.filter keep := by
  induction effs generalizing s with
  | nil => rfl
  | cons x xs ih =>
    obtain ⟨sh, m, res, tags, str, drop, rfl, hm⟩ := h _ List.mem_cons_self
    simp only [List.foldl_cons]
    rw [ih _ (fun y hy => h y (List.mem_cons_of_mem _ hy))]
    simp [runEffect, addStatus_filter_keep _ _ _ _ _ _ _ _ _ hm]

/-- **Rejected events contribute nothing**: whatever the state of the shard buckets, after ApplyMetric of a rejected event
    every row that is not an ingestion-status row is exactly as before (none added, none changed, none removed). -/
theorem rejected_contributes_nothing (cfg : Cfg) (st : Store) (e : Event) (hv : verdict cfg e ≠ 0) :
    (applyEvent cfg st e).filter keep = st.filter keep := by
  obtain ⟨env, tagKey, str, he⟩ := rejected_effects cfg e hv
  unfold applyEvent
  simp only [he]
  apply foldl_status_keep
  intro x hx
  unfold rejectionRecords at hx
  split at hx
  · unfold statusBoth both at hx
    split at hx <;> simp at hx <;> rcases hx with rfl | rfl <;> exact ⟨_, _, _, _, _, _, rfl, Or.inl rfl⟩
  · simp at hx; subst hx; exact ⟨_, _, _, _, _, _, rfl, Or.inr rfl⟩



/-! ### counter semantics of accepted events -/

/-- Σ value·weight -/
def wsum (vals : List (Rat × Rat)) : Rat := (vals.map (fun p => p.1 * p.2)).sum

theorem foldl_addOnly (vals : List (Rat × Rat)) (a : MV) :
    (vals.foldl (fun a p => addOnly a p.1 p.2) a).sum = a.sum + wsum vals ∧
    (vals.foldl (fun a p => addOnly a p.1 p.2) a).cnt = a.cnt ∧
    ((vals.foldl (fun a p => addOnly a p.1 p.2) a).set = (a.set || !vals.isEmpty)) := by
  induction vals generalizing a with
  | nil => simp [wsum]
  | cons p ps ih =>
    simp only [List.foldl_cons]
    obtain ⟨h1, h2, h3⟩ := ih (addOnly a p.1 p.2)
    refine ⟨?_, ?_, ?_⟩
    · rw [h1]; simp [addOnly, wsum]; ring
    · rw [h2]; simp [addOnly]
    · rw [h3]; simp [addOnly]

theorem tmpOf_spec (count : Rat) (vals : List (Rat × Rat)) :
    (tmpOf count vals).sum = wsum vals ∧ (tmpOf count vals).cnt = count ∧ (tmpOf count vals).set = !vals.isEmpty := by
  unfold tmpOf
  obtain ⟨h1, h2, h3⟩ := foldl_addOnly vals { cnt := count }
  exact ⟨by simpa using h1, by simpa using h2, by simpa using h3⟩

theorem scale_spec (count total : Rat) (t : MV) (ht : total ≠ 0) :
    (scale count total t).sum = t.sum * count / total ∧ (scale count total t).cnt = t.cnt ∧ (scale count total t).set = t.set := by
  unfold scale
  by_cases h : count = total
  · subst h; simp; field_simp
  · simp [h]

theorem addCount_cnt (c : Rat) (mv : MV) (hc : 0 < c) (hnn : 0 ≤ mv.cnt) : (addCount c mv).cnt = mv.cnt + c := by
  unfold addCount
  have h1 : ¬ c ≤ 0 := by linarith
  by_cases h2 : mv.cnt ≤ 0
  · have : mv.cnt = 0 := le_antisymm h2 hnn
    simp [h1, this]
  · simp [h1, h2]

theorem addCount_nonneg (c : Rat) (mv : MV) (h : 0 ≤ mv.cnt) : 0 ≤ (addCount c mv).cnt := by
  unfold addCount
  by_cases h1 : c ≤ 0
  · simp [h1, h]
  · by_cases h2 : mv.cnt ≤ 0
    · simp [h1, h2]; linarith
    · simp [h1, h2]; linarith

/-- **Weighting of an accepted value event** (MultiValue.ApplyValues on any row with a non-negative count): the row's
    count grows by `count` and its sum by (Σ value·weight)·count/total. -/
theorem mvApplyValues_delta (pct : Bool) (vals : List (Rat × Rat)) (count total : Rat) (mv : MV)
    (hnn : 0 ≤ mv.cnt) (hc : 0 < count) (ht : 0 < total) (hne : vals ≠ []) :
    (mvApplyValues pct vals count total mv).cnt = mv.cnt + count ∧
    (mvApplyValues pct vals count total mv).sum = mv.sum + wsum vals * count / total := by
  have ht' : total ≠ 0 := ne_of_gt ht
  obtain ⟨t1, t2, t3⟩ := tmpOf_spec count vals
  obtain ⟨s1, s2, s3⟩ := scale_spec count total (tmpOf count vals) ht'
  have hset : (scale count total (tmpOf count vals)).set = true := by
    rw [s3, t3]; cases vals with
    | nil => exact absurd rfl hne
    | cons _ _ => rfl
  have hm : (mvMerge mv (scale count total (tmpOf count vals))).cnt = mv.cnt + count ∧
      (mvMerge mv (scale count total (tmpOf count vals))).sum = mv.sum + wsum vals * count / total := by
    unfold mvMerge
    simp only [hset, Bool.not_true, Bool.false_eq_true, if_false]
    refine ⟨?_, ?_⟩
    · show (addCount _ mv).cnt = _
      rw [s2, t2]; exact addCount_cnt _ _ hc hnn
    · show (addCount _ mv).sum + _ = _
      rw [s1, t1]; unfold addCount; split <;> [skip; split] <;> rfl
  unfold mvApplyValues
  have : ¬ total ≤ 0 := by linarith
  simp only [this, if_false]
  split <;> exact hm

/-- absent counter: one event per value, or the histogram weight -/
theorem absent_counter_count (total : Rat) : effCount 0 total = total := by simp [effCount]

/-- present counter: it is the number of events -/
theorem present_counter_count (c total : Rat) (h : c ≠ 0) : effCount c total = c := by simp [effCount, h]

theorem histTotal_eq (values : List XR) (hist : List (XR × XR)) :
    histTotal values hist = (values.length : Rat) + (hist.map (fun p => p.2.toRat)).sum := by
  unfold histTotal
  generalize (values.length : Rat) = a
  induction hist generalizing a with
  | nil => simp
  | cons p ps ih => simp only [List.foldl_cons, List.map_cons, List.sum_cons]; rw [ih]; ring

/-- **Count and average match the documented semantics.** For an accepted value/histogram event applied to a row
    (any row, count ≥ 0): with an absent counter the row's count grows by #values + Σ histogram weights and its sum by
    Σ value·weight; with a present counter `c` the count grows by `c` and the *average* of the added mass,
    Δsum/Δcount, is still the weighted mean Σ value·weight / total of the supplied values. -/
theorem counter_semantics (pct : Bool) (values : List XR) (hist : List (XR × XR)) (counter : Rat) (mv : MV)
    (hnn : 0 ≤ mv.cnt) (hc : 0 ≤ counter) (ht : 0 < histTotal values hist) (hne : valuePairs values hist ≠ []) :
    let total := histTotal values hist
    let count := effCount counter total
    let r := mvApplyValues pct (valuePairs values hist) count total mv
    (counter = 0 → r.cnt - mv.cnt = total ∧ r.sum - mv.sum = wsum (valuePairs values hist)) ∧
    (counter ≠ 0 → r.cnt - mv.cnt = counter) ∧
    (r.sum - mv.sum) / (r.cnt - mv.cnt) = wsum (valuePairs values hist) / total := by
  intro total count r
  have hcount : 0 < count := by
    show 0 < effCount counter total
    unfold effCount; split
    · exact ht
    · rename_i h; exact lt_of_le_of_ne hc (Ne.symm h)
  obtain ⟨d1, d2⟩ := mvApplyValues_delta pct (valuePairs values hist) count total mv hnn hcount ht hne
  have ht' : total ≠ 0 := ne_of_gt ht
  have hc' : count ≠ 0 := ne_of_gt hcount
  refine ⟨?_, ?_, ?_⟩
  · intro h0
    have : count = total := by show effCount counter total = total; simp [effCount, h0]
    show (mvApplyValues pct _ count total mv).cnt - mv.cnt = total ∧ _
    rw [d1, d2, this]; constructor
    · ring
    · field_simp; ring
  · intro h0
    have : count = counter := by show effCount counter total = counter; simp [effCount, h0]
    show (mvApplyValues pct _ count total mv).cnt - mv.cnt = counter
    rw [d1, this]; ring
  · have e1 : (mvApplyValues pct (valuePairs values hist) count total mv).cnt - mv.cnt = count := by rw [d1]; ring
    have e2 : (mvApplyValues pct (valuePairs values hist) count total mv).sum - mv.sum =
        wsum (valuePairs values hist) * count / total := by rw [d2]; ring
    show ((mvApplyValues pct _ count total mv).sum - mv.sum) / ((mvApplyValues pct _ count total mv).cnt - mv.cnt) = _
    rw [e1, e2]
    field_simp

/-- the value effect of ApplyMetric is exactly this weighting, applied to the event's row (definitional link) -/
theorem values_effect_is_weighting (cfg : Cfg) (s : Store × EvKey) (sh drop : Nat) (hist : List (XR × XR)) (values : List XR) (c : XR)
    (hpos : 0 < effCount c.toRat (histTotal values hist)) :
    runEffect cfg s (.values sh drop hist values c) =
      shardApply cfg s.1 s.2 sh drop
        (mvApplyValues cfg.metric.pct (valuePairs values hist) (effCount c.toRat (histTotal values hist)) (histTotal values hist)) := by
  have : ¬ effCount c.toRat (histTotal values hist) ≤ 0 := by linarith
  simp [runEffect, this]

/-- uniques are weighted exactly like values (`for the purpose of this, Uniques are treated exactly as Values`) -/
theorem uniques_as_values (hashes : List Int) (count : Rat) (mv : MV) (hne : hashes ≠ []) :
    let vals := hashes.map (fun (h : Int) => ((h : Rat), (1 : Rat)))
    (mvApplyUnique hashes count mv).cnt = (mvApplyValues false vals count (hashes.length : Rat) mv).cnt ∧
    (mvApplyUnique hashes count mv).sum = (mvApplyValues false vals count (hashes.length : Rat) mv).sum := by
  intro vals
  have hl : hashes.length ≠ 0 := by cases hashes with
    | nil => exact absurd rfl hne
    | cons _ _ => simp
  have hpos : ¬ ((hashes.length : Rat) ≤ 0) := by
    have : (0 : Rat) < (hashes.length : Rat) := by exact_mod_cast Nat.pos_of_ne_zero hl
    linarith
  simp [mvApplyUnique, mvApplyValues, hl, hpos, vals]




/-! ### every event sequence: rejected events are invisible in the metric rows -/

/-- two stores with the same non-status rows -/
def SameRows (a b : Store) : Prop := a.filter keep = b.filter keep

theorem keep_of_metric (it : Item) (m : Int) (h : it.metric = m) (hm : m ≠ statusMetricID ∧ m ≠ noShardMetricID) : keep it = true := by
  unfold keep; simp [h, hm.1, hm.2]

theorem storeUpd_filter_comm (sh : Nat) (m : Int) (ts : Nat) (kt : KeyTags) (t : Int × Str) (f : MV → MV) (st : Store)
    (hm : m ≠ statusMetricID ∧ m ≠ noShardMetricID) :
    (storeUpd sh m ts kt t f st).filter keep = storeUpd sh m ts kt t f (st.filter keep) := by
  induction st with
  | nil =>
    have : keep (({ shard := sh, metric := m, ts := ts, ktags := kt } : Item).upd t f) = true :=
      keep_of_metric _ m (upd_metric _ _ _) hm
    simp [storeUpd, List.filter, this]
  | cons it r ih =>
    by_cases hs : it.sameKey sh m ts kt = true
    · have him : it.metric = m := by
        unfold Item.sameKey at hs; simp at hs; exact hs.1.1.2
      have k1 : keep it = true := keep_of_metric it m him hm
      have k2 : keep (it.upd t f) = true := keep_of_metric _ m ((upd_metric it t f).trans him) hm
      simp [storeUpd, hs, List.filter, k1, k2]
    · by_cases k : keep it = true
      · simp [storeUpd, hs, List.filter, k, ih]
      · have k' : keep it = false := by simpa using k
        simp [storeUpd, hs, List.filter, k', ih]

theorem storeUpd_same (sh : Nat) (m : Int) (ts : Nat) (kt : KeyTags) (t : Int × Str) (f : MV → MV) (a b : Store)
    (hm : m ≠ statusMetricID ∧ m ≠ noShardMetricID) (h : SameRows a b) :
    SameRows (storeUpd sh m ts kt t f a) (storeUpd sh m ts kt t f b) := by
  unfold SameRows at *
  rw [storeUpd_filter_comm _ _ _ _ _ _ _ hm, storeUpd_filter_comm _ _ _ _ _ _ _ hm, h]

theorem addStatus_same (cfg : Cfg) (a b : Store) (sh : Nat) (m : Int) (res t : Nat) (tags : List Int) (str : Str) (drop : Nat)
    (hm : m = statusMetricID ∨ m = noShardMetricID) (h : SameRows a b) :
    SameRows (addStatus cfg a sh m res t tags str drop) (addStatus cfg b sh m res t tags str drop) := by
  unfold SameRows at *
  rw [addStatus_filter_keep _ _ _ _ _ _ _ _ _ hm, addStatus_filter_keep _ _ _ _ _ _ _ _ _ hm, h]

theorem shardApply_same (cfg : Cfg) (a b : Store) (k : EvKey) (sh drop : Nat) (f : MV → MV)
    (hm : k.metric ≠ statusMetricID ∧ k.metric ≠ noShardMetricID) (h : SameRows a b) :
    SameRows (shardApply cfg a k sh drop f).1 (shardApply cfg b k sh drop f).1 ∧
    (shardApply cfg a k sh drop f).2 = (shardApply cfg b k sh drop f).2 := by
  unfold shardApply
  simp only
  split
  · exact ⟨h, rfl⟩
  · split
    · exact ⟨addStatus_same _ _ _ _ _ _ _ _ _ _ (Or.inl rfl) (storeUpd_same _ _ _ _ _ _ _ _ hm h), rfl⟩
    · exact ⟨storeUpd_same _ _ _ _ _ _ _ _ hm h, rfl⟩

theorem shardApply_metric (cfg : Cfg) (a : Store) (k : EvKey) (sh drop : Nat) (f : MV → MV) :
    (shardApply cfg a k sh drop f).2.metric = k.metric := by
  unfold shardApply; simp only; split <;> rfl

/-- status records written by ApplyMetric always belong to one of the two built-in status metrics -/
def BuiltinStatus : Effect → Prop
  | .status _ m _ _ _ _ => m = statusMetricID ∨ m = noShardMetricID
  | _ => True

theorem runEffect_same (cfg : Cfg) (a b : Store) (k : EvKey) (x : Effect) (hx : BuiltinStatus x)
    (hm : k.metric ≠ statusMetricID ∧ k.metric ≠ noShardMetricID) (h : SameRows a b) :
    SameRows (runEffect cfg (a, k) x).1 (runEffect cfg (b, k) x).1 ∧
    (runEffect cfg (a, k) x).2 = (runEffect cfg (b, k) x).2 ∧ (runEffect cfg (a, k) x).2.metric = k.metric := by
  cases x with
  | status sh m res tags str drop =>
    exact ⟨addStatus_same _ _ _ _ _ _ _ _ _ _ hx h, rfl, rfl⟩
  | counter sh drop c =>
    simp only [runEffect]
    split
    · exact ⟨h, rfl, rfl⟩
    · exact ⟨(shardApply_same _ _ _ _ _ _ _ hm h).1, (shardApply_same _ _ _ _ _ _ _ hm h).2, shardApply_metric _ _ _ _ _ _⟩
  | values sh drop hist values c =>
    simp only [runEffect]
    split
    · exact ⟨h, rfl, rfl⟩
    · exact ⟨(shardApply_same _ _ _ _ _ _ _ hm h).1, (shardApply_same _ _ _ _ _ _ _ hm h).2, shardApply_metric _ _ _ _ _ _⟩
  | unique sh drop hashes c =>
    simp only [runEffect]
    split
    · exact ⟨h, rfl, rfl⟩
    · exact ⟨(shardApply_same _ _ _ _ _ _ _ hm h).1, (shardApply_same _ _ _ _ _ _ _ hm h).2, shardApply_metric _ _ _ _ _ _⟩

theorem foldl_same (cfg : Cfg) (effs : List Effect) (a b : Store) (k : EvKey) (hx : ∀ x ∈ effs, BuiltinStatus x)
    (hm : k.metric ≠ statusMetricID ∧ k.metric ≠ noShardMetricID) (h : SameRows a b) :
    SameRows (effs.foldl (runEffect cfg) (a, k)).1 (effs.foldl (runEffect cfg) (b, k)).1 := by
  induction effs generalizing a b k with
  | nil => exact h
  | cons x xs ih =>
    simp only [List.foldl_cons]
    obtain ⟨h1, h2, h3⟩ := runEffect_same cfg a b k x (hx x List.mem_cons_self) hm h
    have e1 : runEffect cfg (a, k) x = ((runEffect cfg (a, k) x).1, (runEffect cfg (a, k) x).2) := rfl
    have e2 : runEffect cfg (b, k) x = ((runEffect cfg (b, k) x).1, (runEffect cfg (a, k) x).2) := by rw [h2]
    rw [e1, e2]
    exact ih _ _ _ (fun y hy => hx y (List.mem_cons_of_mem _ hy)) (by rw [h3]; exact hm) h1

theorem effects_builtin (cfg : Cfg) (e : Event) (h : Hdr) : ∀ x ∈ effects cfg e h, BuiltinStatus x := by
  intro x hx
  have hb : ∀ env m c k s, ∀ y ∈ statusBoth cfg env m c k s, BuiltinStatus y := by
    intro env m c k s y hy
    unfold statusBoth both at hy
    split at hy <;> simp at hy <;> rcases hy with rfl | rfl <;> exact Or.inl rfl
  unfold effects at hx
  simp only at hx
  split at hx
  · simp at hx; subst hx; exact Or.inr rfl
  · split at hx
    · simp at hx; subst hx; exact Or.inr rfl
    · split at hx
      · exact hb _ _ _ _ _ x hx
      · simp only [List.mem_append] at hx
        rcases hx with (hx | hx) | hx
        · exact hb _ _ _ _ _ x hx
        · have := (warnings_all cfg h _ _ x hx).1
          cases x <;> simp [Effect.isStatus] at this
          unfold warnings at hx
          simp only [List.mem_append] at hx
          rcases hx with (((hx | hx) | hx) | hx) | hx <;> split at hx <;> first | exact hb _ _ _ _ _ _ hx | cases hx
        · have := payload_no_status cfg e x hx
          cases x <;> simp [Effect.isStatus] at this <;> trivial

/-- the metric described by `cfg` is a user metric, not one of the two status metrics (and neither is id 0) -/
def UserMetric (cfg : Cfg) : Prop := cfg.metric.id ≠ statusMetricID ∧ cfg.metric.id ≠ noShardMetricID

theorem keyMetric_user (cfg : Cfg) (e : Event) (hu : UserMetric cfg) :
    keyMetric cfg e ≠ statusMetricID ∧ keyMetric cfg e ≠ noShardMetricID := by
  unfold keyMetric; split
  · exact hu
  · exact ⟨by decide, by decide⟩

theorem applyEvent_same (cfg : Cfg) (a b : Store) (e : Event) (hu : UserMetric cfg) (h : SameRows a b) :
    SameRows (applyEvent cfg a e) (applyEvent cfg b e) := by
  unfold applyEvent
  exact foldl_same cfg _ a b _ (effects_builtin cfg e _) (keyMetric_user cfg e hu) h

def applyAll (cfg : Cfg) (st : Store) (evs : List Event) : Store := evs.foldl (applyEvent cfg) st

theorem applyAll_same (cfg : Cfg) (evs : List Event) (a b : Store) (hu : UserMetric cfg) (h : SameRows a b) :
    SameRows (applyAll cfg a evs) (applyAll cfg b evs) := by
  induction evs generalizing a b with
  | nil => exact h
  | cons e es ih => exact ih _ _ (applyEvent_same cfg a b e hu h)

/-- **All event sequences.** Starting from any store and feeding any sequence of events (valid and invalid, in any
    order), the rows of every metric other than the two status metrics are exactly those obtained by feeding only
    the accepted events: a rejected event never changes, creates, removes or perturbs later updates of a metric row. -/
theorem rejected_invisible (cfg : Cfg) (st : Store) (evs : List Event) (hu : UserMetric cfg) :
    (applyAll cfg st evs).filter keep =
      (applyAll cfg st (evs.filter (fun e => decide (verdict cfg e = 0)))).filter keep := by
  induction evs generalizing st with
  | nil => rfl
  | cons e es ih =>
    by_cases hv : verdict cfg e = 0
    · simp only [List.filter, hv, decide_true]
      exact ih (applyEvent cfg st e)
    · simp only [List.filter, hv, decide_false]
      have h1 : SameRows (applyEvent cfg st e) st := rejected_contributes_nothing cfg st e hv
      have h2 := applyAll_same cfg es _ _ hu h1
      show (applyAll cfg (applyEvent cfg st e) es).filter keep = _
      rw [h2]; exact ih st



/-! ### non-vacuity: concrete events and states satisfying the hypotheses above -/

/-- a metric with id 7, resolution 1, fixed shard 1 of 3, second shard 3 -/
def exCfg : Cfg :=
  { nShards := 3, now := 1000, mapping := [("70726f64", 11)],
    metric := { id := 7, res := 1, pct := true, strategy := 0, shardNum := 1, fixedKey := 0, shard2Key := 3, shard2Ts := 0 } }

/-- tag "1" = "prod" (known, plain) -/
def exTag : TagIn :=
  { isEnv := false, metaIdx := some 1, rawKind := 0, legacy := false, keyNorm := some "31", keyHex := "3331", draft := false,
    corrupted := false, valNorm := some "70726f64", valHex := "3730373236663634", raw := none, raw64 := none }

/-- tag "1" with a value that is not UTF-8 -/
def exBadTag : TagIn := { exTag with valNorm := none, valHex := "6666" }

/-- values [2, 4], histogram [(6, weight 2)], counter 8 (bit patterns of float64) -/
def exEvent : Event :=
  { pre := 0, hasMeta := true, invalid := "-", ts := 0, counter := ofBits 0x4020000000000000,
    values := [ofBits 0x4000000000000000, ofBits 0x4010000000000000],
    hist := [(ofBits 0x4018000000000000, ofBits 0x4000000000000000)], uniq := [], tags := [exTag] }

example : UserMetric exCfg := by unfold UserMetric; decide
example : WF exEvent := by intro h; exact absurd h (by decide)
example : verdict exCfg exEvent = 0 := by decide +kernel
example : verdict exCfg { exEvent with values := [ofBits 0x7ff8000000000000] } = stErrNanInfValue := by decide +kernel
example : verdict exCfg { exEvent with counter := ofBits 0xbff0000000000000 } = stErrNegativeCounter := by decide +kernel
example : verdict exCfg { exEvent with tags := [exTag, exBadTag] } = stErrMapTagValueEncoding := by decide +kernel
example : verdict exCfg { exEvent with uniq := [5] } = stErrValueUniqueBothSet := by decide +kernel
example : verdict exCfg { exEvent with values := [], hist := [], counter := ofBits 0 } = stErrZeroCounter := by decide +kernel
/-- the rejected event leaves exactly one record (status 23, tag key 0) in shard 1 and its copy in shard 2 -/
example : effects exCfg { exEvent with values := [ofBits 0x7ff8000000000000] }
      (header exCfg.mapping { exEvent with values := [ofBits 0x7ff8000000000000] }) =
    [.status 1 statusMetricID statusMetricRes [0, 7, stErrNanInfValue, 0, componentAgent] "-" 0,
     .status 2 statusMetricID statusMetricRes [0, 7, stErrNanInfValue, 0, componentAgent] "-" 0] := by decide +kernel
/-- thresholds: MaxFloat32 itself is accepted, its float64 successor is not; -MaxFloat32 likewise; +Inf counter is "too big" -/
example : validateValue (ofBits 0x47efffffe0000000) = 0 := by decide +kernel
example : validateValue (ofBits 0x47efffffe0000001) = stErrTooBigValue := by decide +kernel
example : validateValue (ofBits 0xc7efffffe0000000) = 0 := by decide +kernel
example : validateValue (ofBits 0xc7efffffe0000001) = stErrTooBigValue := by decide +kernel
example : validateCounter (ofBits 0x47efffffe0000000) = 0 := by decide +kernel
example : validateCounter (ofBits 0x7ff0000000000000) = stErrTooBigCounter := by decide +kernel
example : validateCounter (ofBits 0xfff0000000000000) = stErrNegativeCounter := by decide +kernel
example : validateCounter (ofBits 0x8000000000000001) = stErrNegativeCounter := by decide +kernel
/-- counter_semantics on the example: total 4, counter 8 ⇒ count 8, sum (2+4+6·2)·8/4 = 36, average 4.5 = 18/4 -/
example : histTotal exEvent.values exEvent.hist = 4 ∧ valuePairs exEvent.values exEvent.hist ≠ [] ∧
    (mvApplyValues true (valuePairs exEvent.values exEvent.hist) 8 4 {}).cnt = 8 ∧
    (mvApplyValues true (valuePairs exEvent.values exEvent.hist) 8 4 {}).sum = 36 ∧
    wsum (valuePairs exEvent.values exEvent.hist) = 18 := by decide +kernel
/-- end to end on the empty store: the accepted event creates the row (shard 1, metric 7, tag 1 = 11) with count 8, sum 36 -/
example :
    ((applyEvent exCfg [] exEvent).filter keep).map (fun it => it.shard) = [1, 2] ∧
    ((applyEvent exCfg [] exEvent).filter keep).map (fun it => it.metric) = [7, 7] ∧
    ((applyEvent exCfg [] exEvent).filter keep).map (fun it => it.ktags) = [[(1, 11, "-")], [(1, 11, "-")]] ∧
    ((applyEvent exCfg [] exEvent).filter keep).map (fun it => it.tail.cnt) = [8, 8] ∧
    ((applyEvent exCfg [] exEvent).filter keep).map (fun it => it.tail.sum) = [36, 36] := by decide +kernel
/-- … and the rejected variant creates none -/
example : (applyEvent exCfg [] { exEvent with values := [ofBits 0x7ff8000000000000] }).filter keep = [] := by decide +kernel


end SH.Props.C12
