/-
  SH.Props.C12 — Ingestion accepts only valid events and accounts for every rejected one.

  Property (properties.jsonl): "An event contributes to its metric only if its counter, values and histogram entries
  are finite, within ±MaxFloat32, counters are non-negative, values and uniques are not both present, the event is
  not empty, and its tag names and values are valid; every other event contributes nothing but one ingestion-status
  record naming the reason. For accepted events, an absent counter means one event per value (or the histogram
  weight), and a present counter scales the value aggregates so that count and average match the documented
  semantics."  Quantifier: all events against all metric descriptions.

  Model: SH.Model.Ingest (Agent.Map + Agent.ApplyMetric + shard/bucket arithmetic); status codes and limits come from
  SH.Gen.C12, regenerated from /repo on every run. The theorems:

    verdict_zero_iff               accepted  ⇔  metric found/enabled ∧ shardable ∧ all tags valid ∧ numbers valid
    rejected_effects               rejected  ⇒  ApplyMetric = one status record with the verdict as status (+ its copy for shard 2)
    rejected_record_count          …exactly one per shard, never two in the same shard
    rejected_contributes_nothing   rejected  ⇒  no row outside the two status metrics is added/changed/removed (any store)
    rejected_invisible             ∀ event sequences: the non-status rows equal those produced by the accepted events alone
    status_has_witness, validateCounter_meaning, validateValue_meaning, tag_status_first_invalid
                                   the recorded status names a defect the event really has (first invalid tag wins)
    accepted_effects               accepted  ⇒  one ok record, then warnings only, then the contribution
    applyEvent_row, applyAll_row(_from_empty), applyAllH_row
                                   the weighting lifted through the store lookup: for every event list and every row address of a
                                   user metric, count/sum = old + Σ rowDelta (accepted events addressed to the row only)
    applyEvent_rowMV, applyAll_rowMV(H), evFn_fields, applyAll_row_min/_max/_sq/_uniq(_mem)/_td, evFn_td_values
                                   every aggregate of a row over every event list: the MultiValue is the fold of the events' row
                                   updates; (set,min)/(set,max) = running min/max over the accepted values addressed to the row,
                                   Σ squares additive, unique set = inserted hashes (duplicate-free), TDigest flag monotone
    legacy_eq_default, valuesFn_delta, evFn_congr, legacy_rows_eq_default, evFn_td_values_legacy
                                   Config.LegacyApplyValues: ApplyValuesLegacy adds the same count/sum/min/max/squares as ApplyValues
                                   for every row and argument; over every event list both modes record the same rows up to the
                                   TDigest flag; all row theorems hold in both modes (cfg.legacy)
    applyEvent_status_row, applyAll_status_row(H), clampHit_code
                                   every status row (ok, warnings, errors, clamped-future) over every event list
    rejected_status_store, rejected_primary_record, accepted_ok_record, accepted_no_error_status,
    applyAll_error_status, applyAllH_error_status
                                   status rows at store level: one record per rejected event in the right shard(s), one ok record
                                   per accepted event, error rows count exactly the rejected events over every sequence
    addr2_eq                       the second shard's copy lands in the Tail of the row without string top
    zeroWeight_counter_absent/present   histogram with all-zero weights: accepted; contributes nothing / creates an empty row
    rejected_invisible_H, effCfg_hash_shard   tags-hash sharding (hash observed) behaves as a fixed shard
    counter_semantics              absent counter ⇒ Δcount = #values + Σ weights, Δsum = Σ v·w; present counter c ⇒ Δcount = c and
                                   Δsum/Δcount = Σ v·w / total (average preserved); mvApplyValues_delta, uniques_as_values
-/
import SH.Model.Ingest
import SH.Lemmas.IngestStore
import SH.Lemmas.IngestAgg
import Mathlib.Tactic.Ring
import Mathlib.Tactic.FieldSimp
import Mathlib.Tactic.Linarith
import Mathlib.Algebra.Order.Field.Rat

namespace SH.Props.C12
open SH.Ingest SH.Gen.C12


/-- a float that is finite and within ±MaxFloat32 -/
def InRange (f : XR) : Prop := ∃ q, f = .fin q ∧ -maxF ≤ q ∧ q ≤ maxF
/-- a float that is finite, non-negative and at most MaxFloat32 -/
def ValidCount (f : XR) : Prop := ∃ q, f = .fin q ∧ 0 ≤ q ∧ q ≤ maxF

theorem maxF_pos : 0 < maxF := by unfold maxF maxFloat32; norm_num

theorem validateValue_eq_zero_iff (f : XR) : validateValue f = 0 ↔ InRange f := by
  cases f with
  | nan => simp [validateValue, XR.isNaN, InRange]; decide
  | ninf => simp [validateValue, XR.isNaN, XR.gtMax, XR.ltNegMax, InRange]; decide
  | pinf => simp [validateValue, XR.isNaN, XR.gtMax, InRange]; decide
  | fin q =>
    simp only [validateValue, XR.isNaN, XR.gtMax, XR.ltNegMax, InRange]
    by_cases h1 : maxF < q
    · simp [h1]; constructor
      · intro h; exact absurd h (by decide)
      · intro h; linarith
    · by_cases h2 : q < -maxF
      · simp [h1, h2]; constructor
        · intro h; exact absurd h (by decide)
        · intro h; linarith
      · simp [h1, h2]; constructor <;> linarith

theorem validateCounter_eq_zero_iff (f : XR) : validateCounter f = 0 ↔ ValidCount f := by
  cases f with
  | nan => simp [validateCounter, XR.isNaN, ValidCount]; decide
  | ninf => simp [validateCounter, XR.isNaN, XR.ltZero, ValidCount]; decide
  | pinf => simp [validateCounter, XR.isNaN, XR.ltZero, XR.gtMax, ValidCount]; decide
  | fin q =>
    simp only [validateCounter, XR.isNaN, XR.ltZero, XR.gtMax, ValidCount]
    by_cases h1 : q < 0
    · simp [h1]; constructor
      · intro h; exact absurd h (by decide)
      · intro h; linarith
    · by_cases h2 : maxF < q
      · simp [h1, h2]; constructor
        · intro h; exact absurd h (by decide)
        · intro h; linarith
      · simp [h1, h2]; constructor <;> linarith

theorem validateValues_eq_zero_iff (l : List XR) : validateValues l = 0 ↔ ∀ v ∈ l, InRange v := by
  induction l with
  | nil => simp [validateValues]
  | cons v vs ih =>
    simp only [validateValues, List.mem_cons, forall_eq_or_imp]
    by_cases h : validateValue v = 0
    · simp [h, ih, (validateValue_eq_zero_iff v).1 h]
    · simp [h]; intro h'; exact absurd ((validateValue_eq_zero_iff v).2 h') h

theorem validateHist_eq_zero_iff (l : List (XR × XR)) :
    validateHist l = 0 ↔ ∀ p ∈ l, InRange p.1 ∧ ValidCount p.2 := by
  induction l with
  | nil => simp [validateHist]
  | cons p ps ih =>
    simp only [validateHist, List.mem_cons, forall_eq_or_imp]
    by_cases h : validateValue p.1 = 0
    · by_cases h2 : validateCounter p.2 = 0
      · simp [h, h2, ih, (validateValue_eq_zero_iff _).1 h, (validateCounter_eq_zero_iff _).1 h2]
      · simp [h, h2]; intro _ h'; exact absurd ((validateCounter_eq_zero_iff _).2 h') h2
    · simp [h]; intro h'; exact absurd ((validateValue_eq_zero_iff _).2 h') h



/-- the number part of the property's validity condition -/
def NumbersValid (e : Event) : Prop :=
  bothSet e = false ∧ isEmptyEvent e = false ∧ ValidCount e.counter ∧
  (∀ v ∈ e.values, InRange v) ∧ (∀ p ∈ e.hist, InRange p.1 ∧ ValidCount p.2)

theorem validateMetricData_eq_zero_iff (e : Event) : validateMetricData e = 0 ↔ NumbersValid e := by
  unfold validateMetricData NumbersValid
  by_cases h1 : bothSet e = true
  · simp [h1]; decide
  · by_cases h2 : isEmptyEvent e = true
    · simp [h1, h2]; decide
    · by_cases h3 : validateCounter e.counter = 0
      · by_cases h4 : validateValues e.values = 0
        · have hv := (validateValues_eq_zero_iff _).1 h4
          simp [h1, h2, h3, h4, validateHist_eq_zero_iff, (validateCounter_eq_zero_iff _).1 h3]
          intro _; exact hv
        · simp [h1, h2, h3, h4]
          intro _ hv
          exact absurd ((validateValues_eq_zero_iff _).2 hv) h4
      · simp [h1, h2, h3]
        intro hc
        exact absurd ((validateCounter_eq_zero_iff _).2 hc) h3

/-- tag validity as the code checks it: the value of a tag the metric knows must be well-formed text without the
    corrupted-balancer marker; the NAME of a tag the metric does not know must be well-formed text -/
def TagValid (t : TagIn) : Prop :=
  if tagKnown t = true then t.valNorm.isSome = true ∧ t.corrupted = false else t.keyNorm.isSome = true

theorem setTag_status (h : Hdr) (i v : Int) (s : Str) (k : Int) : (h.setTag i v s k).status = h.status := by
  unfold Hdr.setTag; split <;> rfl

theorem setValue_status (mp) (h : Hdr) (t : TagIn) (i k : Int) (v : Str) : (setValue mp h t i k v).status = h.status := by
  unfold setValue
  split
  · simp [setTag_status]
  · split
    · split <;> simp [setTag_status]
    · split
      · split <;> simp [setTag_status]
      · split <;> simp [setTag_status]

/-- one loop iteration either continues with an unchanged status, or stops with a non-zero status; it continues
    exactly when the tag is valid -/
theorem mapTag_spec (mp) (h : Hdr) (t : TagIn) :
    ((mapTag mp h t).2 = true → (mapTag mp h t).1.status = h.status) ∧
    ((mapTag mp h t).2 = false → (mapTag mp h t).1.status ≠ 0) ∧
    ((mapTag mp h t).2 = true ↔ TagValid t) := by
  unfold mapTag TagValid tagKnown
  cases hm : t.metaIdx with
  | none =>
    simp only [mapTagUnknown]
    cases hk : t.keyNorm with
    | none => simp; decide
    | some k => by_cases hd : t.draft = true <;> simp [hd]
  | some idx =>
    by_cases hlt : idx < (maxTags : Int)
    · simp only [hlt, if_true, mapTagKnown, decide_true]
      cases hv : t.valNorm with
      | none => simp; decide
      | some v =>
        by_cases hc : t.corrupted = true
        · simp [hc]; decide
        · simp [hc, setValue_status]
          by_cases hl : t.legacy = true <;> simp [hl]
    · simp only [hlt, if_false, mapTagUnknown, decide_false]
      cases hk : t.keyNorm with
      | none => simp; decide
      | some k => by_cases hd : t.draft = true <;> simp [hd]

theorem mapAllTags_status (mp) (h : Hdr) (ts : List TagIn) (h0 : h.status = 0) :
    (mapAllTags mp h ts).status = 0 ↔ ∀ t ∈ ts, TagValid t := by
  induction ts generalizing h with
  | nil => simp [mapAllTags, h0]
  | cons t ts ih =>
    have sp := mapTag_spec mp h t
    simp only [mapAllTags, List.mem_cons, forall_eq_or_imp]
    by_cases hc : (mapTag mp h t).2 = true
    · simp only [hc, if_true]
      rw [ih _ (by rw [sp.1 hc]; exact h0)]
      simp [sp.2.2.1 hc]
    · simp only [hc]
      have hne := sp.2.1 (by simpa using hc)
      have : ¬ TagValid t := fun hv => hc (sp.2.2.2 hv)
      simp [hne, this]

theorem mapEnvironment_status (mp) (h : Hdr) (ts : List TagIn) : (mapEnvironment mp h ts).status = h.status := by
  induction ts with
  | nil => rfl
  | cons t ts ih =>
    unfold mapEnvironment
    split
    · split
      · rfl
      · split
        · rfl
        · split <;> rfl
    · exact ih

/-- input well-formedness guaranteed by worker.fillMetricMeta: a missing metric description always comes with a status -/
def WF (e : Event) : Prop := e.hasMeta = false → e.pre ≠ 0

/-- **Acceptance condition.** The verdict is "accepted" (0) exactly when the metric was found and enabled, it can be
    sharded, every tag is valid and the numbers are valid: counter finite, ≥ 0, ≤ MaxFloat32; every value and
    histogram value finite within ±MaxFloat32; histogram weights like counters; values and uniques not both present;
    the event not empty. -/
theorem verdict_zero_iff (cfg : Cfg) (e : Event) (wf : WF e) :
    verdict cfg e = 0 ↔
      e.pre = 0 ∧ e.hasMeta = true ∧ shardOk cfg = true ∧ (∀ t ∈ e.tags, TagValid t) ∧ NumbersValid e := by
  have hdr : e.pre = 0 → ((header cfg.mapping e).status = 0 ↔ (∀ t ∈ e.tags, TagValid t) ∧ NumbersValid e) := by
    intro hp
    simp only [header, hp, if_true, mapEvent]
    have ht := mapAllTags_status cfg.mapping {} e.tags rfl
    by_cases hs : (mapAllTags cfg.mapping {} e.tags).status = 0
    · simp [hs, ← ht, validateMetricData_eq_zero_iff]
    · simp [hs, ← ht]
  have hpre : e.pre ≠ 0 → (header cfg.mapping e).status ≠ 0 := by
    intro hp
    simp only [header, hp, if_false, mapEnvironment_status]
    exact hp
  unfold verdict
  by_cases hm : e.hasMeta = true
  · by_cases hsh : shardOk cfg = true
    · by_cases hp : e.pre = 0
      · simp [hm, hsh, hp, hdr hp]
      · simp [hm, hsh, hp, hpre hp]
    · simp [hm, hsh]; decide
  · have hm' : e.hasMeta = false := by simpa using hm
    simp [hm', hpre (wf hm'), wf hm']



/-! ### the recorded status names a defect the event really has -/

def allCounters (e : Event) : List XR := e.counter :: e.hist.map (·.2)
def allValues (e : Event) : List XR := e.values ++ e.hist.map (·.1)

theorem validateValues_witness (l : List XR) (h : validateValues l ≠ 0) :
    ∃ v ∈ l, validateValue v = validateValues l ∧ validateValue v ≠ 0 := by
  induction l with
  | nil => simp [validateValues] at h
  | cons v vs ih =>
    simp only [validateValues] at h ⊢
    by_cases hv : validateValue v = 0
    · simp only [hv, ne_eq, not_true_eq_false, if_false] at h ⊢
      obtain ⟨w, hw, he⟩ := ih h
      exact ⟨w, List.mem_cons_of_mem _ hw, he⟩
    · simp only [ne_eq, hv, not_false_eq_true, if_true]
      exact ⟨v, List.mem_cons_self, rfl, hv⟩

theorem validateHist_witness (l : List (XR × XR)) (h : validateHist l ≠ 0) :
    (∃ p ∈ l, validateValue p.1 = validateHist l) ∨ (∃ p ∈ l, validateCounter p.2 = validateHist l) := by
  induction l with
  | nil => simp [validateHist] at h
  | cons p ps ih =>
    simp only [validateHist] at h ⊢
    by_cases hv : validateValue p.1 = 0
    · by_cases hc : validateCounter p.2 = 0
      · simp only [hv, hc, ne_eq, not_true_eq_false, if_false] at h ⊢
        rcases ih h with ⟨q, hq, he⟩ | ⟨q, hq, he⟩
        · exact Or.inl ⟨q, List.mem_cons_of_mem _ hq, he⟩
        · exact Or.inr ⟨q, List.mem_cons_of_mem _ hq, he⟩
      · simp only [hv, hc, ne_eq, not_true_eq_false, not_false_eq_true, if_false, if_true]
        exact Or.inr ⟨p, List.mem_cons_self, rfl⟩
    · simp only [ne_eq, hv, not_false_eq_true, if_true]
      exact Or.inl ⟨p, List.mem_cons_self, rfl⟩

/-- **The status names the reason (numbers).** A non-zero result of ValidateMetricData is either "both set" on an event
    that has both, "zero counter" on an empty event, or the result of ValidateCounter on the counter or on a histogram
    weight, or of ValidateValue on a value or a histogram value, of this very event. -/
theorem status_has_witness (e : Event) (hs : validateMetricData e ≠ 0) :
    (validateMetricData e = stErrValueUniqueBothSet ∧ bothSet e = true) ∨
    (validateMetricData e = stErrZeroCounter ∧ isEmptyEvent e = true) ∨
    (∃ c ∈ allCounters e, validateCounter c = validateMetricData e) ∨
    (∃ v ∈ allValues e, validateValue v = validateMetricData e) := by
  unfold validateMetricData at hs ⊢
  by_cases h1 : bothSet e = true
  · simp [h1]
  · by_cases h2 : isEmptyEvent e = true
    · simp [h1, h2]
    · by_cases h3 : validateCounter e.counter = 0
      · by_cases h4 : validateValues e.values = 0
        · simp only [h1, h2, h3, h4, ne_eq, not_true_eq_false, if_false] at hs ⊢
          rcases validateHist_witness e.hist hs with ⟨p, hp, he⟩ | ⟨p, hp, he⟩
          · exact Or.inr (Or.inr (Or.inr ⟨p.1, by simp [allValues]; exact Or.inr ⟨p.2, hp⟩, he⟩))
          · exact Or.inr (Or.inr (Or.inl ⟨p.2, by simp [allCounters]; exact Or.inr ⟨p.1, hp⟩, he⟩))
        · simp only [h1, h2, h3, h4, ne_eq, not_true_eq_false, not_false_eq_true, if_false, if_true]
          obtain ⟨v, hv, he, _⟩ := validateValues_witness e.values h4
          exact Or.inr (Or.inr (Or.inr ⟨v, by simp [allValues, hv], he⟩))
      · simp only [h1, h2, h3, ne_eq, not_false_eq_true, if_true]
        exact Or.inr (Or.inr (Or.inl ⟨e.counter, by simp [allCounters], rfl⟩))

/-- what each counter status means (first failing comparison of ValidateCounter wins) -/
theorem validateCounter_meaning (c : XR) :
    (validateCounter c = stErrNanInfCounter ↔ c = .nan) ∧
    (validateCounter c = stErrNegativeCounter ↔ c.ltZero = true) ∧
    (validateCounter c = stErrTooBigCounter ↔ c.gtMax = true) ∧
    (validateCounter c = 0 ∨ validateCounter c = stErrNanInfCounter ∨ validateCounter c = stErrNegativeCounter ∨
      validateCounter c = stErrTooBigCounter) := by
  cases c with
  | nan => simp [validateCounter, XR.isNaN, XR.ltZero, XR.gtMax]; decide
  | ninf => simp [validateCounter, XR.isNaN, XR.ltZero, XR.gtMax]; decide
  | pinf => simp [validateCounter, XR.isNaN, XR.ltZero, XR.gtMax]; decide
  | fin q =>
    simp only [validateCounter, XR.isNaN, XR.ltZero, XR.gtMax]
    by_cases h1 : q < 0
    · have : ¬ maxF < q := by have := maxF_pos; intro h; linarith
      simp [h1, this]; decide
    · by_cases h2 : maxF < q <;> simp [h1, h2] <;> decide

/-- what each value status means -/
theorem validateValue_meaning (v : XR) :
    (validateValue v = stErrNanInfValue ↔ v = .nan) ∧
    (validateValue v = stErrTooBigValue ↔ (v.gtMax = true ∨ v.ltNegMax = true)) ∧
    (validateValue v = 0 ∨ validateValue v = stErrNanInfValue ∨ validateValue v = stErrTooBigValue) := by
  cases v with
  | nan => simp [validateValue, XR.isNaN, XR.gtMax, XR.ltNegMax]; decide
  | ninf => simp [validateValue, XR.isNaN, XR.gtMax, XR.ltNegMax]; decide
  | pinf => simp [validateValue, XR.isNaN, XR.gtMax, XR.ltNegMax]; decide
  | fin q =>
    simp only [validateValue, XR.isNaN, XR.gtMax, XR.ltNegMax]
    by_cases h1 : maxF < q
    · simp [h1]; decide
    · by_cases h2 : q < -maxF <;> simp [h1, h2] <;> decide

/-- the status a single invalid tag produces -/
def tagReason (t : TagIn) : Int :=
  if tagKnown t = true then (if t.valNorm.isSome = true then stErrMapTagValueCorrupted else stErrMapTagValueEncoding)
  else stErrMapTagNameEncoding

theorem mapTag_stop_status (mp) (h : Hdr) (t : TagIn) (hstop : (mapTag mp h t).2 = false) :
    (mapTag mp h t).1.status = tagReason t := by
  unfold mapTag tagReason tagKnown at *
  cases hm : t.metaIdx with
  | none =>
    simp only [hm, mapTagUnknown] at hstop ⊢
    cases hk : t.keyNorm with
    | none => simp
    | some k => simp [hk] at hstop
  | some idx =>
    by_cases hlt : idx < (maxTags : Int)
    · simp only [hm, hlt, if_true, mapTagKnown, decide_true] at hstop ⊢
      cases hv : t.valNorm with
      | none => simp
      | some v =>
        by_cases hc : t.corrupted = true
        · simp [hc]
        · simp [hv, hc] at hstop
    · simp only [hm, hlt, if_false, mapTagUnknown, decide_false] at hstop ⊢
      cases hk : t.keyNorm with
      | none => simp
      | some k => simp [hk] at hstop

/-- **The status names the reason (tags): the first invalid tag wins.** -/
theorem tag_status_first_invalid (mp) (h : Hdr) (ts : List TagIn) (h0 : h.status = 0)
    (hne : (mapAllTags mp h ts).status ≠ 0) :
    ∃ l1 t l2, ts = l1 ++ t :: l2 ∧ (∀ x ∈ l1, TagValid x) ∧ ¬ TagValid t ∧
      (mapAllTags mp h ts).status = tagReason t := by
  induction ts generalizing h with
  | nil => simp [mapAllTags, h0] at hne
  | cons t ts ih =>
    have sp := mapTag_spec mp h t
    simp only [mapAllTags] at hne ⊢
    by_cases hc : (mapTag mp h t).2 = true
    · simp only [hc, if_true] at hne ⊢
      obtain ⟨l1, u, l2, he, hv, hnv, hst⟩ := ih _ (by rw [sp.1 hc]; exact h0) hne
      refine ⟨t :: l1, u, l2, by simp [he], ?_, hnv, hst⟩
      intro x hx
      rcases List.mem_cons.1 hx with rfl | hx
      · exact sp.2.2.1 hc
      · exact hv x hx
    · have hf : (mapTag mp h t).2 = false := by simpa using hc
      simp only [hf] at hne ⊢
      refine ⟨[], t, ts, rfl, by simp, fun hv => hc (sp.2.2.2 hv), ?_⟩
      simpa using mapTag_stop_status mp h t hf



/-! ### what ApplyMetric does with a rejected / an accepted event -/

def _root_.SH.Ingest.Effect.isStatus : Effect → Bool
  | .status .. => true
  | _ => false

/-- status code (tag 2) of a status record -/
def _root_.SH.Ingest.Effect.code : Effect → Int
  | .status _ _ _ tags _ _ => tags.getD 2 0
  | _ => 0

def _root_.SH.Ingest.Effect.shard : Effect → Nat
  | .status s .. => s
  | .counter s .. => s
  | .values s .. => s
  | .unique s .. => s

/-- the one status record of a rejected event (and its copy for the metric's second shard, if it has one) -/
def rejectionRecords (cfg : Cfg) (e : Event) (env tagKey : Int) (str : Str) : List Effect :=
  if e.hasMeta = true ∧ shardOk cfg = true then statusBoth cfg env (keyMetric cfg e) (verdict cfg e) tagKey str
  else [.status 0 noShardMetricID noShardMetricRes [env, keyMetric cfg e, verdict cfg e, tagKey] str 0]

/-- **Rejected events: nothing but one ingestion-status record naming the reason.** If the verdict is not 0, everything
    ApplyMetric does is to add 1 to a single `__src_ingestion_status` row whose status tag is the verdict (the same
    record is repeated in the metric's second shard when one is configured). No ApplyValues/ApplyUnique/ApplyCounter. -/
theorem rejected_effects (cfg : Cfg) (e : Event) (hv : verdict cfg e ≠ 0) :
    ∃ env tagKey str, effects cfg e (header cfg.mapping e) = rejectionRecords cfg e env tagKey str := by
  unfold verdict at hv
  unfold effects rejectionRecords verdict
  by_cases hm : e.hasMeta = true
  · by_cases hsh : shardOk cfg = true
    · simp only [hm, hsh, Bool.not_true, Bool.false_eq_true, if_false, and_self, if_true] at hv ⊢
      simp only [ne_eq, hv, not_false_eq_true, if_true]
      exact ⟨_, _, _, rfl⟩
    · simp only [hm, hsh, Bool.not_true, Bool.false_eq_true, if_false, Bool.not_false, if_true, and_false]
      exact ⟨_, 0, "-", rfl⟩
  · have hm' : e.hasMeta = false := by simpa using hm
    simp only [hm', Bool.not_false, if_true, Bool.false_eq_true, false_and, if_false]
    exact ⟨_, _, _, rfl⟩

theorem both_length (cfg : Cfg) (f : Nat → Nat → Effect) :
    (both cfg f = [f (shard1 cfg) 0] ∧ shard2 cfg = none) ∨
    (∃ s2, shard2 cfg = some s2 ∧ s2 ≠ shard1 cfg ∧ both cfg f = [f (shard1 cfg) 0, f s2 cfg.metric.shard2Ts]) := by
  unfold both
  cases h : shard2 cfg with
  | none => exact Or.inl ⟨rfl, rfl⟩
  | some s2 =>
    refine Or.inr ⟨s2, rfl, ?_, rfl⟩
    unfold shard2 at h
    split at h
    · rename_i hc; injection h with h; rw [← h]; exact hc.2.2
    · cases h

/-- exactly one record in the metric's shard; a second one only in a *different*, configured second shard -/
theorem rejected_record_count (cfg : Cfg) (e : Event) (hv : verdict cfg e ≠ 0) :
    let effs := effects cfg e (header cfg.mapping e)
    (∀ x ∈ effs, x.isStatus = true ∧ x.code = verdict cfg e) ∧
    (effs.length = 1 ∨ (effs.length = 2 ∧ ∃ a b, effs = [a, b] ∧ a.shard ≠ b.shard ∧ shard2 cfg = some b.shard)) := by
  obtain ⟨env, tagKey, str, he⟩ := rejected_effects cfg e hv
  simp only [he, rejectionRecords]
  by_cases hc : e.hasMeta = true ∧ shardOk cfg = true
  · simp only [hc, and_self, if_true, statusBoth]
    rcases both_length cfg (fun sh drop => Effect.status sh statusMetricID statusMetricRes (stTags env (keyMetric cfg e) (verdict cfg e) tagKey) str drop)
      with ⟨hb, _⟩ | ⟨s2, hs2, hne, hb⟩
    · rw [hb]; simp [Effect.isStatus, Effect.code, stTags]
    · rw [hb]; simp [Effect.isStatus, Effect.code, stTags, Effect.shard, hs2]; exact fun h => hne h.symm
  · simp [hc, Effect.isStatus, Effect.code]

def isWarnCode (c : Int) : Bool :=
  c == stWarnMapTagNameNotFound || c == stWarnMapTagNameFoundDraft || c == stWarnMapTagSetTwice ||
  c == stWarnMapInvalidRawTagValue || c == stWarnDeprecatedKeyName

theorem statusBoth_all (cfg : Cfg) (env m c k : Int) (s : Str) :
    ∀ x ∈ statusBoth cfg env m c k s, x.isStatus = true ∧ x.code = c := by
  intro x hx
  unfold statusBoth both at hx
  split at hx <;> simp at hx <;> rcases hx with rfl | rfl <;> simp [Effect.isStatus, Effect.code, stTags]

theorem warnings_all (cfg : Cfg) (h : Hdr) (env m : Int) :
    ∀ x ∈ warnings cfg h env m, x.isStatus = true ∧ isWarnCode x.code = true := by
  intro x hx
  unfold warnings at hx
  simp only [List.mem_append] at hx
  rcases hx with (((hx | hx) | hx) | hx) | hx
  · split at hx
    · have := statusBoth_all _ _ _ _ _ _ x hx; simp [this.1, this.2, isWarnCode]
    · cases hx
  · split at hx
    · have := statusBoth_all _ _ _ _ _ _ x hx; simp [this.1, this.2, isWarnCode]
    · cases hx
  · split at hx
    · have := statusBoth_all _ _ _ _ _ _ x hx; simp [this.1, this.2, isWarnCode]
    · cases hx
  · split at hx
    · have := statusBoth_all _ _ _ _ _ _ x hx; simp [this.1, this.2, isWarnCode]
    · cases hx
  · split at hx
    · have := statusBoth_all _ _ _ _ _ _ x hx; simp [this.1, this.2, isWarnCode]
    · cases hx

theorem payload_no_status (cfg : Cfg) (e : Event) : ∀ x ∈ payload cfg e, x.isStatus = false := by
  intro x hx
  unfold payload both at hx
  split at hx
  · split at hx <;> simp at hx <;> rcases hx with rfl | rfl <;> rfl
  · split at hx
    · split at hx <;> simp at hx <;> rcases hx with rfl | rfl <;> rfl
    · split at hx <;> simp at hx <;> rcases hx with rfl | rfl <;> rfl

/-- **Accepted events**: one "ok" status record, then only warnings, then the contribution itself; no error status. -/
theorem accepted_effects (cfg : Cfg) (e : Event) (wf : WF e) (hv : verdict cfg e = 0) :
    let h := header cfg.mapping e
    let env := ktGetI h.ktags 0
    effects cfg e h =
      statusBoth cfg env cfg.metric.id stOKCached h.statusTagKey "-" ++ warnings cfg h env cfg.metric.id ++ payload cfg e ∧
    (∀ x ∈ warnings cfg h env cfg.metric.id, x.isStatus = true ∧ isWarnCode x.code = true) ∧
    (∀ x ∈ payload cfg e, x.isStatus = false) := by
  have hz := (verdict_zero_iff cfg e wf).1 hv
  obtain ⟨_, hm, hsh, _, _⟩ := hz
  have hs : (header cfg.mapping e).status = 0 := by
    unfold verdict at hv; simpa [hm, hsh] using hv
  refine ⟨?_, warnings_all _ _ _ _, payload_no_status _ _⟩
  simp [effects, hm, hsh, hs, keyMetric]

/-! ### store level: a rejected event changes no row of any metric other than the two status metrics -/

/-- rows that do not belong to `__src_ingestion_status` / `__src_ingestion_status_no_shard` -/
def keep (it : Item) : Bool := it.metric != statusMetricID && it.metric != noShardMetricID

theorem upd_metric (it : Item) (t : Int × Str) (f : MV → MV) : (it.upd t f).metric = it.metric := by
  unfold Item.upd; split <;> rfl

theorem storeUpd_filter_keep (sh : Nat) (m : Int) (ts : Nat) (kt : KeyTags) (t : Int × Str) (f : MV → MV) (st : Store)
    (hm : m = statusMetricID ∨ m = noShardMetricID) :
    (storeUpd sh m ts kt t f st).filter keep = st.filter keep := by
  have hk : ∀ it : Item, it.metric = m → keep it = false := by
    intro it h; unfold keep; rcases hm with hm | hm <;> simp [h, hm]
  induction st with
  | nil =>
    have : keep (({ shard := sh, metric := m, ts := ts, ktags := kt } : Item).upd t f) = false :=
      hk _ (upd_metric _ _ _)
    simp [storeUpd, List.filter, this]
  | cons it r ih =>
    unfold storeUpd
    by_cases hs : it.sameKey sh m ts kt = true
    · have him : it.metric = m := by
        unfold Item.sameKey at hs; simp at hs; exact hs.1.1.2
      simp [hs, List.filter, hk it him, hk _ ((upd_metric it t f).trans him)]
    · simp [hs, List.filter, ih]

theorem addStatus_filter_keep (cfg : Cfg) (st : Store) (sh : Nat) (m : Int) (res t : Nat) (tags : List Int) (str : Str) (drop : Nat)
    (hm : m = statusMetricID ∨ m = noShardMetricID) :
    (addStatus cfg st sh m res t tags str drop).filter keep = st.filter keep := by
  unfold addStatus
  simp only
  split
  · rfl
  · exact storeUpd_filter_keep _ _ _ _ _ _ _ hm

theorem foldl_status_keep (cfg : Cfg) (effs : List Effect) (s : Store × EvKey)
    (h : ∀ x ∈ effs, ∃ sh m res tags str drop, x = .status sh m res tags str drop ∧ (m = statusMetricID ∨ m = noShardMetricID)) :
    ((effs.foldl (runEffect cfg) s).1).filter keep = s.1.filter keep := by
  induction effs generalizing s with
  | nil => rfl
  | cons x xs ih =>
    obtain ⟨sh, m, res, tags, str, drop, rfl, hm⟩ := h _ List.mem_cons_self
    simp only [List.foldl_cons]
    rw [ih _ (fun y hy => h y (List.mem_cons_of_mem _ hy))]
    simp [runEffect, addStatus_filter_keep _ _ _ _ _ _ _ _ _ hm]

/-- **Rejected events contribute nothing**: whatever the state of the shard buckets, after ApplyMetric of a rejected event
    every row that is not an ingestion-status row is exactly as before (none added, none changed, none removed). -/
theorem rejected_contributes_nothing (cfg : Cfg) (st : Store) (e : Event) (hv : verdict cfg e ≠ 0) :
    (applyEvent cfg st e).filter keep = st.filter keep := by
  obtain ⟨env, tagKey, str, he⟩ := rejected_effects cfg e hv
  unfold applyEvent
  simp only [he]
  apply foldl_status_keep
  intro x hx
  unfold rejectionRecords at hx
  split at hx
  · unfold statusBoth both at hx
    split at hx <;> simp at hx <;> rcases hx with rfl | rfl <;> exact ⟨_, _, _, _, _, _, rfl, Or.inl rfl⟩
  · simp at hx; subst hx; exact ⟨_, _, _, _, _, _, rfl, Or.inr rfl⟩



/-! ### counter semantics of accepted events -/

/-- Σ value·weight -/
def wsum (vals : List (Rat × Rat)) : Rat := (vals.map (fun p => p.1 * p.2)).sum

theorem foldl_addOnly (vals : List (Rat × Rat)) (a : MV) :
    (vals.foldl (fun a p => addOnly a p.1 p.2) a).sum = a.sum + wsum vals ∧
    (vals.foldl (fun a p => addOnly a p.1 p.2) a).cnt = a.cnt ∧
    ((vals.foldl (fun a p => addOnly a p.1 p.2) a).set = (a.set || !vals.isEmpty)) := by
  induction vals generalizing a with
  | nil => simp [wsum]
  | cons p ps ih =>
    simp only [List.foldl_cons]
    obtain ⟨h1, h2, h3⟩ := ih (addOnly a p.1 p.2)
    refine ⟨?_, ?_, ?_⟩
    · rw [h1]; simp [addOnly, wsum]; ring
    · rw [h2]; simp [addOnly]
    · rw [h3]; simp [addOnly]

theorem tmpOf_spec (count : Rat) (vals : List (Rat × Rat)) :
    (tmpOf count vals).sum = wsum vals ∧ (tmpOf count vals).cnt = count ∧ (tmpOf count vals).set = !vals.isEmpty := by
  unfold tmpOf
  obtain ⟨h1, h2, h3⟩ := foldl_addOnly vals { cnt := count }
  exact ⟨by simpa using h1, by simpa using h2, by simpa using h3⟩

theorem scale_spec (count total : Rat) (t : MV) (ht : total ≠ 0) :
    (scale count total t).sum = t.sum * count / total ∧ (scale count total t).cnt = t.cnt ∧ (scale count total t).set = t.set := by
  unfold scale
  by_cases h : count = total
  · subst h; simp; field_simp
  · simp [h]

theorem addCount_cnt (c : Rat) (mv : MV) (hc : 0 < c) (hnn : 0 ≤ mv.cnt) : (addCount c mv).cnt = mv.cnt + c := by
  unfold addCount
  have h1 : ¬ c ≤ 0 := by linarith
  by_cases h2 : mv.cnt ≤ 0
  · have : mv.cnt = 0 := le_antisymm h2 hnn
    simp [h1, this]
  · simp [h1, h2]

theorem addCount_nonneg (c : Rat) (mv : MV) (h : 0 ≤ mv.cnt) : 0 ≤ (addCount c mv).cnt := by
  unfold addCount
  by_cases h1 : c ≤ 0
  · simp [h1, h]
  · by_cases h2 : mv.cnt ≤ 0
    · simp [h1, h2]; linarith
    · simp [h1, h2]; linarith

/-- **Weighting of an accepted value event** (MultiValue.ApplyValues on any row with a non-negative count): the row's
    count grows by `count` and its sum by (Σ value·weight)·count/total. -/
theorem mvApplyValues_delta (pct : Bool) (vals : List (Rat × Rat)) (count total : Rat) (mv : MV)
    (hnn : 0 ≤ mv.cnt) (hc : 0 < count) (ht : 0 < total) (hne : vals ≠ []) :
    (mvApplyValues pct vals count total mv).cnt = mv.cnt + count ∧
    (mvApplyValues pct vals count total mv).sum = mv.sum + wsum vals * count / total := by
  have ht' : total ≠ 0 := ne_of_gt ht
  obtain ⟨t1, t2, t3⟩ := tmpOf_spec count vals
  obtain ⟨s1, s2, s3⟩ := scale_spec count total (tmpOf count vals) ht'
  have hset : (scale count total (tmpOf count vals)).set = true := by
    rw [s3, t3]; cases vals with
    | nil => exact absurd rfl hne
    | cons _ _ => rfl
  have hm : (mvMerge mv (scale count total (tmpOf count vals))).cnt = mv.cnt + count ∧
      (mvMerge mv (scale count total (tmpOf count vals))).sum = mv.sum + wsum vals * count / total := by
    unfold mvMerge
    simp only [hset, Bool.not_true, Bool.false_eq_true, if_false]
    refine ⟨?_, ?_⟩
    · show (addCount _ mv).cnt = _
      rw [s2, t2]; exact addCount_cnt _ _ hc hnn
    · show (addCount _ mv).sum + _ = _
      rw [s1, t1]; unfold addCount; split <;> [skip; split] <;> rfl
  unfold mvApplyValues
  have : ¬ total ≤ 0 := by linarith
  simp only [this, if_false]
  split <;> exact hm

theorem mvApplyValuesLegacy_delta (pct : Bool) (vals : List (Rat × Rat)) (count total : Rat) (mv : MV)
    (hnn : 0 ≤ mv.cnt) (hc : 0 < count) (ht : 0 < total) (hne : vals ≠ []) :
    (mvApplyValuesLegacy pct vals count total mv).cnt = mv.cnt + count ∧
    (mvApplyValuesLegacy pct vals count total mv).sum = mv.sum + wsum vals * count / total := by
  have ht' : total ≠ 0 := ne_of_gt ht
  obtain ⟨t1, t2, t3⟩ := tmpOf_spec count vals
  obtain ⟨s1, s2, s3⟩ := scale_spec count total (tmpOf count vals) ht'
  have hset : (scale count total (tmpOf count vals)).set = true := by
    rw [s3, t3]; cases vals with
    | nil => exact absurd rfl hne
    | cons _ _ => rfl
  have hm : (mvMerge mv (scale count total (tmpOf count vals))).cnt = mv.cnt + count ∧
      (mvMerge mv (scale count total (tmpOf count vals))).sum = mv.sum + wsum vals * count / total := by
    unfold mvMerge
    simp only [hset, Bool.not_true, Bool.false_eq_true, if_false]
    refine ⟨?_, ?_⟩
    · show (addCount _ mv).cnt = _
      rw [s2, t2]; exact addCount_cnt _ _ hc hnn
    · show (addCount _ mv).sum + _ = _
      rw [s1, t1]; unfold addCount; split <;> [skip; split] <;> rfl
  unfold mvApplyValuesLegacy
  have : ¬ total ≤ 0 := by linarith
  simp only [this, if_false]
  split <;> exact hm

/-- both value-application modes add the same count and sum -/
theorem valuesFn_delta (lg pct : Bool) (vals : List (Rat × Rat)) (count total : Rat) (mv : MV)
    (hnn : 0 ≤ mv.cnt) (hc : 0 < count) (ht : 0 < total) (hne : vals ≠ []) :
    (valuesFn lg pct vals count total mv).cnt = mv.cnt + count ∧
    (valuesFn lg pct vals count total mv).sum = mv.sum + wsum vals * count / total := by
  unfold valuesFn
  split
  · exact mvApplyValuesLegacy_delta pct vals count total mv hnn hc ht hne
  · exact mvApplyValues_delta pct vals count total mv hnn hc ht hne

/-- absent counter: one event per value, or the histogram weight -/
theorem absent_counter_count (total : Rat) : effCount 0 total = total := by simp [effCount]

/-- present counter: it is the number of events -/
theorem present_counter_count (c total : Rat) (h : c ≠ 0) : effCount c total = c := by simp [effCount, h]

theorem histTotal_eq (values : List XR) (hist : List (XR × XR)) :
    histTotal values hist = (values.length : Rat) + (hist.map (fun p => p.2.toRat)).sum := by
  unfold histTotal
  generalize (values.length : Rat) = a
  induction hist generalizing a with
  | nil => simp
  | cons p ps ih => simp only [List.foldl_cons, List.map_cons, List.sum_cons]; rw [ih]; ring

/-- **Count and average match the documented semantics.** For an accepted value/histogram event applied to a row
    (any row, count ≥ 0): with an absent counter the row's count grows by #values + Σ histogram weights and its sum by
    Σ value·weight; with a present counter `c` the count grows by `c` and the *average* of the added mass,
    Δsum/Δcount, is still the weighted mean Σ value·weight / total of the supplied values. -/
theorem counter_semantics (pct : Bool) (values : List XR) (hist : List (XR × XR)) (counter : Rat) (mv : MV)
    (hnn : 0 ≤ mv.cnt) (hc : 0 ≤ counter) (ht : 0 < histTotal values hist) (hne : valuePairs values hist ≠ []) :
    let total := histTotal values hist
    let count := effCount counter total
    let r := mvApplyValues pct (valuePairs values hist) count total mv
    (counter = 0 → r.cnt - mv.cnt = total ∧ r.sum - mv.sum = wsum (valuePairs values hist)) ∧
    (counter ≠ 0 → r.cnt - mv.cnt = counter) ∧
    (r.sum - mv.sum) / (r.cnt - mv.cnt) = wsum (valuePairs values hist) / total := by
  intro total count r
  have hcount : 0 < count := by
    show 0 < effCount counter total
    unfold effCount; split
    · exact ht
    · rename_i h; exact lt_of_le_of_ne hc (Ne.symm h)
  obtain ⟨d1, d2⟩ := mvApplyValues_delta pct (valuePairs values hist) count total mv hnn hcount ht hne
  have ht' : total ≠ 0 := ne_of_gt ht
  have hc' : count ≠ 0 := ne_of_gt hcount
  refine ⟨?_, ?_, ?_⟩
  · intro h0
    have : count = total := by show effCount counter total = total; simp [effCount, h0]
    show (mvApplyValues pct _ count total mv).cnt - mv.cnt = total ∧ _
    rw [d1, d2, this]; constructor
    · ring
    · field_simp; ring
  · intro h0
    have : count = counter := by show effCount counter total = counter; simp [effCount, h0]
    show (mvApplyValues pct _ count total mv).cnt - mv.cnt = counter
    rw [d1, this]; ring
  · have e1 : (mvApplyValues pct (valuePairs values hist) count total mv).cnt - mv.cnt = count := by rw [d1]; ring
    have e2 : (mvApplyValues pct (valuePairs values hist) count total mv).sum - mv.sum =
        wsum (valuePairs values hist) * count / total := by rw [d2]; ring
    show ((mvApplyValues pct _ count total mv).sum - mv.sum) / ((mvApplyValues pct _ count total mv).cnt - mv.cnt) = _
    rw [e1, e2]
    field_simp

/-- the value effect of ApplyMetric is exactly this weighting, applied to the event's row (definitional link) -/
theorem values_effect_is_weighting (cfg : Cfg) (s : Store × EvKey) (sh drop : Nat) (hist : List (XR × XR)) (values : List XR) (c : XR)
    (hpos : 0 < effCount c.toRat (histTotal values hist)) :
    runEffect cfg s (.values sh drop hist values c) =
      shardApply cfg s.1 s.2 sh drop
        (valuesFn cfg.legacy cfg.metric.pct (valuePairs values hist) (effCount c.toRat (histTotal values hist)) (histTotal values hist)) := by
  have : ¬ effCount c.toRat (histTotal values hist) ≤ 0 := by linarith
  simp [runEffect, this]

/-- uniques are weighted exactly like values (`for the purpose of this, Uniques are treated exactly as Values`) -/
theorem uniques_as_values (hashes : List Int) (count : Rat) (mv : MV) (hne : hashes ≠ []) :
    let vals := hashes.map (fun (h : Int) => ((h : Rat), (1 : Rat)))
    (mvApplyUnique hashes count mv).cnt = (mvApplyValues false vals count (hashes.length : Rat) mv).cnt ∧
    (mvApplyUnique hashes count mv).sum = (mvApplyValues false vals count (hashes.length : Rat) mv).sum := by
  intro vals
  have hl : hashes.length ≠ 0 := by cases hashes with
    | nil => exact absurd rfl hne
    | cons _ _ => simp
  have hpos : ¬ ((hashes.length : Rat) ≤ 0) := by
    have : (0 : Rat) < (hashes.length : Rat) := by exact_mod_cast Nat.pos_of_ne_zero hl
    linarith
  simp [mvApplyUnique, mvApplyValues, hl, hpos, vals]




/-! ### every event sequence: rejected events are invisible in the metric rows -/

/-- two stores with the same non-status rows -/
def SameRows (a b : Store) : Prop := a.filter keep = b.filter keep

theorem keep_of_metric (it : Item) (m : Int) (h : it.metric = m) (hm : m ≠ statusMetricID ∧ m ≠ noShardMetricID) : keep it = true := by
  unfold keep; simp [h, hm.1, hm.2]

theorem storeUpd_filter_comm (sh : Nat) (m : Int) (ts : Nat) (kt : KeyTags) (t : Int × Str) (f : MV → MV) (st : Store)
    (hm : m ≠ statusMetricID ∧ m ≠ noShardMetricID) :
    (storeUpd sh m ts kt t f st).filter keep = storeUpd sh m ts kt t f (st.filter keep) := by
  induction st with
  | nil =>
    have : keep (({ shard := sh, metric := m, ts := ts, ktags := kt } : Item).upd t f) = true :=
      keep_of_metric _ m (upd_metric _ _ _) hm
    simp [storeUpd, List.filter, this]
  | cons it r ih =>
    by_cases hs : it.sameKey sh m ts kt = true
    · have him : it.metric = m := by
        unfold Item.sameKey at hs; simp at hs; exact hs.1.1.2
      have k1 : keep it = true := keep_of_metric it m him hm
      have k2 : keep (it.upd t f) = true := keep_of_metric _ m ((upd_metric it t f).trans him) hm
      simp [storeUpd, hs, List.filter, k1, k2]
    · by_cases k : keep it = true
      · simp [storeUpd, hs, List.filter, k, ih]
      · have k' : keep it = false := by simpa using k
        simp [storeUpd, hs, List.filter, k', ih]

theorem storeUpd_same (sh : Nat) (m : Int) (ts : Nat) (kt : KeyTags) (t : Int × Str) (f : MV → MV) (a b : Store)
    (hm : m ≠ statusMetricID ∧ m ≠ noShardMetricID) (h : SameRows a b) :
    SameRows (storeUpd sh m ts kt t f a) (storeUpd sh m ts kt t f b) := by
  unfold SameRows at *
  rw [storeUpd_filter_comm _ _ _ _ _ _ _ hm, storeUpd_filter_comm _ _ _ _ _ _ _ hm, h]

theorem addStatus_same (cfg : Cfg) (a b : Store) (sh : Nat) (m : Int) (res t : Nat) (tags : List Int) (str : Str) (drop : Nat)
    (hm : m = statusMetricID ∨ m = noShardMetricID) (h : SameRows a b) :
    SameRows (addStatus cfg a sh m res t tags str drop) (addStatus cfg b sh m res t tags str drop) := by
  unfold SameRows at *
  rw [addStatus_filter_keep _ _ _ _ _ _ _ _ _ hm, addStatus_filter_keep _ _ _ _ _ _ _ _ _ hm, h]

theorem shardApply_same (cfg : Cfg) (a b : Store) (k : EvKey) (sh drop : Nat) (f : MV → MV)
    (hm : k.metric ≠ statusMetricID ∧ k.metric ≠ noShardMetricID) (h : SameRows a b) :
    SameRows (shardApply cfg a k sh drop f).1 (shardApply cfg b k sh drop f).1 ∧
    (shardApply cfg a k sh drop f).2 = (shardApply cfg b k sh drop f).2 := by
  unfold shardApply
  simp only
  split
  · exact ⟨h, rfl⟩
  · split
    · exact ⟨addStatus_same _ _ _ _ _ _ _ _ _ _ (Or.inl rfl) (storeUpd_same _ _ _ _ _ _ _ _ hm h), rfl⟩
    · exact ⟨storeUpd_same _ _ _ _ _ _ _ _ hm h, rfl⟩

theorem shardApply_metric (cfg : Cfg) (a : Store) (k : EvKey) (sh drop : Nat) (f : MV → MV) :
    (shardApply cfg a k sh drop f).2.metric = k.metric := by
  unfold shardApply; simp only; split <;> rfl

/-- status records written by ApplyMetric always belong to one of the two built-in status metrics -/
def BuiltinStatus : Effect → Prop
  | .status _ m _ _ _ _ => m = statusMetricID ∨ m = noShardMetricID
  | _ => True

theorem runEffect_same (cfg : Cfg) (a b : Store) (k : EvKey) (x : Effect) (hx : BuiltinStatus x)
    (hm : k.metric ≠ statusMetricID ∧ k.metric ≠ noShardMetricID) (h : SameRows a b) :
    SameRows (runEffect cfg (a, k) x).1 (runEffect cfg (b, k) x).1 ∧
    (runEffect cfg (a, k) x).2 = (runEffect cfg (b, k) x).2 ∧ (runEffect cfg (a, k) x).2.metric = k.metric := by
  cases x with
  | status sh m res tags str drop =>
    exact ⟨addStatus_same _ _ _ _ _ _ _ _ _ _ hx h, rfl, rfl⟩
  | counter sh drop c =>
    simp only [runEffect]
    split
    · exact ⟨h, rfl, rfl⟩
    · exact ⟨(shardApply_same _ _ _ _ _ _ _ hm h).1, (shardApply_same _ _ _ _ _ _ _ hm h).2, shardApply_metric _ _ _ _ _ _⟩
  | values sh drop hist values c =>
    simp only [runEffect]
    split
    · exact ⟨h, rfl, rfl⟩
    · exact ⟨(shardApply_same _ _ _ _ _ _ _ hm h).1, (shardApply_same _ _ _ _ _ _ _ hm h).2, shardApply_metric _ _ _ _ _ _⟩
  | unique sh drop hashes c =>
    simp only [runEffect]
    split
    · exact ⟨h, rfl, rfl⟩
    · exact ⟨(shardApply_same _ _ _ _ _ _ _ hm h).1, (shardApply_same _ _ _ _ _ _ _ hm h).2, shardApply_metric _ _ _ _ _ _⟩

theorem foldl_same (cfg : Cfg) (effs : List Effect) (a b : Store) (k : EvKey) (hx : ∀ x ∈ effs, BuiltinStatus x)
    (hm : k.metric ≠ statusMetricID ∧ k.metric ≠ noShardMetricID) (h : SameRows a b) :
    SameRows (effs.foldl (runEffect cfg) (a, k)).1 (effs.foldl (runEffect cfg) (b, k)).1 := by
  induction effs generalizing a b k with
  | nil => exact h
  | cons x xs ih =>
    simp only [List.foldl_cons]
    obtain ⟨h1, h2, h3⟩ := runEffect_same cfg a b k x (hx x List.mem_cons_self) hm h
    have e1 : runEffect cfg (a, k) x = ((runEffect cfg (a, k) x).1, (runEffect cfg (a, k) x).2) := rfl
    have e2 : runEffect cfg (b, k) x = ((runEffect cfg (b, k) x).1, (runEffect cfg (a, k) x).2) := by rw [h2]
    rw [e1, e2]
    exact ih _ _ _ (fun y hy => hx y (List.mem_cons_of_mem _ hy)) (by rw [h3]; exact hm) h1

theorem effects_builtin (cfg : Cfg) (e : Event) (h : Hdr) : ∀ x ∈ effects cfg e h, BuiltinStatus x := by
  intro x hx
  have hb : ∀ env m c k s, ∀ y ∈ statusBoth cfg env m c k s, BuiltinStatus y := by
    intro env m c k s y hy
    unfold statusBoth both at hy
    split at hy <;> simp at hy <;> rcases hy with rfl | rfl <;> exact Or.inl rfl
  unfold effects at hx
  simp only at hx
  split at hx
  · simp at hx; subst hx; exact Or.inr rfl
  · split at hx
    · simp at hx; subst hx; exact Or.inr rfl
    · split at hx
      · exact hb _ _ _ _ _ x hx
      · simp only [List.mem_append] at hx
        rcases hx with (hx | hx) | hx
        · exact hb _ _ _ _ _ x hx
        · have := (warnings_all cfg h _ _ x hx).1
          cases x <;> simp [Effect.isStatus] at this
          unfold warnings at hx
          simp only [List.mem_append] at hx
          rcases hx with (((hx | hx) | hx) | hx) | hx <;> split at hx <;> first | exact hb _ _ _ _ _ _ hx | cases hx
        · have := payload_no_status cfg e x hx
          cases x <;> simp [Effect.isStatus] at this <;> trivial

/-- the metric described by `cfg` is a user metric, not one of the two status metrics (and neither is id 0) -/
def UserMetric (cfg : Cfg) : Prop := cfg.metric.id ≠ statusMetricID ∧ cfg.metric.id ≠ noShardMetricID

theorem keyMetric_user (cfg : Cfg) (e : Event) (hu : UserMetric cfg) :
    keyMetric cfg e ≠ statusMetricID ∧ keyMetric cfg e ≠ noShardMetricID := by
  unfold keyMetric; split
  · exact hu
  · exact ⟨by decide, by decide⟩

theorem applyEvent_same (cfg : Cfg) (a b : Store) (e : Event) (hu : UserMetric cfg) (h : SameRows a b) :
    SameRows (applyEvent cfg a e) (applyEvent cfg b e) := by
  unfold applyEvent
  exact foldl_same cfg _ a b _ (effects_builtin cfg e _) (keyMetric_user cfg e hu) h

def applyAll (cfg : Cfg) (st : Store) (evs : List Event) : Store := evs.foldl (applyEvent cfg) st

theorem applyAll_same (cfg : Cfg) (evs : List Event) (a b : Store) (hu : UserMetric cfg) (h : SameRows a b) :
    SameRows (applyAll cfg a evs) (applyAll cfg b evs) := by
  induction evs generalizing a b with
  | nil => exact h
  | cons e es ih => exact ih _ _ (applyEvent_same cfg a b e hu h)

/-- **All event sequences.** Starting from any store and feeding any sequence of events (valid and invalid, in any
    order), the rows of every metric other than the two status metrics are exactly those obtained by feeding only
    the accepted events: a rejected event never changes, creates, removes or perturbs later updates of a metric row. -/
theorem rejected_invisible (cfg : Cfg) (st : Store) (evs : List Event) (hu : UserMetric cfg) :
    (applyAll cfg st evs).filter keep =
      (applyAll cfg st (evs.filter (fun e => decide (verdict cfg e = 0)))).filter keep := by
  induction evs generalizing st with
  | nil => rfl
  | cons e es ih =>
    by_cases hv : verdict cfg e = 0
    · simp only [List.filter, hv, decide_true]
      exact ih (applyEvent cfg st e)
    · simp only [List.filter, hv, decide_false]
      have h1 : SameRows (applyEvent cfg st e) st := rejected_contributes_nothing cfg st e hv
      have h2 := applyAll_same cfg es _ _ hu h1
      show (applyAll cfg (applyEvent cfg st e) es).filter keep = _
      rw [h2]; exact ih st



/-! ### non-vacuity: concrete events and states satisfying the hypotheses above -/

/-- a metric with id 7, resolution 1, fixed shard 1 of 3, second shard 3 -/
def exCfg : Cfg :=
  { nShards := 3, now := 1000, mapping := [("70726f64", 11)],
    metric := { id := 7, res := 1, pct := true, strategy := 0, shardNum := 1, fixedKey := 0, shard2Key := 3, shard2Ts := 0 } }

/-- tag "1" = "prod" (known, plain) -/
def exTag : TagIn :=
  { isEnv := false, metaIdx := some 1, rawKind := 0, legacy := false, keyNorm := some "31", keyHex := "3331", draft := false,
    corrupted := false, valNorm := some "70726f64", valHex := "3730373236663634", raw := none, raw64 := none }

/-- tag "1" with a value that is not UTF-8 -/
def exBadTag : TagIn := { exTag with valNorm := none, valHex := "6666" }

/-- values [2, 4], histogram [(6, weight 2)], counter 8 (bit patterns of float64) -/
def exEvent : Event :=
  { pre := 0, hasMeta := true, invalid := "-", ts := 0, counter := ofBits 0x4020000000000000,
    values := [ofBits 0x4000000000000000, ofBits 0x4010000000000000],
    hist := [(ofBits 0x4018000000000000, ofBits 0x4000000000000000)], uniq := [], tags := [exTag] }

example : UserMetric exCfg := by unfold UserMetric; decide
example : WF exEvent := by intro h; exact absurd h (by decide)
example : verdict exCfg exEvent = 0 := by decide +kernel
example : verdict exCfg { exEvent with values := [ofBits 0x7ff8000000000000] } = stErrNanInfValue := by decide +kernel
example : verdict exCfg { exEvent with counter := ofBits 0xbff0000000000000 } = stErrNegativeCounter := by decide +kernel
example : verdict exCfg { exEvent with tags := [exTag, exBadTag] } = stErrMapTagValueEncoding := by decide +kernel
example : verdict exCfg { exEvent with uniq := [5] } = stErrValueUniqueBothSet := by decide +kernel
example : verdict exCfg { exEvent with values := [], hist := [], counter := ofBits 0 } = stErrZeroCounter := by decide +kernel
/-- the rejected event leaves exactly one record (status 23, tag key 0) in shard 1 and its copy in shard 2 -/
example : effects exCfg { exEvent with values := [ofBits 0x7ff8000000000000] }
      (header exCfg.mapping { exEvent with values := [ofBits 0x7ff8000000000000] }) =
    [.status 1 statusMetricID statusMetricRes [0, 7, stErrNanInfValue, 0, componentAgent] "-" 0,
     .status 2 statusMetricID statusMetricRes [0, 7, stErrNanInfValue, 0, componentAgent] "-" 0] := by decide +kernel
/-- thresholds: MaxFloat32 itself is accepted, its float64 successor is not; -MaxFloat32 likewise; +Inf counter is "too big" -/
example : validateValue (ofBits 0x47efffffe0000000) = 0 := by decide +kernel
example : validateValue (ofBits 0x47efffffe0000001) = stErrTooBigValue := by decide +kernel
example : validateValue (ofBits 0xc7efffffe0000000) = 0 := by decide +kernel
example : validateValue (ofBits 0xc7efffffe0000001) = stErrTooBigValue := by decide +kernel
example : validateCounter (ofBits 0x47efffffe0000000) = 0 := by decide +kernel
example : validateCounter (ofBits 0x7ff0000000000000) = stErrTooBigCounter := by decide +kernel
example : validateCounter (ofBits 0xfff0000000000000) = stErrNegativeCounter := by decide +kernel
example : validateCounter (ofBits 0x8000000000000001) = stErrNegativeCounter := by decide +kernel
/-- counter_semantics on the example: total 4, counter 8 ⇒ count 8, sum (2+4+6·2)·8/4 = 36, average 4.5 = 18/4 -/
example : histTotal exEvent.values exEvent.hist = 4 ∧ valuePairs exEvent.values exEvent.hist ≠ [] ∧
    (mvApplyValues true (valuePairs exEvent.values exEvent.hist) 8 4 {}).cnt = 8 ∧
    (mvApplyValues true (valuePairs exEvent.values exEvent.hist) 8 4 {}).sum = 36 ∧
    wsum (valuePairs exEvent.values exEvent.hist) = 18 := by decide +kernel
/-- end to end on the empty store: the accepted event creates the row (shard 1, metric 7, tag 1 = 11) with count 8, sum 36 -/
example :
    ((applyEvent exCfg [] exEvent).filter keep).map (fun it => it.shard) = [1, 2] ∧
    ((applyEvent exCfg [] exEvent).filter keep).map (fun it => it.metric) = [7, 7] ∧
    ((applyEvent exCfg [] exEvent).filter keep).map (fun it => it.ktags) = [[(1, 11, "-")], [(1, 11, "-")]] ∧
    ((applyEvent exCfg [] exEvent).filter keep).map (fun it => it.tail.cnt) = [8, 8] ∧
    ((applyEvent exCfg [] exEvent).filter keep).map (fun it => it.tail.sum) = [36, 36] := by decide +kernel
/-- … and the rejected variant creates none -/
example : (applyEvent exCfg [] { exEvent with values := [ofBits 0x7ff8000000000000] }).filter keep = [] := by decide +kernel




/-! ### lifting the weighting through the store lookup -/

/-- every readable count is non-negative -/
def NN (st : Store) : Prop := ∀ a : Addr, 0 ≤ (getMV st a).cnt

theorem NN_nil : NN [] := by intro a; simp [getMV]

/-- `f` adds `dc` to the count and `ds` to the sum of any row with a non-negative count -/
def Adds (f : MV → MV) (dc ds : Rat) : Prop :=
  ∀ mv : MV, 0 ≤ mv.cnt → (f mv).cnt = mv.cnt + dc ∧ (f mv).sum = mv.sum + ds

theorem storeUpd_NN (sh : Nat) (m : Int) (ts : Nat) (kt : KeyTags) (t : Int × Str) (f : MV → MV) (st : Store)
    (hf : ∀ mv : MV, 0 ≤ mv.cnt → 0 ≤ (f mv).cnt) (h : NN st) : NN (storeUpd sh m ts kt t f st) := by
  intro a
  by_cases ha : a = ⟨sh, m, ts, kt, normTop t⟩
  · subst ha; rw [getMV_storeUpd_same]; exact hf _ (h _)
  · rw [getMV_storeUpd_other _ _ _ _ _ _ _ _ ha]; exact h a

/-- where a status record lands -/
def statusAddr (cfg : Cfg) (sh : Nat) (m : Int) (res t : Nat) (tags : List Int) (str : Str) : Addr :=
  ⟨sh, m, (resolveTs cfg.now res t).1, tagsOfList 0 tags, normTop (statusTop cfg.mapping str)⟩

theorem addStatus_get (cfg : Cfg) (st : Store) (sh : Nat) (m : Int) (res t : Nat) (tags : List Int) (str : Str) (drop : Nat) (a : Addr) :
    getMV (addStatus cfg st sh m res t tags str drop) a =
      if ¬ ((resolveTs cfg.now res t).1 < drop) ∧ a = statusAddr cfg sh m res t tags str then addCount 1 (getMV st a) else getMV st a := by
  unfold addStatus statusAddr
  simp only
  by_cases hd : (resolveTs cfg.now res t).1 < drop
  · simp [hd]
  · simp only [hd, if_false, not_false_eq_true, true_and]
    by_cases ha : a = ⟨sh, m, (resolveTs cfg.now res t).1, tagsOfList 0 tags, normTop (statusTop cfg.mapping str)⟩
    · subst ha; simp [getMV_storeUpd_same]
    · simp [ha, getMV_storeUpd_other _ _ _ _ _ _ _ _ ha]

theorem addStatus_NN (cfg : Cfg) (st : Store) (sh : Nat) (m : Int) (res t : Nat) (tags : List Int) (str : Str) (drop : Nat)
    (h : NN st) : NN (addStatus cfg st sh m res t tags str drop) := by
  unfold addStatus; simp only
  split
  · exact h
  · exact storeUpd_NN _ _ _ _ _ _ _ (fun mv hmv => addCount_nonneg 1 mv hmv) h

/-- a status record never touches a row of another metric -/
theorem addStatus_get_other (cfg : Cfg) (st : Store) (sh : Nat) (m : Int) (res t : Nat) (tags : List Int) (str : Str) (drop : Nat) (a : Addr)
    (hm : a.metric ≠ m) : getMV (addStatus cfg st sh m res t tags str drop) a = getMV st a := by
  rw [addStatus_get]
  have : a ≠ statusAddr cfg sh m res t tags str := by intro h; apply hm; rw [h]; rfl
  simp [this]

/-- the address Shard.Apply* writes to for the key `k` -/
def applyAddr (cfg : Cfg) (k : EvKey) (sh : Nat) : Addr :=
  ⟨sh, k.metric, (resolveTs cfg.now cfg.metric.res k.ts).1, k.noTop, normTop k.top⟩

def applyDropped (cfg : Cfg) (k : EvKey) (drop : Nat) : Prop := (resolveTs cfg.now cfg.metric.res k.ts).1 < drop

instance (cfg : Cfg) (k : EvKey) (drop : Nat) : Decidable (applyDropped cfg k drop) := by unfold applyDropped; infer_instance

/-- the key after the shard has mutated it in place -/
def keyAfter (cfg : Cfg) (k : EvKey) : EvKey := { k with ts := (resolveTs cfg.now cfg.metric.res k.ts).1, ktags := k.noTop }

theorem shardApply_key (cfg : Cfg) (st : Store) (k : EvKey) (sh drop : Nat) (f : MV → MV) :
    (shardApply cfg st k sh drop f).2 = keyAfter cfg k := by
  unfold shardApply keyAfter; simp only; split <;> rfl

theorem shardApply_get (cfg : Cfg) (st : Store) (k : EvKey) (sh drop : Nat) (f : MV → MV) (a : Addr)
    (ha : a.metric ≠ statusMetricID) :
    getMV (shardApply cfg st k sh drop f).1 a =
      if ¬ applyDropped cfg k drop ∧ a = applyAddr cfg k sh then f (getMV st a) else getMV st a := by
  unfold shardApply applyDropped applyAddr
  simp only
  by_cases hd : (resolveTs cfg.now cfg.metric.res k.ts).1 < drop
  · simp [hd]
  · simp only [hd, if_false, not_false_eq_true, true_and]
    have core : getMV (storeUpd sh k.metric (resolveTs cfg.now cfg.metric.res k.ts).1 k.noTop k.top f st) a =
        if a = ⟨sh, k.metric, (resolveTs cfg.now cfg.metric.res k.ts).1, k.noTop, normTop k.top⟩ then f (getMV st a) else getMV st a := by
      by_cases hq : a = ⟨sh, k.metric, (resolveTs cfg.now cfg.metric.res k.ts).1, k.noTop, normTop k.top⟩
      · subst hq; simp [getMV_storeUpd_same]
      · simp [hq, getMV_storeUpd_other _ _ _ _ _ _ _ _ hq]
    split
    · rw [addStatus_get_other _ _ _ _ _ _ _ _ _ _ ha]; exact core
    · exact core

theorem shardApply_NN (cfg : Cfg) (st : Store) (k : EvKey) (sh drop : Nat) (f : MV → MV)
    (hf : ∀ mv : MV, 0 ≤ mv.cnt → 0 ≤ (f mv).cnt) (h : NN st) : NN (shardApply cfg st k sh drop f).1 := by
  unfold shardApply; simp only
  split
  · exact h
  · split
    · exact addStatus_NN _ _ _ _ _ _ _ _ _ (storeUpd_NN _ _ _ _ _ _ _ hf h)
    · exact storeUpd_NN _ _ _ _ _ _ _ hf h



/-- the shard call ApplyMetric makes for the contribution of an event -/
def payEffect (e : Event) (sh drop : Nat) : Effect :=
  if e.uniq.length ≠ 0 then .unique sh drop e.uniq e.counter
  else if e.hist.length + e.values.length ≠ 0 then .values sh drop e.hist e.values e.counter
  else .counter sh drop e.counter

theorem payload_eq (cfg : Cfg) (e : Event) : payload cfg e = both cfg (payEffect e) := by
  unfold payload payEffect
  split
  · rfl
  · split <;> rfl

def uniqPairs (hashes : List Int) : List (Rat × Rat) := hashes.map (fun (h : Int) => ((h : Rat), (1 : Rat)))

/-- what the row update of an event is, `none` when the shard returns before touching anything (`count <= 0`) -/
def payFn (lg pct : Bool) (e : Event) : Option (MV → MV) :=
  if e.uniq.length ≠ 0 then
    (if effCount e.counter.toRat (e.uniq.length : Rat) ≤ 0 then none
     else some (mvApplyUnique e.uniq (effCount e.counter.toRat (e.uniq.length : Rat))))
  else if e.hist.length + e.values.length ≠ 0 then
    (if effCount e.counter.toRat (histTotal e.values e.hist) ≤ 0 then none
     else some (valuesFn lg pct (valuePairs e.values e.hist) (effCount e.counter.toRat (histTotal e.values e.hist)) (histTotal e.values e.hist)))
  else (if e.counter.toRat ≤ 0 then none else some (addCount e.counter.toRat))

theorem runEffect_pay (cfg : Cfg) (s : Store × EvKey) (e : Event) (sh drop : Nat) :
    runEffect cfg s (payEffect e sh drop) =
      match payFn cfg.legacy cfg.metric.pct e with
      | none => s
      | some f => shardApply cfg s.1 s.2 sh drop f := by
  unfold payEffect payFn
  split
  · simp only [runEffect]; split <;> rfl
  · split
    · simp only [runEffect]; split <;> rfl
    · simp only [runEffect]; split <;> rfl

/-- **What one accepted event adds to its row**: (Δcount, Δsum).
    Δcount is the counter if present, else the number of uniques / the number of values plus the histogram weights;
    Δsum is Σ value·weight scaled by Δcount/total (0 for a pure counter event). -/
def evDelta (e : Event) : Rat × Rat :=
  if e.uniq.length ≠ 0 then
    (if effCount e.counter.toRat (e.uniq.length : Rat) ≤ 0 then (0, 0)
     else (effCount e.counter.toRat (e.uniq.length : Rat),
           wsum (uniqPairs e.uniq) * effCount e.counter.toRat (e.uniq.length : Rat) / (e.uniq.length : Rat)))
  else if e.hist.length + e.values.length ≠ 0 then
    (if effCount e.counter.toRat (histTotal e.values e.hist) ≤ 0 then (0, 0)
     else if histTotal e.values e.hist ≤ 0 then (0, 0)
     else (effCount e.counter.toRat (histTotal e.values e.hist),
           wsum (valuePairs e.values e.hist) * effCount e.counter.toRat (histTotal e.values e.hist) / histTotal e.values e.hist))
  else (if e.counter.toRat ≤ 0 then (0, 0) else (e.counter.toRat, 0))

theorem evDelta_nonneg (e : Event) : 0 ≤ (evDelta e).1 := by
  unfold evDelta
  split
  · split
    · simp
    · rename_i h; simp; linarith
  · split
    · split
      · simp
      · split
        · simp
        · rename_i h _; simp; linarith
    · split
      · simp
      · rename_i h; simp; linarith

theorem valuePairs_ne_nil (values : List XR) (hist : List (XR × XR)) (h : hist.length + values.length ≠ 0) :
    valuePairs values hist ≠ [] := by
  unfold valuePairs
  cases values with
  | cons _ _ => simp
  | nil =>
    cases hist with
    | nil => simp at h
    | cons _ _ => simp

theorem addCount_adds (c : Rat) (hc : 0 < c) : Adds (addCount c) c 0 := by
  intro mv hmv
  refine ⟨addCount_cnt c mv hc hmv, ?_⟩
  unfold addCount; split <;> [skip; split] <;> simp

/-- the row update of an event adds exactly `evDelta` -/
theorem payFn_adds (lg pct : Bool) (e : Event) :
    match payFn lg pct e with
    | none => evDelta e = (0, 0)
    | some f => Adds f (evDelta e).1 (evDelta e).2 := by
  unfold payFn evDelta
  by_cases hu : e.uniq.length ≠ 0
  · simp only [if_pos hu]
    by_cases hc : effCount e.counter.toRat (e.uniq.length : Rat) ≤ 0
    · simp only [if_pos hc]
    · simp only [if_neg hc]
      intro mv hmv
      have hne : e.uniq ≠ [] := by intro h; apply hu; simp [h]
      have hn : (0 : Rat) < (e.uniq.length : Rat) := by exact_mod_cast Nat.pos_of_ne_zero hu
      have hv : uniqPairs e.uniq ≠ [] := by
        unfold uniqPairs; cases hq : e.uniq with
        | nil => exact absurd hq hne
        | cons _ _ => simp
      obtain ⟨u1, u2⟩ := uniques_as_values e.uniq (effCount e.counter.toRat (e.uniq.length : Rat)) mv hne
      obtain ⟨d1, d2⟩ := mvApplyValues_delta false (uniqPairs e.uniq) (effCount e.counter.toRat (e.uniq.length : Rat))
        (e.uniq.length : Rat) mv hmv (by linarith) hn hv
      exact ⟨u1.trans d1, u2.trans d2⟩
  · simp only [if_neg hu]
    by_cases hv : e.hist.length + e.values.length ≠ 0
    · simp only [if_pos hv]
      by_cases hc : effCount e.counter.toRat (histTotal e.values e.hist) ≤ 0
      · simp only [if_pos hc]
      · simp only [if_neg hc]
        by_cases ht : histTotal e.values e.hist ≤ 0
        · simp only [if_pos ht]
          intro mv _
          unfold valuesFn; split <;> simp [mvApplyValues, mvApplyValuesLegacy, ht]
        · simp only [if_neg ht]
          intro mv hmv
          exact valuesFn_delta lg pct _ _ _ mv hmv (by linarith) (by linarith) (valuePairs_ne_nil _ _ hv)
    · simp only [if_neg hv]
      by_cases hc : e.counter.toRat ≤ 0
      · simp only [if_pos hc]
      · simp only [if_neg hc]
        exact addCount_adds _ (by linarith)



theorem mvMerge_nonneg (s o : MV) (h : 0 ≤ s.cnt) : 0 ≤ (mvMerge s o).cnt := by
  unfold mvMerge; simp only; split <;> exact addCount_nonneg _ _ h

theorem mvApplyValues_nonneg (pct : Bool) (vals : List (Rat × Rat)) (count total : Rat) (mv : MV) (h : 0 ≤ mv.cnt) :
    0 ≤ (mvApplyValues pct vals count total mv).cnt := by
  unfold mvApplyValues
  split
  · exact h
  · simp only; split <;> exact mvMerge_nonneg _ _ h

theorem mvApplyUnique_nonneg (hashes : List Int) (count : Rat) (mv : MV) (h : 0 ≤ mv.cnt) :
    0 ≤ (mvApplyUnique hashes count mv).cnt := by
  unfold mvApplyUnique
  split
  · exact h
  · exact mvMerge_nonneg _ _ h

theorem valuesFn_nonneg (lg pct : Bool) (vals : List (Rat × Rat)) (count total : Rat) (mv : MV) (h : 0 ≤ mv.cnt) :
    0 ≤ (valuesFn lg pct vals count total mv).cnt := by
  unfold valuesFn
  split
  · unfold mvApplyValuesLegacy
    split
    · exact h
    · simp only; split <;> exact mvMerge_nonneg _ _ h
  · exact mvApplyValues_nonneg _ _ _ _ mv h

/-- every shard call keeps all counts non-negative -/
theorem runEffect_NN (cfg : Cfg) (s : Store × EvKey) (x : Effect) (h : NN s.1) : NN (runEffect cfg s x).1 := by
  cases x with
  | status sh m res tags str drop => exact addStatus_NN _ _ _ _ _ _ _ _ _ h
  | counter sh drop c =>
    simp only [runEffect]; split
    · exact h
    · exact shardApply_NN _ _ _ _ _ _ (fun mv hmv => addCount_nonneg _ mv hmv) h
  | values sh drop hist values c =>
    simp only [runEffect]; split
    · exact h
    · exact shardApply_NN _ _ _ _ _ _ (fun mv hmv => valuesFn_nonneg _ _ _ _ _ mv hmv) h
  | unique sh drop hashes c =>
    simp only [runEffect]; split
    · exact h
    · exact shardApply_NN _ _ _ _ _ _ (fun mv hmv => mvApplyUnique_nonneg _ _ mv hmv) h

theorem foldl_NN (cfg : Cfg) (effs : List Effect) (s : Store × EvKey) (h : NN s.1) : NN (effs.foldl (runEffect cfg) s).1 := by
  induction effs generalizing s with
  | nil => exact h
  | cons x xs ih => exact ih _ (runEffect_NN cfg s x h)

/-- **Counts never go negative**, whatever the events. -/
theorem applyEvent_NN (cfg : Cfg) (st : Store) (e : Event) (h : NN st) : NN (applyEvent cfg st e) := by
  unfold applyEvent; exact foldl_NN cfg _ _ h

/-- an effect that is a status record of one of the two built-in status metrics -/
def IsBuiltinStatus (x : Effect) : Prop :=
  ∃ sh m res tags str drop, x = .status sh m res tags str drop ∧ (m = statusMetricID ∨ m = noShardMetricID)

def UserAddr (a : Addr) : Prop := a.metric ≠ statusMetricID ∧ a.metric ≠ noShardMetricID

/-- status records leave every row of every other metric, and the event key, untouched -/
theorem foldl_status_get (cfg : Cfg) (effs : List Effect) (s : Store × EvKey) (a : Addr) (ha : UserAddr a)
    (h : ∀ x ∈ effs, IsBuiltinStatus x) :
    getMV (effs.foldl (runEffect cfg) s).1 a = getMV s.1 a ∧ (effs.foldl (runEffect cfg) s).2 = s.2 := by
  induction effs generalizing s with
  | nil => exact ⟨rfl, rfl⟩
  | cons x xs ih =>
    obtain ⟨sh, m, res, tags, str, drop, rfl, hm⟩ := h _ List.mem_cons_self
    simp only [List.foldl_cons]
    obtain ⟨i1, i2⟩ := ih (runEffect cfg s (.status sh m res tags str drop)) (fun y hy => h y (List.mem_cons_of_mem _ hy))
    refine ⟨?_, ?_⟩
    · rw [i1]; simp only [runEffect]
      apply addStatus_get_other
      rcases hm with rfl | rfl
      · exact ha.1
      · exact ha.2
    · rw [i2]; rfl

theorem foldl_status_key (cfg : Cfg) (effs : List Effect) (s : Store × EvKey) (h : ∀ x ∈ effs, IsBuiltinStatus x) :
    (effs.foldl (runEffect cfg) s).2 = s.2 := by
  induction effs generalizing s with
  | nil => rfl
  | cons x xs ih =>
    obtain ⟨sh, m, res, tags, str, drop, rfl, _⟩ := h _ List.mem_cons_self
    simp only [List.foldl_cons]
    rw [ih _ (fun y hy => h y (List.mem_cons_of_mem _ hy))]; rfl

theorem statusBoth_builtin (cfg : Cfg) (env m c k : Int) (s : Str) : ∀ x ∈ statusBoth cfg env m c k s, IsBuiltinStatus x := by
  intro x hx
  unfold statusBoth both at hx
  split at hx <;> simp at hx <;> rcases hx with rfl | rfl <;> exact ⟨_, _, _, _, _, _, rfl, Or.inl rfl⟩

theorem warnings_builtin (cfg : Cfg) (h : Hdr) (env m : Int) : ∀ x ∈ warnings cfg h env m, IsBuiltinStatus x := by
  intro x hx
  unfold warnings at hx
  simp only [List.mem_append] at hx
  rcases hx with (((hx | hx) | hx) | hx) | hx <;> split at hx <;> first | exact statusBoth_builtin _ _ _ _ _ _ x hx | cases hx

theorem rejectionRecords_builtin (cfg : Cfg) (e : Event) (env k : Int) (s : Str) :
    ∀ x ∈ rejectionRecords cfg e env k s, IsBuiltinStatus x := by
  intro x hx
  unfold rejectionRecords at hx
  split at hx
  · exact statusBoth_builtin _ _ _ _ _ _ x hx
  · simp at hx; subst hx; exact ⟨_, _, _, _, _, _, rfl, Or.inr rfl⟩

/-! #### the addresses an accepted event writes to -/

/-- `&h.Key` as ApplyMetric hands it to the first shard -/
def evKey (cfg : Cfg) (e : Event) : EvKey :=
  { metric := keyMetric cfg e, ts := eventTs cfg e, ktags := (header cfg.mapping e).ktags }

/-- row of the first shard: the event's tags without the string-top tag, string-top value selects Top entry / Tail -/
def addr1 (cfg : Cfg) (e : Event) : Addr := applyAddr cfg (evKey cfg e) (shard1 cfg)
/-- row of the second shard: computed from the key the first shard left behind -/
def addr2 (cfg : Cfg) (e : Event) (s2 : Nat) : Addr := applyAddr cfg (keyAfter cfg (evKey cfg e)) s2

/-- how many times (0, 1 or 2) the event's contribution is written to address `a` -/
def hits (cfg : Cfg) (e : Event) (a : Addr) : Rat :=
  (if a = addr1 cfg e then 1 else 0) +
  (match shard2 cfg with
    | some s2 => if ¬ applyDropped cfg (keyAfter cfg (evKey cfg e)) cfg.metric.shard2Ts ∧ a = addr2 cfg e s2 then 1 else 0
    | none => 0)

/-- (Δcount, Δsum) of the row at `a` caused by one event: nothing for a rejected event, `evDelta` for every shard
    copy of an accepted one -/
def rowDelta (cfg : Cfg) (e : Event) (a : Addr) : Rat × Rat :=
  if verdict cfg e ≠ 0 then (0, 0) else (hits cfg e a * (evDelta e).1, hits cfg e a * (evDelta e).2)

theorem not_dropped_zero (cfg : Cfg) (k : EvKey) : ¬ applyDropped cfg k 0 := by unfold applyDropped; omega

theorem both_cases (cfg : Cfg) (f : Nat → Nat → Effect) :
    (shard2 cfg = none ∧ both cfg f = [f (shard1 cfg) 0]) ∨
    (∃ s2, shard2 cfg = some s2 ∧ s2 ≠ shard1 cfg ∧ both cfg f = [f (shard1 cfg) 0, f s2 cfg.metric.shard2Ts]) := by
  rcases both_length cfg f with ⟨h1, h2⟩ | ⟨s2, h1, h2, h3⟩
  · exact Or.inl ⟨h2, h1⟩
  · exact Or.inr ⟨s2, h1, h2, h3⟩

theorem two_step (f : MV → MV) (dc ds : Rat) (hp : Adds f dc ds) (x0 : MV) (hx : 0 ≤ x0.cnt)
    (b1 b2 : Prop) [Decidable b1] [Decidable b2] (hex : ¬ (b1 ∧ b2)) :
    (if b2 then f (if b1 then f x0 else x0) else (if b1 then f x0 else x0)).cnt =
        x0.cnt + ((if b1 then 1 else 0) + (if b2 then 1 else 0)) * dc ∧
    (if b2 then f (if b1 then f x0 else x0) else (if b1 then f x0 else x0)).sum =
        x0.sum + ((if b1 then 1 else 0) + (if b2 then 1 else 0)) * ds := by
  obtain ⟨c, s⟩ := hp x0 hx
  by_cases h1 : b1
  · have h2 : ¬ b2 := fun h => hex ⟨h1, h⟩
    simp [h1, h2, c, s]
  · by_cases h2 : b2 <;> simp [h1, h2, c, s]

/-- the contribution part of ApplyMetric, read at a user address -/
theorem payload_get (cfg : Cfg) (e : Event) (st : Store) (a : Addr) (ha : UserAddr a) (hnn : NN st) :
    (getMV ((payload cfg e).foldl (runEffect cfg) (st, evKey cfg e)).1 a).cnt = (getMV st a).cnt + hits cfg e a * (evDelta e).1 ∧
    (getMV ((payload cfg e).foldl (runEffect cfg) (st, evKey cfg e)).1 a).sum = (getMV st a).sum + hits cfg e a * (evDelta e).2 := by
  rw [payload_eq]
  have hp := payFn_adds cfg.legacy cfg.metric.pct e
  unfold hits
  cases hf : payFn cfg.legacy cfg.metric.pct e with
  | none =>
    rw [hf] at hp
    have hid : ∀ s sh drop, runEffect cfg s (payEffect e sh drop) = s := by
      intro s sh drop; rw [runEffect_pay, hf]
    have hz : (evDelta e).1 = 0 ∧ (evDelta e).2 = 0 := by
      have : evDelta e = (0, 0) := hp
      rw [this]; exact ⟨rfl, rfl⟩
    rcases both_cases cfg (payEffect e) with ⟨_, hb⟩ | ⟨s2, _, _, hb⟩ <;>
      simp only [hb, List.foldl_cons, List.foldl_nil, hid, hz.1, hz.2, mul_zero, add_zero, and_self]
  | some f =>
    rw [hf] at hp
    have hp' : Adds f (evDelta e).1 (evDelta e).2 := hp
    have hrun : ∀ s sh drop, runEffect cfg s (payEffect e sh drop) = shardApply cfg s.1 s.2 sh drop f := by
      intro s sh drop; rw [runEffect_pay, hf]
    have g1 : getMV (shardApply cfg st (evKey cfg e) (shard1 cfg) 0 f).1 a =
        if a = addr1 cfg e then f (getMV st a) else getMV st a := by
      have := shardApply_get cfg st (evKey cfg e) (shard1 cfg) 0 f a ha.1
      simp only [not_dropped_zero, not_false_eq_true, true_and] at this
      exact this
    rcases both_cases cfg (payEffect e) with ⟨hs2, hb⟩ | ⟨s2, hs2, hne, hb⟩
    · simp only [hb, List.foldl_cons, List.foldl_nil, hrun, hs2]
      rw [g1]
      have := two_step f _ _ hp' (getMV st a) (hnn a) (a = addr1 cfg e) False (fun h => h.2)
      simpa using this
    · simp only [hb, List.foldl_cons, List.foldl_nil, hrun, hs2]
      have k1 : (shardApply cfg st (evKey cfg e) (shard1 cfg) 0 f).2 = keyAfter cfg (evKey cfg e) := shardApply_key _ _ _ _ _ _
      rw [k1]
      have g2 := shardApply_get cfg (shardApply cfg st (evKey cfg e) (shard1 cfg) 0 f).1 (keyAfter cfg (evKey cfg e)) s2
        cfg.metric.shard2Ts f a ha.1
      have g2' : getMV (shardApply cfg (shardApply cfg st (evKey cfg e) (shard1 cfg) 0 f).1 (keyAfter cfg (evKey cfg e)) s2
          cfg.metric.shard2Ts f).1 a =
          if ¬ applyDropped cfg (keyAfter cfg (evKey cfg e)) cfg.metric.shard2Ts ∧ a = addr2 cfg e s2
          then f (getMV (shardApply cfg st (evKey cfg e) (shard1 cfg) 0 f).1 a)
          else getMV (shardApply cfg st (evKey cfg e) (shard1 cfg) 0 f).1 a := g2
      rw [g2', g1]
      have hdiff : addr1 cfg e ≠ addr2 cfg e s2 := by
        intro h; apply hne
        have := congrArg Addr.shard h
        simpa [addr1, addr2, applyAddr] using this.symm
      exact two_step f _ _ hp' (getMV st a) (hnn a) (a = addr1 cfg e)
        (¬ applyDropped cfg (keyAfter cfg (evKey cfg e)) cfg.metric.shard2Ts ∧ a = addr2 cfg e s2)
        (fun h => hdiff (h.1.symm.trans h.2.2))



theorem userAddr_of (a : Addr) (ha : UserAddr a) : a.metric ≠ statusMetricID ∧ a.metric ≠ noShardMetricID := ha

/-- **One event, read through the store lookup.** For any store with non-negative counts, any event and any row address
    of a metric other than the two status metrics: the row's count and sum change by exactly `rowDelta` — nothing if the
    event is rejected; if it is accepted, `evDelta` (count = counter if present, else #values + Σ histogram weights /
    #uniques; sum = Σ v·w · count / total) at the event's row in the metric's shard, and once more at the copy in the
    second shard when one is configured and the timestamp is not before `ShardFixedKey2Timestamp`. Every other row
    of every user metric is untouched. -/
theorem applyEvent_row (cfg : Cfg) (st : Store) (e : Event) (a : Addr) (wf : WF e) (ha : UserAddr a) (hnn : NN st) :
    (getMV (applyEvent cfg st e) a).cnt = (getMV st a).cnt + (rowDelta cfg e a).1 ∧
    (getMV (applyEvent cfg st e) a).sum = (getMV st a).sum + (rowDelta cfg e a).2 := by
  unfold rowDelta
  by_cases hv : verdict cfg e = 0
  · simp only [hv, ne_eq, not_true_eq_false, if_false]
    obtain ⟨heff, _, _⟩ := accepted_effects cfg e wf hv
    have hz := (verdict_zero_iff cfg e wf).1 hv
    have hkm : keyMetric cfg e = cfg.metric.id := by simp [keyMetric, hz.2.1]
    unfold applyEvent
    simp only [heff, List.foldl_append]
    have hpre : ∀ x ∈ statusBoth cfg (ktGetI (header cfg.mapping e).ktags 0) cfg.metric.id stOKCached (header cfg.mapping e).statusTagKey "-" ++
        warnings cfg (header cfg.mapping e) (ktGetI (header cfg.mapping e).ktags 0) cfg.metric.id, IsBuiltinStatus x := by
      intro x hx
      rcases List.mem_append.1 hx with hx | hx
      · exact statusBoth_builtin _ _ _ _ _ _ x hx
      · exact warnings_builtin _ _ _ _ x hx
    rw [← List.foldl_append] at *
    simp only [List.foldl_append]
    set s0 : Store × EvKey := (st, { metric := keyMetric cfg e, ts := eventTs cfg e, ktags := (header cfg.mapping e).ktags }) with hs0
    set s1 := (statusBoth cfg (ktGetI (header cfg.mapping e).ktags 0) cfg.metric.id stOKCached (header cfg.mapping e).statusTagKey "-" ++
        warnings cfg (header cfg.mapping e) (ktGetI (header cfg.mapping e).ktags 0) cfg.metric.id).foldl (runEffect cfg) s0 with hs1
    have hg := foldl_status_get cfg _ s0 a ha hpre
    have hkey : s1.2 = evKey cfg e := by rw [hs1, hg.2]; rfl
    have hnn1 : NN s1.1 := foldl_NN cfg _ s0 hnn
    have hs1' : s1 = (s1.1, evKey cfg e) := by rw [← hkey]
    rw [List.foldl_append] at hs1
    rw [← hs1, hs1']
    obtain ⟨p1, p2⟩ := payload_get cfg e s1.1 a ha hnn1
    have hga : getMV s1.1 a = getMV st a := by
      have := (foldl_status_get cfg _ s0 a ha hpre).1
      rw [List.foldl_append] at this
      rw [hs1]; exact this
    rw [p1, p2, hga]
    exact ⟨rfl, rfl⟩
  · simp only [hv, ne_eq, not_false_eq_true, if_true, add_zero]
    obtain ⟨env, tagKey, str, he⟩ := rejected_effects cfg e hv
    unfold applyEvent
    simp only [he]
    have := (foldl_status_get cfg _ (st, { metric := keyMetric cfg e, ts := eventTs cfg e, ktags := (header cfg.mapping e).ktags }) a ha
      (rejectionRecords_builtin cfg e env tagKey str)).1
    rw [this]
    exact ⟨rfl, rfl⟩

theorem applyAll_cons (cfg : Cfg) (st : Store) (e : Event) (es : List Event) :
    applyAll cfg st (e :: es) = applyAll cfg (applyEvent cfg st e) es := rfl

theorem applyAll_NN (cfg : Cfg) (st : Store) (evs : List Event) (h : NN st) : NN (applyAll cfg st evs) := by
  induction evs generalizing st with
  | nil => exact h
  | cons e es ih => exact ih _ (applyEvent_NN cfg st e h)

/-- **Every event sequence, every row (exact arithmetic).** After feeding any list of events to any store with
    non-negative counts, the row of each (shard, metric, timestamp, tags, string-top) of a user metric has
    count = old count + Σ over the events of their `rowDelta` count, and sum = old sum + Σ of their `rowDelta` sum:
    only accepted events addressed to that row appear in the sums, each with count "counter if present, else
    #values + Σ weights" and sum "Σ v·w scaled by count/total". -/
theorem applyAll_row (cfg : Cfg) (st : Store) (evs : List Event) (a : Addr)
    (hwf : ∀ e ∈ evs, WF e) (ha : UserAddr a) (hnn : NN st) :
    (getMV (applyAll cfg st evs) a).cnt = (getMV st a).cnt + (evs.map (fun e => (rowDelta cfg e a).1)).sum ∧
    (getMV (applyAll cfg st evs) a).sum = (getMV st a).sum + (evs.map (fun e => (rowDelta cfg e a).2)).sum := by
  induction evs generalizing st with
  | nil => simp [applyAll]
  | cons e es ih =>
    rw [applyAll_cons]
    obtain ⟨i1, i2⟩ := ih (applyEvent cfg st e) (fun x hx => hwf x (List.mem_cons_of_mem _ hx)) (applyEvent_NN cfg st e hnn)
    obtain ⟨r1, r2⟩ := applyEvent_row cfg st e a (hwf e List.mem_cons_self) ha hnn
    rw [i1, i2, r1, r2]
    simp only [List.map_cons, List.sum_cons]
    constructor <;> ring

/-- from an empty agent: the row holds exactly the sums over the accepted events addressed to it -/
theorem applyAll_row_from_empty (cfg : Cfg) (evs : List Event) (a : Addr) (hwf : ∀ e ∈ evs, WF e) (ha : UserAddr a) :
    (getMV (applyAll cfg [] evs) a).cnt = (evs.map (fun e => (rowDelta cfg e a).1)).sum ∧
    (getMV (applyAll cfg [] evs) a).sum = (evs.map (fun e => (rowDelta cfg e a).2)).sum := by
  obtain ⟨h1, h2⟩ := applyAll_row cfg [] evs a hwf ha NN_nil
  rw [h1, h2]; simp [getMV]



/-! #### the second shard's copy lands in the Tail of the row without string top -/

theorem find_filter_none (l : KeyTags) (i : Nat) : (l.filter (fun p => p.1 != i)).find? (fun p => p.1 == i) = none := by
  rw [List.find?_eq_none]
  intro x hx
  have := (List.mem_filter.1 hx).2
  simpa using this

theorem keyAfter_noTop (cfg : Cfg) (k : EvKey) : (keyAfter cfg k).noTop = k.noTop := by
  unfold keyAfter EvKey.noTop; simp [List.filter_filter]

theorem keyAfter_top (cfg : Cfg) (k : EvKey) : (keyAfter cfg k).top = (0, "-") := by
  unfold keyAfter EvKey.top EvKey.noTop ktGetI ktGetS
  simp only [find_filter_none]

/-- **Second-shard copy.** The copy of an accepted event written to the metric's second shard goes to the *Tail* of the
    row keyed by the event's tags without the string-top tag — whatever the event's string-top value was — at the
    timestamp obtained by resolving the already resolved timestamp once more. (The first shard's call removed the
    string-top tag from the shared key.) -/
theorem addr2_eq (cfg : Cfg) (e : Event) (s2 : Nat) :
    addr2 cfg e s2 =
      ⟨s2, keyMetric cfg e,
       (resolveTs cfg.now cfg.metric.res (resolveTs cfg.now cfg.metric.res (eventTs cfg e)).1).1,
       (evKey cfg e).noTop, (0, "-")⟩ := by
  unfold addr2 applyAddr
  rw [keyAfter_noTop, keyAfter_top]
  rfl

theorem addr1_eq (cfg : Cfg) (e : Event) :
    addr1 cfg e =
      ⟨shard1 cfg, keyMetric cfg e, (resolveTs cfg.now cfg.metric.res (eventTs cfg e)).1, (evKey cfg e).noTop, normTop (evKey cfg e).top⟩ := rfl

/-! #### status records at store level -/

/-- 1 if the status record `x` is written (not dropped) to address `a`, else 0 -/
def statusHit (cfg : Cfg) (a : Addr) : Effect → Rat
  | .status sh m res tags str drop =>
    if ¬ ((resolveTs cfg.now res 0).1 < drop) ∧ a = statusAddr cfg sh m res 0 tags str then 1 else 0
  | _ => 0

theorem addCount_one_cnt (mv : MV) (h : 0 ≤ mv.cnt) : (addCount 1 mv).cnt = mv.cnt + 1 :=
  addCount_cnt 1 mv (by norm_num) h

/-- a run of status records: every readable count grows by exactly the number of records written to it -/
theorem foldl_status_cnt (cfg : Cfg) (effs : List Effect) (s : Store × EvKey) (a : Addr) (hnn : NN s.1)
    (h : ∀ x ∈ effs, x.isStatus = true) :
    (getMV (effs.foldl (runEffect cfg) s).1 a).cnt = (getMV s.1 a).cnt + (effs.map (statusHit cfg a)).sum := by
  induction effs generalizing s with
  | nil => simp
  | cons x xs ih =>
    simp only [List.foldl_cons, List.map_cons, List.sum_cons]
    rw [ih _ (runEffect_NN cfg s x hnn) (fun y hy => h y (List.mem_cons_of_mem _ hy))]
    have hx := h x List.mem_cons_self
    cases x with
    | status sh m res tags str drop =>
      simp only [runEffect, statusHit]
      rw [addStatus_get]
      by_cases hc : ¬ ((resolveTs cfg.now res 0).1 < drop) ∧ a = statusAddr cfg sh m res 0 tags str
      · simp only [hc, and_self, not_false_eq_true, if_true]
        rw [addCount_one_cnt _ (hnn _)]; ring
      · simp only [hc, if_false]; ring
    | counter => simp [Effect.isStatus] at hx
    | values => simp [Effect.isStatus] at hx
    | unique => simp [Effect.isStatus] at hx

/-- **Rejected events at store level: exactly one status record, in the right shard(s).** For any store with
    non-negative counts and every address `a`: after ApplyMetric of a rejected event the count read at `a` has grown by
    the number of rejection records written to `a` — the records being the single record with the verdict as status in
    the metric's shard (shard 0 of the no-shard metric when the metric is unknown or cannot be sharded) and its copy in a
    configured second shard. In particular the sum over all addresses grows by 1 (or 2 with a second shard). -/
theorem rejected_status_store (cfg : Cfg) (st : Store) (e : Event) (hnn : NN st) (hv : verdict cfg e ≠ 0) :
    ∃ env tagKey str, ∀ a : Addr,
      (getMV (applyEvent cfg st e) a).cnt =
        (getMV st a).cnt + ((rejectionRecords cfg e env tagKey str).map (statusHit cfg a)).sum := by
  obtain ⟨env, tagKey, str, he⟩ := rejected_effects cfg e hv
  refine ⟨env, tagKey, str, fun a => ?_⟩
  unfold applyEvent
  simp only [he]
  apply foldl_status_cnt _ _ _ _ hnn
  intro x hx
  obtain ⟨_, _, _, _, _, _, rfl, _⟩ := rejectionRecords_builtin cfg e env tagKey str x hx
  rfl

/-- the primary rejection record is never dropped and carries the verdict: its row grows by exactly 1 when no second
    shard is configured -/
theorem rejected_primary_record (cfg : Cfg) (st : Store) (e : Event) (hnn : NN st) (hv : verdict cfg e ≠ 0)
    (h2 : shard2 cfg = none) :
    ∃ p : Addr, (p.metric = statusMetricID ∨ p.metric = noShardMetricID) ∧ ktGetI p.ktags 2 = verdict cfg e ∧
      (getMV (applyEvent cfg st e) p).cnt = (getMV st p).cnt + 1 ∧
      ∀ a : Addr, a ≠ p → (getMV (applyEvent cfg st e) a).cnt = (getMV st a).cnt := by
  obtain ⟨env, tagKey, str, hall⟩ := rejected_status_store cfg st e hnn hv
  have hcode : ∀ (a b c d : Int) (l : List Int), c ≠ 0 → ktGetI (tagsOfList 0 (a :: b :: c :: d :: l)) 2 = c := by
    intro a b c d l hc
    by_cases ha : a = 0 <;> by_cases hb : b = 0 <;> simp [tagsOfList, ktGetI, ha, hb, hc]
  unfold rejectionRecords at hall
  by_cases hc : e.hasMeta = true ∧ shardOk cfg = true
  · simp only [hc, and_self, if_true, statusBoth, both, h2] at hall
    refine ⟨statusAddr cfg (shard1 cfg) statusMetricID statusMetricRes 0 (stTags env (keyMetric cfg e) (verdict cfg e) tagKey) str,
      Or.inl rfl, ?_, ?_, ?_⟩
    · exact hcode _ _ _ _ _ hv
    · rw [hall]; simp [statusHit]
    · intro a ha; rw [hall]; simp [statusHit, ha]
  · simp only [hc, if_false] at hall
    refine ⟨statusAddr cfg 0 noShardMetricID noShardMetricRes 0 [env, keyMetric cfg e, verdict cfg e, tagKey] str,
      Or.inr rfl, ?_, ?_, ?_⟩
    · exact hcode _ _ _ _ _ hv
    · rw [hall]; simp [statusHit]
    · intro a ha; rw [hall]; simp [statusHit, ha]



theorem ktGetI_tagsOfList (l : List Int) (i j : Nat) :
    ktGetI (tagsOfList i l) j = if i ≤ j then l.getD (j - i) 0 else 0 := by
  induction l generalizing i with
  | nil => simp [tagsOfList, ktGetI]
  | cons v r ih =>
    unfold tagsOfList
    by_cases hv : v = 0
    · simp only [hv, beq_self_eq_true, if_true]
      rw [ih (i + 1)]
      by_cases h1 : i + 1 ≤ j
      · have : i ≤ j := by omega
        have e : j - i = (j - (i + 1)) + 1 := by omega
        simp [h1, this, e]
      · by_cases h2 : i ≤ j
        · have : j = i := by omega
          subst this; simp
        · simp [h1, h2]
    · have hv' : (v == 0) = false := by simpa using hv
      simp only [hv', Bool.false_eq_true, if_false]
      unfold ktGetI
      by_cases hij : i = j
      · subst hij; simp
      · have hb : (i == j) = false := by simpa using hij
        simp only [List.find?, hb]
        have := ih (i + 1)
        unfold ktGetI at this
        rw [this]
        by_cases h1 : i + 1 ≤ j
        · have : i ≤ j := by omega
          have e : j - i = (j - (i + 1)) + 1 := by omega
          simp [h1, this, e]
        · have : ¬ i ≤ j := by omega
          simp [h1, this]

/-- status tag (tag 2) of the row at an address -/
def codeOf (a : Addr) : Int := ktGetI a.ktags 2

/-- a status record can only hit an address of its own shard, metric and status code -/
theorem statusHit_ne_zero (cfg : Cfg) (a : Addr) (x : Effect) (h : statusHit cfg a x ≠ 0) :
    x.isStatus = true ∧ codeOf a = x.code ∧ a.shard = x.shard := by
  cases x with
  | status sh m res tags str drop =>
    simp only [statusHit] at h
    split at h
    · rename_i hc
      refine ⟨rfl, ?_, ?_⟩
      · rw [hc.2]; simp [codeOf, statusAddr, ktGetI_tagsOfList, Effect.code]
      · rw [hc.2]; rfl
    · exact absurd rfl h
  | counter => exact absurd rfl h
  | values => exact absurd rfl h
  | unique => exact absurd rfl h

/-- Shard.Apply* of a user-metric key never touches a status row, except the clamped-future warning -/
theorem shardApply_get_status (cfg : Cfg) (st : Store) (k : EvKey) (sh drop : Nat) (f : MV → MV) (a : Addr)
    (hm : a.metric ≠ k.metric) (hc : codeOf a ≠ stWarnTimestampClampedFuture) :
    getMV (shardApply cfg st k sh drop f).1 a = getMV st a := by
  unfold shardApply
  simp only
  split
  · rfl
  · have hne : a ≠ ⟨sh, k.metric, (resolveTs cfg.now cfg.metric.res k.ts).1, k.noTop, normTop k.top⟩ := by
      intro h; apply hm; rw [h]
    split
    · rw [addStatus_get]
      have : a ≠ statusAddr cfg sh statusMetricID statusMetricRes (resolveTs cfg.now cfg.metric.res k.ts).1
          (clampedTags { k with ts := (resolveTs cfg.now cfg.metric.res k.ts).1, ktags := k.noTop }) "-" := by
        intro h; apply hc; rw [h]; simp [codeOf, statusAddr, clampedTags, ktGetI_tagsOfList]
      simp only [this, and_false, if_false]
      exact getMV_storeUpd_other _ _ _ _ _ _ _ _ hne
    · exact getMV_storeUpd_other _ _ _ _ _ _ _ _ hne

theorem payload_get_status (cfg : Cfg) (e : Event) (s : Store × EvKey) (a : Addr)
    (hm : a.metric ≠ s.2.metric) (hc : codeOf a ≠ stWarnTimestampClampedFuture) :
    getMV ((payload cfg e).foldl (runEffect cfg) s).1 a = getMV s.1 a := by
  rw [payload_eq]
  have step : ∀ (s : Store × EvKey) sh drop, a.metric ≠ s.2.metric →
      getMV (runEffect cfg s (payEffect e sh drop)).1 a = getMV s.1 a ∧ (runEffect cfg s (payEffect e sh drop)).2.metric = s.2.metric := by
    intro s sh drop hm
    rw [runEffect_pay]
    cases payFn cfg.legacy cfg.metric.pct e with
    | none => exact ⟨rfl, rfl⟩
    | some f => exact ⟨shardApply_get_status _ _ _ _ _ _ _ hm hc, by rw [shardApply_key]; rfl⟩
  rcases both_cases cfg (payEffect e) with ⟨_, hb⟩ | ⟨s2, _, _, hb⟩
  · simp only [hb, List.foldl_cons, List.foldl_nil]; exact (step s _ _ hm).1
  · simp only [hb, List.foldl_cons, List.foldl_nil]
    obtain ⟨g1, k1⟩ := step s (shard1 cfg) 0 hm
    rw [(step _ s2 cfg.metric.shard2Ts (by rw [k1]; exact hm)).1, g1]

/-- **Accepted events at store level, status rows.** For a store with non-negative counts, an accepted event of a
    user metric and any address `a` of a status metric whose status tag is not "clamped future": the count read at `a`
    grows by the number of ok/warning records written to `a`. -/
theorem accepted_status_store (cfg : Cfg) (st : Store) (e : Event) (a : Addr) (wf : WF e) (hu : UserMetric cfg) (hnn : NN st)
    (hv : verdict cfg e = 0) (ha : a.metric = statusMetricID ∨ a.metric = noShardMetricID)
    (hc : codeOf a ≠ stWarnTimestampClampedFuture) :
    let h := header cfg.mapping e
    let env := ktGetI h.ktags 0
    (getMV (applyEvent cfg st e) a).cnt = (getMV st a).cnt +
      ((statusBoth cfg env cfg.metric.id stOKCached h.statusTagKey "-" ++ warnings cfg h env cfg.metric.id).map (statusHit cfg a)).sum := by
  intro h env
  obtain ⟨heff, hw, _⟩ := accepted_effects cfg e wf hv
  have hz := (verdict_zero_iff cfg e wf).1 hv
  have hkm : keyMetric cfg e = cfg.metric.id := by simp [keyMetric, hz.2.1]
  unfold applyEvent
  simp only []
  rw [heff, List.foldl_append]
  have hpre : ∀ x ∈ statusBoth cfg env cfg.metric.id stOKCached h.statusTagKey "-" ++ warnings cfg h env cfg.metric.id,
      IsBuiltinStatus x := by
    intro x hx
    rcases List.mem_append.1 hx with hx | hx
    · exact statusBoth_builtin _ _ _ _ _ _ x hx
    · exact warnings_builtin _ _ _ _ x hx
  have hst : ∀ x ∈ statusBoth cfg env cfg.metric.id stOKCached h.statusTagKey "-" ++ warnings cfg h env cfg.metric.id,
      x.isStatus = true := by
    intro x hx; obtain ⟨_, _, _, _, _, _, rfl, _⟩ := hpre x hx; rfl
  set s0 : Store × EvKey := (st, { metric := keyMetric cfg e, ts := eventTs cfg e, ktags := (header cfg.mapping e).ktags })
  have hkey := foldl_status_key cfg _ s0 hpre
  rw [payload_get_status cfg e _ a (by
      rw [hkey]; show a.metric ≠ keyMetric cfg e
      rw [hkm]; rcases ha with ha | ha <;> rw [ha] <;> [exact hu.1.symm; exact hu.2.symm]) hc]
  exact foldl_status_cnt cfg _ s0 a hnn hst



theorem sum_map_zero {α : Type} (l : List α) (f : α → Rat) (h : ∀ x ∈ l, f x = 0) : (l.map f).sum = 0 := by
  induction l with
  | nil => rfl
  | cons x xs ih =>
    simp only [List.map_cons, List.sum_cons, h x List.mem_cons_self, zero_add]
    exact ih (fun y hy => h y (List.mem_cons_of_mem _ hy))

/-- **No error status for an accepted event.** Any status row whose status tag is neither "ok", a warning nor
    "clamped future" reads exactly the same count after an accepted event. -/
theorem accepted_no_error_status (cfg : Cfg) (st : Store) (e : Event) (a : Addr) (wf : WF e) (hu : UserMetric cfg) (hnn : NN st)
    (hv : verdict cfg e = 0) (ha : a.metric = statusMetricID ∨ a.metric = noShardMetricID)
    (hc : codeOf a ≠ stWarnTimestampClampedFuture) (hok : codeOf a ≠ stOKCached) (hw : isWarnCode (codeOf a) = false) :
    (getMV (applyEvent cfg st e) a).cnt = (getMV st a).cnt := by
  rw [accepted_status_store cfg st e a wf hu hnn hv ha hc]
  rw [sum_map_zero]
  · ring
  · intro x hx
    by_contra hne
    obtain ⟨_, hcode, _⟩ := statusHit_ne_zero cfg a x hne
    rcases List.mem_append.1 hx with hx | hx
    · exact hok (hcode.trans (statusBoth_all _ _ _ _ _ _ x hx).2)
    · have := (warnings_all _ _ _ _ x hx).2
      rw [← hcode, hw] at this; cases this

/-- where the ok record of an accepted event lands in the metric's shard -/
def okAddr (cfg : Cfg) (e : Event) : Addr :=
  statusAddr cfg (shard1 cfg) statusMetricID statusMetricRes 0
    (stTags (ktGetI (header cfg.mapping e).ktags 0) cfg.metric.id stOKCached (header cfg.mapping e).statusTagKey) "-"

/-- **Exactly one ok record per accepted event** in the metric's shard: the ok row (status metric, tags
    [env, metric, ok, tag key, agent]) grows by exactly 1 — neither warnings nor the second-shard copy nor the
    contribution touch it. -/
theorem accepted_ok_record (cfg : Cfg) (st : Store) (e : Event) (wf : WF e) (hu : UserMetric cfg) (hnn : NN st)
    (hv : verdict cfg e = 0) :
    (getMV (applyEvent cfg st e) (okAddr cfg e)).cnt = (getMV st (okAddr cfg e)).cnt + 1 := by
  have hcode : codeOf (okAddr cfg e) = stOKCached := by
    simp [codeOf, okAddr, statusAddr, stTags, ktGetI_tagsOfList]
  rw [accepted_status_store cfg st e (okAddr cfg e) wf hu hnn hv (Or.inl rfl) (by rw [hcode]; decide)]
  simp only [List.map_append, List.sum_append]
  have hwz : ((warnings cfg (header cfg.mapping e) (ktGetI (header cfg.mapping e).ktags 0) cfg.metric.id).map
      (statusHit cfg (okAddr cfg e))).sum = 0 := by
    apply sum_map_zero
    intro x hx
    by_contra hne
    obtain ⟨_, hc, _⟩ := statusHit_ne_zero cfg _ x hne
    have := (warnings_all _ _ _ _ x hx).2
    rw [← hc, hcode] at this
    exact absurd this (by decide)
  rw [hwz]
  have h1 : statusHit cfg (okAddr cfg e) (Effect.status (shard1 cfg) statusMetricID statusMetricRes
      (stTags (ktGetI (header cfg.mapping e).ktags 0) cfg.metric.id stOKCached (header cfg.mapping e).statusTagKey) "-" 0) = 1 := by
    simp [statusHit, okAddr]
  unfold statusBoth
  rcases both_cases cfg (fun sh drop => Effect.status sh statusMetricID statusMetricRes
      (stTags (ktGetI (header cfg.mapping e).ktags 0) cfg.metric.id stOKCached (header cfg.mapping e).statusTagKey) "-" drop)
    with ⟨_, hb⟩ | ⟨s2, _, hne, hb⟩
  · rw [hb]; simp only [List.map_cons, List.map_nil, List.sum_cons, List.sum_nil, h1]; ring
  · rw [hb]; simp only [List.map_cons, List.map_nil, List.sum_cons, List.sum_nil, h1]
    have h2 : statusHit cfg (okAddr cfg e) (Effect.status s2 statusMetricID statusMetricRes
        (stTags (ktGetI (header cfg.mapping e).ktags 0) cfg.metric.id stOKCached (header cfg.mapping e).statusTagKey) "-"
        cfg.metric.shard2Ts) = 0 := by
      by_contra hx
      obtain ⟨_, _, hs⟩ := statusHit_ne_zero cfg _ _ hx
      exact hne (by simpa [okAddr, statusAddr, Effect.shard] using hs.symm)
    rw [h2]; ring



/-! #### all event sequences: error-status rows count the rejected events, once each -/

/-- number of rejection records of event `e` written to address `a` (0 for an accepted event) -/
def errHits (cfg : Cfg) (e : Event) (a : Addr) : Rat :=
  if verdict cfg e = 0 then 0 else ((effects cfg e (header cfg.mapping e)).map (statusHit cfg a)).sum

/-- an address of a status row that carries an error status (not ok, not a warning, not clamped-future) -/
def ErrAddr (a : Addr) : Prop :=
  (a.metric = statusMetricID ∨ a.metric = noShardMetricID) ∧ codeOf a ≠ stWarnTimestampClampedFuture ∧
  codeOf a ≠ stOKCached ∧ isWarnCode (codeOf a) = false

theorem applyEvent_error_status (cfg : Cfg) (st : Store) (e : Event) (a : Addr) (wf : WF e) (hu : UserMetric cfg) (hnn : NN st)
    (ha : ErrAddr a) : (getMV (applyEvent cfg st e) a).cnt = (getMV st a).cnt + errHits cfg e a := by
  unfold errHits
  by_cases hv : verdict cfg e = 0
  · simp only [hv, if_true, add_zero]
    exact accepted_no_error_status cfg st e a wf hu hnn hv ha.1 ha.2.1 ha.2.2.1 ha.2.2.2
  · simp only [hv, if_false]
    unfold applyEvent
    exact foldl_status_cnt cfg _ _ a hnn (fun x hx => ((rejected_record_count cfg e hv).1 x hx).1)

/-- **Every event sequence accounts for every rejected event exactly once.** After any list of events on any store
    with non-negative counts, every error-status row reads: old count + the number of rejection records addressed to
    it — one per rejected event in the metric's shard (plus the copy for a configured second shard), none for accepted
    events. -/
theorem applyAll_error_status (cfg : Cfg) (st : Store) (evs : List Event) (a : Addr)
    (hwf : ∀ e ∈ evs, WF e) (hu : UserMetric cfg) (hnn : NN st) (ha : ErrAddr a) :
    (getMV (applyAll cfg st evs) a).cnt = (getMV st a).cnt + (evs.map (fun e => errHits cfg e a)).sum := by
  induction evs generalizing st with
  | nil => simp [applyAll]
  | cons e es ih =>
    rw [applyAll_cons, ih _ (fun x hx => hwf x (List.mem_cons_of_mem _ hx)) (applyEvent_NN cfg st e hnn),
      applyEvent_error_status cfg st e a (hwf e List.mem_cons_self) hu hnn ha]
    simp only [List.map_cons, List.sum_cons]; ring

/-! #### the boundary of "the event is not empty": histogram entries whose weights are all zero -/

/-- a histogram-only event (no values, no uniques) whose weights are all exactly 0 -/
def ZeroWeightHist (e : Event) : Prop :=
  e.values = [] ∧ e.uniq = [] ∧ e.hist ≠ [] ∧ ∀ p ∈ e.hist, InRange p.1 ∧ p.2 = .fin 0

theorem zeroWeight_total (e : Event) (h : ZeroWeightHist e) : histTotal e.values e.hist = 0 := by
  rw [histTotal_eq, h.1]
  have : (e.hist.map (fun p => p.2.toRat)).sum = 0 := by
    have hz : ∀ p ∈ e.hist, p.2.toRat = 0 := fun p hp => by rw [(h.2.2.2 p hp).2]; rfl
    generalize e.hist = l at hz
    induction l with
    | nil => rfl
    | cons p ps ih =>
      simp only [List.map_cons, List.sum_cons, hz p List.mem_cons_self, zero_add]
      exact ih (fun q hq => hz q (List.mem_cons_of_mem _ hq))
  simp [this]

theorem zeroWeight_accepted (cfg : Cfg) (e : Event) (wf : WF e) (h : ZeroWeightHist e)
    (hp : e.pre = 0) (hm : e.hasMeta = true) (hs : shardOk cfg = true) (ht : ∀ t ∈ e.tags, TagValid t)
    (hc : ValidCount e.counter) : verdict cfg e = 0 := by
  rw [verdict_zero_iff cfg e wf]
  refine ⟨hp, hm, hs, ht, ?_, ?_, hc, ?_, ?_⟩
  · simp [bothSet, h.2.1]
  · have : e.hist.length ≠ 0 := by intro hl; exact h.2.2.1 (List.length_eq_zero_iff.1 hl)
    simp [isEmptyEvent, this]
  · rw [h.1]; intro v hv; cases hv
  · intro p hp'
    refine ⟨(h.2.2.2 p hp').1, ?_⟩
    rw [(h.2.2.2 p hp').2]
    exact ⟨0, rfl, le_refl _, le_of_lt maxF_pos⟩

theorem zeroWeight_hist_len (e : Event) (h : ZeroWeightHist e) : e.hist.length + e.values.length ≠ 0 := by
  intro hl
  have : e.hist.length = 0 := by omega
  exact h.2.2.1 (List.length_eq_zero_iff.1 this)

/-- **Zero-weight histogram, absent counter: accepted, but contributes nothing.** The event passes validation (it is
    not "empty": it has histogram entries) and gets an ok status, yet its effective count is 0, the shard returns
    before touching anything and no row of any user metric is created or changed. -/
theorem zeroWeight_counter_absent (cfg : Cfg) (st : Store) (e : Event) (wf : WF e) (h : ZeroWeightHist e)
    (hp : e.pre = 0) (hm : e.hasMeta = true) (hs : shardOk cfg = true) (ht : ∀ t ∈ e.tags, TagValid t)
    (hc : e.counter = .fin 0) :
    verdict cfg e = 0 ∧ payFn cfg.legacy cfg.metric.pct e = none ∧ (applyEvent cfg st e).filter keep = st.filter keep := by
  have hv : verdict cfg e = 0 :=
    zeroWeight_accepted cfg e wf h hp hm hs ht (by rw [hc]; exact ⟨0, rfl, le_refl _, le_of_lt maxF_pos⟩)
  have hu : e.uniq.length = 0 := by rw [h.2.1]; rfl
  have hpf : payFn cfg.legacy cfg.metric.pct e = none := by
    unfold payFn
    simp only [hu, ne_eq, not_true_eq_false, if_false, zeroWeight_hist_len e h, not_false_eq_true, if_true,
      zeroWeight_total e h, hc, XR.toRat, effCount, le_refl]
  refine ⟨hv, hpf, ?_⟩
  obtain ⟨heff, _, _⟩ := accepted_effects cfg e wf hv
  unfold applyEvent
  simp only []
  rw [heff, List.foldl_append, payload_eq]
  have hid : ∀ s sh drop, runEffect cfg s (payEffect e sh drop) = s := by
    intro s sh drop; rw [runEffect_pay, hpf]
  have hpay : ∀ s, (both cfg (payEffect e)).foldl (runEffect cfg) s = s := by
    intro s
    rcases both_cases cfg (payEffect e) with ⟨_, hb⟩ | ⟨s2, _, _, hb⟩ <;> simp [hb, hid]
  rw [hpay]
  apply foldl_status_keep
  intro x hx
  rcases List.mem_append.1 hx with hx | hx
  · exact statusBoth_builtin _ _ _ _ _ _ x hx
  · exact warnings_builtin _ _ _ _ x hx

/-- some item of metric `m` exists -/
def HasMetric (st : Store) (m : Int) : Prop := ∃ it ∈ st, it.metric = m

theorem storeUpd_has (sh : Nat) (m : Int) (ts : Nat) (kt : KeyTags) (t : Int × Str) (f : MV → MV) (st : Store) :
    HasMetric (storeUpd sh m ts kt t f st) m := by
  induction st with
  | nil => exact ⟨_, List.mem_singleton.2 rfl, upd_metric _ _ _⟩
  | cons it r ih =>
    unfold storeUpd
    by_cases hsk : it.sameKey sh m ts kt = true
    · simp only [hsk, if_true]
      exact ⟨_, List.mem_cons_self, (upd_metric it t f).trans ((sameKey_iff _ _ _ _ _).1 hsk).2.1⟩
    · simp only [hsk]
      obtain ⟨x, hx, hxm⟩ := ih
      exact ⟨x, List.mem_cons_of_mem _ hx, hxm⟩

theorem storeUpd_keeps (sh : Nat) (m : Int) (ts : Nat) (kt : KeyTags) (t : Int × Str) (f : MV → MV) (st : Store) (m' : Int)
    (h : HasMetric st m') : HasMetric (storeUpd sh m ts kt t f st) m' := by
  obtain ⟨x, hx, hxm⟩ := h
  induction st with
  | nil => cases hx
  | cons it r ih =>
    unfold storeUpd
    by_cases hsk : it.sameKey sh m ts kt = true
    · simp only [hsk, if_true]
      rcases List.mem_cons.1 hx with rfl | hx
      · exact ⟨_, List.mem_cons_self, (upd_metric _ t f).trans hxm⟩
      · exact ⟨x, List.mem_cons_of_mem _ hx, hxm⟩
    · simp only [hsk]
      rcases List.mem_cons.1 hx with rfl | hx
      · exact ⟨_, List.mem_cons_self, hxm⟩
      · obtain ⟨y, hy, hym⟩ := ih hx
        exact ⟨y, List.mem_cons_of_mem _ hy, hym⟩

theorem addStatus_keeps (cfg : Cfg) (st : Store) (sh : Nat) (m : Int) (res t : Nat) (tags : List Int) (str : Str) (drop : Nat) (m' : Int)
    (h : HasMetric st m') : HasMetric (addStatus cfg st sh m res t tags str drop) m' := by
  unfold addStatus; simp only; split
  · exact h
  · exact storeUpd_keeps _ _ _ _ _ _ _ _ h

theorem shardApply_keeps (cfg : Cfg) (st : Store) (k : EvKey) (sh drop : Nat) (f : MV → MV) (m' : Int)
    (h : HasMetric st m') : HasMetric (shardApply cfg st k sh drop f).1 m' := by
  unfold shardApply; simp only; split
  · exact h
  · split
    · exact addStatus_keeps _ _ _ _ _ _ _ _ _ _ (storeUpd_keeps _ _ _ _ _ _ _ _ h)
    · exact storeUpd_keeps _ _ _ _ _ _ _ _ h

theorem shardApply_has (cfg : Cfg) (st : Store) (k : EvKey) (sh : Nat) (f : MV → MV) :
    HasMetric (shardApply cfg st k sh 0 f).1 k.metric := by
  unfold shardApply; simp only
  have : ¬ (resolveTs cfg.now cfg.metric.res k.ts).1 < 0 := by omega
  simp only [this, if_false]
  split
  · exact addStatus_keeps _ _ _ _ _ _ _ _ _ _ (storeUpd_has _ _ _ _ _ _ _)
  · exact storeUpd_has _ _ _ _ _ _ _

/-- **Zero-weight histogram, counter present: accepted, and an *empty row* is created.** With a counter c > 0 the
    effective count is c, so the shard creates the row, but MultiValue.ApplyValues returns at `totalCount <= 0`:
    from an empty agent the metric gets a row, and every row of it reads count 0 and sum 0. -/
theorem zeroWeight_counter_present (cfg : Cfg) (e : Event) (wf : WF e) (h : ZeroWeightHist e)
    (hp : e.pre = 0) (hm : e.hasMeta = true) (hs : shardOk cfg = true) (ht : ∀ t ∈ e.tags, TagValid t)
    (c : Rat) (hc : e.counter = .fin c) (hpos : 0 < c) (hmax : c ≤ maxF) :
    verdict cfg e = 0 ∧ HasMetric (applyEvent cfg [] e) cfg.metric.id ∧
    ∀ a : Addr, UserAddr a → (getMV (applyEvent cfg [] e) a).cnt = 0 ∧ (getMV (applyEvent cfg [] e) a).sum = 0 := by
  have hv : verdict cfg e = 0 :=
    zeroWeight_accepted cfg e wf h hp hm hs ht (by rw [hc]; exact ⟨c, rfl, le_of_lt hpos, hmax⟩)
  have hu : e.uniq.length = 0 := by rw [h.2.1]; rfl
  have hcne : ¬ c = 0 := ne_of_gt hpos
  have hcle : ¬ c ≤ 0 := by linarith
  have hd : evDelta e = (0, 0) := by
    unfold evDelta
    simp only [hu, ne_eq, not_true_eq_false, if_false, zeroWeight_hist_len e h, not_false_eq_true, if_true,
      zeroWeight_total e h, hc, XR.toRat, effCount, hcne, hcle, le_refl]
  refine ⟨hv, ?_, ?_⟩
  · have hpf : payFn cfg.legacy cfg.metric.pct e = some (valuesFn cfg.legacy cfg.metric.pct (valuePairs e.values e.hist) c 0) := by
      unfold payFn
      simp only [hu, ne_eq, not_true_eq_false, if_false, zeroWeight_hist_len e h, not_false_eq_true, if_true,
        zeroWeight_total e h, hc, XR.toRat, effCount, hcne, hcle]
    obtain ⟨heff, _, _⟩ := accepted_effects cfg e wf hv
    have hkm : keyMetric cfg e = cfg.metric.id := by simp [keyMetric, hm]
    unfold applyEvent
    simp only []
    rw [heff, List.foldl_append, payload_eq]
    have hrun : ∀ s sh drop, runEffect cfg s (payEffect e sh drop) = shardApply cfg s.1 s.2 sh drop
        (valuesFn cfg.legacy cfg.metric.pct (valuePairs e.values e.hist) c 0) := by
      intro s sh drop; rw [runEffect_pay, hpf]
    have hpre : ∀ x ∈ statusBoth cfg (ktGetI (header cfg.mapping e).ktags 0) cfg.metric.id stOKCached (header cfg.mapping e).statusTagKey "-" ++
        warnings cfg (header cfg.mapping e) (ktGetI (header cfg.mapping e).ktags 0) cfg.metric.id, IsBuiltinStatus x := by
      intro x hx
      rcases List.mem_append.1 hx with hx | hx
      · exact statusBoth_builtin _ _ _ _ _ _ x hx
      · exact warnings_builtin _ _ _ _ x hx
    generalize hs1 : (statusBoth cfg (ktGetI (header cfg.mapping e).ktags 0) cfg.metric.id stOKCached (header cfg.mapping e).statusTagKey "-" ++
        warnings cfg (header cfg.mapping e) (ktGetI (header cfg.mapping e).ktags 0) cfg.metric.id).foldl (runEffect cfg)
        (([] : Store), ({ metric := keyMetric cfg e, ts := eventTs cfg e, ktags := (header cfg.mapping e).ktags } : EvKey)) = s1
    have hkey : s1.2.metric = cfg.metric.id := by
      rw [← hs1, foldl_status_key cfg _ _ hpre]; exact hkm
    have hfirst : HasMetric (shardApply cfg s1.1 s1.2 (shard1 cfg) 0
        (valuesFn cfg.legacy cfg.metric.pct (valuePairs e.values e.hist) c 0)).1 cfg.metric.id := by
      rw [← hkey]; exact shardApply_has cfg s1.1 s1.2 (shard1 cfg) _
    rcases both_cases cfg (payEffect e) with ⟨_, hb⟩ | ⟨s2, _, _, hb⟩
    · simp only [hb, List.foldl_cons, List.foldl_nil, hrun]
      exact hfirst
    · simp only [hb, List.foldl_cons, List.foldl_nil, hrun]
      exact shardApply_keeps _ _ _ _ _ _ _ hfirst
  · intro a ha
    obtain ⟨r1, r2⟩ := applyEvent_row cfg [] e a wf ha NN_nil
    rw [r1, r2]
    simp [rowDelta, hv, hd, getMV]



/-! #### all sharding strategies (tags hash included): the sequence theorems for `applyEventH` -/

def applyAllH (cfg : Cfg) (st : Store) (evs : List Event) : Store := evs.foldl (applyEventH cfg) st

theorem effCfg_id (cfg : Cfg) (e : Event) : (effCfg cfg e).metric.id = cfg.metric.id := by
  unfold effCfg; split <;> rfl

theorem effCfg_user (cfg : Cfg) (e : Event) (hu : UserMetric cfg) : UserMetric (effCfg cfg e) := by
  unfold UserMetric at *; rw [effCfg_id]; exact hu

/-- for tags-hash sharding the event is routed to the observed hash shard, exactly like a fixed shard -/
theorem effCfg_hash_shard (cfg : Cfg) (e : Event) (h4 : cfg.metric.strategy = 4) (hk : cfg.metric.fixedKey = 0)
    (hlt : e.hashShard < cfg.nShards) : shardOk (effCfg cfg e) = true ∧ shard1 (effCfg cfg e) = e.hashShard := by
  have : effCfg cfg e = { cfg with metric := { cfg.metric with strategy := 0, shardNum := e.hashShard } } := by
    unfold effCfg; simp [h4, hk]
  rw [this]
  simp [shardOk, shard1, shardingShard, hk, hlt]

theorem applyAllH_NN (cfg : Cfg) (st : Store) (evs : List Event) (h : NN st) : NN (applyAllH cfg st evs) := by
  induction evs generalizing st with
  | nil => exact h
  | cons e es ih => exact ih _ (applyEvent_NN (effCfg cfg e) st e h)

theorem applyAllH_same (cfg : Cfg) (evs : List Event) (a b : Store) (hu : UserMetric cfg) (h : SameRows a b) :
    SameRows (applyAllH cfg a evs) (applyAllH cfg b evs) := by
  induction evs generalizing a b with
  | nil => exact h
  | cons e es ih => exact ih _ _ (applyEvent_same (effCfg cfg e) a b e (effCfg_user cfg e hu) h)

/-- `rejected_invisible` for every sharding strategy -/
theorem rejected_invisible_H (cfg : Cfg) (st : Store) (evs : List Event) (hu : UserMetric cfg) :
    (applyAllH cfg st evs).filter keep =
      (applyAllH cfg st (evs.filter (fun e => decide (verdictH cfg e = 0)))).filter keep := by
  induction evs generalizing st with
  | nil => rfl
  | cons e es ih =>
    by_cases hv : verdictH cfg e = 0
    · simp only [List.filter, hv, decide_true]
      exact ih (applyEventH cfg st e)
    · simp only [List.filter, hv, decide_false]
      have h1 : SameRows (applyEventH cfg st e) st := rejected_contributes_nothing (effCfg cfg e) st e hv
      have h2 := applyAllH_same cfg es _ _ hu h1
      show (applyAllH cfg (applyEventH cfg st e) es).filter keep = _
      rw [h2]; exact ih st

/-- `applyAll_row` for every sharding strategy: each row of a user metric holds the old values plus the sums of the
    `rowDelta`s of the events, each taken in the configuration the event is routed with -/
theorem applyAllH_row (cfg : Cfg) (st : Store) (evs : List Event) (a : Addr)
    (hwf : ∀ e ∈ evs, WF e) (ha : UserAddr a) (hnn : NN st) :
    (getMV (applyAllH cfg st evs) a).cnt = (getMV st a).cnt + (evs.map (fun e => (rowDelta (effCfg cfg e) e a).1)).sum ∧
    (getMV (applyAllH cfg st evs) a).sum = (getMV st a).sum + (evs.map (fun e => (rowDelta (effCfg cfg e) e a).2)).sum := by
  induction evs generalizing st with
  | nil => simp [applyAllH]
  | cons e es ih =>
    obtain ⟨i1, i2⟩ := ih (applyEventH cfg st e) (fun x hx => hwf x (List.mem_cons_of_mem _ hx)) (applyEvent_NN (effCfg cfg e) st e hnn)
    obtain ⟨r1, r2⟩ := applyEvent_row (effCfg cfg e) st e a (hwf e List.mem_cons_self) ha hnn
    show (getMV (applyAllH cfg (applyEventH cfg st e) es) a).cnt = _ ∧ (getMV (applyAllH cfg (applyEventH cfg st e) es) a).sum = _
    rw [i1, i2]
    unfold applyEventH
    rw [r1, r2]
    simp only [List.map_cons, List.sum_cons]
    constructor <;> ring

/-- `applyAll_error_status` for every sharding strategy -/
theorem applyAllH_error_status (cfg : Cfg) (st : Store) (evs : List Event) (a : Addr)
    (hwf : ∀ e ∈ evs, WF e) (hu : UserMetric cfg) (hnn : NN st) (ha : ErrAddr a) :
    (getMV (applyAllH cfg st evs) a).cnt = (getMV st a).cnt + (evs.map (fun e => errHits (effCfg cfg e) e a)).sum := by
  induction evs generalizing st with
  | nil => simp [applyAllH]
  | cons e es ih =>
    have i := ih (applyEventH cfg st e) (fun x hx => hwf x (List.mem_cons_of_mem _ hx)) (applyEvent_NN (effCfg cfg e) st e hnn)
    have r := applyEvent_error_status (effCfg cfg e) st e a (hwf e List.mem_cons_self) (effCfg_user cfg e hu) hnn ha
    show (getMV (applyAllH cfg (applyEventH cfg st e) es) a).cnt = _
    rw [i]; unfold applyEventH; rw [r]
    simp only [List.map_cons, List.sum_cons]; ring

/-! #### non-vacuity for the store-level theorems -/

/-- the example event's row: shard 1, metric 7, second 1000, tag 1 = 11, Tail -/
example : addr1 exCfg exEvent = ⟨1, 7, 1000, [(1, 11, "-")], (0, "-")⟩ := by decide +kernel
example : UserAddr (addr1 exCfg exEvent) := by unfold UserAddr; decide +kernel
example : evDelta exEvent = (8, 36) := by decide +kernel
/-- both shard copies receive (8, 36); any other row receives nothing -/
example : rowDelta exCfg exEvent (addr1 exCfg exEvent) = (8, 36) ∧ rowDelta exCfg exEvent (addr2 exCfg exEvent 2) = (8, 36) ∧
    rowDelta exCfg exEvent ⟨0, 7, 1000, [(1, 11, "-")], (0, "-")⟩ = (0, 0) := by decide +kernel
/-- a sequence: accepted, rejected (NaN), accepted ⇒ the row reads 16 / 72 -/
example : (getMV (applyAll exCfg [] [exEvent, { exEvent with values := [ofBits 0x7ff8000000000000] }, exEvent]) (addr1 exCfg exEvent)).cnt = 16 ∧
    (getMV (applyAll exCfg [] [exEvent, { exEvent with values := [ofBits 0x7ff8000000000000] }, exEvent]) (addr1 exCfg exEvent)).sum = 72 := by
  decide +kernel
/-- the error-status row of the rejected variant -/
def exErrAddr : Addr := ⟨1, statusMetricID, 1000, [(1, 7, "-"), (2, stErrNanInfValue, "-"), (4, componentAgent, "-")], (0, "-")⟩
example : ErrAddr exErrAddr := by unfold ErrAddr; decide +kernel
example : errHits exCfg { exEvent with values := [ofBits 0x7ff8000000000000] } exErrAddr = 1 ∧ errHits exCfg exEvent exErrAddr = 0 := by
  decide +kernel
example : (getMV (applyAll exCfg [] [exEvent, { exEvent with values := [ofBits 0x7ff8000000000000] }, exEvent]) exErrAddr).cnt = 1 := by
  decide +kernel
/-- the ok row grows once per accepted event -/
example : (getMV (applyAll exCfg [] [exEvent, { exEvent with values := [ofBits 0x7ff8000000000000] }, exEvent]) (okAddr exCfg exEvent)).cnt = 2 := by
  decide +kernel

/-- a histogram-only event with weight 0 -/
def exZeroHist : Event := { exEvent with values := [], hist := [(ofBits 0x4018000000000000, ofBits 0)], counter := ofBits 0 }

example : ZeroWeightHist exZeroHist := by
  refine ⟨rfl, rfl, by decide, ?_⟩
  intro p hp
  have : p = (ofBits 0x4018000000000000, ofBits 0) := by simpa [exZeroHist] using hp
  subst this
  refine ⟨⟨6, by decide +kernel, ?_, ?_⟩, by decide +kernel⟩
  · have := maxF_pos; linarith
  · unfold maxF maxFloat32; norm_num
example : verdict exCfg exZeroHist = 0 ∧ (applyEvent exCfg [] exZeroHist).filter keep = [] := by decide +kernel
/-- … with counter 8 the empty rows appear (one per shard) -/
example : ((applyEvent exCfg [] { exZeroHist with counter := ofBits 0x4020000000000000 }).filter keep).map
    (fun it => (it.shard, it.tail.cnt)) = [(1, 0), (2, 0)] := by decide +kernel

/-- tag "_s" = "abc" (string top, unmapped) -/
def exTopTag : TagIn :=
  { isEnv := false, metaIdx := some 47, rawKind := 0, legacy := false, keyNorm := some "5f73", keyHex := "3566", draft := false,
    corrupted := false, valNorm := some "616263", valHex := "363136323633", raw := none, raw64 := none }

/-- **Observation (outside the property).** With a second shard configured, the first shard files the event under its
    string-top value, the second shard under the Tail: the two copies are different rows. -/
example : (addr1 exCfg { exEvent with tags := [exTopTag] }).top = (0, "616263") ∧
    (addr2 exCfg { exEvent with tags := [exTopTag] } 2).top = (0, "-") := by decide +kernel

/-- tags-hash sharding: the event goes to the observed hash shard -/
example : shard1 (effCfg { exCfg with metric := { exCfg.metric with strategy := 4 } } { exEvent with hashShard := 2 }) = 2 := by
  decide +kernel




/-! ### all aggregates of a row, over all event lists -/

/-- the row update of one event (identity when the shard returns before touching anything) -/
def evFn (lg pct : Bool) (e : Event) (mv : MV) : MV :=
  match payFn lg pct e with
  | none => mv
  | some f => f mv

/-- how many times (0, 1 or 2) event `e` updates the row at `a`: 0 if rejected; once in the metric's shard at the event's
    row; once more at the second shard's copy -/
def hitsN (cfg : Cfg) (e : Event) (a : Addr) : Nat :=
  if verdict cfg e ≠ 0 then 0 else
  (if a = addr1 cfg e then 1 else 0) +
  (match shard2 cfg with
    | some s2 => if ¬ applyDropped cfg (keyAfter cfg (evKey cfg e)) cfg.metric.shard2Ts ∧ a = addr2 cfg e s2 then 1 else 0
    | none => 0)

theorem hits_eq_hitsN (cfg : Cfg) (e : Event) (a : Addr) (hv : verdict cfg e = 0) : hits cfg e a = (hitsN cfg e a : Rat) := by
  unfold hits hitsN
  simp only [hv, ne_eq, not_true_eq_false, if_false]
  cases shard2 cfg with
  | none => by_cases h1 : a = addr1 cfg e <;> simp [h1]
  | some s2 =>
    by_cases h1 : a = addr1 cfg e <;>
    by_cases h2 : (¬ applyDropped cfg (keyAfter cfg (evKey cfg e)) cfg.metric.shard2Ts ∧ a = addr2 cfg e s2) <;> simp [h1, h2]

theorem two_iter (f : MV → MV) (x : MV) (b1 b2 : Prop) [Decidable b1] [Decidable b2] :
    (if b2 then f (if b1 then f x else x) else (if b1 then f x else x)) =
      f^[(if b1 then 1 else 0) + (if b2 then 1 else 0)] x := by
  by_cases h1 : b1 <;> by_cases h2 : b2 <;> simp [h1, h2, Function.iterate_succ_apply]

theorem payload_getMV (cfg : Cfg) (e : Event) (st : Store) (a : Addr) (ha : UserAddr a) :
    getMV ((payload cfg e).foldl (runEffect cfg) (st, evKey cfg e)).1 a =
      (evFn cfg.legacy cfg.metric.pct e)^[(if a = addr1 cfg e then 1 else 0) +
        (match shard2 cfg with
          | some s2 => if ¬ applyDropped cfg (keyAfter cfg (evKey cfg e)) cfg.metric.shard2Ts ∧ a = addr2 cfg e s2 then 1 else 0
          | none => 0)] (getMV st a) := by
  rw [payload_eq]
  unfold evFn
  cases hf : payFn cfg.legacy cfg.metric.pct e with
  | none =>
    have hid : ∀ s sh drop, runEffect cfg s (payEffect e sh drop) = s := by
      intro s sh drop; rw [runEffect_pay, hf]
    have hI : ∀ n : Nat, (fun mv : MV => mv)^[n] (getMV st a) = getMV st a := by
      intro n; induction n with
      | zero => rfl
      | succ k ih => rw [Function.iterate_succ_apply]; exact ih
    rcases both_cases cfg (payEffect e) with ⟨_, hb⟩ | ⟨s2, _, _, hb⟩ <;>
      simp only [hb, List.foldl_cons, List.foldl_nil, hid, hI]
  | some f =>
    have hrun : ∀ s sh drop, runEffect cfg s (payEffect e sh drop) = shardApply cfg s.1 s.2 sh drop f := by
      intro s sh drop; rw [runEffect_pay, hf]
    have g1 : getMV (shardApply cfg st (evKey cfg e) (shard1 cfg) 0 f).1 a =
        if a = addr1 cfg e then f (getMV st a) else getMV st a := by
      have := shardApply_get cfg st (evKey cfg e) (shard1 cfg) 0 f a ha.1
      simp only [not_dropped_zero, not_false_eq_true, true_and] at this
      exact this
    rcases both_cases cfg (payEffect e) with ⟨hs2, hb⟩ | ⟨s2, hs2, hne, hb⟩
    · simp only [hb, List.foldl_cons, List.foldl_nil, hrun, hs2]
      rw [g1]
      have := two_iter f (getMV st a) (a = addr1 cfg e) False
      simpa using this
    · simp only [hb, List.foldl_cons, List.foldl_nil, hrun, hs2]
      have k1 : (shardApply cfg st (evKey cfg e) (shard1 cfg) 0 f).2 = keyAfter cfg (evKey cfg e) := shardApply_key _ _ _ _ _ _
      rw [k1]
      have g2 : getMV (shardApply cfg (shardApply cfg st (evKey cfg e) (shard1 cfg) 0 f).1 (keyAfter cfg (evKey cfg e)) s2
          cfg.metric.shard2Ts f).1 a =
          if ¬ applyDropped cfg (keyAfter cfg (evKey cfg e)) cfg.metric.shard2Ts ∧ a = addr2 cfg e s2
          then f (getMV (shardApply cfg st (evKey cfg e) (shard1 cfg) 0 f).1 a)
          else getMV (shardApply cfg st (evKey cfg e) (shard1 cfg) 0 f).1 a :=
        shardApply_get cfg _ (keyAfter cfg (evKey cfg e)) s2 cfg.metric.shard2Ts f a ha.1
      rw [g2, g1]
      exact two_iter f (getMV st a) (a = addr1 cfg e)
        (¬ applyDropped cfg (keyAfter cfg (evKey cfg e)) cfg.metric.shard2Ts ∧ a = addr2 cfg e s2)

/-- **One event, the whole row.** The MultiValue read at any address of a user metric after ApplyMetric is the row
    update of the event applied `hitsN` times to what was read before — for every aggregate at once. -/
theorem applyEvent_rowMV (cfg : Cfg) (st : Store) (e : Event) (a : Addr) (wf : WF e) (ha : UserAddr a) :
    getMV (applyEvent cfg st e) a = (evFn cfg.legacy cfg.metric.pct e)^[hitsN cfg e a] (getMV st a) := by
  unfold hitsN
  by_cases hv : verdict cfg e = 0
  · simp only [hv, ne_eq, not_true_eq_false, if_false]
    obtain ⟨heff, _, _⟩ := accepted_effects cfg e wf hv
    unfold applyEvent
    simp only []
    rw [heff, List.foldl_append]
    have hpre : ∀ x ∈ statusBoth cfg (ktGetI (header cfg.mapping e).ktags 0) cfg.metric.id stOKCached (header cfg.mapping e).statusTagKey "-" ++
        warnings cfg (header cfg.mapping e) (ktGetI (header cfg.mapping e).ktags 0) cfg.metric.id, IsBuiltinStatus x := by
      intro x hx
      rcases List.mem_append.1 hx with hx | hx
      · exact statusBoth_builtin _ _ _ _ _ _ x hx
      · exact warnings_builtin _ _ _ _ x hx
    generalize hs1 : (statusBoth cfg (ktGetI (header cfg.mapping e).ktags 0) cfg.metric.id stOKCached (header cfg.mapping e).statusTagKey "-" ++
        warnings cfg (header cfg.mapping e) (ktGetI (header cfg.mapping e).ktags 0) cfg.metric.id).foldl (runEffect cfg)
        (st, ({ metric := keyMetric cfg e, ts := eventTs cfg e, ktags := (header cfg.mapping e).ktags } : EvKey)) = s1
    have hg := foldl_status_get cfg _ (st, ({ metric := keyMetric cfg e, ts := eventTs cfg e, ktags := (header cfg.mapping e).ktags } : EvKey)) a ha hpre
    rw [hs1] at hg
    have hs1' : s1 = (s1.1, evKey cfg e) := by
      have : s1.2 = evKey cfg e := hg.2
      rw [← this]
    rw [hs1', payload_getMV cfg e s1.1 a ha, hg.1]
  · simp only [hv, ne_eq, not_false_eq_true, if_true, Function.iterate_zero, id_eq]
    obtain ⟨env, tagKey, str, he⟩ := rejected_effects cfg e hv
    unfold applyEvent
    simp only [he]
    exact (foldl_status_get cfg _ _ a ha (rejectionRecords_builtin cfg e env tagKey str)).1

/-- **Every event list, the whole row**: the MultiValue at an address is the fold, over the events in order, of their
    row updates (each applied 0, 1 or 2 times); rejected events and events addressed elsewhere are the identity. -/
theorem applyAll_rowMV (cfg : Cfg) (st : Store) (evs : List Event) (a : Addr) (hwf : ∀ e ∈ evs, WF e) (ha : UserAddr a) :
    getMV (applyAll cfg st evs) a =
      evs.foldl (fun mv e => (evFn cfg.legacy cfg.metric.pct e)^[hitsN cfg e a] mv) (getMV st a) := by
  induction evs generalizing st with
  | nil => rfl
  | cons e es ih =>
    rw [applyAll_cons, ih _ (fun x hx => hwf x (List.mem_cons_of_mem _ hx)), applyEvent_rowMV cfg st e a (hwf e List.mem_cons_self) ha]
    rfl



/-- the values of an accepted event that enter the row's min/max, in program order (empty when the shard or
    MultiValue.ApplyValues returns early) -/
def evVals (e : Event) : List Rat :=
  if e.uniq.length ≠ 0 then
    (if effCount e.counter.toRat (e.uniq.length : Rat) ≤ 0 then [] else (uniqPairs e.uniq).map (·.1))
  else if e.hist.length + e.values.length ≠ 0 then
    (if effCount e.counter.toRat (histTotal e.values e.hist) ≤ 0 then []
     else if histTotal e.values e.hist ≤ 0 then []
     else (valuePairs e.values e.hist).map (·.1))
  else []

/-- what one accepted event adds to the row's sum of squares: Σ v²·w · count / total -/
def evSq (e : Event) : Rat :=
  if e.uniq.length ≠ 0 then
    (if effCount e.counter.toRat (e.uniq.length : Rat) ≤ 0 then 0
     else wsq (uniqPairs e.uniq) * effCount e.counter.toRat (e.uniq.length : Rat) / (e.uniq.length : Rat))
  else if e.hist.length + e.values.length ≠ 0 then
    (if effCount e.counter.toRat (histTotal e.values e.hist) ≤ 0 then 0
     else if histTotal e.values e.hist ≤ 0 then 0
     else wsq (valuePairs e.values e.hist) * effCount e.counter.toRat (histTotal e.values e.hist) / histTotal e.values e.hist)
  else 0

/-- the hashes an accepted event inserts into the row's unique set -/
def evUniq (e : Event) : List Int :=
  if e.uniq.length ≠ 0 then (if effCount e.counter.toRat (e.uniq.length : Rat) ≤ 0 then [] else e.uniq) else []

theorem uniqPairs_ne_nil (l : List Int) (h : l.length ≠ 0) : uniqPairs l ≠ [] := by
  unfold uniqPairs; cases l with
  | nil => simp at h
  | cons _ _ => simp

theorem mvApplyValues_eq (pct : Bool) (vals : List (Rat × Rat)) (c t : Rat) (mv : MV) (ht : ¬ t ≤ 0) :
    mvApplyValues pct vals c t mv =
      if (pct && (mergeVals vals c t mv).min != (mergeVals vals c t mv).max) = true
      then { mergeVals vals c t mv with td := true } else mergeVals vals c t mv := by
  unfold mvApplyValues mergeVals; simp only [if_neg ht]

theorem mvApplyUnique_eq (hashes : List Int) (c : Rat) (mv : MV) (hl : hashes.length ≠ 0) :
    mvApplyUnique hashes c mv =
      { mergeVals (uniqPairs hashes) c (hashes.length : Rat) mv with uniq := hashes.foldl insertUniq mv.uniq } := by
  unfold mvApplyUnique mergeVals uniqPairs; simp only [if_neg hl]

theorem mvApplyValuesLegacy_eq (pct : Bool) (vals : List (Rat × Rat)) (c t : Rat) (mv : MV) (ht : ¬ t ≤ 0) :
    mvApplyValuesLegacy pct vals c t mv =
      if pct = true then { mergeVals vals c t mv with td := true } else mergeVals vals c t mv := by
  unfold mvApplyValuesLegacy mergeVals; simp only [if_neg ht]

/-- **One row update, every other aggregate** (both value-application modes). (ValueSet, ValueMin) and (ValueSet,
    ValueMax) are the running min/max folded over the event's values; the sum of squares grows by `evSq`; the unique set
    gets the event's hashes inserted; the TDigest flag is never cleared and, for a metric without percentiles, never set. -/
theorem evFn_fields (lg pct : Bool) (e : Event) (mv : MV) :
    ((evFn lg pct e mv).set, (evFn lg pct e mv).min) = (evVals e).foldl minStep (mv.set, mv.min) ∧
    ((evFn lg pct e mv).set, (evFn lg pct e mv).max) = (evVals e).foldl maxStep (mv.set, mv.max) ∧
    (evFn lg pct e mv).sq = mv.sq + evSq e ∧
    (evFn lg pct e mv).uniq = (evUniq e).foldl insertUniq mv.uniq ∧
    (pct = false → (evFn lg pct e mv).td = mv.td) ∧ (mv.td = true → (evFn lg pct e mv).td = true) := by
  unfold evFn payFn evVals evSq evUniq
  by_cases hu : e.uniq.length ≠ 0
  · simp only [if_pos hu]
    by_cases hc : effCount e.counter.toRat (e.uniq.length : Rat) ≤ 0
    · simp only [if_pos hc]; simp
    · simp only [if_neg hc]
      have hn : (e.uniq.length : Rat) ≠ 0 := by exact_mod_cast hu
      obtain ⟨m1, m2, m3, m4, m5⟩ := mergeVals_fields (uniqPairs e.uniq) (effCount e.counter.toRat (e.uniq.length : Rat))
        (e.uniq.length : Rat) mv (uniqPairs_ne_nil _ hu) hn
      rw [mvApplyUnique_eq _ _ _ hu]
      exact ⟨m1, m2, m3, rfl, fun _ => m5, fun h => m5.trans h⟩
  · simp only [if_neg hu]
    by_cases hv : e.hist.length + e.values.length ≠ 0
    · simp only [if_pos hv]
      by_cases hc : effCount e.counter.toRat (histTotal e.values e.hist) ≤ 0
      · simp only [if_pos hc]; simp
      · simp only [if_neg hc]
        by_cases ht : histTotal e.values e.hist ≤ 0
        · simp only [if_pos ht, valuesFn, mvApplyValues, mvApplyValuesLegacy]; cases lg <;> simp
        · simp only [if_neg ht]
          have ht' : histTotal e.values e.hist ≠ 0 := fun h => ht (le_of_eq h)
          obtain ⟨m1, m2, m3, m4, m5⟩ := mergeVals_fields (valuePairs e.values e.hist)
            (effCount e.counter.toRat (histTotal e.values e.hist)) (histTotal e.values e.hist) mv (valuePairs_ne_nil _ _ hv) ht'
          cases lg
          · simp only [valuesFn, Bool.false_eq_true, if_false]
            rw [mvApplyValues_eq _ _ _ _ _ ht]
            split
            · rename_i htd
              refine ⟨m1, m2, m3, m4, ?_, fun _ => rfl⟩
              intro hp; rw [hp] at htd; simp at htd
            · exact ⟨m1, m2, m3, m4, fun _ => m5, fun h => m5.trans h⟩
          · simp only [valuesFn, if_true]
            rw [mvApplyValuesLegacy_eq _ _ _ _ _ ht]
            split
            · rename_i hp
              refine ⟨m1, m2, m3, m4, ?_, fun _ => rfl⟩
              intro hp'; rw [hp'] at hp; cases hp
            · exact ⟨m1, m2, m3, m4, fun _ => m5, fun h => m5.trans h⟩
    · simp only [if_neg hv]
      by_cases hc : e.counter.toRat ≤ 0
      · simp only [if_pos hc]; simp
      · simp only [if_neg hc]
        obtain ⟨a1, a2, a3, a4, a5, a6, _⟩ := addCount_fields e.counter.toRat mv
        simp [a1, a2, a3, a4, a5, a6]

/-! #### projections of the row fold -/

theorem iterate_proj {α : Type} (F : MV → MV) (π : MV → α) (σ : α → α) (h : ∀ mv, π (F mv) = σ (π mv)) (n : Nat) (mv : MV) :
    π (F^[n] mv) = σ^[n] (π mv) := by
  induction n generalizing mv with
  | zero => rfl
  | succ k ih => rw [Function.iterate_succ_apply, Function.iterate_succ_apply, ih, h]

theorem foldl_proj {α : Type} (evs : List Event) (G : MV → Event → MV) (π : MV → α) (S : α → Event → α)
    (h : ∀ mv e, π (G mv e) = S (π mv) e) (mv : MV) : π (evs.foldl G mv) = evs.foldl S (π mv) := by
  induction evs generalizing mv with
  | nil => rfl
  | cons e es ih => rw [List.foldl_cons, List.foldl_cons, ih, h]

/-- the values that reach the row at `a`, in order: each event's values once per hit -/
def rowVals (cfg : Cfg) (evs : List Event) (a : Addr) : List Rat :=
  evs.flatMap (fun e => (List.replicate (hitsN cfg e a) (evVals e)).flatten)

/-- the hashes that reach the row at `a` -/
def rowUniq (cfg : Cfg) (evs : List Event) (a : Addr) : List Int :=
  evs.flatMap (fun e => (List.replicate (hitsN cfg e a) (evUniq e)).flatten)

theorem iterate_foldl {α β : Type} (step : β → α → β) (l : List α) (n : Nat) (s : β) :
    (fun s => l.foldl step s)^[n] s = ((List.replicate n l).flatten).foldl step s := by
  induction n generalizing s with
  | zero => rfl
  | succ k ih => rw [Function.iterate_succ_apply, ih, List.replicate_succ, List.flatten_cons, List.foldl_append]

theorem foldl_flatMap {α β γ : Type} (step : β → α → β) (g : γ → List α) (l : List γ) (s : β) :
    (l.flatMap g).foldl step s = l.foldl (fun s x => (g x).foldl step s) s := by
  induction l generalizing s with
  | nil => rfl
  | cons x xs ih => rw [List.flatMap_cons, List.foldl_append, List.foldl_cons, ih]

/-- **Min over every event list**: (ValueSet, ValueMin) of a row is the running minimum folded over the values of the
    accepted events addressed to it. -/
theorem applyAll_row_min (cfg : Cfg) (st : Store) (evs : List Event) (a : Addr) (hwf : ∀ e ∈ evs, WF e) (ha : UserAddr a) :
    ((getMV (applyAll cfg st evs) a).set, (getMV (applyAll cfg st evs) a).min) =
      (rowVals cfg evs a).foldl minStep ((getMV st a).set, (getMV st a).min) := by
  rw [applyAll_rowMV cfg st evs a hwf ha]
  rw [foldl_proj evs _ (fun mv => (mv.set, mv.min)) (fun s e => ((List.replicate (hitsN cfg e a) (evVals e)).flatten).foldl minStep s)]
  · unfold rowVals; rw [foldl_flatMap]
  · intro mv e
    rw [iterate_proj (evFn cfg.legacy cfg.metric.pct e) (fun mv => (mv.set, mv.min)) (fun s => (evVals e).foldl minStep s)
      (fun mv => (evFn_fields cfg.legacy cfg.metric.pct e mv).1)]
    exact iterate_foldl minStep _ _ _

/-- **Max over every event list.** -/
theorem applyAll_row_max (cfg : Cfg) (st : Store) (evs : List Event) (a : Addr) (hwf : ∀ e ∈ evs, WF e) (ha : UserAddr a) :
    ((getMV (applyAll cfg st evs) a).set, (getMV (applyAll cfg st evs) a).max) =
      (rowVals cfg evs a).foldl maxStep ((getMV st a).set, (getMV st a).max) := by
  rw [applyAll_rowMV cfg st evs a hwf ha]
  rw [foldl_proj evs _ (fun mv => (mv.set, mv.max)) (fun s e => ((List.replicate (hitsN cfg e a) (evVals e)).flatten).foldl maxStep s)]
  · unfold rowVals; rw [foldl_flatMap]
  · intro mv e
    rw [iterate_proj (evFn cfg.legacy cfg.metric.pct e) (fun mv => (mv.set, mv.max)) (fun s => (evVals e).foldl maxStep s)
      (fun mv => (evFn_fields cfg.legacy cfg.metric.pct e mv).2.1)]
    exact iterate_foldl maxStep _ _ _

/-- **Unique set over every event list**: the hashes of the accepted unique events addressed to the row, inserted in
    order into the old set. -/
theorem applyAll_row_uniq (cfg : Cfg) (st : Store) (evs : List Event) (a : Addr) (hwf : ∀ e ∈ evs, WF e) (ha : UserAddr a) :
    (getMV (applyAll cfg st evs) a).uniq = (rowUniq cfg evs a).foldl insertUniq (getMV st a).uniq := by
  rw [applyAll_rowMV cfg st evs a hwf ha]
  rw [foldl_proj evs _ (fun mv => mv.uniq) (fun s e => ((List.replicate (hitsN cfg e a) (evUniq e)).flatten).foldl insertUniq s)]
  · unfold rowUniq; rw [foldl_flatMap]
  · intro mv e
    rw [iterate_proj (evFn cfg.legacy cfg.metric.pct e) (fun mv => mv.uniq) (fun s => (evUniq e).foldl insertUniq s)
      (fun mv => (evFn_fields cfg.legacy cfg.metric.pct e mv).2.2.2.1)]
    exact iterate_foldl insertUniq _ _ _

/-- as a set: a hash is in the row iff it was there before or some accepted unique event addressed to the row carried
    it; and the representation stays duplicate-free, so its length is the number of distinct hashes -/
theorem applyAll_row_uniq_mem (cfg : Cfg) (st : Store) (evs : List Event) (a : Addr) (hwf : ∀ e ∈ evs, WF e) (ha : UserAddr a)
    (x : Int) :
    (x ∈ (getMV (applyAll cfg st evs) a).uniq ↔ x ∈ (getMV st a).uniq ∨ x ∈ rowUniq cfg evs a) ∧
    ((getMV st a).uniq.Nodup → (getMV (applyAll cfg st evs) a).uniq.Nodup) := by
  rw [applyAll_row_uniq cfg st evs a hwf ha]
  exact ⟨mem_foldl_insertUniq _ _ _, nodup_foldl_insertUniq _ _⟩

theorem iterate_add_const (c : Rat) (n : Nat) (x : Rat) : (fun s => s + c)^[n] x = x + (n : Rat) * c := by
  induction n generalizing x with
  | zero => simp
  | succ k ih => rw [Function.iterate_succ_apply, ih]; push_cast; ring

/-- **Sum of squares over every event list**: old + Σ over the events of (number of hits) · Σ v²·w · count/total. -/
theorem applyAll_row_sq (cfg : Cfg) (st : Store) (evs : List Event) (a : Addr) (hwf : ∀ e ∈ evs, WF e) (ha : UserAddr a) :
    (getMV (applyAll cfg st evs) a).sq = (getMV st a).sq + (evs.map (fun e => (hitsN cfg e a : Rat) * evSq e)).sum := by
  rw [applyAll_rowMV cfg st evs a hwf ha]
  rw [foldl_proj evs _ (fun mv => mv.sq) (fun s e => s + (hitsN cfg e a : Rat) * evSq e)]
  · generalize (getMV st a).sq = x
    induction evs generalizing x with
    | nil => simp
    | cons e es ih => rw [List.foldl_cons, ih (fun y hy => hwf y (List.mem_cons_of_mem _ hy))]; simp only [List.map_cons, List.sum_cons]; ring
  · intro mv e
    rw [iterate_proj (evFn cfg.legacy cfg.metric.pct e) (fun mv => mv.sq) (fun s => s + evSq e)
      (fun mv => (evFn_fields cfg.legacy cfg.metric.pct e mv).2.2.1)]
    exact iterate_add_const _ _ _

/-- **Percentile (TDigest) flag over every event list**: never cleared; for a metric without percentiles never set. -/
theorem applyAll_row_td (cfg : Cfg) (st : Store) (evs : List Event) (a : Addr) (hwf : ∀ e ∈ evs, WF e) (ha : UserAddr a) :
    ((getMV st a).td = true → (getMV (applyAll cfg st evs) a).td = true) ∧
    (cfg.metric.pct = false → (getMV (applyAll cfg st evs) a).td = (getMV st a).td) := by
  rw [applyAll_rowMV cfg st evs a hwf ha]
  generalize getMV st a = mv
  have hmono : ∀ (e : Event) (n : Nat) (mv : MV), mv.td = true → ((evFn cfg.legacy cfg.metric.pct e)^[n] mv).td = true := by
    intro e n; induction n with
    | zero => intro mv h; exact h
    | succ k ih => intro mv h; rw [Function.iterate_succ_apply]; exact ih _ ((evFn_fields cfg.legacy cfg.metric.pct e mv).2.2.2.2.2 h)
  have hconst : cfg.metric.pct = false → ∀ (e : Event) (n : Nat) (mv : MV), ((evFn cfg.legacy cfg.metric.pct e)^[n] mv).td = mv.td := by
    intro hp e n; induction n with
    | zero => intro mv; rfl
    | succ k ih => intro mv; rw [Function.iterate_succ_apply, ih, (evFn_fields cfg.legacy cfg.metric.pct e mv).2.2.2.2.1 hp]
  constructor
  · intro h
    induction evs generalizing mv with
    | nil => exact h
    | cons e es ih => rw [List.foldl_cons]; exact ih (fun y hy => hwf y (List.mem_cons_of_mem _ hy)) _ (hmono e _ mv h)
  · intro hp
    induction evs generalizing mv with
    | nil => rfl
    | cons e es ih => rw [List.foldl_cons, ih (fun y hy => hwf y (List.mem_cons_of_mem _ hy)), hconst hp]

/-- the percentile flag after one row update of a value event that reaches MultiValue.ApplyValues: set exactly when it
    was set before, or the metric has percentiles and the merged row has two different values (min ≠ max) -/
theorem evFn_td_values (pct : Bool) (e : Event) (mv : MV) (hu : e.uniq.length = 0) (hv : e.hist.length + e.values.length ≠ 0)
    (hc : 0 < effCount e.counter.toRat (histTotal e.values e.hist)) (ht : 0 < histTotal e.values e.hist) :
    (evFn false pct e mv).td = (mv.td || (pct && (evFn false pct e mv).min != (evFn false pct e mv).max)) := by
  have hc' : ¬ effCount e.counter.toRat (histTotal e.values e.hist) ≤ 0 := by linarith
  have ht' : ¬ histTotal e.values e.hist ≤ 0 := by linarith
  have ht'' : histTotal e.values e.hist ≠ 0 := ne_of_gt ht
  obtain ⟨_, _, _, _, m5⟩ := mergeVals_fields (valuePairs e.values e.hist)
    (effCount e.counter.toRat (histTotal e.values e.hist)) (histTotal e.values e.hist) mv (valuePairs_ne_nil _ _ hv) ht''
  have hu' : ¬ e.uniq.length ≠ 0 := by simp [hu]
  unfold evFn payFn
  simp only [if_neg hu', if_pos hv, if_neg hc', valuesFn, Bool.false_eq_true, if_false]
  rw [mvApplyValues_eq _ _ _ _ _ ht']
  split
  · rename_i h; simp [h]
  · rename_i h
    have h' : (pct && (mergeVals (valuePairs e.values e.hist) (effCount e.counter.toRat (histTotal e.values e.hist))
        (histTotal e.values e.hist) mv).min != (mergeVals (valuePairs e.values e.hist)
        (effCount e.counter.toRat (histTotal e.values e.hist)) (histTotal e.values e.hist) mv).max) = false := by simpa using h
    rw [h', Bool.or_false]; exact m5

/-- … and in the legacy mode (Config.LegacyApplyValues): the TDigest is created whenever the metric has percentiles -/
theorem evFn_td_values_legacy (pct : Bool) (e : Event) (mv : MV) (hu : e.uniq.length = 0) (hv : e.hist.length + e.values.length ≠ 0)
    (hc : 0 < effCount e.counter.toRat (histTotal e.values e.hist)) (ht : 0 < histTotal e.values e.hist) :
    (evFn true pct e mv).td = (mv.td || pct) := by
  have hc' : ¬ effCount e.counter.toRat (histTotal e.values e.hist) ≤ 0 := by linarith
  have ht' : ¬ histTotal e.values e.hist ≤ 0 := by linarith
  have ht'' : histTotal e.values e.hist ≠ 0 := ne_of_gt ht
  obtain ⟨_, _, _, _, m5⟩ := mergeVals_fields (valuePairs e.values e.hist)
    (effCount e.counter.toRat (histTotal e.values e.hist)) (histTotal e.values e.hist) mv (valuePairs_ne_nil _ _ hv) ht''
  have hu' : ¬ e.uniq.length ≠ 0 := by simp [hu]
  unfold evFn payFn
  simp only [if_neg hu', if_pos hv, if_neg hc', valuesFn, if_true]
  rw [mvApplyValuesLegacy_eq _ _ _ _ _ ht']
  cases pct
  · simp only [Bool.false_eq_true, if_false, Bool.or_false]; exact m5
  · simp

/-! ### every status row (ok, warnings, errors, clamped-future) over all event lists -/

theorem resolveTs_le (now res ts : Nat) : (resolveTs now res ts).1 ≤ now + futureSlots := by
  unfold resolveTs
  simp only
  generalize (if ts = 0 then now else ts) = t0
  by_cases hc : now + futureSlots < t0
  · simp only [hc, decide_true, if_true]
    split
    · exact le_refl _
    · exact Nat.div_mul_le_self _ _
  · simp only [hc, decide_false, Bool.false_eq_true, if_false]
    have h0 : t0 ≤ now + futureSlots := by omega
    split
    · exact h0
    · exact le_trans (Nat.div_mul_le_self _ _) h0

/-- the second shard never sees a future timestamp: the first shard already clamped it -/
theorem resolveTs_second_not_clamped (now res ts : Nat) : (resolveTs now res (resolveTs now res ts).1).2 = false := by
  have h := resolveTs_le now res ts
  generalize (resolveTs now res ts).1 = o at h
  unfold resolveTs
  simp only
  by_cases h0 : o = 0
  · simp [h0]
  · simp only [h0, if_false]; simp; omega

/-- where the clamped-future warning of a shard call lands -/
def clampAddr (cfg : Cfg) (k : EvKey) (sh : Nat) : Addr :=
  statusAddr cfg sh statusMetricID statusMetricRes (resolveTs cfg.now cfg.metric.res k.ts).1 (clampedTags (keyAfter cfg k)) "-"

/-- a shard call read at a row of another metric: only the clamped-future warning can change it -/
theorem shardApply_get_other_metric (cfg : Cfg) (st : Store) (k : EvKey) (sh drop : Nat) (f : MV → MV) (a : Addr)
    (hm : a.metric ≠ k.metric) :
    getMV (shardApply cfg st k sh drop f).1 a =
      if ¬ applyDropped cfg k drop ∧ (resolveTs cfg.now cfg.metric.res k.ts).2 = true ∧
          ¬ ((resolveTs cfg.now statusMetricRes (resolveTs cfg.now cfg.metric.res k.ts).1).1 < drop) ∧ a = clampAddr cfg k sh
      then addCount 1 (getMV st a) else getMV st a := by
  unfold shardApply applyDropped clampAddr keyAfter
  simp only
  by_cases hd : (resolveTs cfg.now cfg.metric.res k.ts).1 < drop
  · simp [hd]
  · have hne : a ≠ ⟨sh, k.metric, (resolveTs cfg.now cfg.metric.res k.ts).1, k.noTop, normTop k.top⟩ := by
      intro h; apply hm; rw [h]
    simp only [hd, if_false, not_false_eq_true, true_and]
    by_cases hc : (resolveTs cfg.now cfg.metric.res k.ts).2 = true
    · simp only [hc, if_true, true_and]
      rw [addStatus_get, getMV_storeUpd_other _ _ _ _ _ _ _ _ hne]
    · simp only [hc, if_false, false_and]
      exact getMV_storeUpd_other _ _ _ _ _ _ _ _ hne

/-- 1 if the accepted event `e` writes its clamped-future warning to `a` (first shard only, timestamp more than
    `futureSlots` seconds ahead, the shard did not return early), else 0 -/
def clampHit (cfg : Cfg) (e : Event) (a : Addr) : Rat :=
  if verdict cfg e = 0 ∧ (payFn cfg.legacy cfg.metric.pct e).isSome = true ∧
      (resolveTs cfg.now cfg.metric.res (eventTs cfg e)).2 = true ∧ a = clampAddr cfg (evKey cfg e) (shard1 cfg)
  then 1 else 0

theorem statusHit_payEffect (cfg : Cfg) (a : Addr) (e : Event) (sh drop : Nat) : statusHit cfg a (payEffect e sh drop) = 0 := by
  unfold payEffect; split
  · rfl
  · split <;> rfl

theorem payload_hits_zero (cfg : Cfg) (a : Addr) (e : Event) : ((payload cfg e).map (statusHit cfg a)).sum = 0 := by
  rw [payload_eq]
  rcases both_cases cfg (payEffect e) with ⟨_, hb⟩ | ⟨s2, _, _, hb⟩ <;> simp [hb, statusHit_payEffect]

/-- the contribution part of ApplyMetric read at a status row -/
theorem payload_get_status_cnt (cfg : Cfg) (e : Event) (st : Store) (a : Addr) (hnn : NN st)
    (hm : a.metric ≠ (evKey cfg e).metric) :
    (getMV ((payload cfg e).foldl (runEffect cfg) (st, evKey cfg e)).1 a).cnt =
      (getMV st a).cnt +
        (if (payFn cfg.legacy cfg.metric.pct e).isSome = true ∧ (resolveTs cfg.now cfg.metric.res (eventTs cfg e)).2 = true ∧
            a = clampAddr cfg (evKey cfg e) (shard1 cfg) then 1 else 0) := by
  rw [payload_eq]
  cases hf : payFn cfg.legacy cfg.metric.pct e with
  | none =>
    have hid : ∀ s sh drop, runEffect cfg s (payEffect e sh drop) = s := by
      intro s sh drop; rw [runEffect_pay, hf]
    rcases both_cases cfg (payEffect e) with ⟨_, hb⟩ | ⟨s2, _, _, hb⟩ <;> simp [hb, hid]
  | some f =>
    have hrun : ∀ s sh drop, runEffect cfg s (payEffect e sh drop) = shardApply cfg s.1 s.2 sh drop f := by
      intro s sh drop; rw [runEffect_pay, hf]
    have g1 := shardApply_get_other_metric cfg st (evKey cfg e) (shard1 cfg) 0 f a hm
    have nd : ¬ applyDropped cfg (evKey cfg e) 0 := not_dropped_zero _ _
    have nd2 : ¬ ((resolveTs cfg.now statusMetricRes (resolveTs cfg.now cfg.metric.res (evKey cfg e).ts).1).1 < 0) := by omega
    simp only [nd, nd2, not_false_eq_true, true_and] at g1
    have first : (getMV (shardApply cfg st (evKey cfg e) (shard1 cfg) 0 f).1 a).cnt =
        (getMV st a).cnt + (if (resolveTs cfg.now cfg.metric.res (eventTs cfg e)).2 = true ∧
          a = clampAddr cfg (evKey cfg e) (shard1 cfg) then 1 else 0) := by
      rw [g1]
      by_cases hc : (resolveTs cfg.now cfg.metric.res (evKey cfg e).ts).2 = true ∧ a = clampAddr cfg (evKey cfg e) (shard1 cfg)
      · have hc' : (resolveTs cfg.now cfg.metric.res (eventTs cfg e)).2 = true ∧ a = clampAddr cfg (evKey cfg e) (shard1 cfg) := hc
        simp only [hc, and_self, if_true, hc']
        exact addCount_one_cnt _ (hnn _)
      · have hc' : ¬ ((resolveTs cfg.now cfg.metric.res (eventTs cfg e)).2 = true ∧ a = clampAddr cfg (evKey cfg e) (shard1 cfg)) := hc
        simp only [hc, if_false, hc', add_zero]
    rcases both_cases cfg (payEffect e) with ⟨_, hb⟩ | ⟨s2, _, _, hb⟩
    · simp only [hb, List.foldl_cons, List.foldl_nil, hrun, Option.isSome_some, true_and]
      exact first
    · simp only [hb, List.foldl_cons, List.foldl_nil, hrun, Option.isSome_some, true_and]
      rw [shardApply_key]
      have hm2 : a.metric ≠ (keyAfter cfg (evKey cfg e)).metric := hm
      rw [shardApply_get_other_metric cfg _ (keyAfter cfg (evKey cfg e)) s2 cfg.metric.shard2Ts f a hm2]
      have : (resolveTs cfg.now cfg.metric.res (keyAfter cfg (evKey cfg e)).ts).2 = false :=
        resolveTs_second_not_clamped _ _ _
      simp only [this, Bool.false_eq_true, false_and, and_false, if_false]
      exact first

/-- **One event, every status row.** For any store with non-negative counts, any event of a user metric and any row of
    the two status metrics: the count grows by the number of status records ApplyMetric writes to it (ok, warnings or
    the rejection record, each in the metric's shard and its copy for a second shard) plus the clamped-future warning of
    the first shard. -/
theorem applyEvent_status_row (cfg : Cfg) (st : Store) (e : Event) (a : Addr) (wf : WF e) (hu : UserMetric cfg) (hnn : NN st)
    (ha : a.metric = statusMetricID ∨ a.metric = noShardMetricID) :
    (getMV (applyEvent cfg st e) a).cnt =
      (getMV st a).cnt + ((effects cfg e (header cfg.mapping e)).map (statusHit cfg a)).sum + clampHit cfg e a := by
  unfold clampHit
  by_cases hv : verdict cfg e = 0
  · obtain ⟨heff, _, _⟩ := accepted_effects cfg e wf hv
    have hz := (verdict_zero_iff cfg e wf).1 hv
    have hkm : keyMetric cfg e = cfg.metric.id := by simp [keyMetric, hz.2.1]
    have hpre : ∀ x ∈ statusBoth cfg (ktGetI (header cfg.mapping e).ktags 0) cfg.metric.id stOKCached (header cfg.mapping e).statusTagKey "-" ++
        warnings cfg (header cfg.mapping e) (ktGetI (header cfg.mapping e).ktags 0) cfg.metric.id, IsBuiltinStatus x := by
      intro x hx
      rcases List.mem_append.1 hx with hx | hx
      · exact statusBoth_builtin _ _ _ _ _ _ x hx
      · exact warnings_builtin _ _ _ _ x hx
    have hst : ∀ x ∈ statusBoth cfg (ktGetI (header cfg.mapping e).ktags 0) cfg.metric.id stOKCached (header cfg.mapping e).statusTagKey "-" ++
        warnings cfg (header cfg.mapping e) (ktGetI (header cfg.mapping e).ktags 0) cfg.metric.id, x.isStatus = true := by
      intro x hx; obtain ⟨_, _, _, _, _, _, rfl, _⟩ := hpre x hx; rfl
    unfold applyEvent
    simp only []
    rw [heff, List.foldl_append, List.map_append, List.sum_append, payload_hits_zero, add_zero]
    generalize hs1 : (statusBoth cfg (ktGetI (header cfg.mapping e).ktags 0) cfg.metric.id stOKCached (header cfg.mapping e).statusTagKey "-" ++
        warnings cfg (header cfg.mapping e) (ktGetI (header cfg.mapping e).ktags 0) cfg.metric.id).foldl (runEffect cfg)
        (st, ({ metric := keyMetric cfg e, ts := eventTs cfg e, ktags := (header cfg.mapping e).ktags } : EvKey)) = s1
    have hcnt := foldl_status_cnt cfg _ (st, ({ metric := keyMetric cfg e, ts := eventTs cfg e, ktags := (header cfg.mapping e).ktags } : EvKey)) a hnn hst
    have hkey := foldl_status_key cfg _ (st, ({ metric := keyMetric cfg e, ts := eventTs cfg e, ktags := (header cfg.mapping e).ktags } : EvKey)) hpre
    have hnn1 := foldl_NN cfg (statusBoth cfg (ktGetI (header cfg.mapping e).ktags 0) cfg.metric.id stOKCached (header cfg.mapping e).statusTagKey "-" ++
        warnings cfg (header cfg.mapping e) (ktGetI (header cfg.mapping e).ktags 0) cfg.metric.id)
        (st, ({ metric := keyMetric cfg e, ts := eventTs cfg e, ktags := (header cfg.mapping e).ktags } : EvKey)) hnn
    rw [hs1] at hcnt hkey hnn1
    have hs1' : s1 = (s1.1, evKey cfg e) := by
      have : s1.2 = evKey cfg e := hkey
      rw [← this]
    have hma : a.metric ≠ (evKey cfg e).metric := by
      show a.metric ≠ keyMetric cfg e
      rw [hkm]; rcases ha with ha | ha <;> rw [ha] <;> [exact hu.1.symm; exact hu.2.symm]
    rw [hs1', payload_get_status_cnt cfg e s1.1 a hnn1 hma, hcnt]
    simp only [hv, true_and]
  · simp only [hv, false_and, if_false, add_zero]
    unfold applyEvent
    exact foldl_status_cnt cfg _ _ a hnn (fun x hx => ((rejected_record_count cfg e hv).1 x hx).1)

/-- **Every event list, every status row**: ok rows, warning rows, error rows and clamped-future rows alike read the old
    count plus, summed over the events, the status records and clamped-future warnings addressed to them. -/
theorem applyAll_status_row (cfg : Cfg) (st : Store) (evs : List Event) (a : Addr)
    (hwf : ∀ e ∈ evs, WF e) (hu : UserMetric cfg) (hnn : NN st) (ha : a.metric = statusMetricID ∨ a.metric = noShardMetricID) :
    (getMV (applyAll cfg st evs) a).cnt = (getMV st a).cnt +
      (evs.map (fun e => ((effects cfg e (header cfg.mapping e)).map (statusHit cfg a)).sum + clampHit cfg e a)).sum := by
  induction evs generalizing st with
  | nil => simp [applyAll]
  | cons e es ih =>
    rw [applyAll_cons, ih _ (fun x hx => hwf x (List.mem_cons_of_mem _ hx)) (applyEvent_NN cfg st e hnn),
      applyEvent_status_row cfg st e a (hwf e List.mem_cons_self) hu hnn ha]
    simp only [List.map_cons, List.sum_cons]; ring

/-- only rows whose status tag is "clamped future" can receive a clamped-future warning -/
theorem clampHit_code (cfg : Cfg) (e : Event) (a : Addr) (h : codeOf a ≠ stWarnTimestampClampedFuture) : clampHit cfg e a = 0 := by
  unfold clampHit
  split
  · rename_i hc
    exfalso; apply h
    rw [hc.2.2.2]; simp [codeOf, clampAddr, statusAddr, clampedTags, ktGetI_tagsOfList]
  · rfl

/-- for every sharding strategy -/
theorem applyAllH_status_row (cfg : Cfg) (st : Store) (evs : List Event) (a : Addr)
    (hwf : ∀ e ∈ evs, WF e) (hu : UserMetric cfg) (hnn : NN st) (ha : a.metric = statusMetricID ∨ a.metric = noShardMetricID) :
    (getMV (applyAllH cfg st evs) a).cnt = (getMV st a).cnt +
      (evs.map (fun e => ((effects (effCfg cfg e) e (header (effCfg cfg e).mapping e)).map (statusHit (effCfg cfg e) a)).sum +
        clampHit (effCfg cfg e) e a)).sum := by
  induction evs generalizing st with
  | nil => simp [applyAllH]
  | cons e es ih =>
    have i := ih (applyEventH cfg st e) (fun x hx => hwf x (List.mem_cons_of_mem _ hx)) (applyEvent_NN (effCfg cfg e) st e hnn)
    have r := applyEvent_status_row (effCfg cfg e) st e a (hwf e List.mem_cons_self) (effCfg_user cfg e hu) hnn ha
    show (getMV (applyAllH cfg (applyEventH cfg st e) es) a).cnt = _
    rw [i]; unfold applyEventH; rw [r]
    simp only [List.map_cons, List.sum_cons]; ring

/-- the whole row for every sharding strategy -/
theorem applyAllH_rowMV (cfg : Cfg) (st : Store) (evs : List Event) (a : Addr) (hwf : ∀ e ∈ evs, WF e) (ha : UserAddr a) :
    getMV (applyAllH cfg st evs) a =
      evs.foldl (fun mv e => (evFn (effCfg cfg e).legacy (effCfg cfg e).metric.pct e)^[hitsN (effCfg cfg e) e a] mv) (getMV st a) := by
  induction evs generalizing st with
  | nil => rfl
  | cons e es ih =>
    show getMV (applyAllH cfg (applyEventH cfg st e) es) a = _
    rw [ih _ (fun x hx => hwf x (List.mem_cons_of_mem _ hx))]
    unfold applyEventH
    rw [applyEvent_rowMV (effCfg cfg e) st e a (hwf e List.mem_cons_self) ha]
    rfl



/-! #### non-vacuity for the aggregate and status-row theorems -/

/-- a second event for the same row: single value 1, no counter -/
def exEvent2 : Event := { exEvent with values := [ofBits 0x3ff0000000000000], hist := [], counter := ofBits 0 }
/-- a unique event for the same row: hashes 5, 5, 9 -/
def exUniqEvent : Event := { exEvent with values := [], hist := [], uniq := [5, 5, 9], counter := ofBits 0 }

example : evVals exEvent = [2, 4, 6] ∧ evSq exEvent = (4 + 16 + 72) * 8 / 4 ∧ evUniq exUniqEvent = [5, 5, 9] := by decide +kernel
example : hitsN exCfg exEvent (addr1 exCfg exEvent) = 1 ∧ hitsN exCfg exEvent (addr2 exCfg exEvent 2) = 1 ∧
    hitsN exCfg { exEvent with values := [ofBits 0x7ff8000000000000] } (addr1 exCfg exEvent) = 0 := by decide +kernel
example : rowVals exCfg [exEvent, { exEvent with values := [ofBits 0x7ff8000000000000] }, exEvent2] (addr1 exCfg exEvent) = [2, 4, 6, 1] := by
  decide +kernel
/-- accepted, rejected, accepted, unique: min 1, max 9, Σ squares 184 + 1 + 131/… (exact), two distinct hashes, TDigest present -/
example :
    let r := getMV (applyAll exCfg [] [exEvent, { exEvent with values := [ofBits 0x7ff8000000000000] }, exEvent2, exUniqEvent]) (addr1 exCfg exEvent)
    r.set = true ∧ r.min = 1 ∧ r.max = 9 ∧ r.sq = 184 + 1 + (25 + 25 + 81) ∧ r.uniq.length = 2 ∧ r.td = true ∧ r.cnt = 8 + 1 + 3 := by
  decide +kernel
example : exEvent.uniq.length = 0 ∧ exEvent.hist.length + exEvent.values.length ≠ 0 ∧
    0 < effCount exEvent.counter.toRat (histTotal exEvent.values exEvent.hist) ∧ 0 < histTotal exEvent.values exEvent.hist := by
  decide +kernel

/-- an event 100 s in the future: clamped to now+3, one clamped-future warning in the first shard, none in the second -/
def exFuture : Event := { exEvent with ts := 1100 }
example : clampHit exCfg exFuture (clampAddr exCfg (evKey exCfg exFuture) 1) = 1 ∧
    clampHit exCfg exFuture (clampAddr exCfg (evKey exCfg exFuture) 2) = 0 ∧ clampHit exCfg exEvent (clampAddr exCfg (evKey exCfg exFuture) 1) = 0 := by
  decide +kernel
example : (getMV (applyAll exCfg [] [exFuture, exEvent, exFuture]) (clampAddr exCfg (evKey exCfg exFuture) 1)).cnt = 2 ∧
    (getMV (applyAll exCfg [] [exFuture, exEvent, exFuture]) (addr1 exCfg exFuture)).cnt = 16 ∧ (addr1 exCfg exFuture).ts = 1003 := by
  decide +kernel

/-- a tag the metric does not know: warning row "tag name not found" with the name as string top -/
def exUnknownTag : TagIn :=
  { isEnv := false, metaIdx := none, rawKind := 0, legacy := false, keyNorm := some "6e6f", keyHex := "3665", draft := false,
    corrupted := false, valNorm := some "78", valHex := "3738", raw := none, raw64 := none }
def exWarnAddr : Addr := statusAddr exCfg 1 statusMetricID statusMetricRes 0 (stTags 0 7 stWarnMapTagNameNotFound 0) "6e6f"
example : exWarnAddr.metric = statusMetricID ∧ codeOf exWarnAddr = stWarnMapTagNameNotFound := by decide +kernel
example : (getMV (applyAll exCfg [] [{ exEvent with tags := [exTag, exUnknownTag] }, exEvent, { exEvent with tags := [exUnknownTag] }]) exWarnAddr).cnt = 2 := by
  decide +kernel




/-! ### the legacy value-application mode (Config.LegacyApplyValues) contributes exactly like the default mode -/

/-- equality of every aggregate of a row except the TDigest flag -/
def EqButTd (a b : MV) : Prop :=
  a.cnt = b.cnt ∧ a.set = b.set ∧ a.min = b.min ∧ a.max = b.max ∧ a.sum = b.sum ∧ a.sq = b.sq ∧ a.uniq = b.uniq

theorem EqButTd.refl (a : MV) : EqButTd a a := ⟨rfl, rfl, rfl, rfl, rfl, rfl, rfl⟩

theorem addCount_congr (c : Rat) (a b : MV) (h : EqButTd a b) : EqButTd (addCount c a) (addCount c b) := by
  obtain ⟨h1, h2, h3, h4, h5, h6, h7⟩ := h
  unfold addCount
  rw [h1]
  split
  · exact ⟨h1, h2, h3, h4, h5, h6, h7⟩
  · split
    · exact ⟨rfl, h2, h3, h4, h5, h6, h7⟩
    · exact ⟨rfl, h2, h3, h4, h5, h6, h7⟩

theorem mvMerge_congr (o a b : MV) (h : EqButTd a b) : EqButTd (mvMerge a o) (mvMerge b o) := by
  obtain ⟨g1, g2, g3, g4, g5, g6, g7⟩ := addCount_congr o.cnt a b h
  unfold mvMerge
  simp only
  split
  · exact ⟨g1, g2, g3, g4, g5, g6, g7⟩
  · refine ⟨g1, rfl, ?_, ?_, ?_, ?_, g7⟩
    · simp only [g2, g3]
    · simp only [g2, g4]
    · simp only [g5]
    · simp only [g6]

theorem setTd_eqButTd (m : MV) (b : Bool) : EqButTd { m with td := b } m := ⟨rfl, rfl, rfl, rfl, rfl, rfl, rfl⟩

theorem EqButTd.trans {a b c : MV} (h1 : EqButTd a b) (h2 : EqButTd b c) : EqButTd a c :=
  ⟨h1.1.trans h2.1, h1.2.1.trans h2.2.1, h1.2.2.1.trans h2.2.2.1, h1.2.2.2.1.trans h2.2.2.2.1,
   h1.2.2.2.2.1.trans h2.2.2.2.2.1, h1.2.2.2.2.2.1.trans h2.2.2.2.2.2.1, h1.2.2.2.2.2.2.trans h2.2.2.2.2.2.2⟩

theorem EqButTd.symm {a b : MV} (h : EqButTd a b) : EqButTd b a :=
  ⟨h.1.symm, h.2.1.symm, h.2.2.1.symm, h.2.2.2.1.symm, h.2.2.2.2.1.symm, h.2.2.2.2.2.1.symm, h.2.2.2.2.2.2.symm⟩

/-- both modes, on rows that agree except for the flag, give rows that agree except for the flag -/
theorem valuesFn_congr (lg lg' pct : Bool) (vals : List (Rat × Rat)) (c t : Rat) (a b : MV) (h : EqButTd a b) :
    EqButTd (valuesFn lg pct vals c t a) (valuesFn lg' pct vals c t b) := by
  have core := mvMerge_congr (scale c t (tmpOf c vals)) a b h
  have e1 : ∀ (l : Bool) (x : MV), EqButTd (valuesFn l pct vals c t x) (if t ≤ 0 then x else mvMerge x (scale c t (tmpOf c vals))) := by
    intro l x
    unfold valuesFn mvApplyValues mvApplyValuesLegacy
    by_cases ht : t ≤ 0
    · simp only [if_pos ht]; split <;> exact EqButTd.refl _
    · simp only [if_neg ht]
      split
      · split
        · exact setTd_eqButTd _ _
        · exact EqButTd.refl _
      · split
        · exact setTd_eqButTd _ _
        · exact EqButTd.refl _
  refine (e1 lg a).trans (EqButTd.trans ?_ (e1 lg' b).symm)
  by_cases ht : t ≤ 0
  · simp only [if_pos ht]; exact h
  · simp only [if_neg ht]; exact core

/-- **`legacy_eq_default`.** MultiValue.ApplyValuesLegacy and MultiValue.ApplyValues give the same count, sum, min, max,
    sum of squares and unique set for every row and every argument (so the same count and average contribution for every
    accepted event); they differ at most in when the TDigest is created, and not at all for metrics without percentiles. -/
theorem legacy_eq_default (pct : Bool) (vals : List (Rat × Rat)) (c t : Rat) (mv : MV) :
    EqButTd (mvApplyValuesLegacy pct vals c t mv) (mvApplyValues pct vals c t mv) ∧
    (pct = false → mvApplyValuesLegacy pct vals c t mv = mvApplyValues pct vals c t mv) := by
  refine ⟨valuesFn_congr true false pct vals c t mv mv (EqButTd.refl mv), ?_⟩
  intro hp
  subst hp
  unfold mvApplyValuesLegacy mvApplyValues
  split
  · rfl
  · simp

theorem mvApplyUnique_congr (hashes : List Int) (c : Rat) (a b : MV) (h : EqButTd a b) :
    EqButTd (mvApplyUnique hashes c a) (mvApplyUnique hashes c b) := by
  unfold mvApplyUnique
  split
  · exact h
  · obtain ⟨g1, g2, g3, g4, g5, g6, _⟩ := mvMerge_congr (scale c (hashes.length : Rat) (tmpOf c (hashes.map (fun (h : Int) => ((h : Rat), (1 : Rat)))))) a b h
    exact ⟨g1, g2, g3, g4, g5, g6, by simp only [h.2.2.2.2.2.2]⟩

/-- the row update of an event in either mode -/
theorem evFn_congr (lg lg' pct : Bool) (e : Event) (a b : MV) (h : EqButTd a b) :
    EqButTd (evFn lg pct e a) (evFn lg' pct e b) := by
  unfold evFn payFn
  by_cases hu : e.uniq.length ≠ 0
  · simp only [if_pos hu]
    by_cases hc : effCount e.counter.toRat (e.uniq.length : Rat) ≤ 0
    · simp only [if_pos hc]; exact h
    · simp only [if_neg hc]; exact mvApplyUnique_congr _ _ _ _ h
  · simp only [if_neg hu]
    by_cases hv : e.hist.length + e.values.length ≠ 0
    · simp only [if_pos hv]
      by_cases hc : effCount e.counter.toRat (histTotal e.values e.hist) ≤ 0
      · simp only [if_pos hc]; exact h
      · simp only [if_neg hc]; exact valuesFn_congr lg lg' pct _ _ _ _ _ h
    · simp only [if_neg hv]
      by_cases hc : e.counter.toRat ≤ 0
      · simp only [if_pos hc]; exact h
      · simp only [if_neg hc]; exact addCount_congr _ _ _ h

theorem iterate_congr (lg lg' pct : Bool) (e : Event) (n : Nat) (a b : MV) (h : EqButTd a b) :
    EqButTd ((evFn lg pct e)^[n] a) ((evFn lg' pct e)^[n] b) := by
  induction n generalizing a b with
  | zero => exact h
  | succ k ih => rw [Function.iterate_succ_apply, Function.iterate_succ_apply]; exact ih _ _ (evFn_congr lg lg' pct e a b h)

/-- the same agent configuration with the legacy value-application mode switched on -/
def legacyOf (cfg : Cfg) : Cfg := { cfg with legacy := true }

/-- **Every event list: the legacy mode records the same rows.** Feed the same events to an agent in the default mode
    and to one in the legacy mode, starting from stores whose user rows agree up to the TDigest flag: afterwards every
    row of every user metric has the same count, sum (hence average), min, max, sum of squares and unique set. -/
theorem legacy_rows_eq_default (cfg : Cfg) (st stL : Store) (evs : List Event) (a : Addr)
    (hwf : ∀ e ∈ evs, WF e) (ha : UserAddr a) (hl : cfg.legacy = false) (h0 : EqButTd (getMV stL a) (getMV st a)) :
    EqButTd (getMV (applyAll (legacyOf cfg) stL evs) a) (getMV (applyAll cfg st evs) a) := by
  rw [applyAll_rowMV (legacyOf cfg) stL evs a hwf ha, applyAll_rowMV cfg st evs a hwf ha]
  generalize getMV stL a = x at h0 ⊢
  generalize getMV st a = y at h0 ⊢
  induction evs generalizing x y with
  | nil => exact h0
  | cons e es ih =>
    simp only [List.foldl_cons]
    apply ih (fun z hz => hwf z (List.mem_cons_of_mem _ hz))
    have hh : hitsN (legacyOf cfg) e a = hitsN cfg e a := rfl
    rw [hh]
    exact iterate_congr _ _ _ e _ x y h0

example : legacyOf exCfg ≠ exCfg ∧ exCfg.legacy = false := by decide +kernel
/-- the example event in the legacy mode: same count 8 and sum 36, TDigest created -/
example : (getMV (applyAll (legacyOf exCfg) [] [exEvent]) (addr1 exCfg exEvent)).cnt = 8 ∧
    (getMV (applyAll (legacyOf exCfg) [] [exEvent]) (addr1 exCfg exEvent)).sum = 36 ∧
    (getMV (applyAll (legacyOf exCfg) [] [exEvent2]) (addr1 exCfg exEvent)).td = true ∧
    (getMV (applyAll exCfg [] [exEvent2]) (addr1 exCfg exEvent)).td = false := by decide +kernel


end SH.Props.C12
