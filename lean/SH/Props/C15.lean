/-
  C15 — Metadata edits are versioned and optimistic-concurrency safe.

  "An entity edit succeeds only when it names the entity's current version, and every successful create or edit
   assigns a new, globally unique version greater than all previous ones; of several edits racing from the same
   version exactly one succeeds. Entity names are unique per type (and namespace), namespaces cannot be renamed,
   entities in a namespace must reference an existing namespace, and the journal returns each entity's latest
   version exactly once in ascending version order."

  Model: SH.Model.Meta (`save` = SaveEntity with fixes/C15-builtin-namespace-rename.diff, `saveV .old` = pinned tree).
  A history is an arbitrary `List Op` (entity saves interleaved with mapping operations); concurrency = every
  interleaving of whole requests, because `eng.Do` runs the callbacks one at a time on the single RW connection.
-/
import SH.Model.Meta

namespace SH.C15
open SH.Meta

/-! ### list helpers -/

theorem le_maxVer : ∀ (l : List Entity) (e : Entity), e ∈ l → e.version ≤ maxVer l := by
  intro l
  induction l with
  | nil => intro e h; cases h
  | cons x xs ih =>
    intro e h
    simp only [maxVer, List.foldr_cons] at *
    rcases List.mem_cons.mp h with h | h
    · subst h; exact Nat.le_max_left _ _
    · exact Nat.le_trans (ih e h) (Nat.le_max_right _ _)

theorem maxVer_le : ∀ (l : List Entity) (m : Nat), (∀ e ∈ l, e.version ≤ m) → maxVer l ≤ m := by
  intro l
  induction l with
  | nil => intro m _; simp [maxVer]
  | cons x xs ih =>
    intro m h
    simp only [maxVer, List.foldr_cons] at *
    exact Nat.max_le.mpr ⟨h x (List.mem_cons_self), ih m (fun e he => h e (List.mem_cons_of_mem _ he))⟩

theorem mem_insertById (e x : Entity) : ∀ l : List Entity, x ∈ insertById e l ↔ x = e ∨ x ∈ l := by
  intro l
  induction l with
  | nil => simp [insertById]
  | cons y ys ih =>
    simp only [insertById]
    split
    · simp
    · simp only [List.mem_cons, ih]
      constructor
      · rintro (h | h | h)
        · exact Or.inr (Or.inl h)
        · exact Or.inl h
        · exact Or.inr (Or.inr h)
      · rintro (h | h | h)
        · exact Or.inr (Or.inl h)
        · exact Or.inl h
        · exact Or.inr (Or.inr h)

theorem mem_replaceRow (r' x : Entity) (l : List Entity) :
    x ∈ replaceRow r' l ↔ (x = r' ∧ ∃ e ∈ l, e.id = r'.id) ∨ (x ∈ l ∧ x.id ≠ r'.id) := by
  unfold replaceRow
  simp only [List.mem_map]
  constructor
  · rintro ⟨e, he, hx⟩
    by_cases h : e.id = r'.id
    · simp [h] at hx; exact Or.inl ⟨hx.symm, e, he, h⟩
    · simp [h] at hx; subst hx; exact Or.inr ⟨he, h⟩
  · rintro (⟨hx, e, he, h⟩ | ⟨hx, h⟩)
    · exact ⟨e, he, by simp [h, hx]⟩
    · exact ⟨x, hx, by simp [h]⟩

theorem rowOf_some {l : List Entity} {id : Int} {r : Entity} (h : rowOf l id = some r) : r ∈ l ∧ r.id = id := by
  unfold rowOf at h
  have h1 := List.mem_of_find?_eq_some h
  have h2 := List.find?_some h
  exact ⟨h1, by simpa using h2⟩

theorem rowOf_none {l : List Entity} {id : Int} (h : rowOf l id = none) : ∀ e ∈ l, e.id ≠ id := by
  unfold rowOf at h
  intro e he
  have := List.find?_eq_none.mp h e he
  simpa using this


/-! ### the shape of one SaveEntity transaction -/

def createdState (s : State) (a : SaveReq) (nsId : Int) : State :=
  { s with ents := insertById (createdRow a (newId s a) (maxVer s.ents + 1) nsId) s.ents, entSeq := newSeq s a,
           hist := s.hist ++ [mkEvent a (newId s a) (maxVer s.ents + 1) nsId] }

def editedState (s : State) (a : SaveReq) (r : Entity) (nsId : Int) : State :=
  { s with ents := replaceRow (editedRow r a (maxVer s.ents + 1) nsId) s.ents,
           hist := s.hist ++ [mkEvent a r.id (maxVer s.ents + 1) nsId] }

/-- every save is a failure that leaves the state untouched, a create or an edit -/
inductive Shape (var : Variant) (s : State) (a : SaveReq) : State × SaveOut → Prop
  | err (e : Err) : Shape var s a (s, .err e)
  | created (nsId : Int) (hns : resolveNs s a = .ok nsId)
      (hc : conflict s.ents (newId s a) nsId a.typ a.name = false)
      (hb : createBlocked s a = false) (he : effCreate s a = true) :
      Shape var s a (createdState s a nsId, .ok (mkEvent a (newId s a) (maxVer s.ents + 1) nsId) true)
  | edited (nsId : Int) (r : Entity) (hns : resolveNs s a = .ok nsId)
      (hr : rowOf s.ents a.id = some r) (hv : r.version = a.oldVersion)
      (hc : conflict s.ents r.id nsId r.typ a.name = false)
      (hck : checkNamespace s a = none) (hlate : lateCheck var s a = none)
      (hb : createBlocked s a = false) (he : effCreate s a = false) (htyp : typeMatches var r a = true) :
      Shape var s a (editedState s a r nsId, .ok (mkEvent a r.id (maxVer s.ents + 1) nsId) false)

theorem saveEdit_shape (var : Variant) (s : State) (a : SaveReq) (nsId : Int)
    (hns : resolveNs s a = .ok nsId) (hck : checkNamespace s a = none) (hlate : lateCheck var s a = none)
    (hb : createBlocked s a = false) (he : effCreate s a = false) :
    Shape var s a (saveEdit var s a nsId) := by
  unfold saveEdit
  cases hr : rowOf s.ents a.id with
  | none => exact .err _
  | some r =>
    simp only
    by_cases hv : rowMatches var r a = true
    · simp only [hv, if_true]
      by_cases hc : conflict s.ents r.id nsId r.typ a.name = true
      · simp only [hc, if_true]; exact .err _
      · simp only [hc]
        have hv2 : versionMatches r a = true ∧ typeMatches var r a = true := by simpa [rowMatches] using hv
        have hv' : r.version = a.oldVersion := by simpa [versionMatches] using hv2.1
        exact .edited nsId r hns hr hv' (by simpa using hc) hck hlate hb he hv2.2
    · simp only [hv]; exact .err _

theorem saveCreate_shape (var : Variant) (s : State) (a : SaveReq) (nsId : Int)
    (hns : resolveNs s a = .ok nsId) (hb : createBlocked s a = false) (he : effCreate s a = true) :
    Shape var s a (saveCreate s a nsId) := by
  unfold saveCreate
  by_cases hc : conflict s.ents (newId s a) nsId a.typ a.name = true
  · simp only [hc, if_true]; exact .err _
  · simp only [hc]
    exact .created nsId hns (by simpa using hc) hb he

theorem save_shape (var : Variant) (s : State) (a : SaveReq) : Shape var s a (saveV var s a) := by
  unfold saveV
  cases hck : checkNamespace s a with
  | some e => exact .err e
  | none =>
    simp only
    cases hns : resolveNs s a with
    | error e => exact .err e
    | ok nsId =>
      simp only
      unfold saveResolved
      by_cases hb : createBlocked s a = true
      · simp only [hb, if_true]; exact .err _
      · simp only [hb]
        have hb' : createBlocked s a = false := by simpa using hb
        by_cases he : effCreate s a = true
        · simp only [he, if_true]; exact saveCreate_shape var s a nsId hns hb' he
        · simp only [he]
          have he' : effCreate s a = false := by simpa using he
          cases hl : lateCheck var s a with
          | some e => exact .err e
          | none => exact saveEdit_shape var s a nsId hns hck hl hb' he'


/-! ### the invariant of the entity tables -/

structure Inv (s : State) : Prop where
  idUniq : ∀ e1 ∈ s.ents, ∀ e2 ∈ s.ents, e1.id = e2.id → e1 = e2
  verUniq : ∀ e1 ∈ s.ents, ∀ e2 ∈ s.ents, e1.version = e2.version → e1 = e2
  histBound : ∀ h ∈ s.hist, h.version ≤ maxVer s.ents
  histAsc : s.hist.Pairwise (fun h1 h2 => h1.version < h2.version)
  seqBound : ∀ e ∈ s.ents, e.id ≤ (s.entSeq : Int)
  nameUniq : ∀ e1 ∈ s.ents, ∀ e2 ∈ s.ents, e1.nsId = e2.nsId → e1.typ = e2.typ → e1.name = e2.name → e1 = e2
  refOk : ∀ e ∈ s.ents, e.nsId ≠ 0 → ∃ n ∈ s.ents, n.id = e.nsId ∧ n.typ = tNamespace

theorem inv_empty : Inv State.empty := by
  constructor <;> simp [State.empty, maxVer]

theorem conflict_false {ents : List Entity} {selfId nsId : Int} {typ : Nat} {name : Name}
    (h : conflict ents selfId nsId typ name = false) :
    ∀ e ∈ ents, e.id ≠ selfId → ¬ (e.nsId = nsId ∧ e.typ = typ ∧ e.name = name) := by
  intro e he hid hx
  unfold conflict at h
  have := List.any_eq_false.mp h e he
  simp [hid, hx.1, hx.2.1, hx.2.2] at this

theorem newId_fresh (s : State) (a : SaveReq) (hi : Inv s) (he : effCreate s a = true) :
    ∀ e ∈ s.ents, e.id ≠ newId s a := by
  intro e hmem
  unfold newId
  unfold effCreate at he
  by_cases hneg : a.id < 0
  · simp only [hneg, if_true] at he ⊢
    have : rowOf s.ents a.id = none := by simpa using he
    exact rowOf_none this e hmem
  · simp only [hneg]
    have := hi.seqBound e hmem
    push_cast
    omega

theorem resolveNs_ref {s : State} {a : SaveReq} {nsId : Int} (h : resolveNs s a = .ok nsId) :
    nsId = 0 ∨ ∃ n ∈ s.ents, n.id = nsId ∧ n.typ = tNamespace ∧ n.name = ⟨0, a.name.ns⟩ ∧ needsNs a = true := by
  unfold resolveNs at h
  by_cases hn : needsNs a = true
  · simp only [hn, if_true] at h
    cases hl : nsLookup s.ents a.name.ns with
    | none => simp [hl] at h
    | some n =>
      simp only [hl] at h
      injection h with h
      unfold nsLookup at hl
      have h1 := List.mem_of_find?_eq_some hl
      have h2 := List.find?_some hl
      simp only [Bool.and_eq_true, beq_iff_eq] at h2
      exact Or.inr ⟨n, h1, h, h2.1, h2.2, hn⟩
  · simp only [hn] at h
    injection h with h
    exact Or.inl h.symm

/-- rows are never removed and keep their id and type -/
theorem shape_persist {var : Variant} {s : State} {a : SaveReq} {p : State × SaveOut} (hi : Inv s) (hs : Shape var s a p) :
    ∀ n ∈ s.ents, ∃ n' ∈ p.1.ents, n'.id = n.id ∧ n'.typ = n.typ := by
  intro n hn
  cases hs with
  | err e => exact ⟨n, hn, rfl, rfl⟩
  | created nsId hns hc hb he =>
    exact ⟨n, (mem_insertById _ _ _).mpr (Or.inr hn), rfl, rfl⟩
  | edited nsId r hns hr hv hc hck hlate hb he =>
    obtain ⟨hrm, hrid⟩ := rowOf_some hr
    by_cases h : n.id = r.id
    · have hnr : n = r := hi.idUniq n hn r hrm h
      subst hnr
      exact ⟨editedRow n a (maxVer s.ents + 1) nsId, (mem_replaceRow _ _ _).mpr (Or.inl ⟨rfl, n, hrm, rfl⟩), rfl, rfl⟩
    · exact ⟨n, (mem_replaceRow _ _ _).mpr (Or.inr ⟨hn, h⟩), rfl, rfl⟩


theorem hist_lt_new {s : State} (hi : Inv s) : ∀ h ∈ s.hist, h.version < maxVer s.ents + 1 :=
  fun h hh => Nat.lt_succ_of_le (hi.histBound h hh)

theorem inv_created {s : State} {a : SaveReq} {nsId : Int} (hi : Inv s) (hns : resolveNs s a = .ok nsId)
    (hc : conflict s.ents (newId s a) nsId a.typ a.name = false) (he : effCreate s a = true) :
    Inv (createdState s a nsId) := by
  have hfresh := newId_fresh s a hi he
  have hmem : ∀ x, x ∈ (createdState s a nsId).ents ↔
      x = createdRow a (newId s a) (maxVer s.ents + 1) nsId ∨ x ∈ s.ents := fun x => mem_insertById _ _ _
  have hnewmem : createdRow a (newId s a) (maxVer s.ents + 1) nsId ∈ (createdState s a nsId).ents :=
    (hmem _).mpr (Or.inl rfl)
  have hmax : maxVer s.ents + 1 ≤ maxVer (createdState s a nsId).ents := le_maxVer _ _ hnewmem
  constructor
  · intro e1 h1 e2 h2 hid
    rcases (hmem e1).mp h1 with h1 | h1 <;> rcases (hmem e2).mp h2 with h2 | h2
    · rw [h1, h2]
    · subst h1; exact absurd hid.symm (by simpa [createdRow] using hfresh e2 h2)
    · subst h2; exact absurd hid (by simpa [createdRow] using hfresh e1 h1)
    · exact hi.idUniq e1 h1 e2 h2 hid
  · intro e1 h1 e2 h2 hv
    rcases (hmem e1).mp h1 with h1 | h1 <;> rcases (hmem e2).mp h2 with h2 | h2
    · rw [h1, h2]
    · subst h1; have := le_maxVer _ _ h2; simp [createdRow] at hv; omega
    · subst h2; have := le_maxVer _ _ h1; simp [createdRow] at hv; omega
    · exact hi.verUniq e1 h1 e2 h2 hv
  · intro h hh
    simp only [createdState, List.mem_append, List.mem_singleton] at hh
    rcases hh with hh | hh
    · have := hi.histBound h hh; omega
    · subst hh; simpa [mkEvent] using hmax
  · simp only [createdState]
    refine List.pairwise_append.mpr ⟨hi.histAsc, by simp, ?_⟩
    intro h1 hh1 h2 hh2
    simp only [List.mem_singleton] at hh2
    subst hh2
    simpa [mkEvent] using hist_lt_new hi h1 hh1
  · intro e h
    rcases (hmem e).mp h with h | h
    · subst h
      simp only [createdState, createdRow, newId, newSeq]
      by_cases hneg : a.id < 0
      · simp only [hneg, if_true]; omega
      · simp only [hneg]; push_cast; omega
    · have := hi.seqBound e h
      simp only [createdState, newSeq]
      by_cases hneg : a.id < 0
      · simp only [hneg, if_true]; exact this
      · simp only [hneg]; push_cast; omega
  · intro e1 h1 e2 h2 hn ht hname
    rcases (hmem e1).mp h1 with h1 | h1 <;> rcases (hmem e2).mp h2 with h2 | h2
    · rw [h1, h2]
    · subst h1
      exact absurd ⟨by simpa [createdRow] using hn.symm, by simpa [createdRow] using ht.symm,
        by simpa [createdRow] using hname.symm⟩ (conflict_false hc e2 h2 (hfresh e2 h2))
    · subst h2
      exact absurd ⟨by simpa [createdRow] using hn, by simpa [createdRow] using ht,
        by simpa [createdRow] using hname⟩ (conflict_false hc e1 h1 (hfresh e1 h1))
    · exact hi.nameUniq e1 h1 e2 h2 hn ht hname
  · intro e h hne
    rcases (hmem e).mp h with h | h
    · subst h
      rcases resolveNs_ref hns with h0 | ⟨n, hn, hid, ht, _, _⟩
      · exact absurd (by simpa [createdRow] using h0) hne
      · exact ⟨n, (hmem n).mpr (Or.inr hn), by simpa [createdRow] using hid, ht⟩
    · obtain ⟨n, hn, hid, ht⟩ := hi.refOk e h hne
      exact ⟨n, (hmem n).mpr (Or.inr hn), hid, ht⟩


theorem inv_edited {s : State} {a : SaveReq} {nsId : Int} {r : Entity} (hi : Inv s) (hns : resolveNs s a = .ok nsId)
    (hr : rowOf s.ents a.id = some r) (hc : conflict s.ents r.id nsId r.typ a.name = false) :
    Inv (editedState s a r nsId) := by
  obtain ⟨hrm, hrid⟩ := rowOf_some hr
  have hmem : ∀ x, x ∈ (editedState s a r nsId).ents ↔
      x = editedRow r a (maxVer s.ents + 1) nsId ∨ (x ∈ s.ents ∧ x.id ≠ r.id) := by
    intro x
    simp only [editedState]
    rw [mem_replaceRow]
    constructor
    · rintro (⟨h, _⟩ | h)
      · exact Or.inl h
      · exact Or.inr (by simpa [editedRow] using h)
    · rintro (h | h)
      · exact Or.inl ⟨h, r, hrm, by simp [editedRow]⟩
      · exact Or.inr (by simpa [editedRow] using h)
  have hnewmem : editedRow r a (maxVer s.ents + 1) nsId ∈ (editedState s a r nsId).ents := (hmem _).mpr (Or.inl rfl)
  have hmax : maxVer s.ents + 1 ≤ maxVer (editedState s a r nsId).ents := le_maxVer _ _ hnewmem
  -- every old row is still represented by a row with the same id and type
  have hkeep : ∀ n ∈ s.ents, ∃ n' ∈ (editedState s a r nsId).ents, n'.id = n.id ∧ n'.typ = n.typ := by
    intro n hn
    by_cases h : n.id = r.id
    · have hnr : n = r := hi.idUniq n hn r hrm h
      subst hnr
      exact ⟨_, hnewmem, rfl, rfl⟩
    · exact ⟨n, (hmem n).mpr (Or.inr ⟨hn, h⟩), rfl, rfl⟩
  constructor
  · intro e1 h1 e2 h2 hid
    rcases (hmem e1).mp h1 with h1 | h1 <;> rcases (hmem e2).mp h2 with h2 | h2
    · rw [h1, h2]
    · subst h1; exact absurd hid.symm (by simpa [editedRow] using h2.2)
    · subst h2; exact absurd hid (by simpa [editedRow] using h1.2)
    · exact hi.idUniq e1 h1.1 e2 h2.1 hid
  · intro e1 h1 e2 h2 hv
    rcases (hmem e1).mp h1 with h1 | h1 <;> rcases (hmem e2).mp h2 with h2 | h2
    · rw [h1, h2]
    · subst h1; have := le_maxVer _ _ h2.1; simp [editedRow] at hv; omega
    · subst h2; have := le_maxVer _ _ h1.1; simp [editedRow] at hv; omega
    · exact hi.verUniq e1 h1.1 e2 h2.1 hv
  · intro h hh
    simp only [editedState, List.mem_append, List.mem_singleton] at hh
    rcases hh with hh | hh
    · have := hi.histBound h hh; omega
    · subst hh; simpa [mkEvent] using hmax
  · simp only [editedState]
    refine List.pairwise_append.mpr ⟨hi.histAsc, by simp, ?_⟩
    intro h1 hh1 h2 hh2
    simp only [List.mem_singleton] at hh2
    subst hh2
    simpa [mkEvent] using hist_lt_new hi h1 hh1
  · intro e h
    rcases (hmem e).mp h with h | h
    · subst h; simpa [editedState, editedRow] using hi.seqBound r hrm
    · simpa [editedState] using hi.seqBound e h.1
  · intro e1 h1 e2 h2 hn ht hname
    rcases (hmem e1).mp h1 with h1 | h1 <;> rcases (hmem e2).mp h2 with h2 | h2
    · rw [h1, h2]
    · subst h1
      exact absurd ⟨by simpa [editedRow] using hn.symm, by simpa [editedRow] using ht.symm,
        by simpa [editedRow] using hname.symm⟩ (conflict_false hc e2 h2.1 h2.2)
    · subst h2
      exact absurd ⟨by simpa [editedRow] using hn, by simpa [editedRow] using ht,
        by simpa [editedRow] using hname⟩ (conflict_false hc e1 h1.1 h1.2)
    · exact hi.nameUniq e1 h1.1 e2 h2.1 hn ht hname
  · intro e h hne
    rcases (hmem e).mp h with h | h
    · subst h
      rcases resolveNs_ref hns with h0 | ⟨n, hn, hid, ht, _, _⟩
      · exact absurd (by simpa [editedRow] using h0) hne
      · obtain ⟨n', hn', hid', ht'⟩ := hkeep n hn
        exact ⟨n', hn', by simpa [editedRow, hid'] using hid, by rw [ht', ht]⟩
    · obtain ⟨n, hn, hid, ht⟩ := hi.refOk e h.1 hne
      obtain ⟨n', hn', hid', ht'⟩ := hkeep n hn
      exact ⟨n', hn', by rw [hid', hid], by rw [ht', ht]⟩

/-- SaveEntity preserves the invariant (both variants of the code) -/
theorem shape_inv {var : Variant} {s : State} {a : SaveReq} {p : State × SaveOut} (hi : Inv s) (hs : Shape var s a p) :
    Inv p.1 := by
  cases hs with
  | err e => exact hi
  | created nsId hns hc hb he => exact inv_created hi hns hc he
  | edited nsId r hns hr hv hc hck hlate hb he => exact inv_edited hi hns hr hc

theorem save_inv (s : State) (a : SaveReq) (hi : Inv s) : Inv (save s a).1 := shape_inv hi (save_shape .fixed s a)


/-! ### histories: the invariant holds in every reachable state -/

theorem inv_congr {s t : State} (h1 : t.ents = s.ents) (h2 : t.hist = s.hist) (h3 : t.entSeq = s.entSeq) (hi : Inv s) : Inv t := by
  constructor
  · rw [h1]; exact hi.idUniq
  · rw [h1]; exact hi.verUniq
  · rw [h1, h2]; exact hi.histBound
  · rw [h2]; exact hi.histAsc
  · rw [h1, h3]; exact hi.seqBound
  · rw [h1]; exact hi.nameUniq
  · rw [h1]; exact hi.refOk

theorem putMany_ents : ∀ (kvs : List (Nat × Int)) (s : State),
    (putMany s kvs).ents = s.ents ∧ (putMany s kvs).hist = s.hist ∧ (putMany s kvs).entSeq = s.entSeq := by
  intro kvs
  induction kvs with
  | nil => intro s; simp [putMany]
  | cons kv rest ih =>
    intro s
    obtain ⟨k, v⟩ := kv
    simp only [putMany]
    have := ih (putOne s k v)
    simpa [putOne] using this

theorem getOrCreate_ents (c : Cfg) (s : State) (m k now : Nat) :
    (getOrCreate c s m k now).1.ents = s.ents ∧ (getOrCreate c s m k now).1.hist = s.hist ∧
    (getOrCreate c s m k now).1.entSeq = s.entSeq := by
  unfold getOrCreate
  split
  · simp
  · unfold createMapping
    split
    · dsimp only
      split <;> simp [insertMapping]
    · simp [insertMapping]

/-- mapping operations do not touch the entity tables -/
theorem step_other (c : Cfg) (s : State) (op : Op) (h : ∀ a, op ≠ .save a) :
    (step c s op).ents = s.ents ∧ (step c s op).hist = s.hist ∧ (step c s op).entSeq = s.entSeq := by
  cases op with
  | save a => exact absurd rfl (h a)
  | getOrCreate m k now => exact getOrCreate_ents c s m k now
  | put kvs => exact putMany_ents kvs s
  | delete ids => simp [step, deleteIds]
  | reset m l now => simp only [step, resetFlood]; split <;> simp

theorem step_inv (c : Cfg) (s : State) (op : Op) (hi : Inv s) : Inv (step c s op) := by
  cases op with
  | save a => exact save_inv s a hi
  | getOrCreate m k now =>
    obtain ⟨h1, h2, h3⟩ := step_other c s (.getOrCreate m k now) (by intro a h; cases h)
    exact inv_congr h1 h2 h3 hi
  | put kvs =>
    obtain ⟨h1, h2, h3⟩ := step_other c s (.put kvs) (by intro a h; cases h)
    exact inv_congr h1 h2 h3 hi
  | delete ids =>
    obtain ⟨h1, h2, h3⟩ := step_other c s (.delete ids) (by intro a h; cases h)
    exact inv_congr h1 h2 h3 hi
  | reset m l now =>
    obtain ⟨h1, h2, h3⟩ := step_other c s (.reset m l now) (by intro a h; cases h)
    exact inv_congr h1 h2 h3 hi

theorem run_inv (c : Cfg) : ∀ (ops : List Op) (s : State), Inv s → Inv (run c s ops) := by
  intro ops
  induction ops with
  | nil => intro s hi; exact hi
  | cons op ops ih => intro s hi; exact ih _ (step_inv c s op hi)

/-- every state reachable from the empty database by any history of requests satisfies the invariant -/
theorem reachable_inv (c : Cfg) (ops : List Op) : Inv (run c State.empty ops) := run_inv c ops _ inv_empty

/-! ### C15.1  an edit succeeds only when it names the entity's current version -/

/-- "An entity edit succeeds only when it names the entity's current version": a successful save that did not create
    the entity found a row with the requested id whose version is exactly the requested old version. -/
theorem edit_needs_current_version (s : State) (a : SaveReq) (s' : State) (ev : Event)
    (h : save s a = (s', .ok ev false)) :
    ∃ r ∈ s.ents, r.id = a.id ∧ r.version = a.oldVersion ∧ ev.id = a.id := by
  have hs := save_shape .fixed s a
  unfold save at h
  rw [h] at hs
  cases hs with
  | edited nsId r hns hr hv hc hck hlate hb he =>
    obtain ⟨hrm, hrid⟩ := rowOf_some hr
    exact ⟨r, hrm, hrid, hv, by simpa [mkEvent] using hrid⟩

/-- … and the converse direction that matters for safety: a request that is an edit (not turned into a create) and
    names a version the entity does not have fails and leaves the state unchanged. -/
theorem stale_edit_rejected (s : State) (a : SaveReq) (hedit : effCreate s a = false)
    (hstale : ∀ r ∈ s.ents, r.id = a.id → r.version ≠ a.oldVersion) :
    ∃ e, save s a = (s, .err e) := by
  have hs := save_shape .fixed s a
  unfold save
  generalize saveV .fixed s a = p at hs
  cases hs with
  | err e => exact ⟨e, rfl⟩
  | created nsId hns hc hb he => rw [hedit] at he; cases he
  | edited nsId r hns hr hv hc hck hlate hb he =>
    obtain ⟨hrm, hrid⟩ := rowOf_some hr
    exact absurd hv (hstale r hrm hrid)

/-! ### C15.2  every successful save gets a new, globally unique version greater than all previous ones -/

/-- the new version is max+1: greater than every current version and (in reachable states) than every version that
    was ever assigned (the history keeps all of them) -/
theorem version_is_max_plus_one (s : State) (a : SaveReq) (s' : State) (ev : Event) (cr : Bool)
    (h : save s a = (s', .ok ev cr)) :
    ev.version = maxVer s.ents + 1 ∧ (∀ e ∈ s.ents, e.version < ev.version) ∧
    (Inv s → ∀ x ∈ s.hist, x.version < ev.version) ∧ (Inv s → maxVer s'.ents = ev.version) := by
  have hs := save_shape .fixed s a
  unfold save at h
  rw [h] at hs
  have hlt : ∀ e ∈ s.ents, e.version < maxVer s.ents + 1 := fun e he => Nat.lt_succ_of_le (le_maxVer _ _ he)
  cases hs with
  | created nsId hns hc hb he =>
    refine ⟨rfl, hlt, fun hi => hist_lt_new hi, fun hi => ?_⟩
    apply Nat.le_antisymm
    · apply maxVer_le
      intro e hmem
      rcases (mem_insertById _ _ _).mp hmem with h1 | h1
      · subst h1; simp [createdRow, mkEvent]
      · have := hlt e h1; simp only [mkEvent]; omega
    · exact le_maxVer _ (createdRow a (newId s a) (maxVer s.ents + 1) nsId) ((mem_insertById _ _ _).mpr (Or.inl rfl))
  | edited nsId r hns hr hv hc hck hlate hb he =>
    obtain ⟨hrm, hrid⟩ := rowOf_some hr
    refine ⟨rfl, hlt, fun hi => hist_lt_new hi, fun hi => ?_⟩
    apply Nat.le_antisymm
    · apply maxVer_le
      intro e hmem
      rcases (mem_replaceRow _ _ _).mp hmem with ⟨h1, _⟩ | ⟨h1, _⟩
      · subst h1; simp [editedRow, mkEvent]
      · have := hlt e h1; simp only [mkEvent]; omega
    · exact le_maxVer _ (editedRow r a (maxVer s.ents + 1) nsId) ((mem_replaceRow _ _ _).mpr (Or.inl ⟨rfl, r, hrm, rfl⟩))

/-- every successful edit — NO hypothesis on the payload: also one that re-saves the entity unchanged (same name, data, delete
    time) — gets the fresh maximal version, which is greater than the version it named, appends exactly one history row and leaves
    the entity's row at the new version (so the journal reports it) -/
theorem edit_assigns_fresh_max_version (s : State) (a : SaveReq) (s' : State) (ev : Event) (h : save s a = (s', .ok ev false)) :
    ev.version = maxVer s.ents + 1 ∧ a.oldVersion < ev.version ∧ s'.hist = s.hist ++ [ev] ∧
    ∃ r' ∈ s'.ents, r'.id = a.id ∧ r'.version = ev.version := by
  have hs := save_shape .fixed s a
  unfold save at h
  rw [h] at hs
  cases hs with
  | edited nsId r hns hr hv hc hck hlate hb he htyp =>
    obtain ⟨hrm, hrid⟩ := rowOf_some hr
    have hle := le_maxVer _ _ hrm
    refine ⟨rfl, by simp only [mkEvent]; omega, rfl, editedRow r a (maxVer s.ents + 1) nsId, ?_, hrid, rfl⟩
    exact (mem_replaceRow _ _ _).mpr (Or.inl ⟨rfl, r, hrm, rfl⟩)

/-- a failed save changes nothing -/
theorem failed_save_unchanged (s : State) (a : SaveReq) (e : Err) (h : (save s a).2 = .err e) : (save s a).1 = s := by
  have hs := save_shape .fixed s a
  unfold save at h ⊢
  generalize saveV .fixed s a = p at hs h
  cases hs with
  | err e => rfl
  | created nsId hns hc hb he => cases h
  | edited nsId r hns hr hv hc hck hlate hb he => cases h

theorem maxVer_mono_save (s : State) (a : SaveReq) (hi : Inv s) : maxVer s.ents ≤ maxVer (save s a).1.ents := by
  cases hout : (save s a).2 with
  | err e => rw [failed_save_unchanged s a e hout]; exact Nat.le_refl _
  | ok ev cr =>
    have h : save s a = ((save s a).1, .ok ev cr) := by rw [← hout]
    obtain ⟨h1, _, _, h4⟩ := version_is_max_plus_one s a _ ev cr h
    rw [h4 hi, h1]; exact Nat.le_succ _

/-- versions returned by the successful saves of a history, in order of execution -/
def okVersions (c : Cfg) : State → List Op → List Nat
  | _, [] => []
  | s, .save a :: ops =>
    match (save s a).2 with
    | .ok ev _ => ev.version :: okVersions c (save s a).1 ops
    | .err _ => okVersions c (save s a).1 ops
  | s, op :: ops => okVersions c (step c s op) ops

theorem okVersions_gt (c : Cfg) : ∀ (ops : List Op) (s : State), Inv s → ∀ v ∈ okVersions c s ops, maxVer s.ents < v := by
  intro ops
  induction ops with
  | nil => intro s _ v hv; simp [okVersions] at hv
  | cons op ops ih =>
    intro s hi v hv
    cases op with
    | save a =>
      simp only [okVersions] at hv
      have hmono := maxVer_mono_save s a hi
      cases hout : (save s a).2 with
      | err e =>
        simp only [hout] at hv
        exact Nat.lt_of_le_of_lt hmono (ih _ (save_inv s a hi) v hv)
      | ok ev cr =>
        simp only [hout, List.mem_cons] at hv
        rcases hv with hv | hv
        · have h : save s a = ((save s a).1, .ok ev cr) := by rw [← hout]
          obtain ⟨h1, _, _, _⟩ := version_is_max_plus_one s a _ ev cr h
          omega
        · exact Nat.lt_of_le_of_lt hmono (ih _ (save_inv s a hi) v hv)
    | getOrCreate m k now =>
      have h := step_other c s (.getOrCreate m k now) (by intro a h; cases h)
      have := ih _ (step_inv c s _ hi) v (by simpa [okVersions] using hv)
      rwa [h.1] at this
    | put kvs =>
      have h := step_other c s (.put kvs) (by intro a h; cases h)
      have := ih _ (step_inv c s _ hi) v (by simpa [okVersions] using hv)
      rwa [h.1] at this
    | delete ids =>
      have h := step_other c s (.delete ids) (by intro a h; cases h)
      have := ih _ (step_inv c s _ hi) v (by simpa [okVersions] using hv)
      rwa [h.1] at this
    | reset m l now =>
      have h := step_other c s (.reset m l now) (by intro a h; cases h)
      have := ih _ (step_inv c s _ hi) v (by simpa [okVersions] using hv)
      rwa [h.1] at this

/-- "every successful create or edit assigns a new, globally unique version greater than all previous ones": over any
    history (entity requests interleaved with anything else) the versions handed out are strictly increasing. -/
theorem versions_strictly_increasing (c : Cfg) : ∀ (ops : List Op) (s : State), Inv s →
    (okVersions c s ops).Pairwise (· < ·) := by
  intro ops
  induction ops with
  | nil => intro s _; simp [okVersions]
  | cons op ops ih =>
    intro s hi
    cases op with
    | save a =>
      simp only [okVersions]
      cases hout : (save s a).2 with
      | err e => exact ih _ (save_inv s a hi)
      | ok ev cr =>
        refine List.pairwise_cons.mpr ⟨?_, ih _ (save_inv s a hi)⟩
        intro v hv
        have h : save s a = ((save s a).1, .ok ev cr) := by rw [← hout]
        obtain ⟨_, _, _, h4⟩ := version_is_max_plus_one s a _ ev cr h
        have := okVersions_gt c ops _ (save_inv s a hi) v hv
        rw [h4 hi] at this
        exact this
    | getOrCreate m k now => simpa [okVersions] using ih _ (step_inv c s _ hi)
    | put kvs => simpa [okVersions] using ih _ (step_inv c s _ hi)
    | delete ids => simpa [okVersions] using ih _ (step_inv c s _ hi)
    | reset m l now => simpa [okVersions] using ih _ (step_inv c s _ hi)


/-! ### C15.3  of several edits racing from the same version exactly one succeeds -/

/-- version `v` has been used and is no longer anybody's current version -/
def Dead (s : State) (v : Nat) : Prop := v ≤ maxVer s.ents ∧ ∀ e ∈ s.ents, e.version ≠ v

theorem dead_save (s : State) (a : SaveReq) (v : Nat) (hi : Inv s) (hd : Dead s v) : Dead (save s a).1 v := by
  refine ⟨Nat.le_trans hd.1 (maxVer_mono_save s a hi), ?_⟩
  have hs := save_shape .fixed s a
  unfold save
  generalize saveV .fixed s a = p at hs
  cases hs with
  | err e => exact hd.2
  | created nsId hns hc hb he =>
    intro e hmem
    rcases (mem_insertById _ _ _).mp hmem with h1 | h1
    · subst h1; have := hd.1; simp only [createdRow]; omega
    · exact hd.2 e h1
  | edited nsId r hns hr hv hc hck hlate hb he =>
    intro e hmem
    rcases (mem_replaceRow _ _ _).mp hmem with ⟨h1, _⟩ | ⟨h1, _⟩
    · subst h1; have := hd.1; simp only [editedRow]; omega
    · exact hd.2 e h1

theorem dead_step (c : Cfg) (s : State) (op : Op) (v : Nat) (hi : Inv s) (hd : Dead s v) : Dead (step c s op) v := by
  cases op with
  | save a => exact dead_save s a v hi hd
  | getOrCreate m k now =>
    have h := step_other c s (.getOrCreate m k now) (by intro a h; cases h)
    unfold Dead; rw [h.1]; exact hd
  | put kvs =>
    have h := step_other c s (.put kvs) (by intro a h; cases h)
    unfold Dead; rw [h.1]; exact hd
  | delete ids =>
    have h := step_other c s (.delete ids) (by intro a h; cases h)
    unfold Dead; rw [h.1]; exact hd
  | reset m l now =>
    have h := step_other c s (.reset m l now) (by intro a h; cases h)
    unfold Dead; rw [h.1]; exact hd

/-- a successful edit kills the version it started from -/
theorem win_dead (s : State) (a : SaveReq) (s' : State) (ev : Event) (hi : Inv s)
    (h : save s a = (s', .ok ev false)) : Dead s' a.oldVersion := by
  have hs := save_shape .fixed s a
  unfold save at h
  rw [h] at hs
  cases hs with
  | edited nsId r hns hr hv hc hck hlate hb he =>
    obtain ⟨hrm, hrid⟩ := rowOf_some hr
    have hle : a.oldVersion ≤ maxVer s.ents := hv ▸ le_maxVer _ _ hrm
    constructor
    · have : maxVer s.ents + 1 ≤ maxVer (editedState s a r nsId).ents :=
        le_maxVer _ (editedRow r a (maxVer s.ents + 1) nsId) ((mem_replaceRow _ _ _).mpr (Or.inl ⟨rfl, r, hrm, rfl⟩))
      omega
    · intro e hmem
      rcases (mem_replaceRow _ _ _).mp hmem with ⟨h1, _⟩ | ⟨h1, h2⟩
      · subst h1; simp only [editedRow]; omega
      · intro hev
        have : e = r := hi.verUniq e h1 r hrm (by rw [hev, hv])
        subst this
        exact h2 rfl

/-- a request naming a dead version is never a successful edit -/
theorem dead_no_win (s : State) (a : SaveReq) (hd : Dead s a.oldVersion) (s' : State) (ev : Event) :
    save s a ≠ (s', .ok ev false) := by
  intro h
  obtain ⟨r, hr, _, hv, _⟩ := edit_needs_current_version s a s' ev h
  exact hd.2 r hr hv

/-- successful edits of a history that started from version `v` (of whatever entity: versions are global) -/
def isWin (s : State) (a : SaveReq) (v : Nat) : Bool :=
  match (save s a).2 with
  | .ok _ false => a.oldVersion == v
  | _ => false

def winners (c : Cfg) : State → List Op → Nat → Nat
  | _, [], _ => 0
  | s, .save a :: ops, v => (if isWin s a v then 1 else 0) + winners c (save s a).1 ops v
  | s, op :: ops, v => winners c (step c s op) ops v

theorem winners_step (c : Cfg) (s : State) (op : Op) (ops : List Op) (v : Nat) (h : ∀ a, op ≠ .save a) :
    winners c s (op :: ops) v = winners c (step c s op) ops v := by
  cases op with
  | save a => exact absurd rfl (h a)
  | getOrCreate m k now => rfl
  | put kvs => rfl
  | delete ids => rfl
  | reset m l now => rfl

theorem isWin_false_of_dead (s : State) (a : SaveReq) (v : Nat) (hd : Dead s v) : isWin s a v = false := by
  unfold isWin
  cases hout : (save s a).2 with
  | err e => rfl
  | ok ev cr =>
    cases cr with
    | true => rfl
    | false =>
      simp only
      by_cases hv : a.oldVersion = v
      · subst hv
        exact absurd (show save s a = ((save s a).1, .ok ev false) by rw [← hout]) (dead_no_win s a hd _ ev)
      · simpa using hv

theorem dead_no_winners (c : Cfg) (v : Nat) : ∀ (ops : List Op) (s : State), Inv s → Dead s v → winners c s ops v = 0 := by
  intro ops
  induction ops with
  | nil => intro s _ _; rfl
  | cons op ops ih =>
    intro s hi hd
    cases op with
    | save a =>
      simp only [winners, isWin_false_of_dead s a v hd]
      simpa using ih _ (save_inv s a hi) (dead_save s a v hi hd)
    | getOrCreate m k now => exact ih _ (step_inv c s _ hi) (dead_step c s _ v hi hd)
    | put kvs => exact ih _ (step_inv c s _ hi) (dead_step c s _ v hi hd)
    | delete ids => exact ih _ (step_inv c s _ hi) (dead_step c s _ v hi hd)
    | reset m l now => exact ih _ (step_inv c s _ hi) (dead_step c s _ v hi hd)

/-- "of several edits racing from the same version [at most] one succeeds", for EVERY schedule: in any history — the racing
    edits in any order, interleaved with any other requests — at most one successful edit started from version `v`. -/
theorem at_most_one_winner (c : Cfg) (v : Nat) : ∀ (ops : List Op) (s : State), Inv s → winners c s ops v ≤ 1 := by
  intro ops
  induction ops with
  | nil => intro s _; simp [winners]
  | cons op ops ih =>
    intro s hi
    cases op with
    | save a =>
      simp only [winners]
      by_cases hw : isWin s a v = true
      · simp only [hw, if_true]
        have hd : Dead (save s a).1 v := by
          unfold isWin at hw
          cases hout : (save s a).2 with
          | err e => simp [hout] at hw
          | ok ev cr =>
            cases cr with
            | true => simp [hout] at hw
            | false =>
              simp only [hout, beq_iff_eq] at hw
              subst hw
              exact win_dead s a _ ev hi (show save s a = ((save s a).1, .ok ev false) by rw [← hout])
        rw [dead_no_winners c v ops _ (save_inv s a hi) hd]
        exact Nat.le_refl _
      · simp only [hw]
        simpa using ih _ (save_inv s a hi)
    | getOrCreate m k now => exact ih _ (step_inv c s _ hi)
    | put kvs => exact ih _ (step_inv c s _ hi)
    | delete ids => exact ih _ (step_inv c s _ hi)
    | reset m l now => exact ih _ (step_inv c s _ hi)

/-- number of successful requests when `rs` is executed sequentially from `s` -/
def okCount : State → List SaveReq → Nat
  | _, [] => 0
  | s, a :: as => (match (save s a).2 with | .ok _ _ => 1 | .err _ => 0) + okCount (save s a).1 as

theorem rowOf_isSome_of_mem {l : List Entity} {id : Int} (h : ∃ e ∈ l, e.id = id) : (rowOf l id).isSome = true := by
  obtain ⟨e, he, hid⟩ := h
  unfold rowOf
  rw [List.find?_isSome]
  exact ⟨e, he, by simp [hid]⟩

theorem effCreate_persist (s : State) (a b : SaveReq) (hi : Inv s) (h : effCreate s b = false) :
    effCreate (save s a).1 b = false := by
  unfold effCreate at h ⊢
  by_cases hneg : b.id < 0
  · simp only [hneg, if_true] at h ⊢
    cases hr : rowOf s.ents b.id with
    | none => simp [hr] at h
    | some r =>
      obtain ⟨hrm, hrid⟩ := rowOf_some hr
      obtain ⟨n', hn', hid', _⟩ := shape_persist hi (save_shape .fixed s a) r hrm
      have := rowOf_isSome_of_mem (l := (save s a).1.ents) (id := b.id) ⟨n', hn', by rw [hid', hrid]⟩
      cases hx : rowOf (save s a).1.ents b.id with
      | none => rw [hx] at this; cases this
      | some _ => rfl
  · simp only [hneg] at h ⊢
    exact h

theorem losers (v : Nat) : ∀ (rs : List SaveReq) (t : State), Inv t → Dead t v →
    (∀ a ∈ rs, a.oldVersion = v ∧ effCreate t a = false) → okCount t rs = 0 := by
  intro rs
  induction rs with
  | nil => intro t _ _ _; rfl
  | cons a as ih =>
    intro t hi hd hall
    obtain ⟨hv, hec⟩ := hall a (List.mem_cons_self)
    have hs := save_shape .fixed t a
    have herr : ∃ e, saveV .fixed t a = (t, .err e) := by
      generalize saveV .fixed t a = p at hs
      cases hs with
      | err e => exact ⟨e, rfl⟩
      | created nsId hns hc hb he => rw [hec] at he; cases he
      | edited nsId r hns hr hv' hc hck hlate hb he =>
        obtain ⟨hrm, _⟩ := rowOf_some hr
        exact absurd (hv'.trans hv) (hd.2 r hrm)
    obtain ⟨e, he⟩ := herr
    simp only [okCount, save, he]
    simpa using ih t hi hd (fun b hb => hall b (List.mem_cons_of_mem _ hb))

/-- "of several edits racing from the same version exactly one succeeds": take any non-empty list of requests that all
    name version `v` and each of which would succeed as an edit if it ran alone; executed in ANY order (the list is
    arbitrary) exactly one of them succeeds. -/
theorem one_winner (s : State) (hi : Inv s) (v : Nat) (rs : List SaveReq) (hne : rs ≠ [])
    (hall : ∀ a ∈ rs, a.oldVersion = v ∧ ∃ ev, (save s a).2 = .ok ev false) : okCount s rs = 1 := by
  cases rs with
  | nil => exact absurd rfl hne
  | cons a as =>
    obtain ⟨hv, ev, hok⟩ := hall a (List.mem_cons_self)
    have hsave : save s a = ((save s a).1, .ok ev false) := by rw [← hok]
    have hd : Dead (save s a).1 v := hv ▸ win_dead s a _ ev hi hsave
    have hedit : ∀ b ∈ as, b.oldVersion = v ∧ effCreate (save s a).1 b = false := by
      intro b hb
      obtain ⟨hbv, evb, hbok⟩ := hall b (List.mem_cons_of_mem _ hb)
      refine ⟨hbv, effCreate_persist s a b hi ?_⟩
      have hs := save_shape .fixed s b
      unfold save at hbok
      generalize saveV .fixed s b = p at hs hbok
      cases hs with
      | err e => cases hbok
      | created nsId hns hc hb' he => cases hbok
      | edited nsId r hns hr hv' hc hck hlate hb' he => exact he
    simp only [okCount, hok]
    rw [losers v as _ (save_inv s a hi) hd hedit]


/-! ### C15.4  names are unique per (namespace, type); versions are unique; namespace references never dangle -/

/-- "Entity names are unique per type (and namespace)", in every state reachable by any history -/
theorem name_unique_per_type_ns (c : Cfg) (ops : List Op) :
    ∀ e1 ∈ (run c State.empty ops).ents, ∀ e2 ∈ (run c State.empty ops).ents,
      e1.nsId = e2.nsId → e1.typ = e2.typ → e1.name = e2.name → e1 = e2 :=
  (reachable_inv c ops).nameUniq

/-- no two entities ever share a version, and every version recorded in the history is unique as well -/
theorem versions_globally_unique (c : Cfg) (ops : List Op) :
    (∀ e1 ∈ (run c State.empty ops).ents, ∀ e2 ∈ (run c State.empty ops).ents, e1.version = e2.version → e1 = e2) ∧
    (run c State.empty ops).hist.Pairwise (fun h1 h2 => h1.version < h2.version) :=
  ⟨(reachable_inv c ops).verUniq, (reachable_inv c ops).histAsc⟩

/-- "entities in a namespace must reference an existing namespace" (request level): a successful save of a metric or
    group whose name carries a namespace part returns the id of an existing namespace-typed row with that name -/
theorem namespaced_entity_needs_namespace (s : State) (a : SaveReq) (s' : State) (ev : Event) (cr : Bool)
    (h : save s a = (s', .ok ev cr)) (hn : needsNs a = true) :
    ∃ n ∈ s.ents, n.typ = tNamespace ∧ n.name = ⟨0, a.name.ns⟩ ∧ ev.nsId = n.id := by
  have hs := save_shape .fixed s a
  unfold save at h
  rw [h] at hs
  have key : ∀ nsId, resolveNs s a = .ok nsId → ∃ n ∈ s.ents, n.typ = tNamespace ∧ n.name = ⟨0, a.name.ns⟩ ∧ nsId = n.id := by
    intro nsId hns
    unfold resolveNs at hns
    simp only [hn, if_true] at hns
    cases hl : nsLookup s.ents a.name.ns with
    | none => simp [hl] at hns
    | some n =>
      simp only [hl] at hns
      injection hns with hns
      unfold nsLookup at hl
      have h1 := List.mem_of_find?_eq_some hl
      have h2 := List.find?_some hl
      simp only [Bool.and_eq_true, beq_iff_eq] at h2
      exact ⟨n, h1, h2.1, h2.2, hns.symm⟩
  cases hs with
  | created nsId hns hc hb he => exact key nsId hns
  | edited nsId r hns hr hv hc hck hlate hb he => exact key nsId hns

/-- … and without a namespace row of that name the request fails (nothing is stored) -/
theorem missing_namespace_rejected (s : State) (a : SaveReq) (hn : needsNs a = true)
    (hmiss : ∀ n ∈ s.ents, ¬ (n.typ = tNamespace ∧ n.name = ⟨0, a.name.ns⟩)) :
    ∃ e, save s a = (s, .err e) := by
  cases hout : (save s a).2 with
  | err e =>
    refine ⟨e, ?_⟩
    have h1 := failed_save_unchanged s a e hout
    exact Prod.ext h1 hout
  | ok ev cr =>
    obtain ⟨n, hm, ht, hname, _⟩ := namespaced_entity_needs_namespace s a _ ev cr (by rw [← hout]) hn
    exact absurd ⟨ht, hname⟩ (hmiss n hm)

/-- (state level) in every reachable state a non-zero namespace_id is the id of a namespace-typed row -/
theorem namespace_reference_never_dangles (c : Cfg) (ops : List Op) :
    ∀ e ∈ (run c State.empty ops).ents, e.nsId ≠ 0 →
      ∃ n ∈ (run c State.empty ops).ents, n.id = e.nsId ∧ n.typ = tNamespace :=
  (reachable_inv c ops).refOk

/-! ### C15.5  namespaces cannot be renamed -/

theorem nsRow_some {l : List Entity} {id : Int} {v : Nat} {r : Entity} (h : nsRow l id v = some r) :
    r ∈ l ∧ r.typ = tNamespace ∧ r.id = id ∧ r.version = v := by
  unfold nsRow at h
  have h1 := List.mem_of_find?_eq_some h
  have h2 := List.find?_some h
  simp only [Bool.and_eq_true, beq_iff_eq] at h2
  exact ⟨h1, h2.1.1, h2.1.2, h2.2⟩

/-- "namespaces cannot be renamed".
    REQUEST-LEVEL FORM (kept; the full statements are `namespace_keeps_name` for one step and `namespace_not_renamable` over
    histories, below): a successful request of type namespace that edits an existing row (whatever its create flag and id sign)
    carries exactly the name the row already has, and the row is a namespace row. Requests of a foreign type aimed at a namespace's
    id are rejected by the typed row selection (`foreign_type_edit_rejected`). On the pinned tree this statement is false for
    `create = true` on an existing builtin namespace (`saveV .old` examples below; fixed by commit 36b353ab), and before commit
    fb668983 (`saveV .untyped`) a foreign-typed request could rename the row. -/
theorem namespace_not_renamable_partial (s : State) (hi : Inv s) (a : SaveReq) (s' : State) (ev : Event)
    (h : save s a = (s', .ok ev false)) (ht : a.typ = tNamespace) :
    ∀ r ∈ s.ents, r.id = a.id → r.name = a.name ∧ r.typ = tNamespace := by
  have hs := save_shape .fixed s a
  unfold save at h
  rw [h] at hs
  cases hs with
  | edited nsId r0 hns hr hv hc hck hlate hb he =>
    intro r hr' hid
    have key : ∀ x, nsRow s.ents a.id a.oldVersion = some x → (x.name != a.name) = false → r.name = a.name ∧ r.typ = tNamespace := by
      intro x hx hname
      obtain ⟨hxm, hxt, hxid, _⟩ := nsRow_some hx
      have : x = r := hi.idUniq x hxm r hr' (by rw [hxid, hid])
      subst this
      exact ⟨by simpa using hname, hxt⟩
    by_cases hcr : a.create = true
    · -- the late check of the fixed code
      simp only [lateCheck, lateNsEdit, ht, hcr, beq_self_eq_true, Bool.and_self, if_true] at hlate
      cases hx : nsRow s.ents a.id a.oldVersion with
      | none => simp [hx] at hlate
      | some x =>
        simp only [hx] at hlate
        by_cases hname : (x.name != a.name) = true
        · simp [hname] at hlate
        · exact key x hx (by simpa using hname)
    · have hcr' : a.create = false := by simpa using hcr
      simp only [checkNamespace, isNsEdit, ht, hcr', beq_self_eq_true, Bool.not_false, Bool.and_self, if_true] at hck
      cases hx : nsRow s.ents a.id a.oldVersion with
      | none => simp [hx] at hck
      | some x =>
        simp only [hx] at hck
        by_cases hname : (x.name != a.name) = true
        · simp [hname] at hck
        · exact key x hx (by simpa using hname)

/-- an edit is applied only to a row of the request's own type: the returned event carries the stored type -/
theorem edit_preserves_type (s : State) (a : SaveReq) (s' : State) (ev : Event) (h : save s a = (s', .ok ev false)) :
    ∃ r ∈ s.ents, r.id = a.id ∧ r.typ = a.typ ∧ ev.typ = r.typ := by
  have hs := save_shape .fixed s a
  unfold save at h
  rw [h] at hs
  cases hs with
  | edited nsId r hns hr hv hc hck hlate hb he htyp =>
    obtain ⟨hrm, hrid⟩ := rowOf_some hr
    have ht : r.typ = a.typ := by simpa [typeMatches] using htyp
    exact ⟨r, hrm, hrid, ht, by simp [mkEvent, ht]⟩

/-- an edit of a foreign type (a dashboard request aimed at a metric, a metric request aimed at a namespace, …) is rejected and
    changes nothing -/
theorem foreign_type_edit_rejected (s : State) (a : SaveReq) (hedit : effCreate s a = false)
    (hforeign : ∀ r ∈ s.ents, r.id = a.id → r.typ ≠ a.typ) : ∃ e, save s a = (s, .err e) := by
  have hs := save_shape .fixed s a
  unfold save
  generalize saveV .fixed s a = p at hs
  cases hs with
  | err e => exact ⟨e, rfl⟩
  | created nsId hns hc hb he => rw [hedit] at he; cases he
  | edited nsId r hns hr hv hc hck hlate hb he htyp =>
    obtain ⟨hrm, hrid⟩ := rowOf_some hr
    exact absurd (by simpa [typeMatches] using htyp) (hforeign r hrm hrid)

/-- no SaveEntity, whatever the request and its outcome, changes the type of a row (rows are never removed either) -/
theorem save_keeps_types (s : State) (hi : Inv s) (a : SaveReq) :
    ∀ n ∈ s.ents, ∃ n' ∈ (save s a).1.ents, n'.id = n.id ∧ n'.typ = n.typ :=
  shape_persist hi (save_shape .fixed s a)

/-- "namespaces cannot be renamed", one step, FULL STRENGTH (no restriction on the request): whatever one SaveEntity does, every
    namespace row is still there with its id, its type and its name. -/
theorem namespace_keeps_name (s : State) (hi : Inv s) (a : SaveReq) :
    ∀ n ∈ s.ents, n.typ = tNamespace → ∃ n' ∈ (save s a).1.ents, n'.id = n.id ∧ n'.typ = tNamespace ∧ n'.name = n.name := by
  intro n hn hnt
  have hs := save_shape .fixed s a
  have hpart : ∀ s' ev, save s a = (s', .ok ev false) → a.typ = tNamespace → ∀ r ∈ s.ents, r.id = a.id → r.name = a.name ∧ r.typ = tNamespace :=
    fun s' ev h => namespace_not_renamable_partial s hi a s' ev h
  unfold save at hpart ⊢
  generalize saveV .fixed s a = p at hs hpart
  cases hs with
  | err e => exact ⟨n, hn, rfl, hnt, rfl⟩
  | created nsId hns hc hb he =>
    exact ⟨n, (mem_insertById _ _ _).mpr (Or.inr hn), rfl, hnt, rfl⟩
  | edited nsId r hns hr hv hc hck hlate hb he htyp =>
    obtain ⟨hrm, hrid⟩ := rowOf_some hr
    by_cases hid : n.id = r.id
    · have hnr : n = r := hi.idUniq n hn r hrm hid
      subst hnr
      have hat : a.typ = tNamespace := by
        have : n.typ = a.typ := by simpa [typeMatches] using htyp
        rw [← this]; exact hnt
      refine ⟨editedRow n a (maxVer s.ents + 1) nsId, (mem_replaceRow _ _ _).mpr (Or.inl ⟨rfl, n, hrm, rfl⟩), rfl, hnt, ?_⟩
      have := (hpart _ _ rfl hat n hrm hrid).1
      simp [editedRow, this]
    · exact ⟨n, (mem_replaceRow _ _ _).mpr (Or.inr ⟨hn, hid⟩), rfl, hnt, rfl⟩

/-- (kept from the round before the type test existed; now a corollary) a namespace row can only be renamed by a request of a
    foreign type aimed at its id — which the current code rejects, so the second alternative never occurs -/
theorem namespace_rename_only_by_foreign_type (s : State) (hi : Inv s) (a : SaveReq) :
    ∀ n ∈ s.ents, n.typ = tNamespace →
      ∃ n' ∈ (save s a).1.ents, n'.id = n.id ∧ n'.typ = tNamespace ∧ (n'.name = n.name ∨ (a.id = n.id ∧ a.typ ≠ tNamespace)) := by
  intro n hn hnt
  obtain ⟨n', h1, h2, h3, h4⟩ := namespace_keeps_name s hi a n hn hnt
  exact ⟨n', h1, h2, h3, Or.inl h4⟩

/-- "namespaces cannot be renamed", END TO END AND UNCONDITIONAL: along ANY history of requests — creates, edits, renames, deletes
    of anything, requests of any type aimed at any id, builtin ids and create flags, interleaved with mapping operations — every
    namespace keeps its id, its type and its name forever. -/
theorem namespace_not_renamable (c : Cfg) : ∀ (ops : List Op) (s : State), Inv s →
    ∀ n ∈ s.ents, n.typ = tNamespace → ∃ n' ∈ (run c s ops).ents, n'.id = n.id ∧ n'.typ = tNamespace ∧ n'.name = n.name := by
  intro ops
  induction ops with
  | nil => intro s _ n hn hnt; exact ⟨n, hn, rfl, hnt, rfl⟩
  | cons op ops ih =>
    intro s hi n hn hnt
    have hi' := step_inv c s op hi
    cases op with
    | save a =>
      obtain ⟨n1, hn1, hid1, ht1, hname1⟩ := namespace_keeps_name s hi a n hn hnt
      obtain ⟨n2, hn2, hid2, ht2, hname2⟩ := ih _ hi' n1 hn1 ht1
      exact ⟨n2, hn2, by rw [hid2, hid1], ht2, by rw [hname2, hname1]⟩
    | getOrCreate m k now =>
      have h := step_other c s (.getOrCreate m k now) (by intro a h; cases h)
      exact ih _ hi' n (by rw [h.1]; exact hn) hnt
    | put kvs =>
      have h := step_other c s (.put kvs) (by intro a h; cases h)
      exact ih _ hi' n (by rw [h.1]; exact hn) hnt
    | delete ids =>
      have h := step_other c s (.delete ids) (by intro a h; cases h)
      exact ih _ hi' n (by rw [h.1]; exact hn) hnt
    | reset m l now =>
      have h := step_other c s (.reset m l now) (by intro a h; cases h)
      exact ih _ hi' n (by rw [h.1]; exact hn) hnt

/-- the same for every type: along any history every entity keeps the type it was created with -/
theorem entity_type_never_changes (c : Cfg) : ∀ (ops : List Op) (s : State), Inv s →
    ∀ n ∈ s.ents, ∃ n' ∈ (run c s ops).ents, n'.id = n.id ∧ n'.typ = n.typ := by
  intro ops
  induction ops with
  | nil => intro s _ n hn; exact ⟨n, hn, rfl, rfl⟩
  | cons op ops ih =>
    intro s hi n hn
    have hi' := step_inv c s op hi
    cases op with
    | save a =>
      obtain ⟨n1, hn1, hid1, ht1⟩ := save_keeps_types s hi a n hn
      obtain ⟨n2, hn2, hid2, ht2⟩ := ih _ hi' n1 hn1
      exact ⟨n2, hn2, by rw [hid2, hid1], by rw [ht2, ht1]⟩
    | getOrCreate m k now =>
      have h := step_other c s (.getOrCreate m k now) (by intro a h; cases h)
      exact ih _ hi' n (by rw [h.1]; exact hn)
    | put kvs =>
      have h := step_other c s (.put kvs) (by intro a h; cases h)
      exact ih _ hi' n (by rw [h.1]; exact hn)
    | delete ids =>
      have h := step_other c s (.delete ids) (by intro a h; cases h)
      exact ih _ hi' n (by rw [h.1]; exact hn)
    | reset m l now =>
      have h := step_other c s (.reset m l now) (by intro a h; cases h)
      exact ih _ hi' n (by rw [h.1]; exact hn)

/-! ### C15.5b  names are unique per type, whatever the namespace_id

  What the code guarantees and why. SQLite only enforces UNIQUE(namespace_id, type, name). The full name of a metric or group embeds
  its namespace ("ns:name"), and resolveEntity recomputes namespace_id from the name on EVERY create and edit: it is the id of the
  namespace row named by the prefix, or 0 (no prefix, or an entity of another type). Because (a) the edit path only touches a row
  of the request's own type (fb668983), (b) namespace rows never change their name, and (c) namespace rows have namespace_id 0 so
  their names are unique among themselves, the stored namespace_id stays a FUNCTION of (type, name) in every reachable state. Hence
  two rows of one type with the same full name have the same namespace_id and the SQL constraint makes them the same row — also
  after renames across namespaces. (On the replay side this needs the replayed UPDATE to write namespace_id too: C16.) -/

/-- the row's type/name call for a namespace lookup -/
def needsNsRow (e : Entity) : Bool := (e.typ == tMetric || e.typ == tGroup) && e.name.ns != 0

/-- the stored namespace_id is what resolveNamespace would compute from the row's own type and name -/
structure NsInv (s : State) : Prop where
  resolved : ∀ e ∈ s.ents, needsNsRow e = true →
    ∃ n ∈ s.ents, n.typ = tNamespace ∧ n.name = ⟨0, e.name.ns⟩ ∧ e.nsId = n.id
  zero : ∀ e ∈ s.ents, needsNsRow e = false → e.nsId = 0

theorem nsinv_empty : NsInv State.empty := by constructor <;> simp [State.empty]

theorem resolveNs_spec {s : State} {a : SaveReq} {nsId : Int} (h : resolveNs s a = .ok nsId) :
    (needsNs a = true → ∃ n ∈ s.ents, n.typ = tNamespace ∧ n.name = ⟨0, a.name.ns⟩ ∧ nsId = n.id) ∧
    (needsNs a = false → nsId = 0) := by
  rcases resolveNs_ref h with h0 | ⟨n, hn, hid, ht, hname, hneeds⟩
  · constructor
    · intro hn
      unfold resolveNs at h
      simp only [hn, if_true] at h
      cases hl : nsLookup s.ents a.name.ns with
      | none => simp [hl] at h
      | some n =>
        simp only [hl] at h
        injection h with h
        unfold nsLookup at hl
        have h1 := List.mem_of_find?_eq_some hl
        have h2 := List.find?_some hl
        simp only [Bool.and_eq_true, beq_iff_eq] at h2
        exact ⟨n, h1, h2.1, h2.2, h.symm⟩
    · intro _; exact h0
  · constructor
    · intro _; exact ⟨n, hn, ht, hname, hid.symm⟩
    · intro hf; rw [hf] at hneeds; cases hneeds

theorem nsinv_shape {s : State} {a : SaveReq} {p : State × SaveOut} (hi : Inv s) (hn : NsInv s)
    (hs : Shape .fixed s a p) : NsInv p.1 := by
  cases hs with
  | err e => exact hn
  | created nsId hns hc hb he =>
    obtain ⟨hres, hzero⟩ := resolveNs_spec hns
    have hmem : ∀ x, x ∈ (createdState s a nsId).ents ↔
        x = createdRow a (newId s a) (maxVer s.ents + 1) nsId ∨ x ∈ s.ents := fun x => mem_insertById _ _ _
    constructor
    · intro e he hneed
      rcases (hmem e).mp he with h | h
      · subst h
        obtain ⟨n, hnm, ht, hname, hid⟩ := hres (by simpa [needsNsRow, needsNs, createdRow] using hneed)
        exact ⟨n, (hmem n).mpr (Or.inr hnm), ht, by simpa [createdRow] using hname, by simpa [createdRow] using hid⟩
      · obtain ⟨n, hnm, ht, hname, hid⟩ := hn.resolved e h hneed
        exact ⟨n, (hmem n).mpr (Or.inr hnm), ht, hname, hid⟩
    · intro e he hneed
      rcases (hmem e).mp he with h | h
      · subst h
        simpa [createdRow] using hzero (by simpa [needsNsRow, needsNs, createdRow] using hneed)
      · exact hn.zero e h hneed
  | edited nsId r hns hr hv hc hck hlate hb he htyp =>
    obtain ⟨hres, hzero⟩ := resolveNs_spec hns
    obtain ⟨hrm, hrid⟩ := rowOf_some hr
    have hrt : r.typ = a.typ := by simpa [typeMatches] using htyp
    let r' := editedRow r a (maxVer s.ents + 1) nsId
    have hr'mem : r' ∈ (editedState s a r nsId).ents := (mem_replaceRow _ _ _).mpr (Or.inl ⟨rfl, r, hrm, rfl⟩)
    -- a namespace row that is edited keeps its name (checkNamespace / the late check), so witnesses survive
    have hkeep : ∀ n ∈ s.ents, n.typ = tNamespace →
        ∃ n' ∈ (editedState s a r nsId).ents, n'.typ = tNamespace ∧ n'.name = n.name ∧ n'.id = n.id := by
      intro n hnm hnt
      by_cases hid : n.id = r.id
      · have hnr : n = r := hi.idUniq n hnm r hrm hid
        subst hnr
        have hat : a.typ = tNamespace := by rw [← hrt]; exact hnt
        have hname : n.name = a.name := by
          have hsave : saveV .fixed s a = (editedState s a n nsId, .ok (mkEvent a n.id (maxVer s.ents + 1) nsId) false) := by
            have := save_shape .fixed s a
            -- re-derive through the partial theorem on the shape we already hold
            unfold saveV
            simp only [hck, hns, saveResolved, hb, Bool.false_eq_true, if_false, he, hlate, saveEdit, hr, rowMatches, versionMatches, hv,
              beq_self_eq_true, htyp, Bool.and_self, if_true, hc, editedState]
          exact (namespace_not_renamable_partial s hi a _ _ (by unfold save; exact hsave) hat n hrm hrid).1
        exact ⟨r', hr'mem, hnt, by simp [r', editedRow, hname], rfl⟩
      · exact ⟨n, (mem_replaceRow _ _ _).mpr (Or.inr ⟨hnm, hid⟩), hnt, rfl, rfl⟩
    constructor
    · intro e he' hneed
      rcases (mem_replaceRow _ _ _).mp he' with ⟨h, _⟩ | ⟨h, _⟩
      · subst h
        obtain ⟨n, hnm, ht, hname, hid⟩ := hres (by simpa [needsNsRow, needsNs, editedRow, hrt] using hneed)
        obtain ⟨n', hn', ht', hname', hid'⟩ := hkeep n hnm ht
        exact ⟨n', hn', ht', by rw [hname']; simpa [editedRow] using hname, by rw [hid']; simpa [editedRow] using hid⟩
      · obtain ⟨n, hnm, ht, hname, hid⟩ := hn.resolved e h hneed
        obtain ⟨n', hn', ht', hname', hid'⟩ := hkeep n hnm ht
        exact ⟨n', hn', ht', by rw [hname', hname], by rw [hid', hid]⟩
    · intro e he' hneed
      rcases (mem_replaceRow _ _ _).mp he' with ⟨h, _⟩ | ⟨h, _⟩
      · subst h
        simpa [editedRow] using hzero (by simpa [needsNsRow, needsNs, editedRow, hrt] using hneed)
      · exact hn.zero e h hneed

theorem nsinv_step (c : Cfg) (s : State) (op : Op) (hi : Inv s) (hn : NsInv s) : NsInv (step c s op) := by
  cases op with
  | save a => exact nsinv_shape hi hn (save_shape .fixed s a)
  | getOrCreate m k now =>
    have h := step_other c s (.getOrCreate m k now) (by intro a h; cases h)
    exact ⟨by rw [h.1]; exact hn.resolved, by rw [h.1]; exact hn.zero⟩
  | put kvs =>
    have h := step_other c s (.put kvs) (by intro a h; cases h)
    exact ⟨by rw [h.1]; exact hn.resolved, by rw [h.1]; exact hn.zero⟩
  | delete ids =>
    have h := step_other c s (.delete ids) (by intro a h; cases h)
    exact ⟨by rw [h.1]; exact hn.resolved, by rw [h.1]; exact hn.zero⟩
  | reset m l now =>
    have h := step_other c s (.reset m l now) (by intro a h; cases h)
    exact ⟨by rw [h.1]; exact hn.resolved, by rw [h.1]; exact hn.zero⟩

theorem nsinv_run (c : Cfg) : ∀ (ops : List Op) (s : State), Inv s → NsInv s → NsInv (run c s ops) := by
  intro ops
  induction ops with
  | nil => intro s _ hn; exact hn
  | cons op ops ih => intro s hi hn; exact ih _ (step_inv c s op hi) (nsinv_step c s op hi hn)

/-- the stored namespace_id is a function of (type, name) -/
theorem nsId_determined (s : State) (hi : Inv s) (hn : NsInv s) (e1 e2 : Entity) (h1 : e1 ∈ s.ents) (h2 : e2 ∈ s.ents)
    (ht : e1.typ = e2.typ) (hname : e1.name = e2.name) : e1.nsId = e2.nsId := by
  have hneed : needsNsRow e1 = needsNsRow e2 := by simp [needsNsRow, ht, hname]
  cases hb : needsNsRow e1 with
  | false => rw [hn.zero e1 h1 hb, hn.zero e2 h2 (by rw [← hneed]; exact hb)]
  | true =>
    obtain ⟨n1, hn1, ht1, hname1, hid1⟩ := hn.resolved e1 h1 hb
    obtain ⟨n2, hn2, ht2, hname2, hid2⟩ := hn.resolved e2 h2 (by rw [← hneed]; exact hb)
    have hz1 : n1.nsId = 0 := hn.zero n1 hn1 (by simp [needsNsRow, ht1, tNamespace, tMetric, tGroup])
    have hz2 : n2.nsId = 0 := hn.zero n2 hn2 (by simp [needsNsRow, ht2, tNamespace, tMetric, tGroup])
    have : n1 = n2 := hi.nameUniq n1 hn1 n2 hn2 (by rw [hz1, hz2]) (by rw [ht1, ht2]) (by rw [hname1, hname2, hname])
    rw [hid1, hid2, this]

/-- "Entity names are unique per type" — irrespective of namespace_id, in every state reachable by any history: no two rows of one
    type ever carry the same full name, renames across namespaces included. -/
theorem name_unique_per_type (c : Cfg) (ops : List Op) :
    ∀ e1 ∈ (run c State.empty ops).ents, ∀ e2 ∈ (run c State.empty ops).ents,
      e1.typ = e2.typ → e1.name = e2.name → e1 = e2 := by
  intro e1 h1 e2 h2 ht hname
  have hi := reachable_inv c ops
  have hn := nsinv_run c ops _ inv_empty nsinv_empty
  exact hi.nameUniq e1 h1 e2 h2 (nsId_determined _ hi hn e1 e2 h1 h2 ht hname) ht hname

/-- consequently a rename onto a full name that another entity of the type carries is refused, even when that entity was stored
    under a different namespace at some earlier time: the request either fails or leaves the names unique -/
theorem rename_onto_used_name_refused (s : State) (hi : Inv s) (hn : NsInv s) (a : SaveReq) (s' : State) (ev : Event)
    (h : save s a = (s', .ok ev false)) : ∀ e ∈ s.ents, e.typ = a.typ → e.name = a.name → e.id = a.id := by
  intro e he ht hname
  have hs := save_shape .fixed s a
  have hi' : Inv (save s a).1 := save_inv s a hi
  have hn' : NsInv (save s a).1 := nsinv_shape hi hn hs
  unfold save at h hi' hn'
  rw [h] at hs hi' hn'
  cases hs with
  | edited nsId r hns hr hv hc hck hlate hb he' htyp =>
    obtain ⟨hrm, hrid⟩ := rowOf_some hr
    by_cases hid : e.id = r.id
    · rw [hid, hrid]
    · exfalso
      have hrt : r.typ = a.typ := by simpa [typeMatches] using htyp
      have he1 : e ∈ (editedState s a r nsId).ents := (mem_replaceRow _ _ _).mpr (Or.inr ⟨he, hid⟩)
      have he2 : editedRow r a (maxVer s.ents + 1) nsId ∈ (editedState s a r nsId).ents :=
        (mem_replaceRow _ _ _).mpr (Or.inl ⟨rfl, r, hrm, rfl⟩)
      have hsame := hi'.nameUniq e he1 _ he2
        (nsId_determined _ hi' hn' e _ he1 he2 (by simp [editedRow, ht, hrt]) (by simp [editedRow, hname]))
        (by simp [editedRow, ht, hrt]) (by simp [editedRow, hname])
      exact hid (by rw [hsame]; rfl)

/-- the pinned tree: a namespace "create" for an existing builtin id renames the row (replayed on the real code by the
    harness: oracle signature `namespace-renamed`) -/
def nsReq (loc : Nat) (oldVersion : Nat) (create : Bool) : SaveReq :=
  { name := ⟨0, loc⟩, id := -3, oldVersion := oldVersion, data := 1, dataLen := 2, create := create, deleteTime := 0,
    typ := tNamespace, mdata := 0, now := 1000 }

def builtinNs : State := (saveV .old State.empty (nsReq 2 0 true)).1

example : (saveV .old builtinNs (nsReq 3 1 true)).1.ents.map (·.name) = [⟨0, 3⟩] := by decide
example : (saveV .fixed builtinNs (nsReq 3 1 true)) = (builtinNs, .err .renameNs) := by decide
example : (saveV .fixed builtinNs (nsReq 3 1 false)) = (builtinNs, .err .renameNs) := by decide
/-- non-vacuity of `namespace_not_renamable_partial`: an edit keeping the name succeeds (with the create flag the same request
    is stopped earlier by checkCreateEntity: the name is taken) -/
example : (save builtinNs (nsReq 2 1 true)).2 = .err .exists := by decide
example : (save builtinNs (nsReq 2 1 false)).2 = .ok (mkEvent (nsReq 2 1 false) (-3) 2 0) false := by decide

/-- The second defect (fixed by commit fb668983, `Variant.untyped` = the code before it): SaveEntity selected the row to edit by
    (id, version) only, so a request of type *metric* naming a namespace row's id and version overwrote that row, name included
    (reachable through RawEditEntity: corpus/C15/type-mismatch-namespace-rename.ops). The fixed code answers invalid version. -/
example : (saveV .untyped builtinNs { nsReq 7 1 false with typ := tMetric }).1.ents.map (fun e => (e.typ, e.name)) = [(tNamespace, ⟨0, 7⟩)] := by
  decide
example : save builtinNs { nsReq 7 1 false with typ := tMetric } = (builtinNs, .err .invalidVersion) := by decide


/-! ### C15.6  the journal returns each entity's latest version exactly once in ascending version order -/

/-- list-level distinctness of the table rows (no row is stored twice) -/
def Distinct (s : State) : Prop := s.ents.Pairwise (fun a b => a.id ≠ b.id ∧ a.version ≠ b.version)

theorem pairwise_insertById {R : Entity → Entity → Prop} (e : Entity) :
    ∀ l : List Entity, l.Pairwise R → (∀ x ∈ l, R e x ∧ R x e) → (insertById e l).Pairwise R := by
  intro l
  induction l with
  | nil => intro _ _; simp [insertById]
  | cons y ys ih =>
    intro hp hr
    simp only [insertById]
    split
    · exact List.pairwise_cons.mpr ⟨fun x hx => (hr x hx).1, hp⟩
    · obtain ⟨hy, hys⟩ := List.pairwise_cons.mp hp
      refine List.pairwise_cons.mpr ⟨?_, ih hys (fun x hx => hr x (List.mem_cons_of_mem _ hx))⟩
      intro x hx
      rcases (mem_insertById _ _ _).mp hx with h | h
      · subst h; exact (hr y (List.mem_cons_self)).2
      · exact hy x h

theorem distinct_shape {var : Variant} {s : State} {a : SaveReq} {p : State × SaveOut} (hi : Inv s) (hd : Distinct s)
    (hs : Shape var s a p) : Distinct p.1 := by
  cases hs with
  | err e => exact hd
  | created nsId hns hc hb he =>
    apply pairwise_insertById _ _ hd
    intro x hx
    have h1 := newId_fresh s a hi he x hx
    have h2 := le_maxVer _ _ hx
    simp only [createdRow]
    refine ⟨⟨fun h => h1 h.symm, by omega⟩, ⟨h1, by omega⟩⟩
  | edited nsId r hns hr hv hc hck hlate hb he =>
    unfold Distinct editedState replaceRow
    simp only
    rw [List.pairwise_map]
    refine List.Pairwise.imp_of_mem ?_ hd
    intro x y hx hy hxy
    have hxv := le_maxVer _ _ hx
    have hyv := le_maxVer _ _ hy
    by_cases h1 : x.id = r.id <;> by_cases h2 : y.id = r.id
    · exact absurd (h1.trans h2.symm) hxy.1
    · simp only [editedRow, h1, beq_self_eq_true, if_true]
      have : (y.id == r.id) = false := by simpa using h2
      simp only [this]
      exact ⟨fun h => h2 h.symm, by simp; omega⟩
    · have : (x.id == r.id) = false := by simpa using h1
      simp only [editedRow, this, h2, beq_self_eq_true, if_true]
      exact ⟨h1, by simp; omega⟩
    · have e1 : (x.id == r.id) = false := by simpa using h1
      have e2 : (y.id == r.id) = false := by simpa using h2
      simp only [editedRow, e1, e2]
      exact hxy

theorem reachable_distinct (c : Cfg) : ∀ (ops : List Op) (s : State), Inv s → Distinct s → Distinct (run c s ops) := by
  intro ops
  induction ops with
  | nil => intro s _ hd; exact hd
  | cons op ops ih =>
    intro s hi hd
    refine ih _ (step_inv c s op hi) ?_
    cases op with
    | save a => exact distinct_shape hi hd (save_shape .fixed s a)
    | getOrCreate m k now =>
      unfold Distinct; rw [(step_other c s (.getOrCreate m k now) (by intro a h; cases h)).1]; exact hd
    | put kvs => unfold Distinct; rw [(step_other c s (.put kvs) (by intro a h; cases h)).1]; exact hd
    | delete ids => unfold Distinct; rw [(step_other c s (.delete ids) (by intro a h; cases h)).1]; exact hd
    | reset m l now => unfold Distinct; rw [(step_other c s (.reset m l now) (by intro a h; cases h)).1]; exact hd

theorem mem_insertByVer (e x : Entity) : ∀ l : List Entity, x ∈ insertByVer e l ↔ x = e ∨ x ∈ l := by
  intro l
  induction l with
  | nil => simp [insertByVer]
  | cons y ys ih =>
    simp only [insertByVer]
    split
    · simp
    · simp only [List.mem_cons, ih]
      constructor
      · rintro (h | h | h)
        · exact Or.inr (Or.inl h)
        · exact Or.inl h
        · exact Or.inr (Or.inr h)
      · rintro (h | h | h)
        · exact Or.inr (Or.inl h)
        · exact Or.inl h
        · exact Or.inr (Or.inr h)

theorem mem_sortByVer (x : Entity) : ∀ l : List Entity, x ∈ sortByVer l ↔ x ∈ l := by
  intro l
  induction l with
  | nil => simp [sortByVer]
  | cons y ys ih =>
    have : sortByVer (y :: ys) = insertByVer y (sortByVer ys) := rfl
    rw [this, mem_insertByVer, ih]; simp

def Asc (l : List Entity) : Prop := l.Pairwise (fun a b => a.version < b.version)

theorem insertByVer_asc (e : Entity) : ∀ l : List Entity, Asc l → (∀ x ∈ l, x.version ≠ e.version) → Asc (insertByVer e l) := by
  intro l
  induction l with
  | nil => intro _ _; simp [insertByVer, Asc]
  | cons y ys ih =>
    intro hp hne
    simp only [insertByVer]
    obtain ⟨hy, hys⟩ := List.pairwise_cons.mp hp
    split
    · rename_i hlt
      refine List.pairwise_cons.mpr ⟨?_, hp⟩
      intro x hx
      rcases List.mem_cons.mp hx with h | h
      · subst h; exact hlt
      · exact Nat.lt_trans hlt (hy x h)
    · rename_i hge
      refine List.pairwise_cons.mpr ⟨?_, ih hys (fun x hx => hne x (List.mem_cons_of_mem _ hx))⟩
      intro x hx
      rcases (mem_insertByVer _ _ _).mp hx with h | h
      · subst h
        have := hne y (List.mem_cons_self)
        omega
      · exact hy x h

theorem sortByVer_asc : ∀ l : List Entity, l.Pairwise (fun a b => a.version ≠ b.version) → Asc (sortByVer l) := by
  intro l
  induction l with
  | nil => intro _; simp [sortByVer, Asc]
  | cons y ys ih =>
    intro hp
    obtain ⟨hy, hys⟩ := List.pairwise_cons.mp hp
    have : sortByVer (y :: ys) = insertByVer y (sortByVer ys) := rfl
    rw [this]
    exact insertByVer_asc y _ (ih hys) (fun x hx => fun h => hy x ((mem_sortByVer x ys).mp hx) h.symm)

/-- what the journal query selects: exactly the current rows newer than `since` -/
theorem mem_journalRows (ents : List Entity) (since : Nat) (e : Entity) :
    e ∈ journalRows ents since ↔ e ∈ ents ∧ since < e.version := by
  unfold journalRows
  rw [mem_sortByVer, List.mem_filter]
  simp

theorem journalRows_asc (s : State) (hd : Distinct s) (since : Nat) : Asc (journalRows s.ents since) := by
  unfold journalRows
  apply sortByVer_asc
  exact List.Pairwise.filter _ (List.Pairwise.imp (fun h => h.2) hd)

theorem takeJournal_prefix (limit : Int) : ∀ (l : List Entity) (n b : Nat), takeJournal limit n b l <+: l := by
  intro l
  induction l with
  | nil => intro n b; simp [takeJournal]
  | cons e rest ih =>
    intro n b
    simp only [takeJournal]
    split
    · exact ⟨rest, rfl⟩
    · split
      · exact ⟨rest, rfl⟩
      · exact List.prefix_cons_inj e |>.mpr (ih _ _)

theorem takeJournal_nonempty (limit : Int) (l : List Entity) (n b : Nat) (h : l ≠ []) : takeJournal limit n b l ≠ [] := by
  cases l with
  | nil => exact absurd rfl h
  | cons e rest =>
    simp only [takeJournal]
    split
    · simp
    · split <;> simp

/-- "the journal returns each entity's latest version exactly once in ascending version order": in every reachable state,
    for every `since` and page size, the reply
    (1) is strictly ascending by version (hence no entity and no version appears twice),
    (2) consists of current rows (`metrics_v5` holds exactly the latest version of every entity) newer than `since`,
    (3) is a prefix of the complete ascending list of such rows, non-empty whenever that list is non-empty — so a reader that
        continues from the last version it received skips nothing (`journal_paging_complete`). -/
theorem journal_latest_once_ascending (c : Cfg) (ops : List Op) (since : Nat) (page : Int) :
    let s := run c State.empty ops
    Asc (journal s since page) ∧
    (∀ e ∈ journal s since page, e ∈ s.ents ∧ since < e.version) ∧
    (∀ e1 ∈ journal s since page, ∀ e2 ∈ journal s since page, e1.id = e2.id → e1 = e2) ∧
    journal s since page <+: journalRows s.ents since ∧
    (journalRows s.ents since ≠ [] → journal s since page ≠ []) := by
  intro s
  have hi : Inv s := reachable_inv c ops
  have hd : Distinct s := reachable_distinct c ops _ inv_empty (by simp [Distinct, State.empty])
  have hpre : journal s since page <+: journalRows s.ents since := takeJournal_prefix _ _ _ _
  have hmem : ∀ e ∈ journal s since page, e ∈ s.ents ∧ since < e.version :=
    fun e he => (mem_journalRows _ _ _).mp (hpre.subset he)
  refine ⟨?_, hmem, ?_, hpre, takeJournal_nonempty _ _ _ _⟩
  · obtain ⟨t, ht⟩ := hpre
    have := journalRows_asc s hd since
    rw [← ht] at this
    exact (List.pairwise_append.mp this).1
  · intro e1 h1 e2 h2 hid
    exact hi.idUniq e1 (hmem e1 h1).1 e2 (hmem e2 h2).1 hid

/-- paging: if a reply `P` (a prefix of the ascending list) ends with version `w`, the rows newer than `w` are exactly the
    rows of the full list that were not delivered yet -/
theorem journal_paging_complete (s : State) (hd : Distinct s) (since : Nat) (P R : List Entity) (last : Entity)
    (hsplit : journalRows s.ents since = P ++ R) (hlast : P.getLast? = some last) :
    ∀ e, e ∈ journalRows s.ents last.version ↔ e ∈ R := by
  intro e
  have hasc := journalRows_asc s hd since
  rw [hsplit] at hasc
  obtain ⟨hP, hR, hPR⟩ := List.pairwise_append.mp hasc
  have hlm : last ∈ P := List.mem_of_getLast? hlast
  have hle : ∀ x ∈ P, x.version ≤ last.version := by
    intro x hx
    obtain ⟨init, hinit⟩ : ∃ init, P = init ++ [last] := by
      have := List.getLast?_eq_some_iff.mp hlast
      obtain ⟨ys, hys⟩ := this
      exact ⟨ys, hys⟩
    rw [hinit] at hx hP
    rcases List.mem_append.mp hx with h | h
    · exact Nat.le_of_lt ((List.pairwise_append.mp hP).2.2 x h last (by simp))
    · simp at h; subst h; exact Nat.le_refl _
  rw [mem_journalRows]
  constructor
  · rintro ⟨hm, hv⟩
    have hsince : since < e.version := by
      have := ((mem_journalRows s.ents since last).mp (by rw [hsplit]; exact List.mem_append_left _ hlm)).2
      omega
    have : e ∈ P ++ R := by rw [← hsplit]; exact (mem_journalRows _ _ _).mpr ⟨hm, hsince⟩
    rcases List.mem_append.mp this with h | h
    · have := hle e h; omega
    · exact h
  · intro hr
    have hm := (mem_journalRows s.ents since e).mp (by rw [hsplit]; exact List.mem_append_right _ hr)
    exact ⟨hm.1, hPR last hlm e hr⟩


/-! ### C15.6b  paging the journal while edits keep happening

  A client pages with `sinceVersion`: request, take the version of the last event as the next `since`, repeat; between its requests
  ANY operations run (creates, edits, renames, deletes by other clients). Claim: everything at or below the client's `since` that is
  current has been delivered to it — so whenever it catches up (`since` = newest version, or an empty reply) it holds the latest
  version of every entity. -/

/-- rows that are not newer than the newest version of `s` are untouched by one operation -/
theorem old_rows_step (c : Cfg) (s : State) (op : Op) (e : Entity) (he : e ∈ (step c s op).ents)
    (hv : e.version ≤ maxVer s.ents) : e ∈ s.ents := by
  cases op with
  | save a =>
    have hs := save_shape .fixed s a
    simp only [step, save] at he
    generalize saveV .fixed s a = p at hs he
    cases hs with
    | err e' => exact he
    | created nsId hns hc hb hec =>
      rcases (mem_insertById _ _ _).mp he with h | h
      · subst h; simp only [createdRow] at hv; omega
      · exact h
    | edited nsId r hns hr hv' hc hck hlate hb hec htyp =>
      rcases (mem_replaceRow _ _ _).mp he with ⟨h, _⟩ | ⟨h, _⟩
      · subst h; simp only [editedRow] at hv; omega
      · exact h
  | getOrCreate m k now => rw [(step_other c s (.getOrCreate m k now) (by intro a h; cases h)).1] at he; exact he
  | put kvs => rw [(step_other c s (.put kvs) (by intro a h; cases h)).1] at he; exact he
  | delete ids => rw [(step_other c s (.delete ids) (by intro a h; cases h)).1] at he; exact he
  | reset m l now => rw [(step_other c s (.reset m l now) (by intro a h; cases h)).1] at he; exact he

theorem maxVer_mono_step (c : Cfg) (s : State) (op : Op) (hi : Inv s) : maxVer s.ents ≤ maxVer (step c s op).ents := by
  cases op with
  | save a => exact maxVer_mono_save s a hi
  | getOrCreate m k now => rw [(step_other c s (.getOrCreate m k now) (by intro a h; cases h)).1]; exact Nat.le_refl _
  | put kvs => rw [(step_other c s (.put kvs) (by intro a h; cases h)).1]; exact Nat.le_refl _
  | delete ids => rw [(step_other c s (.delete ids) (by intro a h; cases h)).1]; exact Nat.le_refl _
  | reset m l now => rw [(step_other c s (.reset m l now) (by intro a h; cases h)).1]; exact Nat.le_refl _

/-- … and by any history: a row of the later state whose version is not above the earlier maximum is a row of the earlier state -/
theorem old_rows_run (c : Cfg) : ∀ (ops : List Op) (s : State), Inv s → ∀ e ∈ (run c s ops).ents, e.version ≤ maxVer s.ents →
    e ∈ s.ents ∧ maxVer s.ents ≤ maxVer (run c s ops).ents := by
  intro ops
  induction ops with
  | nil => intro s _ e he _; exact ⟨he, Nat.le_refl _⟩
  | cons op ops ih =>
    intro s hi e he hv
    have hm := maxVer_mono_step c s op hi
    obtain ⟨h1, h2⟩ := ih (step c s op) (step_inv c s op hi) e he (Nat.le_trans hv hm)
    exact ⟨old_rows_step c s op e h1 hv, Nat.le_trans hm h2⟩

theorem maxVer_mono_run (c : Cfg) : ∀ (ops : List Op) (s : State), Inv s → maxVer s.ents ≤ maxVer (run c s ops).ents := by
  intro ops
  induction ops with
  | nil => intro s _; exact Nat.le_refl _
  | cons op ops ih => intro s hi; exact Nat.le_trans (maxVer_mono_step c s op hi) (ih _ (step_inv c s op hi))

/-- one round of the client: other people's operations `ops`, then a journal request with page size `page` -/
structure Round where
  ops : List Op
  page : Int

/-- the paging client: (database state, its `since`, everything it has received so far) -/
def pagingSession (c : Cfg) : State → Nat → List Entity → List Round → State × Nat × List Entity
  | s, since, recv, [] => (s, since, recv)
  | s, since, recv, r :: rs =>
    let s' := run c s r.ops
    let reply := journal s' since r.page
    let since' := match reply.getLast? with
      | some last => last.version
      | none => since
    pagingSession c s' since' (recv ++ reply) rs

/-- what the client is entitled to: it holds every current row whose version is at or below its `since` -/
def CaughtUpTo (s : State) (since : Nat) (recv : List Entity) : Prop :=
  since ≤ maxVer s.ents ∧ ∀ e ∈ s.ents, e.version ≤ since → e ∈ recv

theorem paging_round (c : Cfg) (s : State) (since : Nat) (recv : List Entity) (r : Round)
    (hi : Inv s) (hd : Distinct s) (h : CaughtUpTo s since recv) :
    let s' := run c s r.ops
    let reply := journal s' since r.page
    CaughtUpTo s' (match reply.getLast? with | some last => last.version | none => since) (recv ++ reply) := by
  intro s' reply
  have hi' : Inv s' := run_inv c r.ops s hi
  have hd' : Distinct s' := reachable_distinct c r.ops s hi hd
  have hmono := maxVer_mono_run c r.ops s hi
  have hpre : reply <+: journalRows s'.ents since := takeJournal_prefix _ _ _ _
  -- rows of the new state at or below the old `since` are old rows, hence already received
  have hold : ∀ e ∈ s'.ents, e.version ≤ since → e ∈ recv := by
    intro e he hv
    exact h.2 e (old_rows_run c r.ops s hi e he (Nat.le_trans hv h.1)).1 hv
  cases hl : reply.getLast? with
  | none =>
    simp only
    refine ⟨Nat.le_trans h.1 hmono, ?_⟩
    intro e he hv
    exact List.mem_append_left _ (hold e he hv)
  | some last =>
    simp only
    have hlm : last ∈ reply := List.mem_of_getLast? hl
    have hlast := (mem_journalRows s'.ents since last).mp (hpre.subset hlm)
    refine ⟨le_maxVer _ _ hlast.1, ?_⟩
    intro e he hv
    by_cases hle : e.version ≤ since
    · exact List.mem_append_left _ (hold e he hle)
    · apply List.mem_append_right
      obtain ⟨R, hsplit⟩ := hpre
      have hej : e ∈ journalRows s'.ents since := (mem_journalRows _ _ _).mpr ⟨he, by omega⟩
      rw [← hsplit] at hej
      rcases List.mem_append.mp hej with hp | hr
      · exact hp
      · have := (journal_paging_complete s' hd' since reply R last hsplit.symm hl e).mpr hr
        have := ((mem_journalRows _ _ _).mp this).2
        omega

/-- "a client paging by sinceVersion with edits happening between its requests never misses the latest version of any entity":
    for every number of rounds, every page size and ANY operations between the requests, the client holds every current row at or
    below its `since` … -/
theorem paging_never_misses (c : Cfg) : ∀ (rounds : List Round) (s : State) (since : Nat) (recv : List Entity),
    Inv s → Distinct s → CaughtUpTo s since recv →
    CaughtUpTo (pagingSession c s since recv rounds).1 (pagingSession c s since recv rounds).2.1
      (pagingSession c s since recv rounds).2.2 := by
  intro rounds
  induction rounds with
  | nil => intro s since recv _ _ h; exact h
  | cons r rs ih =>
    intro s since recv hi hd h
    simp only [pagingSession]
    exact ih _ _ _ (run_inv c r.ops s hi) (reachable_distinct c r.ops s hi hd) (paging_round c s since recv r hi hd h)

/-- versions start at 1 -/
def VerPos (s : State) : Prop := ∀ e ∈ s.ents, 1 ≤ e.version

theorem verpos_step (c : Cfg) (s : State) (op : Op) (h : VerPos s) : VerPos (step c s op) := by
  cases op with
  | save a =>
    have hs := save_shape .fixed s a
    simp only [step, save]
    generalize saveV .fixed s a = p at hs
    cases hs with
    | err e' => exact h
    | created nsId hns hc hb hec =>
      intro e he
      rcases (mem_insertById _ _ _).mp he with h1 | h1
      · subst h1; simp [createdRow]
      · exact h e h1
    | edited nsId r hns hr hv' hc hck hlate hb hec htyp =>
      intro e he
      rcases (mem_replaceRow _ _ _).mp he with ⟨h1, _⟩ | ⟨h1, _⟩
      · subst h1; simp [editedRow]
      · exact h e h1
  | getOrCreate m k now => unfold VerPos; rw [(step_other c s (.getOrCreate m k now) (by intro a h; cases h)).1]; exact h
  | put kvs => unfold VerPos; rw [(step_other c s (.put kvs) (by intro a h; cases h)).1]; exact h
  | delete ids => unfold VerPos; rw [(step_other c s (.delete ids) (by intro a h; cases h)).1]; exact h
  | reset m l now => unfold VerPos; rw [(step_other c s (.reset m l now) (by intro a h; cases h)).1]; exact h

theorem verpos_run (c : Cfg) : ∀ (ops : List Op) (s : State), VerPos s → VerPos (run c s ops) := by
  intro ops
  induction ops with
  | nil => intro s h; exact h
  | cons op ops ih => intro s h; exact ih _ (verpos_step c s op h)

/-- … so once it catches up — its `since` is the newest version, or a request comes back empty — it holds the latest version of
    EVERY entity. Stated for a client that starts from scratch (since = 0, nothing received) against ANY reachable database
    `run c State.empty pre`, with any operations between its requests. -/
theorem paging_complete_when_caught_up (c : Cfg) (pre : List Op) (rounds : List Round) :
    let fin := pagingSession c (run c State.empty pre) 0 [] rounds
    (fin.2.1 = maxVer fin.1.ents ∨ journalRows fin.1.ents fin.2.1 = []) → ∀ e ∈ fin.1.ents, e ∈ fin.2.2 := by
  intro fin hcu e he
  have hi := reachable_inv c pre
  have hd : Distinct (run c State.empty pre) := reachable_distinct c pre _ inv_empty (by simp [Distinct, State.empty])
  have hp : VerPos (run c State.empty pre) := verpos_run c pre _ (by intro e he; simp [State.empty] at he)
  have h0 : CaughtUpTo (run c State.empty pre) 0 [] := by
    refine ⟨Nat.zero_le _, ?_⟩
    intro e he hv
    have := hp e he
    omega
  have h := paging_never_misses c rounds _ 0 [] hi hd h0
  apply h.2 e he
  rcases hcu with hcu | hcu
  · rw [hcu]; exact le_maxVer _ _ he
  · apply Nat.le_of_not_lt
    intro hlt
    have := (mem_journalRows fin.1.ents fin.2.1 e).mpr ⟨he, hlt⟩
    rw [hcu] at this; cases this

/-! ### C15.7  the journal long-poll of the rpc handler (RawGetJournal / broadcastJournal)

  A schedule is any sequence of subscribe / save / broadcast steps; `broadcast s ws` is a function of the database state `s`
  and of the parked requests `ws` only, so the statements below — for EVERY reachable `s` and EVERY list `ws` of parked
  requests (any clients, any From values, equal or different) — cover every schedule. -/

theorem filter_all {l : List Entity} {p : Entity → Bool} (h : ∀ e ∈ l, p e = true) : l.filter p = l :=
  List.filter_eq_self.mpr h

/-- on an ascending page the trim loop of broadcastJournal keeps exactly the events newer than the client's From -/
theorem trimSeen_eq_filter (since : Nat) : ∀ l : List Entity, Asc l →
    trimSeen since l = l.filter (fun e => decide (since < e.version)) := by
  intro l
  induction l with
  | nil => intro _; rfl
  | cons x xs ih =>
    intro h
    obtain ⟨hx, hxs⟩ := List.pairwise_cons.mp h
    unfold trimSeen
    by_cases hle : x.version ≤ since
    · have h1 : decide (x.version ≤ since) = true := by simpa using hle
      have h2 : decide (since < x.version) = false := by simpa using hle
      rw [List.dropWhile_cons, if_pos h1, List.filter_cons, if_neg (by simp [h2])]
      exact ih hxs
    · have h1 : ¬ decide (x.version ≤ since) = true := by simpa using hle
      have h2 : decide (since < x.version) = true := by simpa using Nat.lt_of_not_le hle
      rw [List.dropWhile_cons, if_neg h1, List.filter_cons, if_pos h2]
      congr 1
      symm
      apply filter_all
      intro e he
      have := hx e he
      simp; omega

theorem minSince_le : ∀ (ws : List Waiter) (w : Waiter), w ∈ ws → minSince ws ≤ w.since := by
  intro ws
  induction ws with
  | nil => intro w h; cases h
  | cons a as ih =>
    intro w h
    cases as with
    | nil => simp at h; subst h; simp [minSince]
    | cons b bs =>
      simp only [minSince]
      rcases List.mem_cons.mp h with h | h
      · subst h; exact Nat.min_le_left _ _
      · exact Nat.le_trans (Nat.min_le_right _ _) (ih w h)

theorem asc_sublist {l l' : List Entity} (h : Asc l) (hs : l'.Sublist l) : Asc l' := List.Pairwise.sublist hs h

/-- the page a broadcast works on: ascending, current rows only, a prefix of everything newer than the smallest From -/
theorem broadcastPage_spec (s : State) (hd : Distinct s) (ws : List Waiter) :
    Asc (broadcastPage s ws) ∧ (∀ e ∈ broadcastPage s ws, e ∈ s.ents ∧ minSince ws < e.version) ∧
    (ws ≠ [] → broadcastPage s ws <+: journalRows s.ents (minSince ws)) := by
  unfold broadcastPage
  cases ws with
  | nil => simp [Asc]
  | cons w rest =>
    simp only [List.isEmpty_cons, Bool.false_eq_true, if_false]
    have hpre : journal s (minSince (w :: rest)) 100 <+: journalRows s.ents (minSince (w :: rest)) := takeJournal_prefix _ _ _ _
    refine ⟨asc_sublist (journalRows_asc s hd _) hpre.sublist, ?_, fun _ => hpre⟩
    intro e he
    exact (mem_journalRows _ _ _).mp (hpre.subset he)

/-- "each client receives … only versions > its From, in ascending order" and nothing of the page is withheld:
    every reply of a broadcast belongs to a parked request, is non-empty, strictly ascending (so no entity and no version twice),
    consists of current rows newer than that request's From, and contains EVERY event of the page newer than its From. -/
theorem broadcast_reply_spec (s : State) (hd : Distinct s) (ws : List Waiter) (c : Nat) (evs : List Entity)
    (h : (c, evs) ∈ (broadcast s ws).2) :
    ∃ w ∈ ws, w.client = c ∧ evs ≠ [] ∧ Asc evs ∧ (∀ e ∈ evs, w.since < e.version ∧ e ∈ s.ents) ∧
      (∀ e ∈ broadcastPage s ws, w.since < e.version → e ∈ evs) := by
  obtain ⟨hasc, hmem, _⟩ := broadcastPage_spec s hd ws
  simp only [broadcast, List.mem_map, List.mem_filter] at h
  obtain ⟨w, ⟨hw, hans⟩, heq⟩ := h
  injection heq with hc hev
  have hf := trimSeen_eq_filter w.since _ hasc
  refine ⟨w, hw, hc, ?_, ?_, ?_, ?_⟩
  · rw [← hev]; intro hnil; simp [answered, hnil] at hans
  · rw [← hev, hf]; exact asc_sublist hasc List.filter_sublist
  · intro e he
    rw [← hev, hf, List.mem_filter] at he
    exact ⟨by simpa using he.2, (hmem e he.1).1⟩
  · intro e he hv
    rw [← hev, hf, List.mem_filter]
    exact ⟨he, by simpa using hv⟩

/-- a request stays parked only if the page holds nothing newer than its From -/
theorem broadcast_parked_spec (s : State) (hd : Distinct s) (ws : List Waiter) (w : Waiter) (h : w ∈ (broadcast s ws).1) :
    w ∈ ws ∧ ∀ e ∈ broadcastPage s ws, e.version ≤ w.since := by
  obtain ⟨hasc, _, _⟩ := broadcastPage_spec s hd ws
  simp only [broadcast, List.mem_filter] at h
  refine ⟨h.1, ?_⟩
  intro e he
  have hf := trimSeen_eq_filter w.since _ hasc
  have hemp : trimSeen w.since (broadcastPage s ws) = [] := by
    have := h.2; simp only [answered, Bool.not_not] at this; exact List.isEmpty_iff.mp this
  rw [hf] at hemp
  have := List.filter_eq_nil_iff.mp hemp e he
  simpa using this

/-- "…and eventually-missing nothing that exists at broadcast time": a reply contains every entity whose current version lies
    between the request's From and the last version of the page (= the CurrentVersion the client continues from) -/
theorem broadcast_misses_nothing (s : State) (hd : Distinct s) (ws : List Waiter) (c : Nat) (evs : List Entity)
    (h : (c, evs) ∈ (broadcast s ws).2) (last : Entity) (hlast : (broadcastPage s ws).getLast? = some last) :
    ∃ w ∈ ws, w.client = c ∧ ∀ e ∈ s.ents, w.since < e.version → e.version ≤ last.version → e ∈ evs := by
  obtain ⟨w, hw, hc, _, _, _, hall⟩ := broadcast_reply_spec s hd ws c evs h
  refine ⟨w, hw, hc, ?_⟩
  intro e he hlo hhi
  apply hall e _ hlo
  have hne : ws ≠ [] := by intro h0; subst h0; cases hw
  obtain ⟨_, _, hpre⟩ := broadcastPage_spec s hd ws
  obtain ⟨R, hsplit⟩ := hpre hne
  have hmin := minSince_le ws w hw
  have hej : e ∈ journalRows s.ents (minSince ws) := (mem_journalRows _ _ _).mpr ⟨he, by omega⟩
  rw [← hsplit] at hej
  rcases List.mem_append.mp hej with hp | hr
  · exact hp
  · have := (journal_paging_complete s hd (minSince ws) _ R last hsplit.symm hlast e).mpr hr
    have := ((mem_journalRows _ _ _).mp this).2
    omega

/-- a parked request means there was nothing newer than its From; an immediate reply is `journal s since limit`, whose
    properties are `journal_latest_once_ascending` -/
theorem subscribe_spec (s : State) (ws : List Waiter) (c since : Nat) (limit : Int) :
    (subscribe s ws c since limit false).2 = none → ∀ e ∈ s.ents, e.version ≤ since := by
  intro h e he
  unfold subscribe at h
  by_cases hj : (journal s since limit).isEmpty = true
  · have hrows : journalRows s.ents since = [] := by
      cases hr : journalRows s.ents since with
      | nil => rfl
      | cons x xs =>
        exfalso
        have := takeJournal_nonempty (journalLimit limit) (journalRows s.ents since) 0 0 (by rw [hr]; simp)
        exact this (List.isEmpty_iff.mp hj)
    apply Nat.le_of_not_lt
    intro hlt
    have := (mem_journalRows s.ents since e).mpr ⟨he, hlt⟩
    rw [hrows] at this; cases this
  · simp [hj] at h

/-- a client that continues from the CurrentVersion it was given (the version of the last event it received) never receives a
    version twice: consecutive replies concatenate to one strictly ascending sequence -/
theorem client_session_ascending (r1 r2 : List Entity) (last : Entity) (h1 : Asc r1) (h2 : Asc r2)
    (hl : r1.getLast? = some last) (hnew : ∀ e ∈ r2, last.version < e.version) : Asc (r1 ++ r2) := by
  refine List.pairwise_append.mpr ⟨h1, h2, ?_⟩
  intro a ha b hb
  obtain ⟨ini, hini⟩ := List.getLast?_eq_some_iff.mp hl
  have hle : a.version ≤ last.version := by
    rw [hini] at ha h1
    rcases List.mem_append.mp ha with h | h
    · exact Nat.le_of_lt ((List.pairwise_append.mp h1).2.2 a h last (by simp))
    · simp at h; subst h; exact Nat.le_refl _
  exact Nat.lt_of_le_of_lt hle (hnew b hb)

/-! ### non-vacuity: concrete histories on which the hypotheses above hold and the interesting branches are taken -/

def mk (loc : Nat) (id : Int) (oldVersion : Nat) (create : Bool) (typ : Nat) (ns : Nat := 0) : SaveReq :=
  { name := ⟨ns, loc⟩, id := id, oldVersion := oldVersion, data := 7, dataLen := 2, create := create, deleteTime := 0,
    typ := typ, mdata := 1, now := 1700000000 }

def cfg0 : Cfg := { maxBudget := 1000, step := 3600, bonus := 10, globalBudget := 1000000 }

/-- namespace w1 (id 1, version 1), metric w1:w5 in it (id 2, version 2), metric w6 (id 3, version 3) -/
def s3 : State := run cfg0 State.empty [.save (mk 1 0 0 true tNamespace), .save (mk 5 0 0 true tMetric 1), .save (mk 6 0 0 true tMetric)]

example : s3.ents.map (fun e => (e.id, e.version, e.nsId)) = [(1, 1, 0), (2, 2, 1), (3, 3, 0)] := by decide
-- two racing edits of entity 3 from version 3 (one of them a rename): each succeeds alone …
example : (save s3 (mk 6 3 3 false tMetric)).2 = .ok (mkEvent (mk 6 3 3 false tMetric) 3 4 0) false := by decide
example : (save s3 (mk 9 3 3 false tMetric)).2 = .ok (mkEvent (mk 9 3 3 false tMetric) 3 4 0) false := by decide
-- … and in either order exactly one wins, the loser is told "invalid version"
example : okCount s3 [mk 6 3 3 false tMetric, mk 9 3 3 false tMetric] = 1 := by decide
example : okCount s3 [mk 9 3 3 false tMetric, mk 6 3 3 false tMetric] = 1 := by decide
example : (save (save s3 (mk 9 3 3 false tMetric)).1 (mk 6 3 3 false tMetric)).2 = .err .invalidVersion := by decide
example : winners cfg0 s3 [.save (mk 9 3 3 false tMetric), .getOrCreate 1 1 5, .save (mk 6 3 3 false tMetric)] 3 = 1 := by decide
example : okVersions cfg0 State.empty [.save (mk 1 0 0 true tNamespace), .save (mk 1 0 0 true tNamespace), .save (mk 1 1 1 false tNamespace)] = [1, 2] := by decide
-- three racers with DIFFERENT new names, data and metadata from version 3 of entity 3, all six orders: exactly one winner each time
def racer (loc data mdata : Nat) : SaveReq := { mk loc 3 3 false tMetric with data := data, mdata := mdata }
example : ∀ rs ∈ [[racer 7 1 0, racer 8 2 1, racer 9 3 2], [racer 7 1 0, racer 9 3 2, racer 8 2 1], [racer 8 2 1, racer 7 1 0, racer 9 3 2],
    [racer 8 2 1, racer 9 3 2, racer 7 1 0], [racer 9 3 2, racer 7 1 0, racer 8 2 1], [racer 9 3 2, racer 8 2 1, racer 7 1 0]],
    okCount s3 rs = 1 := by decide
-- rename onto a used name of the same type and namespace: UNIQUE constraint; into a missing namespace: rejected
example : (save s3 (mk 6 2 2 false tMetric)).2 = .err .constraint := by decide
example : (save s3 (mk 6 3 3 false tMetric 4)).2 = .err .nsMissing := by decide
example : (save s3 (mk 2 1 1 false tNamespace)).2 = .err .renameNs := by decide
example : (journal s3 1 1000).map (·.id) = [2, 3] ∧ (journal s3 0 2).map (·.id) = [1, 2] ∧ (journal s3 2 (-1)).map (·.id) = [3] := by decide


-- `namespace_not_renamable`: a history that tries everything on namespace w1 (id 1) — a rename attempt, an edit, a METRIC request
-- aimed at its id and version, a create-flag request — while other entities are renamed around it; w1 keeps name and type
example : ((run cfg0 s3 [.save (mk 2 1 1 false tNamespace), .save (mk 1 1 1 false tNamespace), .save (mk 7 1 4 false tMetric),
    .save (mk 9 3 3 false tMetric), .save (mk 1 1 4 true tNamespace)]).ents.map
    (fun e => (e.id, e.typ, e.name.loc, e.version))) = [(1, 4, 1, 4), (2, 0, 5, 2), (3, 0, 9, 5)] := by decide
-- `foreign_type_edit_rejected` / `edit_preserves_type`: a dashboard request aimed at metric 3 is refused, a metric request goes through
example : save s3 (mk 6 3 3 false tDashboard) = (s3, .err .invalidVersion) := by decide
example : effCreate s3 (mk 6 3 3 false tDashboard) = false ∧ (∀ r ∈ s3.ents, r.id = 3 → r.typ ≠ tDashboard) := by decide
-- before fb668983 the same request overwrote the metric and the returned event claimed it was a dashboard
example : (saveV .untyped s3 (mk 6 3 3 false tDashboard)).2 = .ok (mkEvent (mk 6 3 3 false tDashboard) 3 4 0) false := by decide

-- `name_unique_per_type`: moving metric 3 (w6) into namespace w1 under the name w1:w5, which metric 2 carries, is refused …
example : (save s3 (mk 5 3 3 false tMetric 1)).2 = .err .constraint := by decide
-- … while before fb668983 a dashboard-typed request first stripped metric 2 of its namespace_id (type and name untouched) and the
-- same rename then went through: two metrics with the full name w1:w5
example : ((saveV .untyped (saveV .untyped s3 (mk 5 2 2 false tDashboard 1)).1 (mk 5 3 3 false tMetric 1)).1.ents.map
    (fun e => (e.id, e.typ, e.name, e.nsId))) = [(1, 4, ⟨0, 1⟩, 0), (2, 0, ⟨1, 5⟩, 0), (3, 0, ⟨1, 5⟩, 1)] := by decide
example : NsInv s3 := nsinv_run cfg0 _ _ inv_empty nsinv_empty

-- non-vacuity: the client pages with page size 1 while entity 3 is renamed and entity 2 edited between its requests; after five
-- rounds its `since` is the newest version (5) and it holds the latest version of all three entities
def rounds5 : List Round :=
  [⟨[], 1⟩, ⟨[.save (mk 9 3 3 false tMetric)], 1⟩, ⟨[.save (mk 5 2 2 false tMetric 1)], 1⟩, ⟨[], 1⟩, ⟨[], 1000⟩]
example : (pagingSession cfg0 s3 0 [] rounds5).2.1 = 5 ∧ maxVer (pagingSession cfg0 s3 0 [] rounds5).1.ents = 5 ∧
    ((pagingSession cfg0 s3 0 [] rounds5).2.2.map (fun e => (e.id, e.version))) = [(1, 1), (2, 2), (3, 4), (2, 5)] := by decide

-- re-saving an entity UNCHANGED is an edit like any other. Dashboard w3 is created (id 4, version 4); the identical request from
-- version 4 succeeds with version 5; repeated from the now stale version 4 it is refused; two such requests racing: one winner
def dash (oldVersion : Nat) (create : Bool) : SaveReq := mk 3 (if create then 0 else 4) oldVersion create tDashboard
def s4 : State := (save s3 (dash 0 true)).1
example : (save s4 (dash 4 false)).2 = .ok (mkEvent (dash 4 false) 4 5 0) false := by decide
example : (save (save s4 (dash 4 false)).1 (dash 4 false)).2 = .err .invalidVersion := by decide
example : okCount s4 [dash 4 false, dash 4 false, dash 4 false] = 1 := by decide
example : (journal (save s4 (dash 4 false)).1 4 1000).map (fun e => (e.id, e.version)) = [(4, 5)] := by decide

/-- the seeded variant C15-r4-2 ("nothing changed" fast path for dashboards: success with the OLD version, nothing written), as a
    function next to the model, and what it breaks: the accepted edit does not get a version above the existing maximum (the reply says 4, the
    named version, where `edit_assigns_fresh_max_version` demands 5), the named version stays current so the same request is
    accepted again and again, and the journal after version 4 stays empty -/
def saveNoopFastPath (s : State) (a : SaveReq) : State × SaveOut :=
  match rowOf s.ents a.id with
  | some r =>
    if a.typ == tDashboard && !a.create && rowMatches .fixed r a && r.name == a.name && r.data == a.data && r.dataLen == a.dataLen
        && r.deletedAt == a.deleteTime then
      (s, .ok { mkEvent a r.id r.version 0 with updatedAt := r.updatedAt % two32 } false)
    else save s a
  | none => save s a
example : saveNoopFastPath s4 (dash 4 false) = (s4, .ok (mkEvent (dash 4 false) 4 4 0) false) := by decide
example : ¬ (∀ ev, (saveNoopFastPath s4 (dash 4 false)).2 = .ok ev false → ev.version = maxVer s4.ents + 1) := by
  intro h; exact absurd (h (mkEvent (dash 4 false) 4 4 0) (by decide)) (by decide)
example : (saveNoopFastPath (saveNoopFastPath s4 (dash 4 false)).1 (dash 4 false)).2 = .ok (mkEvent (dash 4 false) 4 4 0) false := by decide
example : journal (saveNoopFastPath s4 (dash 4 false)).1 4 1000 = [] := by decide

-- long-poll: client 1 parked at From 2 (it holds everything up to 2), client 2 parked at From 3 = the version of the pending event
-- of entity 3; the broadcast reads from the smaller From: client 1 gets version 3, client 2 gets nothing and stays parked
example : broadcast s3 [⟨1, 2⟩, ⟨2, 3⟩] = ([⟨2, 3⟩], [(1, journal s3 2 100)]) ∧ (journal s3 2 100).map (·.version) = [3] := by decide
example : (subscribe s3 [] 7 3 1000 false) = ([⟨7, 3⟩], none) ∧ (subscribe s3 [] 7 1 1000 false).2 = some (journal s3 1 1000) := by decide

end SH.C15
