/-
  C29 — Query admission never exceeds capacity, loses wakeups or starves users.

  "For any schedule of acquisitions, cancellations, releases and capacity changes, the per-user round-robin
   queue never has more active queries than its capacity, grants a waiting query whenever capacity frees,
   never leaks capacity through cancellations, and never grants a user twice while another user that was
   already waiting is still waiting. The weighted semaphore never admits more than its size, serves waiters
   in FIFO order, and a cancelled waiter leaves it unchanged."

  Model: SH.Model.RRQueue (variant `.loop` = code after the fix: commit), SH.Model.Semaphore.
  A schedule is an arbitrary `List Op`; every theorem below is for every state / every op (one-step
  invariants) and lifted to every schedule by induction over the op list (`*_run`).

  Reading of "never more active than capacity": capacity can be lowered below the number of running queries
  by AdjustCapacity (they are not killed), so the claim is about *grants*: a grant happens only while
  active < capacity (`grants_below_capacity`), hence active ≤ max(capacity, active before).
-/
import SH.Model.RRQueue
import SH.Model.Semaphore

namespace SH.C29
open SH.RRQueue

/-! ### Round-robin queue -/

/-- stored users always have at least one parked query -/
def WF (s : Q) : Prop := ∀ u ∈ s.users, u.qs ≠ []

/-- work conservation: somebody waits only if the queue is full -/
def WC (s : Q) : Prop := s.users = [] ∨ s.cap ≤ s.active

theorem minUser_mem : ∀ (us : List User) (m : User), minUser us = some m → m ∈ us := by
  intro us
  induction us with
  | nil => intro m h; simp [minUser] at h
  | cons u us ih =>
    intro m h
    simp only [minUser] at h
    cases hm : minUser us with
    | none => simp [hm] at h; simp [h]
    | some m' =>
      simp only [hm] at h
      split at h
      · simp at h; simp [h]
      · simp at h; subst h; exact List.mem_cons_of_mem _ (ih _ hm)

theorem minUser_none : ∀ (us : List User), minUser us = none → us = [] := by
  intro us
  cases us with
  | nil => intro _; rfl
  | cons u us =>
    intro h
    simp only [minUser] at h
    cases hm : minUser us with
    | none => simp [hm] at h
    | some m' => simp only [hm] at h; split at h <;> simp at h

theorem minUser_le : ∀ (us : List User) (m : User), minUser us = some m → ∀ u ∈ us, m.order ≤ u.order := by
  intro us
  induction us with
  | nil => intro m h; simp [minUser] at h
  | cons a us ih =>
    intro m h u hu
    simp only [minUser] at h
    cases hm : minUser us with
    | none =>
      have := minUser_none us hm
      subst this
      simp [hm] at h
      simp at hu
      subst h; subst hu; exact Nat.le_refl _
    | some m' =>
      simp only [hm] at h
      have ih' := ih m' hm
      split at h
      · simp at h; subst h
        rcases List.mem_cons.mp hu with h1 | h1
        · subst h1; exact Nat.le_refl _
        · exact Nat.le_trans ‹_› (ih' u h1)
      · simp at h; subst h
        rcases List.mem_cons.mp hu with h1 | h1
        · subst h1; omega
        · exact ih' u h1

/-- a grant takes exactly one slot and never changes the capacity -/
theorem grantOne_active (s s' : Q) (q : Nat) (h : grantOne s = some (s', q)) :
    s'.active = s.active + 1 ∧ s'.cap = s.cap := by
  unfold grantOne at h
  split at h
  · simp at h
  · split at h
    · simp at h
    · simp at h
      obtain ⟨h1, _⟩ := h
      subst h1
      simp [noteGrant]

/-- with well-formed users `grantOne` fails only when nobody waits -/
theorem grantOne_none (s : Q) (hw : WF s) (h : grantOne s = none) : s.users = [] := by
  unfold grantOne at h
  split at h
  · exact minUser_none _ ‹_›
  · rename_i u hu
    split at h
    · rename_i hq
      exact absurd hq (hw u (minUser_mem _ _ hu))
    · simp at h

theorem removeUser_subset (tok : Nat) (us : List User) : ∀ u ∈ removeUser tok us, u ∈ us := by
  intro u hu
  unfold removeUser at hu
  exact (List.mem_filter.mp hu).1

theorem grantOne_WF (s s' : Q) (q : Nat) (hw : WF s) (h : grantOne s = some (s', q)) : WF s' := by
  unfold grantOne at h
  split at h
  · simp at h
  · rename_i u hu
    split at h
    · simp at h
    · rename_i q0 rest hq
      simp at h
      obtain ⟨h1, _⟩ := h
      subst h1
      intro v hv
      simp only at hv
      split at hv
      · exact hw v (removeUser_subset _ _ v hv)
      · rename_i hne
        rcases List.mem_cons.mp hv with h2 | h2
        · subst h2
          simp only
          intro hc
          simp [hc] at hne
        · exact hw v (removeUser_subset _ _ v h2)

/-- `drain` (the grant loop): number of grants, capacity test, and what remains -/
theorem drain_spec : ∀ (fuel : Nat) (s : Q),
    (drain fuel s).1.active = s.active + (drain fuel s).2.length ∧
    (drain fuel s).1.cap = s.cap ∧
    ((drain fuel s).2 ≠ [] → (drain fuel s).1.active ≤ s.cap) := by
  intro fuel
  induction fuel with
  | zero => intro s; simp [drain]
  | succ n ih =>
    intro s
    unfold drain
    split
    · rename_i hlt
      split
      · simp
      · rename_i s' q hg
        have ⟨ha, hc⟩ := grantOne_active s s' q hg
        have ⟨i1, i2, i3⟩ := ih s'
        refine ⟨?_, ?_, ?_⟩
        · simp only [List.length_cons]; rw [i1, ha]; omega
        · simp only; rw [i2, hc]
        · intro _
          simp only
          by_cases hnil : (drain n s').2 = []
          · rw [i1, hnil, ha]; simp; omega
          · have := i3 hnil; rw [hc] at this; exact this
    · simp

theorem next_loop_spec (s : Q) :
    (next .loop s).1.active = s.active + (next .loop s).2.length ∧ (next .loop s).1.cap = s.cap ∧
    ((next .loop s).2 ≠ [] → (next .loop s).1.active ≤ s.cap) := by
  simp only [next]; exact drain_spec _ _

/-- every op is either a direct update or ends in the grant loop -/
theorem step_loop_cases (s : Q) (op : Op) :
    (∃ s0, step .loop s op = next .loop s0 ∧ s0.active = s.active - (if op = .release then 1 else 0)) ∨
    (∃ q s1, step .loop s op = (s1, [q]) ∧ s1.active = s.active + 1 ∧ s1.cap = s.cap ∧ s1.users = s.users ∧
        s.active < s.cap ∧ op ≠ .release) ∨
    (step .loop s op).2 = [] ∧ (step .loop s op).1.active = s.active ∧ op ≠ .release := by
  cases op with
  | acquire tok q =>
    by_cases hu : hasUser tok s.users = true
    · left; exact ⟨{ s with users := pushQuery tok q s.users }, by simp [step, hu], by simp⟩
    · by_cases hlt : s.active < s.cap
      · right; left
        exact ⟨q, { noteGrant { s with order := s.order + 1 } tok with active := s.active + 1 },
          by simp [step, hu, hlt], by simp [noteGrant], by simp [noteGrant], by simp [noteGrant], hlt, by simp⟩
      · left
        exact ⟨{ s with order := s.order + 1, users := { token := tok, order := s.order, qs := [q] } :: s.users,
                        passed := s.passed.filter (fun p => p.1 != tok) },
          by simp [step, hu, hlt], by simp⟩
  | cancel q => right; right; simp [step]
  | release => left; exact ⟨{ s with active := s.active - 1 }, by simp [step], by simp⟩
  | adjust c => left; exact ⟨{ s with cap := c }, by simp [step], by simp⟩

/-- C29 (queue, 1): every grant is made below capacity. If a critical section grants `k` queries it ends
    with `active = before + k ≤ cap`, so the i-th of them was made at `active = before + i < cap`. -/
theorem grants_below_capacity (s : Q) (op : Op) :
    (step .loop s op).2 ≠ [] → (step .loop s op).1.active ≤ (step .loop s op).1.cap := by
  intro hg
  rcases step_loop_cases s op with ⟨s0, h, _⟩ | ⟨q, s1, h, ha, hc, _, hlt, _⟩ | ⟨h, _⟩
  · rw [h] at hg ⊢
    have ⟨_, i2, i3⟩ := next_loop_spec s0
    rw [i2]; exact i3 hg
  · rw [h]; simp only; omega
  · exact absurd h hg

/-- C29 (queue, 3): capacity is never leaked — `active` moves by exactly (#grants − #releases), whatever the
    op, in particular a cancellation changes nothing. -/
theorem no_leak (s : Q) (op : Op) :
    (step .loop s op).1.active = s.active + (step .loop s op).2.length - (if op = .release then 1 else 0) := by
  rcases step_loop_cases s op with ⟨s0, h, h0⟩ | ⟨q, s1, h, ha, _, _, _, hne⟩ | ⟨h, h1, hne⟩
  · rw [h]
    have ⟨i1, _, _⟩ := next_loop_spec s0
    rw [i1, h0]; omega
  · rw [h]; simp [hne, ha]
  · rw [h1, h]; simp [hne]

/-- lifted to schedules: after any schedule, active = #granted − #released -/
theorem no_leak_run : ∀ (ops : List Op) (s : Q),
    (run .loop s ops).1.active =
      s.active + ((run .loop s ops).2.map List.length).sum - (ops.filter (· = Op.release)).length := by
  intro ops
  induction ops with
  | nil => intro s; simp [run]
  | cons op ops ih =>
    intro s
    simp only [run]
    rw [ih (step .loop s op).1, no_leak s op]
    simp only [List.map_cons, List.sum_cons, List.filter_cons]
    by_cases h : op = Op.release
    · subst h; simp; omega
    · simp [h]; omega

theorem sum_filter_le (p : User → Bool) : ∀ (us : List User) (u : User), u ∈ us → p u = false →
    ((us.filter p).map (·.qs.length)).sum + u.qs.length ≤ (us.map (·.qs.length)).sum := by
  intro us
  induction us with
  | nil => intro u hu; simp at hu
  | cons a us ih =>
    intro u hu hp
    rcases List.mem_cons.mp hu with h | h
    · subst h
      simp only [List.filter_cons, hp, List.map_cons, List.sum_cons, Bool.false_eq_true, if_false]
      have : ((us.filter p).map (·.qs.length)).sum ≤ (us.map (·.qs.length)).sum := by
        clear ih hu
        induction us with
        | nil => simp
        | cons b us ih2 =>
          simp only [List.filter_cons]
          split <;> simp <;> omega
      omega
    · have := ih u h hp
      simp only [List.filter_cons]
      split <;> simp <;> omega

theorem grantOne_count (s s' : Q) (q : Nat) (h : grantOne s = some (s', q)) :
    waitingCount s' + 1 ≤ waitingCount s := by
  unfold grantOne at h
  split at h
  · simp at h
  · rename_i u hu
    split at h
    · simp at h
    · rename_i q0 rest hq
      simp at h
      obtain ⟨h1, _⟩ := h
      subst h1
      have hmem := minUser_mem _ _ hu
      have := sum_filter_le (fun v => decide (v.token ≠ u.token)) s.users u hmem (by simp)
      rw [hq] at this
      simp only [waitingCount, removeUser]
      split
      · simp at this ⊢; omega
      · simp at this ⊢; omega

theorem count_zero_users (s : Q) (hw : WF s) (h : waitingCount s = 0) : s.users = [] := by
  cases hu : s.users with
  | nil => rfl
  | cons a us =>
    have := hw a (by simp [hu])
    simp [waitingCount, hu] at h
    exact absurd h.1 this

theorem drain_wc : ∀ (fuel : Nat) (s : Q), WF s → waitingCount s ≤ fuel →
    WC (drain fuel s).1 ∧ WF (drain fuel s).1 := by
  intro fuel
  induction fuel with
  | zero =>
    intro s hw hc
    simp only [drain]
    exact ⟨Or.inl (count_zero_users s hw (by omega)), hw⟩
  | succ n ih =>
    intro s hw hc
    unfold drain
    split
    · split
      · rename_i hg
        exact ⟨Or.inl (grantOne_none s hw hg), hw⟩
      · rename_i s' q hg
        have := grantOne_count s s' q hg
        exact ih s' (grantOne_WF s s' q hw hg) (by omega)
    · rename_i hlt
      exact ⟨Or.inr (by simpa using hlt), hw⟩

theorem next_loop_wc (s : Q) (hw : WF s) : WC (next .loop s).1 ∧ WF (next .loop s).1 := by
  simp only [next]; exact drain_wc _ s hw (Nat.le_refl _)

theorem pushQuery_WF (tok q : Nat) (us : List User) (h : ∀ u ∈ us, u.qs ≠ []) : ∀ u ∈ pushQuery tok q us, u.qs ≠ [] := by
  intro u hu
  simp only [pushQuery, List.mem_map] at hu
  obtain ⟨v, hv, rfl⟩ := hu
  split
  · simp
  · exact h v hv

theorem dropQuery_WF (q : Nat) (us : List User) : ∀ u ∈ dropQuery q us, u.qs ≠ [] := by
  intro u hu
  simp only [dropQuery, List.mem_filter] at hu
  intro hc
  simp [hc] at hu

/-- C29 (queue, 2): work conservation. After every critical section either nobody is parked or the queue is
    full (cap ≤ active): a parked query is granted whenever capacity frees — by Release, by AdjustCapacity
    raising the limit, or by a cancellation — and well-formedness is preserved. -/
theorem work_conserving (s : Q) (op : Op) (hw : WF s) (hc : WC s) :
    WC (step .loop s op).1 ∧ WF (step .loop s op).1 := by
  cases op with
  | acquire tok q =>
    by_cases hu : hasUser tok s.users = true
    · have : step .loop s (.acquire tok q) = next .loop { s with users := pushQuery tok q s.users } := by simp [step, hu]
      rw [this]
      exact next_loop_wc _ (pushQuery_WF tok q s.users hw)
    · by_cases hlt : s.active < s.cap
      · have h1 : (step .loop s (.acquire tok q)).1.users = s.users ∧ (step .loop s (.acquire tok q)).1.cap = s.cap ∧
            (step .loop s (.acquire tok q)).1.active = s.active + 1 := by
          simp [step, hu, hlt, noteGrant]
        refine ⟨?_, ?_⟩
        · rcases hc with h | h
          · left; rw [h1.1]; exact h
          · exact absurd h (by omega)
        · intro u hu'; rw [h1.1] at hu'; exact hw u hu'
      · have : step .loop s (.acquire tok q) = next .loop { s with order := s.order + 1, users := { token := tok, order := s.order, qs := [q] } :: s.users,
                                                                   passed := s.passed.filter (fun p => p.1 != tok) } := by
          simp [step, hu, hlt]
        rw [this]
        apply next_loop_wc
        intro u hu'
        rcases List.mem_cons.mp hu' with h | h
        · subst h; simp
        · exact hw u h
  | cancel q =>
    simp only [step]
    refine ⟨?_, dropQuery_WF q s.users⟩
    rcases hc with h | h
    · left; simp [h, dropQuery]
    · exact Or.inr h
  | release => simp only [step]; exact next_loop_wc _ hw
  | adjust c => simp only [step]; exact next_loop_wc _ hw

/-- lifted to every schedule from the empty queue -/
theorem work_conserving_run : ∀ (ops : List Op) (s : Q), WF s → WC s →
    WC (run .loop s ops).1 ∧ WF (run .loop s ops).1 := by
  intro ops
  induction ops with
  | nil => intro s hw hc; exact ⟨hc, hw⟩
  | cons op ops ih =>
    intro s hw hc
    simp only [run]
    have ⟨h1, h2⟩ := work_conserving s op hw hc
    exact ih _ h2 h1

example (c : Int) : WF (init c) ∧ WC (init c) := by simp [WF, WC, init]

/-- ghost invariant: stamps of waiting users are below the global counter, and whenever `(v,t) ∈ passed`
    (t was granted while v waits) every waiting user with token t carries a later stamp than v -/
structure Inv0 (s : Q) : Prop where
  wf : WF s
  lt : ∀ u ∈ s.users, u.order < s.order
  j : ∀ v ∈ s.users, ∀ t, (v.token, t) ∈ s.passed → ∀ w ∈ s.users, w.token = t → v.order < w.order
  ok : s.bad = false

theorem mem_pushQuery (tok q : Nat) (us : List User) (u' : User) (h : u' ∈ pushQuery tok q us) :
    ∃ u ∈ us, u'.token = u.token ∧ u'.order = u.order := by
  simp only [pushQuery, List.mem_map] at h
  obtain ⟨u, hu, rfl⟩ := h
  refine ⟨u, hu, ?_⟩
  split <;> simp

theorem mem_dropQuery (q : Nat) (us : List User) (u' : User) (h : u' ∈ dropQuery q us) :
    ∃ u ∈ us, u'.token = u.token ∧ u'.order = u.order := by
  simp only [dropQuery, List.mem_filter, List.mem_map] at h
  obtain ⟨⟨u, hu, rfl⟩, _⟩ := h
  exact ⟨u, hu, rfl, rfl⟩

theorem overtakes_false (s : Q) (u : User) (hi : Inv0 s) (hm : minUser s.users = some u) :
    overtakes s u.token = false := by
  have hmem := minUser_mem _ _ hm
  have hle := minUser_le _ _ hm
  simp only [overtakes, Bool.eq_false_iff, ne_eq, List.any_eq_true, not_exists, not_and]
  intro v hv hc
  simp only [Bool.and_eq_true, bne_iff_ne, ne_eq, List.contains_iff_mem] at hc
  have h1 := hi.j v hv u.token hc.2 u hmem rfl
  have h2 := hle v hv
  omega

theorem grantOne_inv (s s' : Q) (q : Nat) (hi : Inv0 s) (h : grantOne s = some (s', q)) : Inv0 s' := by
  have hwf' := grantOne_WF s s' q hi.wf h
  unfold grantOne at h
  split at h
  · simp at h
  · rename_i u hu
    split at h
    · simp at h
    · rename_i q0 rest hq
      simp only [Option.some.injEq, Prod.mk.injEq] at h
      obtain ⟨h1, _⟩ := h
      subst h1
      have hov := overtakes_false s u hi hu
      -- membership in the new user list
      have hmem' : ∀ w, w ∈ (if rest.isEmpty = true then removeUser u.token s.users
            else { u with order := s.order, qs := rest } :: removeUser u.token s.users) →
            (w.token = u.token ∧ w.order = s.order) ∨ (w ∈ s.users ∧ w.token ≠ u.token) := by
        intro w hw
        split at hw
        · right
          simp only [removeUser, List.mem_filter, decide_eq_true_eq] at hw
          exact hw
        · rcases List.mem_cons.mp hw with h2 | h2
          · left; subst h2; simp
          · right
            simp only [removeUser, List.mem_filter, decide_eq_true_eq] at h2
            exact h2
      refine ⟨hwf', ?_, ?_, ?_⟩
      · intro w hw
        simp only at hw
        rcases hmem' w hw with ⟨_, ho⟩ | ⟨hin, _⟩
        · simp only; omega
        · have := hi.lt w hin; simp only; omega
      · intro v hv t hp w hw hwt
        simp only [noteGrant, passedAfter] at hp hv hw
        rcases List.mem_append.mp hp with hp1 | hp2
        · -- old pair
          simp only [List.mem_filter, bne_iff_ne, ne_eq] at hp1
          rcases hmem' v hv with ⟨hvt, _⟩ | ⟨hvin, hvne⟩
          · exact absurd hvt hp1.2
          · rcases hmem' w hw with ⟨_, hwo⟩ | ⟨hwin, _⟩
            · have := hi.lt v hvin; omega
            · exact hi.j v hvin t hp1.1 w hwin hwt
        · -- new pair (v, u.token)
          simp only [List.mem_map, List.mem_filter, bne_iff_ne, ne_eq, Prod.mk.injEq] at hp2
          obtain ⟨x, ⟨hxin, hxne⟩, hxt, htu⟩ := hp2
          subst htu
          rcases hmem' v hv with ⟨hvt, _⟩ | ⟨hvin, hvne⟩
          · rw [hvt] at hxt; exact absurd hxt hxne
          · rcases hmem' w hw with ⟨_, hwo⟩ | ⟨_, hwne⟩
            · have := hi.lt v hvin; omega
            · exact absurd hwt hwne
      · simp [noteGrant, hov, hi.ok]

theorem drain_inv : ∀ (fuel : Nat) (s : Q), Inv0 s → Inv0 (drain fuel s).1 := by
  intro fuel
  induction fuel with
  | zero => intro s hi; simpa [drain] using hi
  | succ n ih =>
    intro s hi
    unfold drain
    split
    · split
      · exact hi
      · rename_i s' q hg
        exact ih s' (grantOne_inv s s' q hi hg)
    · exact hi

theorem next_loop_inv (s : Q) (hi : Inv0 s) : Inv0 (next .loop s).1 := by
  simp only [next]; exact drain_inv _ s hi

theorem step_inv (s : Q) (op : Op) (hi : Inv0 s) (hc : WC s) : Inv0 (step .loop s op).1 := by
  cases op with
  | acquire tok q =>
    by_cases hu : hasUser tok s.users = true
    · have : step .loop s (.acquire tok q) = next .loop { s with users := pushQuery tok q s.users } := by simp [step, hu]
      rw [this]
      apply next_loop_inv
      refine ⟨pushQuery_WF tok q s.users hi.wf, ?_, ?_, hi.ok⟩
      · intro w hw
        obtain ⟨u, hu', _, ho⟩ := mem_pushQuery tok q s.users w hw
        have := hi.lt u hu'; simp only; omega
      · intro v hv t hp w hw hwt
        obtain ⟨v0, hv0, hvt, hvo⟩ := mem_pushQuery tok q s.users v hv
        obtain ⟨w0, hw0, hwt0, hwo⟩ := mem_pushQuery tok q s.users w hw
        simp only at hp
        rw [hvt] at hp
        have := hi.j v0 hv0 t hp w0 hw0 (by rw [← hwt0]; exact hwt)
        omega
    · by_cases hlt : s.active < s.cap
      · -- fast path: nobody can be waiting (work conservation)
        have hempty : s.users = [] := by
          rcases hc with h | h
          · exact h
          · exact absurd h (by omega)
        have h1 : (step .loop s (.acquire tok q)).1.users = [] ∧ (step .loop s (.acquire tok q)).1.bad = s.bad := by
          have hu' : hasUser tok s.users = false := by simpa using hu
          simp only [step, hu', hlt]
          simp [noteGrant, overtakes, hempty]
        refine ⟨?_, ?_, ?_, ?_⟩
        · intro u hu'; rw [h1.1] at hu'; simp at hu'
        · intro u hu'; rw [h1.1] at hu'; simp at hu'
        · intro v hv; rw [h1.1] at hv; simp at hv
        · rw [h1.2]; exact hi.ok
      · have : step .loop s (.acquire tok q) = next .loop { s with order := s.order + 1, users := { token := tok, order := s.order, qs := [q] } :: s.users,
                                                                   passed := s.passed.filter (fun p => p.1 != tok) } := by
          simp [step, hu, hlt]
        rw [this]
        apply next_loop_inv
        refine ⟨?_, ?_, ?_, hi.ok⟩
        · intro u hu'
          rcases List.mem_cons.mp hu' with h | h
          · subst h; simp
          · exact hi.wf u h
        · intro w hw
          rcases List.mem_cons.mp hw with h | h
          · subst h; simp
          · have := hi.lt w h; simp only; omega
        · intro v hv t hp w hw hwt
          simp only [List.mem_filter, bne_iff_ne, ne_eq] at hp
          rcases List.mem_cons.mp hv with h | h
          · subst h; exact absurd rfl hp.2
          · rcases List.mem_cons.mp hw with h2 | h2
            · subst h2; have := hi.lt v h; simp only; omega
            · exact hi.j v h t hp.1 w h2 hwt
  | cancel q =>
    simp only [step]
    refine ⟨dropQuery_WF q s.users, ?_, ?_, hi.ok⟩
    · intro w hw
      obtain ⟨u, hu', _, ho⟩ := mem_dropQuery q s.users w hw
      have := hi.lt u hu'; simp only; omega
    · intro v hv t hp w hw hwt
      obtain ⟨v0, hv0, hvt, hvo⟩ := mem_dropQuery q s.users v hv
      obtain ⟨w0, hw0, hwt0, hwo⟩ := mem_dropQuery q s.users w hw
      simp only at hp
      rw [hvt] at hp
      have := hi.j v0 hv0 t hp w0 hw0 (by rw [← hwt0]; exact hwt)
      omega
  | release =>
    simp only [step]
    exact next_loop_inv _ ⟨hi.wf, hi.lt, hi.j, hi.ok⟩
  | adjust c =>
    simp only [step]
    exact next_loop_inv _ ⟨hi.wf, hi.lt, hi.j, hi.ok⟩

/-- C29 (queue, 4): no overtaking. `bad` is the ghost flag raised by a grant to a user `u` made while another
    user `v` is waiting such that `u` has already been granted since `v` started waiting (or was last granted).
    For every schedule from the empty queue the flag is never raised: no user is granted twice while another
    user that was already waiting is still waiting. -/
theorem no_overtake_run : ∀ (ops : List Op) (s : Q), Inv0 s → WC s →
    (run .loop s ops).1.bad = false ∧ Inv0 (run .loop s ops).1 := by
  intro ops
  induction ops with
  | nil => intro s hi _; exact ⟨hi.ok, hi⟩
  | cons op ops ih =>
    intro s hi hc
    simp only [run]
    exact ih _ (step_inv s op hi hc) (work_conserving s op hi.wf hc).1

theorem no_overtake (c : Int) (ops : List Op) : (run .loop (init c) ops).1.bad = false :=
  (no_overtake_run ops (init c) ⟨by simp [WF, init], by simp [init], by simp [init], rfl⟩ (by simp [WC, init])).1

/-- the ghost monitor is not vacuous: the pre-fix code raises it (capacity raised, nobody woken, then a fresh
    user takes the fast path past two parked users and is granted again while they still wait) -/
example :
    (run .eqOnce (init 1) [.acquire 1 1, .acquire 2 2, .adjust 3, .acquire 3 3, .acquire 3 4]).1.bad = true := by decide


/-! The pre-fix code (`Variant.eqOnce`) violates (1) and "grants a waiting query whenever capacity frees";
    these witnesses are what the check replayed on the real `Queue` before the `fix:` commit. -/

/-- three running, capacity lowered to 1, one release: the old code grants again at active = 2 ≥ cap = 1 -/
example :
    let ops := [Op.acquire 1 1, .acquire 1 2, .acquire 1 3, .acquire 2 4, .adjust 1, .release]
    (run .eqOnce (init 3) ops).1.active = 3 ∧ (run .eqOnce (init 3) ops).1.cap = 1 := by decide

/-- the same schedule on the fixed model stays at 2 running and grants nothing -/
example :
    let ops := [Op.acquire 1 1, .acquire 1 2, .acquire 1 3, .acquire 2 4, .adjust 1, .release]
    (run .loop (init 3) ops).1.active = 2 ∧ (run .loop (init 3) ops).2.getLast? = some [] := by decide

/-- capacity raised from 1 to 3 with two waiters: the old code wakes nobody -/
example :
    let ops := [Op.acquire 1 1, .acquire 1 2, .acquire 2 3, .adjust 3]
    (run .eqOnce (init 1) ops).1.active = 1 ∧ waitingCount (run .eqOnce (init 1) ops).1 = 2 := by decide

example :
    let ops := [Op.acquire 1 1, .acquire 1 2, .acquire 2 3, .adjust 3]
    (run .loop (init 1) ops).1.active = 3 ∧ waitingCount (run .loop (init 1) ops).1 = 0 := by decide

/-! ### Weighted semaphore -/
open SH.Sem

/-- `notifyWaiters` grants exactly a prefix of the FIFO list, adds exactly the granted weights, stops at the
    first waiter that does not fit, and whenever it granted anything ends with cur ≤ size. -/
theorem notify_spec : ∀ (ws : List (Nat × Int)) (size cur : Int),
    ∃ pre : List (Nat × Int),
      ws = pre ++ (notify ws size cur).1 ∧
      (notify ws size cur).2.2 = pre.map (·.1) ∧
      (notify ws size cur).2.1 = cur + (pre.map (·.2)).sum ∧
      (pre ≠ [] → (notify ws size cur).2.1 ≤ size) ∧
      (∀ w rest, (notify ws size cur).1 = w :: rest → size - (notify ws size cur).2.1 < w.2) := by
  intro ws
  induction ws with
  | nil => intro size cur; exact ⟨[], by simp [notify]⟩
  | cons w ws ih =>
    intro size cur
    obtain ⟨id, n⟩ := w
    simp only [notify]
    split
    · rename_i hlt
      refine ⟨[], by simp, by simp, by simp, by simp, ?_⟩
      intro w rest h
      simp at h
      obtain ⟨h1, _⟩ := h
      subst h1
      simpa using hlt
    · rename_i hge
      obtain ⟨pre, h1, h2, h3, h4, h5⟩ := ih size (cur + n)
      refine ⟨(id, n) :: pre, ?_, ?_, ?_, ?_, ?_⟩
      · simp only [List.cons_append]; rw [← h1]
      · simp only [List.map_cons]; rw [h2]
      · simp only [List.map_cons, List.sum_cons]; rw [h3]; omega
      · intro _
        simp only
        by_cases hp : pre = []
        · subst hp; rw [h3]; simp; omega
        · exact h4 hp
      · exact h5

theorem doNotify_spec (s0 : S) :
    ∃ pre : List (Nat × Int),
      s0.waiters = pre ++ (doNotify s0).1.waiters ∧ (doNotify s0).2 = pre.map (·.1) ∧
      (doNotify s0).1.cur = s0.cur + (pre.map (·.2)).sum ∧ (doNotify s0).1.size = s0.size ∧
      (pre ≠ [] → (doNotify s0).1.cur ≤ s0.size) ∧
      (∀ w rest, (doNotify s0).1.waiters = w :: rest → s0.size - (doNotify s0).1.cur < w.2) := by
  obtain ⟨pre, h1, h2, h3, h4, h5⟩ := notify_spec s0.waiters s0.size s0.cur
  exact ⟨pre, h1, h2, h3, rfl, h4, h5⟩

/-- shape of one semaphore step: nobody admitted / one immediate admission that fits / the notify loop -/
theorem sem_step_cases (s : S) (op : Sem.Op) (hop : ∀ n, op ≠ .force n) :
    (Sem.step s op).2.1 = [] ∨
    (∃ n, (Sem.step s op).1 = { s with cur := s.cur + n } ∧ s.size - s.cur ≥ n) ∨
    (∃ s0, (Sem.step s op).1 = (doNotify s0).1 ∧ (Sem.step s op).2.1 = (doNotify s0).2) := by
  cases op with
  | acquire id n =>
    by_cases h : fits s n = true
    · right; left
      refine ⟨n, by simp [Sem.step, h], ?_⟩
      simp [fits] at h; omega
    · left
      by_cases h2 : tooBig s n = true <;> simp [Sem.step, h, h2]
  | tryAcquire id n =>
    by_cases h : fits s n = true
    · right; left
      refine ⟨n, by simp [Sem.step, h], ?_⟩
      simp [fits] at h; omega
    · left; simp [Sem.step, h]
  | cancel id =>
    by_cases hd : isDoomed s id = true
    · left; simp [Sem.step, hd]
    · cases hw : s.waiters with
      | nil => left; simp [Sem.step, hd, hw]
      | cons w rest =>
        obtain ⟨h, hn⟩ := w
        by_cases hid : h = id
        · by_cases hlt : room s = true
          · right; right
            exact ⟨{ s with waiters := rest }, by simp [Sem.step, hd, hw, hid, hlt], by simp [Sem.step, hd, hw, hid, hlt]⟩
          · left; simp [Sem.step, hd, hw, hid, hlt]
        · left
          by_cases ha : parkedIn rest id = true <;> simp [Sem.step, hd, hw, hid, ha]
  | release n => right; right; exact ⟨{ s with cur := s.cur - n }, by simp [Sem.step], by simp [Sem.step]⟩
  | setSize n => right; right; exact ⟨{ s with size := n }, by simp [Sem.step], by simp [Sem.step]⟩
  | force n => exact absurd rfl (hop n)

/-- C29 (semaphore, 1): whenever a step admits anybody, it ends with cur ≤ size (so each admission fitted) -/
theorem never_over_size (s : S) (op : Sem.Op) (hop : ∀ n, op ≠ .force n) :
    (Sem.step s op).2.1 ≠ [] → (Sem.step s op).1.cur ≤ (Sem.step s op).1.size := by
  intro hg
  rcases sem_step_cases s op hop with h | ⟨n, h, hfit⟩ | ⟨s0, h1, h2⟩
  · exact absurd h hg
  · rw [h]; simp; omega
  · obtain ⟨pre, _, e2, _, e4, e5, _⟩ := doNotify_spec s0
    rw [h1, e4]
    apply e5
    intro hp
    apply hg
    rw [h2, e2, hp]; rfl

/-- C29 (semaphore, 2): FIFO — the parked acquires admitted by `release`/`setSize` are a prefix of the
    waiter list, in list order, and the rest stays parked in the same order -/
theorem fifo_release (s : S) (n : Int) :
    ∃ pre, s.waiters = pre ++ (Sem.step s (.release n)).1.waiters ∧ (Sem.step s (.release n)).2.1 = pre.map (·.1) := by
  obtain ⟨pre, h1, h2, _⟩ := doNotify_spec { s with cur := s.cur - n }
  exact ⟨pre, by simpa [Sem.step] using h1, by simpa [Sem.step] using h2⟩

theorem fifo_setSize (s : S) (n : Int) :
    ∃ pre, s.waiters = pre ++ (Sem.step s (.setSize n)).1.waiters ∧ (Sem.step s (.setSize n)).2.1 = pre.map (·.1) := by
  obtain ⟨pre, h1, h2, _⟩ := doNotify_spec { s with size := n }
  exact ⟨pre, by simpa [Sem.step] using h1, by simpa [Sem.step] using h2⟩

/-- a new acquire never overtakes: it is admitted immediately only when nobody is parked -/
theorem acquire_no_overtake (s : S) (id : Nat) (n : Int) (h : s.waiters ≠ []) :
    (Sem.step s (.acquire id n)).2.1 = [] ∧ (Sem.step s (.tryAcquire id n)).2.1 = [] := by
  have : fits s n = false := by
    cases hw : s.waiters with
    | nil => exact absurd hw h
    | cons a b => simp [fits, hw]
  simp only [Sem.step, this]
  by_cases h2 : tooBig s n = true <;> simp [h2]

/-- C29 (semaphore, 3): cancelling a parked acquire that is not at the front changes nothing but the list -/
theorem cancel_unchanged (s : S) (id h : Nat) (hn : Int) (rest : List (Nat × Int))
    (hw : s.waiters = (h, hn) :: rest) (hne : h ≠ id) (hd : isDoomed s id = false) :
    (Sem.step s (.cancel id)).1.cur = s.cur ∧ (Sem.step s (.cancel id)).1.size = s.size ∧
    (Sem.step s (.cancel id)).2.1 = [] ∧
    (Sem.step s (.cancel id)).1.waiters = (h, hn) :: rest.filter (·.1 ≠ id) := by
  by_cases ha : parkedIn rest id = true
  · simp [Sem.step, hd, hw, hne, ha]
  · simp only [Sem.step, hd, hw, hne, ha]
    refine ⟨rfl, rfl, rfl, ?_⟩
    simp only [Bool.false_eq_true, ↓reduceIte, hw]
    congr 1
    symm
    apply List.filter_eq_self.mpr
    intro a hmem
    simp only [parkedIn, List.any_eq_true, not_exists, not_and] at ha
    have := ha a hmem
    simpa using this

/-- cancelling the front waiter: the cancelled id is never admitted, size is unchanged, and `cur` grows by
    exactly the weights of the waiters admitted behind it -/
theorem cancel_front (s : S) (id : Nat) (hn : Int) (rest : List (Nat × Int))
    (hw : s.waiters = (id, hn) :: rest) (hd : isDoomed s id = false) :
    ∃ pre, rest = pre ++ (Sem.step s (.cancel id)).1.waiters ∧
      (Sem.step s (.cancel id)).2.1 = pre.map (·.1) ∧
      (Sem.step s (.cancel id)).1.cur = s.cur + (pre.map (·.2)).sum ∧
      (Sem.step s (.cancel id)).1.size = s.size := by
  by_cases hr : room s = true
  · obtain ⟨pre, h1, h2, h3, h4, _⟩ := doNotify_spec { s with waiters := rest }
    exact ⟨pre, by simpa [Sem.step, hd, hw, hr] using h1, by simpa [Sem.step, hd, hw, hr] using h2,
      by simpa [Sem.step, hd, hw, hr] using h3, by simpa [Sem.step, hd, hw, hr] using h4⟩
  · exact ⟨[], by simp [Sem.step, hd, hw, hr]⟩

/-- no lost wake-up (for positive weights): after every step the front waiter, if any, does not fit -/
def NLW (s : S) : Prop := ∀ w rest, s.waiters = w :: rest → s.size - s.cur < w.2

theorem nlw_release (s : S) (n : Int) : NLW (Sem.step s (.release n)).1 := by
  obtain ⟨_, _, _, _, h4, _, h6⟩ := doNotify_spec { s with cur := s.cur - n }
  intro w rest hw
  have := h6 w rest (by simpa [Sem.step] using hw)
  simpa [Sem.step, h4] using this

theorem nlw_setSize (s : S) (n : Int) : NLW (Sem.step s (.setSize n)).1 := by
  obtain ⟨_, _, _, _, h4, _, h6⟩ := doNotify_spec { s with size := n }
  intro w rest hw
  have := h6 w rest (by simpa [Sem.step] using hw)
  simpa [Sem.step, h4] using this

/-- non-vacuity: a concrete schedule in which two waiters are parked, the size is raised and both are admitted
    in FIFO order with cur = size -/
example :
    let s0 := Sem.init 2
    let s1 := (Sem.step s0 (.acquire 1 2)).1
    let s2 := (Sem.step s1 (.acquire 2 1)).1
    let s3 := (Sem.step s2 (.acquire 3 1)).1
    s3.waiters = [(2, 1), (3, 1)] ∧ (Sem.step s3 (.setSize 4)).2.1 = [2, 3] ∧ (Sem.step s3 (.setSize 4)).1.cur = 4 := by
  decide

end SH.C29
