/-
  C06 — Sampling is fair: groups within their share are never sampled.

  "At every level of the hierarchy (namespace, group, metric, fair key) a partition whose size does not exceed its
   weight-proportional share of the budget available to its parent is kept entirely with factor 1; if the whole
   bucket fits the budget nothing is sampled. With deterministic selection the kept size never exceeds the budget,
   a partition with a larger size-to-weight ratio never gets a smaller sample factor than one with a smaller ratio,
   and quota-mode budgets handed back to agents are proportional to reported sizes and sum to at most the total
   budget."

  Model: SH.Model.Sampler (shared with C05). `run (fuel+1) cfg g ds` is one level of the hierarchy: partition `g`,
  sort by size/weight, keep loop (water filling), sampling loop (recursion one level deeper or `sample`).
  All statements hold for every group `g` (hence at every level), every option set, draw stream and tie order (`rank`).
  Weights are positive (format.go clamps EffectiveWeight to ≥ 1; the sampler clamps namespace/group weights itself).
  Theorems marked (fix) need `Variant.fitKeep` = the code with fixes/C05-sample-fit.diff; for the pinned code
  `orig_samples_partition_that_fits` is a `decide` witness of the violation.
-/
import SH.Lemmas.SamplerDet
import Mathlib.Tactic.Linarith

namespace SH.Sampler
/-- `a` has a size-to-weight ratio not larger than `b` (exact rational comparison, as in the sort comparator) -/
def ratioLe (a b : Group) : Prop := a.sumSize * b.weight ≤ b.sumSize * a.weight

theorem groupLe_ratioLe (a b : Group) (h : groupLe a b = true) : ratioLe a b := by
  simp only [groupLe, ratioLt, Bool.or_eq_true, decide_eq_true_eq, Bool.and_eq_true, Bool.not_eq_true',
    decide_eq_false_iff_not] at h
  unfold ratioLe
  rcases h with h | h
  · omega
  · omega

theorem cross_lt_le {a b c wa wb wc : Int} (hb : 0 < wb) (ha : 0 < wa) (hc : 0 < wc)
    (h1 : a * wb < b * wa) (h2 : b * wc ≤ c * wb) : a * wc < c * wa := by
  have e1 : a * wb * wc < b * wa * wc := Int.mul_lt_mul_of_pos_right h1 hc
  have e2 : b * wc * wa ≤ c * wb * wa := Int.mul_le_mul_of_nonneg_right h2 (Int.le_of_lt ha)
  have : (a * wc) * wb < (c * wa) * wb := by nlinarith
  exact Int.lt_of_mul_lt_mul_right this (Int.le_of_lt hb)

theorem cross_le_lt {a b c wa wb wc : Int} (hb : 0 < wb) (ha : 0 < wa) (hc : 0 < wc)
    (h1 : a * wb ≤ b * wa) (h2 : b * wc < c * wb) : a * wc < c * wa := by
  have e1 : a * wb * wc ≤ b * wa * wc := Int.mul_le_mul_of_nonneg_right h1 (Int.le_of_lt hc)
  have e2 : b * wc * wa < c * wb * wa := Int.mul_lt_mul_of_pos_right h2 ha
  have : (a * wc) * wb < (c * wa) * wb := by nlinarith
  exact Int.lt_of_mul_lt_mul_right this (Int.le_of_lt hb)

theorem cross_le_le {a b c wa wb wc : Int} (hb : 0 < wb) (ha : 0 < wa) (hc : 0 < wc)
    (h1 : a * wb ≤ b * wa) (h2 : b * wc ≤ c * wb) : a * wc ≤ c * wa := by
  have e1 : a * wb * wc ≤ b * wa * wc := Int.mul_le_mul_of_nonneg_right h1 (Int.le_of_lt hc)
  have e2 : b * wc * wa ≤ c * wb * wa := Int.mul_le_mul_of_nonneg_right h2 (Int.le_of_lt ha)
  have : (a * wc) * wb ≤ (c * wa) * wb := by nlinarith
  exact Int.le_of_mul_le_mul_right this hb

theorem groupLe_total (a b : Group) : groupLe a b = true ∨ groupLe b a = true := by
  simp only [groupLe, ratioLt, Bool.or_eq_true, decide_eq_true_eq, Bool.and_eq_true, Bool.not_eq_true',
    decide_eq_false_iff_not]
  omega

theorem groupLe_trans (a b c : Group) (ha : 0 < a.weight) (hb : 0 < b.weight) (hc : 0 < c.weight)
    (h1 : groupLe a b = true) (h2 : groupLe b c = true) : groupLe a c = true := by
  simp only [groupLe, ratioLt, Bool.or_eq_true, decide_eq_true_eq, Bool.and_eq_true, Bool.not_eq_true',
    decide_eq_false_iff_not] at *
  rcases h1 with h1 | ⟨h1, r1⟩ <;> rcases h2 with h2 | ⟨h2, r2⟩
  · exact Or.inl (cross_lt_le hb ha hc h1 (Int.le_of_lt h2))
  · exact Or.inl (cross_lt_le hb ha hc h1 (by omega))
  · exact Or.inl (cross_le_lt hb ha hc (by omega) h2)
  · right
    refine ⟨?_, by omega⟩
    have := cross_le_le hb ha hc (a := a.sumSize) (b := b.sumSize) (c := c.sumSize) (by omega) (by omega)
    omega

/-- the ratio sort of `run` really sorts: for positive weights the groups are in ascending size/weight order,
    whatever the tie order (ranks) -/
theorem ratio_sorted (l : List Group) (hw : ∀ g ∈ l, 0 < g.weight) : (isort groupLe l).Pairwise ratioLe := by
  have := isort_pairwise groupLe (fun g => 0 < g.weight) (fun a b _ _ => groupLe_total a b)
    (fun a b c ha hb hc => groupLe_trans a b c ha hb hc) l hw
  exact this.imp (fun h => groupLe_ratioLe _ _ h)

/-! ## water filling -/

/-- Water filling keeps every partition within its weight-proportional share of the ORIGINAL budget, whatever the
    other partitions do (order-independent form): `s` sorted by ratio, no fixed budgets, positive weights,
    `W` at least the sum of weights. -/
theorem share_fits_first_loop (s : List Group) (B W : Int) (hs : s.Pairwise ratioLe)
    (hw : ∀ g ∈ s, 0 < g.weight) (hnf : ∀ g ∈ s, g.fixed = false) (hW : nfWeight s ≤ W)
    (p : Group) (hp : p ∈ s) (hfit : p.sumSize * W ≤ B * p.weight) :
    ∀ it ∈ p.items, keepEv it ∈ evs (keptActs B W s) := by
  induction s generalizing B W with
  | nil => simp at hp
  | cons g gs ih =>
    have hgw := hw g (by simp)
    have hpw := hw p hp
    have hgf := hnf g (by simp)
    have hWpos : 0 < W := by
      have := nfWeight_mem (g :: gs) hw p hp (hnf p hp); omega
    rw [List.pairwise_cons] at hs
    have hgfit : fits (assign B W g) = true := by
      rw [fits_assign_iff B W g hgf]
      rcases List.mem_cons.1 hp with rfl | hp'
      · nlinarith
      · have := cross_le_le hpw hgw hWpos (hs.1 p hp') hfit
        nlinarith
    intro it hit
    simp only [keptActs, hgfit, if_true, evs_append, evs_markKeep, List.nil_append, List.mem_append]
    rcases List.mem_cons.1 hp with rfl | hp'
    · left
      simp only [keepAll, evs_map_ev, List.mem_map]
      exact ⟨it, hit, rfl⟩
    · right
      refine ih (stepB B g) (stepW W g) hs.2 (fun x hx => hw x (by simp [hx])) (fun x hx => hnf x (by simp [hx])) ?_ hp' ?_ it hit
      · simp only [stepW, hgf, nfWeight] at *; simp at hW ⊢; omega
      · simp only [stepB, stepW, hgf]
        have h1 := hs.1 p hp'
        unfold ratioLe at h1
        simp
        nlinarith


/-- a group sorted before all groups of `gs` has at most their combined ratio -/
theorem head_ratio_le_total (g : Group) (gs : List Group) (h : ∀ x ∈ gs, ratioLe g x) :
    g.sumSize * nfWeight gs ≤ nfSize gs * g.weight := by
  induction gs with
  | nil => simp [nfWeight, nfSize]
  | cons x xs ih =>
    have h1 := h x (by simp)
    have h2 := ih (fun y hy => h y (by simp [hy]))
    unfold ratioLe at h1
    simp only [nfWeight, nfSize]
    split <;> nlinarith

/-- If everything fits (the partitions without fixed budget fit the budget together, the ones with a fixed budget
    fit their own), the first loop keeps every partition: nothing is left for the sampling loop. -/
theorem all_fit_rest_nil (s : List Group) (B W : Int) (hs : s.Pairwise ratioLe)
    (hw : ∀ g ∈ s, 0 < g.weight) (hsz : ∀ g ∈ s, 0 ≤ g.sumSize)
    (hfx : ∀ g ∈ s, g.fixed = true → g.denom = 1 ∧ g.sumSize ≤ g.budget)
    (hB : nfSize s ≤ B) (hW : ∀ g ∈ s, g.fixed = false → W ≤ nfWeight s) :
    restGroups B W s = [] := by
  induction s generalizing B W with
  | nil => rfl
  | cons g gs ih =>
    rw [List.pairwise_cons] at hs
    have hgw := hw g (by simp)
    have hgs := hsz g (by simp)
    have hgfit : fits (assign B W g) = true := by
      cases hf : g.fixed with
      | true =>
        have := hfx g (by simp) hf
        rw [fits_assign_fixed B W g hf this.1]; exact this.2
      | false =>
        rw [fits_assign_iff B W g hf]
        have h1 := head_ratio_le_total g gs hs.1
        have h2 := hW g (by simp) hf
        simp only [nfWeight, nfSize, hf] at h2 hB
        simp at h2 hB
        have h3 : W * g.sumSize ≤ (g.weight + nfWeight gs) * g.sumSize := Int.mul_le_mul_of_nonneg_right h2 hgs
        nlinarith
    simp only [restGroups, hgfit, if_true]
    apply ih _ _ hs.2 (fun x hx => hw x (by simp [hx])) (fun x hx => hsz x (by simp [hx]))
      (fun x hx => hfx x (by simp [hx]))
    · simp only [nfSize, stepB] at *
      split <;> simp_all; omega
    · intro x hx hxf
      have := hW x (by simp [hx]) hxf
      simp only [nfWeight, stepW] at *
      split <;> simp_all; omega

/-! ## the groups produced by the partition functions are well formed -/

/-! ## run level statements -/

/-- fits_share_kept (levels without fixed budgets; both code variants). At any level of the hierarchy: a partition
    `p` of the group `g` whose size does not exceed its weight-proportional share `g.budget * p.weight / sumWeight` of
    the budget available to `g` is kept entirely with factor 1 — for every tie order, draw stream, option set and
    whatever the sizes of its siblings are. -/
theorem fits_share_kept (cfg : Cfg) (fuel : Nat) (g : Group) (ds : List Nat)
    (hk : kindAt cfg g.depth ≠ .byBudget)
    (hw : ∀ it ∈ g.items, 0 < it.wMetric) (hs : ∀ it ∈ g.items, 0 ≤ it.size)
    (p : Group) (hp : p ∈ partition cfg g) (hfit : p.sumSize * partWeight cfg g ≤ g.budget * p.weight) :
    ∀ it ∈ p.items, keepEv it ∈ evs (run (fuel + 1) cfg g ds).1 := by
  intro it hit
  simp only [run, evs_append, List.mem_append]
  left
  have hgood := partition_good cfg g hw hs
  have hnf : ∀ q ∈ partition cfg g, q.fixed = false := by
    intro q hq
    unfold partition at hq
    split at hq
    · rename_i h; exact absurd h hk
    · exact (partPlain_good cfg _ _ _ hw hs q hq).2.2.1
  have hperm := isort_perm groupLe (partition cfg g)
  refine share_fits_first_loop _ _ _ (ratio_sorted _ (fun q hq => (hgood q hq).1))
    (fun q hq => (hgood q (hperm.mem_iff.1 hq)).1) (fun q hq => hnf q (hperm.mem_iff.1 hq)) ?_ p (hperm.mem_iff.2 hp) hfit it hit
  rw [nfWeight_perm hperm, ← partWeight_eq cfg g hw hs p hp (hnf p hp)]

/-- all_fit_nothing_sampled. If the partitions of `g` without fixed budget fit `g.budget` together and every
    partition with a fixed budget fits its own, every row of `g` is kept with factor 1 (nothing reaches the
    sampling loop) — any level, both code variants, every tie order. -/
theorem all_fit_nothing_sampled (cfg : Cfg) (fuel : Nat) (g : Group) (ds : List Nat)
    (hw : ∀ it ∈ g.items, 0 < it.wMetric) (hs : ∀ it ∈ g.items, 0 ≤ it.size)
    (hfx : ∀ p ∈ partition cfg g, p.fixed = true → p.sumSize ≤ p.budget)
    (hB : nfSize (partition cfg g) ≤ g.budget) :
    ∀ e ∈ evs (run (fuel + 1) cfg g ds).1, ∃ it, e = keepEv it := by
  have hgood := partition_good cfg g hw hs
  have hperm := isort_perm groupLe (partition cfg g)
  have hrest : restGroups g.budget (partWeight cfg g) (isort groupLe (partition cfg g)) = [] := by
    apply all_fit_rest_nil _ _ _ (ratio_sorted _ (fun q hq => (hgood q hq).1))
      (fun q hq => (hgood q (hperm.mem_iff.1 hq)).1) (fun q hq => (hgood q (hperm.mem_iff.1 hq)).2.1)
      (fun q hq hf => ⟨(hgood q (hperm.mem_iff.1 hq)).2.2.1 hf, hfx q (hperm.mem_iff.1 hq) hf⟩)
    · rw [nfSize_perm hperm]; exact hB
    · intro q hq hqf
      rw [nfWeight_perm hperm, ← partWeight_eq cfg g hw hs q (hperm.mem_iff.1 hq) hqf]
  intro e he
  simp only [run, hrest, sampleLoop, List.append_nil] at he
  exact keptActs_all (fun e => ∃ it, e = keepEv it) (fun it => ⟨it, rfl⟩) _ _ _ e he


/-! ## fixed per-metric budgets next to water filling (code with fixes/C05-sample-fit.diff) -/

/-- `p` fits: its own fixed budget, or its weight-proportional share `B*w/W` -/
def FitsShare (B W : Int) (p : Group) : Prop :=
  if p.fixed then p.sumSize ≤ p.budget else p.sumSize * W ≤ B * p.weight

/-- Invariant of the first loop: a partition that fits its share of the ORIGINAL budget is either kept by the loop
    or, if a partition with a fixed budget stopped the loop before it was reached, still fits its share of what is
    left (removing kept partitions of smaller ratio never lowers the per-weight share of the rest). -/
theorem share_fits_or_still_fits (s : List Group) (B W : Int) (hs : s.Pairwise ratioLe)
    (hw : ∀ g ∈ s, 0 < g.weight) (p : Group) (hp : p ∈ s) (hW : p.fixed = false → nfWeight s ≤ W)
    (hfit : FitsShare B W p) :
    (∀ it ∈ p.items, keepEv it ∈ evs (keptActs B W s)) ∨
    (p ∈ restGroups B W s ∧ FitsShare (restB B W s) (restW B W s) p ∧ (p.fixed = false → 0 < restW B W s)) := by
  induction s generalizing B W with
  | nil => simp at hp
  | cons g gs ih =>
    rw [List.pairwise_cons] at hs
    by_cases hg : fits (assign B W g) = true
    · simp only [keptActs, restGroups, restB, restW, hg, if_true]
      rcases List.mem_cons.1 hp with rfl | hp'
      · left
        intro it hit
        simp only [evs_append, evs_markKeep, List.nil_append, List.mem_append, keepAll, evs_map_ev, List.mem_map]
        exact Or.inl ⟨it, hit, rfl⟩
      · have hgw := hw g (by simp)
        have hpw := hw p hp
        have hfit' : FitsShare (stepB B g) (stepW W g) p := by
          unfold FitsShare at hfit ⊢
          by_cases hpf : p.fixed = true
          · simpa [hpf] using hfit
          · simp only [hpf] at hfit ⊢
            simp only [stepB, stepW]
            by_cases hgf : g.fixed = true
            · simpa [hgf] using hfit
            · have h1 := hs.1 p hp'
              unfold ratioLe at h1
              simp only [hgf]
              simp at hfit ⊢
              nlinarith
        have hW' : p.fixed = false → nfWeight gs ≤ stepW W g := by
          intro hpf
          have := hW hpf
          simp only [nfWeight, stepW] at *
          split <;> simp_all <;> omega
        rcases ih (stepB B g) (stepW W g) hs.2 (fun x hx => hw x (by simp [hx])) hp' hW' hfit' with h | h
        · left
          intro it hit
          simp only [evs_append, List.mem_append]
          exact Or.inr (h it hit)
        · exact Or.inr h
    · have hg' : fits (assign B W g) = false := by simpa using hg
      simp only [restGroups, restB, restW, hg', Bool.false_eq_true, if_false]
      right
      refine ⟨hp, hfit, ?_⟩
      intro hpf
      have := nfWeight_mem (g :: gs) hw p hp hpf
      have := hW hpf
      have := hw p hp
      omega

/-- (fix) `sample` on a group that fits its budget keeps it whole -/
theorem sampleRows_fit_keeps (cfg : Cfg) (hv : cfg.variant = .fitKeep) (q : Group) (hfit : q.denom * q.sumSize ≤ q.budget)
    (ds : List Nat) : ∀ it ∈ q.items, keepEv it ∈ evs (sampleRows cfg q ds).1 := by
  intro it hit
  have hne : q.items.isEmpty = false := by
    cases h : q.items with
    | nil => rw [h] at hit; simp at hit
    | cons => rfl
  have hk : keepEv it ∈ evs (keepAll q.items) := by
    simp only [keepAll, evs_map_ev, List.mem_map]; exact ⟨it, hit, rfl⟩
  unfold sampleRows
  simp only [hne, Bool.false_eq_true, if_false]
  split
  · exact hk
  · have key : sfNumOf q ≤ sfDenOf q := by
      unfold sfNumOf sfDenOf
      generalize q.denom * q.sumSize = x at hfit ⊢
      split <;> split <;> omega
    have : fitShortcut cfg q = true := by simp [fitShortcut, hv, key]
    simp only [this, if_true]
    exact hk

/-- (fix) the second loop keeps a group that fits its budget: directly (`sample`), as NoSampleAgent, or by recursion
    with a budget that still covers it -/
theorem handle_fit_keeps (cfg : Cfg) (hv : cfg.variant = .fitKeep) (hm : cfg.mode ≠ .quota)
    (rec : Group → List Nat → List Act × List Nat) (q : Group)
    (hden : 0 < q.denom) (hfd : q.fixed = true → q.denom = 1) (hfit : q.denom * q.sumSize ≤ q.budget)
    (hrec : ∀ q' ds, q'.items = q.items → q'.denom = 1 → q'.sumSize = q.sumSize → q'.sumSize ≤ q'.budget →
      q'.depth = q.depth → ∀ it ∈ q.items, keepEv it ∈ evs (rec q' ds).1) (ds : List Nat) :
    ∀ it ∈ q.items, keepEv it ∈ evs (handle cfg rec q ds).1 := by
  intro it hit
  unfold handle
  split
  · simp only [keepAll, evs_map_ev, List.mem_map]; exact ⟨it, hit, rfl⟩
  · split
    · simp only [evs_append, List.mem_append]
      right
      have hle : q.sumSize ≤ q.budget / q.denom := Int.le_ediv_of_mul_le hden (by rw [Int.mul_comm]; exact hfit)
      apply hrec _ _ _ _ _ _ _ it hit
      · exact rounded_items _ _ _
      · unfold rounded; split
        · rename_i h; exact hfd h
        · split <;> rfl
      · unfold rounded; split
        · rfl
        · split <;> rfl
      · unfold rounded; split
        · rename_i h
          have := hfd h
          rw [this] at hfit
          show q.sumSize ≤ q.budget
          omega
        · split
          · exact hle
          · exact hle
          · show q.sumSize ≤ q.budget / q.denom + _
            split <;> omega
      · unfold rounded; split
        · rfl
        · split <;> rfl
    · unfold leaf
      split
      · rename_i h; exact absurd h hm
      · exact sampleRows_fit_keeps cfg hv q hfit ds it hit

/-- (fix) a group whose budget covers its whole size is kept whole by `run`, at any remaining depth -/
theorem run_fits_all_kept (cfg : Cfg) (hv : cfg.variant = .fitKeep) (hm : cfg.mode ≠ .quota) (fuel : Nat) (q : Group)
    (hden : q.denom = 1) (hfit : q.sumSize ≤ q.budget) (hsum : q.sumSize = sumSizes q.items)
    (hk : kindAt cfg q.depth ≠ .byBudget)
    (hw : ∀ it ∈ q.items, 0 < it.wMetric) (hs : ∀ it ∈ q.items, 0 ≤ it.size) (ds : List Nat) :
    ∀ it ∈ q.items, keepEv it ∈ evs (run fuel cfg q ds).1 := by
  intro it hit
  cases fuel with
  | zero =>
    simp only [run, evs_err]
    unfold leaf
    split
    · rename_i h; exact absurd h hm
    · exact sampleRows_fit_keeps cfg hv q (by rw [hden]; omega) ds it hit
  | succ n =>
    have hgood := partition_good cfg q hw hs
    have hperm := isort_perm groupLe (partition cfg q)
    have hnf : ∀ p ∈ partition cfg q, p.fixed = false ∧ p.sumSize = sumSizes p.items := by
      intro p hp
      have e := (partition_plain cfg q _ rfl hk).1
      rw [e] at hp
      have := partPlain_good cfg _ _ _ hw hs p hp
      exact ⟨this.2.2.1, this.2.2.2⟩
    have hrest : restGroups q.budget (partWeight cfg q) (isort groupLe (partition cfg q)) = [] := by
      apply all_fit_rest_nil _ _ _ (ratio_sorted _ (fun p hp => (hgood p hp).1))
        (fun p hp => (hgood p (hperm.mem_iff.1 hp)).1) (fun p hp => (hgood p (hperm.mem_iff.1 hp)).2.1)
        (fun p hp hf => by simp [(hnf p (hperm.mem_iff.1 hp)).1] at hf)
      · rw [nfSize_perm hperm, nfSize_eq _ hnf, partition_items, ← hsum]; exact hfit
      · intro p hp hpf
        rw [nfWeight_perm hperm, ← partWeight_eq cfg q hw hs p (hperm.mem_iff.1 hp) hpf]
    obtain ⟨p, hp, hip⟩ := mem_partition_items cfg q it hit
    simp only [run, evs_append, List.mem_append]
    rcases kept_or_rest q.budget (partWeight cfg q) _ p (hperm.mem_iff.2 hp) with h | h
    · exact Or.inl (h it hip)
    · rw [hrest] at h; simp at h

/-- fits_share_kept_with_fixed_budgets (fix). At any level, including the top level where metrics with a fixed
    (aggregator supplied) budget sit next to the water-filled partitions: a partition that fits — its own fixed
    budget, or its weight-proportional share of the group's budget — is kept entirely with factor 1, whatever the
    other partitions do (in particular when a neighbour floods its fixed budget). Production mode and the
    deterministic test selector; every tie order, draw stream and option set. -/
theorem fits_share_kept_with_fixed_budgets (cfg : Cfg) (hv : cfg.variant = .fitKeep) (hm : cfg.mode ≠ .quota)
    (fuel : Nat) (g : Group) (ds : List Nat)
    (hw : ∀ it ∈ g.items, 0 < it.wMetric) (hs : ∀ it ∈ g.items, 0 ≤ it.size)
    (p : Group) (hp : p ∈ partition cfg g) (hfit : FitsShare g.budget (partWeight cfg g) p) :
    ∀ it ∈ p.items, keepEv it ∈ evs (run (fuel + 1) cfg g ds).1 := by
  intro it hit
  have hgood := partition_good cfg g hw hs
  have hperm := isort_perm groupLe (partition cfg g)
  have hsub := partition_items_sub cfg g p hp
  simp only [run, evs_append, List.mem_append]
  rcases share_fits_or_still_fits (isort groupLe (partition cfg g)) g.budget (partWeight cfg g)
      (ratio_sorted _ (fun q hq => (hgood q hq).1)) (fun q hq => (hgood q (hperm.mem_iff.1 hq)).1) p (hperm.mem_iff.2 hp)
      (fun hpf => by rw [nfWeight_perm hperm, ← partWeight_eq cfg g hw hs p hp hpf]) hfit with h | ⟨hin, hfit', hWpos⟩
  · exact Or.inl (h it hit)
  · right
    obtain ⟨ds', hds⟩ := sampleLoop_mem cfg (run fuel cfg) _ _ _ ds p hin
    apply hds
    generalize restB g.budget (partWeight cfg g) (isort groupLe (partition cfg g)) = B' at *
    generalize restW g.budget (partWeight cfg g) (isort groupLe (partition cfg g)) = W' at *
    have hgp := hgood p hp
    have hitq : it ∈ (assign B' W' p).items := by rw [assign_items]; exact hit
    refine handle_fit_keeps cfg hv hm (run fuel cfg) (assign B' W' p) ?_ ?_ ?_ ?_ ds' it hitq
    · unfold assign; split
      · rename_i hf; rw [hgp.2.2.1 hf]; omega
      · rename_i hf; exact hWpos (by simpa using hf)
    · intro hf
      unfold assign at hf ⊢
      split
      · rename_i hf'; exact hgp.2.2.1 hf'
      · rename_i hf'; simp [hf'] at hf
    · unfold FitsShare at hfit'
      unfold assign; split
      · rename_i hf; simp only [hf, if_true] at hfit'; rw [hgp.2.2.1 hf]; omega
      · rename_i hf
        simp only [hf] at hfit'
        simp at hfit' ⊢
        nlinarith
    · intro q' ds'' hitems hden hsz hle hdepth it' hit'
      have hitems' : q'.items = p.items := by rw [hitems, assign_items]
      have hsz' : q'.sumSize = sumSizes q'.items := by
        rw [hsz, hitems']
        have : (assign B' W' p).sumSize = p.sumSize := by unfold assign; split <;> rfl
        rw [this]; exact hgp.2.2.2
      have hdepth' : q'.depth = p.depth := by
        rw [hdepth]; unfold assign; split <;> rfl
      rw [assign_items, ← hitems'] at hit'
      exact run_fits_all_kept cfg hv hm fuel q' hden hle hsz'
        (kindAt_pos cfg _ (by rw [hdepth']; exact partition_depth_pos cfg g p hp))
        (fun x hx => hw x (hsub x (hitems' ▸ hx))) (fun x hx => hs x (hsub x (hitems' ▸ hx))) ds'' it' hit'


/-- The pinned code violates it (same bucket as C05's witness, deterministic test selector not even needed): metric 1
    has 3 rows of size 4 = 12 bytes, its share of the budget is 20, but because metric 2 exceeds its fixed budget the
    keep loop stops first; `sample` then sees sf = 12/20, keeps one "whale" and samples the other two rows with
    factor 24/20 — the draw 2^53-1 discards them. Oracle signature on the real code: `fits-share-but-sampled`. -/
def origCfg : Cfg := { variant := .orig, mode := .rand, sBudgets := true }
def floodItems : List Item :=
  [{ id := 0, size := 4, metric := 1 }, { id := 1, size := 4, metric := 1 }, { id := 2, size := 4, metric := 1 },
   { id := 3, size := 5, metric := 2, budget := 3 }]

theorem orig_samples_partition_that_fits :
    ({ id := 2, kept := false, num := 24, den := 20, quota := 4 } : Ev) ∈
      evs (runBucket origCfg floodItems 20 [0, 9007199254740991, 9007199254740991]) := by decide

/-- the fixed code keeps all three rows with factor 1 (instance of fits_share_kept_with_fixed_budgets) -/
example : ∀ i ∈ [0, 1, 2], ({ id := i, kept := true, num := 1, den := 1, quota := 4 } : Ev) ∈
    evs (runBucket { origCfg with variant := .fitKeep } floodItems 20 [0, 9007199254740991, 9007199254740991]) := by decide

/-- non-vacuity of fits_share_kept / FitsShare: two metrics of weights 1 and 3, budget 40: metric 1 (size 10) fits its
    share 40*1/4, metric 2 (size 90) does not fit 40*3/4 and is sampled -/
example :
    let cfg : Cfg := {}
    let items : List Item := [{ id := 0, size := 10, metric := 1, wMetric := 1 }, { id := 1, size := 45, metric := 2, wMetric := 3 },
                              { id := 2, size := 45, metric := 2, wMetric := 3, rank := 1 }]
    (evs (runBucket cfg items 40 [0, 9007199254740991])) =
      [keepEv { id := 0, size := 10, metric := 1 }, { id := 1, kept := true, num := 270, den := 90, quota := 45 },
       { id := 2, kept := false, num := 270, den := 90, quota := 45 }] := by decide

/-! ## the whole bucket fits -/

theorem sumSizes_perm {a b : List Item} (h : a.Perm b) : sumSizes a = sumSizes b := by
  induction h with
  | nil => rfl
  | cons x _ ih => simp only [sumSizes, List.map_cons, List.sum_cons] at *; omega
  | swap x y l => simp only [sumSizes, List.map_cons, List.sum_cons]; omega
  | trans _ _ ih1 ih2 => exact ih1.trans ih2

theorem prep_fields (cfg : Cfg) (it : Item) : (prep cfg it).size = it.size ∧ (prep cfg it).wMetric = it.wMetric := by
  unfold prep; split <;> exact ⟨rfl, rfl⟩

/-- bucket_fits_nothing_sampled: without fixed budgets, if the rows accepted by `Add` fit the budget together, every
    one of them is kept with factor 1 (the only other decisions are `Add`'s rejections of rows with size < 1).
    Every option set, tie order, draw stream, both code variants. -/
theorem bucket_fits_nothing_sampled (cfg : Cfg) (hb : cfg.sBudgets = false) (items : List Item) (budget : Int) (ds : List Nat)
    (hw : ∀ it ∈ items, 0 < it.wMetric) (hfit : sumSizes (added cfg items) ≤ budget) :
    ∀ e ∈ evs (runBucket cfg items budget ds), (e.isMax = true ∧ e.kept = false) ∨ ∃ it, e = keepEv it := by
  intro e he
  simp only [runBucket, evs_append, evs_map_ev, List.mem_append, List.mem_map] at he
  rcases he with ⟨it, _, rfl⟩ | he
  · exact Or.inl ⟨rfl, rfl⟩
  · right
    split at he
    · simp at he
    · have hperm := isort_perm itemLe (added cfg items)
      have hadded : ∀ it ∈ added cfg items, 0 < it.wMetric ∧ 0 ≤ it.size := by
        intro it hit
        simp only [added, List.mem_map, List.mem_filter] at hit
        obtain ⟨it0, ⟨hin, hsz⟩, rfl⟩ := hit
        have := prep_fields cfg it0
        rw [this.1, this.2]
        simp at hsz
        exact ⟨hw it0 hin, by omega⟩
      have hk : kindAt cfg (topGroup cfg items budget).depth ≠ .byBudget := by
        simp only [topGroup, kindAt, partList, hb]
        cases cfg.sNs <;> cases cfg.sGroups <;> simp
      have hw' : ∀ it ∈ (topGroup cfg items budget).items, 0 < it.wMetric := fun it hit => (hadded it (hperm.mem_iff.1 hit)).1
      have hs' : ∀ it ∈ (topGroup cfg items budget).items, 0 ≤ it.size := fun it hit => (hadded it (hperm.mem_iff.1 hit)).2
      have hnf : ∀ p ∈ partition cfg (topGroup cfg items budget), p.fixed = false ∧ p.sumSize = sumSizes p.items := by
        intro p hp
        rw [(partition_plain cfg _ _ rfl hk).1] at hp
        have := partPlain_good cfg _ _ _ hw' hs' p hp
        exact ⟨this.2.2.1, this.2.2.2⟩
      refine all_fit_nothing_sampled cfg _ (topGroup cfg items budget) ds hw' hs'
        (fun p hp hf => by simp [(hnf p hp).1] at hf) ?_ e he
      rw [nfSize_eq _ hnf, partition_items]
      show sumSizes (isort itemLe (added cfg items)) ≤ budget
      rw [sumSizes_perm hperm]; exact hfit

/-! ## a larger ratio never gets a smaller factor -/

/-- factor_monotone_in_ratio: all partitions handed to the sampling loop of one level see the same `(B, W)`; their
    factor is `W*size/(B*weight)`, so a partition with a larger size-to-weight ratio never gets a smaller factor
    (here for budgets ≥ 1, where the clamps `sfDenom < 1 → 1` are inactive). Partitions kept by the first loop have
    factor 1 and smaller ratio than every sampled one (ratio_sorted). -/
theorem factor_monotone_in_ratio (B W : Int) (a b : Group) (ha : a.fixed = false) (hb : b.fixed = false)
    (hB : 1 ≤ B) (hW : 1 ≤ W) (hwa : 1 ≤ a.weight) (hwb : 1 ≤ b.weight) (hsa : 1 ≤ a.sumSize) (hsb : 1 ≤ b.sumSize)
    (hr : ratioLe a b) :
    sfNumOf (assign B W a) * sfDenOf (assign B W b) ≤ sfNumOf (assign B W b) * sfDenOf (assign B W a) := by
  unfold ratioLe at hr
  have h1 : ¬ (W * a.sumSize < 1) := by nlinarith
  have h2 : ¬ (W * b.sumSize < 1) := by nlinarith
  have h3 : ¬ (B * a.weight < 1) := by nlinarith
  have h4 : ¬ (B * b.weight < 1) := by nlinarith
  simp only [sfNumOf, sfDenOf, assign, ha, hb, Bool.false_eq_true, if_false, h1, h2, h3, h4]
  have : 0 ≤ W * B := by nlinarith
  nlinarith [Int.mul_le_mul_of_nonneg_left hr this]

/-! ## deterministic selection stays within the budget -/

/-- the test selector keeps at most len/sf rows -/
theorem detCount_le (n : Nat) (num den : Int) (hn : 0 < num) (hd : 0 ≤ den) :
    (detCount n num den : Int) * num ≤ n * den := detCount_mul_le n num den hn hd

/-- det_leaf_count_le (was det_kept_le_share_partial; rows of ANY sizes): whales plus deterministically selected rows
    of one leaf are at most `len/sf` rows: `(pos + k) * sfNum ≤ len * sfDen` for `pos = ⌊len*sfDen/sfNum/2⌋` whales and
    `k = ⌊(len-pos)/(2 sf)⌋` selected rows. This COUNT bound is what the code guarantees for arbitrary row sizes: in
    bytes a leaf may keep up to `max row / average row` times its share (a whale can be larger than the whole budget,
    see `det_size_bound_needs_uniform_rows`). -/
theorem det_leaf_count_le (n : Nat) (num den : Int) (hn : 0 < num) (hd : 0 ≤ den) (pos : Nat)
    (hpos : (pos : Int) ≤ (n : Int) * den / num / 2) (hle : pos ≤ n) :
    ((pos + detCount (n - pos) (2 * num) den : Nat) : Int) * num ≤ n * den :=
  whales_plus_det_le n num den hn hd pos hpos hle

/-- the model's whale count satisfies the hypothesis of det_leaf_count_le -/
theorem whalePos_le (g : Group) :
    (whalePos g : Int) ≤ (g.items.length : Int) * sfDenOf g / sfNumOf g / 2 ∧ whalePos g ≤ g.items.length :=
  whalePos_bound g

/-- the fixed (aggregator supplied) per-metric budgets that are in force for this bucket (0 unless SampleBudgets) -/
def fixedBudgetTotal (cfg : Cfg) (items : List Item) (budget : Int) : Int :=
  fxBudget (partition cfg (topGroup cfg items budget))

theorem fxBudget_nonneg (s : List Group) (h : ∀ p ∈ s, p.fixed = true → 0 ≤ p.budget) : 0 ≤ fxBudget s := by
  induction s with
  | nil => simp [fxBudget]
  | cons g gs ih =>
    have := ih (fun x hx => h x (by simp [hx]))
    simp only [fxBudget]
    split
    · rename_i hf; have := h g (by simp) hf; omega
    · omega

theorem prep_fields3 (cfg : Cfg) (it : Item) :
    (prep cfg it).size = it.size ∧ (prep cfg it).wMetric = it.wMetric ∧ (prep cfg it).metric = it.metric := by
  unfold prep; split <;> exact ⟨rfl, rfl, rfl⟩

theorem keptSize_addDiscards (l : List Item) : keptSize (l.map (fun it => Act.ev (addDiscard it))) = 0 := by
  induction l with
  | nil => rfl
  | cons x xs ih => rw [List.map_cons, keptSize_cons_ev, ih]; simp [addDiscard]

/-- det_kept_le_budget — the whole hierarchy. With deterministic selection (the repo tests' SelectF = ⌊len/sf⌋ and
    RoundF = floor) the bytes kept by Add*;Run never exceed the budget plus the fixed per-metric budgets in force,
    provided rows of one metric have one size (then the count bound of every leaf is a byte bound; the repo's tests use
    one size for all rows) of at least 2 bytes (real estimates are ≥ 20, `agent_row_size_ge_20` in C05), SampleKeepSingle
    is off and NoSampleAgent is not in effect (both keep rows regardless of any budget).
    Every hierarchy (namespaces, groups, metrics, fair keys, fixed budgets), weights, tie order, both code variants.
    Proof: induction over the partition tree (SH.Lemmas.SamplerDet). -/
theorem det_kept_le_budget (cfg : Cfg) (hm : cfg.mode = .det) (hks : cfg.keepSingle = false)
    (hns : cfg.agent = false ∨ cfg.disableNoSample = true)
    (items : List Item) (budget : Int) (ds : List Nat) (hB : 0 ≤ budget)
    (hrows : ∀ it ∈ items, 0 < it.wMetric ∧ 2 ≤ it.size) (hu : MetricUniform items) :
    keptSize (runBucket cfg items budget ds) ≤ budget + fixedBudgetTotal cfg items budget := by
  have hperm := isort_perm itemLe (added cfg items)
  have hadded : ∀ it ∈ added cfg items, ∃ it0 ∈ items, it = prep cfg it0 := by
    intro it hit
    simp only [added, List.mem_map, List.mem_filter] at hit
    obtain ⟨it0, ⟨hin, _⟩, rfl⟩ := hit
    exact ⟨it0, hin, rfl⟩
  have htop : ∀ it ∈ (topGroup cfg items budget).items, ∃ it0 ∈ items, it = prep cfg it0 :=
    fun it hit => hadded it (hperm.mem_iff.1 hit)
  have hrows' : ∀ it ∈ (topGroup cfg items budget).items, 0 < it.wMetric ∧ 2 ≤ it.size := by
    intro it hit
    obtain ⟨it0, hin, rfl⟩ := htop it hit
    have := prep_fields3 cfg it0
    rw [this.1, this.2.1]; exact hrows it0 hin
  have hu' : MetricUniform (topGroup cfg items budget).items := by
    intro a ha b hb hab
    obtain ⟨a0, ha0, rfl⟩ := htop a ha
    obtain ⟨b0, hb0, rfl⟩ := htop b hb
    rw [(prep_fields3 cfg a0).1, (prep_fields3 cfg b0).1]
    rw [(prep_fields3 cfg a0).2.2, (prep_fields3 cfg b0).2.2] at hab
    exact hu a0 ha0 b0 hb0 hab
  have hfx : 0 ≤ fixedBudgetTotal cfg items budget :=
    fxBudget_nonneg _ (partition_fixed_budget cfg (topGroup cfg items budget))
  simp only [runBucket, keptSize_append, keptSize_addDiscards, Int.zero_add]
  split
  · simp; omega
  · have hnp : nPart cfg ≤ 4 := by
      rcases cfg with ⟨_, _, _, _, _, sb, sn, sg, _, _, _, _⟩
      cases sb <;> cases sn <;> cases sg <;> simp [nPart, partList]
    have hinv : HInv cfg (8 + 1) (topGroup cfg items budget) := by
      right
      have := nPart_pos cfg
      exact ⟨by show 0 < nPart cfg; omega, by show nPart cfg ≤ 0 + (8 + 1); omega⟩
    have hok := detOK_of_partition cfg 8 (topGroup cfg items budget) hinv hrows' hu' (run_det_child cfg hm hks hns 8)
    exact level_det_le cfg hm hks hns 8 (topGroup cfg items budget) ds hB (fun it hit => (hrows' it hit).1)
      (fun it hit => by have := (hrows' it hit).2; omega) hok
      (nfWeight_le_partWeight cfg _ (fun it hit => (hrows' it hit).1) (fun it hit => by have := (hrows' it hit).2; omega))

/-- without SampleBudgets there are no fixed budgets: the kept size is at most the budget -/
theorem det_kept_le_budget_plain (cfg : Cfg) (hm : cfg.mode = .det) (hks : cfg.keepSingle = false)
    (hns : cfg.agent = false ∨ cfg.disableNoSample = true) (hb : cfg.sBudgets = false)
    (items : List Item) (budget : Int) (ds : List Nat) (hB : 0 ≤ budget)
    (hrows : ∀ it ∈ items, 0 < it.wMetric ∧ 2 ≤ it.size) (hu : MetricUniform items) :
    keptSize (runBucket cfg items budget ds) ≤ budget := by
  have h := det_kept_le_budget cfg hm hks hns items budget ds hB hrows hu
  have hk : kindAt cfg (topGroup cfg items budget).depth ≠ .byBudget := by
    simp only [topGroup, kindAt, partList, hb]
    cases cfg.sNs <;> cases cfg.sGroups <;> simp
  have : fixedBudgetTotal cfg items budget = 0 := fxBudget_no_fixed _ (partition_no_fixed cfg _ hk)
  omega

/-- non-vacuity: two metrics (rows of 10 and of 30 bytes), budget 100 of 240 bytes: 60 bytes are kept -/
example :
    let cfg : Cfg := { mode := .det }
    let items : List Item := (List.range 6).map (fun i => { id := i, size := 10, metric := 1, rank := i }) ++
                             (List.range 6).map (fun i => { id := 6 + i, size := 30, metric := 2, rank := 6 + i })
    MetricUniform items ∧ keptSize (runBucket cfg items 100 []) = 60 := by
  refine ⟨by unfold MetricUniform; decide, by decide⟩

/-- det_size_bound_needs_uniform_rows: for rows of different sizes inside one metric the byte form is false — the
    code bounds the NUMBER of kept rows of a leaf (det_leaf_count_le), not their bytes: one metric with rows of
    100, 1, 1, 1 bytes (whale weight = size) and budget 51 keeps the 100-byte whale. The same bucket on the real
    code is what the harness oracle `det-kept-cost-over-budget` accounts for by judging the count form. -/
theorem det_size_bound_needs_uniform_rows :
    let cfg : Cfg := { mode := .det }
    let items : List Item := [{ id := 0, size := 100, whale := 100, metric := 1 }, { id := 1, size := 1, whale := 1, metric := 1, rank := 1 },
                              { id := 2, size := 1, whale := 1, metric := 1, rank := 2 }, { id := 3, size := 1, whale := 1, metric := 1, rank := 3 }]
    keptSize (runBucket cfg items 51 []) = 100 := by decide

/-! ## quota mode (SampleQuota, used by calcHostMetricBudgets) -/

theorem ediv_add_le (a b c : Int) (hc : 0 < c) : a / c + b / c ≤ (a + b) / c := by
  apply Int.le_ediv_of_mul_le hc
  have h1 := Int.ediv_mul_le a (Int.ne_of_gt hc)
  have h2 := Int.ediv_mul_le b (Int.ne_of_gt hc)
  nlinarith

/-- quota_proportional: a row's quota is its size times `budget/(denom*sumSize)`, rounded down -/
theorem quota_proportional (g : Group) (it : Item) (hD : 0 < g.denom * g.sumSize) :
    quotaOf g it * (g.denom * g.sumSize) ≤ g.budget * it.size ∧
    g.budget * it.size < (quotaOf g it + 1) * (g.denom * g.sumSize) := by
  unfold quotaOf
  exact ⟨Int.ediv_mul_le _ (Int.ne_of_gt hD), Int.lt_ediv_add_one_mul_self _ hD⟩

/-- a larger row never gets a smaller quota -/
theorem quota_monotone (g : Group) (a b : Item) (hD : 0 < g.denom * g.sumSize) (hB : 0 ≤ g.budget) (h : a.size ≤ b.size) :
    quotaOf g a ≤ quotaOf g b := by
  unfold quotaOf
  exact Int.ediv_le_ediv hD (Int.mul_le_mul_of_nonneg_left h hB)

theorem quota_sum_aux (b D : Int) (hD : 0 < D) (l : List Item) :
    (l.map (fun it => b * it.size / D)).sum ≤ b * sumSizes l / D := by
  induction l with
  | nil => simp [sumSizes]
  | cons x xs ih =>
    simp only [List.map_cons, List.sum_cons, sumSizes] at *
    have := ediv_add_le (b * x.size) (b * (xs.map (·.size)).sum) D hD
    rw [← Int.mul_add] at this
    omega

/-- quota_sum_le_budget: the quotas handed out for one sampled partition sum to at most its budget share
    `budget/denom`; kept partitions get their own size, which the water filling has already subtracted. -/
theorem quota_sum_le_budget (g : Group) (hsum : g.sumSize = sumSizes g.items) (hd : 0 < g.denom) (hs : 0 < g.sumSize) :
    (g.items.map (quotaOf g)).sum ≤ g.budget / g.denom := by
  have hD : 0 < g.denom * g.sumSize := Int.mul_pos hd hs
  have := quota_sum_aux g.budget (g.denom * g.sumSize) hD g.items
  rw [← hsum, Int.mul_ediv_mul_of_pos_left _ _ hs] at this
  exact this

/-- non-vacuity: budget 10 over rows of size 3,5,8 (denom 1): quotas 1,3,5, sum 9 ≤ 10 -/
example :
    let g : Group := { budget := 10, denom := 1, sumSize := 16, items := [{ id := 0, size := 3 }, { id := 1, size := 5 }, { id := 2, size := 8 }] }
    g.items.map (quotaOf g) = [1, 3, 5] := by decide

/-! ## calcHostMetricBudgets: the x2 bonus on top of the quotas (aggregator.go, `keepF`) -/

/-- the bonus doubles exactly the rows that fit their quota; a row never gets more than twice its quota -/
theorem host_budget_cases (size quota : Int) (hq : 0 ≤ quota) :
    (size ≤ quota → hostBudget size quota = 2 * quota) ∧ (quota < size → hostBudget size quota = quota) ∧
    hostBudget size quota ≤ 2 * quota ∧ quota ≤ hostBudget size quota := by
  unfold hostBudget
  refine ⟨fun h => by simp [h]; omega, fun h => by simp [show ¬ size ≤ quota by omega], ?_, ?_⟩ <;> split <;> omega

theorem quotaOf_nonneg (g : Group) (it : Item) (hD : 0 < g.denom * g.sumSize) (hB : 0 ≤ g.budget) (hs : 0 ≤ it.size) :
    0 ≤ quotaOf g it := by
  unfold quotaOf
  exact Int.ediv_nonneg (Int.mul_nonneg hB hs) (Int.le_of_lt hD)

/-- a row of a sampled partition never fits its quota (its share is below the partition's size), so the bonus goes
    only to rows of partitions kept whole by the keep loop (quota = size, budget 2*size) -/
theorem sampled_row_gets_no_bonus (g : Group) (it : Item) (hD : 0 < g.denom * g.sumSize) (hs : 0 < it.size)
    (hover : g.budget < g.denom * g.sumSize) : hostBudget it.size (quotaOf g it) = quotaOf g it := by
  have hq : quotaOf g it < it.size := by
    unfold quotaOf
    apply Int.ediv_lt_of_lt_mul hD
    nlinarith
  unfold hostBudget
  simp [show ¬ it.size ≤ quotaOf g it by omega]

/-- host_budgets_le_twice_share: the budgets handed back for one sampled partition, bonus included, sum to at most
    twice its budget share (`quota ≤ 2·share`; by sampled_row_gets_no_bonus the factor 2 is never actually used there) -/
theorem host_budgets_le_twice_share (g : Group) (hsum : g.sumSize = sumSizes g.items) (hd : 0 < g.denom) (hs : 0 < g.sumSize)
    (hB : 0 ≤ g.budget) (hsz : ∀ it ∈ g.items, 0 ≤ it.size) :
    (g.items.map (fun it => hostBudget it.size (quotaOf g it))).sum ≤ 2 * (g.budget / g.denom) := by
  have hD : 0 < g.denom * g.sumSize := Int.mul_pos hd hs
  have h1 := quota_sum_le_budget g hsum hd hs
  have h2 : ∀ l : List Item, (∀ it ∈ l, 0 ≤ it.size) →
      (l.map (fun it => hostBudget it.size (quotaOf g it))).sum ≤ 2 * (l.map (quotaOf g)).sum := by
    intro l hl
    induction l with
    | nil => simp
    | cons x xs ih =>
      have := ih (fun y hy => hl y (by simp [hy]))
      have hx := (host_budget_cases x.size (quotaOf g x) (quotaOf_nonneg g x hD hB (hl x (by simp)))).2.2.1
      simp only [List.map_cons, List.sum_cons]
      omega
  have := h2 g.items hsz
  omega

/-- non-vacuity: receive budget 10 over hosts reporting 3, 5, 8 bytes: budgets 1, 3, 5 (no bonus); a host whose
    metric fits (quota = its size 4) is handed 8 -/
example :
    let g : Group := { budget := 10, denom := 1, sumSize := 16, items := [{ id := 0, size := 3 }, { id := 1, size := 5 }, { id := 2, size := 8 }] }
    g.items.map (fun it => hostBudget it.size (quotaOf g it)) = [1, 3, 5] ∧ hostBudget 4 4 = 8 := by decide


/-! ## which meta a partition is sampled with; fair keys below the metric level -/

/-- rows accounted to one metric agree on the sampling options (they all resolve to that metric's meta) -/
def MetaConsistent (l : List Item) : Prop :=
  ∀ a ∈ l, ∀ b ∈ l, a.metric = b.metric →
    a.wMetric = b.wMetric ∧ a.noSample = b.noSample ∧ a.ns = b.ns ∧ a.grp = b.grp

/-- resolve_uses_accounting_metric: a row keeps the accounting metric's options unless the meta it carries is the meta
    of that very metric; in particular a row of another metric (carried id ≠ accounting id: an ingestion status
    accounted to a user metric) never brings its own namespace, group, weight or fair keys into the partitioning. -/
theorem resolve_uses_accounting_metric (it : Item) (c : Carried) :
    (resolveMeta it (some c)).metric = it.metric ∧ (c.metricID ≠ it.metric → resolveMeta it (some c) = it) ∧
    (c.metricID = it.metric → (resolveMeta it (some c)).wMetric = c.wMetric ∧ (resolveMeta it (some c)).ns = c.ns ∧
      (resolveMeta it (some c)).grp = c.grp ∧ (resolveMeta it (some c)).noSample = c.noSample) := by
  refine ⟨?_, ?_, ?_⟩
  · simp only [resolveMeta]; split <;> rfl
  · intro h; simp [resolveMeta, h]
  · intro h; simp [resolveMeta, h]

/-- metric_partition_uses_accounting_meta: a metric partition is weighted, grouped and flagged with the options of the
    metric its rows are accounted to, whichever row sorts first in it (the code reads them from the first row). -/
theorem metric_partition_uses_accounting_meta (d : Nat) (l : List Item) (hc : MetaConsistent l) :
    ∀ r ∈ runs (·.metric) l, ∀ it ∈ r,
      (mkMetric d r).weight = it.wMetric ∧ (mkMetric d r).noSample = it.noSample ∧ (mkMetric d r).ns = it.ns ∧
      (mkMetric d r).grp = it.grp := by
  intro r hr it hit
  have hne : r ≠ [] := runs_ne_nil _ _ r hr
  have hh := hd_mem r hne
  have hm : it.metric = (hd r).metric := runs_key_const (·.metric) l r hr it hit
  have := hc (hd r) (mem_of_mem_runs _ _ _ hr _ hh) it (mem_of_mem_runs _ _ _ hr _ hit) hm.symm
  simp only [mkMetric]
  exact ⟨this.1, this.2.1, this.2.2.1, this.2.2.2⟩

/-- non-vacuity: a status row of metric 9001 (weight 640, namespace 998) accounted to metric 1 (weight 2): it is
    sampled with weight 2 in namespace 7, whether or not it sorts first -/
example :
    let c : Carried := { metricID := 9001, ns := 998, grp := 997, wNsTab := 0, wGrpTab := 0, wMetric := 640, noSample := false, fki := [0] }
    let it : Item := { id := 0, size := 10, metric := 1, ns := 7, wMetric := 2 }
    resolveMeta it (some c) = it ∧ (resolveMeta it (some { c with metricID := 1 })).wMetric = 640 := by decide

theorem sumWeights_mkKey (d : Nat) (rs : List (List Item)) : sumWeights (rs.map (mkKey d)) = rs.length := by
  induction rs with
  | nil => rfl
  | cons r rs ih =>
    simp only [sumWeights, List.map_cons, List.sum_cons, List.length_cons] at *
    rw [ih]; simp [mkKey]; omega

/-- fair_key_within_share_kept: below the metric level the partitions are the values of the next fair key, all of weight 1:
    a fair-key value whose size does not exceed the metric's (or parent fair-key value's) budget divided by the number of
    values is kept entirely with factor 1 — however large its sibling values are. Every tie order, draw stream, both variants. -/
theorem fair_key_within_share_kept (cfg : Cfg) (fuel : Nat) (g : Group) (ds : List Nat)
    (hk : kindAt cfg g.depth = .byKey)
    (hw : ∀ it ∈ g.items, 0 < it.wMetric) (hs : ∀ it ∈ g.items, 0 ≤ it.size)
    (p : Group) (hp : p ∈ partition cfg g) (hfit : p.sumSize * (partition cfg g).length ≤ g.budget) :
    ∀ it ∈ p.items, keepEv it ∈ evs (run (fuel + 1) cfg g ds).1 := by
  have hkb : kindAt cfg g.depth ≠ .byBudget := by rw [hk]; simp
  have hpl := partition_plain cfg g .byKey hk (by simp)
  have hpw : p.weight = 1 := by
    rw [hpl.1] at hp
    simp only [partPlain, List.mem_map] at hp
    obtain ⟨r, _, rfl⟩ := hp; rfl
  have hW : partWeight cfg g = (partition cfg g).length := by
    rw [hpl.2, hpl.1]
    simp only [partPlain, List.length_map]
    exact sumWeights_mkKey _ _
  refine fits_share_kept cfg fuel g ds hkb hw hs p hp ?_
  rw [hW, hpw]; omega

/-- non-vacuity: metric with fair key = tag 0, budget 30: value 7 (one row of 10 bytes, share 15) is kept whole, the
    flooding value 0 (4 rows) is sampled -/
example :
    let cfg : Cfg := { sKeys := true }
    let mk (i : Nat) (t : Int) : Item := { id := i, size := 10, metric := 1, fki := [0], tags := [t], rank := i }
    let items : List Item := [mk 0 0, mk 1 0, mk 2 0, mk 3 0, mk 4 7]
    keepEv (prep cfg (mk 4 7)) ∈ evs (runBucket cfg items 30 [0, 0, 0, 0, 0, 0]) ∧
    (evs (runBucket cfg items 30 (List.replicate 6 9007199254740991))).any (fun e => !e.kept) = true := by decide


/-! ## group and namespace weights are looked up for every non-zero id -/

/-- weight_lookup_ignores_sign: the weight of a namespace / group partition is the configured weight (clamped to ≥ 1) for
    EVERY non-zero id — builtin groups and namespaces (negative ids: __default group -4, __builtin -2, __host -3, __default
    namespace -5) are weighted by their journal-configured weight exactly like user ones; only id 0 ("none") and a missing
    meta storage fall back to weight 1. -/
theorem weight_lookup_ignores_sign (cfg : Cfg) (hv : cfg.variant ≠ .posIds) (it : Item) :
    (it.ns ≠ 0 → nsWeight cfg it = clamp1 (if cfg.hasMeta then it.wNsTab else 0)) ∧
    (it.grp ≠ 0 → grpWeight cfg it = clamp1 (if cfg.hasMeta then it.wGrpTab else 0)) ∧
    (nsWeight cfg { it with ns := -it.ns } = nsWeight cfg it) ∧ (grpWeight cfg { it with grp := -it.grp } = grpWeight cfg it) := by
  have hb : (cfg.variant == Variant.posIds) = false := by
    cases h : cfg.variant <;> simp_all
  refine ⟨?_, ?_, ?_, ?_⟩
  · intro h; simp [nsWeight, idHasWeight, hb, h]
  · intro h; simp [grpWeight, idHasWeight, hb, h]
  · simp only [nsWeight, idHasWeight, hb, Bool.false_eq_true, if_false]
    by_cases h : it.ns = 0 <;> simp [h]
  · simp only [grpWeight, idHasWeight, hb, Bool.false_eq_true, if_false]
    by_cases h : it.grp = 0 <;> simp [h]

/-- The seeded guard `ID > 0` (seeded/C06-r5-2, `Variant.posIds`) violates fairness: the __default group (-4) configured with
    weight 3*128 holds 300 bytes, group 7 (weight 128) holds 500 bytes, budget 400: the share of __default is 400*384/512 = 300,
    it fits and the code keeps it whole (instance of fits_share_kept) — with the guard its weight falls to 1, its share to
    400/129 = 3 bytes and its row is sampled away. Oracle signature on the real code: `fits-share-but-sampled`. -/
def negGroupItems : List Item :=
  [{ id := 0, size := 300, metric := 1, grp := -4, wGrpTab := 384 }, { id := 1, size := 500, metric := 2, grp := 7, wGrpTab := 128 }]

theorem positive_id_guard_starves_builtin_group :
    (evs (runBucket { sGroups := true } negGroupItems 400 (List.replicate 6 9007199254740991))).head? =
      some (keepEv { id := 0, size := 300, metric := 1, grp := -4, wGrpTab := 384 }) ∧
    ({ id := 0, kept := false, num := 300, den := 3, quota := 300 } : Ev) ∈
      evs (runBucket { sGroups := true, variant := .posIds } negGroupItems 400 (List.replicate 6 9007199254740991)) := by
  decide


end SH.Sampler
