/-
  C17 — Binlog-backed SQLite engine stays consistent with its binlog across crashes.

  "At every moment the database reflects exactly the application of a prefix of the binlog, and its stored binlog
   offset marks the end of that prefix; after a crash at any point and a restart, the state equals the application of
   every event in the durable binlog, so every write acknowledged in wait-for-commit mode is present. A write whose
   callback fails leaves neither a database change nor a binlog record, and readers never observe effects of events
   not yet in the binlog."

  Model: SH/Model/Engine.lean (one step = one critical section of internal/sqlite's Engine; SQLite = committed value
  `com` + value inside the open write transaction `tx`; the binlog = records with end offsets; `dur` = the prefix the
  binlog has announced through Commit, i.e. fsynced; `crash d torn` keeps `com` and the binlog records ending at or
  before `d` for any `dur ≤ d ≤ len`; `torn` = the kill hit the binlog writer inside write(2), the file ends with a
  partial record: the CURRENT code then refuses to reopen the file and a master does not come up, field `down`,
  known finding restart-failed-torn-tail).  Helper lemmas and the invariant: SH/Lemmas/Engine.lean.

  A history is an arbitrary `List Op` (writes ok / failing, must-commit-now writes, binlog commits at any offset,
  commit-timer ticks, reader deliveries, replica appends, clock knob, close, crash with any surviving length, ready),
  so every theorem below holds for every interleaving of critical sections, every crash point and both commit modes
  (`wait`) and roles (`repl`), which are parameters of the initial state.
-/
import SH.Lemmas.Engine
import SH.Lemmas.EngineChain
import SH.Lemmas.EngineWaitQ

namespace SH.Engine

/-- a fresh engine on an empty database whose binlog already holds the records `l` (e.g. the LevStart record) -/
def fresh (wait repl : Bool) (l : List (Bool × Nat × Nat)) : St :=
  init wait repl (mkRecs 0 l) (total (mkRecs 0 l))

theorem fresh_inv (w r : Bool) (l : List (Bool × Nat × Nat)) (hl : ∀ x ∈ l, 0 < x.2.2) : Inv (fresh w r l) := by
  have h := appendStep_inv (inv_init w r) l hl
  have e : appendStep (init w r [] 0) l = fresh w r l := by simp [appendStep, fresh, init]
  rw [e] at h; exact h

theorem evsUpTo_allRecs {s : St} (h : Inv s) (off : Nat) (ho : off ≤ s.dbo) :
    evsUpTo (allRecs s) off = evsUpTo s.done off := by
  obtain ⟨h0, _⟩ := h
  simp only [allRecs, evsUpTo_append]
  rw [evsUpTo_nil_of_above off (flat s.aq) (fun r hr => by have := (h0.ql r hr).1; omega),
      evsUpTo_nil_of_above off s.rest (fun r hr => by have := h0.rl r hr; simp only [rpos] at this; omega)]
  simp

/-- **db_is_prefix** — at every moment (after every history) both what readers / a crash see (`com`) and what the
    write transaction holds (`tx`) are exactly the events of the binlog prefix that their stored offset marks; the
    committed offset never passes the fsynced prefix of the binlog ("COMMIT only after the binlog commit"). -/
theorem db_is_prefix (w r : Bool) (l : List (Bool × Nat × Nat)) (hl : ∀ x ∈ l, 0 < x.2.2) (ops : List Op) :
    let s := run (fresh w r l) ops
    s.com.rows = evsUpTo (allRecs s) s.com.off ∧ s.tx.rows = evsUpTo (allRecs s) s.tx.off ∧
    s.com.off ≤ s.tx.off ∧ s.tx.off ≤ s.dbo ∧ s.com.off ≤ s.dur ∧ s.dur ≤ s.len := by
  intro s
  have h : Inv s := run_inv ops _ (fresh_inv w r l hl)
  have h0 := h.1
  refine ⟨?_, ?_, h0.i6a, h0.i6b, h0.i7a, h0.dl⟩
  · rw [evsUpTo_allRecs h _ (Nat.le_trans h0.i6a h0.i6b)]; exact h0.i1
  · rw [evsUpTo_allRecs h _ h0.i6b, evsUpTo_eq_evIds _ _ h0.i3]; exact h0.i2

/-- **readers never ahead of the binlog** — every row a reader (RO connection = `com`) can see belongs to an event
    that lies inside the durable (fsynced, announced by Commit) prefix of the binlog. -/
theorem view_never_ahead_of_binlog (w r : Bool) (l : List (Bool × Nat × Nat)) (hl : ∀ x ∈ l, 0 < x.2.2) (ops : List Op) :
    let s := run (fresh w r l) ops
    ∀ id ∈ s.com.rows, ∃ rec ∈ allRecs s, rec.isEv = true ∧ rec.id = id ∧ rec.eo ≤ s.dur := by
  intro s id hid
  have h : Inv s := run_inv ops _ (fresh_inv w r l hl)
  rw [h.1.i1, evsUpTo, mem_evIds] at hid
  obtain ⟨rec, hr, h1, h2⟩ := hid
  have := mem_upTo.1 hr
  exact ⟨rec, mem_allR.2 (Or.inl this.1), h1, h2, Nat.le_trans this.2 h.1.i7a⟩

/-! ### failed writes -/

def failing (s : St) : Op → Bool
  | .doOp _ _ _ .cbfail | .doOp _ _ _ .cbfail0 | .doOp _ _ _ .sqlfail | .doOp _ _ _ .appfail | .doOp _ _ _ .ctxfail => true
  | .doOp _ _ _ .ok => !canWrite s      -- write refused: replica, or the binlog rejects the offset
  | _ => false

theorem failed_do_state (s : St) (op : Op) (h : failing s op = true) : (step s op).1 = s := by
  cases op with
  | doOp id ln extra k =>
    cases k <;> simp [failing] at h <;> simp [step, doOp] <;> split <;> try rfl
    simp [doWrite, h]
  | _ => simp [failing] at h

theorem run_append (s : St) (a b : List Op) : run s (a ++ b) = run (run s a) b := by
  induction a generalizing s with
  | nil => rfl
  | cons x t ih => simp [run, ih]

/-- **failed_do_leaves_nothing** — a write whose callback fails (before or after its SQL ran), whose SQL fails, whose
    binlog append fails, or which is refused, leaves the state exactly as it was: no database change, no binlog
    record, no offset change, nobody parked. Hence it can be erased from any history without changing any later state. -/
theorem failed_do_leaves_nothing (s0 : St) (before after : List Op) (op : Op) (h : failing (run s0 before) op = true) :
    run s0 (before ++ op :: after) = run s0 (before ++ after) := by
  rw [run_append, run_append]
  show run (step (run s0 before) op).1 after = _
  rw [failed_do_state _ _ h]

/-! ### acknowledged writes -/

/-- **acked_is_durable** — a write is acknowledged (its Do returns in wait-for-commit mode, or a must-commit-now write
    returns) only when its event lies inside the durable prefix of the binlog. -/
theorem acked_is_durable (w r : Bool) (l : List (Bool × Nat × Nat)) (hl : ∀ x ∈ l, 0 < x.2.2) (ops : List Op) :
    let s := run (fresh w r l) ops
    ∀ id ∈ s.ackedW, ∃ rec ∈ allRecs s, rec.isEv = true ∧ rec.id = id ∧ rec.eo ≤ s.dur :=
  fun id hid => (run_inv ops _ (fresh_inv w r l hl)).1.ack id hid

/-- a crash that keeps the binlog up to any `d ≥ dur` keeps the event of every acknowledged write -/
theorem acked_survives_crash (w r : Bool) (l : List (Bool × Nat × Nat)) (hl : ∀ x ∈ l, 0 < x.2.2) (ops : List Op) (d : Nat) :
    let s := run (fresh w r l) ops
    s.dur ≤ d → ∀ id ∈ s.ackedW, id ∈ evIds (allRecs (crashStep s d)) := by
  intro s hd id hid
  have h : Inv s := run_inv ops _ (fresh_inv w r l hl)
  obtain ⟨rec, hr, h1, h2, h3⟩ := h.1.ack id hid
  exact mem_evIds.2 ⟨rec, mem_crash_allRecs h.1 d rec hr (by omega), h1, h2⟩

theorem ackedW_mono (s : St) (op : Op) (id : Nat) (h : id ∈ s.ackedW) : id ∈ (step s op).1.ackedW := by
  have hcs : ∀ (t : St) (k : Nat), id ∈ t.ackedW → id ∈ (commitStep t k).ackedW := by
    intro t k ht
    unfold commitStep
    split
    · exact ht
    · split
      · simp only [flushQ, foldl_flush, flushed, notify, announce]; exact List.mem_append_left _ ht
      · split
        · simp only [notify]; exact List.mem_append_left _ ht
        · simp only [notify]; exact List.mem_append_left _ ht
  have hack : ∀ (t : St) (i : Nat) (b : Bool), id ∈ t.ackedW → id ∈ (ackNow t i b).ackedW := by
    intro t i b ht
    cases b <;> simp [ackNow, ht]
  cases op with
  | doOp i ln extra k =>
    simp only [step, doOp]
    split
    · exact h
    · cases k <;> simp only
      · simp only [doWrite]
        split
        · exact h
        · split
          · split
            · exact hack _ _ _ h
            · exact h
          · exact hack _ _ _ h
      all_goals first | exact h | (simp only [doRead]; split; exact h; exact hack _ _ _ h)
  | doNow i ln extra =>
    simp only [step, doNow]
    split
    · exact h
    · split
      · exact h
      · split
        · exact hack _ _ _ h
        · have := hcs (park (writeOK s i ln extra) i (s.dbo + plen ln) false) (s.dbo + plen ln + extra) h
          split
          · exact this
          · exact this
  | commit k => simp only [step]; split; exact h; exact hcs _ _ h
  | tx => simp only [step, txStep]; split; exact h; split; exact h; split; exact h; exact h
  | dApply n =>
    simp only [step, deliverApply]; split; exact h; split; exact h; split; exact h; exact h
  | dSkip n =>
    simp only [step, deliverSkip]; split; exact h; split; exact h; split; exact h; exact h
  | dApplyBuf m =>
    simp only [step, deliverBuf]; split; exact h; split; exact h; split; exact h; exact h
  | view => exact h
  | append l => simp only [step]; split; exact h; exact h
  | hold b => exact h
  | close =>
    simp only [step, closeStep]
    split
    · exact h
    · have : id ∈ (if s.repl then s else commitStep s s.len).ackedW := by
        split
        · exact h
        · exact hcs _ _ h
      have htail : ∀ t : St, id ∈ t.ackedW →
          id ∈ (if t.dbo ≤ t.ci then ({ t with com := t.tx, closed := true }, "ok") else ({ t with closed := true }, "err")).1.ackedW := by
        intro t ht; split <;> exact ht
      exact htail _ this
  | crash d torn => simp only [step]; split; exact h; split; exact h; exact h
  | ready =>
    simp only [step, readyStep]; split
    · simp only [flushQ, foldl_flush, flushed]; exact h
    · exact h

theorem ackedW_mono_run (ops : List Op) : ∀ (s : St) (id : Nat), id ∈ s.ackedW → id ∈ (run s ops).ackedW := by
  induction ops with
  | nil => intro s id h; exact h
  | cons op t ih => intro s id h; exact ih _ id (ackedW_mono s op id h)

/-! ### histories without a torn binlog tail -/

def isTorn : Op → Bool
  | .crash _ true => true
  | _ => false

/-- no crash of the history tore the last binlog write ("no partial record after the last complete event") -/
def noTorn (ops : List Op) : Bool := ops.all (fun op => !isTorn op)

theorem down_step (s : St) (op : Op) (h : s.down = false) (hop : isTorn op = false) : (step s op).1.down = false := by
  have hcs : ∀ (t : St) (k : Nat), t.down = false → (commitStep t k).down = false := by
    intro t k ht
    unfold commitStep
    split
    · exact ht
    · split
      · simp only [flushQ, foldl_flush, flushed, notify, announce]; exact ht
      · split
        · exact ht
        · exact ht
  cases op with
  | doOp i ln extra k =>
    simp only [step, doOp]
    split
    · exact h
    · cases k <;> simp only
      · simp only [doWrite]
        split
        · exact h
        · split
          · split
            · exact h
            · exact h
          · exact h
      all_goals first | exact h | (simp only [doRead]; split; exact h; exact h)
  | doNow i ln extra =>
    simp only [step, doNow]
    split
    · exact h
    · split
      · exact h
      · split
        · exact h
        · have := hcs (park (writeOK s i ln extra) i (s.dbo + plen ln) false) (s.dbo + plen ln + extra) h
          split
          · exact this
          · exact this
  | commit k => simp only [step]; split; exact h; exact hcs _ _ h
  | tx => simp only [step, txStep]; split; exact h; split; exact h; split; exact h; exact h
  | dApply n =>
    simp only [step, deliverApply]; split; exact h; split; exact h; split; exact h; exact h
  | dSkip n =>
    simp only [step, deliverSkip]; split; exact h; split; exact h; split; exact h; exact h
  | dApplyBuf m =>
    simp only [step, deliverBuf]; split; exact h; split; exact h; split; exact h; exact h
  | view => exact h
  | append l => simp only [step]; split; exact h; exact h
  | hold b => exact h
  | close =>
    simp only [step, closeStep]
    split
    · exact h
    · have : (if s.repl then s else commitStep s s.len).down = false := by
        split
        · exact h
        · exact hcs _ _ h
      have htail : ∀ t : St, t.down = false →
          (if t.dbo ≤ t.ci then ({ t with com := t.tx, closed := true }, "ok") else ({ t with closed := true }, "err")).1.down = false := by
        intro t ht; split <;> exact ht
      exact htail _ this
  | crash d torn =>
    cases torn with
    | true => simp [isTorn] at hop
    | false =>
      simp only [step]
      split
      · exact h
      · simp only [Bool.false_and, Bool.false_eq_true, if_false]; rfl
  | ready =>
    simp only [step, readyStep]; split
    · simp only [flushQ, foldl_flush, flushed]; exact h
    · exact h

theorem down_run : ∀ (ops : List Op) (s : St), s.down = false → noTorn ops = true → (run s ops).down = false := by
  intro ops
  induction ops with
  | nil => intro s h _; exact h
  | cons op t ih =>
    intro s h hn
    simp only [noTorn, List.all_cons, Bool.and_eq_true, Bool.not_eq_true'] at hn
    exact ih _ (down_step s op h hn.1) (by simpa [noTorn] using hn.2)

/-- **the engine comes up after every crash that left no partial record** — in a history whose crashes never tore the
    last binlog write, OpenEngine never fails (`down` stays false). -/
theorem engine_up_partial (w r : Bool) (l : List (Bool × Nat × Nat)) (ops : List Op) (hn : noTorn ops = true) :
    (run (fresh w r l) ops).down = false :=
  down_run ops _ rfl hn

/-
  Full statement (FALSE for the current code, see `torn_tail_restart_fails` below — known finding
  restart-failed-torn-tail):
    theorem acked_present_after_restart (h1 h2) (id) (hack : id ∈ (run s0 h1).ackedW) :
      let s := run s0 (h1 ++ h2);  s.down = false ∧ (s.rest = [] → flat s.aq = [] → id ∈ s.tx.rows)
  for EVERY history, including crashes that tear the last binlog write. A torn tail makes OpenEngine fail, so the
  acknowledged write is not available until the file is repaired by hand. Proved: the statement under the explicit
  hypothesis that no crash left a partial record after the last complete event.
-/
/-- **acked writes are present after any crash + restart (partial: no torn binlog tail)** — take any history `h1`
    after which write `id` is acknowledged, continue it with any history `h2` (crashes at any point keeping any binlog
    length ≥ the fsynced one, restarts, re-deliveries, further writes…), none of whose crashes tore the last binlog
    write: the engine is never left down by a failed restart, and whenever the binlog reader has delivered everything
    and the apply queue is flushed (the engine has caught up), the row of `id` is in the database. -/
theorem acked_present_after_restart_partial (w r : Bool) (l : List (Bool × Nat × Nat)) (hl : ∀ x ∈ l, 0 < x.2.2)
    (h1 h2 : List Op) (id : Nat) (hack : id ∈ (run (fresh w r l) h1).ackedW) (hn : noTorn (h1 ++ h2) = true) :
    let s := run (fresh w r l) (h1 ++ h2)
    s.down = false ∧ (s.rest = [] → flat s.aq = [] → id ∈ s.tx.rows) := by
  intro s
  refine ⟨engine_up_partial w r l _ hn, ?_⟩
  intro hrest hq
  have h : Inv s := run_inv _ _ (fresh_inv w r l hl)
  have hid : id ∈ s.ackedW := by
    show id ∈ (run (fresh w r l) (h1 ++ h2)).ackedW
    rw [run_append]; exact ackedW_mono_run h2 _ id hack
  obtain ⟨rec, hr, e1, e2, _⟩ := h.1.ack id hid
  rw [mem_allR, hrest, hq] at hr
  rw [h.1.i2]
  rcases hr with hr | hr | hr
  · exact mem_evIds.2 ⟨rec, hr, e1, e2⟩
  · cases hr
  · cases hr

/-! ### restart -/

/-- what a crash keeps: exactly the events of the old binlog that end at or before `d` (as a set of ids) -/
theorem crash_keeps_durable_events (w r : Bool) (l : List (Bool × Nat × Nat)) (hl : ∀ x ∈ l, 0 < x.2.2) (ops : List Op) (d : Nat) :
    let s := run (fresh w r l) ops
    s.dur ≤ d → ∀ id, id ∈ evIds (allRecs (crashStep s d)) ↔ id ∈ evsUpTo (allRecs s) d := by
  intro s hd id
  have h : Inv s := run_inv ops _ (fresh_inv w r l hl)
  have h0 := h.1
  constructor
  · intro hid
    obtain ⟨rec, hr, e1, e2⟩ := mem_evIds.1 hid
    have hr' : rec ∈ allR (upTo s.com.off s.done) [] (upTo d (above s.com.off s.done ++ flat s.aq ++ s.rest)) := hr
    rw [mem_allR] at hr'
    refine mem_evIds.2 ⟨rec, mem_upTo.2 ?_, e1, e2⟩
    rcases hr' with hr' | hr' | hr'
    · have := mem_upTo.1 hr'
      exact ⟨mem_allR.2 (Or.inl this.1), by have := h0.i7a; omega⟩
    · cases hr'
    · have := mem_upTo.1 hr'
      refine ⟨?_, this.2⟩
      have hm := this.1
      simp only [List.mem_append] at hm
      rcases hm with (hm | hm) | hm
      · exact mem_allR.2 (Or.inl (mem_above.1 hm).1)
      · exact mem_allR.2 (Or.inr (Or.inl hm))
      · exact mem_allR.2 (Or.inr (Or.inr hm))
  · intro hid
    obtain ⟨rec, hr, e1, e2⟩ := mem_evIds.1 hid
    have := mem_upTo.1 hr
    exact mem_evIds.2 ⟨rec, mem_crash_allRecs h0 d rec this.1 this.2, e1, e2⟩

/-- **restart_catches_up (partial)** — after any history whose crashes left no partial record after the last complete
    event (in particular: any such crash followed by a restart), the engine is up, and once the binlog reader has
    delivered every record and the apply queue has been flushed, the write transaction holds exactly the events of the
    whole binlog this process was given, in order, and its offset row covers all of them. (With a torn tail the
    current code does not restart at all: `torn_tail_restart_fails`.) -/
theorem restart_catches_up_partial (w r : Bool) (l : List (Bool × Nat × Nat)) (hl : ∀ x ∈ l, 0 < x.2.2) (ops : List Op)
    (hn : noTorn ops = true) :
    let s := run (fresh w r l) ops
    s.down = false ∧
    (s.rest = [] → flat s.aq = [] → s.tx.rows = evIds (allRecs s) ∧ ∀ rec ∈ allRecs s, rec.isEv = true → rec.eo ≤ s.tx.off) := by
  intro s
  refine ⟨engine_up_partial w r l ops hn, ?_⟩
  intro hrest hq
  have h : Inv s := run_inv ops _ (fresh_inv w r l hl)
  have e : allRecs s = s.done := by simp [allRecs, hrest, hq]
  rw [e]
  exact ⟨h.1.i2, h.1.i3⟩

/-! ### closed form of the restart (contiguous binlog) -/

theorem fresh_ch (w r : Bool) (l : List (Bool × Nat × Nat)) (hl : ∀ x ∈ l, 0 < x.2.2) : Ch (fresh w r l) := ch_fresh w r l hl

/-- **the model's binlog is contiguous** — after every history the records the process knows (consumed, queued and not yet
    delivered) lie back to back from offset 0 to `len`, every one with positive length, and the committed offset, the
    offset row of the write transaction and the in-memory offset are record boundaries. This holds for the model's own
    writer (`writeOK`, replica `append`) and is kept by deliveries, queue flushes and crashes; that the REAL fsbinlog files
    are laid out like this is fsbinlog's contract (C18), checked here only by the correspondence runs. -/
theorem binlog_contiguous (w r : Bool) (l : List (Bool × Nat × Nat)) (hl : ∀ x ∈ l, 0 < x.2.2) (ops : List Op) :
    let s := run (fresh w r l) ops
    Chain 0 (allRecs s) ∧ total (allRecs s) = s.len ∧
    total (upTo s.com.off s.done) = s.com.off ∧ total (upTo s.tx.off s.done) = s.tx.off ∧ total s.done = s.dbo := by
  intro s
  obtain ⟨_, hc⟩ := run_inv_ch ops _ (fresh_inv w r l hl) (fresh_ch w r l hl)
  obtain ⟨c1, c2, c3, c4, c5, c6, c7⟩ := hc
  refine ⟨?_, ?_, c6, c5, c2⟩
  · show Chain 0 (s.done ++ flat s.aq ++ s.rest)
    rw [List.append_assoc, chain_append, chain_append, Nat.zero_add, c2]
    exact ⟨c1, c3, c4⟩
  · show total (s.done ++ flat s.aq ++ s.rest) = s.len
    rw [total_append, total_append, c2]; simpa [rpos] using c7

/-- **restart_catches_up** — after ANY history (writes, commits, earlier crashes and repairs …) kill the process at any
    moment, keeping the binlog up to any record boundary `d` between the fsynced offset and the written length
    (`crashOK`; no partial record after it — with one the current code does not restart, `torn_tail_restart_fails`),
    restart, let the reader re-deliver every record the database has not consumed (one per call), announce Commit(d)
    and become ready: the engine is up, nothing is left to deliver or queued, the database (write transaction) holds
    exactly the events of the durable binlog (every event ending at or before `d`, in binlog order), and the stored
    offset row and the in-memory offset both equal its end `d`. -/
theorem restart_catches_up (w r : Bool) (l : List (Bool × Nat × Nat)) (hl : ∀ x ∈ l, 0 < x.2.2) (ops : List Op) (d : Nat) :
    let s := run (fresh w r l) ops
    crashOK s d = true →
    let s' := run s (Op.crash d false :: (replayOps (keptRest s d) ++ [Op.commit d, Op.ready]))
    s'.tx.rows = evsUpTo (allRecs s) d ∧ s'.tx.off = d ∧ s'.dbo = d ∧
    s'.rest = [] ∧ s'.aq = [] ∧ s'.closed = false ∧ s'.down = false := by
  intro s hok s'
  have hich : Inv s ∧ Ch s := run_inv_ch ops _ (fresh_inv w r l hl) (fresh_ch w r l hl)
  obtain ⟨hi, hc⟩ := hich
  have hok' := hok
  simp only [crashOK, Bool.and_eq_true, decide_eq_true_eq] at hok'
  have hstep : (step s (Op.crash d false)).1 = crashStep s d := by simp [step, hok]
  have hi1 : Inv (crashStep s d) := by rw [← hstep]; exact step_inv hi _
  have hc1 : Ch (crashStep s d) := by rw [← hstep]; exact step_ch hi hc _
  have hA : allRecs (crashStep s d) = upTo d (allRecs s) :=
    allRecs_crash hc d (Nat.le_trans hi.1.i7a hok'.1.1)
  have hrd : Rd (upTo d (allRecs s)) d (crashStep s d) :=
    ⟨hi1, hc1, rfl, ⟨rfl, rfl, rfl⟩, hA, rfl⟩
  obtain ⟨hrd2, hrest2⟩ := replay_all (keptRest s d) _ _ (crashStep s d) hrd rfl
  have hfin := replay_finish hrd2 hrest2
  have hs' : s' = run (run (crashStep s d) (replayOps (keptRest s d))) [Op.commit d, Op.ready] := by
    show run s (Op.crash d false :: (replayOps (keptRest s d) ++ [Op.commit d, Op.ready])) = _
    rw [run, hstep, run_append]
  rw [← hs'] at hfin
  obtain ⟨fi, fc, foff, frest, faq, fall, flen, fcl, fdown⟩ := hfin
  have hdbo : s'.dbo = d := by
    have := fc.c7
    rw [frest, faq] at this
    simp [rpos, flat_nil, total_nil] at this
    rw [this, flen]
  refine ⟨?_, by rw [foff, hdbo], hdbo, frest, faq, fcl, fdown⟩
  have e : allRecs s' = s'.done := by simp [allRecs, frest, faq, flat_nil]
  rw [fi.1.i2, ← e, fall]
  rfl

/-- every acknowledged write is back after the restart of `restart_catches_up` (closed form, no "once caught up") -/
theorem acked_present_after_restart (w r : Bool) (l : List (Bool × Nat × Nat)) (hl : ∀ x ∈ l, 0 < x.2.2) (ops : List Op) (d : Nat) :
    let s := run (fresh w r l) ops
    crashOK s d = true →
    ∀ id ∈ s.ackedW, id ∈ (run s (Op.crash d false :: (replayOps (keptRest s d) ++ [Op.commit d, Op.ready]))).tx.rows := by
  intro s hok id hid
  have h := (restart_catches_up w r l hl ops d hok).1
  rw [h]
  have hi : Inv s := run_inv ops _ (fresh_inv w r l hl)
  obtain ⟨rec, hr, h1, h2, h3⟩ := hi.1.ack id hid
  have hok' := hok
  simp only [crashOK, Bool.and_eq_true, decide_eq_true_eq] at hok'
  exact mem_evIds.2 ⟨rec, mem_upTo.2 ⟨hr, Nat.le_trans h3 hok'.1.1⟩, h1, h2⟩

/-! ### restart with ARBITRARY chunking of the byte stream -/

theorem catch_up_from_rd {A : List Rec} {L : Nat} {s1 : St} (h : Rd A L s1) :
    let s' := run s1 (replayOps s1.rest ++ [Op.commit L, Op.ready])
    s'.tx.rows = evIds A ∧ s'.tx.off = L ∧ s'.dbo = L ∧ s'.rest = [] ∧ s'.aq = [] ∧ s'.closed = false ∧ s'.down = false := by
  intro s'
  obtain ⟨hrd2, hrest2⟩ := replay_all s1.rest _ _ s1 h rfl
  have hfin := replay_finish hrd2 hrest2
  have hs' : s' = run (run s1 (replayOps s1.rest)) [Op.commit L, Op.ready] := by
    show run s1 (replayOps s1.rest ++ [Op.commit L, Op.ready]) = _
    rw [run_append]
  rw [← hs'] at hfin
  obtain ⟨fi, fc, foff, frest, faq, fall, flen, fcl, fdown⟩ := hfin
  have hdbo : s'.dbo = L := by
    have := fc.c7
    rw [frest, faq] at this
    simp [rpos, flat_nil, total_nil] at this
    rw [this, flen]
  refine ⟨?_, by rw [foff, hdbo], hdbo, frest, faq, fcl, fdown⟩
  have e : allRecs s' = s'.done := by simp [allRecs, frest, faq, flat_nil]
  rw [fi.1.i2, ← e, fall]

/-- **restart_catches_up, any chunking** — as `restart_catches_up`, but the reader may first hand the byte stream over in
    ANY way: `del` is an arbitrary sequence of payloads cut anywhere (`dApplyBuf m`: the engine consumes the complete
    leading events, answers NotEnoughData / UnknownMagic for what follows and returns how far it got; the reader carries
    the rest over — also payloads that contain no complete event at all), whole-record payloads, skips of service records
    and periodic Commits of any offset, in any order and number. Whatever `del` was, the engine stays consistent (no
    record lost, duplicated or reordered: `Rd`), and as soon as the remaining records have been handed over (one per
    call here; a `del` that already delivered everything makes this part empty) and Commit(d)/ready arrive, the database
    holds exactly the events of the durable binlog in order and both offsets equal its end `d`. So the result does not
    depend on how the real fsbinlog reader happens to fill its buffer. -/
theorem restart_catches_up_any_chunking (w r : Bool) (l : List (Bool × Nat × Nat)) (hl : ∀ x ∈ l, 0 < x.2.2)
    (ops : List Op) (d : Nat) (del : List Op) (hdel : del.all isDelivery = true) :
    let s := run (fresh w r l) ops
    crashOK s d = true →
    let s1 := run s (Op.crash d false :: del)
    let s' := run s1 (replayOps s1.rest ++ [Op.commit d, Op.ready])
    Rd (upTo d (allRecs s)) d s1 ∧
    s'.tx.rows = evsUpTo (allRecs s) d ∧ s'.tx.off = d ∧ s'.dbo = d ∧
    s'.rest = [] ∧ s'.aq = [] ∧ s'.closed = false ∧ s'.down = false := by
  intro s hok s1 s'
  have hich : Inv s ∧ Ch s := run_inv_ch ops _ (fresh_inv w r l hl) (fresh_ch w r l hl)
  obtain ⟨hi, hc⟩ := hich
  have hok' := hok
  simp only [crashOK, Bool.and_eq_true, decide_eq_true_eq] at hok'
  have hstep : (step s (Op.crash d false)).1 = crashStep s d := by simp [step, hok]
  have hi1 : Inv (crashStep s d) := by rw [← hstep]; exact step_inv hi _
  have hc1 : Ch (crashStep s d) := by rw [← hstep]; exact step_ch hi hc _
  have hA : allRecs (crashStep s d) = upTo d (allRecs s) := allRecs_crash hc d (Nat.le_trans hi.1.i7a hok'.1.1)
  have hrd : Rd (upTo d (allRecs s)) d (crashStep s d) := ⟨hi1, hc1, rfl, ⟨rfl, rfl, rfl⟩, hA, rfl⟩
  have hs1 : s1 = run (crashStep s d) del := by
    show run s (Op.crash d false :: del) = _
    rw [run, hstep]
  have hrd1 : Rd (upTo d (allRecs s)) d s1 := by rw [hs1]; exact deliveries_rd del _ _ _ hrd hdel
  exact ⟨hrd1, catch_up_from_rd hrd1⟩

/-- progress of a cut payload: if it contains the first undelivered event completely, at least that event is consumed -/
theorem chunk_makes_progress (s : St) (m : Nat) (r : Rec) (t : List Rec) (hrest : s.rest = r :: t)
    (hev : r.isEv = true) (hm : r.ln ≤ m) : 0 < fitCount m s.rest := by
  rw [hrest]; exact fitCount_pos m r t hev hm

/-! ### readers, trace level -/

/-- the ghost list `ann` is exactly the offsets the binlog announced: an accepted `Commit(k)` appends `k` -/
theorem ann_records_commits (s : St) (k : Nat) (h : (s.closed || decide (s.len < k)) = false) :
    (step s (.commit k)).1.ann = s.ann ++ [k] := by
  simp only [step, h, Bool.false_eq_true, if_false]
  unfold commitStep
  split
  · rfl
  · split
    · simp only [flushQ, foldl_flush, flushed, notify, announce]
    · split <;> rfl

def DurAnn (s : St) : Prop := s.dur = 0 ∨ s.dur ∈ s.ann

theorem durAnn_step (s : St) (op : Op) (h : DurAnn s) : DurAnn (step s op).1 := by
  have hann : ∀ (t : St) (k : Nat), DurAnn t → DurAnn (announce t k) := by
    intro t k ht
    show max t.dur k = 0 ∨ max t.dur k ∈ t.ann ++ [k]
    by_cases hk : t.dur ≤ k
    · right; rw [Nat.max_eq_right hk]; simp
    · rw [Nat.max_eq_left (by omega)]
      rcases ht with ht | ht
      · left; exact ht
      · right; exact List.mem_append_left _ ht
  have hcs : ∀ (t : St) (k : Nat), DurAnn t → DurAnn (commitStep t k) := by
    intro t k ht
    have := hann t k ht
    unfold commitStep
    split
    · exact this
    · split
      · simp only [DurAnn, flushQ, foldl_flush, flushed, notify]; exact this
      · split
        · exact this
        · exact this
  cases op with
  | doOp i ln extra k =>
    simp only [step, doOp]
    split
    · exact h
    · cases k <;> simp only
      · simp only [doWrite]
        split
        · exact h
        · split
          · split
            · exact h
            · exact h
          · exact h
      all_goals first | exact h | (simp only [doRead]; split; exact h; exact h)
  | doNow i ln extra =>
    simp only [step, doNow]
    split
    · exact h
    · split
      · exact h
      · split
        · exact h
        · have := hcs (park (writeOK s i ln extra) i (s.dbo + plen ln) false) (s.dbo + plen ln + extra) h
          split
          · exact this
          · exact this
  | commit k => simp only [step]; split; exact h; exact hcs _ _ h
  | tx => simp only [step, txStep]; split; exact h; split; exact h; split; exact h; exact h
  | dApply n =>
    simp only [step, deliverApply]; split; exact h; split; exact h; split; exact h; exact h
  | dSkip n =>
    simp only [step, deliverSkip]; split; exact h; split; exact h; split; exact h; exact h
  | dApplyBuf m =>
    simp only [step, deliverBuf]; split; exact h; split; exact h; split; exact h; exact h
  | view => exact h
  | append l => simp only [step]; split; exact h; exact h
  | hold b => exact h
  | close =>
    simp only [step, closeStep]
    split
    · exact h
    · have : DurAnn (if s.repl then s else commitStep s s.len) := by
        split
        · exact h
        · exact hcs _ _ h
      have htail : ∀ t : St, DurAnn t →
          DurAnn (if t.dbo ≤ t.ci then ({ t with com := t.tx, closed := true }, "ok") else ({ t with closed := true }, "err")).1 := by
        intro t ht; split <;> exact ht
      exact htail _ this
  | crash d torn => simp only [step]; split; exact h; split; exact h; exact h
  | ready =>
    simp only [step, readyStep]; split
    · simp only [DurAnn, flushQ, foldl_flush, flushed]; exact h
    · exact h

theorem durAnn_run : ∀ (ops : List Op) (s : St), DurAnn s → DurAnn (run s ops) := by
  intro ops
  induction ops with
  | nil => intro s h; exact h
  | cons op t ih => intro s h; exact ih _ (durAnn_step s op h)

/-- **what readers observe, at any point of any schedule** — split any history at any `view` op: `before` is everything
    that happened up to the moment the View callback runs (writes, commits, crashes, restarts, other views, in any
    interleaving), `after` is whatever follows. The value the callback observes (`(step s .view).2`, the committed
    database `s.com`) is the application of the prefix of the binlog, as it is at that moment, that ends at the observed
    offset; that offset is 0 or at most an offset `k` the binlog had ALREADY announced through Commit (fsync done) during
    `before` (`s.ann` = the offsets of all Commits delivered so far); and the View itself changes nothing (it can be
    erased from the history). -/
theorem readers_observe_announced_prefix (w r : Bool) (l : List (Bool × Nat × Nat)) (hl : ∀ x ∈ l, 0 < x.2.2)
    (before after : List Op) :
    let s := run (fresh w r l) before
    (step s .view).2 = fmtDB s.com ∧
    s.com.rows = evsUpTo (allRecs s) s.com.off ∧
    (s.com.off = 0 ∨ ∃ k ∈ s.ann, s.com.off ≤ k) ∧
    run (fresh w r l) (before ++ .view :: after) = run (fresh w r l) (before ++ after) := by
  intro s
  have h : Inv s := run_inv before _ (fresh_inv w r l hl)
  have hd : DurAnn s := durAnn_run before _ (Or.inl rfl)
  refine ⟨rfl, (db_is_prefix w r l hl before).1, ?_, ?_⟩
  · rcases hd with hd | hd
    · left; have := h.1.i7a; omega
    · right; exact ⟨s.dur, hd, h.1.i7a⟩
  · rw [run_append, run_append]; rfl

/-! ### the wait queue: who is released by a binlog commit -/

theorem fresh_wq (w r : Bool) (l : List (Bool × Nat × Nat)) : WQ (fresh w r l) := wq_init _ _ _ _

/-- **released_only_when_covered** — after every history, whatever offset `k` (≥ the committed one) the binlog announces
    next: every call `binlogNotifyWaited(k)` releases is covered by `k` — a write's own end offset is ≤ k, and a READ
    (a Do that returned no event, parked behind the writes it found) has read the write transaction only up to an offset
    row ≤ k, so it returns no effect of an event that is not yet in the durable binlog. The calls that stay parked stay
    covered by the bookkeeping (`covered`). -/
theorem released_only_when_covered (w r : Bool) (l : List (Bool × Nat × Nat)) (hl : ∀ x ∈ l, 0 < x.2.2) (ops : List Op) (k : Nat) :
    let s := run (fresh w r l) ops
    s.ci ≤ k → (∀ wt ∈ released k s.waitQ, wt.off ≤ k) ∧ covered k (remaining k s.waitQ) := by
  intro s hk
  have hq : WQ s := run_wq ops _ (fresh_inv w r l hl) (fresh_wq w r l)
  obtain ⟨h1, h2, _⟩ := released_covered s.waitQ s.ci k hk hq.w1
  exact ⟨h1, h2⟩

/-- a read that finds parked calls is parked with the offset row it has read from -/
theorem read_parks_with_seen_offset (s : St) (id : Nat) (hb : busy s = false) (hw : s.wait = true) (hq : s.waitQ ≠ []) :
    (step s (.doOp id 0 0 .read)).1.waitQ = s.waitQ ++ [⟨id, s.tx.off, true⟩] := by
  have : s.waitQ.isEmpty = false := by cases h : s.waitQ with | nil => exact absurd h hq | cons _ _ => rfl
  simp [step, doOp, hb, doRead, hw, this, park]

/-- calls are parked only in WaitCommit mode, only on a master that has finished re-reading, and the newest offset row
    is covered by the parked writes -/
theorem parked_calls_context (w r : Bool) (l : List (Bool × Nat × Nat)) (hl : ∀ x ∈ l, 0 < x.2.2) (ops : List Op) :
    let s := run (fresh w r l) ops
    s.waitQ ≠ [] → s.wait = true ∧ s.repl = false ∧ s.q = false ∧ s.rest = [] ∧ s.tx.off ≤ bound s.ci s.waitQ := by
  intro s hne
  have hq : WQ s := run_wq ops _ (fresh_inv w r l hl) (fresh_wq w r l)
  obtain ⟨a, b, c, d⟩ := hq.w2 hne
  refine ⟨?_, c, a, b, d⟩
  cases hw : s.wait with
  | true => rfl
  | false => exact absurd (hq.w3 hw) hne

/-- **seeded change C17-r5-1 (release by compaction) breaks it** — WaitCommit master, writes 1 (ends at 36) and 2 (ends at 52)
    and then a read are parked; the read has seen the transaction up to 52. The binlog announces 36: the code releases
    write 1 only; the compacting variant also releases the read, which returns data of event 2 although the durable binlog
    ends at 36. -/
theorem release_by_compaction_uncovers_a_read :
    let s := run (fresh true false [(false, 0, 24)])
      [.dSkip 24, .commit 24, .ready, .doOp 1 12 0 .ok, .doOp 2 13 0 .ok, .doOp 3 0 0 .read]
    s.waitQ = [⟨1, 36, false⟩, ⟨2, 52, false⟩, ⟨3, 52, true⟩] ∧
    released 36 s.waitQ = [⟨1, 36, false⟩] ∧
    releasedCompacting 36 s.waitQ = [⟨1, 36, false⟩, ⟨3, 52, true⟩] ∧
    ¬ (∀ wt ∈ releasedCompacting 36 s.waitQ, wt.off ≤ 36) := by decide

/-! ### order of effects inside a write -/

/-- **the offset row is written strictly before the binlog append** — if the caller's context dies after the callback's
    own statements (so that the engine's `UPDATE __binlog_offset` fails), the write fails BEFORE anything reached the
    binlog: state unchanged, in particular the binlog (`allRecs`, `len`) and the in-memory offset. After the append
    nothing runs on the caller's context any more. (General form: `failed_do_leaves_nothing` with `failing … .ctxfail`.) -/
theorem offset_update_precedes_append (s : St) (id ln extra : Nat) :
    (step s (.doOp id ln extra .ctxfail)).1 = s ∧ failing s (.doOp id ln extra .ctxfail) = true :=
  ⟨failed_do_state s _ rfl, rfl⟩

/-- **seeded change C17-r5-2 (append first, offset row afterwards) breaks it** — the failed write's record stays in the
    binlog: the binlog is longer than the engine's offset, so every later write is refused ("append get wrong offset"),
    and a restart replays the event of the write that had reported an error. -/
theorem append_before_offset_update_leaves_record :
    let s := run (fresh true false [(false, 0, 24)]) [.dSkip 24, .commit 24, .ready, .doOp 1 12 0 .ok, .commit 36, .tx]
    let t := doWriteAppendFirstCtxFail s 2 12 0          -- Do(2) returned an error
    t.tx = s.tx ∧ t.dbo = s.dbo ∧ evIds (allRecs t) = [1, 2] ∧ evIds (allRecs s) = [1] ∧
    canWrite s = true ∧ canWrite t = false ∧ (step t (.doOp 3 12 0 .ok)).2 = "err dbo=36 asap=1" ∧
    (run t (Op.crash 48 false :: (replayOps (keptRest t 48) ++ [Op.commit 48, Op.ready]))).tx = ⟨[1, 2], 48⟩ := by decide

/-! ### the automatic savepoint and the shape of the callback's statements -/

/-- **a failing callback leaves nothing, whatever its statements look like** — the model has no statement shape: the
    engine opens the savepoint before the first modifying statement of any kind, so every failing write kind (callback
    error before or after its SQL, failing SQL, failing append, dead context) is the identity on the state. -/
theorem failed_callback_any_statement_shape (s : St) (id ln extra : Nat) (k : Kind) (hk : k ≠ .ok) (hr : k ≠ .read) :
    (step s (.doOp id ln extra k)).1 = s := by
  cases k <;> first | exact absurd rfl hk | exact absurd rfl hr | exact failed_do_state s _ rfl

/-- **seeded change C17-r6-1 (savepoint only for plain writes) breaks it** — a callback whose first statement is a
    CTE-prefixed INSERT (or DDL) and which then fails keeps its row: the write transaction holds row 2 although no event 2
    is in the binlog and the offset row did not move, so the database is no longer the application of a binlog prefix; the
    next commit shows it to readers and it survives a restart. With a plain first statement nothing is left. -/
theorem savepoint_only_for_plain_writes_keeps_failed_write :
    let s := run (fresh true false [(false, 0, 24)]) [.dSkip 24, .commit 24, .ready, .doOp 1 12 0 .ok, .commit 36]
    let t := failedCallbackSavepointOnlyForPlainWrites s 2 false
    (step s (.doOp 2 12 0 .cbfail)).1 = s ∧ failedCallbackSavepointOnlyForPlainWrites s 2 true = s ∧
    t.tx = ⟨[1, 2], 36⟩ ∧ evsUpTo (allRecs t) t.tx.off = [1] ∧ t.tx.rows ≠ evsUpTo (allRecs t) t.tx.off ∧
    (step t .tx).1.com = ⟨[1, 2], 36⟩ := by decide

/-! ### the commit timer and the durability modes -/

/-- **dbCommittedOffset ≤ binlogDurableOffset in every mode that has a binlog** — WaitCommit or NoWaitCommit, master or
    replica, after every history: the offset stored in the COMMITted database (what a reader and a crash image see) is
    at most the offset the binlog has fsynced and announced, and is covered by a Commit already delivered. SQLite is
    committed only by: the WaitCommit timer (after `binlogWaitDBSync`), a must-commit-now write in NoWaitCommit (parked
    until the binlog announces its offset), the delayed commit of `Engine.Commit` (offset ≥ engine offset) and Close
    (waits for the binlog) — never by a timer in NoWaitCommit mode, which does not exist (`nowait_has_no_timer`). -/
theorem committed_offset_le_durable (w r : Bool) (l : List (Bool × Nat × Nat)) (hl : ∀ x ∈ l, 0 < x.2.2) (ops : List Op) :
    let s := run (fresh w r l) ops
    s.com.off ≤ s.dur ∧ s.dur ≤ s.len ∧ (s.com.off = 0 ∨ ∃ k ∈ s.ann, s.com.off ≤ k) := by
  intro s
  have hp := db_is_prefix w r l hl ops
  exact ⟨hp.2.2.2.2.1, hp.2.2.2.2.2, (readers_observe_announced_prefix w r l hl ops []).2.2.1⟩

/-- in NoWaitCommit mode a tick of the CommitEvery timer changes nothing (OpenEngine does not start txLoop there) -/
theorem nowait_has_no_timer (s : St) (h : s.wait = false) : (step s .tx).1 = s := by
  simp only [step, txStep, h]
  split
  · rfl
  · simp

/-- **a timer that commits without waiting breaks the invariant** (seeded change C17-r3-2, `txStepNoWaitTimer`) — a
    NoWaitCommit master, one write whose event is still only in the binlog's buffer (announced prefix 24, event ends at
    36): the real code's tick does nothing; the seeded timer COMMITs, readers and a crash image then hold event 1 with
    offset 36 > 24 = everything the binlog has made durable. -/
theorem timer_without_wait_breaks_invariant :
    let s := run (fresh false false [(false, 0, 24)]) [.dSkip 24, .commit 24, .ready, .doOp 1 12 0 .ok]
    s.dur = 24 ∧ s.tx = ⟨[1], 36⟩ ∧ (step s .tx).1.com = ⟨[], 0⟩ ∧
    (txStepNoWaitTimer s).1.com = ⟨[1], 36⟩ ∧ ¬ ((txStepNoWaitTimer s).1.com.off ≤ (txStepNoWaitTimer s).1.dur) := by decide

/-! ### the "skip already applied bytes" branch of binlog_engine.go `apply` -/

/-- **apply_skip_branch_unreachable** — `impl.apply` reads the offset row inside the write transaction (`tx.off`) and takes
    its skip branch only if that value is larger than the in-memory offset (`dbOffset > offset`). In every reachable
    state the offset row is at most the in-memory offset, so whenever the binlog calls Apply the guard is false: the
    branch is dead under the engine's own invariants (the in-memory offset is loaded from that row at start and every
    code path writes the row with a value ≤ the offset it then stores). -/
theorem apply_skip_branch_unreachable (w r : Bool) (l : List (Bool × Nat × Nat)) (hl : ∀ x ∈ l, 0 < x.2.2) (ops : List Op) :
    let s := run (fresh w r l) ops
    ¬ (s.dbo < s.tx.off) := by
  intro s
  have h : Inv s := run_inv ops _ (fresh_inv w r l hl)
  have := h.1.i6b
  omega

/-! ### replica mode (Apply queueing while a commit is awaited, Commit-triggered flush, Skip) -/

theorem repl_step (s : St) (op : Op) : (step s op).1.repl = s.repl := by
  have hcs : ∀ (t : St) (k : Nat), (commitStep t k).repl = t.repl := by
    intro t k
    unfold commitStep
    split
    · rfl
    · split
      · simp only [flushQ, foldl_flush, flushed, notify, announce]
      · split <;> rfl
  cases op with
  | doOp i ln extra k =>
    simp only [step, doOp]
    split
    · rfl
    · cases k <;> simp only
      · simp only [doWrite]
        split
        · rfl
        · split
          · split <;> rfl
          · rfl
      all_goals first | rfl | (simp only [doRead]; split <;> rfl)
  | doNow i ln extra =>
    simp only [step, doNow]
    split
    · rfl
    · split
      · rfl
      · split
        · rfl
        · have := hcs (park (writeOK s i ln extra) i (s.dbo + plen ln) false) (s.dbo + plen ln + extra)
          split
          · exact this
          · exact this
  | commit k => simp only [step]; split; rfl; exact hcs _ _
  | tx => simp only [step, txStep]; split; rfl; split; rfl; split <;> rfl
  | dApply n => simp only [step, deliverApply]; split; rfl; split; rfl; split <;> rfl
  | dSkip n => simp only [step, deliverSkip]; split; rfl; split; rfl; split <;> rfl
  | dApplyBuf m => simp only [step, deliverBuf]; split; rfl; split; rfl; split <;> rfl
  | view => rfl
  | append l => simp only [step]; split <;> rfl
  | hold b => rfl
  | close =>
    simp only [step, closeStep]
    split
    · rfl
    · have : (if s.repl then s else commitStep s s.len).repl = s.repl := by
        split
        · rfl
        · exact hcs _ _
      have htail : ∀ t : St,
          (if t.dbo ≤ t.ci then ({ t with com := t.tx, closed := true }, "ok") else ({ t with closed := true }, "err")).1.repl = t.repl := by
        intro t; split <;> rfl
      rw [htail]; exact this
  | crash d torn => simp only [step]; split; rfl; split <;> rfl
  | ready =>
    simp only [step, readyStep]; split
    · simp only [flushQ, foldl_flush, flushed]
    · rfl

theorem repl_run : ∀ (ops : List Op) (s : St), (run s ops).repl = s.repl := by
  intro ops
  induction ops with
  | nil => intro s; rfl
  | cons op t ih => intro s; rw [run, ih, repl_step]

/-- **replica: db_is_prefix / readers never ahead, trace level** — an engine opened as a replica, after every history:
    it stays a replica and never appends to the binlog itself (a write callback that returns bytes is refused and changes
    nothing); what readers see and what the write transaction holds are the binlog prefixes their offset rows mark and
    the committed offset is inside the prefix the binlog announced through Commit; events are parked in the apply queue
    only while a binlog commit is awaited (`ci < dbo`), and parked events are in neither database state (they end
    beyond both offset rows). -/
theorem replica_db_is_prefix (w : Bool) (l : List (Bool × Nat × Nat)) (hl : ∀ x ∈ l, 0 < x.2.2) (ops : List Op) :
    let s := run (fresh w true l) ops
    s.repl = true ∧ (∀ id ln extra, failing s (.doOp id ln extra .ok) = true) ∧
    s.com.rows = evsUpTo (allRecs s) s.com.off ∧ s.tx.rows = evsUpTo (allRecs s) s.tx.off ∧ s.com.off ≤ s.dur ∧
    (∀ id ∈ s.com.rows, ∃ rec ∈ allRecs s, rec.isEv = true ∧ rec.id = id ∧ rec.eo ≤ s.dur) ∧
    (s.q = true → s.ci < s.dbo) ∧ (∀ rec ∈ flat s.aq, s.tx.off < rec.eo ∧ s.com.off < rec.eo) := by
  intro s
  have hr : s.repl = true := repl_run ops _
  have h : Inv s := run_inv ops _ (fresh_inv w true l hl)
  have hp := db_is_prefix w true l hl ops
  refine ⟨hr, ?_, hp.1, hp.2.1, hp.2.2.2.2.1, view_never_ahead_of_binlog w true l hl ops, h.2, ?_⟩
  · intro id ln extra
    simp [failing, canWrite, hr]
  · intro rec hrec
    have := (h.1.ql rec hrec).1
    have := h.1.i6a
    have := h.1.i6b
    omega

/-- replica, one Apply while a commit is awaited: the payload is parked, neither database state changes, the returned
    offset advances by the payload length -/
theorem replica_apply_is_parked (s : St) (n : Nat) (hb : badApply s n = false) (hr : readerOK s n = true)
    (hq : queueCond s = true) :
    (deliverApply s n).1.tx = s.tx ∧ (deliverApply s n).1.com = s.com ∧ (deliverApply s n).1.dbo = s.dbo ∧
    (deliverApply s n).1.q = true ∧ (deliverApply s n).1.aq = s.aq ++ [.body (s.rest.take n)] := by
  rw [deliverApply_eq hb hr, if_pos hq]
  exact ⟨rfl, rfl, rfl, rfl, rfl⟩

/-- replica, `Commit(k)` while events are parked: if `k` covers the engine offset the transaction is COMMITted exactly as
    it was before the parked events (so readers see the state at offset ≤ k), then all parked payloads and skips are
    applied in order; otherwise nothing is committed or applied and the queue stays. -/
theorem replica_commit_flushes (s : St) (hi : Inv s) (k : Nat) (hq : s.q = true) :
    (s.dbo ≤ k → (commitStep s k).com = s.tx ∧ (commitStep s k).q = false ∧ (commitStep s k).aq = [] ∧
        (commitStep s k).tx.rows = s.tx.rows ++ evIds (flat s.aq) ∧ (commitStep s k).done = s.done ++ flat s.aq ∧
        (commitStep s k).dbo = s.dbo + total (flat s.aq)) ∧
    (k < s.dbo → (commitStep s k).com = s.com ∧ (commitStep s k).tx = s.tx ∧ (commitStep s k).q = true ∧
        (commitStep s k).aq = s.aq) := by
  have hci := hi.2 hq
  constructor
  · intro hk
    have h1 : ¬ k < s.ci := by omega
    have h2 : delayedCommit s k = true := by simp [delayedCommit, hq, hk]
    unfold commitStep
    simp only [h1, if_false, h2, if_true, flushQ, foldl_flush, flushed, notify, announce]
    refine ⟨trivial, trivial, trivial, ?_, trivial, trivial⟩
    show s.tx.rows ++ itemsIds s.aq = s.tx.rows ++ evIds (flat s.aq)
    rw [itemsIds_eq _ hi.1.qs]
  · intro hk
    have h2 : delayedCommit s k = false := by simp [delayedCommit, hq]; omega
    unfold commitStep
    split
    · exact ⟨rfl, rfl, hq, rfl⟩
    · by_cases hp : parkedCommit s k = true
      · simp [parkedCommit] at hp; omega
      · have hp' : parkedCommit s k = false := by simpa using hp
        simp only [h2, hp', Bool.false_eq_true, if_false, notify, announce]
        exact ⟨trivial, trivial, hq, trivial⟩

/-! ### non-vacuity: concrete histories (evaluated by the kernel) -/

/-- wait-for-commit master: LevStart skipped, two writes (the second followed by a 20-byte crc record), binlog commit
    of the first only, a commit timer tick that must park, the commit that releases it, a third write, then a crash
    that keeps the binlog up to 72 (third write lost), replay, final commit, ready -/
def demoOps : List Op :=
  [.dSkip 24, .commit 24, .ready, .doOp 1 12 0 .ok, .doOp 2 13 20 .ok, .commit 36, .tx, .commit 72,
   .doOp 3 12 0 .cbfail, .doOp 4 12 0 .ok, .crash 72 false, .dApply 1, .dSkip 20, .commit 72, .ready]

example : noTorn demoOps = true := by decide
example : (run (fresh true false [(false, 0, 24)]) (demoOps.take 7)).ptx = true := by decide
example : (run (fresh true false [(false, 0, 24)]) (demoOps.take 7)).ackedW = [1] := by decide
example : (run (fresh true false [(false, 0, 24)]) (demoOps.take 8)).com = ⟨[1, 2], 52⟩ := by decide
example : (run (fresh true false [(false, 0, 24)]) (demoOps.take 8)).ackedW = [1, 2] := by decide
example : (run (fresh true false [(false, 0, 24)]) (demoOps.take 10)).tx = ⟨[1, 2, 4], 84⟩ := by decide
-- the crash image is the committed state; the replay starts at the stored offset 52 and re-delivers the crc record
example : (run (fresh true false [(false, 0, 24)]) (demoOps.take 11)).rest.map (·.eo) = [72] := by decide
example : let s := run (fresh true false [(false, 0, 24)]) demoOps
    s.rest = [] ∧ flat s.aq = [] ∧ s.tx = ⟨[1, 2], 72⟩ ∧ s.ackedW = [1, 2] ∧ s.dbo = 72 := by decide
example : failing (run (fresh true false [(false, 0, 24)]) (demoOps.take 8)) (.doOp 3 12 0 .cbfail) = true := by decide
-- a restart with a non-empty database queues the replayed payloads until the binlog's Commit, then flushes them
def demoOps2 : List Op :=
  [.dSkip 24, .commit 24, .ready, .doOp 1 12 0 .ok, .commit 36, .tx, .doOp 2 12 0 .ok, .crash 48 false, .dApply 1]
example : let s := run (fresh true false [(false, 0, 24)]) demoOps2
    s.q = true ∧ s.tx = ⟨[1], 36⟩ ∧ s.aqOff = 48 := by decide

-- closed-form restart on the demo history: crash keeping the binlog up to 72, canonical replay, Commit(72), ready
example : crashOK (run (fresh true false [(false, 0, 24)]) (demoOps.take 10)) 72 = true := by decide
example : crashOK (run (fresh true false [(false, 0, 24)]) (demoOps.take 10)) 70 = false := by decide   -- not a record boundary
example : replayOps (keptRest (run (fresh true false [(false, 0, 24)]) (demoOps.take 10)) 72) = [.dSkip 20] := by decide
-- a kill while the commit timer is parked behind the binlog (ptx) is a legal crash point
example : let s := run (fresh true false [(false, 0, 24)]) (demoOps.take 7)
    s.ptx = true ∧ crashOK s 36 = true ∧ crashOK s 72 = true := by decide
-- arbitrary chunking: three unsynced-to-SQLite writes, kill, then the reader cuts the stream at 20 bytes (event 1 + 8 bytes
-- of event 2), then hands over 8 bytes that hold no complete event, commits its position, then the rest in one payload
def chunkOps : List Op :=
  [.dSkip 24, .commit 24, .ready, .doOp 1 12 0 .ok, .doOp 2 13 0 .ok, .doOp 3 12 0 .ok, .commit 64]
def chunkDel : List Op := [.dSkip 24, .dApplyBuf 20, .dApplyBuf 8, .commit 36, .dApplyBuf 28]
example : chunkDel.all isDelivery = true := by decide
example : crashOK (run (fresh true false [(false, 0, 24)]) chunkOps) 64 = true := by decide
example : let s := run (fresh true false [(false, 0, 24)]) (chunkOps ++ [.crash 64 false, .dSkip 24, .dApplyBuf 20])
    s.q = true ∧ s.rest.map (·.id) = [2, 3] ∧ (step s (.dApplyBuf 8)).2 = "ret=36 e=short" := by decide
example : let s := run (fresh true false [(false, 0, 24)]) (chunkOps ++ Op.crash 64 false :: chunkDel)
    s.rest = [] ∧ s.tx = ⟨[1, 2, 3], 64⟩ ∧ s.com = ⟨[], 24⟩ := by decide
-- a reader looking at that moment sees the state committed at offset 24, announced by Commit(24) (and 36, 64)
example : let s := run (fresh true false [(false, 0, 24)]) (chunkOps ++ Op.crash 64 false :: chunkDel)
    (step s .view).2 = "-@24" ∧ s.ann = [24, 64, 36] := by decide

-- replica: payloads parked while a commit is awaited, flushed by the Commit that covers the engine offset
def replOps : List Op :=
  [.ready, .append [(true, 1, 12), (true, 2, 16)], .dApply 2, .append [(true, 3, 12)], .dApply 1, .append [(false, 0, 20)], .dSkip 20]
example : let s := run (fresh false true []) replOps
    s.q = true ∧ s.tx = ⟨[1, 2], 28⟩ ∧ s.com = ⟨[], 0⟩ ∧ s.dbo = 28 ∧ s.aqOff = 60 ∧ queueCond s = true := by decide
example : let s := run (fresh false true []) (replOps ++ [.commit 28])
    s.com = ⟨[1, 2], 28⟩ ∧ s.tx = ⟨[1, 2, 3], 60⟩ ∧ s.q = false ∧ s.dbo = 60 := by decide
example : let s := run (fresh false true []) (replOps ++ [.commit 20])
    s.com = ⟨[], 0⟩ ∧ s.tx = ⟨[1, 2], 28⟩ ∧ s.q = true := by decide
example : failing (run (fresh false true []) replOps) (.doOp 9 12 0 .ok) = true := by decide

/-! ### known finding restart-failed-torn-tail -/

/-- **a torn binlog tail makes the restart fail (current code)** — write 1 is acknowledged in wait-for-commit mode, the
    process is killed inside its next binlog write (the last file ends with a partial record): OpenEngine fails
    (`open-error`, `down`), so the acknowledged write is not available although its event is durable in the binlog;
    the same kill without the partial record restarts and holds the write. This is why the restart theorems above carry
    the hypothesis `noTorn`. -/
theorem torn_tail_restart_fails :
    let s := run (fresh true false [(false, 0, 24)]) [.dSkip 24, .commit 24, .ready, .doOp 1 12 0 .ok, .commit 36, .doOp 2 12 0 .ok]
    s.ackedW = [1] ∧ s.down = false ∧
    (step s (.crash 36 true)).2 = "open-error" ∧ (step s (.crash 36 true)).1.down = true ∧
    (step s (.crash 36 true)).1.closed = true ∧
    (run s [.crash 36 false, .dSkip 24, .dApply 1, .commit 36, .ready]).tx = ⟨[1], 36⟩ ∧
    (run s [.crash 36 false, .dSkip 24, .dApply 1, .commit 36, .ready]).down = false := by decide

/-! #### the other side of the torn-tail design space: accepting the longer file (seeded change C17-r2-2)

  If `initChunk` merely accepted a file that is longer than the reader's position, the writer (O_APPEND) would put every
  new record physically BEHIND the torn bytes while all logical offsets (buffer, Commit, `__binlog_offset`) continue
  from the reader's position. The engine would look healthy (logically it behaves like `stepFixed`), acknowledge the new
  writes after their fsync — and the next re-read of the file would parse the torn header, take the following bytes as
  its body and never deliver the acknowledged event. `reread` below is that physical re-read. -/

/-- bytes a torn header still wants are taken from the records written behind it; `none` = the stream ends inside a
    record (the rest is garbage / NotEnoughData: the reader stops there) -/
def swallow : Nat → List Rec → Option (List Rec)
  | 0, l => some l
  | _, [] => none
  | n + 1, r :: t => if r.ln ≤ n + 1 then swallow (n + 1 - r.ln) t else none

/-- physical re-read of a file = complete records `pre`, then a record `p` of which only `k < p.ln` bytes reached the
    disk, then the records `behind` appended after it -/
def reread (pre : List Rec) (p : Rec) (k : Nat) (behind : List Rec) : List Nat :=
  evIds pre ++ (match swallow (p.ln - k) behind with
    | some rest => evIds [p] ++ evIds rest
    | none => [])

/-- **why accepting the longer file is wrong** — write 1 is acknowledged and committed; write 2 (28 bytes) is cut by a
    kill after its 12-byte header; the engine restarts as if the tail were not there (`stepFixed` logic = accept),
    write 3 (16 bytes) is appended, fsynced, announced and ACKNOWLEDGED, and logically everything is fine
    (`tx = [1, 3]`). But the file now holds record 1, the 12 torn bytes of 2, then 3: re-reading it delivers event 1 and
    a phantom event 2 whose body is record 3 — the acknowledged write 3 is swallowed, a never-acknowledged write appears.
    Refusing to start (current code, known finding) or cutting the tail off before writing (unapplied patch) are the
    only sound choices; appending behind the tail is not. -/
theorem append_behind_torn_tail_loses_acked :
    let s0 := run (fresh true false [(false, 0, 24)])
      [.dSkip 24, .commit 24, .ready, .doOp 1 12 0 .ok, .commit 36, .tx, .doOp 2 28 0 .ok]
    let s1 := (stepFixed s0 (.crash 36 true)).1                    -- the kill tore write 2; the longer file is accepted
    let s2 := run s1 [.commit 36, .ready, .doOp 3 16 0 .ok, .commit 52]   -- write 3 appended behind the torn bytes
    s2.ackedW = [1, 3] ∧ s2.tx = ⟨[1, 3], 52⟩ ∧ s2.down = false ∧
    reread [⟨false, 0, 24, 24⟩, ⟨true, 1, 12, 36⟩] ⟨true, 2, 28, 64⟩ 12 [⟨true, 3, 16, 52⟩] = [1, 2] ∧
    3 ∉ reread [⟨false, 0, 24, 24⟩, ⟨true, 1, 12, 36⟩] ⟨true, 2, 28, 64⟩ 12 [⟨true, 3, 16, 52⟩] := by decide

/-- a replica opens no binlog writer: a torn tail does not stop it -/
example : (step (run (fresh false true []) [.ready]) (.crash 0 true)).1.down = false := by decide

/-- documented alternative, NOT the code (`stepFixed` = fixes/C17-binlog-torn-tail.diff, not applied): if the writer cut
    the torn tail off, a torn tail would make no difference to the restart -/
theorem torn_tail_cut_by_unapplied_patch (s : St) (d : Nat) : stepFixed s (.crash d true) = stepFixed s (.crash d false) := rfl

end SH.Engine
