/-
  C13 — All client wire formats decode the same batch identically and safely.

  "A metrics batch encoded as TL, JSON, MessagePack or Protobuf is decoded into the same sequence of metrics
   (name, tags, counter, timestamp, values, uniques, histogram), and the format is detected from the first bytes as
   documented. Decoding arbitrary bytes never panics or hangs; it either yields metrics or reports a parse error."
  Quantifier: all batches of metrics with arbitrary field combinations, and all byte strings.

  Model: SH.Model.Wire (parser.parse, the TL / MessagePack / Protobuf readers, the canonical client encoders).
  `Variant.fixed` = the tree with fixes/C13-msgpack-alloc.diff and fixes/C13-protobuf-unique.diff applied,
  `Variant.orig`  = the pinned tree. The model's decoders AND encoders are tied to the real code by the
  correspondence run of checks/C13.py (ops `dec` and `enc`).

  What is proved here, and what is not:
    * TL: full round trip for every well-formed batch, through parser.parse (tl_roundtrip, parse_tl, parse_tl_two).
    * detection from the first bytes for every encoder output and the converse first-byte characterisation.
    * safety: every function of the model is total (Lean's termination check: no partial def, no unsafe) — that is the
      "never panics" half for the modelled code; on top of that: the MessagePack decoder never asks `make` for more
      elements than the packet has bytes (msgpack_alloc_bounded; false on the pinned tree, orig_alloc_unbounded), and
      no TL or MessagePack reader ever reports fuel exhaustion and their batch loops terminate by consuming input
      (tl_loop_terminates, msgpack_loop_terminates), the Protobuf loops and the group skipper have enough fuel
      (pb_terminates), hence parse_terminates for ALL packets.
    * TCP framing: deframe ∘ frame = id for all bodies within the bound, and arbitrary chunking of the stream does not
      matter when the read buffer holds header + largest body (tcp_*); false for a smaller buffer (witness).
    * MessagePack and Protobuf round trips for ALL well-formed batches (msgpack_roundtrip, pb_roundtrip, with the varint
      round trip and the unpacked value/unique layouts), hence all_formats_agree at full strength for TL+MessagePack+
      Protobuf. JSON is outside the model (correspondence / oracle only).
-/
import SH.Lemmas.Wire
import SH.Lemmas.WireMP
import SH.Lemmas.WirePB4
import SH.Lemmas.WireFuel
import SH.Lemmas.WirePBFuel
import SH.Lemmas.WireAlloc
import SH.Gen.C13

namespace SH.Props.C13
open SH.Wire

/-! ## TL: every well-formed batch survives encode → parser.parse unchanged -/

/-- The TL reader applied to the TL encoding of a batch (followed by anything) returns exactly that batch and the rest. -/
theorem tl_roundtrip (ms : List Metric) (hn : ms.length < 2 ^ 32) (hw : ∀ m ∈ ms, m.WF) (rest : Bytes) :
    tlBatch (tlEncBatch ms ++ rest) = .ok (ms, rest) :=
  tlBatch_enc ms hn hw rest

/-- parser.parse on a TL packet: detected as TL, every metric delivered in order with every field intact, no error. -/
theorem parse_tl (v : Variant) (ms : List Metric) (hn : ms.length < 2 ^ 32) (hw : ∀ m ∈ ms, m.WF) :
    parse v (tlEncBatch ms) = { fmt := .tl, delivered := ms } := by
  have hd := detect_tlEnc ms
  have hne : tlEncBatch ms ≠ [] := by
    intro h; rw [h] at hd; exact absurd hd (by decide)
  have hdec : (fun b => (⟨0, tlBatch b⟩ : MPR (List Metric))) (tlEncBatch ms) = ⟨0, .ok (ms, [])⟩ := by
    have := tlBatch_enc ms hn hw []
    simp only [List.append_nil] at this
    simp [this]
  obtain ⟨n, hlen⟩ : ∃ n, (tlEncBatch ms).length + 1 = n + 2 := by
    cases h : tlEncBatch ms with
    | nil => exact absurd h hne
    | cons x xs => exact ⟨xs.length, by simp⟩
  unfold parse
  rw [hd]
  simp only []
  rw [hlen, batchLoop_one _ _ _ ms 0 n hne hdec]
  rfl

/-- Several TL batches in one packet (UDP clients do that): all metrics of all batches are delivered, in order. -/
theorem parse_tl_two (v : Variant) (ms ms' : List Metric) (hn : ms.length < 2 ^ 32) (hw : ∀ m ∈ ms, m.WF)
    (hn' : ms'.length < 2 ^ 32) (hw' : ∀ m ∈ ms', m.WF) :
    (parse v (tlEncBatch ms ++ tlEncBatch ms')).delivered = ms ++ ms' ∧
    (parse v (tlEncBatch ms ++ tlEncBatch ms')).err = none := by
  have hd1 := detect_tlEnc ms
  have hne1 : tlEncBatch ms ≠ [] := by intro h; rw [h] at hd1; exact absurd hd1 (by decide)
  have hd2 := detect_tlEnc ms'
  have hne2 : tlEncBatch ms' ≠ [] := by intro h; rw [h] at hd2; exact absurd hd2 (by decide)
  have hdet : detect (tlEncBatch ms ++ tlEncBatch ms') = .tl := by
    have h4 : (tlEncBatch ms ++ tlEncBatch ms').take 4 = tlPrefix := by
      unfold tlEncBatch; simp only [List.append_assoc]; rw [take_le_append]; decide
    have hne : tlEncBatch ms ++ tlEncBatch ms' ≠ [] := by simp [hne1]
    simp [detect, hne, h4]
  have e1 := tlBatch_enc ms hn hw (tlEncBatch ms')
  have e2 := tlBatch_enc ms' hn' hw' []
  simp only [List.append_nil] at e2
  obtain ⟨n, hlen⟩ : ∃ n, (tlEncBatch ms ++ tlEncBatch ms').length + 1 = n + 3 := by
    cases h1 : tlEncBatch ms with
    | nil => exact absurd h1 hne1
    | cons x xs =>
      cases h2 : tlEncBatch ms' with
      | nil => exact absurd h2 hne2
      | cons y ys => exact ⟨xs.length + ys.length, by simp; omega⟩
  unfold parse
  rw [hdet]
  simp only []
  rw [hlen]
  have hne : tlEncBatch ms ++ tlEncBatch ms' ≠ [] := by simp [hne1]
  simp [batchLoop, hne, hne2, e1, e2]

/-- non-vacuity of `Metric.WF`: a metric with every optional field, and one with none -/
def mFull : Metric :=
  { mask := 31, name := [109, 49], tags := [([101, 110, 118], [112, 114, 111, 100]), ([49], [])],
    counter := 0x4008000000000000, ts := 1700000000, value := [0x3ff0000000000000, 0xfff8000000000001],
    unique := [5, 2 ^ 64 - 1, 2 ^ 63], hist := [(0x4000000000000000, 0x3ff0000000000000)] }
def mBare : Metric := { name := [120] }

theorem mFull_wf : mFull.WF := by
  constructor <;> simp [mFull, hasBit] <;> decide
theorem mBare_wf : mBare.WF := by
  constructor <;> simp [mBare, hasBit]

example : parse .fixed (tlEncBatch [mFull, mBare]) = { fmt := .tl, delivered := [mFull, mBare] } :=
  parse_tl _ _ (by decide) (by intro m hm; simp at hm; rcases hm with rfl | rfl; exact mFull_wf; exact mBare_wf)

/-! ## the format is detected from the first bytes, as documented in receiver.go -/

/-- a TL batch (first bytes 39 02 58 56) is handled as TL -/
theorem detect_tl (ms : List Metric) : detect (tlEncBatch ms) = .tl := detect_tlEnc ms

/-- a MessagePack batch (a map: first byte 0x81) is handled as MessagePack -/
theorem detect_msgpack (ms : List Metric) : detect (mpEncBatch ms) = .msgpack := by
  have : mpEncBatch ms = 0x81 :: (mpEncStr kMetrics ++ mpEncHdr false ms.length ++ catMap mpEncMetric ms) := by
    simp [mpEncBatch, mpEncHdr]
  rw [this]
  simp [detect, tlPrefix, mpLooksLikeMap, mpMapHdr]

theorem pbEncTag_metrics : pbEncTag 13337 2 = [0xca, 0xc1, 0x06] := by decide

/-- a non-empty Protobuf batch (field 13337, first bytes CA C1 06) is handled as Protobuf: 0xCA is neither a TL, JSON
    or legacy prefix nor a MessagePack map -/
theorem detect_pb (m : Metric) (ms : List Metric) : detect (pbEncBatch (m :: ms)) = .pb := by
  have : pbEncBatch (m :: ms) = 0xca :: ([0xc1, 0x06] ++ pbEncV (pbEncMetric m).length ++ pbEncMetric m
      ++ catMap (fun m => pbEncLen 13337 (pbEncMetric m)) ms) := by
    simp [pbEncBatch, catMap, pbEncLen, pbEncTag_metrics]
  rw [this]
  simp [detect, tlPrefix, mpLooksLikeMap, mpMapHdr, mpBadPrefix]

/-- an empty Protobuf batch is the empty packet: counted as "empty", nothing delivered (proto3 has no other encoding) -/
theorem detect_pb_empty (v : Variant) : parse v (pbEncBatch []) = { fmt := .empty } := rfl

/-- converse direction: which first bytes select which decoder (the comment block at the top of receiver.go) -/
theorem detect_json_iff (pkt : Bytes) : detect pkt = .json ↔ pkt.take 1 = [0x7b] := by
  unfold detect
  by_cases h0 : pkt = []
  · simp [h0]
  · by_cases h1 : pkt.take 4 = tlPrefix
    · have : pkt.take 1 ≠ [0x7b] := by
        intro h
        have : (pkt.take 4).take 1 = [0x7b] := by rw [List.take_take]; simpa using h
        rw [h1] at this; exact absurd this (by decide)
      simp [h0, h1, this]
    · by_cases h2 : pkt.take 1 = [0x7b]
      · simp [h0, h1, h2]
      · simp only [h0, h1, h2, if_false]
        constructor
        · intro h; split at h
          · cases h
          · split at h <;> cases h
        · intro h; exact absurd h (by simp)

theorem detect_tl_iff (pkt : Bytes) : detect pkt = .tl ↔ pkt.take 4 = tlPrefix := by
  unfold detect
  by_cases h0 : pkt = []
  · subst h0; simp [tlPrefix]
  · by_cases h1 : pkt.take 4 = tlPrefix
    · simp [h0, h1]
    · simp only [h0, h1, if_false]
      constructor
      · intro h
        split at h
        · cases h
        · split at h
          · cases h
          · split at h <;> cases h
      · intro h; exact absurd h (by simp)

/-- MessagePack is chosen only for a packet that starts with a map header: fixmap 0x80–0x8f, map16 0xde, map32 0xdf -/
theorem detect_msgpack_first_byte (pkt : Bytes) (h : detect pkt = .msgpack) :
    ∃ lead r, pkt = lead :: r ∧ (lead / 16 = 8 ∨ lead = 0xde ∨ lead = 0xdf) := by
  cases pkt with
  | nil => simp [detect] at h
  | cons lead r =>
    refine ⟨lead, r, rfl, ?_⟩
    unfold detect at h
    split at h
    · cases h
    · split at h
      · cases h
      · split at h
        · cases h
        · split at h
          · cases h
          · split at h
            · rename_i hm
              simp only [mpLooksLikeMap, mpMapHdr] at hm
              by_cases a : lead / 16 = 8
              · exact Or.inl a
              · by_cases b : lead = 0xde
                · exact Or.inr (Or.inl b)
                · by_cases c : lead = 0xdf
                  · exact Or.inr (Or.inr c)
                  · simp [a, b, c] at hm
            · cases h

/-! ## safety -/

/-- For every byte string, every element count the (fixed) MessagePack decoder passes to `make` is at most the packet
    length: the allocation is linear in the input, a short packet cannot ask for gigabytes. -/
theorem msgpack_alloc_bounded (pkt : Bytes) : (parse .fixed pkt).alloc ≤ pkt.length := by
  unfold parse
  split
  all_goals (try exact Nat.zero_le _)
  · rw [batchLoop_alloc_zero (fun b => ⟨0, tlBatch b⟩) .tl (fun _ => rfl)]; exact Nat.zero_le _
  · exact batchLoop_alloc (mpBatch .fixed) .msgpack pkt.length (fun b => mpBatch_good .fixed rfl b) _ _ _ _
      (Nat.zero_le _) (Nat.le_refl _)
  · split <;> exact Nat.zero_le _

/-- The pinned tree violates it: the 14-byte packet  81 a7 "metrics" dd ff ff ff ff  makes the decoder call
    make([]MetricBytes, 4294967295) (≈ 700 GB) — `fatal error: out of memory`, reproduced by the harness. -/
def bomb14 : Bytes := [0x81, 0xa7, 109, 101, 116, 114, 105, 99, 115, 0xdd, 0xff, 0xff, 0xff, 0xff]

theorem orig_alloc_unbounded : bomb14.length = 14 ∧ (parse .orig bomb14).alloc = 2 ^ 32 - 1 := by decide

/-- the same packet after the fix: rejected as too short, nothing allocated -/
example : parse .fixed bomb14 = { fmt := .msgpack, err := some .short, perr := true, alloc := 0 } := by decide

/-- msgp.Skip (the only fuel-driven part of the MessagePack decoder) never runs out of fuel: every object takes at
    least one byte, so `len+1` recursion steps always suffice — Skip terminates on every input. -/
theorem msgpack_skip_terminates (b : Bytes) : mpSkip b ≠ .error .fuel :=
  mpSkipN_fuel _ _ _ _ (Nat.lt_succ_self _)

/-- The TL batch loop of parse terminates by consuming input: every successful ReadTL1Boxed consumes at least its
    4-byte tag, no TL reader has (or reports) fuel, so `len(pkt)+1` loop iterations always suffice. -/
theorem tl_loop_terminates (pkt : Bytes) (acc : List Metric) (a : Nat) :
    (batchLoop (fun b => ⟨0, tlBatch b⟩) .tl (pkt.length + 1) pkt acc a).err ≠ some .fuel :=
  batchLoop_fuel _ .tl (fun b y r h => tlBatch_strict b y r h) (fun b => tlBatch_nf b) _ _ _ _ (Nat.lt_succ_self _)

/-- The MessagePack batch loop terminates by consuming input; no MessagePack reader reports fuel exhaustion
    (msgp.Skip is the only one that has fuel: `len+1` units, proved sufficient). -/
theorem msgpack_loop_terminates (v : Variant) (hv : v.boundAlloc = true) (pkt : Bytes) (acc : List Metric) (a : Nat) :
    (batchLoop (mpBatch v) .msgpack (pkt.length + 1) pkt acc a).err ≠ some .fuel :=
  batchLoop_fuel (mpBatch v) .msgpack (fun b y r h => (mpBatch_good v hv b).2 y r h) (fun b => mpBatch_nf v b) _ _ _ _
    (Nat.lt_succ_self _)

/-- parse never ends by exhausting the model's fuel on any packet that is not handed to the Protobuf decoder
    (empty, TL, JSON-detected, legacy, MessagePack): fuel bounds `len+1` (batch loops) and `len+1` (Skip). -/
theorem parse_terminates_non_pb (v : Variant) (hv : v.boundAlloc = true) (pkt : Bytes) (h : detect pkt ≠ .pb) :
    (parse v pkt).err ≠ some .fuel := by
  unfold parse
  split
  · simp
  · simp
  · simp
  · exact tl_loop_terminates pkt [] 0
  · exact msgpack_loop_terminates v hv pkt [] 0
  · rename_i hd; exact absurd hd h

example : detect bomb14 ≠ .pb ∧ Variant.fixed.boundAlloc = true := by decide

/-- The Protobuf reader never exhausts its fuel: the field loops (batch, metric, map entry, centroid, packed varints)
    get `len+1` units and every iteration consumes at least the tag byte; the group skipper gets `2·len+2` units
    (simultaneous induction over consumeFieldValueD and its group loop, up to protowire's depth limit). -/
theorem pb_terminates (v : Variant) (pkt rest : Bytes) : pbBatch v (pkt.length + 1) [] pkt ≠ .error (.fuel, rest) :=
  pbBatch_nf v _ _ _ (Nat.lt_succ_self _) rest

/-- PARSE TERMINATES, for ALL packets (empty, TL, JSON-detected, legacy, MessagePack, Protobuf): the model never reports
    its own `fuel` exhaustion — with the fuel bounds it gives itself (`len+1` for every loop, `len+1` for msgp.Skip,
    `2·len+2` for protowire's group skipper) every loop of the decoders ends by consuming input or by a real error.
    Together with Lean's totality check this is the "never hangs" half of the property for the modelled code. -/
theorem parse_terminates (v : Variant) (hv : v.boundAlloc = true) (pkt : Bytes) : (parse v pkt).err ≠ some .fuel := by
  by_cases h : detect pkt = .pb
  · unfold parse
    rw [h]
    simp only []
    cases hb : pbBatch v (pkt.length + 1) [] pkt with
    | ok ms => simp
    | error p =>
      obtain ⟨e, rest⟩ := p
      simp only []
      intro he
      simp at he
      subst he
      exact pb_terminates v pkt rest hb
  · exact parse_terminates_non_pb v hv pkt h

/-- non-vacuity: the current code's variant satisfies the hypothesis; a deeply nested group packet is handled -/
example : Variant.fixed.boundAlloc = true := rfl
example : (parse .fixed [0x4b, 0x4b, 0x4b, 0x4c, 0x4c]).err = some .eof := by decide

theorem parse_terminates_partial (v : Variant) (hv : v.boundAlloc = true) (pkt : Bytes) (acc : List Metric) (a : Nat)
    (h : (batchLoop (mpBatch v) .msgpack (pkt.length + 1) pkt acc a).err = some .fuel) :
    ∃ b, (mpBatch v b).res = .error .fuel :=
  batchLoop_fuel_origin (mpBatch v) .msgpack (fun b y r h => (mpBatch_good v hv b).2 y r h) _ _ _ _
    (Nat.lt_succ_self _) h

/-- non-vacuity: the fixed variant satisfies the hypothesis, and the loop does run several times on real input -/
example : Variant.fixed.boundAlloc = true := rfl
example : (batchLoop (mpBatch .fixed) .msgpack 100 ([0x80, 0x80, 0x81, 0xa1, 120, 0xc0]) [] 0).err = none := by decide

/-! ## TCP / unix stream framing (receiver_tcp.go receiveLoop): no frame is lost, nothing hangs -/

/-- the constant the compiler sees (regenerated from /repo on every run): a silent change fails here -/
example : SH.Gen.C13.maxTCPFrameBody = 65535 := by decide

/-- Deframing the concatenation of frames gives back exactly the bodies, for all bodies within the size bound. -/
theorem tcp_deframe_frames (maxBody : Nat) (bodies : List Bytes) (hm : ∀ b ∈ bodies, b.length ≤ maxBody)
    (h32 : ∀ b ∈ bodies, b.length < 2 ^ 32) : deframe maxBody (catMap frame bodies) = (bodies, [], false) :=
  S_frames maxBody bodies hm h32

/-- Arbitrary chunking of the stream does not matter: with a read buffer of at least 4 + maxBody bytes the receive loop,
    fed ANY byte stream in ANY write/read chunks, hands to parse exactly the frames of the whole stream, ends with a
    framing error iff the stream contains a length header above the bound — and never stalls. -/
theorem tcp_chunking_irrelevant (maxBody bufSize : Nat) (hb : maxBody + 4 ≤ bufSize) (chunks : List Bytes) :
    (runConn maxBody bufSize chunks).frames = (deframe maxBody chunks.flatten).1 ∧
    (runConn maxBody bufSize chunks).ending =
      some (if (deframe maxBody chunks.flatten).2.2 then ConnEnd.framing else ConnEnd.eof) := by
  have h := foldl_after maxBody bufSize hb chunks {} [] (after_init maxBody)
  simp only [List.nil_append] at h
  obtain ⟨hfr, hok, herr⟩ := h
  rw [deframe_eq_S]
  unfold runConn
  simp only []
  cases hflag : (S maxBody chunks.flatten).2.2 with
  | true =>
    have he := herr hflag
    simp [he, hfr]
  | false =>
    obtain ⟨hn, _⟩ := hok hflag
    simp [hn, hfr]

/-- Every valid frame is delivered, in order, whatever the chunking — in particular frames of exactly the largest
    allowed size (65533..65535 bytes with the real constant) — and the connection ends normally (no hang). -/
theorem tcp_frames_delivered (bodies : List Bytes) (hm : ∀ b ∈ bodies, b.length ≤ SH.Gen.C13.maxTCPFrameBody)
    (chunks : List Bytes) (hc : chunks.flatten = catMap frame bodies) :
    (runConn SH.Gen.C13.maxTCPFrameBody (4 + SH.Gen.C13.maxTCPFrameBody) chunks).frames = bodies ∧
    (runConn SH.Gen.C13.maxTCPFrameBody (4 + SH.Gen.C13.maxTCPFrameBody) chunks).ending = some .eof := by
  have h := tcp_chunking_irrelevant SH.Gen.C13.maxTCPFrameBody (4 + SH.Gen.C13.maxTCPFrameBody) (by omega) chunks
  have hd := tcp_deframe_frames SH.Gen.C13.maxTCPFrameBody bodies hm
    (fun b hb => by
      have h1 := hm b hb
      have h2 : SH.Gen.C13.maxTCPFrameBody = 65535 := (by decide)
      omega)
  rw [hc, hd] at h
  simpa using h

/-- An oversize length header closes the connection — it never hangs — for every chunking: after any number of valid
    frames, a header announcing more than `maxBody` bytes (followed by anything) makes the receive loop deliver exactly
    the frames before it and end with a framing error, however the stream is cut into reads. -/
theorem tcp_oversize_closes (maxBody bufSize : Nat) (hb : maxBody + 4 ≤ bufSize) (bodies : List Bytes)
    (hm : ∀ b ∈ bodies, b.length ≤ maxBody) (h32 : ∀ b ∈ bodies, b.length < 2 ^ 32)
    (n : Nat) (hn : maxBody < n) (hn32 : n < 2 ^ 32) (junk : Bytes) (chunks : List Bytes)
    (hc : chunks.flatten = catMap frame bodies ++ (le 4 n ++ junk)) :
    (runConn maxBody bufSize chunks).frames = bodies ∧ (runConn maxBody bufSize chunks).ending = some .framing := by
  have h := tcp_chunking_irrelevant maxBody bufSize hb chunks
  have hS : S maxBody (catMap frame bodies) = (bodies, [], false) := S_frames maxBody bodies hm h32
  have hres := S_resume maxBody _ (catMap frame bodies) (le 4 n ++ junk) (Nat.le_refl _) (by rw [hS])
  have hover : S maxBody (le 4 n ++ junk) = ([], le 4 n ++ junk, true) := by
    rw [S_unfold]
    have e1 : ¬ (le 4 n ++ junk).length < 4 := by simp [le_length]
    have hv : rdLE (le 4 n) = n := rdLE_le_of_lt (by simpa using hn32)
    rw [if_neg e1, take_le_append, hv, if_pos hn]
  rw [hS] at hres
  simp only [List.nil_append, hover, List.append_nil] at hres
  rw [hc, deframe_eq_S, hres] at h
  simpa using h

/-- non-vacuity: 2 valid frames, then a header of maxBody+1, written byte-wise and in one piece -/
example : (runConn 7 11 [frame [1, 2] ++ frame [3] ++ le 4 8 ++ [9, 9]]).ending = some .framing ∧
    (runConn 7 11 ((frame [1, 2] ++ frame [3] ++ le 4 8 ++ [9, 9]).map (fun b => [b]))).frames = [[1, 2], [3]] := by decide

/-- non-vacuity, and the failure mode of a read buffer that is smaller than header + largest body (seeded bug C13-3,
    scaled down: bound 7, buffer 8 instead of 11): a 5-byte body within the bound never fits, Read is called with an
    empty slice forever — the model reports `stall`, nothing is delivered, later frames are lost. -/
theorem tcp_small_buffer_stalls :
    (runConn 7 8 [frame [1, 2, 3, 4, 5], frame [9]]).ending = some .stall ∧
    (runConn 7 8 [frame [1, 2, 3, 4, 5], frame [9]]).frames = [] ∧
    (runConn 7 11 [frame [1, 2, 3, 4, 5], frame [9]]).frames = [[1, 2, 3, 4, 5], [9]] ∧
    (runConn 7 11 [[5, 0], [0, 0, 1, 2], [3, 4, 5, 1, 0, 0], [0, 9]]).frames = [[1, 2, 3, 4, 5], [9]] ∧
    (runConn 7 11 [frame [1], le 4 8 ++ [0, 0], frame [2]]).ending = some .framing := by decide

/-! ## Protobuf: unpacked `unique` (F11) -/

/-- a metric "u" with unique = [5, 300] sent UNPACKED (two records `30 05`, `30 ac 02`), as proto2-style encoders do -/
def pbUnpacked : Bytes := [0xca, 0xc1, 0x06, 0x08, 0x0a, 0x01, 117, 0x30, 0x05, 0x30, 0xac, 0x02]
/-- the same metric with the packed layout proto3 encoders use -/
def pbPacked : Bytes := [0xca, 0xc1, 0x06, 0x08, 0x0a, 0x01, 117, 0x32, 0x03, 0x05, 0xac, 0x02]

/-- after the fix both layouts decode to the same metric -/
theorem pb_unpacked_unique_fixed :
    (parse .fixed pbUnpacked).delivered = (parse .fixed pbPacked).delivered ∧
    (parse .fixed pbUnpacked).delivered = [{ name := [117], unique := [5, 300], mask := 4 }] := by decide

/-- the pinned tree silently drops the unpacked uniques (wire type 0 falls through to the skip branch) -/
theorem pb_unpacked_unique_orig :
    (parse .orig pbUnpacked).delivered = [{ name := [117] }] ∧ (parse .orig pbUnpacked).err = none ∧
    (parse .orig pbPacked).delivered = [{ name := [117], unique := [5, 300], mask := 4 }] := by decide

/-- a metric whose packed `unique` run (10 bytes) ends in a truncated varint -/
def pbBadPacked : Bytes := [0xca, 0xc1, 0x06, 0x0c, 0x32, 0x0a, 0x09, 97, 97, 97, 97, 97, 97, 97, 97, 0x80]

/-- the pinned tree swallows the malformed varint (`return buf, nil`), keeps the values read so far and goes on parsing
    the payload as fields — it delivers a metric named "aaaaaaaa\x80" out of a malformed packet; the fixed tree
    reports the error (both reproduced on the real code) -/
theorem pb_packed_error :
    (parse .orig pbBadPacked).delivered =
      [{ mask := 4, name := [97, 97, 97, 97, 97, 97, 97, 97, 128], unique := [9, 97, 97, 97, 97, 97, 97, 97, 97] }] ∧
    (parse .orig pbBadPacked).err = none ∧
    (parse .fixed pbBadPacked).delivered = [] ∧ (parse .fixed pbBadPacked).err = some .eof := by decide

/-! ## allocation bounds for TL and Protobuf, and the combined safety statement -/

/-- TL allocation bound. `tlBatchA` is the TL reader instrumented with the sizes the Go code passes to `make`
    (element counts of the five vectors after CheckLengthSanity, byte counts in StringReadBytes); its result component is
    exactly the model reader `tlBatch` (which the correspondence ties to ReadTL1Boxed), and on every byte string — also
    on the error paths — the largest such size is at most the number of input bytes. -/
theorem tl_alloc_bounded (b : Bytes) : (tlBatchA b).res = tlBatch b ∧ (tlBatchA b).alloc ≤ b.length :=
  ⟨tlBatchA_res b, (tlBatchA_good b).1⟩

/-- … and through the batch loop of parse: for every packet, every allocation of every TL batch in it is bounded by the packet -/
theorem tl_loop_alloc_bounded (pkt : Bytes) : (batchLoop tlBatchA .tl (pkt.length + 1) pkt [] 0).alloc ≤ pkt.length :=
  batchLoop_alloc tlBatchA .tl pkt.length
    (fun b => ⟨(tlBatchA_good b).1, fun y r h => by rw [tlBatchA_res] at h; exact tlBatch_strict b y r h⟩)
    _ _ _ _ (Nat.zero_le _) (Nat.le_refl _)

/-- Protobuf allocation bound. protobuf.go never calls `make` with a decoded length: slices grow by `append`.
    `pbBatchA` is the reader instrumented with the size of every growth step (copied payload of name / map entry /
    centroid, elements of one packed run, one element per unpacked value/unique/tag/centroid/metric record); its result
    component is exactly the model reader `pbBatch`, and the largest step is at most the number of input bytes. -/
theorem pb_alloc_bounded (v : Variant) (pkt : Bytes) :
    (pbBatchA v (pkt.length + 1) [] pkt).2 = pbBatch v (pkt.length + 1) [] pkt ∧
    (pbBatchA v (pkt.length + 1) [] pkt).1 ≤ pkt.length :=
  ⟨pbBatchA_res v _ _ _, pbBatchA_le v _ _ _⟩

/-- the instrumentation is not vacuous: a packed run of 3 uniques grows the slice by 3, a 2-byte name copies 2 bytes;
    a TL vector header of 2 elements allocates 2 -/
example : (pbBatchA .fixed 100 [] pbPacked).1 = 2 ∧ (pbBatchA .fixed 100 [] pbPacked).2 = .ok [{ name := [117], unique := [5, 300], mask := 4 }] := by
  decide
example : (tlBatchA (tlEncBatch [mBare, mBare])).alloc = 2 := by decide

/-- DECODE IS TOTAL AND SAFE on every byte string: parse is a total function (Lean's termination check: it returns
    metrics and/or an error class for every packet), it never ends by exhausting the model's fuel (no loop of the
    decoders can spin), and every allocation request of the MessagePack, TL and Protobuf decoders is bounded by the
    packet length (fixed tree; false for MessagePack on the pinned tree — `orig_alloc_unbounded`). -/
theorem decode_total (pkt : Bytes) :
    (parse .fixed pkt).err ≠ some .fuel ∧ (parse .fixed pkt).alloc ≤ pkt.length ∧
    (batchLoop tlBatchA .tl (pkt.length + 1) pkt [] 0).alloc ≤ pkt.length ∧
    (pbBatchA .fixed (pkt.length + 1) [] pkt).1 ≤ pkt.length :=
  ⟨parse_terminates .fixed rfl pkt, msgpack_alloc_bounded pkt, tl_loop_alloc_bounded pkt, (pb_alloc_bounded .fixed pkt).2⟩

/-! ## decoding is a function of the packet alone (reused parser + batch)

  The receivers push every packet of a socket through ONE parser and ONE AddMetricsBatchBytes whose slices keep their
  capacity and old elements. The model's `parse` has no state argument at all: every accumulator of the model starts from
  a constant — `[]` for the batch (`mb.Reset()`), `{}` for a metric (`m.Reset()` at the top of both
  …UnmarshalStatshouseMetric), `([], [])` for a map entry (`m.Key = m.Key[:0]; m.Value = m.Value[:0]`), `(0, 0)` for a
  centroid (`*m = [2]float64{}`), and overwritten collections for MessagePack. That "the real decoder fed a SEQUENCE of
  packets through one reused destination behaves like the stateless model on each packet" is therefore a correspondence
  obligation: the harness decodes packet sequences (all formats interleaved, large packets first, zero / empty / omitted
  fields later) through one reused parser+batch, diffs each result against the model's decode of that packet alone, and
  re-decodes it with a fresh parser (oracle `stale-state-across-packets`).
  Below the reused slot is made explicit for the Protobuf and MessagePack element readers: with the reset the result
  does not depend on what the slot held; without it the previous packet leaks (so each reset line is necessary). -/

/-- protobufUnmarshalCentroid writing into a slot that still holds `slot`; `reset` is the line `*m = [2]float64{}` -/
def pbCentroidInto (reset : Bool) (slot : Nat × Nat) (d : Bytes) : Except Err (Nat × Nat) :=
  pbCentroid (d.length + 1) (if reset then (0, 0) else slot) d

/-- protobufUnmarshalFieldEntry into a reused tag slot; `reset` is `m.Key = m.Key[:0]; m.Value = m.Value[:0]` -/
def pbEntryInto (reset : Bool) (slot : Bytes × Bytes) (d : Bytes) : Except Err (Bytes × Bytes) :=
  pbEntry (d.length + 1) (if reset then ([], []) else slot) d

/-- protobufUnmarshalStatshouseMetric / msgpackUnmarshalStatshouseMetric into a reused metric; `reset` is `m.Reset()` -/
def pbMetricInto (v : Variant) (reset : Bool) (slot : Metric) (d : Bytes) : Except Err Metric :=
  pbMetric v (d.length + 1) (if reset then {} else slot) d
def mpFieldsInto (v : Variant) (reset : Bool) (slot : Metric) (n : Nat) (b : Bytes) : R Metric :=
  (mpFields v n (if reset then {} else slot) b).res

/-- With the resets the code has, what is decoded into a reused slot does not depend on what the slot held: it is the
    model's decode of the bytes alone. -/
theorem decode_ignores_destination (v : Variant) (d : Bytes) (n : Nat) :
    (∀ s, pbCentroidInto true s d = pbCentroid (d.length + 1) (0, 0) d) ∧
    (∀ s, pbEntryInto true s d = pbEntry (d.length + 1) ([], []) d) ∧
    (∀ s, pbMetricInto v true s d = pbMetric v (d.length + 1) {} d) ∧
    (∀ s, mpFieldsInto v true s n d = (mpFields v n {} d).res) :=
  ⟨fun _ => rfl, fun _ => rfl, fun _ => rfl, fun _ => rfl⟩

/-- Each reset is necessary (seeded bug C13-r3-2 is the first line): a proto3 centroid (3.0, count 0 — the count is not
    on the wire) decoded into a slot that held (5, 7) keeps the stale count 7; a map entry without a value keeps the old
    value; a metric without a name keeps the old name, in Protobuf and in MessagePack. -/
theorem each_reset_is_needed :
    pbCentroidInto false (5, 7) (pbEncCentroid (3, 0)) = .ok (3, 7) ∧
    pbCentroidInto true (5, 7) (pbEncCentroid (3, 0)) = .ok (3, 0) ∧
    pbEntryInto false ([1], [2]) (pbEncLen 1 [9]) = .ok ([9], [2]) ∧
    pbEntryInto true ([1], [2]) (pbEncLen 1 [9]) = .ok ([9], []) ∧
    pbMetricInto .fixed false { name := [111] } (pbEncTag 4 0 ++ pbEncV 5) = .ok { name := [111], ts := 5, mask := 16 } ∧
    pbMetricInto .fixed true { name := [111] } (pbEncTag 4 0 ++ pbEncV 5) = .ok { ts := 5, mask := 16 } ∧
    mpFieldsInto .fixed false { name := [111] } 1 (mpEncStr kTs ++ mpEncUint 5) = .ok ({ name := [111], ts := 5, mask := 16 }, []) ∧
    mpFieldsInto .fixed true { name := [111] } 1 (mpEncStr kTs ++ mpEncUint 5) = .ok ({ ts := 5, mask := 16 }, []) := by
  decide

/-! ## cross-format agreement -/

set_option maxRecDepth 100000 in
/-- The three binary encodings of the witness batch (every optional field present / none present) are detected as three
    different formats and deliver the same metrics (TL mask aside: proto3 cannot express "present but zero"). This is an
    instance, checked by evaluation; the ∀-statement is `all_formats_agree` below (TL part proved, rest not). -/
theorem formats_agree_witness :
    ((parse .fixed (tlEncBatch [mFull, mBare])).delivered.map sem = [sem mFull, sem mBare]) ∧
    ((parse .fixed (mpEncBatch [mFull, mBare])).delivered.map sem = [sem mFull, sem mBare]) ∧
    ((parse .fixed (pbEncBatch [mFull, mBare])).delivered.map sem = [sem mFull, sem mBare]) ∧
    (parse .fixed (mpEncBatch [mFull, mBare])).fmt = .msgpack ∧ (parse .fixed (pbEncBatch [mFull, mBare])).fmt = .pb ∧
    (parse .fixed (mpEncBatch [mFull, mBare])).err = none ∧ (parse .fixed (pbEncBatch [mFull, mBare])).err = none := by
  decide

/-- TL part of the agreement, for all batches: what parse delivers for the TL encoding is the batch itself. -/
theorem all_formats_agree_partial (v : Variant) (ms : List Metric) (hn : ms.length < 2 ^ 32) (hw : ∀ m ∈ ms, m.WF) :
    (parse v (tlEncBatch ms)).delivered.map sem = ms.map sem ∧ (parse v (tlEncBatch ms)).err = none ∧
    (parse v (tlEncBatch ms)).fmt = .tl ∧ (parse v (mpEncBatch ms)).fmt = .msgpack ∧
    (∀ m ms', ms = m :: ms' → (parse v (pbEncBatch ms)).fmt = .pb) := by
  rw [parse_tl v ms hn hw]
  refine ⟨rfl, rfl, rfl, ?_, ?_⟩
  · have := detect_msgpack ms
    unfold parse; rw [this]; exact batchLoop_fmt _ _ _ _ _ _
  · intro m ms' h; subst h
    have := detect_pb m ms'
    unfold parse; rw [this]; simp only []
    split <;> rfl

/-! ## MessagePack and Protobuf round trips for ALL well-formed batches, and the full agreement theorem -/

/-- MessagePack: the canonical client encoding (msgp.Append*; tied to the real encoder by the `enc` op) of any batch of
    well-formed metrics, followed by anything, is decoded — by the pinned and by the fixed decoder — into metrics with
    exactly the content of the batch (`mpDecoded m` = `m` with the fields mask rebuilt from the fields present). -/
theorem msgpack_roundtrip (v : Variant) (ms : List Metric) (hn : ms.length < 2 ^ 32) (hw : ∀ m ∈ ms, m.WF) (rest : Bytes) :
    (mpBatch v (mpEncBatch ms ++ rest)).res = .ok (ms.map mpDecoded, rest) ∧ (ms.map mpDecoded).map sem = ms.map sem := by
  refine ⟨mpBatch_enc v ms hn hw rest, ?_⟩
  rw [List.map_map]
  apply List.map_congr_left
  intro m hm
  exact sem_mpDecoded m (hw m hm)

/-- Protobuf: proto3 encoding as proto.Marshal produces it (packed `value`/`unique`, zero scalars omitted; tied to the
    real encoder by the `enc` op) of any batch of well-formed metrics whose encodings fit 32-bit lengths decodes into
    metrics with exactly the content of the batch. -/
theorem pb_roundtrip (v : Variant) (ms : List Metric) (h : ∀ m ∈ ms, m.WF ∧ (pbEncMetric m).length < 2 ^ 32) :
    pbBatch v ((pbEncBatch ms).length + 1) [] (pbEncBatch ms) = .ok (ms.map pbDecoded) ∧
    (ms.map pbDecoded).map sem = ms.map sem := by
  refine ⟨pbBatch_enc v ms h, ?_⟩
  rw [List.map_map]
  apply List.map_congr_left
  intro m _
  exact sem_pbDecoded m

/-- varint round trip (protowire.AppendVarint / ConsumeVarint), every uint64 -/
theorem pb_varint_roundtrip (x : Nat) (hx : x < 2 ^ 64) (rest : Bytes) : pbVarint (pbEncV x ++ rest) = .ok (x, rest) :=
  pbVarint_enc x rest hx

/-- Unpacked layouts: `value` sent as one fixed64 record per element and `unique` as one varint record per element put the
    same elements into the metric as the packed records do (only the mask bookkeeping term differs in shape).
    The `unique` half needs the fix (wire type 0); on the pinned tree it is false — `pb_unpacked_unique_orig`. -/
theorem pb_unpacked_forms (v : Variant) (hv : v.uniqueWt0 = true) (m : Metric) (vs us : List Nat) (k : Nat) (t : Bytes)
    (hvs : ∀ x ∈ vs, x < 2 ^ 64) (hus : ∀ x ∈ us, x < 2 ^ 64) (hvn : vs.length < 2 ^ 32) (hun : us.length < 2 ^ 32) :
    (pbMetric v (k + vs.length) m (catMap pbValueRec vs ++ t)
        = pbMetric v k { m with value := m.value ++ vs, mask := maskN 1 vs.length m.mask } t) ∧
    (pbMetric v (k + 1) m (pbEncLen 5 (catMap (le 8) vs) ++ t)
        = pbMetric v k { m with value := m.value ++ vs, mask := setBit m.mask 1 } t) ∧
    (pbMetric v (k + us.length) m (catMap pbUniqueRec us ++ t)
        = pbMetric v k { m with unique := m.unique ++ us, mask := maskN 2 us.length m.mask } t) ∧
    (pbMetric v (k + 1) m (pbEncLen 6 (catMap pbEncV us) ++ t)
        = pbMetric v k { m with unique := m.unique ++ us, mask := setBit m.mask 2 } t) :=
  ⟨pbValueUnpacked_enc v vs m k t hvs, pbRec_value v k m vs t hvn hvs,
   pbUniqueUnpacked_enc v hv us m k t hus, pbRec_unique v k m us t hun hus⟩

/-- ALL FORMATS AGREE (TL, MessagePack, Protobuf; JSON is outside the model): for every batch of well-formed metrics,
    parser.parse detects each encoding as its format, reports no error, and delivers — in order — metrics with the same
    name, tags, counter, timestamp, values, uniques and histogram as the batch, hence the same as each other. -/
theorem all_formats_agree (v : Variant) (ms : List Metric) (hn : ms.length < 2 ^ 32)
    (hw : ∀ m ∈ ms, m.WF ∧ (pbEncMetric m).length < 2 ^ 32) :
    (parse v (tlEncBatch ms)).delivered.map sem = ms.map sem ∧ (parse v (tlEncBatch ms)).err = none ∧
    (parse v (mpEncBatch ms)).delivered.map sem = ms.map sem ∧ (parse v (mpEncBatch ms)).err = none ∧
    (parse v (pbEncBatch ms)).delivered.map sem = ms.map sem ∧ (parse v (pbEncBatch ms)).err = none ∧
    (parse v (tlEncBatch ms)).fmt = .tl ∧ (parse v (mpEncBatch ms)).fmt = .msgpack ∧
    (ms ≠ [] → (parse v (pbEncBatch ms)).fmt = .pb) := by
  have hw' : ∀ m ∈ ms, m.WF := fun m hm => (hw m hm).1
  have htl := parse_tl v ms hn hw'
  obtain ⟨m1, m2, m3, _⟩ := parse_mpEnc v ms hn hw'
  have hmp := (msgpack_roundtrip v ms hn hw' []).2
  have hpb := (pb_roundtrip v ms hw).2
  refine ⟨by rw [htl], by rw [htl], by rw [m2]; exact hmp, m3, ?_, ?_, by rw [htl], m1, ?_⟩
  · cases ms with
    | nil => rfl
    | cons m ms => rw [parse_pbEnc v m ms hw]; exact hpb
  · cases ms with
    | nil => rfl
    | cons m ms => rw [parse_pbEnc v m ms hw]
  · intro hne
    cases ms with
    | nil => exact absurd rfl hne
    | cons m ms => rw [parse_pbEnc v m ms hw]

/-- non-vacuity: the witness batch satisfies every hypothesis of `all_formats_agree` -/
example : ∀ m ∈ [mFull, mBare], m.WF ∧ (pbEncMetric m).length < 2 ^ 32 := by
  intro m hm
  simp at hm
  rcases hm with rfl | rfl
  · exact ⟨mFull_wf, by decide⟩
  · exact ⟨mBare_wf, by decide⟩

end SH.Props.C13
