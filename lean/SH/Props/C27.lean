/-
  SH.Props.C27 — PromQL evaluation matches operator definitions and rewrites preserve results.

  Property: for any series data, aggregation operators (sum, min, max, avg, count, group, stddev, stdvar, quantile, topk,
  bottomk) with by/without grouping compute their definitions at every timestamp with missing points excluded, and
  over-time functions compute their definitions over the selected window.  Pushing an aggregation or over-time function
  down into the storage query (reduction) yields the same result as evaluating it in the engine over the underlying series.

  What is proved (model SH.Model.PromEval, exact arithmetic, `none` = missing point):
    * aggSum_def / aggMin_def / aggMax_def / aggAvg_def / aggCount_def / aggGroup_def / aggStdVar_def / varOf_nonneg /
      aggStdDev_sq_partial / aggQuantile_zero: each operator's loop equals its definition over the present points;
      agg_present_only / aggQuantile_present_only: for EVERY operator the value depends on the column only through its
      present points (∀ columns, both code variants).
    * reduce_sum_sound / reduce_count_sound / reduce_min_sound / reduce_max_sound / reduce_avg_sound: what the storage
      returns for the pooled rows of a group (tsValues.merge, then tsValues.value) equals the engine's aggregate of the
      per-series storage values, ∀ rows, ∀ steps — the algebraic core of "reduction preserves the result".  PARTIAL: the lift
      to whole expressions (partition of the events of a bucket by series, grouping keys, exec) is tied by the
      correspondence and by the harness' reduce-* oracle, not proved.
    * rule1_closed_form: the side conditions of the over-time rule (Range ≤ step, = step for stddev/stdvar).
    * moveOneLeft_shape: every cursor move on every time grid moves r by one, keeps l ≤ r and never moves l right.
    * over_time_is_definition / quantile_over_time_is_definition (via SH.Lemmas.PromWindow.overTimeWith_uniform, loop invariant
      over newWindow / moveOneLeft / setRight / fillPrefix): on every uniform grid, for every series, range and *_over_time
      function the cursor-driven evaluation returns at point i the function of the k points ending at i (k = ⌈w/s⌉ not strict,
      ⌊w/s⌋ strict; window_timestamps: = the points with timestamp in (t_i − w, t_i] / whose bucket lies in the range), the
      nil value when none is present, missing for i < k.
    * over_time_is_definition_general (SH.Lemmas.PromWindowG.overTimeWith_general): the same on ARBITRARY grids (two-LOD time
      scales): with L r = the left edge the range selects for point r with that point's own bucket width (the cursor's test;
      monotone, automatically so when not strict), point i carries the function of the points L i … i; instance twoLodCtx.
      Excluded by hypothesis: a strict function whose range is narrower than a point's bucket (the code forces an empty window).
    * over_time_is_definition_any_grid (gridCtx, Lgrid, findL_spec): for the not-strict functions the edge L is DERIVED from the
      grid and the range on every non-decreasing grid (two-LOD grids included): no per-grid hypothesis or `decide`.
    * overtime_pushdown_two_grids (+ bucket_by_seconds, bucket_value_is_window_function, bucket_avg_is_window_avg): rule #1's
      storage pre-aggregate of the bucket [T, T+r) equals f_over_time over the one-second points of that bucket (engine window
      evaluation on the one-second grid, via over_time_is_definition) for sum/min/max, count up to the 0-vs-missing convention,
      avg (overtime_pushdown_two_grids_avg); stdvar/stddev excluded (stdvar_pushdown_is_not_population).
    * rule2_two_grids / rule3_two_grids (via two_grid_core): the pushed-down point of rules #2 and #3 for a group and a bucket
      equals the engine's evaluation on the one-second grid (agg over the series of f_over_time, resp. f_over_time over the
      window of the group's one-second aggregates) for sum∘sum, min∘min, max∘max; count∘count and avg∘avg are not pooled
      values by definition and are not pushed down exactly.
    * max_is_definition / min_is_definition over the extended reals (−∞ | finite | +∞ are points, missing is separate);
      max_sentinel_violates (seeded/C27-r5-1), infinite_points_old_violates (before fixes/C27-infinite-points.diff).
    * subquery_is_window_of_results (evalChain_snoc): `f_over_time((X)[r:])` is f over the window of X's results with the
      subquery's own range; early_range_violates: the seeded/C27-r3-2 order (range stored before the operand is evaluated,
      variant evalChainEarlyRange) contradicts it.
    * bucket_group_eq_pooled, groupPoint_pushdown, pushed_query_is_aggregate, rule0..3_expression, reduction_sound_sum:
      reduction soundness lifted to the storage query over events and to whole expressions: under exactly the rules' side
      conditions the evaluator's result for the four rule shapes IS the storage query, and that query's every point is the
      engine aggregate of the per-series storage values, for what ∈ sum/sumsec/count/countsec/min/max (avg: reduce_avg_sound).
      Excluded with witness: stdvar/stddev (stdvar_pushdown_is_not_population — the known finding).
    * groupKey_dedup / aggregate_dedup / queryStorage_dedup / rule0_dedup: grouping depends on the SET of resolved tag indices
      (a tag named twice, or by two of its names, changes neither the engine-side grouping nor the pushed-down query).
    * quantile_def (∀ q ∈ [0,1]: linear interpolation between the closest ranks of the sorted present points, with bounds),
      aggQuantile_perm (function of the multiset of present points), topk_def / topK_eq (per-series weight semantics).
    * repo_alias_violates: the PRE-FIX (before /repo 78db24c9) engine-side grouping by a legacy alias differs from the
      pushed-down query (aggregateRepoAlias is a witness only, no evaluated variant uses it).
    * aggGroup_repo_violates, aggStdVar_repo_violates, repo_reduction_violates: the pinned tree's behaviour (Cfg.repo)
      contradicts the property on concrete inputs; Cfg.fixed = fixes/C27-*.diff.
    * binApply_self / binApply_matched: vector-vector binary operators (one-to-one): an operand matched against itself loses
      no series; every result series stems from a left and a right series with equal matching label sets and carries them.
  stddev on non-squares, grouping keys (dedupKeys order), the weight function of topk: correspondence + def-* oracle only.
  Float rounding (numeric stability) is outside the exact model: judged by the harness' def-*-numeric oracle only.
-/
import SH.Model.PromEval
import SH.Lemmas.PromWindow
import SH.Lemmas.PromWindowG
import SH.Lemmas.PromReduce
import Mathlib.Algebra.Order.Field.Rat
import Mathlib.Data.List.Sort
import Mathlib.Data.Rat.Floor
import Mathlib.Tactic.Positivity
import Mathlib.Tactic.NormNum
import Mathlib.Tactic.Ring
import Mathlib.Tactic.Linarith

namespace SH.Props.C27
open SH.PromEval SH.PromWindow SH.PromWindowG SH.PromReduce

/-! helper lemmas -/

theorem present_nil : present [] = [] := rfl
theorem present_cons_none (c : List Val) : present (none :: c) = present c := by simp [present]
theorem present_cons_some (x : Rat) (c : List Val) : present (some x :: c) = x :: present c := by simp [present]

theorem present_map_some (xs : List Rat) : present (xs.map some) = xs := by
  induction xs with
  | nil => rfl
  | cons x xs ih => simp [present_cons_some, ih]

theorem ratSum_cons (x : Rat) (l : List Rat) : ratSum (x :: l) = x + ratSum l := by
  unfold ratSum
  have h : ∀ (l : List Rat) (a : Rat), l.foldl (· + ·) a = a + l.foldl (· + ·) 0 := by
    intro l
    induction l with
    | nil => intro a; simp
    | cons y ys ih => intro a; simp only [List.foldl_cons]; rw [ih (a + y), ih (0 + y)]; ring
  simp only [List.foldl_cons]
  rw [h l (0 + x)]; ring

theorem ratSum_nil : ratSum [] = 0 := rfl

/-- the accumulator form of funcSum's loop -/
theorem foldl_sumStep (c : List Val) (acc : Val) :
    c.foldl sumStep acc =
      match acc with
      | none => if present c = [] then none else some (ratSum (present c))
      | some r => some (r + ratSum (present c)) := by
  induction c generalizing acc with
  | nil => cases acc <;> simp [present_nil, ratSum_nil]
  | cons v c ih =>
    cases v with
    | none =>
      simp only [List.foldl_cons, present_cons_none]
      cases acc <;> simp [sumStep, ih]
    | some x =>
      simp only [List.foldl_cons, present_cons_some]
      cases acc with
      | none => simp [sumStep, ih, ratSum_cons]
      | some r => simp [sumStep, ih, ratSum_cons]; ring

/-- **sum** — "sum computes its definition at every timestamp with missing points excluded": the result is missing
    iff no point is present, otherwise the sum of the present points. -/
theorem aggSum_def (col : List Val) :
    aggSum col = if present col = [] then none else some (ratSum (present col)) := by
  unfold aggSum; rw [foldl_sumStep]


/-- maximum of a non-empty list by the code's comparison -/
def maxOf (r : Rat) (l : List Rat) : Rat := l.foldl (fun r x => if r < x then x else r) r
def minOf (r : Rat) (l : List Rat) : Rat := l.foldl (fun r x => if x < r then x else r) r

theorem foldl_maxStep (c : List Val) (acc : Val) :
    c.foldl maxStep acc =
      match acc with
      | none => (match present c with | [] => none | x :: xs => some (maxOf x xs))
      | some r => some (maxOf r (present c)) := by
  induction c generalizing acc with
  | nil => cases acc <;> simp [present_nil, maxOf]
  | cons v c ih =>
    cases v with
    | none =>
      simp only [List.foldl_cons, present_cons_none]
      cases acc <;> simp [maxStep, ih]
    | some x =>
      simp only [List.foldl_cons, present_cons_some]
      cases acc with
      | none => simp [maxStep, ih]
      | some r =>
        by_cases h : r < x <;> simp [maxStep, ih, maxOf, h]

theorem foldl_minStep (c : List Val) (acc : Val) :
    c.foldl minStep acc =
      match acc with
      | none => (match present c with | [] => none | x :: xs => some (minOf x xs))
      | some r => some (minOf r (present c)) := by
  induction c generalizing acc with
  | nil => cases acc <;> simp [present_nil, minOf]
  | cons v c ih =>
    cases v with
    | none =>
      simp only [List.foldl_cons, present_cons_none]
      cases acc <;> simp [minStep, ih]
    | some x =>
      simp only [List.foldl_cons, present_cons_some]
      cases acc with
      | none => simp [minStep, ih]
      | some r =>
        by_cases h : x < r <;> simp [minStep, ih, minOf, h]

theorem maxOf_spec (l : List Rat) (r : Rat) :
    (maxOf r l = r ∨ maxOf r l ∈ l) ∧ r ≤ maxOf r l ∧ ∀ x ∈ l, x ≤ maxOf r l := by
  induction l generalizing r with
  | nil => simp [maxOf]
  | cons y ys ih =>
    have hstep : maxOf r (y :: ys) = maxOf (if r < y then y else r) ys := by simp [maxOf]
    rw [hstep]
    obtain ⟨h1, h2, h3⟩ := ih (if r < y then y else r)
    by_cases h : r < y
    · simp only [h, if_true] at h1 h2 h3 ⊢
      refine ⟨?_, by linarith, ?_⟩
      · rcases h1 with h1 | h1
        · right; rw [h1]; simp
        · right; exact List.mem_cons_of_mem _ h1
      · intro x hx
        rcases List.mem_cons.mp hx with rfl | hx
        · exact h2
        · exact h3 x hx
    · simp only [h, if_false] at h1 h2 h3 ⊢
      refine ⟨?_, h2, ?_⟩
      · rcases h1 with h1 | h1
        · left; exact h1
        · right; exact List.mem_cons_of_mem _ h1
      · intro x hx
        rcases List.mem_cons.mp hx with rfl | hx
        · have : x ≤ r := not_lt.mp h
          linarith
        · exact h3 x hx

theorem minOf_spec (l : List Rat) (r : Rat) :
    (minOf r l = r ∨ minOf r l ∈ l) ∧ minOf r l ≤ r ∧ ∀ x ∈ l, minOf r l ≤ x := by
  induction l generalizing r with
  | nil => simp [minOf]
  | cons y ys ih =>
    have hstep : minOf r (y :: ys) = minOf (if y < r then y else r) ys := by simp [minOf]
    rw [hstep]
    obtain ⟨h1, h2, h3⟩ := ih (if y < r then y else r)
    by_cases h : y < r
    · simp only [h, if_true] at h1 h2 h3 ⊢
      refine ⟨?_, by linarith, ?_⟩
      · rcases h1 with h1 | h1
        · right; rw [h1]; simp
        · right; exact List.mem_cons_of_mem _ h1
      · intro x hx
        rcases List.mem_cons.mp hx with rfl | hx
        · exact h2
        · exact h3 x hx
    · simp only [h, if_false] at h1 h2 h3 ⊢
      refine ⟨?_, h2, ?_⟩
      · rcases h1 with h1 | h1
        · left; exact h1
        · right; exact List.mem_cons_of_mem _ h1
      · intro x hx
        rcases List.mem_cons.mp hx with rfl | hx
        · have : r ≤ x := not_lt.mp h
          linarith
        · exact h3 x hx

/-- **max** — missing iff no point is present; otherwise a present point that bounds every present point from above. -/
theorem aggMax_def (col : List Val) :
    (present col = [] → aggMax col = none) ∧
    (present col ≠ [] → ∃ m, aggMax col = some m ∧ m ∈ present col ∧ ∀ x ∈ present col, x ≤ m) := by
  unfold aggMax; rw [foldl_maxStep]
  constructor
  · intro h; simp [h]
  · intro h
    cases hp : present col with
    | nil => exact absurd hp h
    | cons x xs =>
      obtain ⟨h1, h2, h3⟩ := maxOf_spec xs x
      refine ⟨maxOf x xs, rfl, ?_, ?_⟩
      · rcases h1 with h1 | h1
        · rw [h1]; simp
        · exact List.mem_cons_of_mem _ h1
      · intro y hy
        rcases List.mem_cons.mp hy with rfl | hy
        · exact h2
        · exact h3 y hy

/-- **min** — missing iff no point is present; otherwise a present point that bounds every present point from below. -/
theorem aggMin_def (col : List Val) :
    (present col = [] → aggMin col = none) ∧
    (present col ≠ [] → ∃ m, aggMin col = some m ∧ m ∈ present col ∧ ∀ x ∈ present col, m ≤ x) := by
  unfold aggMin; rw [foldl_minStep]
  constructor
  · intro h; simp [h]
  · intro h
    cases hp : present col with
    | nil => exact absurd hp h
    | cons x xs =>
      obtain ⟨h1, h2, h3⟩ := minOf_spec xs x
      refine ⟨minOf x xs, rfl, ?_, ?_⟩
      · rcases h1 with h1 | h1
        · rw [h1]; simp
        · exact List.mem_cons_of_mem _ h1
      · intro y hy
        rcases List.mem_cons.mp hy with rfl | hy
        · exact h2
        · exact h3 y hy


/-! ### missing points are excluded: every aggregator is a function of the present points only -/

theorem aggSum_present (col : List Val) : aggSum col = aggSum ((present col).map some) := by
  rw [aggSum_def, aggSum_def, present_map_some]
theorem aggMax_present (col : List Val) : aggMax col = aggMax ((present col).map some) := by
  unfold aggMax; rw [foldl_maxStep, foldl_maxStep, present_map_some]
theorem aggMin_present (col : List Val) : aggMin col = aggMin ((present col).map some) := by
  unfold aggMin; rw [foldl_minStep, foldl_minStep, present_map_some]

/-- **every operator, missing points excluded** — for all eight fold aggregators and quantile, under both code variants,
    the value at a timestamp depends on the column only through its present points (inserting or deleting missing
    points anywhere changes nothing). -/
theorem agg_present_only (cfg : Cfg) (op : AggOp) (col : List Val) :
    aggApply cfg op col = aggApply cfg op ((present col).map some) := by
  cases op
  · exact aggSum_present col
  · exact aggMin_present col
  · exact aggMax_present col
  · simp [aggApply, aggAvg, present_map_some]
  · simp [aggApply, aggCount, present_map_some]
  · simp [aggApply, aggGroup, present_map_some]
  · simp [aggApply, aggStdDev, aggStdVar, present_map_some]
  · simp [aggApply, aggStdVar, present_map_some]

theorem aggQuantile_present_only (q : Rat) (col : List Val) :
    aggQuantile q col = aggQuantile q ((present col).map some) := by
  simp [aggQuantile, present_map_some]

/-- non-vacuity: a column with missing points in the middle -/
example : aggApply Cfg.fixed .avg [some 3, none, some 6, none] = some (9 / 2) := by decide +kernel
example : aggApply Cfg.fixed .max [none, some (-2), none, some (-7)] = some (-2) := by decide +kernel

/-! ### count, avg, group, stdvar, stddev -/

/-- **count** = number of present points (0, not missing, when there is none — the engine's convention, shared with count_over_time) -/
theorem aggCount_def (col : List Val) : aggCount col = some ((present col).length : Rat) := rfl

/-- **avg** = sum of the present points / their number; missing iff none is present -/
theorem aggAvg_def (col : List Val) :
    aggAvg col = if present col = [] then none else some (ratSum (present col) / ((present col).length : Rat)) := by
  unfold aggAvg
  by_cases h : present col = [] <;> simp [h]

/-- avg · count = sum wherever a point is present -/
theorem aggAvg_mul_count (col : List Val) (a : Rat) (h : aggAvg col = some a) :
    a * ((present col).length : Rat) = ratSum (present col) := by
  unfold aggAvg at h
  by_cases h0 : (present col).length = 0
  · simp [h0] at h
  · simp only [h0, if_false, Option.some.injEq] at h
    have : ((present col).length : Rat) ≠ 0 := by exact_mod_cast h0
    rw [← h]; exact div_mul_cancel₀ _ this

/-- **group** (fixed code) is 1 exactly where some point is present and missing elsewhere -/
theorem aggGroup_def (col : List Val) :
    aggGroup Cfg.fixed col = if present col = [] then none else some 1 := by
  unfold aggGroup Cfg.fixed
  by_cases h : present col = [] <;> simp [h]

/-- the pinned tree violates this: group is 1 at a timestamp where every input point is missing -/
theorem aggGroup_repo_violates : aggGroup Cfg.repo [none, none] = some 1 ∧ present ([none, none] : List Val) = [] := by
  decide +kernel

theorem ratSum_map_div (l : List Rat) (f : Rat → Rat) (n : Rat) :
    ratSum (l.map (fun v => f v / n)) = ratSum (l.map f) / n := by
  induction l with
  | nil => simp [ratSum_nil]
  | cons x xs ih => simp only [List.map_cons, ratSum_cons, ih]; ring

/-- the loop `res += d*d/cnt` of funcStdVar is the mean squared deviation -/
theorem varOf_def (xs : List Rat) :
    varOf xs = ratSum (xs.map (fun v => (v - ratSum xs / (xs.length : Rat)) * (v - ratSum xs / (xs.length : Rat)))) / (xs.length : Rat) := by
  unfold varOf
  exact ratSum_map_div xs _ _

/-- **stdvar** (fixed code) = mean squared deviation of the present points from their mean; missing iff none is present -/
theorem aggStdVar_def (col : List Val) :
    aggStdVar Cfg.fixed col =
      if present col = [] then none
      else some (ratSum ((present col).map (fun v => (v - ratSum (present col) / ((present col).length : Rat)) *
              (v - ratSum (present col) / ((present col).length : Rat)))) / ((present col).length : Rat)) := by
  unfold aggStdVar Cfg.fixed
  by_cases h : present col = []
  · simp [h]
  · simp [h, varOf_def]

theorem ratSum_sq_nonneg (l : List Rat) (f : Rat → Rat) : 0 ≤ ratSum (l.map (fun v => f v * f v)) := by
  induction l with
  | nil => simp [ratSum_nil]
  | cons x xs ih => simp only [List.map_cons, ratSum_cons]; nlinarith [mul_self_nonneg (f x)]

/-- a variance is never negative -/
theorem varOf_nonneg (xs : List Rat) : 0 ≤ varOf xs := by
  rw [varOf_def]
  apply div_nonneg (ratSum_sq_nonneg xs _)
  exact_mod_cast Nat.zero_le _

/-- the pinned tree violates this: stdvar / stddev are 0 where every input point is missing -/
theorem aggStdVar_repo_violates :
    aggStdVar Cfg.repo [none, none] = some 0 ∧ aggStdDev Cfg.repo [none] = some 0 ∧ aggStdVar Cfg.fixed [none, none] = none := by
  decide +kernel

/-- **stddev** squares to stdvar whenever the variance is a perfect square (the only case the exact model covers) -/
theorem aggStdDev_sq_partial (cfg : Cfg) (col : List Val) (v : Rat) (hv : aggStdVar cfg col = some v)
    (hsq : sqrtExact v * sqrtExact v = v) :
    ∃ d, aggStdDev cfg col = some d ∧ d * d = v := by
  refine ⟨sqrtExact v, ?_, hsq⟩
  simp [aggStdDev, hv]
example : aggStdVar Cfg.fixed [some 1, none, some 7] = some 9 ∧ sqrtExact 9 * sqrtExact 9 = 9 := by decide +kernel

/-! ### quantile -/

theorem quantileSorted_zero (xs : List Rat) : quantileSorted 0 xs = xs.head? := by
  cases xs with
  | nil => simp [quantileSorted]
  | cons x xs =>
    cases xs with
    | nil => simp [quantileSorted]
    | cons y ys =>
      have hf : (Rat.floor 0).toNat = 0 := by decide +kernel
      simp [quantileSorted, hf]

/-- quantile(0, …) is the least present point (head of the sorted present points), missing iff none is present -/
theorem aggQuantile_zero (col : List Val) : aggQuantile 0 col = (isort (present col)).head? := by
  simp [aggQuantile, quantileSorted_zero]

example : aggQuantile (1/2) [some 10, none, some 30, some 20, none] = some 20 := by decide +kernel
example : aggQuantile (1/4) [some 10, none, some 30] = some 15 := by decide +kernel
example : aggQuantile 0 [none, some 5] = some 5 := by decide +kernel

/-! ### reductions: pushing an aggregation down into the pre-aggregating storage

  `per` = for every series of a group, the (merged) storage row of one time bucket, `none` where the series has no row.
  The engine-side evaluation asks the storage for every series separately (`Option.map (rowValue w …)`, a missing point
  where there is no row) and aggregates the answers; the pushed-down evaluation lets the storage merge the rows of the
  whole group (`pooled`) and asks once. -/

def pooled (per : List (Option Row)) : Option Row := mergeRows (per.filterMap id)

theorem present_map_optmap (per : List (Option Row)) (f : Row → Rat) :
    present (per.map (Option.map f)) = (per.filterMap id).map f := by
  induction per with
  | nil => rfl
  | cons r rs ih =>
    cases r with
    | none => simpa [present] using ih
    | some r => simp only [List.map_cons, Option.map_some, present_cons_some, ih]; simp

theorem foldl_merge_sum (rs : List Row) (r : Row) : (rs.foldl Row.merge r).sum = r.sum + ratSum (rs.map (·.sum)) := by
  induction rs generalizing r with
  | nil => simp [ratSum_nil]
  | cons x xs ih => simp only [List.foldl_cons, List.map_cons, ratSum_cons, ih]; simp [Row.merge]; ring

theorem foldl_merge_count (rs : List Row) (r : Row) : (rs.foldl Row.merge r).count = r.count + ratSum (rs.map (·.count)) := by
  induction rs generalizing r with
  | nil => simp [ratSum_nil]
  | cons x xs ih => simp only [List.foldl_cons, List.map_cons, ratSum_cons, ih]; simp [Row.merge]; ring

theorem foldl_merge_min (rs : List Row) (r : Row) : (rs.foldl Row.merge r).min = minOf r.min (rs.map (·.min)) := by
  induction rs generalizing r with
  | nil => simp [minOf]
  | cons x xs ih => simp only [List.foldl_cons, List.map_cons, ih]; simp [Row.merge, minOf]

theorem foldl_merge_max (rs : List Row) (r : Row) : (rs.foldl Row.merge r).max = maxOf r.max (rs.map (·.max)) := by
  induction rs generalizing r with
  | nil => simp [maxOf]
  | cons x xs ih => simp only [List.foldl_cons, List.map_cons, ih]; simp [Row.merge, maxOf]

theorem ratSum_map_mul_div (l : List Row) (f : Row → Rat) (a b : Rat) :
    ratSum (l.map (fun r => f r * a / b)) = ratSum (l.map f) * a / b := by
  induction l with
  | nil => simp [ratSum_nil]
  | cons x xs ih => simp only [List.map_cons, ratSum_cons, ih]; ring

/-- the additive `what`s (sum, sumsec, count, countsec): value = g(row)·a/b with g additive under merge -/
theorem pooled_additive (per : List (Option Row)) (f g : Row → Rat) (a b : Rat)
    (hf : ∀ r, f r = g r * a / b)
    (hg : ∀ (rs : List Row) (r : Row), g (rs.foldl Row.merge r) = g r + ratSum (rs.map g)) :
    (pooled per).map f = aggSum (per.map (Option.map f)) := by
  rw [aggSum_def, present_map_optmap]
  unfold pooled
  cases h : per.filterMap id with
  | nil => simp [mergeRows]
  | cons r rs =>
    have hmap : rs.map f = rs.map (fun r => g r * a / b) := List.map_congr_left (fun r _ => hf r)
    simp only [mergeRows, Option.map_some, List.map_cons, ratSum_cons, hmap, ratSum_map_mul_div, hf, hg]
    simp only [List.cons_ne_nil, if_false]
    congr 1; ring

/-- **sum pushed down** (`sum by (G) (m)` → what = sumsec grouped by G, and `sum`/Range for the over-time rules): the
    storage's value for the pooled rows of the group equals the engine's `sum` over the per-series storage values, at
    every bucket, missing where no series has a row. -/
theorem reduce_sum_sound (per : List (Option Row)) (q l : Int) :
    (pooled per).map (rowValue .sumsec q l) = aggSum (per.map (Option.map (rowValue .sumsec q l))) ∧
    (pooled per).map (rowValue .sum q l) = aggSum (per.map (Option.map (rowValue .sum q l))) :=
  ⟨pooled_additive per _ (·.sum) 1 (l : Rat) (fun r => by simp [rowValue]) foldl_merge_sum,
   pooled_additive per _ (·.sum) (q : Rat) (l : Rat) (fun r => by simp [rowValue]) foldl_merge_sum⟩

/-- **count pushed down**: the pooled event count is the sum of the per-series counts (StatsHouse's `count(m)` counts
    events; with one event per series and bucket that is PromQL's number of present series). -/
theorem reduce_count_sound (per : List (Option Row)) (q l : Int) :
    (pooled per).map (rowValue .countsec q l) = aggSum (per.map (Option.map (rowValue .countsec q l))) ∧
    (pooled per).map (rowValue .count q l) = aggSum (per.map (Option.map (rowValue .count q l))) :=
  ⟨pooled_additive per _ (·.count) 1 (l : Rat) (fun r => by simp [rowValue]) foldl_merge_count,
   pooled_additive per _ (·.count) (q : Rat) (l : Rat) (fun r => by simp [rowValue]) foldl_merge_count⟩

/-- **min / max pushed down** -/
theorem reduce_min_sound (per : List (Option Row)) (q l : Int) :
    (pooled per).map (rowValue .min q l) = aggMin (per.map (Option.map (rowValue .min q l))) := by
  unfold aggMin; rw [foldl_minStep, present_map_optmap]
  unfold pooled
  cases h : per.filterMap id with
  | nil => simp [mergeRows]
  | cons r rs =>
    have hm : rs.map (rowValue .min q l) = rs.map (·.min) := List.map_congr_left (fun r _ => by simp [rowValue])
    simp [mergeRows, foldl_merge_min, hm, rowValue]

theorem reduce_max_sound (per : List (Option Row)) (q l : Int) :
    (pooled per).map (rowValue .max q l) = aggMax (per.map (Option.map (rowValue .max q l))) := by
  unfold aggMax; rw [foldl_maxStep, present_map_optmap]
  unfold pooled
  cases h : per.filterMap id with
  | nil => simp [mergeRows]
  | cons r rs =>
    have hm : rs.map (rowValue .max q l) = rs.map (·.max) := List.map_congr_left (fun r _ => by simp [rowValue])
    simp [mergeRows, foldl_merge_max, hm, rowValue]

/-- **avg pushed down, with the count carried**: the pooled average is (sum of the per-series sums) / (sum of the
    per-series counts) — NOT the engine's avg of the per-series averages, which weighs every series equally. -/
theorem reduce_avg_sound (per : List (Option Row)) (q : Int) :
    (pooled per).map (rowValue .avg q 1) =
      match aggSum (per.map (Option.map (rowValue .sumsec q 1))), aggSum (per.map (Option.map (rowValue .countsec q 1))) with
      | some s, some c => some (s / c)
      | _, _ => none := by
  rw [← (reduce_sum_sound per q 1).1, ← (reduce_count_sound per q 1).1]
  cases h : pooled per with
  | none => simp
  | some r => simp [rowValue]

/-- avg of averages is a different number (two series, 1 and 3 events): why only the pooled form is pushed down exactly -/
example :
    let per := [some (Row.merge (Row.ofEvent 2) (Row.ofEvent 4)), some (Row.ofEvent 12), none]
    (pooled per).map (rowValue .avg 1 1) = some 6 ∧ aggAvg (per.map (Option.map (rowValue .avg 1 1))) = some (15 / 2) := by
  decide +kernel

/-- non-vacuity of the reduce_* theorems: three series, one without a row -/
example :
    let per := [some (Row.ofEvent 5), none, some (Row.merge (Row.ofEvent (-1)) (Row.ofEvent 8))]
    (pooled per).map (rowValue .sumsec 5 5) = some (12 / 5) ∧ (pooled per).map (rowValue .min 5 5) = some (-1) ∧
    (pooled per).map (rowValue .count 5 5) = some 3 := by
  decide +kernel


/-! ### reduction rules: side conditions -/

/-- rule #1 (`f_over_time(m[r])`) as a closed form: it fires iff the range does not exceed the LOD step (and equals it for
    stddev/stdvar); the selector then carries `what = f`, `Range = r`, and stays ungrouped. -/
theorem rule1_closed_form (w : What) (needEq : Bool) (r step : Int) :
    evalReductionRules none [(.matrix r, 0), (.call (some w) needEq, 0)] step =
      if r > step then none
      else if needEq && r ≠ step then none
      else some { rule := 1, what := some w, step := r, upto := 0 } := by
  by_cases hr : r > step
  · simp [evalReductionRules, rulesLoop, rulesLevel, reductionRules, applyStep, reduceMatrix, reduceOverTime, reduceAgg,
      reduceSubquery, List.range, List.range.loop, hr]
  · by_cases hne : needEq = true ∧ ¬ r = step
    · simp [evalReductionRules, rulesLoop, rulesLevel, reductionRules, applyStep, reduceMatrix, reduceOverTime, reduceAgg,
        reduceSubquery, reduceWhat, List.range, List.range.loop, hr, hne]
    · simp [evalReductionRules, rulesLoop, rulesLevel, reductionRules, applyStep, reduceMatrix, reduceOverTime, reduceAgg,
        reduceSubquery, reduceWhat, List.range, List.range.loop, hr, hne]

example : evalReductionRules none [(.matrix 5, 0), (.call (some .sum) false, 0)] 5
    = some { rule := 1, what := some .sum, step := 5, upto := 0 } := by decide +kernel
example : evalReductionRules none [(.matrix 10, 0), (.call (some .sum) false, 0)] 5 = none := by decide +kernel
/-- rule #2 absorbs the aggregation above an over-time call; rule #0 an aggregation alone; a mismatching pair stops at #1 -/
example : evalReductionRules none [(.matrix 5, 0), (.call (some .sum) false, 0), (.agg (some .sumsec) false [1], 1)] 5
    = some { rule := 2, what := some .sum, step := 5, grouped := true, groupBy := [1], upto := 1 } := by decide +kernel
example : evalReductionRules none [(.matrix 5, 0), (.call (some .sum) false, 0), (.agg (some .min) false [1], 1)] 5
    = some { rule := 1, what := some .sum, step := 5, upto := 0 } := by decide +kernel
/-- an explicit `__what__` takes part in the matching (fixed code): max(m{__what__="sum"}) is not pushed down -/
example : evalReductionRules (some .sum) [(.agg (some .max) false [], 0)] 1 = none := by decide +kernel
example : evalReductionRules (some .sum) [(.agg (some .sumsec) false [], 0)] 1
    = some { rule := 0, what := some .sum, grouped := true, upto := 0 } := by decide +kernel


/-! ### the pinned tree drops the rule's `what`: a concrete storage where the property fails -/

def exStore : Store := ⟨[[(1, 1), (2, 1), (3, 1)], [(1, 1), (2, 2), (3, 1)]], [⟨0, 100, 2⟩, ⟨1, 100, 10⟩, ⟨0, 101, 4⟩]⟩
def exTS : TS := ⟨[99, 100, 101], 1, 1, 3, 1, 1, []⟩

/-- `sum(m)`: the engine-side evaluation (selector wrapped in `+ 0`) gives 12 and 4; the fixed tree pushes it down with
    the same result; the pinned tree asks the storage for `avg` of the group and returns 6 and 4;
    `count(m)` on the pinned tree is also 6 (the average!), the fixed tree counts 2 and 1. -/
theorem repo_reduction_violates :
    exec Cfg.fixed exStore exTS none [.brk, .agg .sum false []] = [⟨[], [some 12, some 4]⟩] ∧
    exec Cfg.fixed exStore exTS none [.agg .sum false []] = [⟨[], [some 12, some 4]⟩] ∧
    exec Cfg.repo exStore exTS none [.agg .sum false []] = [⟨[], [some 6, some 4]⟩] ∧
    exec Cfg.repo exStore exTS none [.agg .count false []] = [⟨[], [some 6, some 4]⟩] ∧
    exec Cfg.fixed exStore exTS none [.agg .count false []] = [⟨[], [some 2, some 1]⟩] := by
  decide +kernel



theorem searchLeft_le (t : List Int) (v : List Val) (wd : Wnd) (r l n : Nat) : (searchLeft t v wd r l n).1 ≤ l := by
  induction l generalizing n with
  | zero => simp [searchLeft]
  | succ l ih =>
    unfold searchLeft
    split
    · simp
    · exact Nat.le_succ_of_le (ih _)

theorem finishMove_shape (t : List Int) (wd wd' : Wnd) (r l n : Nat) (f : Bool) (h : finishMove t wd r l n f = some wd') :
    wd'.r = r ∧ wd'.l = l ∧ wd'.w = wd.w ∧ wd'.strict = wd.strict := by
  unfold finishMove at h
  split at h
  · split at h
    · cases h; simp
    · cases h
  · cases h; simp

/-- **cursor shape, every move on every grid** (what the repo's TestWindow* samples): the right edge moves left by exactly
    one, the left edge never passes it and never moves right, width and strictness are untouched. -/
theorem moveOneLeft_shape (t : List Int) (v : List Val) (wd wd' : Wnd) (h : moveOneLeft t v wd = some wd') :
    wd'.r = wd.r - 1 ∧ wd'.l ≤ wd'.r ∧ wd'.l ≤ wd.l ∧ wd'.w = wd.w ∧ wd'.strict = wd.strict := by
  unfold moveOneLeft at h
  split at h
  · cases h
  · have hl0 : leftStart wd (wd.r - 1) ≤ wd.r - 1 := by unfold leftStart; split <;> omega
    have hl1 : leftStart wd (wd.r - 1) ≤ wd.l := by unfold leftStart; split <;> omega
    obtain ⟨h1, h2, h3, h4⟩ := finishMove_shape _ _ _ _ _ _ _ h
    refine ⟨h1, ?_, ?_, h3, h4⟩
    · rw [h1, h2]
      split
      · exact hl0
      · exact Nat.le_trans (searchLeft_le _ _ _ _ _ _) hl0
    · rw [h2]
      split
      · exact hl1
      · exact Nat.le_trans (searchLeft_le _ _ _ _ _ _) hl1

example : moveOneLeft [0, 5, 10] [some 1, none, some 3] (newWindow 3 10 5 false)
    = some { w := 10, s := 5, l := 1, r := 2, n := 1, strict := false, done := false } := by decide +kernel

/- over_time_is_definition is proved below (uniform grids); non-uniform (multi-LOD) grids: correspondence + oracle only. -/

/-- over-time functions on a concrete series (uniform 5 s grid): sum over 10 s = the two points of the window, missing
    points skipped; count is 0 (not missing) on an empty window; a strict function sees an empty window when the range is
    narrower than the step, a non-strict one stretches to one point. -/
example : overTime [0, 5, 10, 15, 20] 10 5 .sum [some 1, some 2, none, some 4, some 8] = [none, none, some 2, some 4, some 12] := by
  decide +kernel
example : overTime [0, 5, 10, 15, 20] 10 5 .count [some 1, none, none, some 4, some 8] = [none, none, some 0, some 1, some 2] := by
  decide +kernel
example : overTime [0, 5, 10, 15, 20] 5 5 .max [some 1, some 2, none, some 4, some 8] = [none, some 2, none, some 4, some 8] := by
  decide +kernel
example : overTime [0, 5, 10, 15, 20] 3 5 .sum [some 1, some 2, none, some 4, some 8] = [none, none, none, none, none] := by
  decide +kernel
example : overTime [0, 5, 10, 15, 20] 3 5 .avg [some 1, some 2, none, some 4, some 8] = [none, some 2, none, some 4, some 8] := by
  decide +kernel

/-! ### vector-vector binary operators: one-to-one label-set matching -/

theorem find_self_of_noDup (k : Series → Tags) (l : List Series) (h : hasDup (l.map k) = false) :
    ∀ s ∈ l, l.find? (fun s' => k s' = k s) = some s := by
  induction l with
  | nil => intro s hs; cases hs
  | cons x xs ih =>
    simp only [List.map_cons, hasDup, Bool.or_eq_false_iff] at h
    obtain ⟨hx, hxs⟩ := h
    intro s hs
    rcases List.mem_cons.mp hs with rfl | hs
    · simp [List.find?]
    · have hne : k x ≠ k s := by
        intro heq
        have : (xs.map k).contains (k x) = true := by
          rw [List.contains_iff_mem]; rw [heq]; exact List.mem_map_of_mem hs
        rw [this] at hx; cases hx
      simp only [List.find?]
      simp [hne, ih hxs s hs]

theorem filterMap_eq_map_of_some {α β} (l : List α) (f : α → Option β) (g : α → β) (h : ∀ a ∈ l, f a = some (g a)) :
    l.filterMap f = l.map g := by
  induction l with
  | nil => rfl
  | cons x xs ih =>
    simp only [List.filterMap_cons, h x (List.mem_cons_self), List.map_cons]
    rw [ih (fun a ha => h a (List.mem_cons_of_mem _ ha))]

/-- **an operand matched against itself**: for a vector that is not the label-less scalar and whose matching label sets
    are pairwise different, `x op x` (any matching) pairs every series with itself: no series is lost, the values are
    `v op v` pointwise, the labels are the matching labels.  (This is the inner step of `agg (x op x) op agg (x)`.) -/
theorem binApply_self (op : BinOp) (m : Matching) (ss : List Series)
    (hs : isScalar ss = false) (hd : hasDup (ss.map (fun s => matchKey m s.tags)) = false) :
    binApply op m ss ss =
      some (ss.map (fun s => { tags := matchKey m s.tags, vals := zipVals (binVal op false) s.vals s.vals })) := by
  unfold binApply
  simp only [hs, hd, Bool.false_eq_true, if_false, Bool.or_self]
  congr 1
  apply filterMap_eq_map_of_some
  intro s hmem
  rw [find_self_of_noDup (fun s => matchKey m s.tags) ss hd s hmem]
  rfl

/-- every result series of a label-matched operation comes from a left series and a right series with the same matching
    label set, carries exactly that label set, and no left series contributes twice -/
theorem binApply_matched (op : BinOp) (m : Matching) (l r out : List Series)
    (hl : isScalar l = false) (hr : isScalar r = false) (h : binApply op m l r = some out) :
    out.length ≤ l.length ∧
    ∀ o ∈ out, ∃ a ∈ l, ∃ b ∈ r, matchKey m a.tags = matchKey m b.tags ∧ o.tags = matchKey m a.tags ∧
      o.vals = zipVals (binVal op false) a.vals b.vals := by
  unfold binApply at h
  simp only [hl, hr, Bool.false_eq_true, if_false] at h
  split at h
  · cases h
  · cases h
    refine ⟨List.length_filterMap_le _ _, ?_⟩
    intro o ho
    rw [List.mem_filterMap] at ho
    obtain ⟨a, ha, hfa⟩ := ho
    cases hf : r.find? (fun s' => matchKey m s'.tags = matchKey m a.tags) with
    | none => rw [hf] at hfa; cases hfa
    | some b =>
      rw [hf] at hfa
      simp only [Option.map_some, Option.some.injEq] at hfa
      have hb := List.find?_some hf
      have hbm := List.mem_of_find?_eq_some hf
      simp only [decide_eq_true_eq] at hb
      exact ⟨a, ha, b, hbm, hb.symm, by rw [← hfa], by rw [← hfa]⟩

/-- non-vacuity: two series matched on label 1; `on (1)` keeps only that label; a scalar left operand keeps the right points -/
example :
    binApply .mul (.on [1]) [⟨[(1, 1), (2, 1)], [some 2, none]⟩, ⟨[(1, 2), (2, 1)], [some 3, some 4]⟩]
                            [⟨[(1, 2)], [some 10, some 10]⟩, ⟨[(1, 1)], [some 5, some 5]⟩]
      = some [⟨[(1, 1)], [some 10, none]⟩, ⟨[(1, 2)], [some 30, some 40]⟩] := by decide +kernel
example :
    binApply .add .dflt [⟨[(1, 1)], [some 2]⟩, ⟨[(1, 1)], [some 3]⟩] [⟨[(1, 1)], [some 1]⟩] = none := by decide +kernel
example :
    binApply .gt .dflt [⟨[], [some 7, some 7]⟩] [⟨[(1, 1)], [some 5, some 9]⟩] = some [⟨[(1, 1)], [some 5, none]⟩] := by
  decide +kernel



/-! ### over-time functions on a uniform grid compute their definition over exactly the points of the range -/

/-- **over_time_is_definition** — on a uniform grid t[i] = t0 + i·s, for every series `v`, every range `w` and every
    `*_over_time` function `f`, the cursor-driven evaluation (newWindow / moveOneLeft / setValueAtRight / fillPrefixWith)
    returns at point `i` the function of the `k` points ending at `i` — `k` = ⌈w/s⌉ for avg/min/max/last (narrowest window
    at least `w` wide), ⌊w/s⌋ for sum/count/stdvar/stddev (widest window not wider than `w`); by `window_timestamps`
    these are exactly the points with timestamp in (t_i − w, t_i] when `w` is a multiple of `s` — the function's nil value
    (0 for count, missing otherwise) when none of them is present, and missing for the first `k` points (index 0 is a
    guard point: no complete window to its right). -/
theorem over_time_is_definition (t : List Int) (t0 s w : Int) (k : Nat) (f : OtFn) (v : List Val)
    (hg : uniform t t0 s) (hk : kSpec (otStrict f) w s k) (hv : v.length = t.length) (i : Nat) (hi : i < t.length) :
    (overTime t w s f v).getD i none =
      if i < k then none
      else if (present (slice v (i + 1 - k) i)).length = 0 then otNil f
      else otApply f (slice v (i + 1 - k) i) := by
  have h := overTimeWith_uniform ⟨t, t0, s, w, otStrict f, k, hg, hk⟩ (otApply f) (otNil f) v hv i hi
  unfold overTime
  rw [h]
  unfold expAt
  by_cases hik : i < k
  · simp [hik]
  · simp only [hik, if_false]
    by_cases h0 : (present (slice v (i + 1 - k) i)).length = 0 <;> simp [h0]

/-- the same for quantile_over_time (strict window, q ∈ [0,1]): the quantile of the present points of the window -/
theorem quantile_over_time_is_definition (t : List Int) (t0 s w : Int) (k : Nat) (q : Rat) (v : List Val)
    (hg : uniform t t0 s) (hk : kSpec true w s k) (hv : v.length = t.length) (i : Nat) (hi : i < t.length) :
    (quantileOverTime t w s q v).getD i none =
      if i < k then none else aggQuantile q (slice v (i + 1 - k) i) := by
  have h := overTimeWith_uniform ⟨t, t0, s, w, true, k, hg, hk⟩ (fun s => quantileSorted q (isort (present s))) none v hv i hi
  unfold quantileOverTime
  rw [h]
  unfold expAt
  by_cases hik : i < k
  · simp [hik]
  · simp only [hik, if_false]
    by_cases h0 : (present (slice v (i + 1 - k) i)).length = 0
    · have : present (slice v (i + 1 - k) i) = [] := List.eq_nil_of_length_eq_zero h0
      simp [aggQuantile, this, isort, quantileSorted]
    · simp [h0, aggQuantile]

/-- every over-time function sees the window only through its present points -/
theorem otApply_present_only (f : OtFn) (s : List Val) : otApply f s = otApply f ((present s).map some) := by
  cases f
  · simp [otApply, aggAvg, present_map_some]
  · exact aggMin_present s
  · exact aggMax_present s
  all_goals simp [otApply, lastPresent, present_map_some]

/-- non-vacuity: the 5 s grid of the examples below with a 10 s range (two points) and a 7 s range (two points when the
    window stretches, one when it is strict) -/
example : uniform [0, 5, 10, 15, 20] 0 5 ∧ kSpec false 10 5 2 ∧ kSpec true 10 5 2 ∧ kSpec false 7 5 2 ∧ kSpec true 7 5 1 := by
  refine ⟨?_, ?_, ?_, ?_, ?_⟩
  · intro i hi
    have : i = 0 ∨ i = 1 ∨ i = 2 ∨ i = 3 ∨ i = 4 := by
      have : i < 5 := hi
      omega
    rcases this with rfl | rfl | rfl | rfl | rfl <;> rfl
  all_goals (unfold kSpec; decide)
example : overTime [0, 5, 10, 15, 20] 7 5 .avg [some 1, some 2, none, some 4, some 8] = [none, none, some 2, some 4, some 6] ∧
    overTime [0, 5, 10, 15, 20] 7 5 .sum [some 1, some 2, none, some 4, some 8] = [none, some 2, none, some 4, some 8] := by
  decide +kernel


/-! ### reduction soundness lifted from rows to the storage query over events and to whole expressions -/

/-- the point of one group of stored series at time index `i`, as QuerySeries computes it (queryStorage's inner term) -/
def groupPoint (st : Store) (ts : TS) (w : What) (range : Int) (members : List Nat) (i : Nat) : Val :=
  (mergeRows (bucketRows st members (ts.times.getD i 0) (ts.times.getD i 0 + ts.width i))).map
    (rowValue w (queryStep ts range (ts.width i)) (ts.width i))

/-- the stored series whose tags project to `k` under the query's grouping -/
def membersOf (st : Store) (groupBy : List Nat) (k : Tags) : List Nat :=
  (((List.range st.tags.length).map (fun i => (keyOf false groupBy (st.tags.getD i []), i))).filter (fun p => p.1 = k)).map (·.2)

/-- queryStorage, restated: one series per grouping key with `groupPoint` at every time index -/
theorem queryStorage_eq (st : Store) (ts : TS) (w : What) (groupBy : List Nat) (range : Int) :
    queryStorage st ts w groupBy range =
      ((dedupKeys ((List.range st.tags.length).map (fun i => keyOf false groupBy (st.tags.getD i [])))).map (fun k =>
        ({ tags := k, vals := (List.range ts.times.length).map (groupPoint st ts w range (membersOf st groupBy k)) } : Series))).filter
        (fun s => (present s.vals).length ≠ 0) := by
  unfold queryStorage membersOf groupPoint
  simp only [List.map_map]
  rfl

theorem membersOf_nodup (st : Store) (groupBy : List Nat) (k : Tags) : (membersOf st groupBy k).Nodup := by
  unfold membersOf
  have h : ∀ (l : List Nat), l.Nodup →
      (((l.map (fun i => (keyOf false groupBy (st.tags.getD i []), i))).filter (fun p => p.1 = k)).map (·.2)).Nodup := by
    intro l hl
    induction l with
    | nil => simp
    | cons a as ih =>
      have ha : a ∉ as := (List.nodup_cons.mp hl).1
      have has := ih (List.nodup_cons.mp hl).2
      simp only [List.map_cons, List.filter_cons]
      split
      · simp only [List.map_cons, List.nodup_cons]
        refine ⟨?_, has⟩
        intro hmem
        simp only [List.mem_map, List.mem_filter] at hmem
        obtain ⟨p, ⟨⟨i, hi, rfl⟩, _⟩, hp⟩ := hmem
        exact ha (hp ▸ hi)
      · exact has
  exact h _ List.nodup_range

/-- lifting a row-level push-down fact to a group of stored series in a bucket -/
theorem group_lift (st : Store) (members : List Nat) (hnd : members.Nodup) (lo hi : Int) (f : Row → Rat) (agg : List Val → Val)
    (hrow : ∀ per : List (Option Row), (pooled per).map f = agg (per.map (Option.map f))) :
    (mergeRows (bucketRows st members lo hi)).map f =
      agg (members.map (fun m => (mergeRows (bucketRows st [m] lo hi)).map f)) := by
  rw [bucket_group_eq_pooled st members hnd lo hi]
  have := hrow (members.map (fun m => mergeRows (bucketRows st [m] lo hi)))
  unfold pooled at this
  rw [this, List.map_map]
  rfl

/-- **push-down of sum / count / min / max over events** (∀ storage, ∀ group of series, ∀ time index, ∀ range/steps): what
    the pre-aggregating storage returns for the whole group equals the engine's aggregate over what it returns for every
    series of the group separately (missing where the series has no row in the bucket). -/
theorem groupPoint_pushdown (st : Store) (ts : TS) (range : Int) (members : List Nat) (hnd : members.Nodup) (i : Nat) :
    groupPoint st ts .sumsec range members i = aggSum (members.map (fun m => groupPoint st ts .sumsec range [m] i)) ∧
    groupPoint st ts .sum range members i = aggSum (members.map (fun m => groupPoint st ts .sum range [m] i)) ∧
    groupPoint st ts .countsec range members i = aggSum (members.map (fun m => groupPoint st ts .countsec range [m] i)) ∧
    groupPoint st ts .count range members i = aggSum (members.map (fun m => groupPoint st ts .count range [m] i)) ∧
    groupPoint st ts .min range members i = aggMin (members.map (fun m => groupPoint st ts .min range [m] i)) ∧
    groupPoint st ts .max range members i = aggMax (members.map (fun m => groupPoint st ts .max range [m] i)) := by
  unfold groupPoint
  exact ⟨group_lift st members hnd _ _ _ aggSum (fun per => (reduce_sum_sound per _ _).1),
         group_lift st members hnd _ _ _ aggSum (fun per => (reduce_sum_sound per _ _).2),
         group_lift st members hnd _ _ _ aggSum (fun per => (reduce_count_sound per _ _).1),
         group_lift st members hnd _ _ _ aggSum (fun per => (reduce_count_sound per _ _).2),
         group_lift st members hnd _ _ _ aggMin (fun per => reduce_min_sound per _ _),
         group_lift st members hnd _ _ _ aggMax (fun per => reduce_max_sound per _ _)⟩

/-- non-vacuity: two series in one group, one of them without an event in the bucket of index 1 -/
example : groupPoint exStore exTS .sumsec 0 [0, 1] 1 = some 12 ∧ groupPoint exStore exTS .sumsec 0 [0, 1] 2 = some 4 ∧
    groupPoint exStore exTS .sumsec 0 [1] 2 = none := by decide +kernel


/-- the tag indices a pushed-down aggregation groups the storage query by -/
def pushGroupBy (without : Bool) (labels : List Nat) : List Nat :=
  if without then allTags.filter (fun t => !labels.contains t) else labels

/-- rule #0, whole expression: `op by/without (ls) (m)` with op ∈ sum/count/min/max/avg IS the storage query with the rule's
    `what`, grouped by the aggregation's labels (no side condition). -/
theorem rule0_expression (st : Store) (ts : TS) (op : AggOp) (w : What) (wo : Bool) (ls : List Nat) (hw : aggWhat op = some w) :
    evalChain Cfg.fixed st ts none [.agg op wo ls] = queryStorage st ts w (pushGroupBy wo ls) 0 := by
  unfold evalChain
  simp [astList, astOf, hw, evalReductionRules, rulesLoop, rulesLevel, reductionRules, applyStep, reduceAgg, reduceMatrix,
    reduceOverTime, reduceSubquery, reduceWhat, List.range, List.range.loop, Cfg.fixed, pushGroupBy]

/-- rule #1, whole expression: `f_over_time(m[r])` is the storage query `what = f, Range = r` over all tags exactly when
    r ≤ step (= step for stddev/stdvar); otherwise the engine evaluates the window over the default (avg) series. -/
theorem rule1_expression (st : Store) (ts : TS) (f : OtFn) (w : What) (ne : Bool) (r : Int) (hw : otWhat f = (some w, ne)) :
    evalChain Cfg.fixed st ts none [.ot f r false] =
      if r > ts.lodStep ∨ (ne = true ∧ r ≠ ts.lodStep)
      then (queryStorage st ts .avg allTags 0).map (fun s => { s with vals := overTime ts.times r ts.lodStep f s.vals })
      else queryStorage st ts w allTags r := by
  unfold evalChain
  have h := rule1_closed_form w ne r ts.lodStep
  simp only [astList, astOf, hw, List.append_nil, Cfg.fixed, if_true, Bool.false_eq_true, if_false]
  rw [h]
  by_cases h1 : r > ts.lodStep
  · simp [h1, applyNode]
  · by_cases h2 : (ne && decide (r ≠ ts.lodStep)) = true
    · have h2' : ne = true ∧ r ≠ ts.lodStep := by simpa using h2
      simp [h1, h2, h2', applyNode]
    · have h2' : ¬ (ne = true ∧ r ≠ ts.lodStep) := by simpa using h2
      simp only [h1, h2, if_false, Bool.false_eq_true]
      simp [h1, h2']

theorem reduceWhat_none (b : What) : reduceWhat none b = (some b, true) := rfl

/-- rule #2, whole expression: `op by/without (ls) (f_over_time(m[r]))` is ONE storage query (the blended `what`, the
    aggregation's grouping, Range = r) when r ≤ step (= step for stddev/stdvar) and the two `what`s are compatible. -/
theorem rule2_expression (st : Store) (ts : TS) (f : OtFn) (op : AggOp) (w1 w2 w : What) (ne wo : Bool) (ls : List Nat) (r : Int)
    (hw1 : otWhat f = (some w1, ne)) (hw2 : aggWhat op = some w2) (hcomp : reduceWhat (some w1) w2 = (some w, true))
    (hr : r ≤ ts.lodStep) (hne : ne = true → r = ts.lodStep) :
    evalChain Cfg.fixed st ts none [.ot f r false, .agg op wo ls] = queryStorage st ts w (pushGroupBy wo ls) r := by
  have hr' : ¬ r > ts.lodStep := not_lt.mpr hr
  unfold evalChain
  cases ne with
  | false =>
    simp [astList, astOf, hw1, hw2, hcomp, reduceWhat_none, evalReductionRules, rulesLoop, rulesLevel, reductionRules, applyStep,
      reduceAgg, reduceMatrix, reduceOverTime, reduceSubquery, List.range, List.range.loop, Cfg.fixed, pushGroupBy, hr']
  | true =>
    have he : r = ts.lodStep := hne rfl
    subst he
    simp [astList, astOf, hw1, hw2, hcomp, reduceWhat_none, evalReductionRules, rulesLoop, rulesLevel, reductionRules, applyStep,
      reduceAgg, reduceMatrix, reduceOverTime, reduceSubquery, List.range, List.range.loop, Cfg.fixed, pushGroupBy]

/-- rule #3, whole expression: `f_over_time((op by/without (ls) (m))[r:])` likewise. -/
theorem rule3_expression (st : Store) (ts : TS) (f : OtFn) (op : AggOp) (w1 w2 w : What) (ne wo : Bool) (ls : List Nat) (r : Int)
    (hw1 : otWhat f = (some w1, ne)) (hw2 : aggWhat op = some w2) (hcomp : reduceWhat (some w2) w1 = (some w, true))
    (hr : r ≤ ts.lodStep) (hne : ne = true → r = ts.lodStep) :
    evalChain Cfg.fixed st ts none [.agg op wo ls, .ot f r true] = queryStorage st ts w (pushGroupBy wo ls) r := by
  have hr' : ¬ r > ts.lodStep := not_lt.mpr hr
  unfold evalChain
  cases ne with
  | false =>
    simp [astList, astOf, hw1, hw2, hcomp, reduceWhat_none, evalReductionRules, rulesLoop, rulesLevel, reductionRules, applyStep,
      reduceAgg, reduceMatrix, reduceOverTime, reduceSubquery, List.range, List.range.loop, Cfg.fixed, pushGroupBy, hr']
  | true =>
    have he : r = ts.lodStep := hne rfl
    subst he
    simp [astList, astOf, hw1, hw2, hcomp, reduceWhat_none, evalReductionRules, rulesLoop, rulesLevel, reductionRules, applyStep,
      reduceAgg, reduceMatrix, reduceOverTime, reduceSubquery, List.range, List.range.loop, Cfg.fixed, pushGroupBy]

example : reduceWhat (some .sum) .sumsec = (some .sum, true) ∧ reduceWhat (some .sumsec) .sum = (some .sum, true) ∧
    reduceWhat (some .min) .min = (some .min, true) ∧ (reduceWhat (some .sum) .min).2 = false := by decide


/-- the `what`s whose push-down is exact, with the engine aggregator they correspond to -/
def exactPush : What → Option (List Val → Val)
  | .sumsec => some aggSum | .sum => some aggSum | .countsec => some aggSum | .count => some aggSum
  | .min => some aggMin | .max => some aggMax
  | _ => none

theorem groupPoint_exactPush (st : Store) (ts : TS) (w : What) (agg : List Val → Val) (hw : exactPush w = some agg)
    (range : Int) (members : List Nat) (hnd : members.Nodup) (i : Nat) :
    groupPoint st ts w range members i = agg (members.map (fun m => groupPoint st ts w range [m] i)) := by
  have h := groupPoint_pushdown st ts range members hnd i
  cases w <;> simp only [exactPush, Option.some.injEq] at hw <;> (try cases hw) <;> (try subst hw)
  · exact h.2.2.2.1
  · exact h.2.2.1
  · exact h.2.2.2.2.1
  · exact h.2.2.2.2.2
  · exact h.2.1
  · exact h.1

/-- **a pushed-down storage query is the engine's aggregation of the per-series storage values** (whole query: every group,
    every time index; ∀ storage, time scale, grouping, Range): for what ∈ sum/sumsec/count/countsec/min/max the answer of
    `QuerySeries(what, groupBy, Range)` has, for every grouping key, the points agg_what(values of the group's stored
    series, each asked for separately with the same what and Range). -/
theorem pushed_query_is_aggregate (st : Store) (ts : TS) (w : What) (agg : List Val → Val) (hw : exactPush w = some agg)
    (groupBy : List Nat) (range : Int) :
    queryStorage st ts w groupBy range =
      ((dedupKeys ((List.range st.tags.length).map (fun i => keyOf false groupBy (st.tags.getD i [])))).map (fun k =>
        ({ tags := k, vals := (List.range ts.times.length).map (fun i =>
            agg ((membersOf st groupBy k).map (fun m => groupPoint st ts w range [m] i))) } : Series))).filter
        (fun s => (present s.vals).length ≠ 0) := by
  rw [queryStorage_eq]
  congr 1
  apply List.map_congr_left
  intro k _
  congr 1
  apply List.map_congr_left
  intro i _
  exact groupPoint_exactPush st ts w agg hw range _ (membersOf_nodup st groupBy k) i

/-- **reduction soundness, whole expressions** — the four rule shapes with `sum` (likewise min, max; count with countsec/count):
    under exactly the rules' side conditions the evaluator's result IS the grouped aggregate of per-series storage values. -/
theorem reduction_sound_sum (st : Store) (ts : TS) (wo : Bool) (ls : List Nat) (r : Int) (hr : r ≤ ts.lodStep) :
    let grouped (w : What) (G : List Nat) (rng : Int) : List Series :=
      ((dedupKeys ((List.range st.tags.length).map (fun i => keyOf false G (st.tags.getD i [])))).map (fun k =>
        ({ tags := k, vals := (List.range ts.times.length).map (fun i =>
            aggSum ((membersOf st G k).map (fun m => groupPoint st ts w rng [m] i))) } : Series))).filter
        (fun s => (present s.vals).length ≠ 0)
    -- #0  sum by/without (ls) (m)
    evalChain Cfg.fixed st ts none [.agg .sum wo ls] = grouped .sumsec (pushGroupBy wo ls) 0 ∧
    -- #1  sum_over_time(m[r]),  r ≤ step
    evalChain Cfg.fixed st ts none [.ot .sum r false] = grouped .sum allTags r ∧
    -- #2  sum by/without (ls) (sum_over_time(m[r]))
    evalChain Cfg.fixed st ts none [.ot .sum r false, .agg .sum wo ls] = grouped .sum (pushGroupBy wo ls) r ∧
    -- #3  sum_over_time((sum by/without (ls) (m))[r:])
    evalChain Cfg.fixed st ts none [.agg .sum wo ls, .ot .sum r true] = grouped .sum (pushGroupBy wo ls) r := by
  intro grouped
  have hr' : ¬ (r > ts.lodStep ∨ (false = true ∧ r ≠ ts.lodStep)) := by
    intro h; rcases h with h | h
    · exact absurd h (not_lt.mpr hr)
    · exact absurd h.1 (by decide)
  refine ⟨?_, ?_, ?_, ?_⟩
  · rw [rule0_expression st ts .sum .sumsec wo ls rfl]
    exact pushed_query_is_aggregate st ts .sumsec aggSum rfl _ _
  · rw [rule1_expression st ts .sum .sum false r rfl, if_neg hr']
    exact pushed_query_is_aggregate st ts .sum aggSum rfl _ _
  · rw [rule2_expression st ts .sum .sum .sum .sumsec .sum false wo ls r rfl rfl (by decide) hr (by intro h; cases h)]
    exact pushed_query_is_aggregate st ts .sum aggSum rfl _ _
  · rw [rule3_expression st ts .sum .sum .sum .sumsec .sum false wo ls r rfl rfl (by decide) hr (by intro h; cases h)]
    exact pushed_query_is_aggregate st ts .sum aggSum rfl _ _

/-- non-vacuity / the side condition matters: with r > step rule #1 does not fire and the engine evaluates the window -/
example : evalChain Cfg.fixed exStore exTS none [.ot .sum 1 false] = queryStorage exStore exTS .sum allTags 1 ∧
    evalChain Cfg.fixed exStore exTS none [.ot .sum 2 false] ≠ queryStorage exStore exTS .sum allTags 2 := by
  decide +kernel

/-- **the excluded case (known finding reduce-over-time-stdvar, reduce-over-time-stddev), with witness**: for two different events in one
    bucket the pushed-down `what = stdvar` is the sample variance, twice the population variance funcStdVarOverTime computes
    over the same two points — stdvar/stddev are NOT in `exactPush`. -/
theorem stdvar_pushdown_is_not_population (a b : Rat) (hab : a ≠ b) (q l : Int) :
    rowValue .stdvar q l (Row.merge (Row.ofEvent a) (Row.ofEvent b)) = 2 * varOf [a, b] ∧ varOf [a, b] ≠ 0 := by
  have hne : a - b ≠ 0 := sub_ne_zero.mpr hab
  have hsq : 0 < (a - b) * (a - b) := mul_self_pos.mpr hne
  have hv : varOf [a, b] = (a - b) * (a - b) / 4 := by
    simp only [varOf, ratSum, List.foldl, List.map, List.length]
    norm_num
    ring
  constructor
  · rw [hv]
    simp only [rowValue, Row.merge, Row.ofEvent]
    have h2 : ¬ ((1 : Rat) + 1 < 2) := by norm_num
    simp only [h2, if_false]
    have hx : (a * a + b * b - (a + b) * (a + b) / (1 + 1)) / (1 + 1 - 1) = (a - b) * (a - b) / 2 := by ring
    have hnn : ¬ ((a * a + b * b - (a + b) * (a + b) / (1 + 1)) / (1 + 1 - 1) < 0) := by
      rw [hx]
      have : 0 < (a - b) * (a - b) / 2 := by positivity
      linarith
    show (if (a * a + b * b - (a + b) * (a + b) / (1 + 1)) / (1 + 1 - 1) < 0 then 0
      else (a * a + b * b - (a + b) * (a + b) / (1 + 1)) / (1 + 1 - 1)) = 2 * ((a - b) * (a - b) / 4)
    rw [if_neg hnn, hx]; ring
  · rw [hv]; positivity
example : exactPush .stdvar = none ∧ exactPush .stddev = none ∧ exactPush .avg = none := by decide



/-! ### quantile for arbitrary q ∈ [0,1] -/

theorem insertSorted_perm (x : Rat) (l : List Rat) : (insertSorted x l).Perm (x :: l) := by
  induction l with
  | nil => exact List.Perm.refl _
  | cons y ys ih =>
    unfold insertSorted
    split
    · exact List.Perm.refl _
    · exact (List.Perm.cons y ih).trans (List.Perm.swap x y ys)

theorem isort_perm (l : List Rat) : (isort l).Perm l := by
  induction l with
  | nil => exact List.Perm.refl _
  | cons x xs ih =>
    show (insertSorted x (isort xs)).Perm (x :: xs)
    exact (insertSorted_perm x _).trans (List.Perm.cons x ih)

theorem insertSorted_sorted (x : Rat) (l : List Rat) (h : l.Pairwise (· ≤ ·)) : (insertSorted x l).Pairwise (· ≤ ·) := by
  induction l with
  | nil => simp [insertSorted]
  | cons y ys ih =>
    unfold insertSorted
    have hy := List.pairwise_cons.mp h
    split
    · rename_i hxy
      refine List.pairwise_cons.mpr ⟨?_, h⟩
      intro z hz
      rcases List.mem_cons.mp hz with rfl | hz
      · exact hxy
      · exact le_trans hxy (hy.1 z hz)
    · rename_i hxy
      have hyx : y ≤ x := le_of_lt (not_le.mp hxy)
      refine List.pairwise_cons.mpr ⟨?_, ih hy.2⟩
      intro z hz
      have : z ∈ x :: ys := (insertSorted_perm x ys).subset hz
      rcases List.mem_cons.mp this with rfl | hz'
      · exact hyx
      · exact hy.1 z hz'

theorem isort_sorted (l : List Rat) : (isort l).Pairwise (· ≤ ·) := by
  induction l with
  | nil => simp [isort]
  | cons x xs ih => exact insertSorted_sorted x _ ih

/-- **quantile is a function of the multiset of present points**: reordering the series of a group (Go map order, the
    order the storage returns them in) or moving missing points around does not change it -/
theorem aggQuantile_perm (q : Rat) (c1 c2 : List Val) (h : c1.Perm c2) : aggQuantile q c1 = aggQuantile q c2 := by
  unfold aggQuantile
  have hp : (present c1).Perm (present c2) := List.Perm.filterMap id h
  have : isort (present c1) = isort (present c2) :=
    List.Perm.eq_of_pairwise' (r := (· ≤ ·)) (isort_sorted _) (isort_sorted _)
      ((isort_perm _).trans (hp.trans (isort_perm _).symm))
  rw [this]

/-- the rank and the fraction of the quantile position q·(n−1) -/
theorem floor_bounds (x : Rat) (hx : 0 ≤ x) : ((x.floor.toNat : Nat) : Rat) ≤ x ∧ x < ((x.floor.toNat : Nat) : Rat) + 1 := by
  have h0 : 0 ≤ x.floor := by
    show 0 ≤ ⌊x⌋
    exact Int.floor_nonneg.mpr hx
  have hc : ((x.floor.toNat : Nat) : Rat) = ((x.floor : Int) : Rat) := by
    have : ((x.floor.toNat : Nat) : Int) = x.floor := Int.toNat_of_nonneg h0
    exact_mod_cast congrArg (fun z : Int => (z : Rat)) this
  rw [hc]
  exact ⟨Int.floor_le x, Int.lt_floor_add_one x⟩

/-- **quantile(q, …) for every q ∈ [0,1] is the linear interpolation between the two closest ranks of the sorted present
    points**: with n points x₀ ≤ … ≤ x_{n−1}, position p = q·(n−1), rank i = ⌊p⌋ and fraction φ = p − i ∈ [0,1), the value is
    x_i + φ·(x_{i'} − x_i) with i' = min(n−1, i+1); it lies between x_i and x_{i'}. -/
theorem quantile_def (q : Rat) (xs : List Rat) (hq0 : 0 ≤ q) (hq1 : q ≤ 1) (hne : xs ≠ []) (hs : xs.Pairwise (· ≤ ·)) :
    let p : Rat := q * ((xs.length : Rat) - 1)
    let i : Nat := p.floor.toNat
    let i' : Nat := min (xs.length - 1) (i + 1)
    let φ : Rat := p - (i : Rat)
    i ≤ xs.length - 1 ∧ 0 ≤ φ ∧ φ < 1 ∧
    quantileSorted q xs = some (xs.getD i 0 + φ * (xs.getD i' 0 - xs.getD i 0)) ∧
    xs.getD i 0 ≤ xs.getD i 0 + φ * (xs.getD i' 0 - xs.getD i 0) ∧
    xs.getD i 0 + φ * (xs.getD i' 0 - xs.getD i 0) ≤ xs.getD i' 0 := by
  intro p i i' φ
  have hn : 1 ≤ xs.length := List.length_pos_iff.mpr hne
  have hn' : (1 : Rat) ≤ (xs.length : Rat) := by exact_mod_cast hn
  have hp0 : 0 ≤ p := mul_nonneg hq0 (by linarith)
  have hpn : p ≤ (xs.length : Rat) - 1 := by
    have : q * ((xs.length : Rat) - 1) ≤ 1 * ((xs.length : Rat) - 1) := mul_le_mul_of_nonneg_right hq1 (by linarith)
    linarith
  obtain ⟨hfl, hfu⟩ := floor_bounds p hp0
  have hi : i ≤ xs.length - 1 := by
    have h1 : (i : Rat) ≤ (xs.length : Rat) - 1 := le_trans hfl hpn
    have h2 : ((xs.length - 1 : Nat) : Rat) = (xs.length : Rat) - 1 := by
      rw [Nat.cast_sub hn]; simp
    have : (i : Rat) ≤ ((xs.length - 1 : Nat) : Rat) := by rw [h2]; exact h1
    exact_mod_cast this
  have hφ0 : 0 ≤ φ := by show 0 ≤ p - (i : Rat); linarith
  have hφ1 : φ < 1 := by show p - (i : Rat) < 1; linarith
  have hmono : xs.getD i 0 ≤ xs.getD i' 0 := by
    by_cases hlt : i + 1 ≤ xs.length - 1
    · have hi' : i' = i + 1 := by show min (xs.length - 1) (i + 1) = i + 1; omega
      rw [hi']
      have h1 : i < xs.length := by omega
      have h2 : i + 1 < xs.length := by omega
      rw [List.getD_eq_getElem?_getD, List.getD_eq_getElem?_getD, List.getElem?_eq_getElem h1, List.getElem?_eq_getElem h2]
      exact List.pairwise_iff_getElem.mp hs i (i + 1) h1 h2 (by omega)
    · have hi' : i' = i := by show min (xs.length - 1) (i + 1) = i; omega
      rw [hi']
  have hval : quantileSorted q xs = some (xs.getD i 0 + φ * (xs.getD i' 0 - xs.getD i 0)) := by
    unfold quantileSorted
    have : ¬ xs.length = 0 := by omega
    simp only [this, if_false]
    congr 1
    by_cases hlt : i + 1 ≤ xs.length - 1
    · have hi' : i' = i + 1 := by show min (xs.length - 1) (i + 1) = i + 1; omega
      show xs.getD i 0 * ((i' : Rat) - p) + xs.getD i' 0 * (1 - ((i' : Rat) - p)) = _
      rw [hi']; push_cast; show _ = xs.getD i 0 + (p - (i : Rat)) * (xs.getD (i + 1) 0 - xs.getD i 0); ring
    · have hi' : i' = i := by show min (xs.length - 1) (i + 1) = i; omega
      show xs.getD i 0 * ((i' : Rat) - p) + xs.getD i' 0 * (1 - ((i' : Rat) - p)) = _
      rw [hi']; show _ = xs.getD i 0 + (p - (i : Rat)) * (xs.getD i 0 - xs.getD i 0); ring
  refine ⟨hi, hφ0, hφ1, hval, ?_, ?_⟩
  · nlinarith
  · nlinarith

/-- the operator: quantile of a column = `quantile_def` on the sorted present points -/
theorem aggQuantile_sorted_present (q : Rat) (col : List Val) :
    aggQuantile q col = quantileSorted q (isort (present col)) ∧ (isort (present col)).Pairwise (· ≤ ·) ∧
    (isort (present col)).Perm (present col) := ⟨rfl, isort_sorted _, isort_perm _⟩

example : aggQuantile (3/4) [some 10, none, some 40, some 20] = some 30 ∧
    aggQuantile (3/4) [some 40, some 20, none, none, some 10] = some 30 := by decide +kernel

/-! ### topk / bottomk: per-series weight semantics -/

/-- the series kept from one group: the first `k` after ordering the (weight, series) pairs -/
def selectTop (desc : Bool) (k : Nat) (ws : List (Rat × Series)) : List (Rat × Series) := (ws.foldr (insertBy desc) []).take k

/-- `a` may stand before `b` -/
def before (desc : Bool) (a b : Rat × Series) : Prop := if desc then b.1 ≤ a.1 else a.1 ≤ b.1

/-- the comparison insertBy makes -/
def goesFirst (desc : Bool) (x y : Rat × Series) : Bool := if desc then decide (y.1 < x.1) else decide (x.1 < y.1)

theorem insertBy_cons (desc : Bool) (x y : Rat × Series) (ys : List (Rat × Series)) :
    insertBy desc x (y :: ys) = if goesFirst desc x y then x :: y :: ys else y :: insertBy desc x ys := rfl

theorem insertBy_perm (desc : Bool) (x : Rat × Series) (l : List (Rat × Series)) : (insertBy desc x l).Perm (x :: l) := by
  induction l with
  | nil => exact List.Perm.refl _
  | cons y ys ih =>
    rw [insertBy_cons]
    by_cases hc : goesFirst desc x y = true
    · simp only [hc, if_true]; exact List.Perm.refl _
    · simp only [hc, if_false]
      exact (List.Perm.cons y ih).trans (List.Perm.swap x y ys)

theorem before_trans (desc : Bool) (a b c : Rat × Series) (h1 : before desc a b) (h2 : before desc b c) : before desc a c := by
  unfold before at *
  cases desc <;> simp at * <;> linarith

theorem goesFirst_before (desc : Bool) (x y : Rat × Series) (h : goesFirst desc x y = true) : before desc x y := by
  unfold goesFirst at h; unfold before
  cases desc <;> simp at h ⊢ <;> exact le_of_lt h

theorem not_goesFirst_before (desc : Bool) (x y : Rat × Series) (h : ¬ goesFirst desc x y = true) : before desc y x := by
  unfold goesFirst at h; unfold before
  cases desc <;> simp at h ⊢ <;> exact h

theorem insertBy_sorted (desc : Bool) (x : Rat × Series) (l : List (Rat × Series)) (h : l.Pairwise (before desc)) :
    (insertBy desc x l).Pairwise (before desc) := by
  induction l with
  | nil => simp [insertBy]
  | cons y ys ih =>
    rw [insertBy_cons]
    have hy := List.pairwise_cons.mp h
    by_cases hc : goesFirst desc x y = true
    · simp only [hc, if_true]
      have hxy := goesFirst_before desc x y hc
      refine List.pairwise_cons.mpr ⟨?_, h⟩
      intro z hz
      rcases List.mem_cons.mp hz with rfl | hz
      · exact hxy
      · exact before_trans desc x y z hxy (hy.1 z hz)
    · simp only [hc, if_false]
      have hyx := not_goesFirst_before desc x y hc
      refine List.pairwise_cons.mpr ⟨?_, ih hy.2⟩
      intro z hz
      have : z ∈ x :: ys := (insertBy_perm desc x ys).subset hz
      rcases List.mem_cons.mp this with rfl | hz'
      · exact hyx
      · exact hy.1 z hz'

theorem sortBy_spec (desc : Bool) (ws : List (Rat × Series)) :
    (ws.foldr (insertBy desc) []).Perm ws ∧ (ws.foldr (insertBy desc) []).Pairwise (before desc) := by
  induction ws with
  | nil => exact ⟨List.Perm.refl _, List.Pairwise.nil⟩
  | cons x xs ih =>
    exact ⟨(insertBy_perm desc x _).trans (List.Perm.cons x ih.1), insertBy_sorted desc x _ ih.2⟩

/-- **topk_def / bottomk_def** (per-series weight semantics, one group): the kept series are min(k, n) of the group's n
    series, kept and dropped series together are exactly the group, and no dropped series is heavier (topk) / lighter
    (bottomk) than a kept one. -/
theorem topk_def (desc : Bool) (k : Nat) (ws : List (Rat × Series)) :
    let kept := selectTop desc k ws
    let dropped := (ws.foldr (insertBy desc) []).drop k
    (kept ++ dropped).Perm ws ∧ kept.length = min k ws.length ∧
    ∀ a ∈ kept, ∀ b ∈ dropped, (if desc then b.1 ≤ a.1 else a.1 ≤ b.1) := by
  intro kept dropped
  obtain ⟨hperm, hsorted⟩ := sortBy_spec desc ws
  refine ⟨?_, ?_, ?_⟩
  · show ((ws.foldr (insertBy desc) []).take k ++ (ws.foldr (insertBy desc) []).drop k).Perm ws
    rw [List.take_append_drop]; exact hperm
  · show ((ws.foldr (insertBy desc) []).take k).length = min k ws.length
    rw [List.length_take, hperm.length_eq]
  · intro a ha b hb
    have h := hsorted
    rw [← List.take_append_drop k (ws.foldr (insertBy desc) [])] at h
    exact (List.pairwise_append.mp h).2.2 a ha b hb

/-- funcTopK is `selectTop` of every group's (weight, series) pairs -/
theorem topK_eq (ts : TS) (desc : Bool) (k : Int) (wo : Bool) (ls : List Nat) (ss : List Series) (hk : 0 < k) :
    topK ts desc k wo ls ss =
      let ss' := if ts.viewStart = ts.viewEnd then ss else ss.filter (hasPresentInView ts)
      ((dedupKeys (ss'.map (fun s => keyOf wo ls s.tags))).map (fun key =>
        (selectTop desc k.toNat ((weights ts (ss'.filter (fun s => keyOf wo ls s.tags = key))).zip
          (ss'.filter (fun s => keyOf wo ls s.tags = key)))).map (·.2))).flatten := by
  unfold topK selectTop
  have : ¬ k ≤ 0 := by omega
  simp only [this, if_false]

example :
    selectTop true 2 [(3, ⟨[(1, 1)], []⟩), (9, ⟨[(1, 2)], []⟩), (5, ⟨[(1, 3)], []⟩)] = [(9, ⟨[(1, 2)], []⟩), (5, ⟨[(1, 3)], []⟩)] ∧
    selectTop false 1 [(3, ⟨[(1, 1)], []⟩), (9, ⟨[(1, 2)], []⟩), (5, ⟨[(1, 3)], []⟩)] = [(3, ⟨[(1, 1)], []⟩)] := by
  decide +kernel


/-! ### grouping is by the SET of resolved tag indices -/

theorem contains_eraseDups (ls : List Nat) (x : Nat) : ls.eraseDups.contains x = ls.contains x := by
  rw [Bool.eq_iff_iff]
  simp only [List.contains_iff_mem, List.mem_eraseDups]

/-- **groupKey_dedup** — naming a tag twice in by/without (repeated, or by two of its names: both resolve to the same
    index) changes nothing: the grouping key of every series is the key under the de-duplicated label list. -/
theorem groupKey_dedup (without : Bool) (labels : List Nat) (tags : Tags) :
    keyOf without labels tags = keyOf without labels.eraseDups tags := by
  unfold keyOf
  apply List.filter_congr
  intro t _
  rw [contains_eraseDups]

theorem groupKey_perm_labels (without : Bool) (l1 l2 : List Nat) (h : ∀ x, x ∈ l1 ↔ x ∈ l2) (tags : Tags) :
    keyOf without l1 tags = keyOf without l2 tags := by
  unfold keyOf
  apply List.filter_congr
  intro t _
  have : l1.contains t.1 = l2.contains t.1 := by
    rw [Bool.eq_iff_iff]; simp only [List.contains_iff_mem]; exact h t.1
  rw [this]

/-- the engine-side aggregation, the pushed-down storage query and topk depend on the grouping labels only through their set -/
theorem aggregate_dedup (n : Nat) (f : List Val → Val) (without : Bool) (labels : List Nat) (ss : List Series) :
    aggregate n f without labels ss = aggregate n f without labels.eraseDups ss := by
  unfold aggregate
  simp only [← groupKey_dedup]

theorem queryStorage_dedup (st : Store) (ts : TS) (w : What) (groupBy : List Nat) (range : Int) :
    queryStorage st ts w groupBy range = queryStorage st ts w groupBy.eraseDups range := by
  unfold queryStorage
  simp only [← groupKey_dedup]

theorem pushGroupBy_dedup (st : Store) (ts : TS) (w : What) (wo : Bool) (ls : List Nat) (range : Int) :
    queryStorage st ts w (pushGroupBy wo ls) range = queryStorage st ts w (pushGroupBy wo ls.eraseDups) range := by
  unfold pushGroupBy
  cases wo with
  | false => simp only [Bool.false_eq_true, if_false]; exact queryStorage_dedup st ts w ls range
  | true =>
    simp only [if_true]
    have : allTags.filter (fun t => !ls.contains t) = allTags.filter (fun t => !ls.eraseDups.contains t) := by
      apply List.filter_congr; intro t _; rw [contains_eraseDups]
    rw [this]

/-- hence `sum by (a, a) (m)`, `sum by (a, key1) (m)` and `sum by (a) (m)` are the same storage query (rule #0) -/
theorem rule0_dedup (st : Store) (ts : TS) (op : AggOp) (w : What) (wo : Bool) (ls : List Nat) (hw : aggWhat op = some w) :
    evalChain Cfg.fixed st ts none [.agg op wo ls] = evalChain Cfg.fixed st ts none [.agg op wo ls.eraseDups] := by
  rw [rule0_expression st ts op w wo ls hw, rule0_expression st ts op w wo ls.eraseDups hw]
  exact pushGroupBy_dedup st ts w wo ls 0

example : keyOf false [2, 1, 2, 1] [(1, 7), (2, 8), (3, 9)] = [(1, 7), (2, 8)] ∧ [2, 1, 2, 1].eraseDups = [2, 1] ∧
    exec Cfg.fixed exStore exTS none [.agg .sum false [2, 2]] = exec Cfg.fixed exStore exTS none [.agg .sum false [2]] := by
  decide +kernel



/-! ### the legacy alias key<i> alone: pinned tree vs fix (fixes/C27-group-alias.diff) -/

/-- `sum by (key2) (m)`: pushed down (rule #0) the storage groups by tag 2 and returns {2=1} and {2=2}; evaluated by the
    engine on the pinned tree (`sum by (key2) (m + 0)`) the same two groups come back WITHOUT the label, two series with the
    same empty label set — pushing the aggregation down does not yield the engine's result.  `sum without (key2)` pinned:
    tag 2 is not excluded.  With the fix (labels = resolved indices) both evaluations agree. -/
theorem repo_alias_violates :
    (queryStorage exStore exTS .sumsec [2] 0).map (·.tags) = [[(2, 1)], [(2, 2)]] ∧
    (aggregateRepoAlias 3 aggSum false [] [2] (queryStorage exStore exTS .sumsec allTags 0)).map (·.tags) = [[], []] ∧
    (aggregate 3 aggSum false [2] (queryStorage exStore exTS .sumsec allTags 0)) = queryStorage exStore exTS .sumsec [2] 0 ∧
    (aggregateRepoAlias 3 aggSum true [] [2] (queryStorage exStore exTS .sumsec allTags 0)).map (·.tags)
      = [[(1, 1), (2, 1), (3, 1)], [(1, 1), (2, 2), (3, 1)]] ∧
    (aggregate 3 aggSum true [2] (queryStorage exStore exTS .sumsec allTags 0)).map (·.tags) = [[(1, 1), (3, 1)]] := by
  decide +kernel


/-! ### the over-time push-down (rule #1) equals the engine's window evaluation over the one-second points: two grids -/

/-- a per-second row: no event, or exactly one event -/
def isEv (o : Option Row) : Prop := o = none ∨ ∃ v, o = some (Row.ofEvent v)

/-- the one-second value the engine sees for `m` (default what = avg) -/
def secVal (o : Option Row) : Val := o.map (rowValue .avg 1 1)

theorem secVal_ofEvent (v : Rat) : secVal (some (Row.ofEvent v)) = some v := by
  simp [secVal, rowValue, Row.ofEvent]

theorem map_value_eq_secVal (per : List (Option Row)) (h : ∀ o ∈ per, isEv o) (f : Row → Rat) (hf : ∀ v, f (Row.ofEvent v) = v) :
    per.map (Option.map f) = per.map secVal := by
  apply List.map_congr_left
  intro o ho
  rcases h o ho with rfl | ⟨v, rfl⟩
  · rfl
  · rw [secVal_ofEvent]; simp [hf]

theorem present_const_one (per : List (Option Row)) (h : ∀ o ∈ per, isEv o) (r : Int) (hr : r ≠ 0) :
    present (per.map (Option.map (rowValue .count r r))) = (present (per.map secVal)).map (fun _ => (1 : Rat)) := by
  induction per with
  | nil => rfl
  | cons o os ih =>
    have ih' := ih (fun o ho => h o (List.mem_cons_of_mem _ ho))
    rcases h o (List.mem_cons_self) with rfl | ⟨v, rfl⟩
    · simp only [List.map_cons, Option.map_none, present_cons_none]
      have : secVal none = none := rfl
      rw [this, present_cons_none]; exact ih'
    · have hr' : (r : Rat) ≠ 0 := by exact_mod_cast hr
      have h1 : rowValue .count r r (Row.ofEvent v) = 1 := by
        simp [rowValue, Row.ofEvent, hr']
      simp only [List.map_cons, Option.map_some, h1, secVal_ofEvent, present_cons_some, ih']

theorem ratSum_const_one (l : List Rat) : ratSum (l.map (fun _ => (1 : Rat))) = (l.length : Rat) := by
  induction l with
  | nil => simp [ratSum_nil]
  | cons x xs ih => simp only [List.map_cons, ratSum_cons, ih, List.length_cons]; push_cast; ring

/-- **bucket pre-aggregate = window function of the per-second points** (algebraic core, ∀ per-second rows with at most one
    event each, ∀ range r ≠ 0 = bucket width): sum, min, max give the engine's aggregate of the one-second values; count
    gives their number — missing where the bucket has no event. -/
theorem bucket_value_is_window_function (per : List (Option Row)) (h : ∀ o ∈ per, isEv o) (r : Int) (hr : r ≠ 0) :
    (pooled per).map (rowValue .sum r r) = otApply .sum (per.map secVal) ∧
    (pooled per).map (rowValue .min r r) = otApply .min (per.map secVal) ∧
    (pooled per).map (rowValue .max r r) = otApply .max (per.map secVal) ∧
    (pooled per).map (rowValue .count r r) =
      (if (present (per.map secVal)).length = 0 then none else otApply .count (per.map secVal)) := by
  have hr' : (r : Rat) ≠ 0 := by exact_mod_cast hr
  refine ⟨?_, ?_, ?_, ?_⟩
  · rw [(reduce_sum_sound per r r).2, map_value_eq_secVal per h _ (by intro v; simp [rowValue, Row.ofEvent, hr']), aggSum_def]
    simp only [otApply]
    by_cases h0 : present (per.map secVal) = [] <;> simp [h0]
  · rw [reduce_min_sound per r r, map_value_eq_secVal per h _ (by intro v; simp [rowValue, Row.ofEvent])]; rfl
  · rw [reduce_max_sound per r r, map_value_eq_secVal per h _ (by intro v; simp [rowValue, Row.ofEvent])]; rfl
  · rw [(reduce_count_sound per r r).2, aggSum_def, present_const_one per h r hr, ratSum_const_one]
    simp only [otApply, List.length_map]
    by_cases h0 : present (per.map secVal) = [] <;> simp [h0]

theorem slice_map_range (N : Nat) (g : Nat → Val) (l j : Nat) (hj : j < N) :
    slice ((List.range N).map g) l j = (List.range (j + 1 - l)).map (fun d => g (l + d)) := by
  unfold slice
  apply List.ext_getElem?
  intro d
  rw [List.getElem?_take, List.getElem?_drop, List.getElem?_map, List.getElem?_map]
  by_cases hd : d < j + 1 - l
  · rw [if_pos hd, List.getElem?_range (by omega), List.getElem?_range hd]; rfl
  · rw [if_neg hd, List.getElem?_eq_none (by simp; omega)]; rfl

theorem mergeRows_isEv (evs : List Event) (h : (evs.map (fun e => Row.ofEvent e.val)).length ≤ 1) :
    isEv (mergeRows (evs.map (fun e => Row.ofEvent e.val))) := by
  cases evs with
  | nil => left; rfl
  | cons e es =>
    cases es with
    | nil => right; exact ⟨e.val, rfl⟩
    | cons e' es' => simp at h

/-- **the over-time push-down, rule #1, equals the engine's window evaluation over the one-second points** (two grids):
    for a stored series `m` with at most one event in every second of the grid, the coarse bucket [T, T+r) (Range r = bucket width, the
    rule's side condition r = step) and the one-second grid t1 (τ0, τ0+1, …) on which `v1` is what the storage returns for
    `m` itself (default what avg, one-second buckets):  the storage's pre-aggregate of the bucket with what = sum / min /
    max equals `f_over_time(v1[r s])` at the last second T+r−1 of the bucket, and with what = count it equals
    count_over_time there, except that the storage has no row (missing) where the engine reports 0. -/
theorem overtime_pushdown_two_grids (st : Store) (m : Nat) (t1 : List Int) (τ0 T : Int) (r j : Nat)
    (hg : uniform t1 τ0 1)
    (hone : ∀ i : Nat, i < t1.length → (bucketRows st [m] (τ0 + (i : Int)) (τ0 + (i : Int) + 1)).length ≤ 1)
    (hr : 1 ≤ r) (hrj : r ≤ j) (hj : j < t1.length) (hT : τ0 + (j : Int) = T + (r : Int) - 1) :
    let v1 : List Val := (List.range t1.length).map (fun (i : Nat) => secVal (mergeRows (bucketRows st [m] (τ0 + (i : Int)) (τ0 + (i : Int) + 1))))
    let bucket := mergeRows (bucketRows st [m] T (T + (r : Int)))
    (overTime t1 r 1 .sum v1).getD j none = bucket.map (rowValue .sum r r) ∧
    (overTime t1 r 1 .min v1).getD j none = bucket.map (rowValue .min r r) ∧
    (overTime t1 r 1 .max v1).getD j none = bucket.map (rowValue .max r r) ∧
    (overTime t1 r 1 .count v1).getD j none = (match bucket.map (rowValue .count r r) with | some x => some x | none => some 0) := by
  intro v1 bucket
  have hv : v1.length = t1.length := by simp [v1]
  have hr0 : ((r : Nat) : Int) ≠ 0 := by omega
  -- the per-second rows of the bucket
  let per : List (Option Row) := (List.range r).map (fun (d : Nat) => mergeRows (bucketRows st [m] (T + (d : Int)) (T + (d : Int) + 1)))
  have hper : ∀ o ∈ per, isEv o := by
    intro o ho
    simp only [per, List.mem_map, List.mem_range] at ho
    obtain ⟨d, hd, rfl⟩ := ho
    have e : T + (d : Int) = τ0 + ((j + 1 - r + d : Nat) : Int) := by
      have : ((j + 1 - r + d : Nat) : Int) = (j : Int) + 1 - (r : Int) + (d : Int) := by omega
      rw [this]; linarith
    rw [e]
    exact mergeRows_isEv _ (hone _ (by omega))
  have hbucket : bucket = pooled per := by
    show mergeRows (bucketRows st [m] T (T + (r : Int))) = pooled per
    rw [bucket_by_seconds, ← mergeAll_filterMap, ← mergeRows_eq_mergeAll]; rfl
  have hslice : slice v1 (j + 1 - r) j = per.map secVal := by
    have hv1 : v1 = (List.range t1.length).map (fun (i : Nat) => secVal (mergeRows (bucketRows st [m] (τ0 + (i : Int)) (τ0 + (i : Int) + 1)))) := rfl
    rw [hv1]
    rw [slice_map_range _ _ _ _ hj]
    have e : j + 1 - (j + 1 - r) = r := by omega
    rw [e]
    simp only [per, List.map_map]
    apply List.map_congr_left
    intro d hd
    have hd' : d < r := List.mem_range.mp hd
    have : τ0 + ((j + 1 - r + d : Nat) : Int) = T + (d : Int) := by
      have : ((j + 1 - r + d : Nat) : Int) = (j : Int) + 1 - (r : Int) + (d : Int) := by omega
      rw [this]; linarith
    simp only [Function.comp, this]
  obtain ⟨hsum, hmin, hmax, hcnt⟩ := bucket_value_is_window_function per hper (r : Int) hr0
  have hnot : ¬ j < r := by omega
  have hdef : ∀ f : OtFn, (overTime t1 r 1 f v1).getD j none =
      if (present (per.map secVal)).length = 0 then otNil f else otApply f (per.map secVal) := by
    intro f
    have hk : kSpec (otStrict f) (r : Int) 1 r := by
      refine ⟨hr, by norm_num, ?_⟩
      cases otStrict f <;> simp
    have := over_time_is_definition t1 τ0 1 (r : Int) r f v1 hg hk hv j hj
    rw [this, if_neg hnot, hslice]
  refine ⟨?_, ?_, ?_, ?_⟩
  · rw [hdef, hbucket, hsum]
    by_cases h0 : (present (per.map secVal)).length = 0
    · simp [h0, otNil, otApply]
    · simp [h0]
  · rw [hdef, hbucket, hmin]
    by_cases h0 : (present (per.map secVal)).length = 0
    · have : present (per.map secVal) = [] := List.eq_nil_of_length_eq_zero h0
      have hm := (aggMin_def (per.map secVal)).1 this
      simp [h0, otNil, otApply, hm]
    · simp [h0]
  · rw [hdef, hbucket, hmax]
    by_cases h0 : (present (per.map secVal)).length = 0
    · have : present (per.map secVal) = [] := List.eq_nil_of_length_eq_zero h0
      have hm := (aggMax_def (per.map secVal)).1 this
      simp [h0, otNil, otApply, hm]
    · simp [h0]
  · rw [hdef, hbucket, hcnt]
    by_cases h0 : (present (per.map secVal)).length = 0
    · simp [h0, otNil]
    · simp [h0, otApply]

/-- avg: the pre-aggregate's sum/count is the average of the one-second values -/
theorem bucket_avg_is_window_avg (per : List (Option Row)) (h : ∀ o ∈ per, isEv o) (r : Int) (hr : r ≠ 0) :
    (pooled per).map (rowValue .avg r r) = otApply .avg (per.map secVal) := by
  have hr' : (r : Rat) ≠ 0 := by exact_mod_cast hr
  obtain ⟨hsum, _, _, hcnt⟩ := bucket_value_is_window_function per h r hr
  cases hp : pooled per with
  | none =>
    rw [hp] at hsum
    simp only [Option.map_none, otApply] at hsum
    have h0 : (present (per.map secVal)).length = 0 := by
      by_contra hc; simp [hc] at hsum
    simp [otApply, aggAvg, h0]
  | some row =>
    rw [hp] at hsum hcnt
    simp only [Option.map_some, otApply, rowValue] at hsum hcnt
    have hne : ¬ (present (per.map secVal)).length = 0 := by
      intro hc; simp [hc] at hsum
    simp only [hne, if_false, Option.some.injEq] at hsum hcnt
    have e1 : row.sum = ratSum (present (per.map secVal)) := by
      rw [← hsum]; field_simp
    have e2 : row.count = ((present (per.map secVal)).length : Rat) := by
      rw [← hcnt]; field_simp
    simp [otApply, aggAvg, hne, rowValue, e1, e2]

/-- non-vacuity: series 0 of `exStore` (events 2 at second 100 and 4 at second 101, one per second), the bucket [100, 102)
    of width 2 and the one-second grid 99, 100, 101 -/
example : (∀ i : Nat, i < 3 → (bucketRows exStore [0] (99 + (i : Int)) (99 + (i : Int) + 1)).length ≤ 1) ∧ uniform [99, 100, 101] 99 1 := by
  constructor
  · decide +kernel
  · intro i hi
    have : i = 0 ∨ i = 1 ∨ i = 2 := by
      have : i < 3 := hi
      omega
    rcases this with rfl | rfl | rfl <;> rfl
example :
    let v1 : List Val := (List.range 3).map (fun (i : Nat) => secVal (mergeRows (bucketRows exStore [0] (99 + (i : Int)) (99 + (i : Int) + 1))))
    v1 = [none, some 2, some 4] ∧ (overTime [99, 100, 101] 2 1 .sum v1).getD 2 none = some 6 ∧
    (mergeRows (bucketRows exStore [0] 100 102)).map (rowValue .sum 2 2) = some 6 ∧
    (mergeRows (bucketRows exStore [0] 100 102)).map (rowValue .count 2 2) = some 2 := by decide +kernel


/-! ### over-time functions on arbitrary (two-LOD) grids -/

/-- **over_time_is_definition on an arbitrary grid** — let `L r` be the left edge the range selects for point `r` with that
    point's own bucket width `sOf r` (= t[r+1] − t[r]; the finest LOD step for the last point): the largest l ≥ 1 passing the
    cursor's test, i.e. (not strict) the narrowest window [t_l, t_r + sOf r) at least `w` wide, (strict) the widest one not
    wider than `w`; L monotone (automatic when not strict: `mono_of_wide_nonstrict`).  Then for every series and every
    *_over_time function the cursor-driven evaluation returns at point i the function of the points L i … i, the nil
    value when none of them is present, and it is missing exactly where L i = 0 (no complete window right of the guard
    point). Uniform grids are the instance L i = i + 1 − k. -/
theorem over_time_is_definition_general (c : GCtx) (f : OtFn) (hst : c.strict = otStrict f) (v : List Val)
    (hv : v.length = c.t.length) (lodStep : Int) (hlod : lodStep = c.sOf (c.t.length - 1)) (i : Nat) (hi : i < c.t.length) :
    (overTime c.t c.w lodStep f v).getD i none =
      if c.L i = 0 then none
      else if (present (slice v (c.L i) i)).length = 0 then otNil f
      else otApply f (slice v (c.L i) i) := by
  have h := overTimeWith_general c (otApply f) (otNil f) v hv lodStep hlod i hi
  unfold overTime
  rw [← hst, h]
  unfold expAtG
  by_cases h0 : c.L i = 0
  · simp [h0]
  · simp only [h0, if_false]
    by_cases h1 : (present (slice v (c.L i) i)).length = 0 <;> simp [h1]

/-- what `L` means when not strict: l ≤ L r iff the window from t_l to the end of point r's bucket is at least w wide -/
theorem L_is_narrowest_window (c : GCtx) (hns : c.strict = false) (r l : Nat) (hl : 1 ≤ l) (hlr : l ≤ r) (hr : r < c.t.length) :
    l ≤ c.L r ↔ c.w ≤ tAt c.t r - tAt c.t l + c.sOf r := by
  have h := c.hwide r l hl hlr hr
  rw [hns] at h
  simp only [wideAt, Bool.false_and, Bool.or_false] at h
  constructor
  · intro hle
    have : decide (l ≤ c.L r) = true := by simpa using hle
    rw [this] at h; simpa using h
  · intro hw
    have : decide (c.w ≤ tAt c.t r - tAt c.t l + c.sOf r) = true := by simpa using hw
    rw [this] at h
    simpa using h.symm

/-- a two-LOD grid: three one-minute points, then 15-second points; range 30 s; avg/min/max/last (not strict) -/
def twoLodT : List Int := [0, 60, 120, 135, 150, 165]
def twoLodS (r : Nat) : Int := if r < 2 then 60 else 15
def twoLodL : Nat → Nat
  | 0 => 0 | 1 => 1 | 2 => 1 | 3 => 2 | 4 => 3 | 5 => 4 | r => r - 1

theorem twoLod_wide : ∀ r, r < 6 → ∀ l, l ≤ r → 1 ≤ l → wideAt twoLodT 30 false (twoLodS r) r l = decide (l ≤ twoLodL r) := by
  decide

def twoLodCtx : GCtx where
  t := twoLodT
  w := 30
  strict := false
  sOf := twoLodS
  L := twoLodL
  hw := by decide
  hL := by
    intro r
    match r with
    | 0 | 1 | 2 | 3 | 4 | 5 => decide
    | r + 6 => show r + 6 - 1 ≤ r + 6; omega
  hwide := fun r l h1 h2 h3 => twoLod_wide r h3 l h2 h1
  hmono := by
    intro r hr
    have : r < 5 := by
      have : r + 1 < 6 := hr
      omega
    match r, this with
    | 0, _ | 1, _ | 2, _ | 3, _ | 4, _ => decide
  hstep := by
    intro r h1 hr
    have : r < 6 := hr
    match r, h1, this with
    | 1, _, _ | 2, _, _ | 3, _, _ | 4, _, _ | 5, _, _ => decide
  hnarrow := by intro r _; rfl

/-- on it, avg_over_time(v[30s]): the minute points see their own bucket only (60 s ≥ 30 s), the first 15 s point reaches
    back into the last minute bucket (15 s < 30 s), the later ones average two 15 s points — as the general theorem says,
    and as the model computes -/
example : overTime twoLodT 30 15 .avg [some 1, some 2, some 4, none, some 8, some 16]
    = [none, some 2, some 3, some 4, some 8, some 12] := by decide +kernel
example : (overTime twoLodCtx.t twoLodCtx.w 15 .avg [some 1, some 2, some 4, none, some 8, some 16]).getD 2 none
    = otApply .avg (slice [some 1, some 2, some 4, none, some 8, some 16] (twoLodCtx.L 2) 2) := by
  rw [over_time_is_definition_general twoLodCtx .avg rfl _ rfl 15 rfl 2 (by decide)]
  decide +kernel



/-! ### subqueries: `f_over_time((g …)[r:])` is f over the window of g's results -/

/-- a node on top of a chain is applied to the chain's result whenever the reduction found for the longer chain is the one
    found for the chain below (it does not absorb the new node) -/
theorem evalChain_snoc (cfg : Cfg) (st : Store) (ts : TS) (w : Option What) (below : List Node) (n : Node)
    (hsame : evalReductionRules (if cfg.whatFix then w else none) (astList 0 (below ++ [n])) ts.lodStep =
             evalReductionRules (if cfg.whatFix then w else none) (astList 0 below) ts.lodStep)
    (hbound : ∀ red, evalReductionRules (if cfg.whatFix then w else none) (astList 0 below) ts.lodStep = some red →
             red.upto + 1 ≤ below.length) :
    evalChain cfg st ts w (below ++ [n]) = applyNode cfg ts n (evalChain cfg st ts w below) := by
  unfold evalChain
  simp only []
  rw [hsame]
  cases hred : evalReductionRules (if cfg.whatFix then w else none) (astList 0 below) ts.lodStep with
  | none => simp only [List.foldl_append, List.foldl_cons, List.foldl_nil]
  | some red =>
    have hb := hbound red hred
    simp only [List.drop_append_of_le_length hb, List.foldl_append, List.foldl_cons, List.foldl_nil]

/-- **subquery semantics**: `f_over_time((X)[r:])`, X any chain whose reduction (if any) does not reach the new call, is
    `f` over the window of X's results, series by series — the range `r` of the subquery, not a range left behind by a
    call inside X, and X's results, not X's inputs. -/
theorem subquery_is_window_of_results (cfg : Cfg) (st : Store) (ts : TS) (w : Option What) (below : List Node) (f : OtFn) (r : Int)
    (hsame : evalReductionRules (if cfg.whatFix then w else none) (astList 0 (below ++ [.ot f r true])) ts.lodStep =
             evalReductionRules (if cfg.whatFix then w else none) (astList 0 below) ts.lodStep)
    (hbound : ∀ red, evalReductionRules (if cfg.whatFix then w else none) (astList 0 below) ts.lodStep = some red →
             red.upto + 1 ≤ below.length) :
    evalChain cfg st ts w (below ++ [.ot f r true]) =
      (evalChain cfg st ts w below).map (fun s => { s with vals := overTime ts.times r ts.lodStep f s.vals }) :=
  evalChain_snoc cfg st ts w below (.ot f r true) hsame hbound

/-- non-vacuity: sum_over_time((max_over_time((m + 0)[1s:]))[2s:]) (no reduction) and
    sum_over_time((sum by (a) (m))[2s:]) (rule #0 inside, rule #3 refused because 2 s > step) satisfy the hypotheses -/
example :
    evalReductionRules none (astList 0 ([.brk, .ot .max 1 true] ++ [.ot .sum 2 true])) 1 = none ∧
    evalReductionRules none (astList 0 [.brk, .ot .max 1 true]) 1 = none ∧
    evalReductionRules none (astList 0 ([.agg .sum false [1]] ++ [.ot .sum 2 true])) 1 =
      evalReductionRules none (astList 0 [.agg .sum false [1]]) 1 ∧
    (evalReductionRules none (astList 0 [.agg .sum false [1]]) 1).map (·.upto) = some 0 := by decide +kernel

/-- **the mutation of seeded/C27-r3-2 violates it** (`ev.r = e.Range` before the operand is evaluated: the inner call resets
    ev.r to 0): sum_over_time((max_over_time((m + 0)[1s:]))[2s:]) on `exStore` — the real order sums the two points of the
    window (2 + 4 = 6 at the last point), the mutated order evaluates a strict function with range 0 < step: an empty
    window everywhere, nothing is returned (a non-strict function would return the single points). -/
theorem early_range_violates :
    exec Cfg.fixed exStore exTS none [.brk, .ot .max 1 true, .ot .sum 2 true]
      = [⟨[(1, 1), (2, 1), (3, 1)], [none, some 6]⟩, ⟨[(1, 1), (2, 2), (3, 1)], [none, some 10]⟩] ∧
    (evalChainEarlyRange Cfg.fixed exStore exTS none [.brk, .ot .max 1 true, .ot .sum 2 true]).map (fun s => s.vals.drop 1)
      = [[none, none], [none, none]] ∧
    -- without a call inside the operand the mutation is invisible
    evalChainEarlyRange Cfg.fixed exStore exTS none [.brk, .agg .sum false [1], .ot .sum 2 true]
      = evalChain Cfg.fixed exStore exTS none [.brk, .agg .sum false [1], .ot .sum 2 true] := by
  decide +kernel


/-! ### two-grid statements: avg, and reduction rules #2 and #3 -/

/-- the common core of the two-grid arguments, for any set of stored series and any per-second value `g`: the bucket
    [T, T+r) is the pool of its r one-second buckets, and on the one-second grid every over-time function evaluates at the
    bucket's last second to its definition on the r per-second values -/
theorem two_grid_core (st : Store) (members : List Nat) (t1 : List Int) (τ0 T : Int) (r j : Nat) (g : Row → Rat)
    (hg : uniform t1 τ0 1) (hr : 1 ≤ r) (hrj : r ≤ j) (hj : j < t1.length) (hT : τ0 + (j : Int) = T + (r : Int) - 1) :
    let u1 : List Val := (List.range t1.length).map (fun (i : Nat) => (mergeRows (bucketRows st members (τ0 + (i : Int)) (τ0 + (i : Int) + 1))).map g)
    let per : List (Option Row) := (List.range r).map (fun (d : Nat) => mergeRows (bucketRows st members (T + (d : Int)) (T + (d : Int) + 1)))
    mergeRows (bucketRows st members T (T + (r : Int))) = pooled per ∧
    ∀ f : OtFn, (overTime t1 r 1 f u1).getD j none =
      if (present (per.map (Option.map g))).length = 0 then otNil f else otApply f (per.map (Option.map g)) := by
  intro u1 per
  have hv : u1.length = t1.length := by simp [u1]
  have hbucket : mergeRows (bucketRows st members T (T + (r : Int))) = pooled per := by
    rw [bucket_by_seconds, ← mergeAll_filterMap, ← mergeRows_eq_mergeAll]; rfl
  have hslice : slice u1 (j + 1 - r) j = per.map (Option.map g) := by
    have hu1 : u1 = (List.range t1.length).map (fun (i : Nat) => (mergeRows (bucketRows st members (τ0 + (i : Int)) (τ0 + (i : Int) + 1))).map g) := rfl
    rw [hu1, slice_map_range _ _ _ _ hj]
    have e : j + 1 - (j + 1 - r) = r := by omega
    rw [e]
    simp only [per, List.map_map]
    apply List.map_congr_left
    intro d hd
    have hd' : d < r := List.mem_range.mp hd
    have : τ0 + ((j + 1 - r + d : Nat) : Int) = T + (d : Int) := by
      have : ((j + 1 - r + d : Nat) : Int) = (j : Int) + 1 - (r : Int) + (d : Int) := by omega
      rw [this]; linarith
    simp only [Function.comp, this]
  refine ⟨hbucket, ?_⟩
  intro f
  have hk : kSpec (otStrict f) (r : Int) 1 r := by
    refine ⟨hr, by norm_num, ?_⟩
    cases otStrict f <;> simp
  have hnot : ¬ j < r := by omega
  rw [over_time_is_definition t1 τ0 1 (r : Int) r f u1 hg hk hv j hj, if_neg hnot, hslice]

theorem secVal_eq_map : secVal = Option.map (rowValue .avg 1 1) := by
  funext o; rfl

/-- **(1) avg inside the two-grid statement**: with at most one event in every second of the grid, avg_over_time over the
    one-second points of the bucket equals the storage's pre-aggregate with what = avg (pooled sum / pooled count) -/
theorem overtime_pushdown_two_grids_avg (st : Store) (m : Nat) (t1 : List Int) (τ0 T : Int) (r j : Nat)
    (hg : uniform t1 τ0 1)
    (hone : ∀ i : Nat, i < t1.length → (bucketRows st [m] (τ0 + (i : Int)) (τ0 + (i : Int) + 1)).length ≤ 1)
    (hr : 1 ≤ r) (hrj : r ≤ j) (hj : j < t1.length) (hT : τ0 + (j : Int) = T + (r : Int) - 1) :
    let v1 : List Val := (List.range t1.length).map (fun (i : Nat) => secVal (mergeRows (bucketRows st [m] (τ0 + (i : Int)) (τ0 + (i : Int) + 1))))
    (overTime t1 r 1 .avg v1).getD j none = (mergeRows (bucketRows st [m] T (T + (r : Int)))).map (rowValue .avg r r) := by
  intro v1
  obtain ⟨hb, hdef⟩ := two_grid_core st [m] t1 τ0 T r j (rowValue .avg 1 1) hg hr hrj hj hT
  have hr0 : ((r : Nat) : Int) ≠ 0 := by omega
  have hper : ∀ o ∈ (List.range r).map (fun (d : Nat) => mergeRows (bucketRows st [m] (T + (d : Int)) (T + (d : Int) + 1))), isEv o := by
    intro o ho
    simp only [List.mem_map, List.mem_range] at ho
    obtain ⟨d, hd, rfl⟩ := ho
    have e : T + (d : Int) = τ0 + ((j + 1 - r + d : Nat) : Int) := by
      have : ((j + 1 - r + d : Nat) : Int) = (j : Int) + 1 - (r : Int) + (d : Int) := by omega
      rw [this]; linarith
    rw [e]
    exact mergeRows_isEv _ (hone _ (by omega))
  have havg := bucket_avg_is_window_avg _ hper (r : Int) hr0
  have hv1 : v1 = (List.range t1.length).map (fun (i : Nat) => (mergeRows (bucketRows st [m] (τ0 + (i : Int)) (τ0 + (i : Int) + 1))).map (rowValue .avg 1 1)) := rfl
  rw [hv1, hdef .avg, hb, havg, secVal_eq_map]
  by_cases h0 : (present (((List.range r).map (fun (d : Nat) => mergeRows (bucketRows st [m] (T + (d : Int)) (T + (d : Int) + 1)))).map (Option.map (rowValue .avg 1 1)))).length = 0
  · rw [if_pos h0]
    simp only [otNil, otApply, aggAvg, h0, if_true]
  · rw [if_neg h0]

/-- the one-second value of a group with the `what` of the pushed-down query -/
def secWhat : What → What
  | .sum => .sumsec
  | w => w

/-- **(2) rule #3, two grids** — `f_over_time((agg by (G) (m))[r:])` with agg∘f ∈ sum∘sum, min∘min, max∘max is pushed down
    as ONE storage query (rule3_expression: what = f, grouped by G, Range r).  Its point for a group of stored series and
    the bucket [T, T+r) equals the engine's evaluation on the one-second grid: f_over_time over the window of the group's
    one-second aggregates (`u1` = what the storage returns for `agg by (G) (m)` at one second, rule #0: what = sumsec / min /
    max), at the bucket's last second.  No restriction on the number of events per second. -/
theorem rule3_two_grids (st : Store) (members : List Nat) (t1 : List Int) (τ0 T : Int) (r j : Nat)
    (hg : uniform t1 τ0 1) (hr : 1 ≤ r) (hrj : r ≤ j) (hj : j < t1.length) (hT : τ0 + (j : Int) = T + (r : Int) - 1) :
    let u1 (w : What) : List Val := (List.range t1.length).map (fun (i : Nat) =>
      (mergeRows (bucketRows st members (τ0 + (i : Int)) (τ0 + (i : Int) + 1))).map (rowValue (secWhat w) 1 1))
    let bucket := mergeRows (bucketRows st members T (T + (r : Int)))
    (overTime t1 r 1 .sum (u1 .sum)).getD j none = bucket.map (rowValue .sum r r) ∧
    (overTime t1 r 1 .min (u1 .min)).getD j none = bucket.map (rowValue .min r r) ∧
    (overTime t1 r 1 .max (u1 .max)).getD j none = bucket.map (rowValue .max r r) := by
  intro u1 bucket
  have hr0 : ((r : Nat) : Rat) ≠ 0 := by
    have : (1 : Rat) ≤ (r : Rat) := by exact_mod_cast hr
    linarith
  refine ⟨?_, ?_, ?_⟩
  · obtain ⟨hb, hdef⟩ := two_grid_core st members t1 τ0 T r j (rowValue .sumsec 1 1) hg hr hrj hj hT
    show (overTime t1 r 1 .sum ((List.range t1.length).map _)).getD j none = _
    have hfun : (rowValue .sum (r : Int) (r : Int)) = (rowValue .sumsec 1 1) := by
      funext row; simp [rowValue]; field_simp
    simp only [secWhat]
    rw [hdef .sum]
    show _ = (mergeRows (bucketRows st members T (T + (r : Int)))).map (rowValue .sum r r)
    rw [hb, (reduce_sum_sound _ r r).2, hfun, aggSum_def]
    simp only [otApply, otNil]
    by_cases h0 : (present (((List.range r).map (fun (d : Nat) => mergeRows (bucketRows st members (T + (d : Int)) (T + (d : Int) + 1)))).map (Option.map (rowValue .sumsec 1 1)))) = []
    · simp [h0]
    · have : ¬ (present (((List.range r).map (fun (d : Nat) => mergeRows (bucketRows st members (T + (d : Int)) (T + (d : Int) + 1)))).map (Option.map (rowValue .sumsec 1 1)))).length = 0 := by
        intro hc; exact h0 (List.eq_nil_of_length_eq_zero hc)
      simp [h0, this]
  · obtain ⟨hb, hdef⟩ := two_grid_core st members t1 τ0 T r j (rowValue .min 1 1) hg hr hrj hj hT
    show (overTime t1 r 1 .min ((List.range t1.length).map _)).getD j none = _
    have hfun : (rowValue .min (r : Int) (r : Int)) = (rowValue .min 1 1) := by
      funext row; simp [rowValue]
    simp only [secWhat]
    rw [hdef .min]
    show _ = (mergeRows (bucketRows st members T (T + (r : Int)))).map (rowValue .min r r)
    rw [hb, reduce_min_sound _ r r, hfun]
    by_cases h0 : (present (((List.range r).map (fun (d : Nat) => mergeRows (bucketRows st members (T + (d : Int)) (T + (d : Int) + 1)))).map (Option.map (rowValue .min 1 1)))).length = 0
    · have hn := (aggMin_def _).1 (List.eq_nil_of_length_eq_zero h0)
      rw [if_pos h0, hn]; rfl
    · rw [if_neg h0]; rfl
  · obtain ⟨hb, hdef⟩ := two_grid_core st members t1 τ0 T r j (rowValue .max 1 1) hg hr hrj hj hT
    show (overTime t1 r 1 .max ((List.range t1.length).map _)).getD j none = _
    have hfun : (rowValue .max (r : Int) (r : Int)) = (rowValue .max 1 1) := by
      funext row; simp [rowValue]
    simp only [secWhat]
    rw [hdef .max]
    show _ = (mergeRows (bucketRows st members T (T + (r : Int)))).map (rowValue .max r r)
    rw [hb, reduce_max_sound _ r r, hfun]
    by_cases h0 : (present (((List.range r).map (fun (d : Nat) => mergeRows (bucketRows st members (T + (d : Int)) (T + (d : Int) + 1)))).map (Option.map (rowValue .max 1 1)))).length = 0
    · have hn := (aggMax_def _).1 (List.eq_nil_of_length_eq_zero h0)
      rw [if_pos h0, hn]; rfl
    · rw [if_neg h0]; rfl

/-- **(2) rule #2, two grids** — `agg by (G) (f_over_time(m[r]))` with agg∘f ∈ sum∘sum, min∘min, max∘max is pushed down as ONE
    storage query (rule2_expression: what = f, grouped by G, Range r).  Its point for a group and the bucket [T, T+r) of
    the coarse grid (point i, bucket width r = Range) equals the engine's evaluation on the one-second grid: agg over the
    group's series of f_over_time(v1_m[r]) at the bucket's last second, `v1_m` = the series' one-second points; at most
    one event per series in every second of the grid. -/
theorem rule2_two_grids (st : Store) (ts : TS) (members : List Nat) (hnd : members.Nodup) (i : Nat)
    (t1 : List Int) (τ0 T : Int) (r j : Nat) (hTi : ts.times.getD i 0 = T) (hwi : ts.width i = (r : Int))
    (hg : uniform t1 τ0 1)
    (hone : ∀ m ∈ members, ∀ k : Nat, k < t1.length → (bucketRows st [m] (τ0 + (k : Int)) (τ0 + (k : Int) + 1)).length ≤ 1)
    (hr : 1 ≤ r) (hrj : r ≤ j) (hj : j < t1.length) (hT : τ0 + (j : Int) = T + (r : Int) - 1) :
    let v1 (m : Nat) : List Val := (List.range t1.length).map (fun (k : Nat) => secVal (mergeRows (bucketRows st [m] (τ0 + (k : Int)) (τ0 + (k : Int) + 1))))
    groupPoint st ts .sum r members i = aggSum (members.map (fun m => (overTime t1 r 1 .sum (v1 m)).getD j none)) ∧
    groupPoint st ts .min r members i = aggMin (members.map (fun m => (overTime t1 r 1 .min (v1 m)).getD j none)) ∧
    groupPoint st ts .max r members i = aggMax (members.map (fun m => (overTime t1 r 1 .max (v1 m)).getD j none)) := by
  intro v1
  have hr0 : ((r : Nat) : Int) ≠ 0 := by omega
  have hq : queryStep ts (r : Int) (r : Int) = (r : Int) := by unfold queryStep; rw [if_pos hr0]
  have hpt : ∀ (w : What) (m : Nat), groupPoint st ts w r [m] i = (mergeRows (bucketRows st [m] T (T + (r : Int)))).map (rowValue w r r) := by
    intro w m; unfold groupPoint; rw [hTi, hwi, hq]
  obtain ⟨h1, h2, _, _, h5, h6⟩ := groupPoint_pushdown st ts (r : Int) members hnd i
  refine ⟨?_, ?_, ?_⟩
  · rw [h2]; congr 1
    apply List.map_congr_left
    intro m hm
    rw [hpt]
    exact ((overtime_pushdown_two_grids st m t1 τ0 T r j hg (hone m hm) hr hrj hj hT).1).symm
  · rw [h5]; congr 1
    apply List.map_congr_left
    intro m hm
    rw [hpt]
    exact ((overtime_pushdown_two_grids st m t1 τ0 T r j hg (hone m hm) hr hrj hj hT).2.1).symm
  · rw [h6]; congr 1
    apply List.map_congr_left
    intro m hm
    rw [hpt]
    exact ((overtime_pushdown_two_grids st m t1 τ0 T r j hg (hone m hm) hr hrj hj hT).2.2.1).symm

/-- non-vacuity of the two-grid statements: both series of `exStore`, the bucket [100, 102) as point 1 of a 2 s grid -/
example :
    let ts : TS := ⟨[98, 100], 1, 1, 2, 2, 2, []⟩
    ts.times.getD 1 0 = 100 ∧ ts.width 1 = 2 ∧
    (∀ m ∈ [0, 1], ∀ k : Nat, k < 3 → (bucketRows exStore [m] (99 + (k : Int)) (99 + (k : Int) + 1)).length ≤ 1) ∧
    groupPoint exStore ts .sum 2 [0, 1] 1 = some 16 ∧ groupPoint exStore ts .max 2 [0, 1] 1 = some 10 ∧
    (mergeRows (bucketRows exStore [0] 100 102)).map (rowValue .avg 2 2) = some 3 := by decide +kernel


/-! ### infinite points are points: max / min over the extended reals -/

theorem ERat.lt_irrefl (a : ERat) : ERat.lt a a = false := by
  cases a <;> simp [ERat.lt]

theorem ERat.lt_trans {a b c : ERat} (h1 : ERat.lt a b = true) (h2 : ERat.lt b c = true) : ERat.lt a c = true := by
  cases a <;> cases b <;> cases c <;> simp [ERat.lt] at * <;> linarith

theorem ERat.lt_asymm {a b : ERat} (h : ERat.lt a b = true) : ERat.lt b a = false := by
  cases a <;> cases b <;> simp [ERat.lt] at * <;> linarith

theorem ERat.le_of_lt {a b : ERat} (h : ERat.lt a b = true) : ERat.le a b = true := by
  simp [ERat.le, ERat.lt_asymm h]

theorem ERat.le_refl (a : ERat) : ERat.le a a = true := by simp [ERat.le, ERat.lt_irrefl]

theorem ERat.le_trans {a b c : ERat} (h1 : ERat.le a b = true) (h2 : ERat.le b c = true) : ERat.le a c = true := by
  cases a <;> cases b <;> cases c <;> simp [ERat.le, ERat.lt] at * <;> linarith

theorem ERat.le_of_not_lt {a b : ERat} (h : ERat.lt a b = false) : ERat.le b a = true := by simp [ERat.le, h]

theorem epresent_cons_none (c : List EVal) : epresent (none :: c) = epresent c := by simp [epresent]
theorem epresent_cons_some (x : ERat) (c : List EVal) : epresent (some x :: c) = x :: epresent c := by simp [epresent]

/-- the accumulator of funcMax's loop: a present point that bounds every point seen so far -/
theorem foldl_eMaxStep (c : List EVal) (acc : EVal) :
    (acc = none → epresent c = [] → c.foldl eMaxStep acc = none) ∧
    ((acc ≠ none ∨ epresent c ≠ []) → ∃ m, c.foldl eMaxStep acc = some m ∧ (acc = some m ∨ m ∈ epresent c) ∧
        (∀ r, acc = some r → ERat.le r m = true) ∧ ∀ x ∈ epresent c, ERat.le x m = true) := by
  induction c generalizing acc with
  | nil =>
    refine ⟨fun h _ => by simp [h], ?_⟩
    intro h
    cases acc with
    | none => simp [epresent] at h
    | some r => exact ⟨r, rfl, Or.inl rfl, fun r' hr => by cases hr; exact ERat.le_refl r, by simp [epresent]⟩
  | cons v c ih =>
    cases v with
    | none =>
      simp only [List.foldl_cons, epresent_cons_none]
      have e : eMaxStep acc none = acc := by cases acc <;> rfl
      rw [e]; exact ih acc
    | some x =>
      simp only [List.foldl_cons, epresent_cons_some]
      refine ⟨fun _ h => by simp at h, fun _ => ?_⟩
      cases acc with
      | none =>
        have e : eMaxStep none (some x) = some x := rfl
        rw [e]
        obtain ⟨m, hm, hmem, hb, hall⟩ := (ih (some x)).2 (Or.inl (by simp))
        refine ⟨m, hm, Or.inr ?_, by simp, ?_⟩
        · rcases hmem with h | h
          · cases h; exact List.mem_cons_self
          · exact List.mem_cons_of_mem _ h
        · intro y hy
          rcases List.mem_cons.mp hy with rfl | hy
          · exact hb _ rfl
          · exact hall y hy
      | some r =>
        by_cases hlt : ERat.lt r x = true
        · have e : eMaxStep (some r) (some x) = some x := by simp [eMaxStep, hlt]
          rw [e]
          obtain ⟨m, hm, hmem, hb, hall⟩ := (ih (some x)).2 (Or.inl (by simp))
          have hxm := hb x rfl
          refine ⟨m, hm, Or.inr ?_, ?_, ?_⟩
          · rcases hmem with h | h
            · cases h; exact List.mem_cons_self
            · exact List.mem_cons_of_mem _ h
          · intro r' hr'; cases hr'
            exact ERat.le_trans (ERat.le_of_lt hlt) hxm
          · intro y hy
            rcases List.mem_cons.mp hy with rfl | hy
            · exact hxm
            · exact hall y hy
        · have hlt' : ERat.lt r x = false := by simpa using hlt
          have e : eMaxStep (some r) (some x) = some r := by simp [eMaxStep, hlt']
          rw [e]
          obtain ⟨m, hm, hmem, hb, hall⟩ := (ih (some r)).2 (Or.inl (by simp))
          have hrm := hb r rfl
          refine ⟨m, hm, ?_, fun r' hr' => by cases hr'; exact hrm, ?_⟩
          · rcases hmem with h | h
            · exact Or.inl h
            · exact Or.inr (List.mem_cons_of_mem _ h)
          · intro y hy
            rcases List.mem_cons.mp hy with rfl | hy
            · exact ERat.le_trans (ERat.le_of_not_lt hlt') hrm
            · exact hall y hy

/-- **max_is_definition** (extended reals: −∞ | finite | +∞ are points, missing is separate) — `max` over a column is
    missing iff no point is present; otherwise it is a present point that bounds every present point from above. In
    particular a column whose present points are all −∞ has maximum −∞, not "no point". -/
theorem max_is_definition (col : List EVal) :
    (epresent col = [] → eMax col = none) ∧
    (epresent col ≠ [] → ∃ m, eMax col = some m ∧ m ∈ epresent col ∧ ∀ x ∈ epresent col, ERat.le x m = true) := by
  unfold eMax
  obtain ⟨h1, h2⟩ := foldl_eMaxStep col none
  refine ⟨fun h => h1 rfl h, fun h => ?_⟩
  obtain ⟨m, hm, hmem, _, hall⟩ := h2 (Or.inr h)
  refine ⟨m, hm, ?_, hall⟩
  rcases hmem with h' | h'
  · cases h'
  · exact h'

/-- the accumulator of funcMin's loop: a present point that bounds every point seen so far from below -/
theorem foldl_eMinStep (c : List EVal) (acc : EVal) :
    (acc = none → epresent c = [] → c.foldl eMinStep acc = none) ∧
    ((acc ≠ none ∨ epresent c ≠ []) → ∃ m, c.foldl eMinStep acc = some m ∧ (acc = some m ∨ m ∈ epresent c) ∧
        (∀ r, acc = some r → ERat.le m r = true) ∧ ∀ x ∈ epresent c, ERat.le m x = true) := by
  induction c generalizing acc with
  | nil =>
    refine ⟨fun h _ => by simp [h], ?_⟩
    intro h
    cases acc with
    | none => simp [epresent] at h
    | some r => exact ⟨r, rfl, Or.inl rfl, fun r' hr => by cases hr; exact ERat.le_refl r, by simp [epresent]⟩
  | cons v c ih =>
    cases v with
    | none =>
      simp only [List.foldl_cons, epresent_cons_none]
      have e : eMinStep acc none = acc := by cases acc <;> rfl
      rw [e]; exact ih acc
    | some x =>
      simp only [List.foldl_cons, epresent_cons_some]
      refine ⟨fun _ h => by simp at h, fun _ => ?_⟩
      cases acc with
      | none =>
        have e : eMinStep none (some x) = some x := rfl
        rw [e]
        obtain ⟨m, hm, hmem, hb, hall⟩ := (ih (some x)).2 (Or.inl (by simp))
        refine ⟨m, hm, Or.inr ?_, by simp, ?_⟩
        · rcases hmem with h | h
          · cases h; exact List.mem_cons_self
          · exact List.mem_cons_of_mem _ h
        · intro y hy
          rcases List.mem_cons.mp hy with rfl | hy
          · exact hb _ rfl
          · exact hall y hy
      | some r =>
        by_cases hlt : ERat.lt x r = true
        · have e : eMinStep (some r) (some x) = some x := by simp [eMinStep, hlt]
          rw [e]
          obtain ⟨m, hm, hmem, hb, hall⟩ := (ih (some x)).2 (Or.inl (by simp))
          have hxm := hb x rfl
          refine ⟨m, hm, Or.inr ?_, ?_, ?_⟩
          · rcases hmem with h | h
            · cases h; exact List.mem_cons_self
            · exact List.mem_cons_of_mem _ h
          · intro r' hr'; cases hr'
            exact ERat.le_trans hxm (ERat.le_of_lt hlt)
          · intro y hy
            rcases List.mem_cons.mp hy with rfl | hy
            · exact hxm
            · exact hall y hy
        · have hlt' : ERat.lt x r = false := by simpa using hlt
          have e : eMinStep (some r) (some x) = some r := by simp [eMinStep, hlt']
          rw [e]
          obtain ⟨m, hm, hmem, hb, hall⟩ := (ih (some r)).2 (Or.inl (by simp))
          have hrm := hb r rfl
          refine ⟨m, hm, ?_, fun r' hr' => by cases hr'; exact hrm, ?_⟩
          · rcases hmem with h | h
            · exact Or.inl h
            · exact Or.inr (List.mem_cons_of_mem _ h)
          · intro y hy
            rcases List.mem_cons.mp hy with rfl | hy
            · exact ERat.le_trans hrm (ERat.le_of_not_lt hlt')
            · exact hall y hy

/-- **min_is_definition** — `min` over a column is
    missing iff no point is present; otherwise it is a present point that bounds every present point from below. -/
theorem min_is_definition (col : List EVal) :
    (epresent col = [] → eMin col = none) ∧
    (epresent col ≠ [] → ∃ m, eMin col = some m ∧ m ∈ epresent col ∧ ∀ x ∈ epresent col, ERat.le m x = true) := by
  unfold eMin
  obtain ⟨h1, h2⟩ := foldl_eMinStep col none
  refine ⟨fun h => h1 rfl h, fun h => ?_⟩
  obtain ⟨m, hm, hmem, _, hall⟩ := h2 (Or.inr h)
  refine ⟨m, hm, ?_, hall⟩
  rcases hmem with h' | h'
  · cases h'
  · exact h'

/-- the seeded sentinel variant (seeded/C27-r5-1: −∞ stands for "nothing seen yet") contradicts it: the present points of
    the column are all −∞, `min` returns −∞, the real `max` returns −∞, the sentinel `max` returns "no point" -/
theorem max_sentinel_violates :
    epresent [some ERat.ninf, none, some ERat.ninf] ≠ [] ∧ eMin [some .ninf, none, some .ninf] = some .ninf ∧
    eMax [some .ninf, none, some .ninf] = some .ninf ∧ eMaxSentinel [some .ninf, none, some .ninf] = none ∧
    eMaxSentinel [some (.fin 3), none, some .ninf] = some (.fin 3) := by decide +kernel

/-- before fixes/C27-infinite-points.diff: min_over_time of points that are all +∞ is MaxFloat64, the quantile of {5, +∞}
    at q = 0 and of {+∞} is "no point"; fixed: +∞, 5, +∞ -/
theorem infinite_points_old_violates :
    eMinOverTimeOld [some .pinf, some .pinf] = some (.fin maxFloat64) ∧ eMin [some .pinf, some .pinf] = some .pinf ∧
    eMaxOverTimeOld [some .ninf] = some (.fin (-maxFloat64)) ∧ eMax [some .ninf] = some .ninf ∧
    eQuantileOld 0 [some (.fin 5), some .pinf] = none ∧ eQuantile 0 [some (.fin 5), some .pinf] = some (.fin 5) ∧
    eQuantileOld (1/2) [some .pinf] = none ∧ eQuantile (1/2) [some .pinf] = some .pinf := by decide +kernel

/-- non-vacuity of max_is_definition and the other operators on a column mixing finite and infinite points -/
example : eMax [some (.fin 2), none, some .pinf, some .ninf] = some .pinf ∧ eMin [some (.fin 2), none, some .ninf] = some .ninf ∧
    eSum [some (.fin 2), some .pinf] = some .pinf ∧ eSum [some .ninf, some .pinf] = none ∧
    eAvg [some (.fin 2), some (.fin 4), none] = some (.fin 3) ∧ eCount [some .pinf, none] = some (.fin 1) ∧
    eQuantile (1/2) [some (.fin 1), some (.fin 3), some .pinf] = some (.fin 3) := by decide +kernel



/-- quantile with q outside [0,1]: −∞ / +∞ where the column has a point, nothing where every input point is missing; the tree
    before fixes/C27-quantile-out-of-range.diff emitted ±∞ there too (a point where there is nothing to aggregate) -/
theorem quantile_out_of_range :
    eQuantile (-1/2) [none, none] = none ∧ eQuantile (3/2) [none] = none ∧
    eQuantile (-1/2) [none, some (.fin 7)] = some .ninf ∧ eQuantile (3/2) [some (.fin 7), none] = some .pinf ∧
    eQuantileOutOld (-1/2) [none, none] = some .ninf ∧ eQuantileOutOld (3/2) [none] = some .pinf := by decide +kernel

/-- **over_time_is_definition on every non-decreasing grid, not-strict functions (avg, min, max, last), no per-grid
    hypothesis**: with `Lgrid t w lodStep i` = the largest l ≥ 1 such that w ≤ t_i − t_l + (bucket width of point i) — derived
    from the grid and the range alone — point i carries the function of the points Lgrid i … i (the nil value when none is
    present) and is missing exactly where Lgrid i = 0.  A coarse LOD followed by a fine one (two-LOD time scales) is a
    special case. -/
theorem over_time_is_definition_any_grid (t : List Int) (w lodStep : Int) (hw : 0 < w) (hlod : 0 ≤ lodStep)
    (hmono : ∀ i, i + 1 < t.length → tAt t i ≤ tAt t (i + 1)) (f : OtFn) (hf : otStrict f = false)
    (v : List Val) (hv : v.length = t.length) (i : Nat) (hi : i < t.length) :
    (overTime t w lodStep f v).getD i none =
      if Lgrid t w lodStep i = 0 then none
      else if (present (slice v (Lgrid t w lodStep i) i)).length = 0 then otNil f
      else otApply f (slice v (Lgrid t w lodStep i) i) := by
  have hlast : lodStep = (gridCtx t w lodStep hw hlod hmono).sOf ((gridCtx t w lodStep hw hlod hmono).t.length - 1) := by
    show lodStep = sOfGrid t lodStep (t.length - 1)
    unfold sOfGrid
    have : ¬ (t.length - 1 + 1 < t.length) := by omega
    simp [this]
  exact over_time_is_definition_general (gridCtx t w lodStep hw hlod hmono) f hf.symm v hv lodStep hlast i hi

/-- the two-LOD grid of `twoLodCtx` again, now without any per-grid check: the edge computed from the grid -/
example : (List.range 6).map (Lgrid twoLodT 30 15) = [0, 1, 1, 2, 3, 4] := by decide +kernel
example : (overTime twoLodT 30 15 .avg [some 1, some 2, some 4, none, some 8, some 16]).getD 2 none
    = otApply .avg (slice [some 1, some 2, some 4, none, some 8, some 16] (Lgrid twoLodT 30 15 2) 2) := by
  rw [over_time_is_definition_any_grid twoLodT 30 15 (by decide) (by decide)
    (by intro i hi
        have : i < 5 := by
          have : i + 1 < 6 := hi
          omega
        match i, this with
        | 0, _ | 1, _ | 2, _ | 3, _ | 4, _ => decide) .avg rfl _ rfl 2 (by decide)]
  decide +kernel


end SH.Props.C27
