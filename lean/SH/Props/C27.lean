/-
  SH.Props.C27 — PromQL evaluation matches operator definitions and rewrites preserve results.

  Property: for any series data, aggregation operators (sum, min, max, avg, count, group, stddev, stdvar, quantile, topk,
  bottomk) with by/without grouping compute their definitions at every timestamp with missing points excluded, and
  over-time functions compute their definitions over the selected window.  Pushing an aggregation or over-time function
  down into the storage query (reduction) yields the same result as evaluating it in the engine over the underlying series.

  What is proved (model SH.Model.PromEval, exact arithmetic, `none` = missing point):
    * aggSum_def / aggMin_def / aggMax_def / aggAvg_def / aggCount_def / aggGroup_def / aggStdVar_def / varOf_nonneg /
      aggStdDev_sq_partial / aggQuantile_zero: each operator's loop equals its definition over the present points;
      agg_present_only / aggQuantile_present_only: for EVERY operator the value depends on the column only through its
      present points (∀ columns, both code variants).
    * reduce_sum_sound / reduce_count_sound / reduce_min_sound / reduce_max_sound / reduce_avg_sound: what the storage
      returns for the pooled rows of a group (tsValues.merge, then tsValues.value) equals the engine's aggregate of the
      per-series storage values, ∀ rows, ∀ steps — the algebraic core of "reduction preserves the result".  PARTIAL: the lift
      to whole expressions (partition of the events of a bucket by series, grouping keys, exec) is tied by the
      correspondence and by the harness' reduce-* oracle, not proved.
    * rule1_closed_form: the side conditions of the over-time rule (Range ≤ step, = step for stddev/stdvar).
    * moveOneLeft_shape: every cursor move on every time grid moves r by one, keeps l ≤ r and never moves l right.
      PARTIAL (statement at the end of the file): over_time_is_definition on uniform grids.
    * aggGroup_repo_violates, aggStdVar_repo_violates, repo_reduction_violates: the pinned tree's behaviour (Cfg.repo)
      contradicts the property on concrete inputs; Cfg.fixed = fixes/C27-*.diff.
    * binApply_self / binApply_matched: vector-vector binary operators (one-to-one): an operand matched against itself loses
      no series; every result series stems from a left and a right series with equal matching label sets and carries them.
  topk/bottomk, quantile (q > 0), stddev on non-squares, grouping keys: correspondence + def-* oracle only.
  Float rounding (numeric stability) is outside the exact model: judged by the harness' def-*-numeric oracle only.
-/
import SH.Model.PromEval
import Mathlib.Algebra.Order.Field.Rat
import Mathlib.Tactic.Ring
import Mathlib.Tactic.Linarith

namespace SH.Props.C27
open SH.PromEval

/-! helper lemmas -/

theorem present_nil : present [] = [] := rfl
theorem present_cons_none (c : List Val) : present (none :: c) = present c := by simp [present]
theorem present_cons_some (x : Rat) (c : List Val) : present (some x :: c) = x :: present c := by simp [present]

theorem present_map_some (xs : List Rat) : present (xs.map some) = xs := by
  induction xs with
  | nil => rfl
  | cons x xs ih => simp [present_cons_some, ih]

theorem ratSum_cons (x : Rat) (l : List Rat) : ratSum (x :: l) = x + ratSum l := by
  unfold ratSum
  have h : ∀ (l : List Rat) (a : Rat), l.foldl (· + ·) a = a + l.foldl (· + ·) 0 := by
    intro l
    induction l with
    | nil => intro a; simp
    | cons y ys ih => intro a; simp only [List.foldl_cons]; rw [ih (a + y), ih (0 + y)]; ring
  simp only [List.foldl_cons]
  rw [h l (0 + x)]; ring

theorem ratSum_nil : ratSum [] = 0 := rfl

/-- the accumulator form of funcSum's loop -/
theorem foldl_sumStep (c : List Val) (acc : Val) :
    c.foldl sumStep acc =
      match acc with
      | none => if present c = [] then none else some (ratSum (present c))
      | some r => some (r + ratSum (present c)) := by
  induction c generalizing acc with
  | nil => cases acc <;> simp [present_nil, ratSum_nil]
  | cons v c ih =>
    cases v with
    | none =>
      simp only [List.foldl_cons, present_cons_none]
      cases acc <;> simp [sumStep, ih]
    | some x =>
      simp only [List.foldl_cons, present_cons_some]
      cases acc with
      | none => simp [sumStep, ih, ratSum_cons]
      | some r => simp [sumStep, ih, ratSum_cons]; ring

/-- **sum** — "sum computes its definition at every timestamp with missing points excluded": the result is missing
    iff no point is present, otherwise the sum of the present points. -/
theorem aggSum_def (col : List Val) :
    aggSum col = if present col = [] then none else some (ratSum (present col)) := by
  unfold aggSum; rw [foldl_sumStep]


/-- maximum of a non-empty list by the code's comparison -/
def maxOf (r : Rat) (l : List Rat) : Rat := l.foldl (fun r x => if r < x then x else r) r
def minOf (r : Rat) (l : List Rat) : Rat := l.foldl (fun r x => if x < r then x else r) r

theorem foldl_maxStep (c : List Val) (acc : Val) :
    c.foldl maxStep acc =
      match acc with
      | none => (match present c with | [] => none | x :: xs => some (maxOf x xs))
      | some r => some (maxOf r (present c)) := by
  induction c generalizing acc with
  | nil => cases acc <;> simp [present_nil, maxOf]
  | cons v c ih =>
    cases v with
    | none =>
      simp only [List.foldl_cons, present_cons_none]
      cases acc <;> simp [maxStep, ih]
    | some x =>
      simp only [List.foldl_cons, present_cons_some]
      cases acc with
      | none => simp [maxStep, ih]
      | some r =>
        by_cases h : r < x <;> simp [maxStep, ih, maxOf, h]

theorem foldl_minStep (c : List Val) (acc : Val) :
    c.foldl minStep acc =
      match acc with
      | none => (match present c with | [] => none | x :: xs => some (minOf x xs))
      | some r => some (minOf r (present c)) := by
  induction c generalizing acc with
  | nil => cases acc <;> simp [present_nil, minOf]
  | cons v c ih =>
    cases v with
    | none =>
      simp only [List.foldl_cons, present_cons_none]
      cases acc <;> simp [minStep, ih]
    | some x =>
      simp only [List.foldl_cons, present_cons_some]
      cases acc with
      | none => simp [minStep, ih]
      | some r =>
        by_cases h : x < r <;> simp [minStep, ih, minOf, h]

theorem maxOf_spec (l : List Rat) (r : Rat) :
    (maxOf r l = r ∨ maxOf r l ∈ l) ∧ r ≤ maxOf r l ∧ ∀ x ∈ l, x ≤ maxOf r l := by
  induction l generalizing r with
  | nil => simp [maxOf]
  | cons y ys ih =>
    have hstep : maxOf r (y :: ys) = maxOf (if r < y then y else r) ys := by simp [maxOf]
    rw [hstep]
    obtain ⟨h1, h2, h3⟩ := ih (if r < y then y else r)
    by_cases h : r < y
    · simp only [h, if_true] at h1 h2 h3 ⊢
      refine ⟨?_, by linarith, ?_⟩
      · rcases h1 with h1 | h1
        · right; rw [h1]; simp
        · right; exact List.mem_cons_of_mem _ h1
      · intro x hx
        rcases List.mem_cons.mp hx with rfl | hx
        · exact h2
        · exact h3 x hx
    · simp only [h, if_false] at h1 h2 h3 ⊢
      refine ⟨?_, h2, ?_⟩
      · rcases h1 with h1 | h1
        · left; exact h1
        · right; exact List.mem_cons_of_mem _ h1
      · intro x hx
        rcases List.mem_cons.mp hx with rfl | hx
        · have : x ≤ r := not_lt.mp h
          linarith
        · exact h3 x hx

theorem minOf_spec (l : List Rat) (r : Rat) :
    (minOf r l = r ∨ minOf r l ∈ l) ∧ minOf r l ≤ r ∧ ∀ x ∈ l, minOf r l ≤ x := by
  induction l generalizing r with
  | nil => simp [minOf]
  | cons y ys ih =>
    have hstep : minOf r (y :: ys) = minOf (if y < r then y else r) ys := by simp [minOf]
    rw [hstep]
    obtain ⟨h1, h2, h3⟩ := ih (if y < r then y else r)
    by_cases h : y < r
    · simp only [h, if_true] at h1 h2 h3 ⊢
      refine ⟨?_, by linarith, ?_⟩
      · rcases h1 with h1 | h1
        · right; rw [h1]; simp
        · right; exact List.mem_cons_of_mem _ h1
      · intro x hx
        rcases List.mem_cons.mp hx with rfl | hx
        · exact h2
        · exact h3 x hx
    · simp only [h, if_false] at h1 h2 h3 ⊢
      refine ⟨?_, h2, ?_⟩
      · rcases h1 with h1 | h1
        · left; exact h1
        · right; exact List.mem_cons_of_mem _ h1
      · intro x hx
        rcases List.mem_cons.mp hx with rfl | hx
        · have : r ≤ x := not_lt.mp h
          linarith
        · exact h3 x hx

/-- **max** — missing iff no point is present; otherwise a present point that bounds every present point from above. -/
theorem aggMax_def (col : List Val) :
    (present col = [] → aggMax col = none) ∧
    (present col ≠ [] → ∃ m, aggMax col = some m ∧ m ∈ present col ∧ ∀ x ∈ present col, x ≤ m) := by
  unfold aggMax; rw [foldl_maxStep]
  constructor
  · intro h; simp [h]
  · intro h
    cases hp : present col with
    | nil => exact absurd hp h
    | cons x xs =>
      obtain ⟨h1, h2, h3⟩ := maxOf_spec xs x
      refine ⟨maxOf x xs, rfl, ?_, ?_⟩
      · rcases h1 with h1 | h1
        · rw [h1]; simp
        · exact List.mem_cons_of_mem _ h1
      · intro y hy
        rcases List.mem_cons.mp hy with rfl | hy
        · exact h2
        · exact h3 y hy

/-- **min** — missing iff no point is present; otherwise a present point that bounds every present point from below. -/
theorem aggMin_def (col : List Val) :
    (present col = [] → aggMin col = none) ∧
    (present col ≠ [] → ∃ m, aggMin col = some m ∧ m ∈ present col ∧ ∀ x ∈ present col, m ≤ x) := by
  unfold aggMin; rw [foldl_minStep]
  constructor
  · intro h; simp [h]
  · intro h
    cases hp : present col with
    | nil => exact absurd hp h
    | cons x xs =>
      obtain ⟨h1, h2, h3⟩ := minOf_spec xs x
      refine ⟨minOf x xs, rfl, ?_, ?_⟩
      · rcases h1 with h1 | h1
        · rw [h1]; simp
        · exact List.mem_cons_of_mem _ h1
      · intro y hy
        rcases List.mem_cons.mp hy with rfl | hy
        · exact h2
        · exact h3 y hy


/-! ### missing points are excluded: every aggregator is a function of the present points only -/

theorem aggSum_present (col : List Val) : aggSum col = aggSum ((present col).map some) := by
  rw [aggSum_def, aggSum_def, present_map_some]
theorem aggMax_present (col : List Val) : aggMax col = aggMax ((present col).map some) := by
  unfold aggMax; rw [foldl_maxStep, foldl_maxStep, present_map_some]
theorem aggMin_present (col : List Val) : aggMin col = aggMin ((present col).map some) := by
  unfold aggMin; rw [foldl_minStep, foldl_minStep, present_map_some]

/-- **every operator, missing points excluded** — for all eight fold aggregators and quantile, under both code variants,
    the value at a timestamp depends on the column only through its present points (inserting or deleting missing
    points anywhere changes nothing). -/
theorem agg_present_only (cfg : Cfg) (op : AggOp) (col : List Val) :
    aggApply cfg op col = aggApply cfg op ((present col).map some) := by
  cases op
  · exact aggSum_present col
  · exact aggMin_present col
  · exact aggMax_present col
  · simp [aggApply, aggAvg, present_map_some]
  · simp [aggApply, aggCount, present_map_some]
  · simp [aggApply, aggGroup, present_map_some]
  · simp [aggApply, aggStdDev, aggStdVar, present_map_some]
  · simp [aggApply, aggStdVar, present_map_some]

theorem aggQuantile_present_only (q : Rat) (col : List Val) :
    aggQuantile q col = aggQuantile q ((present col).map some) := by
  simp [aggQuantile, present_map_some]

/-- non-vacuity: a column with missing points in the middle -/
example : aggApply Cfg.fixed .avg [some 3, none, some 6, none] = some (9 / 2) := by decide +kernel
example : aggApply Cfg.fixed .max [none, some (-2), none, some (-7)] = some (-2) := by decide +kernel

/-! ### count, avg, group, stdvar, stddev -/

/-- **count** = number of present points (0, not missing, when there is none — the engine's convention, shared with count_over_time) -/
theorem aggCount_def (col : List Val) : aggCount col = some ((present col).length : Rat) := rfl

/-- **avg** = sum of the present points / their number; missing iff none is present -/
theorem aggAvg_def (col : List Val) :
    aggAvg col = if present col = [] then none else some (ratSum (present col) / ((present col).length : Rat)) := by
  unfold aggAvg
  by_cases h : present col = [] <;> simp [h]

/-- avg · count = sum wherever a point is present -/
theorem aggAvg_mul_count (col : List Val) (a : Rat) (h : aggAvg col = some a) :
    a * ((present col).length : Rat) = ratSum (present col) := by
  unfold aggAvg at h
  by_cases h0 : (present col).length = 0
  · simp [h0] at h
  · simp only [h0, if_false, Option.some.injEq] at h
    have : ((present col).length : Rat) ≠ 0 := by exact_mod_cast h0
    rw [← h]; exact div_mul_cancel₀ _ this

/-- **group** (fixed code) is 1 exactly where some point is present and missing elsewhere -/
theorem aggGroup_def (col : List Val) :
    aggGroup Cfg.fixed col = if present col = [] then none else some 1 := by
  unfold aggGroup Cfg.fixed
  by_cases h : present col = [] <;> simp [h]

/-- the pinned tree violates this: group is 1 at a timestamp where every input point is missing -/
theorem aggGroup_repo_violates : aggGroup Cfg.repo [none, none] = some 1 ∧ present ([none, none] : List Val) = [] := by
  decide +kernel

theorem ratSum_map_div (l : List Rat) (f : Rat → Rat) (n : Rat) :
    ratSum (l.map (fun v => f v / n)) = ratSum (l.map f) / n := by
  induction l with
  | nil => simp [ratSum_nil]
  | cons x xs ih => simp only [List.map_cons, ratSum_cons, ih]; ring

/-- the loop `res += d*d/cnt` of funcStdVar is the mean squared deviation -/
theorem varOf_def (xs : List Rat) :
    varOf xs = ratSum (xs.map (fun v => (v - ratSum xs / (xs.length : Rat)) * (v - ratSum xs / (xs.length : Rat)))) / (xs.length : Rat) := by
  unfold varOf
  exact ratSum_map_div xs _ _

/-- **stdvar** (fixed code) = mean squared deviation of the present points from their mean; missing iff none is present -/
theorem aggStdVar_def (col : List Val) :
    aggStdVar Cfg.fixed col =
      if present col = [] then none
      else some (ratSum ((present col).map (fun v => (v - ratSum (present col) / ((present col).length : Rat)) *
              (v - ratSum (present col) / ((present col).length : Rat)))) / ((present col).length : Rat)) := by
  unfold aggStdVar Cfg.fixed
  by_cases h : present col = []
  · simp [h]
  · simp [h, varOf_def]

theorem ratSum_sq_nonneg (l : List Rat) (f : Rat → Rat) : 0 ≤ ratSum (l.map (fun v => f v * f v)) := by
  induction l with
  | nil => simp [ratSum_nil]
  | cons x xs ih => simp only [List.map_cons, ratSum_cons]; nlinarith [mul_self_nonneg (f x)]

/-- a variance is never negative -/
theorem varOf_nonneg (xs : List Rat) : 0 ≤ varOf xs := by
  rw [varOf_def]
  apply div_nonneg (ratSum_sq_nonneg xs _)
  exact_mod_cast Nat.zero_le _

/-- the pinned tree violates this: stdvar / stddev are 0 where every input point is missing -/
theorem aggStdVar_repo_violates :
    aggStdVar Cfg.repo [none, none] = some 0 ∧ aggStdDev Cfg.repo [none] = some 0 ∧ aggStdVar Cfg.fixed [none, none] = none := by
  decide +kernel

/-- **stddev** squares to stdvar whenever the variance is a perfect square (the only case the exact model covers) -/
theorem aggStdDev_sq_partial (cfg : Cfg) (col : List Val) (v : Rat) (hv : aggStdVar cfg col = some v)
    (hsq : sqrtExact v * sqrtExact v = v) :
    ∃ d, aggStdDev cfg col = some d ∧ d * d = v := by
  refine ⟨sqrtExact v, ?_, hsq⟩
  simp [aggStdDev, hv]
example : aggStdVar Cfg.fixed [some 1, none, some 7] = some 9 ∧ sqrtExact 9 * sqrtExact 9 = 9 := by decide +kernel

/-! ### quantile -/

theorem quantileSorted_zero (xs : List Rat) : quantileSorted 0 xs = xs.head? := by
  cases xs with
  | nil => simp [quantileSorted]
  | cons x xs =>
    cases xs with
    | nil => simp [quantileSorted]
    | cons y ys =>
      have hf : (Rat.floor 0).toNat = 0 := by decide +kernel
      simp [quantileSorted, hf]

/-- quantile(0, …) is the least present point (head of the sorted present points), missing iff none is present -/
theorem aggQuantile_zero (col : List Val) : aggQuantile 0 col = (isort (present col)).head? := by
  simp [aggQuantile, quantileSorted_zero]

example : aggQuantile (1/2) [some 10, none, some 30, some 20, none] = some 20 := by decide +kernel
example : aggQuantile (1/4) [some 10, none, some 30] = some 15 := by decide +kernel
example : aggQuantile 0 [none, some 5] = some 5 := by decide +kernel

/-! ### reductions: pushing an aggregation down into the pre-aggregating storage

  `per` = for every series of a group, the (merged) storage row of one time bucket, `none` where the series has no row.
  The engine-side evaluation asks the storage for every series separately (`Option.map (rowValue w …)`, a missing point
  where there is no row) and aggregates the answers; the pushed-down evaluation lets the storage merge the rows of the
  whole group (`pooled`) and asks once. -/

def pooled (per : List (Option Row)) : Option Row := mergeRows (per.filterMap id)

theorem present_map_optmap (per : List (Option Row)) (f : Row → Rat) :
    present (per.map (Option.map f)) = (per.filterMap id).map f := by
  induction per with
  | nil => rfl
  | cons r rs ih =>
    cases r with
    | none => simpa [present] using ih
    | some r => simp only [List.map_cons, Option.map_some, present_cons_some, ih]; simp

theorem foldl_merge_sum (rs : List Row) (r : Row) : (rs.foldl Row.merge r).sum = r.sum + ratSum (rs.map (·.sum)) := by
  induction rs generalizing r with
  | nil => simp [ratSum_nil]
  | cons x xs ih => simp only [List.foldl_cons, List.map_cons, ratSum_cons, ih]; simp [Row.merge]; ring

theorem foldl_merge_count (rs : List Row) (r : Row) : (rs.foldl Row.merge r).count = r.count + ratSum (rs.map (·.count)) := by
  induction rs generalizing r with
  | nil => simp [ratSum_nil]
  | cons x xs ih => simp only [List.foldl_cons, List.map_cons, ratSum_cons, ih]; simp [Row.merge]; ring

theorem foldl_merge_min (rs : List Row) (r : Row) : (rs.foldl Row.merge r).min = minOf r.min (rs.map (·.min)) := by
  induction rs generalizing r with
  | nil => simp [minOf]
  | cons x xs ih => simp only [List.foldl_cons, List.map_cons, ih]; simp [Row.merge, minOf]

theorem foldl_merge_max (rs : List Row) (r : Row) : (rs.foldl Row.merge r).max = maxOf r.max (rs.map (·.max)) := by
  induction rs generalizing r with
  | nil => simp [maxOf]
  | cons x xs ih => simp only [List.foldl_cons, List.map_cons, ih]; simp [Row.merge, maxOf]

theorem ratSum_map_mul_div (l : List Row) (f : Row → Rat) (a b : Rat) :
    ratSum (l.map (fun r => f r * a / b)) = ratSum (l.map f) * a / b := by
  induction l with
  | nil => simp [ratSum_nil]
  | cons x xs ih => simp only [List.map_cons, ratSum_cons, ih]; ring

/-- the additive `what`s (sum, sumsec, count, countsec): value = g(row)·a/b with g additive under merge -/
theorem pooled_additive (per : List (Option Row)) (f g : Row → Rat) (a b : Rat)
    (hf : ∀ r, f r = g r * a / b)
    (hg : ∀ (rs : List Row) (r : Row), g (rs.foldl Row.merge r) = g r + ratSum (rs.map g)) :
    (pooled per).map f = aggSum (per.map (Option.map f)) := by
  rw [aggSum_def, present_map_optmap]
  unfold pooled
  cases h : per.filterMap id with
  | nil => simp [mergeRows]
  | cons r rs =>
    have hmap : rs.map f = rs.map (fun r => g r * a / b) := List.map_congr_left (fun r _ => hf r)
    simp only [mergeRows, Option.map_some, List.map_cons, ratSum_cons, hmap, ratSum_map_mul_div, hf, hg]
    simp only [List.cons_ne_nil, if_false]
    congr 1; ring

/-- **sum pushed down** (`sum by (G) (m)` → what = sumsec grouped by G, and `sum`/Range for the over-time rules): the
    storage's value for the pooled rows of the group equals the engine's `sum` over the per-series storage values, at
    every bucket, missing where no series has a row. -/
theorem reduce_sum_sound (per : List (Option Row)) (q l : Int) :
    (pooled per).map (rowValue .sumsec q l) = aggSum (per.map (Option.map (rowValue .sumsec q l))) ∧
    (pooled per).map (rowValue .sum q l) = aggSum (per.map (Option.map (rowValue .sum q l))) :=
  ⟨pooled_additive per _ (·.sum) 1 (l : Rat) (fun r => by simp [rowValue]) foldl_merge_sum,
   pooled_additive per _ (·.sum) (q : Rat) (l : Rat) (fun r => by simp [rowValue]) foldl_merge_sum⟩

/-- **count pushed down**: the pooled event count is the sum of the per-series counts (StatsHouse's `count(m)` counts
    events; with one event per series and bucket that is PromQL's number of present series). -/
theorem reduce_count_sound (per : List (Option Row)) (q l : Int) :
    (pooled per).map (rowValue .countsec q l) = aggSum (per.map (Option.map (rowValue .countsec q l))) ∧
    (pooled per).map (rowValue .count q l) = aggSum (per.map (Option.map (rowValue .count q l))) :=
  ⟨pooled_additive per _ (·.count) 1 (l : Rat) (fun r => by simp [rowValue]) foldl_merge_count,
   pooled_additive per _ (·.count) (q : Rat) (l : Rat) (fun r => by simp [rowValue]) foldl_merge_count⟩

/-- **min / max pushed down** -/
theorem reduce_min_sound (per : List (Option Row)) (q l : Int) :
    (pooled per).map (rowValue .min q l) = aggMin (per.map (Option.map (rowValue .min q l))) := by
  unfold aggMin; rw [foldl_minStep, present_map_optmap]
  unfold pooled
  cases h : per.filterMap id with
  | nil => simp [mergeRows]
  | cons r rs =>
    have hm : rs.map (rowValue .min q l) = rs.map (·.min) := List.map_congr_left (fun r _ => by simp [rowValue])
    simp [mergeRows, foldl_merge_min, hm, rowValue]

theorem reduce_max_sound (per : List (Option Row)) (q l : Int) :
    (pooled per).map (rowValue .max q l) = aggMax (per.map (Option.map (rowValue .max q l))) := by
  unfold aggMax; rw [foldl_maxStep, present_map_optmap]
  unfold pooled
  cases h : per.filterMap id with
  | nil => simp [mergeRows]
  | cons r rs =>
    have hm : rs.map (rowValue .max q l) = rs.map (·.max) := List.map_congr_left (fun r _ => by simp [rowValue])
    simp [mergeRows, foldl_merge_max, hm, rowValue]

/-- **avg pushed down, with the count carried**: the pooled average is (sum of the per-series sums) / (sum of the
    per-series counts) — NOT the engine's avg of the per-series averages, which weighs every series equally. -/
theorem reduce_avg_sound (per : List (Option Row)) (q : Int) :
    (pooled per).map (rowValue .avg q 1) =
      match aggSum (per.map (Option.map (rowValue .sumsec q 1))), aggSum (per.map (Option.map (rowValue .countsec q 1))) with
      | some s, some c => some (s / c)
      | _, _ => none := by
  rw [← (reduce_sum_sound per q 1).1, ← (reduce_count_sound per q 1).1]
  cases h : pooled per with
  | none => simp
  | some r => simp [rowValue]

/-- avg of averages is a different number (two series, 1 and 3 events): why only the pooled form is pushed down exactly -/
example :
    let per := [some (Row.merge (Row.ofEvent 2) (Row.ofEvent 4)), some (Row.ofEvent 12), none]
    (pooled per).map (rowValue .avg 1 1) = some 6 ∧ aggAvg (per.map (Option.map (rowValue .avg 1 1))) = some (15 / 2) := by
  decide +kernel

/-- non-vacuity of the reduce_* theorems: three series, one without a row -/
example :
    let per := [some (Row.ofEvent 5), none, some (Row.merge (Row.ofEvent (-1)) (Row.ofEvent 8))]
    (pooled per).map (rowValue .sumsec 5 5) = some (12 / 5) ∧ (pooled per).map (rowValue .min 5 5) = some (-1) ∧
    (pooled per).map (rowValue .count 5 5) = some 3 := by
  decide +kernel


/-! ### reduction rules: side conditions -/

/-- rule #1 (`f_over_time(m[r])`) as a closed form: it fires iff the range does not exceed the LOD step (and equals it for
    stddev/stdvar); the selector then carries `what = f`, `Range = r`, and stays ungrouped. -/
theorem rule1_closed_form (w : What) (needEq : Bool) (r step : Int) :
    evalReductionRules none [(.matrix r, 0), (.call (some w) needEq, 0)] step =
      if r > step then none
      else if needEq && r ≠ step then none
      else some { rule := 1, what := some w, step := r, upto := 0 } := by
  by_cases hr : r > step
  · simp [evalReductionRules, rulesLoop, rulesLevel, reductionRules, applyStep, reduceMatrix, reduceOverTime, reduceAgg,
      reduceSubquery, List.range, List.range.loop, hr]
  · by_cases hne : needEq = true ∧ ¬ r = step
    · simp [evalReductionRules, rulesLoop, rulesLevel, reductionRules, applyStep, reduceMatrix, reduceOverTime, reduceAgg,
        reduceSubquery, reduceWhat, List.range, List.range.loop, hr, hne]
    · simp [evalReductionRules, rulesLoop, rulesLevel, reductionRules, applyStep, reduceMatrix, reduceOverTime, reduceAgg,
        reduceSubquery, reduceWhat, List.range, List.range.loop, hr, hne]

example : evalReductionRules none [(.matrix 5, 0), (.call (some .sum) false, 0)] 5
    = some { rule := 1, what := some .sum, step := 5, upto := 0 } := by decide +kernel
example : evalReductionRules none [(.matrix 10, 0), (.call (some .sum) false, 0)] 5 = none := by decide +kernel
/-- rule #2 absorbs the aggregation above an over-time call; rule #0 an aggregation alone; a mismatching pair stops at #1 -/
example : evalReductionRules none [(.matrix 5, 0), (.call (some .sum) false, 0), (.agg (some .sumsec) false [1], 1)] 5
    = some { rule := 2, what := some .sum, step := 5, grouped := true, groupBy := [1], upto := 1 } := by decide +kernel
example : evalReductionRules none [(.matrix 5, 0), (.call (some .sum) false, 0), (.agg (some .min) false [1], 1)] 5
    = some { rule := 1, what := some .sum, step := 5, upto := 0 } := by decide +kernel
/-- an explicit `__what__` takes part in the matching (fixed code): max(m{__what__="sum"}) is not pushed down -/
example : evalReductionRules (some .sum) [(.agg (some .max) false [], 0)] 1 = none := by decide +kernel
example : evalReductionRules (some .sum) [(.agg (some .sumsec) false [], 0)] 1
    = some { rule := 0, what := some .sum, grouped := true, upto := 0 } := by decide +kernel


/-! ### the pinned tree drops the rule's `what`: a concrete storage where the property fails -/

def exStore : Store := ⟨[[(1, 1), (2, 1), (3, 1)], [(1, 1), (2, 2), (3, 1)]], [⟨0, 100, 2⟩, ⟨1, 100, 10⟩, ⟨0, 101, 4⟩]⟩
def exTS : TS := ⟨[99, 100, 101], 1, 1, 3, 1, 1, []⟩

/-- `sum(m)`: the engine-side evaluation (selector wrapped in `+ 0`) gives 12 and 4; the fixed tree pushes it down with
    the same result; the pinned tree asks the storage for `avg` of the group and returns 6 and 4;
    `count(m)` on the pinned tree is also 6 (the average!), the fixed tree counts 2 and 1. -/
theorem repo_reduction_violates :
    exec Cfg.fixed exStore exTS none [.brk, .agg .sum false []] = [⟨[], [some 12, some 4]⟩] ∧
    exec Cfg.fixed exStore exTS none [.agg .sum false []] = [⟨[], [some 12, some 4]⟩] ∧
    exec Cfg.repo exStore exTS none [.agg .sum false []] = [⟨[], [some 6, some 4]⟩] ∧
    exec Cfg.repo exStore exTS none [.agg .count false []] = [⟨[], [some 6, some 4]⟩] ∧
    exec Cfg.fixed exStore exTS none [.agg .count false []] = [⟨[], [some 2, some 1]⟩] := by
  decide +kernel



theorem searchLeft_le (t : List Int) (v : List Val) (wd : Wnd) (r l n : Nat) : (searchLeft t v wd r l n).1 ≤ l := by
  induction l generalizing n with
  | zero => simp [searchLeft]
  | succ l ih =>
    unfold searchLeft
    split
    · simp
    · exact Nat.le_succ_of_le (ih _)

theorem finishMove_shape (t : List Int) (wd wd' : Wnd) (r l n : Nat) (f : Bool) (h : finishMove t wd r l n f = some wd') :
    wd'.r = r ∧ wd'.l = l ∧ wd'.w = wd.w ∧ wd'.strict = wd.strict := by
  unfold finishMove at h
  split at h
  · split at h
    · cases h; simp
    · cases h
  · cases h; simp

/-- **cursor shape, every move on every grid** (what the repo's TestWindow* samples): the right edge moves left by exactly
    one, the left edge never passes it and never moves right, width and strictness are untouched. -/
theorem moveOneLeft_shape (t : List Int) (v : List Val) (wd wd' : Wnd) (h : moveOneLeft t v wd = some wd') :
    wd'.r = wd.r - 1 ∧ wd'.l ≤ wd'.r ∧ wd'.l ≤ wd.l ∧ wd'.w = wd.w ∧ wd'.strict = wd.strict := by
  unfold moveOneLeft at h
  split at h
  · cases h
  · have hl0 : leftStart wd (wd.r - 1) ≤ wd.r - 1 := by unfold leftStart; split <;> omega
    have hl1 : leftStart wd (wd.r - 1) ≤ wd.l := by unfold leftStart; split <;> omega
    obtain ⟨h1, h2, h3, h4⟩ := finishMove_shape _ _ _ _ _ _ _ h
    refine ⟨h1, ?_, ?_, h3, h4⟩
    · rw [h1, h2]
      split
      · exact hl0
      · exact Nat.le_trans (searchLeft_le _ _ _ _ _ _) hl0
    · rw [h2]
      split
      · exact hl1
      · exact Nat.le_trans (searchLeft_le _ _ _ _ _ _) hl1

example : moveOneLeft [0, 5, 10] [some 1, none, some 3] (newWindow 3 10 5 false)
    = some { w := 10, s := 5, l := 1, r := 2, n := 1, strict := false, done := false } := by decide +kernel

/-
  Full statement not proved (over_time_is_definition): on a uniform grid t[i] = t0 + i·s with range w = k·s, k ≥ 1, for
  every r ≥ k the cursor stops at l = r − k + 1 with n = number of present points of v[l..r], hence
  `overTime t w s f v` at r = f (present points of v[r−k+1 .. r]) and missing for r < k (index 0 is a guard point).
  The cursor is modelled move for move and compared with the real one on random (also non-uniform) grids; the harness'
  def-*-over-time oracle recomputes every window from this definition.
-/

/-- over-time functions on a concrete series (uniform 5 s grid): sum over 10 s = the two points of the window, missing
    points skipped; count is 0 (not missing) on an empty window; a strict function sees an empty window when the range is
    narrower than the step, a non-strict one stretches to one point. -/
example : overTime [0, 5, 10, 15, 20] 10 5 .sum [some 1, some 2, none, some 4, some 8] = [none, none, some 2, some 4, some 12] := by
  decide +kernel
example : overTime [0, 5, 10, 15, 20] 10 5 .count [some 1, none, none, some 4, some 8] = [none, none, some 0, some 1, some 2] := by
  decide +kernel
example : overTime [0, 5, 10, 15, 20] 5 5 .max [some 1, some 2, none, some 4, some 8] = [none, some 2, none, some 4, some 8] := by
  decide +kernel
example : overTime [0, 5, 10, 15, 20] 3 5 .sum [some 1, some 2, none, some 4, some 8] = [none, none, none, none, none] := by
  decide +kernel
example : overTime [0, 5, 10, 15, 20] 3 5 .avg [some 1, some 2, none, some 4, some 8] = [none, some 2, none, some 4, some 8] := by
  decide +kernel

/-! ### vector-vector binary operators: one-to-one label-set matching -/

theorem find_self_of_noDup (k : Series → Tags) (l : List Series) (h : hasDup (l.map k) = false) :
    ∀ s ∈ l, l.find? (fun s' => k s' = k s) = some s := by
  induction l with
  | nil => intro s hs; cases hs
  | cons x xs ih =>
    simp only [List.map_cons, hasDup, Bool.or_eq_false_iff] at h
    obtain ⟨hx, hxs⟩ := h
    intro s hs
    rcases List.mem_cons.mp hs with rfl | hs
    · simp [List.find?]
    · have hne : k x ≠ k s := by
        intro heq
        have : (xs.map k).contains (k x) = true := by
          rw [List.contains_iff_mem]; rw [heq]; exact List.mem_map_of_mem hs
        rw [this] at hx; cases hx
      simp only [List.find?]
      simp [hne, ih hxs s hs]

theorem filterMap_eq_map_of_some {α β} (l : List α) (f : α → Option β) (g : α → β) (h : ∀ a ∈ l, f a = some (g a)) :
    l.filterMap f = l.map g := by
  induction l with
  | nil => rfl
  | cons x xs ih =>
    simp only [List.filterMap_cons, h x (List.mem_cons_self), List.map_cons]
    rw [ih (fun a ha => h a (List.mem_cons_of_mem _ ha))]

/-- **an operand matched against itself**: for a vector that is not the label-less scalar and whose matching label sets
    are pairwise different, `x op x` (any matching) pairs every series with itself: no series is lost, the values are
    `v op v` pointwise, the labels are the matching labels.  (This is the inner step of `agg (x op x) op agg (x)`.) -/
theorem binApply_self (op : BinOp) (m : Matching) (ss : List Series)
    (hs : isScalar ss = false) (hd : hasDup (ss.map (fun s => matchKey m s.tags)) = false) :
    binApply op m ss ss =
      some (ss.map (fun s => { tags := matchKey m s.tags, vals := zipVals (binVal op false) s.vals s.vals })) := by
  unfold binApply
  simp only [hs, hd, Bool.false_eq_true, if_false, Bool.or_self]
  congr 1
  apply filterMap_eq_map_of_some
  intro s hmem
  rw [find_self_of_noDup (fun s => matchKey m s.tags) ss hd s hmem]
  rfl

/-- every result series of a label-matched operation comes from a left series and a right series with the same matching
    label set, carries exactly that label set, and no left series contributes twice -/
theorem binApply_matched (op : BinOp) (m : Matching) (l r out : List Series)
    (hl : isScalar l = false) (hr : isScalar r = false) (h : binApply op m l r = some out) :
    out.length ≤ l.length ∧
    ∀ o ∈ out, ∃ a ∈ l, ∃ b ∈ r, matchKey m a.tags = matchKey m b.tags ∧ o.tags = matchKey m a.tags ∧
      o.vals = zipVals (binVal op false) a.vals b.vals := by
  unfold binApply at h
  simp only [hl, hr, Bool.false_eq_true, if_false] at h
  split at h
  · cases h
  · cases h
    refine ⟨List.length_filterMap_le _ _, ?_⟩
    intro o ho
    rw [List.mem_filterMap] at ho
    obtain ⟨a, ha, hfa⟩ := ho
    cases hf : r.find? (fun s' => matchKey m s'.tags = matchKey m a.tags) with
    | none => rw [hf] at hfa; cases hfa
    | some b =>
      rw [hf] at hfa
      simp only [Option.map_some, Option.some.injEq] at hfa
      have hb := List.find?_some hf
      have hbm := List.mem_of_find?_eq_some hf
      simp only [decide_eq_true_eq] at hb
      exact ⟨a, ha, b, hbm, hb.symm, by rw [← hfa], by rw [← hfa]⟩

/-- non-vacuity: two series matched on label 1; `on (1)` keeps only that label; a scalar left operand keeps the right points -/
example :
    binApply .mul (.on [1]) [⟨[(1, 1), (2, 1)], [some 2, none]⟩, ⟨[(1, 2), (2, 1)], [some 3, some 4]⟩]
                            [⟨[(1, 2)], [some 10, some 10]⟩, ⟨[(1, 1)], [some 5, some 5]⟩]
      = some [⟨[(1, 1)], [some 10, none]⟩, ⟨[(1, 2)], [some 30, some 40]⟩] := by decide +kernel
example :
    binApply .add .dflt [⟨[(1, 1)], [some 2]⟩, ⟨[(1, 1)], [some 3]⟩] [⟨[(1, 1)], [some 1]⟩] = none := by decide +kernel
example :
    binApply .gt .dflt [⟨[], [some 7, some 7]⟩] [⟨[(1, 1)], [some 5, some 9]⟩] = some [⟨[(1, 1)], [some 5, none]⟩] := by
  decide +kernel


end SH.Props.C27
