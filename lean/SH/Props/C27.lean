import SH.Model.PromEval
import Mathlib.Algebra.Order.Field.Rat
import Mathlib.Tactic.Ring
import Mathlib.Tactic.Linarith

namespace SH.Props.C27
open SH.PromEval

/-! helper lemmas -/

theorem present_nil : present [] = [] := rfl
theorem present_cons_none (c : List Val) : present (none :: c) = present c := by simp [present]
theorem present_cons_some (x : Rat) (c : List Val) : present (some x :: c) = x :: present c := by simp [present]

theorem present_map_some (xs : List Rat) : present (xs.map some) = xs := by
  induction xs with
  | nil => rfl
  | cons x xs ih => simp [present_cons_some, ih]

theorem ratSum_cons (x : Rat) (l : List Rat) : ratSum (x :: l) = x + ratSum l := by
  unfold ratSum
  have h : ∀ (l : List Rat) (a : Rat), l.foldl (· + ·) a = a + l.foldl (· + ·) 0 := by
    intro l
    induction l with
    | nil => intro a; simp
    | cons y ys ih => intro a; simp only [List.foldl_cons]; rw [ih (a + y), ih (0 + y)]; ring
  simp only [List.foldl_cons]
  rw [h l (0 + x)]; ring

theorem ratSum_nil : ratSum [] = 0 := rfl

/-- the accumulator form of funcSum's loop -/
theorem foldl_sumStep (c : List Val) (acc : Val) :
    c.foldl sumStep acc =
      match acc with
      | none => if present c = [] then none else some (ratSum (present c))
      | some r => some (r + ratSum (present c)) := by
  induction c generalizing acc with
  | nil => cases acc <;> simp [present_nil, ratSum_nil]
  | cons v c ih =>
    cases v with
    | none =>
      simp only [List.foldl_cons, present_cons_none]
      cases acc <;> simp [sumStep, ih]
    | some x =>
      simp only [List.foldl_cons, present_cons_some]
      cases acc with
      | none => simp [sumStep, ih, ratSum_cons]
      | some r => simp [sumStep, ih, ratSum_cons]; ring

/-- **sum** — "sum computes its definition at every timestamp with missing points excluded": the result is missing
    iff no point is present, otherwise the sum of the present points. -/
theorem aggSum_def (col : List Val) :
    aggSum col = if present col = [] then none else some (ratSum (present col)) := by
  unfold aggSum; rw [foldl_sumStep]


/-- maximum of a non-empty list by the code's comparison -/
def maxOf (r : Rat) (l : List Rat) : Rat := l.foldl (fun r x => if r < x then x else r) r
def minOf (r : Rat) (l : List Rat) : Rat := l.foldl (fun r x => if x < r then x else r) r

theorem foldl_maxStep (c : List Val) (acc : Val) :
    c.foldl maxStep acc =
      match acc with
      | none => (match present c with | [] => none | x :: xs => some (maxOf x xs))
      | some r => some (maxOf r (present c)) := by
  induction c generalizing acc with
  | nil => cases acc <;> simp [present_nil, maxOf]
  | cons v c ih =>
    cases v with
    | none =>
      simp only [List.foldl_cons, present_cons_none]
      cases acc <;> simp [maxStep, ih]
    | some x =>
      simp only [List.foldl_cons, present_cons_some]
      cases acc with
      | none => simp [maxStep, ih]
      | some r =>
        by_cases h : r < x <;> simp [maxStep, ih, maxOf, h]

theorem foldl_minStep (c : List Val) (acc : Val) :
    c.foldl minStep acc =
      match acc with
      | none => (match present c with | [] => none | x :: xs => some (minOf x xs))
      | some r => some (minOf r (present c)) := by
  induction c generalizing acc with
  | nil => cases acc <;> simp [present_nil, minOf]
  | cons v c ih =>
    cases v with
    | none =>
      simp only [List.foldl_cons, present_cons_none]
      cases acc <;> simp [minStep, ih]
    | some x =>
      simp only [List.foldl_cons, present_cons_some]
      cases acc with
      | none => simp [minStep, ih]
      | some r =>
        by_cases h : x < r <;> simp [minStep, ih, minOf, h]

theorem maxOf_spec (l : List Rat) (r : Rat) :
    (maxOf r l = r ∨ maxOf r l ∈ l) ∧ r ≤ maxOf r l ∧ ∀ x ∈ l, x ≤ maxOf r l := by
  induction l generalizing r with
  | nil => simp [maxOf]
  | cons y ys ih =>
    have hstep : maxOf r (y :: ys) = maxOf (if r < y then y else r) ys := by simp [maxOf]
    rw [hstep]
    obtain ⟨h1, h2, h3⟩ := ih (if r < y then y else r)
    by_cases h : r < y
    · simp only [h, if_true] at h1 h2 h3 ⊢
      refine ⟨?_, by linarith, ?_⟩
      · rcases h1 with h1 | h1
        · right; rw [h1]; simp
        · right; exact List.mem_cons_of_mem _ h1
      · intro x hx
        rcases List.mem_cons.mp hx with rfl | hx
        · exact h2
        · exact h3 x hx
    · simp only [h, if_false] at h1 h2 h3 ⊢
      refine ⟨?_, h2, ?_⟩
      · rcases h1 with h1 | h1
        · left; exact h1
        · right; exact List.mem_cons_of_mem _ h1
      · intro x hx
        rcases List.mem_cons.mp hx with rfl | hx
        · have : x ≤ r := not_lt.mp h
          linarith
        · exact h3 x hx

theorem minOf_spec (l : List Rat) (r : Rat) :
    (minOf r l = r ∨ minOf r l ∈ l) ∧ minOf r l ≤ r ∧ ∀ x ∈ l, minOf r l ≤ x := by
  induction l generalizing r with
  | nil => simp [minOf]
  | cons y ys ih =>
    have hstep : minOf r (y :: ys) = minOf (if y < r then y else r) ys := by simp [minOf]
    rw [hstep]
    obtain ⟨h1, h2, h3⟩ := ih (if y < r then y else r)
    by_cases h : y < r
    · simp only [h, if_true] at h1 h2 h3 ⊢
      refine ⟨?_, by linarith, ?_⟩
      · rcases h1 with h1 | h1
        · right; rw [h1]; simp
        · right; exact List.mem_cons_of_mem _ h1
      · intro x hx
        rcases List.mem_cons.mp hx with rfl | hx
        · exact h2
        · exact h3 x hx
    · simp only [h, if_false] at h1 h2 h3 ⊢
      refine ⟨?_, h2, ?_⟩
      · rcases h1 with h1 | h1
        · left; exact h1
        · right; exact List.mem_cons_of_mem _ h1
      · intro x hx
        rcases List.mem_cons.mp hx with rfl | hx
        · have : r ≤ x := not_lt.mp h
          linarith
        · exact h3 x hx

/-- **max** — missing iff no point is present; otherwise a present point that bounds every present point from above. -/
theorem aggMax_def (col : List Val) :
    (present col = [] → aggMax col = none) ∧
    (present col ≠ [] → ∃ m, aggMax col = some m ∧ m ∈ present col ∧ ∀ x ∈ present col, x ≤ m) := by
  unfold aggMax; rw [foldl_maxStep]
  constructor
  · intro h; simp [h]
  · intro h
    cases hp : present col with
    | nil => exact absurd hp h
    | cons x xs =>
      obtain ⟨h1, h2, h3⟩ := maxOf_spec xs x
      refine ⟨maxOf x xs, rfl, ?_, ?_⟩
      · rcases h1 with h1 | h1
        · rw [h1]; simp
        · exact List.mem_cons_of_mem _ h1
      · intro y hy
        rcases List.mem_cons.mp hy with rfl | hy
        · exact h2
        · exact h3 y hy

/-- **min** — missing iff no point is present; otherwise a present point that bounds every present point from below. -/
theorem aggMin_def (col : List Val) :
    (present col = [] → aggMin col = none) ∧
    (present col ≠ [] → ∃ m, aggMin col = some m ∧ m ∈ present col ∧ ∀ x ∈ present col, m ≤ x) := by
  unfold aggMin; rw [foldl_minStep]
  constructor
  · intro h; simp [h]
  · intro h
    cases hp : present col with
    | nil => exact absurd hp h
    | cons x xs =>
      obtain ⟨h1, h2, h3⟩ := minOf_spec xs x
      refine ⟨minOf x xs, rfl, ?_, ?_⟩
      · rcases h1 with h1 | h1
        · rw [h1]; simp
        · exact List.mem_cons_of_mem _ h1
      · intro y hy
        rcases List.mem_cons.mp hy with rfl | hy
        · exact h2
        · exact h3 y hy


/-! ### missing points are excluded: every aggregator is a function of the present points only -/

theorem aggSum_present (col : List Val) : aggSum col = aggSum ((present col).map some) := by
  rw [aggSum_def, aggSum_def, present_map_some]
theorem aggMax_present (col : List Val) : aggMax col = aggMax ((present col).map some) := by
  unfold aggMax; rw [foldl_maxStep, foldl_maxStep, present_map_some]
theorem aggMin_present (col : List Val) : aggMin col = aggMin ((present col).map some) := by
  unfold aggMin; rw [foldl_minStep, foldl_minStep, present_map_some]

/-- **every operator, missing points excluded** — for all eight fold aggregators and quantile, under both code variants,
    the value at a timestamp depends on the column only through its present points (inserting or deleting missing
    points anywhere changes nothing). -/
theorem agg_present_only (cfg : Cfg) (op : AggOp) (col : List Val) :
    aggApply cfg op col = aggApply cfg op ((present col).map some) := by
  cases op
  · exact aggSum_present col
  · exact aggMin_present col
  · exact aggMax_present col
  · simp [aggApply, aggAvg, present_map_some]
  · simp [aggApply, aggCount, present_map_some]
  · simp [aggApply, aggGroup, present_map_some]
  · simp [aggApply, aggStdDev, aggStdVar, present_map_some]
  · simp [aggApply, aggStdVar, present_map_some]

theorem aggQuantile_present_only (q : Rat) (col : List Val) :
    aggQuantile q col = aggQuantile q ((present col).map some) := by
  simp [aggQuantile, present_map_some]

/-- non-vacuity: a column with missing points in the middle -/
example : aggApply Cfg.fixed .avg [some 3, none, some 6, none] = some (9 / 2) := by decide +kernel
example : aggApply Cfg.fixed .max [none, some (-2), none, some (-7)] = some (-2) := by decide +kernel

/-! ### count, avg, group, stdvar, stddev -/

/-- **count** = number of present points (0, not missing, when there is none — the engine's convention, shared with count_over_time) -/
theorem aggCount_def (col : List Val) : aggCount col = some ((present col).length : Rat) := rfl

/-- **avg** = sum of the present points / their number; missing iff none is present -/
theorem aggAvg_def (col : List Val) :
    aggAvg col = if present col = [] then none else some (ratSum (present col) / ((present col).length : Rat)) := by
  unfold aggAvg
  by_cases h : present col = [] <;> simp [h]

/-- avg · count = sum wherever a point is present -/
theorem aggAvg_mul_count (col : List Val) (a : Rat) (h : aggAvg col = some a) :
    a * ((present col).length : Rat) = ratSum (present col) := by
  unfold aggAvg at h
  by_cases h0 : (present col).length = 0
  · simp [h0] at h
  · simp only [h0, if_false, Option.some.injEq] at h
    have : ((present col).length : Rat) ≠ 0 := by exact_mod_cast h0
    rw [← h]; exact div_mul_cancel₀ _ this

/-- **group** (fixed code) is 1 exactly where some point is present and missing elsewhere -/
theorem aggGroup_def (col : List Val) :
    aggGroup Cfg.fixed col = if present col = [] then none else some 1 := by
  unfold aggGroup Cfg.fixed
  by_cases h : present col = [] <;> simp [h]

/-- the pinned tree violates this: group is 1 at a timestamp where every input point is missing -/
theorem aggGroup_repo_violates : aggGroup Cfg.repo [none, none] = some 1 ∧ present ([none, none] : List Val) = [] := by
  decide +kernel

theorem ratSum_map_div (l : List Rat) (f : Rat → Rat) (n : Rat) :
    ratSum (l.map (fun v => f v / n)) = ratSum (l.map f) / n := by
  induction l with
  | nil => simp [ratSum_nil]
  | cons x xs ih => simp only [List.map_cons, ratSum_cons, ih]; ring

/-- the loop `res += d*d/cnt` of funcStdVar is the mean squared deviation -/
theorem varOf_def (xs : List Rat) :
    varOf xs = ratSum (xs.map (fun v => (v - ratSum xs / (xs.length : Rat)) * (v - ratSum xs / (xs.length : Rat)))) / (xs.length : Rat) := by
  unfold varOf
  exact ratSum_map_div xs _ _

/-- **stdvar** (fixed code) = mean squared deviation of the present points from their mean; missing iff none is present -/
theorem aggStdVar_def (col : List Val) :
    aggStdVar Cfg.fixed col =
      if present col = [] then none
      else some (ratSum ((present col).map (fun v => (v - ratSum (present col) / ((present col).length : Rat)) *
              (v - ratSum (present col) / ((present col).length : Rat)))) / ((present col).length : Rat)) := by
  unfold aggStdVar Cfg.fixed
  by_cases h : present col = []
  · simp [h]
  · simp [h, varOf_def]

theorem ratSum_sq_nonneg (l : List Rat) (f : Rat → Rat) : 0 ≤ ratSum (l.map (fun v => f v * f v)) := by
  induction l with
  | nil => simp [ratSum_nil]
  | cons x xs ih => simp only [List.map_cons, ratSum_cons]; nlinarith [mul_self_nonneg (f x)]

/-- a variance is never negative -/
theorem varOf_nonneg (xs : List Rat) : 0 ≤ varOf xs := by
  rw [varOf_def]
  apply div_nonneg (ratSum_sq_nonneg xs _)
  exact_mod_cast Nat.zero_le _

/-- the pinned tree violates this: stdvar / stddev are 0 where every input point is missing -/
theorem aggStdVar_repo_violates :
    aggStdVar Cfg.repo [none, none] = some 0 ∧ aggStdDev Cfg.repo [none] = some 0 ∧ aggStdVar Cfg.fixed [none, none] = none := by
  decide +kernel

/-- **stddev** squares to stdvar whenever the variance is a perfect square (the only case the exact model covers) -/
theorem aggStdDev_sq_partial (cfg : Cfg) (col : List Val) (v : Rat) (hv : aggStdVar cfg col = some v)
    (hsq : sqrtExact v * sqrtExact v = v) :
    ∃ d, aggStdDev cfg col = some d ∧ d * d = v := by
  refine ⟨sqrtExact v, ?_, hsq⟩
  simp [aggStdDev, hv]
example : aggStdVar Cfg.fixed [some 1, none, some 7] = some 9 ∧ sqrtExact 9 * sqrtExact 9 = 9 := by decide +kernel

/-! ### quantile -/

theorem quantileSorted_zero (xs : List Rat) : quantileSorted 0 xs = xs.head? := by
  cases xs with
  | nil => simp [quantileSorted]
  | cons x xs =>
    cases xs with
    | nil => simp [quantileSorted]
    | cons y ys =>
      have hf : (Rat.floor 0).toNat = 0 := by decide +kernel
      simp [quantileSorted, hf]

/-- quantile(0, …) is the least present point (head of the sorted present points), missing iff none is present -/
theorem aggQuantile_zero (col : List Val) : aggQuantile 0 col = (isort (present col)).head? := by
  simp [aggQuantile, quantileSorted_zero]

example : aggQuantile (1/2) [some 10, none, some 30, some 20, none] = some 20 := by decide +kernel
example : aggQuantile (1/4) [some 10, none, some 30] = some 15 := by decide +kernel
example : aggQuantile 0 [none, some 5] = some 5 := by decide +kernel

end SH.Props.C27
