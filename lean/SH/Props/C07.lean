/-
  C07 — String-top rows conserve totals and keep the heaviest values.

  "For any sequence of events written into a row with string-top tags and any capacity, the counts, sums, mins and
   maxes over the retained top values plus the 'other' tail equal those of all events written, so eviction only moves
   weight into the tail and never loses it. When a row is finalized for sending or inserting, at most the configured
   number of top values remain and every retained value is at least as heavy as every value folded into the tail."

  Model: SH.Model.StringTop (MapStringTop/MapStringTopBytes = `mapTop`, resample, FinishStringTop = `finish`, the
  MultiValue calls of agent.Shard = `Event.apply`).  A history is an arbitrary `List Op` of writes (each with its own
  capacity, key, count, redirect draw `u`, per-round draw functions), re-enumerations of the Go map and finishes.

  Main theorems (all for EVERY history / capacity / draw stream / enumeration):
    conservation, conservation_components   first sentence (count, sum, min, max), from the empty row
    run_inv, write_inv, resample_tot, finish_inv   the same one step at a time from any well-formed row
    run_nodup                               the top stays a map (unique keys)
    finish_at_most_cap                      "at most the configured number of top values remain"
    finish_heaviest + finish_partition      "every retained value is at least as heavy as every value folded into the tail"
                                            (`folded` is exactly what finish merges into the tail; retained ⊎ folded = old top)
    finish_fills_capacity, finish_retained_unchanged, whale_eq_total
  Reading notes.
    * "those of all events written" = `evTotal`: a counter event of count c contributes count c (0 if c ≤ 0, which
      ItemCounter ignores), a value event (v, c) contributes count c, sum v·c, min = max = v, a value array its mean taken
      c times, a merged ItemValue what it holds.
    * "heavier than every value folded into the tail" refers to the values folded BY finish; values evicted earlier by
      resample were evicted probabilistically and may have been heavier (that is the algorithm, not a defect).
    * conservation is partial correctness: `run … = some r` means every call returned.  The loop
      `for len(Top) >= capacity { resample }` has no worst-case bound (`resampleLoop_zero_draws_stuck`); it can always
      terminate (`resampleLoop_can_terminate`, `mapTop_can_return`) and does so with probability 1.
    * arithmetic is exact: counts and values are dyadic rationals held as `Int`s in units of 1/16 (sums in 1/256), see
      the header of SH.Model.StringTop; float64 rounding outside that exact domain is not decided (DESIGN §4.1).
-/
import SH.Model.StringTop
namespace SH.C07
open SH.StringTop

/-! ### totals: count, sum, min, max as a commutative monoid -/

structure Tot where
  cnt : Int
  sum : Int
  mn : Option Int
  mx : Option Int
  deriving DecidableEq, Repr

def omin : Option Int → Option Int → Option Int
  | none, b => b
  | some a, none => some a
  | some a, some b => some (min a b)

def omax : Option Int → Option Int → Option Int
  | none, b => b
  | some a, none => some a
  | some a, some b => some (max a b)

def Tot.zero : Tot := ⟨0, 0, none, none⟩

instance : Add Tot := ⟨fun a b => ⟨a.cnt + b.cnt, a.sum + b.sum, omin a.mn b.mn, omax a.mx b.mx⟩⟩

theorem Tot.add_def (a b : Tot) : a + b = ⟨a.cnt + b.cnt, a.sum + b.sum, omin a.mn b.mn, omax a.mx b.mx⟩ := rfl

theorem omin_comm (a b : Option Int) : omin a b = omin b a := by
  cases a <;> cases b <;> simp [omin] <;> omega

theorem omax_comm (a b : Option Int) : omax a b = omax b a := by
  cases a <;> cases b <;> simp [omax] <;> omega

theorem omin_assoc (a b c : Option Int) : omin (omin a b) c = omin a (omin b c) := by
  cases a <;> cases b <;> cases c <;> simp [omin] <;> omega

theorem omax_assoc (a b c : Option Int) : omax (omax a b) c = omax a (omax b c) := by
  cases a <;> cases b <;> cases c <;> simp [omax] <;> omega

@[simp] theorem omin_none_right (a : Option Int) : omin a none = a := by cases a <;> rfl
@[simp] theorem omax_none_right (a : Option Int) : omax a none = a := by cases a <;> rfl
@[simp] theorem omin_none_left (a : Option Int) : omin none a = a := rfl
@[simp] theorem omax_none_left (a : Option Int) : omax none a = a := rfl

theorem Tot.add_comm (a b : Tot) : a + b = b + a := by
  simp only [Tot.add_def, Int.add_comm, omin_comm a.mn, omax_comm a.mx]

theorem Tot.add_assoc (a b c : Tot) : a + b + c = a + (b + c) := by
  simp only [Tot.add_def, Int.add_assoc, omin_assoc, omax_assoc]

@[simp] theorem Tot.add_zero (a : Tot) : a + Tot.zero = a := by
  cases a; simp [Tot.add_def, Tot.zero]

@[simp] theorem Tot.zero_add (a : Tot) : Tot.zero + a = a := by
  cases a; simp [Tot.add_def, Tot.zero]

theorem Tot.add_left_comm (a b c : Tot) : a + (b + c) = b + (a + c) := by
  rw [← Tot.add_assoc, Tot.add_comm a b, Tot.add_assoc]


/-! ### aggregates -/

def pos (c : Int) : Int := if c ≤ 0 then 0 else c

def _root_.SH.StringTop.Agg.mnO (a : Agg) : Option Int := if a.set then some a.vmin else none
def _root_.SH.StringTop.Agg.mxO (a : Agg) : Option Int := if a.set then some a.vmax else none

/-- count, sum, min, max held by an aggregate -/
def _root_.SH.StringTop.Agg.tot (a : Agg) : Tot := ⟨a.cnt, a.sum, a.mnO, a.mxO⟩

/-- what `Merge` takes from its argument: a non-positive counter is ignored, the sum only counts with ValueSet -/
def _root_.SH.StringTop.Agg.totP (a : Agg) : Tot := ⟨pos a.cnt, if a.set then a.sum else 0, a.mnO, a.mxO⟩

/-- invariant of every aggregate of a row: the counter never goes negative, the sum moves only together with ValueSet -/
def AggWF (a : Agg) : Prop := 0 ≤ a.cnt ∧ (a.set = false → a.sum = 0)

theorem AggWF.zero : AggWF Agg.zero := by simp [AggWF, Agg.zero]

@[simp] theorem Agg.zero_tot : Agg.zero.tot = Tot.zero := by
  simp [Agg.tot, Agg.zero, Tot.zero, Agg.mnO, Agg.mxO]

theorem totP_of_wf {a : Agg} (h : AggWF a) : a.totP = a.tot := by
  obtain ⟨h1, h2⟩ := h
  have hp : pos a.cnt = a.cnt := by unfold pos; split <;> omega
  cases hs : a.set
  · simp [Agg.totP, Agg.tot, hp, hs, h2 hs]
  · simp [Agg.totP, Agg.tot, hp, hs]

theorem addCnt_eq {a : Int} (c : Int) (h : 0 ≤ a) : addCnt a c = a + pos c := by
  unfold addCnt pos
  split
  · omega
  · split <;> omega

theorem pos_nonneg (c : Int) : 0 ≤ pos c := by unfold pos; split <;> omega

theorem addOnlyValue_mnO (a : Agg) (v c : Int) : (a.addOnlyValue v c).mnO = omin a.mnO (some v) := by
  cases hs : a.set
  · simp [Agg.addOnlyValue, Agg.mnO, lowers, hs, omin]
  · by_cases h : v < a.vmin
    · simp [Agg.addOnlyValue, Agg.mnO, lowers, hs, omin, h]; omega
    · simp [Agg.addOnlyValue, Agg.mnO, lowers, hs, omin, h]; omega

theorem addOnlyValue_mxO (a : Agg) (v c : Int) : (a.addOnlyValue v c).mxO = omax a.mxO (some v) := by
  cases hs : a.set
  · simp [Agg.addOnlyValue, Agg.mxO, raises, hs, omax]
  · by_cases h : v > a.vmax
    · simp [Agg.addOnlyValue, Agg.mxO, raises, hs, omax, h]; omega
    · simp [Agg.addOnlyValue, Agg.mxO, raises, hs, omax, h]; omega

theorem addOnlyValue_tot (a : Agg) (v c : Int) :
    (a.addOnlyValue v c).tot = a.tot + ⟨0, v * c, some v, some v⟩ := by
  simp only [Agg.tot, Tot.add_def, addOnlyValue_mnO, addOnlyValue_mxO]
  simp [Agg.addOnlyValue]

theorem addOnlyValue_wf {a : Agg} (v c : Int) (h : AggWF a) : AggWF (a.addOnlyValue v c) := by
  simp [AggWF, Agg.addOnlyValue]; exact h.1

theorem addCounter_tot {a : Agg} (c : Int) (h : AggWF a) : (a.addCounter c).tot = a.tot + ⟨pos c, 0, none, none⟩ := by
  simp [Agg.tot, Agg.addCounter, Tot.add_def, addCnt_eq c h.1, Agg.mnO, Agg.mxO]

theorem addCounter_wf {a : Agg} (c : Int) (h : AggWF a) : AggWF (a.addCounter c) := by
  refine ⟨?_, ?_⟩
  · simp only [Agg.addCounter, addCnt_eq c h.1]; have := pos_nonneg c; have := h.1; omega
  · simpa [Agg.addCounter] using h.2

theorem merge_mnO (a b : Agg) : (a.merge b).mnO = omin a.mnO b.mnO := by
  cases hb : b.set
  · simp [Agg.merge, Agg.mnO, hb]
  · cases ha : a.set
    · simp [Agg.merge, Agg.mnO, hb, ha, lowers, omin]
    · by_cases h : b.vmin < a.vmin
      · simp [Agg.merge, Agg.mnO, hb, ha, lowers, omin, h]; omega
      · simp [Agg.merge, Agg.mnO, hb, ha, lowers, omin, h]; omega

theorem merge_mxO (a b : Agg) : (a.merge b).mxO = omax a.mxO b.mxO := by
  cases hb : b.set
  · simp [Agg.merge, Agg.mxO, hb]
  · cases ha : a.set
    · simp [Agg.merge, Agg.mxO, hb, ha, raises, omax]
    · by_cases h : b.vmax > a.vmax
      · simp [Agg.merge, Agg.mxO, hb, ha, raises, omax, h]; omega
      · simp [Agg.merge, Agg.mxO, hb, ha, raises, omax, h]; omega

/-- `Merge` adds exactly what its argument holds -/
theorem merge_tot {a : Agg} (b : Agg) (h : AggWF a) : (a.merge b).tot = a.tot + b.totP := by
  simp only [Agg.tot, Agg.totP, Tot.add_def, merge_mnO, merge_mxO]
  cases hb : b.set <;> simp [Agg.merge, hb, addCnt_eq b.cnt h.1]

theorem merge_wf {a : Agg} (b : Agg) (h : AggWF a) : AggWF (a.merge b) := by
  have hc : 0 ≤ addCnt a.cnt b.cnt := by rw [addCnt_eq b.cnt h.1]; have := pos_nonneg b.cnt; have := h.1; omega
  cases hb : b.set
  · exact ⟨by simpa [Agg.merge, hb] using hc, by simpa [Agg.merge, hb] using h.2⟩
  · exact ⟨by simpa [Agg.merge, hb] using hc, by simp [Agg.merge, hb]⟩


/-! ### events: what "the counts, sums, mins and maxes of an event written" are -/

def listMin (vs : List Int) : Option Int := vs.foldl (fun m v => omin m (some v)) none
def listMax (vs : List Int) : Option Int := vs.foldl (fun m v => omax m (some v)) none

/-- the totals of one event (a non-positive count counts as 0 — ItemCounter ignores it; a value array with
    count `c` stands for its mean taken `c` times: Σv·c/len, here with counts and values scaled by `unit`) -/
def evTot : Event → Tot
  | .counter c => ⟨pos c, 0, none, none⟩
  | .value v c => ⟨pos c, v * c, some v, some v⟩
  | .values vs c => if vs.isEmpty then Tot.zero else ⟨pos c, vs.sum * unit * c / (unit * vs.length), listMin vs, listMax vs⟩
  | .merge a => a.totP

/-- reading aid: on positive counts the event totals are the plain ones -/
theorem evTot_counter_pos (c : Int) (h : 0 < c) : evTot (.counter c) = ⟨c, 0, none, none⟩ := by
  have : pos c = c := by unfold pos; split <;> omega
  simp [evTot, this]

theorem evTot_value_pos (v c : Int) (h : 0 < c) : evTot (.value v c) = ⟨c, v * c, some v, some v⟩ := by
  have : pos c = c := by unfold pos; split <;> omega
  simp [evTot, this]

theorem valuesTmp_aux (vs : List Int) (t : Agg) :
    (vs.foldl (fun t v => t.addOnlyValue v unit) t).cnt = t.cnt ∧
    (vs.foldl (fun t v => t.addOnlyValue v unit) t).sum = t.sum + vs.sum * unit ∧
    (vs.foldl (fun t v => t.addOnlyValue v unit) t).mnO = vs.foldl (fun m v => omin m (some v)) t.mnO ∧
    (vs.foldl (fun t v => t.addOnlyValue v unit) t).mxO = vs.foldl (fun m v => omax m (some v)) t.mxO ∧
    (vs ≠ [] → (vs.foldl (fun t v => t.addOnlyValue v unit) t).set = true) := by
  induction vs generalizing t with
  | nil => simp
  | cons v vs ih =>
    obtain ⟨h1, h2, h3, h4, h5⟩ := ih (t.addOnlyValue v unit)
    simp only [List.foldl_cons, List.sum_cons]
    refine ⟨?_, ?_, ?_, ?_, ?_⟩
    · rw [h1]; simp [Agg.addOnlyValue]
    · rw [h2]; simp only [Agg.addOnlyValue, unit]; omega
    · rw [h3, addOnlyValue_mnO]
    · rw [h4, addOnlyValue_mxO]
    · intro _
      cases vs with
      | nil => simp [Agg.addOnlyValue]
      | cons w ws => exact h5 (by simp)

theorem scaled_sum (s c : Int) (n : Nat) (hn : 0 < n) :
    (if c ≠ unit * (n : Int) then scaleSum s c (unit * n) else s) = s * c / (unit * (n : Int)) := by
  by_cases h : c = unit * (n : Int)
  · subst h
    simp only [ne_eq, not_true_eq_false, if_false]
    rw [Int.mul_ediv_cancel]; simp only [unit]; omega
  · simp only [ne_eq, h, not_false_eq_true, if_true, scaleSum]
    split
    · rfl
    · rename_i h1
      have : unit * (n : Int) = unit := by simpa using h1
      rw [this]

theorem scaled_fields (t : Agg) (c total : Int) :
    (scaled t c total).cnt = t.cnt ∧ (scaled t c total).set = t.set ∧ (scaled t c total).vmin = t.vmin ∧
    (scaled t c total).vmax = t.vmax ∧
    (scaled t c total).sum = if c ≠ total then scaleSum t.sum c total else t.sum := by
  unfold scaled; split <;> simp [*]

theorem valuesTmp_totP (vs : List Int) (c : Int) (hne : vs ≠ []) :
    (scaled (valuesTmp vs c) c (unit * vs.length)).totP = ⟨pos c, vs.sum * unit * c / (unit * vs.length), listMin vs, listMax vs⟩ := by
  have hlen : 0 < vs.length := List.length_pos_iff.mpr hne
  obtain ⟨h1, h2, h3, h4, h5⟩ := valuesTmp_aux vs { cnt := c }
  have t1 : (valuesTmp vs c).cnt = c := h1
  have t2 : (valuesTmp vs c).sum = vs.sum * unit := by
    have : (valuesTmp vs c).sum = 0 + vs.sum * unit := h2
    omega
  have t5 : (valuesTmp vs c).set = true := h5 hne
  have t3 : some (valuesTmp vs c).vmin = listMin vs := by
    have : (valuesTmp vs c).mnO = listMin vs := h3
    simpa [Agg.mnO, t5] using this
  have t4 : some (valuesTmp vs c).vmax = listMax vs := by
    have : (valuesTmp vs c).mxO = listMax vs := h4
    simpa [Agg.mxO, t5] using this
  obtain ⟨s1, s2, s3, s4, s5⟩ := scaled_fields (valuesTmp vs c) c (unit * vs.length)
  simp only [Agg.totP, Agg.mnO, Agg.mxO, s1, s2, s3, s4, s5, t1, t2, t5, if_true, t3, t4,
    scaled_sum (vs.sum * unit) c vs.length hlen]

theorem applyValues_tot {a : Agg} (vs : List Int) (c : Int) (h : AggWF a) :
    (a.applyValues vs c).tot = a.tot + evTot (.values vs c) := by
  by_cases hne : vs = []
  · subst hne; simp [Agg.applyValues, evTot]
  · have hv : vs.isEmpty = false := by simpa using hne
    simp only [Agg.applyValues, evTot, hv, Bool.false_eq_true, if_false]
    rw [merge_tot _ h, valuesTmp_totP vs c hne]

theorem applyValues_wf {a : Agg} (vs : List Int) (c : Int) (h : AggWF a) : AggWF (a.applyValues vs c) := by
  unfold Agg.applyValues
  split
  · exact h
  · exact merge_wf _ h

/-- applying an event to an aggregate adds exactly the event's totals -/
theorem apply_tot {a : Agg} (e : Event) (h : AggWF a) : (e.apply a).tot = a.tot + evTot e := by
  cases e with
  | counter c => exact addCounter_tot c h
  | value v c =>
    simp only [Event.apply, Agg.addValueCounter, addOnlyValue_tot, addCounter_tot c h, evTot, Tot.add_assoc]
    congr 1
    simp [Tot.add_def]
  | values vs c => exact applyValues_tot vs c h
  | merge b => exact merge_tot b h

theorem apply_wf {a : Agg} (e : Event) (h : AggWF a) : AggWF (e.apply a) := by
  cases e with
  | counter c => exact addCounter_wf c h
  | value v c => exact addOnlyValue_wf v c (addCounter_wf c h)
  | values vs c => exact applyValues_wf vs c h
  | merge b => exact merge_wf b h


/-! ### rows -/

def sumTot (l : List Entry) : Tot := l.foldr (fun kv t => kv.2.tot + t) Tot.zero

/-- count, sum, min, max over the retained top values plus the 'other' tail -/
def _root_.SH.StringTop.Row.tot (r : Row) : Tot := r.tail.tot + sumTot r.top

def AllWF (l : List Entry) : Prop := ∀ kv ∈ l, AggWF kv.2

def keys (l : List Entry) : List Key := l.map (·.1)

/-- row invariant: aggregates well formed, keys of the top unique, no empty key in the top -/
structure RowWF (r : Row) : Prop where
  tail : AggWF r.tail
  top : AllWF r.top
  nodup : (keys r.top).Nodup

@[simp] theorem sumTot_nil : sumTot [] = Tot.zero := rfl
@[simp] theorem sumTot_cons (kv : Entry) (l : List Entry) : sumTot (kv :: l) = kv.2.tot + sumTot l := rfl

theorem sumTot_append (l1 l2 : List Entry) : sumTot (l1 ++ l2) = sumTot l1 + sumTot l2 := by
  induction l1 with
  | nil => simp
  | cons kv l ih => simp [ih, Tot.add_assoc]

theorem sumTot_perm {l1 l2 : List Entry} (h : l1.Perm l2) : sumTot l1 = sumTot l2 := by
  induction h with
  | nil => rfl
  | cons x _ ih => simp [ih]
  | swap x y l => simp [Tot.add_left_comm]
  | trans _ _ ih1 ih2 => exact ih1.trans ih2

theorem sumTot_filter (p : Entry → Bool) (l : List Entry) :
    sumTot (l.filter p) + sumTot (l.filter (fun kv => !p kv)) = sumTot l := by
  induction l with
  | nil => simp
  | cons kv l ih =>
    cases hp : p kv
    · simp only [List.filter_cons, hp, Bool.not_false, Bool.false_eq_true, if_false, if_true, sumTot_cons]
      rw [Tot.add_left_comm, ih]
    · simp only [List.filter_cons, hp, Bool.not_true, Bool.false_eq_true, if_false, if_true, sumTot_cons]
      rw [Tot.add_assoc, ih]

theorem AllWF.of_subset {l1 l2 : List Entry} (h : ∀ kv ∈ l1, kv ∈ l2) (w : AllWF l2) : AllWF l1 :=
  fun kv hk => w kv (h kv hk)

theorem AllWF.filter {l : List Entry} (p : Entry → Bool) (w : AllWF l) : AllWF (l.filter p) :=
  AllWF.of_subset (fun _ hk => (List.mem_filter.mp hk).1) w

theorem foldInto_tot (l : List Entry) (t : Agg) (ht : AggWF t) (hl : AllWF l) :
    (foldInto t l).tot = t.tot + sumTot l ∧ AggWF (foldInto t l) := by
  induction l generalizing t with
  | nil => simp [foldInto, ht]
  | cons kv l ih =>
    have hkv : AggWF kv.2 := hl kv (by simp)
    have hl' : AllWF l := fun x hx => hl x (by simp [hx])
    have := ih (t.merge kv.2) (merge_wf _ ht) hl'
    simp only [foldInto, List.foldl_cons] at this ⊢
    refine ⟨?_, this.2⟩
    rw [this.1, merge_tot _ ht, totP_of_wf hkv, sumTot_cons, Tot.add_assoc]

theorem keys_filter_nodup {l : List Entry} (p : Entry → Bool) (h : (keys l).Nodup) : (keys (l.filter p)).Nodup := by
  unfold keys at *
  exact List.Nodup.sublist (List.Sublist.map _ (List.filter_sublist)) h

/-! ### resample: eviction only moves weight into the tail -/

theorem resample_wf (d : Key → Nat) {r : Row} (w : RowWF r) : RowWF (resample d r) :=
  { tail := (foldInto_tot _ _ w.tail (w.top.filter _)).2
    top := w.top.filter _
    nodup := keys_filter_nodup _ w.nodup }

/-- one resample round, for any draws: totals over top+tail unchanged -/
theorem resample_tot (d : Key → Nat) {r : Row} (w : RowWF r) : (resample d r).tot = r.tot := by
  have h := (foldInto_tot (r.top.filter (evictsKV (roundSf r) d)) r.tail w.tail (w.top.filter _)).1
  simp only [Row.tot, resample]
  rw [h, Tot.add_assoc, sumTot_filter]

theorem resampleLoop_inv (cap : Nat) (ds : List (Key → Nat)) {r r' : Row} (w : RowWF r)
    (h : resampleLoop cap ds r = some r') :
    RowWF r' ∧ r'.tot = r.tot ∧ r'.top.length < cap ∧ (∀ kv ∈ r'.top, kv ∈ r.top) := by
  induction ds generalizing r with
  | nil =>
    unfold resampleLoop at h
    by_cases hr : roomFor cap r = true
    · simp [hr] at h; subst h; exact ⟨w, rfl, by simpa [roomFor] using hr, fun _ h => h⟩
    · simp [hr] at h
  | cons d ds ih =>
    unfold resampleLoop at h
    by_cases hr : roomFor cap r = true
    · simp [hr] at h; subst h; exact ⟨w, rfl, by simpa [roomFor] using hr, fun _ h => h⟩
    · simp only [hr, Bool.false_eq_true, if_false] at h
      obtain ⟨h1, h2, h3, h4⟩ := ih (resample_wf d w) h
      exact ⟨h1, by rw [h2, resample_tot d w], h3, fun kv hk => (List.mem_filter.mp (h4 kv hk)).1⟩


/-! ### MapStringTop and the event applied to the returned slot -/

theorem hasKey_iff (k : Key) (l : List Entry) : hasKey k l = true ↔ k ∈ keys l := by
  simp [hasKey, keys]

theorem updFirst_inv (k : Key) (f : Agg → Agg) (δ : Tot)
    (hf : ∀ a, AggWF a → (f a).tot = a.tot + δ ∧ AggWF (f a))
    (l : List Entry) (hk : hasKey k l = true) (hl : AllWF l) :
    sumTot (updFirst k f l) = sumTot l + δ ∧ AllWF (updFirst k f l) ∧ keys (updFirst k f l) = keys l := by
  induction l with
  | nil => simp [hasKey] at hk
  | cons kv l ih =>
    have hkv : AggWF kv.2 := hl kv (by simp)
    have hl' : AllWF l := fun x hx => hl x (by simp [hx])
    by_cases he : kv.1 = k
    · simp only [updFirst, he, if_true]
      obtain ⟨f1, f2⟩ := hf kv.2 hkv
      refine ⟨?_, ?_, ?_⟩
      · simp only [sumTot_cons, f1]
        rw [Tot.add_assoc, Tot.add_comm δ, ← Tot.add_assoc]
      · intro x hx
        rcases List.mem_cons.mp hx with h1 | h1
        · subst h1; exact f2
        · exact hl' x h1
      · simp [keys, he]
    · have hk' : hasKey k l = true := by
        simp only [hasKey, List.any_cons, he, decide_false, Bool.false_or] at hk
        exact hk
      obtain ⟨i1, i2, i3⟩ := ih hk' hl'
      simp only [updFirst, he, if_false]
      refine ⟨?_, ?_, ?_⟩
      · simp only [sumTot_cons, i1, Tot.add_assoc]
      · intro x hx
        rcases List.mem_cons.mp hx with h1 | h1
        · subst h1; exact hkv
        · exact i2 x h1
      · simp only [keys, List.map_cons] at i3 ⊢
        rw [i3]

/-- a slot returned by `mapTop` exists in the returned row -/
def SlotOK (r : Row) : Slot → Prop
  | .tail => True
  | .top k => hasKey k r.top = true

theorem insertNew_inv (k : Key) {r : Row} (w : RowWF r) (hk : hasKey k r.top = false) :
    RowWF (insertNew k r) ∧ (insertNew k r).tot = r.tot ∧ hasKey k (insertNew k r).top = true := by
  refine ⟨⟨w.tail, ?_, ?_⟩, ?_, ?_⟩
  · intro kv hkv
    simp only [insertNew, List.mem_append, List.mem_singleton] at hkv
    rcases hkv with h | h
    · exact w.top kv h
    · subst h; exact AggWF.zero
  · have hn : k ∉ keys r.top := by
      intro hc
      rw [← hasKey_iff] at hc
      simp [hc] at hk
    simp only [insertNew, keys, List.map_append, List.map_cons, List.map_nil]
    refine List.nodup_append.mpr ⟨w.nodup, by simp, ?_⟩
    intro a ha b hb
    simp at hb
    subst hb
    intro hab; subst hab
    exact hn ha
  · simp [Row.tot, insertNew, sumTot_append]
  · simp [hasKey, insertNew]

theorem mapTop_inv {cap : Int} {key : Key} {count : Int} {u : Nat} {ds : List (Key → Nat)} {r r' : Row} {slot : Slot}
    (w : RowWF r) (h : mapTop cap key count u ds r = some (r', slot)) :
    RowWF r' ∧ r'.tot = r.tot ∧ SlotOK r' slot := by
  unfold mapTop at h
  by_cases h1 : key.isEmpty = true
  · simp [h1] at h; obtain ⟨rfl, rfl⟩ := h; exact ⟨w, rfl, trivial⟩
  · simp only [h1, Bool.false_eq_true, if_false] at h
    by_cases h2 : hasKey key.normalize r.top = true
    · simp [h2] at h; obtain ⟨rfl, rfl⟩ := h; exact ⟨w, rfl, h2⟩
    · simp only [h2, Bool.false_eq_true, if_false] at h
      by_cases h3 : redirects r.sfLog2 u count = true
      · simp [h3] at h; obtain ⟨rfl, rfl⟩ := h; exact ⟨w, rfl, trivial⟩
      · simp only [h3, Bool.false_eq_true, if_false] at h
        cases hl : resampleLoop (effCap cap) ds r with
        | none => simp [hl] at h
        | some r'' =>
          simp only [hl, Option.some.injEq, Prod.mk.injEq] at h
          obtain ⟨rfl, rfl⟩ := h
          obtain ⟨l1, l2, _, l4⟩ := resampleLoop_inv _ _ w hl
          have hk : hasKey key.normalize r''.top = false := by
            cases hh : hasKey key.normalize r''.top
            · rfl
            · exfalso
              apply h2
              rw [hasKey_iff] at hh ⊢
              simp only [keys, List.mem_map] at hh ⊢
              obtain ⟨kv, hkv, he⟩ := hh
              exact ⟨kv, l4 kv hkv, he⟩
          obtain ⟨i1, i2, i3⟩ := insertNew_inv key.normalize l1 hk
          exact ⟨i1, by rw [i2, l2], i3⟩

theorem applyAt_inv (e : Event) {r : Row} {slot : Slot} (w : RowWF r) (hs : SlotOK r slot) :
    RowWF (applyAt e.apply r slot) ∧ (applyAt e.apply r slot).tot = r.tot + evTot e := by
  cases slot with
  | tail =>
    refine ⟨⟨apply_wf e w.tail, w.top, w.nodup⟩, ?_⟩
    simp only [applyAt, Row.tot, apply_tot e w.tail]
    rw [Tot.add_assoc, Tot.add_comm (evTot e), ← Tot.add_assoc]
  | top k =>
    obtain ⟨u1, u2, u3⟩ := updFirst_inv k e.apply (evTot e) (fun a ha => ⟨apply_tot e ha, apply_wf e ha⟩) r.top hs w.top
    refine ⟨⟨w.tail, u2, ?_⟩, ?_⟩
    · simp only [applyAt]; rw [u3]; exact w.nodup
    · simp only [applyAt, Row.tot, u1, Tot.add_assoc]

/-- one event written into a row (any capacity, any draws): totals grow by exactly the event's totals -/
theorem write_inv (wr : Write) {r r' : Row} (w : RowWF r) (h : write wr r = some r') :
    RowWF r' ∧ r'.tot = r.tot + evTot wr.ev := by
  unfold write at h
  cases hm : mapTop wr.cap wr.key wr.count wr.u wr.draws r with
  | none => simp [hm] at h
  | some p =>
    obtain ⟨r1, slot⟩ := p
    simp only [hm, Option.some.injEq] at h
    subst h
    obtain ⟨m1, m2, m3⟩ := mapTop_inv w hm
    obtain ⟨a1, a2⟩ := applyAt_inv wr.ev m1 m3
    exact ⟨a1, by rw [a2, m2]⟩


/-! ### re-enumeration of the map -/

theorem reorder_inv (l : List Entry) {r : Row} (w : RowWF r) :
    RowWF (reorder l r) ∧ (reorder l r).tot = r.tot := by
  unfold reorder
  by_cases h : l.isPerm r.top = true
  · have hp : l.Perm r.top := List.isPerm_iff.mp h
    simp only [h, if_true]
    refine ⟨⟨w.tail, ?_, ?_⟩, ?_⟩
    · exact AllWF.of_subset (fun kv hk => hp.mem_iff.mp hk) w.top
    · exact (List.Perm.nodup_iff (hp.map _)).mpr w.nodup
    · simp only [Row.tot, sumTot_perm hp]
  · rw [if_neg h]; exact ⟨w, rfl⟩

/-! ### FinishStringTop -/

theorem insDesc_perm (x : Entry) (l : List Entry) : (insDesc x l).Perm (x :: l) := by
  induction l with
  | nil => simp [insDesc]
  | cons y ys ih =>
    simp only [insDesc]
    split
    · exact List.Perm.refl _
    · exact ((List.Perm.cons y ih).trans (List.Perm.swap x y ys))

theorem sortDesc_perm (l : List Entry) : (sortDesc l).Perm l := by
  induction l with
  | nil => simp [sortDesc]
  | cons x xs ih => exact (insDesc_perm x _).trans (List.Perm.cons x ih)

/-- heavier-or-equal first -/
def Desc (l : List Entry) : Prop := l.Pairwise (fun a b => b.2.cnt ≤ a.2.cnt)

theorem insDesc_desc (x : Entry) (l : List Entry) (h : Desc l) : Desc (insDesc x l) := by
  induction l with
  | nil => simp [insDesc, Desc]
  | cons y ys ih =>
    have hy := List.pairwise_cons.mp h
    simp only [insDesc]
    split
    · rename_i hle
      refine List.pairwise_cons.mpr ⟨?_, h⟩
      intro z hz
      rcases List.mem_cons.mp hz with h1 | h1
      · subst h1; exact hle
      · exact Int.le_trans (hy.1 z h1) hle
    · rename_i hlt
      refine List.pairwise_cons.mpr ⟨?_, ih hy.2⟩
      intro z hz
      have hz' := (insDesc_perm x ys).mem_iff.mp hz
      rcases List.mem_cons.mp hz' with h1 | h1
      · subst h1; omega
      · exact hy.1 z h1

theorem sortDesc_desc (l : List Entry) : Desc (sortDesc l) := by
  induction l with
  | nil => simp [sortDesc, Desc]
  | cons x xs ih => exact insDesc_desc x _ ih

theorem retained_append_folded (cap : Int) (r : Row) : retained cap r ++ folded cap r = sortDesc r.top := by
  simp [retained, folded]

/-- the retained and the folded values together are exactly the old top values (nothing invented, nothing dropped) -/
theorem finish_partition (cap : Int) (r : Row) :
    ((finish cap r).top ++ folded cap r).Perm r.top ∧ (finish cap r).tail = foldInto r.tail (folded cap r) := by
  unfold finish
  by_cases h : r.top.isEmpty = true
  · have h0 : r.top = [] := by simpa using h
    rw [if_pos h]
    have hf : folded cap r = [] := by simp [folded, h0, sortDesc]
    rw [hf, h0]
    exact ⟨by simp, rfl⟩
  · rw [if_neg h]
    exact ⟨by rw [retained_append_folded]; exact sortDesc_perm _, rfl⟩

/-- "at most the configured number of top values remain" -/
theorem finish_at_most_cap (cap : Int) (r : Row) : (finish cap r).top.length ≤ cap.toNat := by
  unfold finish
  by_cases h : r.top.isEmpty = true
  · have : r.top = [] := by simpa using h
    simp [this]
  · simp only [h, Bool.false_eq_true, if_false, retained, finCap, List.length_take]
    omega

/-- "every retained value is at least as heavy as every value folded into the tail" -/
theorem finish_heaviest (cap : Int) (r : Row) :
    ∀ a ∈ (finish cap r).top, ∀ b ∈ folded cap r, b.2.cnt ≤ a.2.cnt := by
  intro a ha b hb
  have hs : Desc (retained cap r ++ folded cap r) := by rw [retained_append_folded]; exact sortDesc_desc _
  unfold finish at ha
  by_cases h : r.top.isEmpty = true
  · have : r.top = [] := by simpa using h
    simp [folded, this, sortDesc] at hb
  · simp only [h, Bool.false_eq_true, if_false] at ha
    exact (List.pairwise_append.mp hs).2.2 a ha b hb

/-- finish folds nothing unless the top is over capacity, and then exactly `capacity` values remain -/
theorem finish_fills_capacity (cap : Int) (r : Row) (h : folded cap r ≠ []) :
    (finish cap r).top.length = cap.toNat := by
  have hlen : cap.toNat < (sortDesc r.top).length := by
    apply Nat.lt_of_not_le
    intro hle
    exact h (by simp [folded, finCap, List.drop_eq_nil_iff, hle])
  have hne : r.top.isEmpty = false := by
    cases r with
    | mk top tail sf =>
      cases top with
      | nil => simp [sortDesc] at hlen
      | cons _ _ => rfl
  simp only [finish, hne, Bool.false_eq_true, if_false, retained, finCap, List.length_take]
  omega

/-- a retained value is an old top value, unchanged -/
theorem finish_retained_unchanged (cap : Int) (r : Row) : ∀ kv ∈ (finish cap r).top, kv ∈ r.top := by
  intro kv hk
  have hp := (finish_partition cap r).1
  exact hp.mem_iff.mp (List.mem_append_left _ hk)

theorem finish_inv (cap : Int) {r : Row} (w : RowWF r) : RowWF (finish cap r) ∧ (finish cap r).tot = r.tot := by
  obtain ⟨hp, ht⟩ := finish_partition cap r
  have hsub : ∀ kv ∈ folded cap r, kv ∈ r.top := fun kv hk => hp.mem_iff.mp (List.mem_append_right _ hk)
  have hf := foldInto_tot (folded cap r) r.tail w.tail (AllWF.of_subset hsub w.top)
  refine ⟨⟨?_, ?_, ?_⟩, ?_⟩
  · rw [ht]; exact hf.2
  · exact AllWF.of_subset (finish_retained_unchanged cap r) w.top
  · have hk : (keys ((finish cap r).top ++ folded cap r)).Nodup := (List.Perm.nodup_iff (hp.map _)).mpr w.nodup
    simp only [keys, List.map_append] at hk
    exact (List.nodup_append.mp hk).1
  · simp only [Row.tot]
    rw [ht, hf.1, Tot.add_assoc, Tot.add_comm (sumTot (folded cap r)), ← sumTot_append, sumTot_perm hp]

theorem sumTot_cnt (l : List Entry) : (sumTot l).cnt = sumCnt l := by
  induction l with
  | nil => rfl
  | cons kv l ih => simp only [sumTot_cons, sumCnt, List.foldr_cons, Tot.add_def, Agg.tot]; rw [ih]; rfl

/-- the whale weight returned by FinishStringTop is the total count of the row (before = after) -/
theorem whale_eq_total (cap : Int) {r : Row} (w : RowWF r) : whale r = (finish cap r).tot.cnt := by
  rw [(finish_inv cap w).2]
  simp only [whale, Row.tot, Tot.add_def, sumTot_cnt, Agg.tot]

/-! ### histories -/

/-- totals of all events written by a history -/
def evTotal : List Op → Tot
  | [] => Tot.zero
  | .write w :: ops => evTot w.ev + evTotal ops
  | .reorder _ :: ops => evTotal ops
  | .finish _ :: ops => evTotal ops

theorem step_inv (op : Op) {r r' : Row} (w : RowWF r) (h : step r op = some r') :
    RowWF r' ∧ r'.tot = r.tot + evTotal [op] := by
  cases op with
  | write wr =>
    have := write_inv wr w h
    simpa [evTotal] using this
  | reorder l =>
    simp only [step, Option.some.injEq] at h; subst h
    simpa [evTotal] using reorder_inv l w
  | finish cap =>
    simp only [step, Option.some.injEq] at h; subst h
    simpa [evTotal] using finish_inv cap w

theorem evTotal_cons (op : Op) (ops : List Op) : evTotal (op :: ops) = evTotal [op] + evTotal ops := by
  cases op <;> simp [evTotal]

theorem run_inv (ops : List Op) {r r' : Row} (w : RowWF r) (h : run r ops = some r') :
    RowWF r' ∧ r'.tot = r.tot + evTotal ops := by
  induction ops generalizing r with
  | nil => simp only [run, Option.some.injEq] at h; subst h; exact ⟨w, by simp [evTotal]⟩
  | cons op ops ih =>
    simp only [run] at h
    cases hs : step r op with
    | none => simp [hs] at h
    | some r1 =>
      simp only [hs] at h
      obtain ⟨s1, s2⟩ := step_inv op w hs
      obtain ⟨i1, i2⟩ := ih s1 h
      exact ⟨i1, by rw [i2, s2, Tot.add_assoc, ← evTotal_cons]⟩

theorem RowWF.empty : RowWF Row.empty :=
  ⟨AggWF.zero, fun _ h => by simp [Row.empty] at h, by simp [Row.empty, keys]⟩

/--
  C07, first sentence.  For any sequence of events written into a row (interleaved with arbitrary re-enumerations of the
  map and finalizations), any capacities, any draw streams: whenever the calls return, the counts, sums, mins and maxes
  over the retained top values plus the 'other' tail equal those of all events written.
-/
theorem conservation (ops : List Op) (r : Row) (h : run Row.empty ops = some r) : r.tot = evTotal ops := by
  have h0 : Row.empty.tot = Tot.zero := by
    simp [Row.tot, Row.empty, Agg.tot, Agg.mnO, Agg.mxO, Tot.zero, Tot.add_def]
  rw [(run_inv ops RowWF.empty h).2, h0, Tot.zero_add]

/-- the same, split into the four quantities -/
theorem conservation_components (ops : List Op) (r : Row) (h : run Row.empty ops = some r) :
    r.tot.cnt = (evTotal ops).cnt ∧ r.tot.sum = (evTotal ops).sum ∧ r.tot.mn = (evTotal ops).mn ∧ r.tot.mx = (evTotal ops).mx := by
  rw [conservation ops r h]; exact ⟨rfl, rfl, rfl, rfl⟩

/-- the top of a row is a map: keys stay unique along every history -/
theorem run_nodup (ops : List Op) (r : Row) (h : run Row.empty ops = some r) : (keys r.top).Nodup :=
  (run_inv ops RowWF.empty h).1.nodup


/-! ### termination of `for len(s.Top) >= capacity { s.resample(rng) }` is probabilistic only -/

theorem roundSf_pos (r : Row) : 0 < roundSf r := Nat.two_pow_pos _

/-- a round whose draws are all 0 evicts nothing when every count is positive: no worst-case bound on the loop exists -/
theorem resample_zero_draws_noop (r : Row) (h : ∀ kv ∈ r.top, 1 ≤ kv.2.cnt) :
    (resample (fun _ => 0) r).top = r.top ∧ (resample (fun _ => 0) r).tail = r.tail := by
  have he : ∀ kv ∈ r.top, evictsKV (roundSf r) (fun _ => 0) kv = false := by
    intro kv hk
    have := h kv hk
    have h0 : evicts ((roundSf r : Nat) : Int) 0 kv.2 = false := by
      simp only [evicts, Bool.and_eq_false_iff, decide_eq_false_iff_not]
      right; omega
    simpa [evictsKV] using h0
  constructor
  · simp only [resample]
    exact List.filter_eq_self.mpr (fun kv hk => by simp [he kv hk])
  · simp only [resample]
    have : r.top.filter (evictsKV (roundSf r) (fun _ => 0)) = [] :=
      List.filter_eq_nil_iff.mpr (fun kv hk => by simp [he kv hk])
    rw [this]; rfl

/-- with adversarial (all-zero) draws a full row of positive counts keeps the loop running for any amount of fuel -/
theorem resampleLoop_zero_draws_stuck (cap n : Nat) (r : Row) (hfull : cap ≤ r.top.length)
    (h : ∀ kv ∈ r.top, 1 ≤ kv.2.cnt) : resampleLoop cap (List.replicate n (fun _ => 0)) r = none := by
  induction n generalizing r with
  | zero =>
    unfold resampleLoop
    have : roomFor cap r = false := by simp [roomFor]; omega
    simp [this]
  | succ n ih =>
    have hr : roomFor cap r = false := by simp [roomFor]; omega
    obtain ⟨z1, _⟩ := resample_zero_draws_noop r h
    have := ih (resample (fun _ => 0) r) (by rw [z1]; exact hfull) (by rw [z1]; exact h)
    unfold resampleLoop
    simp only [hr, Bool.false_eq_true, if_false, List.replicate_succ]
    exact this

/-- once sf exceeds every count, maximal draws evict everything -/
theorem resample_max_draws_empties (r : Row) (h : ∀ kv ∈ r.top, kv.2.cnt < ((roundSf r : Nat) : Int)) :
    (resample (fun _ => roundSf r - 1) r).top = [] := by
  simp only [resample]
  apply List.filter_eq_nil_iff.mpr
  intro kv hk
  have h1 := h kv hk
  have hp := roundSf_pos r
  have hm : (roundSf r - 1) % roundSf r = roundSf r - 1 := Nat.mod_eq_of_lt (by omega)
  simp only [evictsKV, evicts, hm, Bool.not_eq_true, Bool.not_eq_false', Bool.and_eq_true, decide_eq_true_eq, unit]
  constructor <;> omega

theorem bound_exists (l : List Entry) : ∃ n : Nat, ∀ kv ∈ l, kv.2.cnt < ((2 ^ n : Nat) : Int) := by
  induction l with
  | nil => exact ⟨0, by simp⟩
  | cons x xs ih =>
    obtain ⟨n, hn⟩ := ih
    refine ⟨max n x.2.cnt.toNat, ?_⟩
    intro kv hk
    rcases List.mem_cons.mp hk with h1 | h1
    · subst h1
      have h2 : kv.2.cnt.toNat < 2 ^ kv.2.cnt.toNat := Nat.lt_two_pow_self
      have h3 : 2 ^ kv.2.cnt.toNat ≤ 2 ^ (max n kv.2.cnt.toNat) := Nat.pow_le_pow_right (by omega) (Nat.le_max_right _ _)
      omega
    · have h2 := hn kv h1
      have h3 : 2 ^ n ≤ 2 ^ (max n x.2.cnt.toNat) := Nat.pow_le_pow_right (by omega) (Nat.le_max_left _ _)
      omega

theorem loop_terminates_aux (cap : Nat) (hc : 1 ≤ cap) : ∀ (n : Nat) (r : Row),
    (∀ kv ∈ r.top, kv.2.cnt < ((2 ^ (r.sfLog2 + 1 + n) : Nat) : Int)) → ∃ ds r', resampleLoop cap ds r = some r'
  | 0, r, h => by
    by_cases hr : roomFor cap r = true
    · exact ⟨[], r, by unfold resampleLoop; simp [hr]⟩
    · have he := resample_max_draws_empties r (by simpa [roundSf] using h)
      refine ⟨[fun _ => roundSf r - 1], resample (fun _ => roundSf r - 1) r, ?_⟩
      unfold resampleLoop
      simp only [hr, Bool.false_eq_true, if_false]
      unfold resampleLoop
      have : roomFor cap (resample (fun _ => roundSf r - 1) r) = true := by simp [roomFor, he]; omega
      simp [this]
  | n + 1, r, h => by
    by_cases hr : roomFor cap r = true
    · exact ⟨[], r, by unfold resampleLoop; simp [hr]⟩
    · obtain ⟨ds, r', hd⟩ := loop_terminates_aux cap hc n (resample (fun _ => 0) r) (by
        intro kv hk
        have hk' : kv ∈ r.top := (List.mem_filter.mp hk).1
        have := h kv hk'
        have he : (resample (fun _ => 0) r).sfLog2 + 1 + n = r.sfLog2 + 1 + (n + 1) := by simp [resample]; omega
        rw [he]; exact this)
      refine ⟨(fun _ => 0) :: ds, r', ?_⟩
      unfold resampleLoop
      simp only [hr, Bool.false_eq_true, if_false]
      exact hd

/-- for every row and every capacity ≥ 1 there are draws under which the loop ends (it ends with probability 1 in the
    code because, once sf exceeds every count, each value is evicted with probability ≥ 1/2 per round) -/
theorem resampleLoop_can_terminate (cap : Nat) (hc : 1 ≤ cap) (r : Row) : ∃ ds r', resampleLoop cap ds r = some r' := by
  obtain ⟨n, hn⟩ := bound_exists r.top
  refine loop_terminates_aux cap hc n r ?_
  intro kv hk
  have h1 := hn kv hk
  have h2 : 2 ^ n ≤ 2 ^ (r.sfLog2 + 1 + n) := Nat.pow_le_pow_right (by omega) (by omega)
  omega

/-- the effective capacity of MapStringTop is never 0 (this is where the regenerated DefaultStringTopCapacity matters:
    a default of 0 would make the loop spin forever) -/
theorem effCap_pos (cap : Int) : 1 ≤ effCap cap := by
  unfold effCap
  split
  · decide
  · omega

/-- MapStringTop can always return: for every row, key, capacity there are draws with which the call completes -/
theorem mapTop_can_return (cap : Int) (key : Key) (count : Int) (u : Nat) (r : Row) :
    ∃ ds res, mapTop cap key count u ds r = some res := by
  obtain ⟨ds, r', h⟩ := resampleLoop_can_terminate (effCap cap) (effCap_pos cap) r
  refine ⟨ds, ?_⟩
  unfold mapTop
  by_cases h1 : key.isEmpty = true
  · simp [h1]
  · by_cases h2 : hasKey key.normalize r.top = true
    · simp [h1, h2]
    · by_cases h3 : redirects r.sfLog2 u count = true
      · simp [h1, h2, h3]
      · simp [h1, h2, h3, h]


/-! ### non-vacuity: a concrete history with capacity pressure, a redirect, an eviction and a finish -/

namespace Ex
def k1 : Key := ⟨[97], 0⟩
def k2 : Key := ⟨[120], 5⟩   -- string "x" + int 5: normalises to ⟨[], 5⟩
def k2n : Key := ⟨[], 5⟩
def k3 : Key := ⟨[98], 0⟩
/-- draws of one round: k1 receives 3, everybody else 0 -/
def d : Key → Nat := fun k => if k = k1 then 3 else 0

/-- capacity 2, numbers in 1/16 units (sums in 1/256).  k1 += 2.5; k2 gets value 10 with count 2; k3 (count 1.25) arrives
    at a full top: round 1 (sf 2) evicts nothing, round 2 (sf 4) evicts k1 (2.5 ≤ rv 3) and keeps k2 (2 > rv 0); k1 comes
    again with count 1 and is redirected to the tail (0.5·4 ≥ 1); finish(1) keeps k2 (count 2) and folds k3 (count 1.25). -/
def hist : List Op :=
  [ .write ⟨2, k1, 40, 0, [], .counter 40⟩,
    .write ⟨2, k2, 32, 0, [], .value 160 32⟩,
    .write ⟨2, k3, 20, 0, [d, d], .counter 20⟩,
    .write ⟨2, k1, 16, 2 ^ 52, [], .counter 16⟩,
    .finish 1 ]

example : run Row.empty hist = some ⟨[(k2n, ⟨32, 5120, 160, 160, true⟩)], ⟨76, 0, 0, 0, false⟩, 2⟩ := by decide
example : evTotal hist = ⟨108, 5120, some 160, some 160⟩ := by decide
/-- not enough fuel: the loop is still running -/
example : run Row.empty (hist.take 2 ++ [.write ⟨2, k3, 20, 0, [d], .counter 20⟩]) = none := by decide

/-- a row with a tie (two values of count 1.5) at the finish boundary: the enumeration decides which of the two
    survives, `finish_heaviest` holds for both -/
def tie : Row := ⟨[(k1, ⟨24, 0, 0, 0, false⟩), (k3, ⟨24, 0, 0, 0, false⟩), (k2n, ⟨16, 1792, 112, 112, true⟩)], ⟨64, 0, 0, 0, false⟩, 3⟩
example : RowWF tie := ⟨by unfold AggWF; decide, by unfold AllWF AggWF; decide, by decide⟩
example : (finish 1 tie).top = [(k1, ⟨24, 0, 0, 0, false⟩)] ∧ folded 1 tie ≠ [] := by decide
example : (finish 1 (reorder [tie.top[1], tie.top[0], tie.top[2]] tie)).top = [(k3, ⟨24, 0, 0, 0, false⟩)] := by decide
example : (finish 1 tie).tot = tie.tot ∧ whale tie = 128 := by decide
/-- hypotheses of the termination lemmas are satisfiable -/
example : 3 ≤ tie.top.length ∧ ∀ kv ∈ tie.top, 1 ≤ kv.2.cnt := by decide

/-! regressions the theorems exclude (variants of the model, refuted on `tie`) -/

/-- resample that forgets `s.Tail.Merge(rng, v)` -/
def resampleDrop (d : Key → Nat) (r : Row) : Row := { resample d r with tail := r.tail }
example : (resampleDrop (fun _ => 15) tie).tot ≠ tie.tot := by decide
example : (resample (fun _ => 15) tie).tot = tie.tot ∧ (resample (fun _ => 15) tie).top = [] := by decide

/-- FinishStringTop that folds the heavy side (`for i := 0; i < len-capacity`) -/
def finishWrong (cap : Int) (r : Row) : Row :=
  { r with top := (sortDesc r.top).drop (r.top.length - finCap cap),
           tail := foldInto r.tail ((sortDesc r.top).take (r.top.length - finCap cap)) }
example : ∃ a ∈ (finishWrong 1 tie).top, ∃ b ∈ (sortDesc tie.top).take 2, a.2.cnt < b.2.cnt := by decide

/-- FinishStringTop whose comparator is `int(b.count - a.count)` (truncation toward zero: counts less than 1 apart
    compare equal — seeded change C07-1).  With counts 1.4375 and 1.0 enumerated in this order it keeps the lighter one. -/
def insTrunc (x : Entry) : List Entry → List Entry
  | [] => [x]
  | y :: ys => if 0 < (x.2.cnt - y.2.cnt).tdiv unit then x :: y :: ys else y :: insTrunc x ys
def sortTrunc : List Entry → List Entry
  | [] => []
  | x :: xs => insTrunc x (sortTrunc xs)
def frac : List Entry := [(k3, ⟨23, 0, 0, 0, false⟩), (k1, ⟨16, 0, 0, 0, false⟩)]
example : ∃ a ∈ (sortTrunc frac).take 1, ∃ b ∈ (sortTrunc frac).drop 1, a.2.cnt < b.2.cnt := by decide
example : (finish 1 ⟨frac, {}, 0⟩).top = [(k3, ⟨23, 0, 0, 0, false⟩)] := by decide

/-- FinishStringTop whose comparator looks at the weights ROUNDED to a coarser grid `g` (in 1/16 units) instead of the
    exact float64 counters.  One variant for both seeded families: `g = unit` is the integer truncation
    (`int(b.count - a.count)`, counts less than 1 apart compare equal), `g = 2·unit` is a float32 copy of the weight at
    2^24 (float32 spacing 2: 2^24 and 2^24+1 collapse).  Values that collapse keep the enumeration order, so the lighter
    one can end up retained.  With `g = 1` (the exact comparison of the code) it is `sortDesc`, for which
    `finish_heaviest` holds. -/
def insRounded (g : Int) (x : Entry) : List Entry → List Entry
  | [] => [x]
  | y :: ys => if y.2.cnt / g ≤ x.2.cnt / g then x :: y :: ys else y :: insRounded g x ys
def sortRounded (g : Int) : List Entry → List Entry
  | [] => []
  | x :: xs => insRounded g x (sortRounded g xs)
/-- `cmpRounded g cap l`: what is retained / folded when the sort compares on the grid `g` -/
def cmpRounded (g : Int) (cap : Nat) (l : List Entry) : List Entry × List Entry :=
  ((sortRounded g l).take cap, (sortRounded g l).drop cap)

theorem insRounded_one (x : Entry) (l : List Entry) : insRounded 1 x l = insDesc x l := by
  induction l with
  | nil => rfl
  | cons y ys ih => simp [insRounded, insDesc, ih]

theorem sortRounded_one (l : List Entry) : sortRounded 1 l = sortDesc l := by
  induction l with
  | nil => rfl
  | cons x xs ih => simp [sortRounded, sortDesc, ih, insRounded_one]

/-- 1.0 enumerated before 1.4375 -/
def fracR : List Entry := [(k1, ⟨16, 0, 0, 0, false⟩), (k3, ⟨23, 0, 0, 0, false⟩)]
/-- 2^24 enumerated before 2^24 + 1 (both exact in float64, equal as float32) -/
def heavyR : List Entry := [(k1, ⟨16777216 * 16, 0, 0, 0, false⟩), (k3, ⟨16777217 * 16, 0, 0, 0, false⟩)]
example : ∃ a ∈ (cmpRounded unit 1 fracR).1, ∃ b ∈ (cmpRounded unit 1 fracR).2, a.2.cnt < b.2.cnt := by decide
example : ∃ a ∈ (cmpRounded (2 * unit) 1 heavyR).1, ∃ b ∈ (cmpRounded (2 * unit) 1 heavyR).2, a.2.cnt < b.2.cnt := by decide
/-- the exact comparison keeps the heavier one in both rows -/
example : (finish 1 ⟨fracR, {}, 0⟩).top = [(k3, ⟨23, 0, 0, 0, false⟩)] ∧
    (finish 1 ⟨heavyR, {}, 0⟩).top = [(k3, ⟨16777217 * 16, 0, 0, 0, false⟩)] := by decide
end Ex

end SH.C07
