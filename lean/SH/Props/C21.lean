/-
  SH.Props.C21 — persistent caches reload exactly what was saved and never serve wrong data.

  Property (properties.jsonl): "Reloading a chunked storage file yields exactly the saved items, and a truncated or
  corrupted file yields a prefix of the saved chunks and never a damaged item. The mapping cache never returns a value
  for a string other than the value added for it, never returns marker values, never grows beyond its configured size,
  keeps its size and access-time accounting exact, and reloads from its saved file to the same contents."
  Quantifier: all sequences of add/get/evict/save/reload operations and all truncation and bit-flip positions.

  Models: SH/Model/Chunked.lean (chunked_storage2.go), SH/Model/MapCache.lean (pcache/mappings_cache.go).
  xxh3 is the parameter `H` (any function with 16-byte results).

  The development lives in
    SH/Lemmas/C21Base.lean    first round: chunk round trip / truncation / corruption, cache invariants per step, item codec,
                              Save writes an encoding, save-then-restart theorems, Gen expectations, witnesses
    SH/Lemmas/C21Closed.lean  tight reduction form for arbitrary damage, the ghost run and the CLOSED theorem
    SH/Lemmas/C21Order.lean   exactness of the relational treatment of Go map order (RemoveByTTL, AddValues candidates)
    SH/Lemmas/C21Writer.lean  the write side under injected WriteAt failures as a refinement over all op lists
  (all four modules are audited by checks/C21.py).  This file states the headline theorems in one place.
-/
import SH.Lemmas.C21Base
import SH.Lemmas.C21Closed
import SH.Lemmas.C21Order
import SH.Lemmas.C21Writer

namespace SH.C21.Headline
open SH.Chunked hiding St
open SH.MapCache
open SH.C21

/-- chunk files: saved chunks read back exactly -/
theorem chunk_roundtrip {H : Bytes → Bytes} {magic : Nat} (P : Params H magic) (bodies : List Bytes)
    (hb : ∀ b ∈ bodies, b.length ≤ chunkSize) :
    readAll H magic zeroHash (encodeAll H magic zeroHash bodies) = (bodies, none) :=
  read_write_roundtrip P bodies hb

/-- chunk files: ANY bytes no longer than the saved file (cut anywhere, any bytes changed) read as a prefix of the saved
    chunks unless those very bytes pass the hash check on something that is not the saved chunk -/
theorem chunk_damage {H : Bytes → Bytes} {magic : Nat} (P : Params H magic) (bodies : List Bytes)
    (hb : ∀ x ∈ bodies, x.length ≤ chunkSize) (b : Bytes) (hl : b.length ≤ (encodeAll H magic zeroHash bodies).length) :
    (∃ k, k ≤ bodies.length ∧ (readAll H magic zeroHash b).1 = bodies.take k) ∨ PassesFrom H magic zeroHash bodies b :=
  damaged_prefix_or_passes P bodies hb zeroHash b hl

/-- chunk files: a cut never passes -/
theorem chunk_cut {H : Bytes → Bytes} {magic : Nat} (P : Params H magic) (bodies : List Bytes)
    (hb : ∀ x ∈ bodies, x.length ≤ chunkSize) (n : Nat) :
    ¬ PassesFrom H magic zeroHash bodies ((encodeAll H magic zeroHash bodies).take n) :=
  truncation_never_passes P bodies hb zeroHash n

/-- the cache, closed: any legal history, restarts from arbitrarily damaged (not longer) files -/
theorem cache_closed {H : Bytes → Bytes} (hH : ∀ x, (H x).length = 16) (m t : Int) (ops : List Op)
    (hl : Legal H (init m t) [] ops) :
    GInv H (added ops) (run H .fixed (init m t) ops) (runImg H (init m t) [] ops) :=
  closed_run hH m t ops hl

/-- the cache, closed, cuts only: no hypothesis about the hash function -/
theorem cache_closed_cuts {H : Bytes → Bytes} (hH : ∀ x, (H x).length = 16) (m t : Int) (ops : List Op)
    (hl : TruncLegal H (init m t) ops) :
    GInv H (added ops) (run H .fixed (init m t) ops) (runImg H (init m t) [] ops) :=
  closed_run_truncations hH m t ops hl

/-- GetValue on any legal history -/
theorem cache_get {H : Bytes → Bytes} (hH : ∀ x, (H x).length = 16) (m t : Int) (ops : List Op)
    (hl : Legal H (init m t) [] ops) (ts : Nat) (k : Bytes) (x : Int)
    (hg : (getValue (run H .fixed (init m t) ops) ts k).2 = some x) :
    k ≠ [] ∧ x ≠ 0 ∧ x ≠ markerFlood ∧ x ≠ markerNotExist ∧ (k, x) ∈ added ops :=
  closed_get hH m t ops hl ts k x hg

/-- save, restart: same mapping, same sums -/
theorem cache_save_restart {H : Bytes → Bytes} (hH : ∀ x, (H x).length = 16) (s : St) (order : Cache) (m : Int)
    (hex : Exact s) (hd : dirty s = true) (hperm : order.Perm s.cache)
    (hwf : ∀ it ∈ s.cache, WFItem it) (hit : ∀ it ∈ s.cache, (encItem it).length ≤ halfChunk) :
    (loadNew H (save H s order).1.store.file m).2 = none ∧
    (∀ k, find (loadNew H (save H s order).1.store.file m).1.cache k = find s.cache k) ∧
    (loadNew H (save H s order).1.store.file m).1.sumSize = s.sumSize ∧
    (loadNew H (save H s order).1.store.file m).1.sumTS = s.sumTS :=
  save_then_reload_same hH s order m hex hd hperm hwf hit

/-- Go map order, AddValues: the driver's acceptance test is exactly "collected for some enumeration" -/
theorem map_order_addValues (rs : Int) (ks cands : List Bytes) (hk : ks.Nodup) (hc : cands.Nodup) (hsub : ∀ k ∈ cands, k ∈ ks) :
    legalCount rs ks cands = true ↔ ∃ order, order.Perm ks ∧ (collect rs order).Perm cands :=
  legalCount_exact rs ks cands hk hc hsub

/-- Go map order, RemoveByTTL: the driver's acceptance test is exactly "removed for some enumeration" -/
theorem map_order_removeByTTL (s : St) (maxCount : Int) (now : Nat) (removed : List Bytes) (hn : (keys s.cache).Nodup) :
    legalRemoved s maxCount now removed = true ↔
      ∃ order, order.Perm (keys s.cache) ∧ ttlRemoved s maxCount now order = removed :=
  ⟨legalRemoved_complete s maxCount now removed hn, fun ⟨order, hp, he⟩ => he ▸ legalRemoved_sound s maxCount now order hn hp⟩

/-- the writer with failing WriteAt refines the list-level writer, over all op lists -/
theorem writer_closed {H : Bytes → Bytes} (hH : ∀ x, (H x).length = 16) (magic : Nat) (ops : List WOp) (s : Chunked.St) (a : Abs)
    (h : Refines H magic s a) (hm : ∀ m, WOp.start m ∈ ops → m = magic) :
    Refines H magic (wrun H s ops) (arun a ops) :=
  writer_refines hH magic ops s a h hm

/-- the size clause on every legal history -/
theorem cache_size {H : Bytes → Bytes} (hH : ∀ x, (H x).length = 16) (m t : Int) (ops : List Op) (op : Op)
    (hl : Legal H (init m t) [] (ops ++ [op])) (hp : op.plain) :
    (run H .fixed (init m t) (ops ++ [op])).sumSize ≤
        max (run H .fixed (init m t) ops).maxSize (run H .fixed (init m t) ops).sumSize ∧
      0 ≤ (run H .fixed (init m t) (ops ++ [op])).sumSize ∧ 0 ≤ (run H .fixed (init m t) (ops ++ [op])).sumTS :=
  closed_size hH m t ops op hl hp

/-- the collection loop of AddValues in closed form -/
theorem collect_closed_form (rs : Int) (order : List Bytes) :
    collect rs order =
      if rs ≤ 0 then order.take 1
      else match reach rs order 0 0 with
        | none => order
        | some m => order.take (2 * m) :=
  collect_eq rs order

/-- the model's RemoveByTTL run over the observed list is the loop run over the visited keys -/
theorem removeByTTL_model_exact (s : St) (maxCount : Int) (now : Nat) (order : List Bytes) (hn : order.Nodup) :
    removeByTTL s now (order.take (ttlK maxCount)) = removeByTTL s now (ttlRemoved s maxCount now order) :=
  removeByTTL_observed s maxCount now order hn

/-- `writeErr` discards until reset -/
theorem writer_error_sticky (a : Abs) (ops : List WOp) (he : a.err = true) (hr : ∀ op ∈ ops, op ≠ .reset) :
    (arun a ops).done = a.done ∧ (arun a ops).err = true :=
  arun_err_keeps_done a ops he hr

/-- an error-free FinishWriteChunk leaves exactly the encoding of the accepted chunks -/
theorem writer_fin_ok {H : Bytes → Bytes} (hH : ∀ x, (H x).length = 16) {magic : Nat} {s : Chunked.St} {a : Abs} (f : Bool)
    (h : Refines H magic s a) (hok : (finishWrite H f s).2 = .none) :
    (finishWrite H f s).1.file = encodeAll H magic zeroHash (astep a (.fin f)).done :=
  fin_ok_whole_file hH f h hok

/-- a reader of the file sees every accepted chunk first, whatever failed afterwards -/
theorem writer_readable {H : Bytes → Bytes} {magic : Nat} (P : Params H magic) {s : Chunked.St} {a : Abs}
    (h : Refines H magic s a) (hsz : ∀ b ∈ a.done, b.length ≤ chunkSize) :
    ∃ more, (readAll H magic zeroHash s.file).1 = a.done ++ more :=
  reader_sees_accepted_chunks P h hsz

end SH.C21.Headline
