import SH.Model.Chunked
import SH.Model.MapCache
namespace SH.C21
theorem placeholder : True := trivial
end SH.C21
