/-
  C05 — Sampling keeps the expected value of every row unchanged.

  "Every row handed to the sampler is either kept or discarded exactly once, and a kept row carries the inverse of
   its keep probability as its sample factor (1 for rows kept unconditionally, such as whales or rows of groups
   within budget). Hence the expected inserted count, sum and sum-of-squares of each row equal its true values, and
   rows whose metric is marked not-to-sample on the agent are always kept with factor 1."

  Model: SH.Model.Sampler (`runBucket` = Add* ; Run). All statements quantify over every configuration, bucket,
  budget, draw stream `ds` and tie order (`Item.rank`). Draws are the 53-bit integers `k` of `Float64() = k/2^53`.
  Theorems marked (fix) hold for `Variant.fitKeep` = the code with fixes/C05-sample-fit.diff; for the pinned code
  (`Variant.orig`) `orig_keeps_row_with_factor_below_one` is a `decide` witness of the violation.
-/
import SH.Lemmas.SamplerTree
import Mathlib.Tactic.Linarith

namespace SH.Sampler

/-! ## 1. every row is decided exactly once -/

theorem prep_id (cfg : Cfg) (it : Item) : (prep cfg it).id = it.id := by
  unfold prep; split <;> rfl

/-- The decision callbacks (KeepF/DiscardF, including the discards issued by `Add` for rows with size < 1) of
    Add*;Run are, up to order, exactly the rows handed in: no row is lost, none is decided twice.
    For every configuration (both code variants), bucket, budget, draw stream and tie order. -/
theorem each_item_once (cfg : Cfg) (items : List Item) (budget : Int) (ds : List Nat) :
    ((evs (runBucket cfg items budget ds)).map (·.id)).Perm (items.map (·.id)) := by
  have hfilter := List.filter_append_perm (fun it : Item => decide (it.size < 1)) items
  have hd : ids ((dropped items).map (fun it => Act.ev (addDiscard it))) = iids (dropped items) := by
    simp [ids, iids, addDiscard, Function.comp_def]
  have ha : iids (added cfg items) = iids (items.filter (fun it => !decide (it.size < 1))) := by
    simp [added, iids, Function.comp_def, prep_id]
  show (ids (runBucket cfg items budget ds)).Perm (iids items)
  unfold runBucket
  rw [ids_append, hd]
  refine List.Perm.trans ?_ (hfilter.map (·.id))
  simp only [dropped, iids, List.map_append]
  refine List.Perm.append_left _ ?_
  split
  · rename_i h
    have : iids (added cfg items) = [] := by simp [List.isEmpty_iff] at h; simp [h, iids]
    rw [ha] at this
    simp only [iids] at this
    simp [this]
  · refine (run_ids fuel0 cfg _ ds).trans ?_
    have := ((isort_perm itemLe (added cfg items)).map (·.id))
    simp only [topGroup, iids]
    refine this.trans ?_
    have ha' := ha
    simp only [iids] at ha'
    rw [ha']

/-- in particular a bucket with pairwise distinct row ids yields pairwise distinct decisions -/
theorem decisions_nodup (cfg : Cfg) (items : List Item) (budget : Int) (ds : List Nat)
    (h : (items.map (·.id)).Nodup) : ((evs (runBucket cfg items budget ds)).map (·.id)).Nodup :=
  (each_item_once cfg items budget ds).nodup_iff.2 h

/-! ## 2. the random selector decides every row by its own draw -/

/-- `selectRandom` (sf > 1): row i of the slice is kept iff draw i satisfies `u*sf < 1`; every draw is used for
    exactly one row and the stream continues after `len` draws. -/
theorem selectRand_own_draw (num den : Int) (l : List Item) (ds : List Nat) (h : l.length ≤ ds.length) :
    (selectRand num den l ds).1 = List.zipWith (fun it k => Act.ev (sfEv it (drawKeeps k num den) num den)) l ds ∧
    (selectRand num den l ds).2 = ds.drop l.length := by
  induction l generalizing ds with
  | nil => simp [selectRand]
  | cons it r ih =>
    cases ds with
    | nil => simp at h
    | cons k ds =>
      have := ih ds (by simpa using h)
      simp [selectRand, this.1, this.2]

/-! ## 3. the factor of a kept row is the inverse of its keep probability -/

/-- The shapes a decision can have in production mode (random selection):
    * dropped by `Add` because the size estimate is < 1 (factor MaxFloat32; the documented exception —
      agent and aggregator size estimates are ≥ 4, so such rows do not occur there);
    * kept with certainty and factor exactly 1 (groups within budget, whales, NoSampleAgent, single counters);
    * decided by one draw `k`: kept iff `k/2^53 * sf < 1` where `sf = num/den > 1` is the factor it carries. -/
def Shape (e : Ev) : Prop :=
  (e.isMax = true ∧ e.kept = false) ∨
  (e.isMax = false ∧ e.kept = true ∧ e.num = 1 ∧ e.den = 1) ∨
  (e.isMax = false ∧ 0 < e.den ∧ e.den < e.num ∧ ∃ k : Nat, e.kept = drawKeeps k e.num e.den)

theorem sfDenOf_pos (g : Group) : 0 < sfDenOf g := by unfold sfDenOf; split <;> omega
theorem sfNumOf_pos (g : Group) : 0 < sfNumOf g := by unfold sfNumOf; split <;> omega

theorem selectRand_shape (num den : Int) (hd : 0 < den) (h : den < num) (l : List Item) (ds : List Nat) :
    ∀ e ∈ evs (selectRand num den l ds).1, Shape e := by
  induction l generalizing ds with
  | nil => simp [selectRand]
  | cons it r ih =>
    cases ds with
    | nil =>
      intro e he
      simp only [selectRand, evs_err, evs_ev, List.mem_cons] at he
      rcases he with rfl | he
      · refine Or.inr (Or.inr ⟨rfl, hd, h, 0, ?_⟩)
        simp only [sfEv, drawKeeps, two53]
        have : (0 : Int) < 9007199254740992 * den := by omega
        simp [this]
      · exact ih [] e he
    | cons k ds =>
      intro e he
      simp only [selectRand, evs_ev, List.mem_cons] at he
      rcases he with rfl | he
      · exact Or.inr (Or.inr ⟨rfl, hd, h, k, rfl⟩)
      · exact ih ds e he

theorem keepAll_shape (l : List Item) : ∀ e ∈ evs (keepAll l), Shape e := by
  intro e he
  simp only [keepAll, evs_map_ev, List.mem_map] at he
  obtain ⟨it, _, rfl⟩ := he
  exact Or.inr (Or.inl ⟨rfl, rfl, rfl, rfl⟩)

theorem sampleRows_shape (cfg : Cfg) (hv : cfg.variant = .fitKeep) (hm : cfg.mode = .rand) (g : Group) (ds : List Nat) :
    ∀ e ∈ evs (sampleRows cfg g ds).1, Shape e := by
  unfold sampleRows
  split
  · simp
  · split
    · exact keepAll_shape _
    · split
      · exact keepAll_shape _
      · rename_i hfit
        have hlt : sfDenOf g < sfNumOf g := by
          have hne : (Variant.fitKeep != Variant.orig) = true := by decide
          simp only [fitShortcut, hv, hne, Bool.true_and, decide_eq_true_eq] at hfit
          omega
        have hd := sfDenOf_pos g
        split
        · intro e he
          simp only [evs_append, List.mem_append] at he
          rcases he with he | he
          · exact keepAll_shape _ e he
          · simp only [selectPart, hm] at he
            have h2 : ¬ (2 * sfNumOf g ≤ sfDenOf g) := by omega
            simp only [h2, if_false] at he
            exact selectRand_shape _ _ hd (by omega) _ _ e he
        · intro e he
          simp only [selectPart, hm] at he
          have h2 : ¬ (sfNumOf g ≤ sfDenOf g) := by omega
          simp only [h2, if_false] at he
          exact selectRand_shape _ _ hd hlt _ _ e he

/-- (fix) kept_factor_is_inverse_probability: in production mode every decision of Add*;Run is of one of the three
    shapes of `Shape`: a row is either kept with certainty and carries factor 1, or it is kept iff its own uniform
    draw `u` satisfies `u*sf < 1` and carries exactly that `sf > 1` — the inverse of the probability of that event
    (see `keep_iff_below_threshold`/`expectation_preserved`) —, or it was rejected by `Add` (size < 1). -/
theorem kept_factor_is_inverse_probability (cfg : Cfg) (hv : cfg.variant = .fitKeep) (hm : cfg.mode = .rand)
    (items : List Item) (budget : Int) (ds : List Nat) :
    ∀ e ∈ evs (runBucket cfg items budget ds), Shape e := by
  intro e he
  simp only [runBucket, evs_append, evs_map_ev, List.mem_append, List.mem_map] at he
  rcases he with ⟨it, _, rfl⟩ | he
  · exact Or.inl ⟨rfl, rfl⟩
  · split at he
    · simp at he
    · refine run_all Shape cfg (fun it => Or.inr (Or.inl ⟨rfl, rfl, rfl, rfl⟩)) ?_ fuel0 _ ds e he
      intro g ds' e' he'
      simp only [leaf, hm] at he'
      exact sampleRows_shape cfg hv hm g ds' e' he'

/-- a kept row never carries a factor below 1 (fix) -/
theorem kept_factor_ge_one (cfg : Cfg) (hv : cfg.variant = .fitKeep) (hm : cfg.mode = .rand)
    (items : List Item) (budget : Int) (ds : List Nat) :
    ∀ e ∈ evs (runBucket cfg items budget ds), e.kept = true → 0 < e.den ∧ e.den ≤ e.num := by
  intro e he hk
  rcases kept_factor_is_inverse_probability cfg hv hm items budget ds e he with h | h | h
  · simp [h.2] at hk
  · omega
  · omega

/-- The pinned code violates it: metric 2 floods its fixed budget 3 (size 5) and stops the keep loop; metric 1
    (one row of size 8, share of the budget 10) then reaches `sample` with sf = 8/10 and the row is kept — with
    certainty — carrying factor 0.8. Replayed on the real code by the oracle signature `kept-factor-below-one`. -/
def origWitnessCfg : Cfg := { variant := .orig, mode := .rand, sBudgets := true }
def origWitnessItems : List Item :=
  [{ id := 0, size := 8, metric := 1 }, { id := 1, size := 5, metric := 2, budget := 3 }]

theorem orig_keeps_row_with_factor_below_one :
    ({ id := 0, kept := true, num := 8, den := 10, quota := 8 } : Ev) ∈
      evs (runBucket origWitnessCfg origWitnessItems 10 [0]) := by decide

/-- the same bucket on the fixed code: the row is kept with factor 1 -/
example : ({ id := 0, kept := true, num := 1, den := 1, quota := 8 } : Ev) ∈
    evs (runBucket { origWitnessCfg with variant := .fitKeep } origWitnessItems 10 [0]) := by decide

/-! ## 4. expectation -/

/-- number of the 2^53 equally likely draws that keep a row with factor num/den -/
def threshold (num den : Int) : Int := ((two53 : Int) * den + num - 1) / num

/-- the draws that keep the row are exactly the `threshold` smallest ones -/
theorem keep_iff_below_threshold (num den : Int) (hd : 0 < den) (h : den < num) (k : Nat) :
    drawKeeps k num den = true ↔ (k : Int) < threshold num den := by
  have hn : 0 < num := by omega
  simp only [drawKeeps, threshold, decide_eq_true_eq]
  rw [Int.lt_iff_add_one_le, Int.lt_iff_add_one_le (a := (k : Int)), Int.le_ediv_iff_mul_le hn]
  constructor <;> intro hh <;> nlinarith

/-- P(keep) = threshold/2^53 and factor * P(keep) ∈ [1, 1 + sf/2^53): the factor is the inverse of the keep
    probability up to the 2^-53 granularity of `Float64()` (never below: no systematic loss). -/
theorem threshold_bounds (num den : Int) (hd : 0 < den) (h : den < num) :
    (two53 : Int) * den ≤ threshold num den * num ∧ threshold num den * num < (two53 : Int) * den + num ∧
    0 < threshold num den ∧ threshold num den ≤ (two53 : Int) := by
  have hn : 0 < num := by omega
  have h1 := Int.ediv_mul_le ((two53 : Int) * den + num - 1) (Int.ne_of_gt hn)
  have h2 := Int.lt_ediv_add_one_mul_self ((two53 : Int) * den + num - 1) hn
  have hN : (0 : Int) < (two53 : Int) := by simp [two53]
  refine ⟨?_, ?_, ?_, ?_⟩
  · unfold threshold; nlinarith
  · unfold threshold; nlinarith
  · have hb : (two53 : Int) * den ≤ threshold num den * num := by unfold threshold; nlinarith
    by_contra hc
    have hle : threshold num den ≤ 0 := by omega
    nlinarith
  · unfold threshold
    have : ((two53 : Int) * den + num - 1) / num < (two53 : Int) + 1 := by
      apply Int.ediv_lt_of_lt_mul hn
      nlinarith
    omega

/-- expectation_preserved: a row aggregate `v` (count, sum or sum of squares — `MultiValueToTL`/`multiValueMarshal`
    scale all three linearly by the factor) of a row selected with factor sf = num/den has expected inserted value
    `v * sf * threshold/2^53`, which lies in `[v, v + v*sf/2^53]`; rows kept with certainty carry factor 1 and
    contribute exactly `v` (kept_factor_is_inverse_probability). Budget rounding (`roundSampleFactor`) only changes
    which `sf` is used; conditional on every rounding outcome the expectation is the same, hence also overall. -/
theorem expectation_preserved (num den v : Int) (hd : 0 < den) (h : den < num) (hv : 0 ≤ v) :
    v * (den * (two53 : Int)) ≤ v * (num * threshold num den) ∧
    v * (num * threshold num den) ≤ v * (den * (two53 : Int)) + v * num := by
  obtain ⟨h1, h2, _, _⟩ := threshold_bounds num den hd h
  constructor
  · apply Int.mul_le_mul_of_nonneg_left _ hv; nlinarith
  · rw [← Int.mul_add]; apply Int.mul_le_mul_of_nonneg_left _ hv; nlinarith

/-- non-vacuity: factor 3/2 keeps exactly ⌈2^53·2/3⌉ of the 2^53 draws -/
example : threshold 3 2 = 6004799503160662 ∧ drawKeeps 6004799503160661 3 2 = true ∧ drawKeeps 6004799503160662 3 2 = false := by
  decide

/-! ## 5. NoSampleAgent -/

/-- one level: a partition that carries the NoSampleAgent flag is kept whole with factor 1, whichever loop it ends
    up in (helper for `no_sample_agent_kept`) -/
theorem no_sample_level (cfg : Cfg) (ha : cfg.agent = true) (hdis : cfg.disableNoSample = false)
    (fuel : Nat) (g : Group) (ds : List Nat) (p : Group) (hp : p ∈ partition cfg g) (hns : p.noSample = true) :
    ∀ it ∈ p.items, keepEv it ∈ evs (run (fuel + 1) cfg g ds).1 := by
  intro it hit
  simp only [run, evs_append, List.mem_append]
  have hp' : p ∈ isort groupLe (partition cfg g) := (mem_isort _ _ _).2 hp
  rcases kept_or_rest g.budget (partWeight cfg g) _ p hp' with h | h
  · exact Or.inl (h it hit)
  · right
    obtain ⟨ds', hds⟩ := sampleLoop_mem cfg (run fuel cfg) (restB g.budget (partWeight cfg g) (isort groupLe (partition cfg g)))
      (restW g.budget (partWeight cfg g) (isort groupLe (partition cfg g))) _ ds p h
    apply hds
    have hflag : ∀ B W, noSampleHit cfg (assign B W p) = true := by
      intro B W
      have : (assign B W p).noSample = p.noSample := by unfold assign; split <;> rfl
      simp [noSampleHit, this, hns, ha, hdis]
    simp only [handle, hflag, if_true, keepAll, evs_map_ev, List.mem_map]
    exact ⟨it, by rw [assign_items]; exact hit, rfl⟩

/-- rows of one metric agree on the NoSampleAgent flag (it is a property of the metric) -/
def FlagConsistent (l : List Item) : Prop := ∀ a ∈ l, ∀ b ∈ l, a.metric = b.metric → a.noSample = b.noSample

/-- in agent mode every row of a NoSampleAgent metric below a group above the metric level is kept with factor 1,
    provided the recursion has enough fuel to reach the metric level -/
theorem run_noSample (cfg : Cfg) (ha : cfg.agent = true) (hdis : cfg.disableNoSample = false) (fuel : Nat) :
    ∀ (g : Group) (ds : List Nat), g.depth < nPart cfg → nPart cfg ≤ g.depth + fuel → FlagConsistent g.items →
      ∀ it ∈ g.items, it.noSample = true → keepEv it ∈ evs (run fuel cfg g ds).1 := by
  induction fuel with
  | zero => intro g ds h1 h2; omega
  | succ n ih =>
    intro g ds hdep hfuel hcons it hit hns
    obtain ⟨p, hp, hip⟩ := mem_partition_items cfg g it hit
    have hsub := partition_items_sub cfg g p hp
    have hperm := isort_perm groupLe (partition cfg g)
    simp only [run, evs_append, List.mem_append]
    rcases kept_or_rest g.budget (partWeight cfg g) _ p (hperm.mem_iff.2 hp) with h | h
    · exact Or.inl (h it hip)
    · right
      obtain ⟨ds', hds⟩ := sampleLoop_mem cfg (run n cfg) _ _ _ ds p h
      apply hds
      generalize restB g.budget (partWeight cfg g) (isort groupLe (partition cfg g)) = B'
      generalize restW g.budget (partWeight cfg g) (isort groupLe (partition cfg g)) = W'
      have qi : (assign B' W' p).items = p.items := assign_items _ _ _
      have qn : (assign B' W' p).noSample = p.noSample := by unfold assign; split <;> rfl
      have qd : (assign B' W' p).depth = p.depth := by unfold assign; split <;> rfl
      rcases partition_flag cfg g hdep p hp with ⟨hmet, hflag⟩ | ⟨hfalse, hpd⟩
      · have hne : p.items ≠ [] := by intro h0; rw [h0] at hip; simp at hip
        have hhd := hd_mem' p.items hne
        have : it.noSample = (hd p.items).noSample := hcons it hit _ (hsub _ hhd) (hmet it hip)
        have hpn : p.noSample = true := by rw [hflag, ← this]; exact hns
        have : noSampleHit cfg (assign B' W' p) = true := by simp [noSampleHit, qn, hpn, ha, hdis]
        simp only [handle, this, if_true, keepAll, evs_map_ev, List.mem_map]
        exact ⟨it, by rw [qi]; exact hip, rfl⟩
      · have h1 : noSampleHit cfg (assign B' W' p) = false := by simp [noSampleHit, qn, hfalse]
        have h2 : recurses cfg (assign B' W' p) = true := by simp only [recurses, qd, decide_eq_true_eq]; omega
        simp only [handle, h1, h2, Bool.false_eq_true, if_false, if_true, evs_append, List.mem_append]
        right
        have hge := partition_depth_gt cfg g hdep p hp
        apply ih
        · rw [rounded_depth, qd]; exact hpd
        · rw [rounded_depth, qd]; omega
        · rw [rounded_items, qi]
          intro a ha' b hb' hab
          exact hcons a (hsub a ha') b (hsub b hb') hab
        · rw [rounded_items, qi]; exact hip
        · exact hns
where
  hd_mem' (l : List Item) (h : l ≠ []) : hd l ∈ l := by
    cases l with
    | nil => exact absurd rfl h
    | cons x xs => simp [hd]

/-- no_sample_agent_kept. In agent mode, unless DisableNoSampleAgent is set, every row (accepted by Add) of a metric
    marked NoSampleAgent is kept with factor 1 by Add*;Run — for every bucket in which the flag is a property of the
    metric, every budget, option set, draw stream, tie order; both code variants and all selection modes. -/
theorem no_sample_agent_kept (cfg : Cfg) (ha : cfg.agent = true) (hdis : cfg.disableNoSample = false)
    (items : List Item) (budget : Int) (ds : List Nat) (hcons : FlagConsistent items)
    (it : Item) (hit : it ∈ items) (hsz : 1 ≤ it.size) (hns : it.noSample = true) :
    keepEv (prep cfg it) ∈ evs (runBucket cfg items budget ds) := by
  have hadd : prep cfg it ∈ added cfg items := by
    simp only [added, List.mem_map, List.mem_filter]
    exact ⟨it, ⟨hit, by simp; omega⟩, rfl⟩
  have hpf : ∀ x : Item, (prep cfg x).metric = x.metric ∧ (prep cfg x).noSample = x.noSample := by
    intro x; unfold prep; split <;> exact ⟨rfl, rfl⟩
  simp only [runBucket, evs_append, List.mem_append]
  right
  have hne : (added cfg items).isEmpty = false := by
    cases h : added cfg items with
    | nil => rw [h] at hadd; simp at hadd
    | cons => rfl
  simp only [hne, Bool.false_eq_true, if_false]
  have hperm := isort_perm itemLe (added cfg items)
  refine run_noSample cfg ha hdis fuel0 (topGroup cfg items budget) ds ?_ ?_ ?_ (prep cfg it) (hperm.mem_iff.2 hadd) ?_
  · show 0 < nPart cfg
    have := nPart_pos' cfg; omega
  · show nPart cfg ≤ 0 + fuel0
    have := nPart_le cfg; simp [fuel0]; omega
  · intro a ha' b hb' hab
    have ha2 := hperm.mem_iff.1 ha'
    have hb2 := hperm.mem_iff.1 hb'
    simp only [added, List.mem_map, List.mem_filter] at ha2 hb2
    obtain ⟨a0, ⟨ha0, _⟩, rfl⟩ := ha2
    obtain ⟨b0, ⟨hb0, _⟩, rfl⟩ := hb2
    rw [(hpf a0).2, (hpf b0).2]
    rw [(hpf a0).1, (hpf b0).1] at hab
    exact hcons a0 ha0 b0 hb0 hab
  · rw [(hpf it).2]; exact hns
where
  nPart_pos' (cfg : Cfg) : 1 ≤ nPart cfg := by
    unfold nPart partList
    simp only [List.length_append, List.length_cons, List.length_nil]
    omega
  nPart_le (cfg : Cfg) : nPart cfg ≤ 4 := by
    rcases cfg with ⟨_, _, _, _, _, sb, sn, sg, _, _, _, _⟩
    cases sb <;> cases sn <;> cases sg <;> simp [nPart, partList]


/-- the flag of a metric level partition is the flag of its (first) row -/
theorem metric_partition_flag (d : Nat) (l : List Item) :
    (mkMetric d l).noSample = (hd l).noSample ∧ (mkKey d l).noSample = (hd l).noSample := ⟨rfl, rfl⟩

/-- non-vacuity: an over-budget NoSampleAgent metric next to an ordinary one, agent mode -/
example :
    let cfg : Cfg := { agent := true }
    let items : List Item := [{ id := 0, size := 50, metric := 1, noSample := true }, { id := 1, size := 50, metric := 1, noSample := true },
                              { id := 2, size := 10, metric := 2 }]
    (evs (runBucket cfg items 20 [])) =
      [keepEv { id := 2, size := 10, metric := 2 }, keepEv { id := 0, size := 50, metric := 1, noSample := true },
       keepEv { id := 1, size := 50, metric := 1, noSample := true }] := by decide

/-! ## 6. the agent around the sampler: (*Shard).sampleBucket (agent_shard_send.go) -/

/-- agent_no_sample_kept — end to end on the agent. `sampleBucket` sends every row whose own metric is marked
    NoSampleAgent without asking the sampler (`bypass`, factor = the row's initial SF = 1, whatever the component and
    DisableNoSampleAgent say); every other row goes through Add*;Run, where — in agent mode, unless disabled — rows
    ACCOUNTED to a NoSampleAgent metric (ingestion statuses of such a metric) are kept with factor 1 as well
    (`no_sample_agent_kept`). The model `agentBucket` is tied to the real `sampleBucket` by the agent cases of the
    harness (real Shard, real SourceBucket3 rows). -/
theorem agent_no_sample_kept (cfg : Cfg) (rows : List ARow) (budget : Int) (ds : List Nat) :
    (∀ r ∈ rows, r.bypass = true → keepEv r.item ∈ evs (agentBucket cfg rows budget ds)) ∧
    (cfg.agent = true → cfg.disableNoSample = false →
      FlagConsistent ((rows.filter (fun r => !r.bypass)).map (·.item)) →
      ∀ r ∈ rows, r.bypass = false → 1 ≤ r.item.size → r.item.noSample = true →
        keepEv (prep cfg r.item) ∈ evs (agentBucket cfg rows budget ds)) := by
  constructor
  · intro r hr hb
    simp only [agentBucket, evs_append, evs_map_ev, List.mem_append, List.mem_map, List.mem_filter]
    exact Or.inl ⟨r, ⟨hr, hb⟩, rfl⟩
  · intro ha hdis hcons r hr hb hsz hns
    simp only [agentBucket, evs_append, List.mem_append]
    right
    apply no_sample_agent_kept cfg ha hdis _ budget ds hcons r.item _ hsz hns
    simp only [List.mem_map, List.mem_filter]
    exact ⟨r, ⟨hr, by simp [hb]⟩, rfl⟩

/-- non-vacuity: a bypassed row, an ingestion-status-like row accounted to the flagged metric 1 and an ordinary
    over-budget metric 2; agent mode -/
example :
    let cfg : Cfg := { agent := true }
    let rows : List ARow := [⟨{ id := 0, size := 50, metric := 1, noSample := true }, true⟩,
                             ⟨{ id := 1, size := 40, metric := 1, noSample := true }, false⟩,
                             ⟨{ id := 2, size := 60, metric := 2, rank := 1 }, false⟩, ⟨{ id := 3, size := 60, metric := 2, rank := 2 }, false⟩]
    (evs (agentBucket cfg rows 30 [0, 9007199254740991])).map (fun e => (e.id, e.kept, e.num, e.den)) =
      [(0, true, 1, 1), (1, true, 1, 1), (2, true, 240, 30), (3, false, 240, 30)] := by decide

/-! ## 7. the sizes handed to `Add` are never below 1 -/

theorem keyTLSize_ge (tagsNZ stagLens : List Nat) (ts : Bool) : 12 ≤ keyTLSize tagsNZ stagLens ts := by
  unfold keyTLSize; omega

theorem valueTLSize_ge (v : ValDesc) : 8 ≤ valueTLSize v := by
  unfold valueTLSize; omega

/-- agent_row_size_ge_20: the size `sampleBucket` hands to `Add` (`Key.TLSizeEstimate + MultiItem.TLSizeEstimate`, models
    tied to the real functions by the size cases of the harness) is at least 20 for every key and every row content. -/
theorem agent_row_size_ge_20 (tagsNZ stagLens : List Nat) (ts : Bool) (tail : ValDesc) (tops : List (Nat × ValDesc)) :
    20 ≤ keyTLSize tagsNZ stagLens ts + itemTLSize tail tops := by
  have h1 := keyTLSize_ge tagsNZ stagLens ts
  have h2 := valueTLSize_ge tail
  unfold itemTLSize; omega

/-- aggregator_row_size_ge_72: the size `rowDataMarshalAppendPositions` hands to `Add` (`RowBinarySizeEstimate`) -/
theorem aggregator_row_size_ge_72 (stagLens : List Nat) (tail : ValDesc) (tops : List (Nat × ValDesc)) :
    72 ≤ itemRowSize stagLens tail tops := by
  unfold itemRowSize; omega

theorem sampleRows_notMax (cfg : Cfg) (g : Group) (ds : List Nat) : ∀ e ∈ evs (sampleRows cfg g ds).1, e.isMax = false := by
  have hk : ∀ l, ∀ e ∈ evs (keepAll l), e.isMax = false := by
    intro l e he
    simp only [keepAll, evs_map_ev, List.mem_map] at he
    obtain ⟨it, _, rfl⟩ := he; rfl
  have hsel : ∀ num den l ds, ∀ e ∈ evs (selectRand num den l ds).1, e.isMax = false := by
    intro num den l
    induction l with
    | nil => intro ds e he; simp [selectRand] at he
    | cons it r ih =>
      intro ds e he
      cases ds with
      | nil =>
        simp only [selectRand, evs_err, evs_ev, List.mem_cons] at he
        rcases he with rfl | he
        · rfl
        · exact ih [] e he
      | cons k ds =>
        simp only [selectRand, evs_ev, List.mem_cons] at he
        rcases he with rfl | he
        · rfl
        · exact ih ds e he
  have hpart : ∀ num den l ds, ∀ e ∈ evs (selectPart cfg num den l ds).1, e.isMax = false := by
    intro num den l ds e he
    unfold selectPart at he
    split at he
    · simp only [evs_append, evs_map_ev, List.mem_append, List.mem_map] at he
      rcases he with ⟨it, _, rfl⟩ | ⟨it, _, rfl⟩ <;> rfl
    · split at he
      · simp only [evs_map_ev, List.mem_map] at he
        obtain ⟨it, _, rfl⟩ := he; rfl
      · exact hsel _ _ _ _ e he
  unfold sampleRows
  split
  · simp
  · split
    · exact hk _
    · split
      · exact hk _
      · split
        · intro e he
          simp only [evs_append, List.mem_append] at he
          rcases he with he | he
          · exact hk _ e he
          · exact hpart _ _ _ _ e he
        · exact hpart _ _ _ _

/-- add_discard_unreachable: when every row's size is at least 1 — as it is for every row `sampleBucket`
    (agent_row_size_ge_20) and `rowDataMarshalAppendPositions` (aggregator_row_size_ge_72) hand in — `Add` rejects
    nothing and no decision carries the MaxFloat32 factor: the one exception of `kept_factor_is_inverse_probability`
    (`Shape`'s first case) does not occur. (calcHostMetricBudgets can reach the branch: an agent may report original
    size 0 for a metric; that row simply gets no budget — quota mode, no sample factors involved.) -/
theorem add_discard_unreachable (cfg : Cfg) (hm : cfg.mode ≠ .quota) (items : List Item) (budget : Int) (ds : List Nat)
    (h : ∀ it ∈ items, 1 ≤ it.size) :
    dropped items = [] ∧ ∀ e ∈ evs (runBucket cfg items budget ds), e.isMax = false := by
  have hd : dropped items = [] := by
    simp only [dropped, List.filter_eq_nil_iff, decide_eq_true_eq]
    intro it hit; have := h it hit; omega
  refine ⟨hd, ?_⟩
  intro e he
  simp only [runBucket, hd, List.map_nil, List.nil_append] at he
  split at he
  · simp at he
  · refine run_all (fun e => e.isMax = false) cfg (fun it => rfl) ?_ fuel0 _ ds e he
    intro g ds' e' he'
    unfold leaf at he'
    split at he'
    · rename_i hq; exact absurd hq hm
    · exact sampleRows_notMax cfg g ds' e' he'

/-- non-vacuity of the size models: an empty key with a plain counter is estimated at 12 + 8 = 20 bytes on the agent
    and 72 + 52 + 4 = 128 bytes on the aggregator -/
example : keyTLSize [] [] false + itemTLSize {} [] = 20 ∧ itemRowSize [] {} [] = 128 := by decide


/-! ## 8. consecutive samplers sharing SamplerBuffers -/

/-- each_item_once_seq. The aggregator hands the SamplerBuffers of one insert to the sampler of the next
    (aggregator_insert.go). Because NewSampler truncates them (`newSamplerItems`), the decisions of every sampler of such
    a sequence are, up to order, exactly the rows handed to THAT sampler — whatever the earlier samplers were given:
    no row of an earlier run is decided (and inserted) again. Every sequence, configuration, budget, draw stream. -/
theorem each_item_once_seq (left : List Item) (runs : List RunIn) :
    List.Forall₂ (fun acts r => ((evs acts).map (·.id)).Perm (r.items.map (·.id))) (runSeq left runs) runs := by
  induction runs generalizing left with
  | nil => exact List.Forall₂.nil
  | cons r rs ih =>
    simp only [runSeq]
    refine List.Forall₂.cons ?_ (ih _)
    simp only [runShared, newSamplerItems, List.nil_append]
    exact each_item_once r.cfg r.items r.budget r.draws

/-- a run's decisions do not depend on what the previous sampler left in the buffers -/
theorem runShared_independent (cfg : Cfg) (left left' : List Item) (items : List Item) (budget : Int) (ds : List Nat) :
    runShared cfg left items budget ds = runShared cfg left' items budget ds := rfl

/-- why the truncation matters: were the row left behind by the previous run still in `items`, it would be decided a second
    time by the next sampler (the seeded change C05-r2-1; oracle signature `row-decided-in-later-run`) -/
example :
    let old : Item := { id := 7, size := 10, metric := 1 }
    let new : Item := { id := 0, size := 10, metric := 2 }
    (evs (runBucket {} ([old] ++ [new]) 100 [])).map (·.id) = [7, 0] ∧
    (evs (runShared {} [old] [new] 100 []).1).map (·.id) = [0] := by decide


end SH.Sampler
