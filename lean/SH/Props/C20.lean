/-
  C20 — Metadata replicas converge and name lookups stay correct.

  "For any history of metric, group and namespace edits (including renames and reuse of freed names), delivered to a
   replica in any batching, with journal compaction, partial deliveries and save/reload of possibly truncated journal
   files, every replica ends with the source's latest version of each entity (in compacted form for compact journals),
   replicas of the same journal end with identical state hashes, each metric's group is the enabled user group with the
   longest matching name prefix, and looking a metric up by name always returns the metric that currently holds that
   name."

  Models: SH.Model.Journal (JournalFast: addEventLocked / applyUpdate / compaction / diff / save / load),
          SH.Model.MetaIndex (MetricsStorage.ApplyEvent, calcGroupForMetricLocked), `Variant.fixed` = the code after
          fixes/C20-name-index.diff, `Variant.orig` = the pinned code (kept for the defect witness in section I).

  How the sentence is split into theorems (all kernel-checked, no Mathlib needed):
   A–D  name lookups: `upsert_I1` (both variants), `lookup_by_name_current` (fixed variant; FALSE for orig: section I)
   E    hashes: `add_inv`/`addAll_inv`/`applyUpdate_inv`/`load_inv` (one entry per entity, ascending, state hash = xor of
        entry hashes, for every op sequence), `same_contents_same_hash`
   F    delivery: `delivery_never_skips` (any item/byte limit, any cut)
   G    reload: `truncate_keeps_prefix`, `load_inv` (restart point ≥ last version read)
   H    groups: `calcGroup_longest_prefix`, `rebuild_groups`, `group_assignment`
   J    convergence: `converges` (one hop, every schedule of upstream edits / limited and cut deliveries / Save /
        restarts from a file truncated anywhere, compact or not), `replicas_same_hash`
   H2   `groups_ordered_every_batch` (groupsOrdered = the enabled user groups after EVERY batch)
   C2   `valid_unique`, `lookup_by_name_checked_source` (the lookup theorem for every history of a source that checks
        the name at the moment of the edit: renames and reuse of freed names included), `lookup_after_reuse`
   K    two hops relative to the source with aggregator rollbacks: `two_hop_converges_no_skip`,
        `two_hop_agents_same_hash` (non-compact chain); `two_hop_compact_rollback_counterexample` (FINDING: false for a
        compact aggregator restarted from an older file)
   L    `load_any_cut` (+ `load_strict_prefix_lv`, `load_err_iff_tail`): reload of a saved file cut anywhere, also exactly
        at a chunk boundary where no read error occurs: Faithful, and the header's loaderVersion is not believed
   N    `two_hop_converges_compact_no_rollback` (compact aggregator, never restarted: both hops composed); the statement
        with aggregator roll-backs under a no-return hypothesis is kept as a comment (not proved)
   M    the compact form is MODELLED (SH.Model.CompactMetric = MakeCompactMetric + keepCompactMetricDescription + the event
        head): `compactForm_idem`, `compactForm_desc`, `compactForm_desc_special`, `compactForm_ignores`,
        `converges_modelled_compact`; the seeded "name cleared first" variant loses remote-config payloads (`decide`)
   Helper developments: SH/Lemmas/Journal.lean (E, F, G), SH/Lemmas/JournalConv.lean (J), SH/Lemmas/JournalChain.lean (K).
   Partial: a replica whose upstream itself is rolled back (agent behind a restarting aggregator) is outside
   `converges` (comment after `replicas_same_hash`); the direct oracle of cmd/verif-c20 checks it on the real code.
-/
import SH.Model.Journal
import SH.Model.MetaIndex
import SH.Lemmas.Journal
import SH.Lemmas.JournalConv
import SH.Lemmas.JournalChain
import SH.Model.CompactMetric

namespace SH.C20
open SH.MetaIndex
open SH.Journal
open SH.CompactMetric


/-! ## A. association lists -/

theorem get_set_same {κ} [DecidableEq κ] (m : List (κ × Ent)) (k : κ) (v : Ent) : aget (aset m k v) k = some v := by
  induction m with
  | nil => simp [aset, aget]
  | cons p r ih =>
    obtain ⟨k', v'⟩ := p
    by_cases h : k' = k <;> simp [aset, aget, h, ih]

theorem get_set_other {κ} [DecidableEq κ] (m : List (κ × Ent)) (k k' : κ) (v : Ent) (h : k' ≠ k) :
    aget (aset m k v) k' = aget m k' := by
  induction m with
  | nil => simp [aset, aget, Ne.symm h]
  | cons p r ih =>
    obtain ⟨k0, v0⟩ := p
    by_cases h0 : k0 = k
    · subst h0; simp [aset, aget, Ne.symm h]
    · by_cases h1 : k0 = k'
      · subst h1; simp [aset, aget, h0]
      · simp [aset, aget, h0, h1, ih]

theorem get_del {κ} [DecidableEq κ] (m : List (κ × Ent)) (k k' : κ) :
    aget (adel m k) k' = if k' = k then none else aget m k' := by
  induction m with
  | nil => simp [adel, aget]
  | cons p r ih =>
    obtain ⟨k0, v0⟩ := p
    unfold adel at ih ⊢
    by_cases h0 : k0 = k
    · subst h0
      rw [List.filter_cons_of_neg (by simp), ih]
      by_cases h1 : k' = k0
      · simp [h1]
      · simp [aget, h1, Ne.symm h1]
    · rw [List.filter_cons_of_pos (by simp [h0])]
      by_cases h1 : k0 = k'
      · subst h1; simp [aget, h0]
      · simp only [aget, h1, if_false]; exact ih

theorem get_del_same {κ} [DecidableEq κ] (m : List (κ × Ent)) (k : κ) : aget (adel m k) k = none := by
  simp [get_del]

theorem get_del_other {κ} [DecidableEq κ] (m : List (κ × Ent)) (k k' : κ) (h : k' ≠ k) :
    aget (adel m k) k' = aget m k' := by
  simp [get_del, h]

theorem get_del_some {κ} [DecidableEq κ] (m : List (κ × Ent)) (k k' : κ) (v : Ent) (h : aget (adel m k) k' = some v) :
    aget m k' = some v ∧ k' ≠ k := by
  by_cases hk : k' = k
  · subst hk; rw [get_del_same] at h; simp at h
  · rw [get_del_other _ _ _ hk] at h; exact ⟨h, hk⟩

theorem get_map {κ} [DecidableEq κ] (m : List (κ × Ent)) (f : Ent → Ent) (k : κ) :
    aget (m.map (fun p => (p.1, f p.2))) k = (aget m k).map f := by
  induction m with
  | nil => simp [aget]
  | cons p r ih =>
    obtain ⟨k0, v0⟩ := p
    by_cases h0 : k0 = k <;> simp [aget, h0, ih]


/-! ## B. every name-index entry is the id-index entry of that name (both variants) -/

/-- I1: `byName[n] = m` implies `m.Name = n` and `byID[m.ID] = m` -/
def I1 (x : Idx) : Prop := ∀ n m, aget x.byName n = some m → m.name = n ∧ aget x.byId m.id = some m

theorem renameOut_byId (v : Variant) (x : Idx) (id : Int) (name : Name) : (renameOut v x id name).byId = x.byId := by
  unfold renameOut
  split
  · split <;> rfl
  · rfl

theorem renameOut_byName_some (v : Variant) (x : Idx) (id : Int) (name n : Name) (m : Ent)
    (h : aget (renameOut v x id name).byName n = some m) : aget x.byName n = some m := by
  unfold renameOut at h
  split at h
  · split at h
    · exact (get_del_some _ _ _ _ h).1
    · exact h
  · exact h

/-- after the rename step no entry of the renamed entity is left under another name -/
theorem renameOut_clears (v : Variant) (x : Idx) (id : Int) (name : Name) (hI : I1 x) (n : Name) (m : Ent)
    (h : aget (renameOut v x id name).byName n = some m) (hid : m.id = id) : n = name := by
  have h0 := renameOut_byName_some v x id name n m h
  obtain ⟨hn, hb⟩ := hI n m h0
  rw [hid] at hb
  by_cases hnm : m.name = name
  · rw [← hn, hnm]
  · exfalso
    have hd : dropsOld v x m = true := by
      cases v
      · simp [dropsOld, hn, h0]
      · simp [dropsOld]
    simp only [renameOut, hb] at h
    rw [if_pos ⟨hnm, hd⟩] at h
    simp only at h
    rw [hn, get_del_same] at h
    simp at h

theorem upsert_I1 (v : Variant) (x : Idx) (e : Ent) (hI : I1 x) : I1 (upsert v x e) := by
  intro n m h
  simp only [upsert, put] at h ⊢
  by_cases hn : n = e.name
  · subst hn
    rw [get_set_same] at h
    injection h with h
    subst h
    exact ⟨rfl, get_set_same _ _ _⟩
  · rw [get_set_other _ _ _ _ hn] at h
    have h0 := renameOut_byName_some v x e.id e.name n m h
    obtain ⟨h1, h2⟩ := hI n m h0
    refine ⟨h1, ?_⟩
    rw [renameOut_byId]
    by_cases hid : m.id = e.id
    · exact absurd (renameOut_clears v x e.id e.name hI n m h hid) hn
    · rw [get_set_other _ _ _ _ hid]; exact h2

/-- the fixed rename step leaves the entry of every *other* entity alone -/
theorem renameOut_fixed_keeps (x : Idx) (id : Int) (name : Name) (m : Ent)
    (hm : aget x.byName m.name = some m) (hid : m.id ≠ id)
    (hkey : ∀ old, aget x.byId id = some old → old.id = id) :
    aget (renameOut .fixed x id name).byName m.name = some m := by
  unfold renameOut
  split
  · rename_i old hold
    split
    · rename_i hc
      have hne : m.name ≠ old.name := by
        intro heq
        have hd := hc.2
        simp only [dropsOld, ← heq, hm] at hd
        have : m.id = old.id := by simpa using hd
        exact hid (this.trans (hkey old hold))
      simp only
      rw [get_del_other _ _ _ hne]; exact hm
    · exact hm
  · exact hm

/-! ## C. source histories -/

/-- one version of one entity at the source -/
structure SEv where
  typ : Int
  id : Int
  name : Name
  ver : Int
deriving DecidableEq, Repr

def srcOf (e : IEv) : SEv := { typ := e.typ, id := e.id, name := e.name, ver := e.ver }

/-- `e` is the version of its entity in force at source version `v` -/
def Latest (H : List SEv) (e : SEv) (v : Int) : Prop :=
  e ∈ H ∧ e.ver ≤ v ∧ ∀ e' ∈ H, e'.typ = e.typ → e'.id = e.id → e'.ver ≤ v → e'.ver ≤ e.ver

/-- at every source version, two different entities of one type never hold the same name AT THE SAME TIME. A name
    freed by a rename may be taken by another entity later (reuse is allowed: `wH_unique`, `valid_unique`). -/
def UniqueNames (H : List SEv) : Prop :=
  ∀ v e1 e2, Latest H e1 v → Latest H e2 v → e1.typ = e2.typ → e1.name = e2.name → e1.id = e2.id

def FromH (H : List SEv) (t id : Int) (name : Name) (ver : Int) : Prop :=
  ({ typ := t, id := id, name := name, ver := ver } : SEv) ∈ H

/-- every source version of entity (t,id) from `ver` on carries `name` -/
def Stable (H : List SEv) (t id : Int) (name : Name) (ver : Int) : Prop :=
  ∀ e ∈ H, e.typ = t → e.id = id → ver ≤ e.ver → e.name = name

theorem exists_latest (H : List SEv) (t id v : Int) (h : ∃ e ∈ H, e.typ = t ∧ e.id = id ∧ e.ver ≤ v) :
    ∃ e ∈ H, e.typ = t ∧ e.id = id ∧ e.ver ≤ v ∧ ∀ e' ∈ H, e'.typ = t → e'.id = id → e'.ver ≤ v → e'.ver ≤ e.ver := by
  induction H with
  | nil => obtain ⟨e, he, _⟩ := h; simp at he
  | cons a r ih =>
    by_cases hr : ∃ e ∈ r, e.typ = t ∧ e.id = id ∧ e.ver ≤ v
    · obtain ⟨e, her, h1, h2, h3, h4⟩ := ih hr
      by_cases ha : a.typ = t ∧ a.id = id ∧ a.ver ≤ v ∧ e.ver < a.ver
      · refine ⟨a, by simp, ha.1, ha.2.1, ha.2.2.1, ?_⟩
        intro e' he' g1 g2 g3
        rcases List.mem_cons.mp he' with rfl | hm
        · exact Int.le_refl _
        · have := h4 e' hm g1 g2 g3; omega
      · refine ⟨e, List.mem_cons_of_mem _ her, h1, h2, h3, ?_⟩
        intro e' he' g1 g2 g3
        rcases List.mem_cons.mp he' with rfl | hm
        · by_cases hlt : e.ver < e'.ver
          · exact absurd ⟨g1, g2, g3, hlt⟩ ha
          · omega
        · exact h4 e' hm g1 g2 g3
    · obtain ⟨e, he, h1, h2, h3⟩ := h
      rcases List.mem_cons.mp he with rfl | hm
      · refine ⟨e, by simp, h1, h2, h3, ?_⟩
        intro e' he' g1 g2 g3
        rcases List.mem_cons.mp he' with rfl | hm'
        · exact Int.le_refl _
        · exact absurd ⟨e', hm', g1, g2, g3⟩ hr
      · exact absurd ⟨e, hm, h1, h2, h3⟩ hr

/-! ## D. the index invariant -/

structure Inv (H : List SEv) (t : Int) (x : Idx) (L : Int) : Prop where
  i1 : I1 x
  key : ∀ id m, aget x.byId id = some m → m.id = id
  bound : ∀ id m, aget x.byId id = some m → m.ver ≤ L
  src : ∀ id m, aget x.byId id = some m → 0 < m.ver → FromH H t m.id m.name m.ver
  reach : ∀ id m, aget x.byId id = some m → 0 < m.ver → Stable H t m.id m.name m.ver → aget x.byName m.name = some m

theorem Inv.mono {H t x L L'} (h : Inv H t x L) (hl : L ≤ L') : Inv H t x L' :=
  { h with bound := fun id m hm => Int.le_trans (h.bound id m hm) hl }

theorem inv_upsert (H : List SEv) (t : Int) (x : Idx) (L : Int) (hU : UniqueNames H) (hinv : Inv H t x L)
    (e : SEv) (he : e ∈ H) (ht : e.typ = t) (hL : L < e.ver) (_hL0 : 0 ≤ L)
    (ent : Ent) (h1 : ent.id = e.id) (h2 : ent.name = e.name) (h3 : ent.ver = e.ver) :
    Inv H t (upsert .fixed x ent) e.ver := by
  have hbyId : (upsert .fixed x ent).byId = aset x.byId ent.id ent := by
    simp [upsert, put, renameOut_byId]
  refine ⟨upsert_I1 _ _ _ hinv.i1, ?_, ?_, ?_, ?_⟩
  · intro id m hm
    rw [hbyId] at hm
    by_cases hid : id = ent.id
    · subst hid; rw [get_set_same] at hm; injection hm with hm; rw [← hm]
    · rw [get_set_other _ _ _ _ hid] at hm; exact hinv.key id m hm
  · intro id m hm
    rw [hbyId] at hm
    by_cases hid : id = ent.id
    · subst hid; rw [get_set_same] at hm; injection hm with hm; rw [← hm, h3]; exact Int.le_refl _
    · rw [get_set_other _ _ _ _ hid] at hm; have := hinv.bound id m hm; omega
  · intro id m hm hpos
    rw [hbyId] at hm
    by_cases hid : id = ent.id
    · subst hid; rw [get_set_same] at hm; injection hm with hm
      rw [← hm, h1, h2, h3, ← ht]; exact he
    · rw [get_set_other _ _ _ _ hid] at hm; exact hinv.src id m hm hpos
  · intro id m hm hpos hst
    rw [hbyId] at hm
    by_cases hid : id = ent.id
    · subst hid; rw [get_set_same] at hm; injection hm with hm
      subst hm
      simp [upsert, put, get_set_same]
    · rw [get_set_other _ _ _ _ hid] at hm
      have hmid := hinv.key id m hm
      have hold := hinv.reach id m hm hpos hst
      have hsrc := hinv.src id m hm hpos
      have hb := hinv.bound id m hm
      have hne : m.name ≠ ent.name := by
        intro heq
        obtain ⟨es, hes, g1, g2, g3, g4⟩ := exists_latest H t m.id e.ver
          ⟨_, hsrc, rfl, rfl, by simp only; omega⟩
        have hge : m.ver ≤ es.ver := g4 _ hsrc rfl rfl (by simp only; omega)
        have hname : es.name = m.name := hst es hes g1 g2 hge
        have l1 : Latest H es e.ver := ⟨hes, g3, fun e' he' a b c => g4 e' he' (a.trans g1) (b.trans g2) c⟩
        have l2 : Latest H e e.ver := ⟨he, Int.le_refl _, fun e' _ _ _ c => c⟩
        have := hU e.ver es e l1 l2 (g1.trans ht.symm) (by rw [hname, heq, h2])
        exact hid (by rw [← hmid, ← g2, this, h1])
      simp only [upsert, put]
      rw [get_set_other _ _ _ _ hne]
      exact renameOut_fixed_keeps x ent.id ent.name m hold (by rw [hmid]; exact hid) (fun old ho => hinv.key _ old ho)

theorem inv_remap (H : List SEv) (t : Int) (x x' : Idx) (L : Int) (f : Ent → Ent)
    (hf : ∀ m, (f m).id = m.id ∧ (f m).name = m.name ∧ (f m).ver = m.ver)
    (hid : ∀ id, aget x'.byId id = (aget x.byId id).map f)
    (hnm : ∀ n, aget x'.byName n = (aget x.byName n).map f)
    (hinv : Inv H t x L) : Inv H t x' L := by
  have pre : ∀ id m', aget x'.byId id = some m' → ∃ m, aget x.byId id = some m ∧ f m = m' := by
    intro id m' h; rw [hid] at h; exact Option.map_eq_some_iff.mp h
  refine ⟨?_, ?_, ?_, ?_, ?_⟩
  · intro n m' h
    rw [hnm] at h
    obtain ⟨m, hm, rfl⟩ := Option.map_eq_some_iff.mp h
    obtain ⟨a, b⟩ := hinv.i1 n m hm
    refine ⟨by rw [(hf m).2.1]; exact a, ?_⟩
    rw [hid, (hf m).1, b]; rfl
  · intro id m' h
    obtain ⟨m, hm, rfl⟩ := pre id m' h
    rw [(hf m).1]; exact hinv.key id m hm
  · intro id m' h
    obtain ⟨m, hm, rfl⟩ := pre id m' h
    rw [(hf m).2.2]; exact hinv.bound id m hm
  · intro id m' h hpos
    obtain ⟨m, hm, rfl⟩ := pre id m' h
    rw [(hf m).1, (hf m).2.1, (hf m).2.2] at *
    exact hinv.src id m hm hpos
  · intro id m' h hpos hst
    obtain ⟨m, hm, rfl⟩ := pre id m' h
    rw [(hf m).1, (hf m).2.1, (hf m).2.2] at *
    rw [hnm, hinv.reach id m hm hpos hst]; rfl


/-! ## D2. lifting to the storage: every op of ApplyEvent keeps the invariant of all three index pairs -/

open SH.Gen.C20 in
structure SInv (H : List SEv) (st : Store) (L : Int) : Prop where
  m : Inv H metricEvent st.metrics L
  g : Inv H metricsGroupEvent st.groups L
  n : Inv H namespaceEvent st.nss L

theorem SInv.mono {H st L L'} (h : SInv H st L) (hl : L ≤ L') : SInv H st L' :=
  ⟨h.m.mono hl, h.g.mono hl, h.n.mono hl⟩

theorem sinv_applyOne (H : List SEv) (hU : UniqueNames H) (s : Store × Bool) (L : Int) (e : IEv)
    (he : srcOf e ∈ H) (hL : L < e.ver) (h0 : 0 ≤ L) (hs : SInv H s.1 L) :
    SInv H (applyOne .fixed s e).1 e.ver := by
  have hle : L ≤ e.ver := Int.le_of_lt hL
  unfold applyOne
  split
  · exact hs.mono hle
  · split
    · rename_i _ hm
      have ht : (srcOf e).typ = SH.Gen.C20.metricEvent := by simpa [isMetric, srcOf] using hm
      exact ⟨inv_upsert H _ _ L hU hs.m (srcOf e) he ht hL h0 _ rfl rfl rfl, hs.g.mono hle, hs.n.mono hle⟩
    · split
      · rename_i _ _ hm
        have ht : (srcOf e).typ = SH.Gen.C20.metricsGroupEvent := by simpa [isGroup, srcOf] using hm
        exact ⟨hs.m.mono hle, inv_upsert H _ _ L hU hs.g (srcOf e) he ht hL h0 _ rfl rfl rfl, hs.n.mono hle⟩
      · split
        · rename_i _ _ _ hm
          have ht : (srcOf e).typ = SH.Gen.C20.namespaceEvent := by simpa [isNs, srcOf] using hm
          exact ⟨hs.m.mono hle, hs.g.mono hle, inv_upsert H _ _ L hU hs.n (srcOf e) he ht hL h0 _ rfl rfl rfl⟩
        · exact hs.mono hle

theorem sinv_foldl (H : List SEv) (hU : UniqueNames H) : ∀ (evs : List IEv) (s : Store × Bool) (L : Int),
    0 ≤ L → SInv H s.1 L → (∀ e ∈ evs, srcOf e ∈ H) → (∀ e ∈ evs, L < e.ver) →
    evs.Pairwise (fun a b => a.ver < b.ver) →
    ∃ L', (L' = L ∨ ∃ e ∈ evs, e.ver = L') ∧ 0 ≤ L' ∧ SInv H (evs.foldl (applyOne .fixed) s).1 L' := by
  intro evs
  induction evs with
  | nil => intro s L h0 hs _ _ _; exact ⟨L, Or.inl rfl, h0, hs⟩
  | cons e r ih =>
    intro s L h0 hs hsub hgt hp
    have hL : L < e.ver := hgt e (by simp)
    have h1 := sinv_applyOne H hU s L e (hsub e (by simp)) hL h0 hs
    obtain ⟨hpe, hpr⟩ := List.pairwise_cons.mp hp
    obtain ⟨L', hL', h0', hs'⟩ := ih (applyOne .fixed s e) e.ver (by omega) h1
      (fun x hx => hsub x (List.mem_cons_of_mem _ hx)) (fun x hx => hpe x hx) hpr
    refine ⟨L', ?_, h0', by simpa [List.foldl] using hs'⟩
    rcases hL' with rfl | ⟨x, hx, rfl⟩
    · exact Or.inr ⟨e, by simp, rfl⟩
    · exact Or.inr ⟨x, List.mem_cons_of_mem _ hx, rfl⟩

theorem regroup_fields (o : List Ent) (m : Ent) :
    (regroup o m).id = m.id ∧ (regroup o m).name = m.name ∧ (regroup o m).ver = m.ver := ⟨rfl, rfl, rfl⟩

theorem sinv_rebuild (H : List SEv) (tie : List Int) (st : Store) (L : Int) (hs : SInv H st L) :
    SInv H (rebuild .fixed tie st) L := by
  refine ⟨?_, hs.g, hs.n⟩
  have hid : ∀ id, aget (rebuild .fixed tie st).metrics.byId id
      = (aget st.metrics.byId id).map (regroup (orderedOf tie st.groups)) := by
    intro id; simp only [rebuild]; exact get_map _ _ _
  refine inv_remap H _ st.metrics _ L (regroup (orderedOf tie st.groups)) (regroup_fields _) hid ?_ hs.m
  intro n
  have e1 : aget (rebuild .fixed tie st).metrics.byName n =
      (aget st.metrics.byName n).map (fun m => (aget (rebuild .fixed tie st).metrics.byId m.id).getD
        (regroup (orderedOf tie st.groups) m)) :=
    get_map st.metrics.byName (fun m => (aget (rebuild .fixed tie st).metrics.byId m.id).getD
        (regroup (orderedOf tie st.groups) m)) n
  rw [e1]
  cases h : aget st.metrics.byName n with
  | none => rfl
  | some m =>
    obtain ⟨_, hb⟩ := hs.m.i1 n m h
    simp only [Option.map_some]
    rw [hid, hb]
    rfl

theorem sinv_applyBatch (H : List SEv) (hU : UniqueNames H) (tie : List Int) (st : Store) (evs : List IEv) (L : Int)
    (h0 : 0 ≤ L) (hs : SInv H st L) (hsub : ∀ e ∈ evs, srcOf e ∈ H) (hgt : ∀ e ∈ evs, L < e.ver)
    (hp : evs.Pairwise (fun a b => a.ver < b.ver)) :
    ∃ L', (L' = L ∨ ∃ e ∈ evs, e.ver = L') ∧ 0 ≤ L' ∧ SInv H (applyBatch .fixed tie st evs) L' := by
  obtain ⟨L', a, b, c⟩ := sinv_foldl H hU evs (st, false) L h0 hs hsub hgt hp
  refine ⟨L', a, b, ?_⟩
  unfold applyBatch finish
  split
  · exact sinv_rebuild H tie _ L' c
  · exact c

/-- a MetricsStorage object lives through a sequence of ApplyEvent calls; each call comes with the tie order observed -/
def applyTied (v : Variant) (st : Store) (bs : List (List Int × List IEv)) : Store :=
  bs.foldl (fun st b => applyBatch v b.1 st b.2) st

def allEvents (bs : List (List Int × List IEv)) : List IEv := (bs.map (·.2)).flatten

theorem sinv_applyTied (H : List SEv) (hU : UniqueNames H) : ∀ (bs : List (List Int × List IEv)) (st : Store) (L : Int),
    0 ≤ L → SInv H st L → (∀ e ∈ allEvents bs, srcOf e ∈ H) → (∀ e ∈ allEvents bs, L < e.ver) →
    (allEvents bs).Pairwise (fun a b => a.ver < b.ver) →
    ∃ L', SInv H (applyTied .fixed st bs) L' := by
  intro bs
  induction bs with
  | nil => intro st L _ hs _ _ _; exact ⟨L, hs⟩
  | cons b r ih =>
    intro st L h0 hs hsub hgt hp
    have hall : allEvents (b :: r) = b.2 ++ allEvents r := by simp [allEvents]
    rw [hall] at hsub hgt hp
    obtain ⟨p1, p2, p3⟩ := List.pairwise_append.mp hp
    obtain ⟨L', hL', h0', hs'⟩ := sinv_applyBatch H hU b.1 st b.2 L h0 hs
      (fun e he => hsub e (List.mem_append_left _ he)) (fun e he => hgt e (List.mem_append_left _ he)) p1
    have := ih (applyBatch .fixed b.1 st b.2) L' h0' hs'
      (fun e he => hsub e (List.mem_append_right _ he))
      (fun e he => by
        rcases hL' with rfl | ⟨x, hx, rfl⟩
        · exact hgt e (List.mem_append_right _ he)
        · exact p3 x hx e he) p2
    simpa [applyTied, List.foldl] using this

theorem aget_mem {κ} [DecidableEq κ] (l : List (κ × Ent)) (k : κ) (v : Ent) (h : aget l k = some v) : (k, v) ∈ l := by
  induction l with
  | nil => simp [aget] at h
  | cons p r ih =>
    obtain ⟨k0, v0⟩ := p
    by_cases h0 : k0 = k
    · subst h0; simp [aget] at h; simp [h]
    · simp [aget, h0] at h; exact List.mem_cons_of_mem _ (ih h)

theorem inv_of_builtin (H : List SEv) (t : Int) (x : Idx) (hI : I1 x)
    (hb : ∀ id m, aget x.byId id = some m → m.id = id ∧ m.ver = 0) : Inv H t x 0 :=
  ⟨hI, fun id m h => (hb id m h).1, fun id m h => by rw [(hb id m h).2]; exact Int.le_refl _,
   fun id m h hp => by rw [(hb id m h).2] at hp; omega, fun id m h hp => by rw [(hb id m h).2] at hp; omega⟩

theorem sinv_init (H : List SEv) : SInv H MetaIndex.init 0 := by
  refine ⟨?_, ?_, ?_⟩
  · exact inv_of_builtin H _ _ (by intro n m h; simp [MetaIndex.init, aget] at h)
      (by intro id m h; simp [MetaIndex.init, aget] at h)
  · refine inv_of_builtin H _ _ ?_ ?_
    · intro n m h
      have := aget_mem _ _ _ h
      simp [MetaIndex.init, SH.Gen.C20.builtinGroups] at this
      rcases this with ⟨rfl, rfl⟩ | ⟨rfl, rfl⟩ | ⟨rfl, rfl⟩ <;> exact ⟨rfl, by decide⟩
    · intro id m h
      have := aget_mem _ _ _ h
      simp [MetaIndex.init, SH.Gen.C20.builtinGroups] at this
      rcases this with ⟨rfl, rfl⟩ | ⟨rfl, rfl⟩ | ⟨rfl, rfl⟩ <;> exact ⟨rfl, rfl⟩
  · refine inv_of_builtin H _ _ ?_ ?_
    · intro n m h
      have := aget_mem _ _ _ h
      simp [MetaIndex.init, SH.Gen.C20.builtinNamespaces] at this
      rcases this with ⟨rfl, rfl⟩
      exact ⟨rfl, by decide⟩
    · intro id m h
      have := aget_mem _ _ _ h
      simp [MetaIndex.init, SH.Gen.C20.builtinNamespaces] at this
      rcases this with ⟨rfl, rfl⟩
      exact ⟨rfl, rfl⟩



/-! ## H. group assignment: first match in name-descending order = longest matching prefix -/

theorem lexLt_irrefl : ∀ a : Name, lexLt a a = false := by
  intro a; induction a with
  | nil => rfl
  | cons x r ih => simp [lexLt, ih]

/-- `a ≤ b` in the bytewise order -/
def lexLe (a b : Name) : Bool := !lexLt b a

theorem lexLe_trans : ∀ a b c : Name, lexLe a b = true → lexLe b c = true → lexLe a c = true := by
  intro a
  induction a with
  | nil => intro b c _ _; cases c <;> simp [lexLe, lexLt]
  | cons x r ih =>
    intro b c h1 h2
    cases b with
    | nil => simp [lexLe, lexLt] at h1
    | cons y s =>
      cases c with
      | nil => simp [lexLe, lexLt] at h2
      | cons z t =>
        simp only [lexLe, lexLt, Bool.not_eq_true'] at h1 h2 ⊢
        have ih' := ih s t
        simp only [lexLe, Bool.not_eq_true'] at ih'
        by_cases hxy : y < x
        · simp [hxy] at h1
        · by_cases hyz : z < y
          · simp [hyz] at h2
          · simp only [hxy, hyz, if_false] at h1 h2
            by_cases hzx : z < x
            · exfalso; omega
            · simp only [hzx, if_false]
              by_cases e1 : z = x
              · subst e1
                have e2 : y = z := by omega
                subst e2
                simp only [if_true] at h1 h2 ⊢
                exact ih' (by simpa using h1) (by simpa using h2)
              · simp [e1]

theorem lexLt_of_proper_prefix : ∀ p q : Name, p <+: q → p.length < q.length → lexLt p q = true := by
  intro p
  induction p with
  | nil => intro q _ hl; cases q with
    | nil => simp at hl
    | cons _ _ => rfl
  | cons x r ih =>
    intro q hp hl
    cases q with
    | nil => simp at hp
    | cons y s =>
      obtain ⟨rfl, hp'⟩ := List.cons_prefix_cons.mp hp
      simp only [lexLt, Nat.lt_irrefl, if_false, if_true]
      exact ih s hp' (by simpa using hl)

/-- name-descending: no element is followed by a lexicographically greater name -/
def Desc (l : List Ent) : Prop := l.Pairwise (fun a b => lexLe b.name a.name = true)

theorem before_le (tie : List Int) (g h : Ent) (hb : before tie g h = true) : lexLe h.name g.name = true := by
  unfold before at hb
  split at hb
  · rename_i he; simp [lexLe, he, lexLt_irrefl]
  · have : lexLt g.name h.name = false := by
      -- asymmetry: h.name < g.name
      have h1 : lexLe g.name g.name = true := by simp [lexLe, lexLt_irrefl]
      by_cases hc : lexLt g.name h.name = true
      · exfalso
        -- g < h and h < g  ⇒  g ≤ h ≤ g … contradiction through transitivity: h ≤ g? no: use lexLe_trans on strictness
        have a1 : lexLe h.name g.name = false := by simp [lexLe, hc]
        have a2 : lexLe g.name h.name = false := by simp [lexLe, hb]
        -- totality: one of lexLe must hold
        have tot : ∀ a b : Name, lexLe a b = true ∨ lexLe b a = true := by
          intro a
          induction a with
          | nil => intro b; left; cases b <;> simp [lexLe, lexLt]
          | cons x r ih =>
            intro b
            cases b with
            | nil => right; simp [lexLe, lexLt]
            | cons y s =>
              rcases ih s with h | h
              · by_cases hxy : x < y
                · left; simp [lexLe, lexLt]; omega
                · by_cases hyx : y < x
                  · right; simp [lexLe, lexLt]; omega
                  · have : x = y := by omega
                    subst this; left; simp [lexLe, lexLt] at h ⊢; exact h
              · by_cases hxy : x < y
                · left; simp [lexLe, lexLt]; omega
                · by_cases hyx : y < x
                  · right; simp [lexLe, lexLt]; omega
                  · have : x = y := by omega
                    subst this; right; simp [lexLe, lexLt] at h ⊢; exact h
        rcases tot g.name h.name with t | t
        · rw [a2] at t; simp at t
        · rw [a1] at t; simp at t
      · simpa using hc
    simp [lexLe, this]

theorem not_before_le (tie : List Int) (g h : Ent) (hb : before tie g h = false) : lexLe g.name h.name = true := by
  unfold before at hb
  split at hb
  · rename_i he; simp [lexLe, he, lexLt_irrefl]
  · simp [lexLe, hb]

theorem mem_insertSorted (tie : List Int) (g x : Ent) : ∀ l, x ∈ insertSorted tie g l ↔ x = g ∨ x ∈ l := by
  intro l
  induction l with
  | nil => simp [insertSorted]
  | cons h r ih =>
    simp only [insertSorted]
    split
    · simp
    · simp [ih]; constructor
      · rintro (a | a | a) <;> simp [a]
      · rintro (a | a | a) <;> simp [a]

theorem insertSorted_desc (tie : List Int) (g : Ent) : ∀ l, Desc l → Desc (insertSorted tie g l) := by
  intro l
  induction l with
  | nil => intro _; simp [insertSorted, Desc]
  | cons h r ih =>
    intro hd
    obtain ⟨hh, hr⟩ := List.pairwise_cons.mp hd
    simp only [insertSorted]
    split
    · rename_i hb
      have hgh := before_le tie g h hb
      refine List.pairwise_cons.mpr ⟨?_, hd⟩
      intro x hx
      rcases List.mem_cons.mp hx with rfl | hx
      · exact hgh
      · exact lexLe_trans _ _ _ (hh x hx) hgh
    · rename_i hb
      have hgh := not_before_le tie g h (by simpa using hb)
      refine List.pairwise_cons.mpr ⟨?_, ih hr⟩
      intro x hx
      rcases (mem_insertSorted tie g x r).mp hx with rfl | hx
      · exact hgh
      · exact hh x hx

theorem sortGroups_desc (tie : List Int) (gs : List Ent) : Desc (sortGroups tie gs) := by
  induction gs with
  | nil => simp [sortGroups, Desc]
  | cons g r ih => simpa [sortGroups] using insertSorted_desc tie g _ (by simpa [sortGroups] using ih)

theorem mem_sortGroups (tie : List Int) (gs : List Ent) (x : Ent) : x ∈ sortGroups tie gs ↔ x ∈ gs := by
  induction gs with
  | nil => simp [sortGroups]
  | cons g r ih =>
    have : sortGroups tie (g :: r) = insertSorted tie g (sortGroups tie r) := rfl
    rw [this, mem_insertSorted, ih]; simp

/-- C20 (groups): on a name-descending list, `calcGroupForMetricLocked` returns a group whose name is a prefix of the
    metric name and at least as long as every other matching group's name; the default group iff nothing matches. -/
theorem calcGroup_longest_prefix (ordered : List Ent) (hd : Desc ordered) (name : Name) :
    (∃ g ∈ ordered, calcGroup ordered name = g.id ∧ g.name <+: name ∧
        ∀ g' ∈ ordered, g'.name <+: name → g'.name.length ≤ g.name.length) ∨
    (calcGroup ordered name = SH.Gen.C20.builtinGroupIDDefault ∧ ∀ g' ∈ ordered, ¬ g'.name <+: name) := by
  unfold calcGroup
  cases hf : ordered.find? (fun g => g.name.isPrefixOf name) with
  | none =>
    right
    refine ⟨rfl, ?_⟩
    intro g' hg' hp
    have := List.find?_eq_none.mp hf g' hg'
    exact this (by simpa [List.isPrefixOf_iff_prefix] using hp)
  | some g =>
    left
    obtain ⟨hpg, as, bs, hl, has⟩ := List.find?_eq_some_iff_append.mp hf
    have hgp : g.name <+: name := by simpa [List.isPrefixOf_iff_prefix] using hpg
    refine ⟨g, by rw [hl]; simp, rfl, hgp, ?_⟩
    intro g' hg' hp'
    rw [hl] at hg' hd
    rcases List.mem_append.mp hg' with h | h
    · exfalso
      have := has g' h
      rw [List.isPrefixOf_iff_prefix.mpr hp'] at this
      simp at this
    · rcases List.mem_cons.mp h with rfl | h
      · exact Nat.le_refl _
      · -- g' comes after g: its name is not greater; a longer prefix of the same string would be greater
        have hle : lexLe g'.name g.name = true :=
          (List.pairwise_cons.mp (List.pairwise_append.mp hd).2.1).1 g' h
        by_cases hlen : g'.name.length ≤ g.name.length
        · exact hlen
        · exfalso
          have hpp : g.name <+: g'.name := List.prefix_of_prefix_length_le hgp hp' (by omega)
          have := lexLt_of_proper_prefix _ _ hpp (by omega)
          simp [lexLe, this] at hle

/-- after the regrouping pass every metric carries the group `calcGroup` gives on the new, name-descending list of
    exactly the enabled user groups -/
theorem rebuild_groups (v : Variant) (tie : List Int) (st : Store) :
    let st' := rebuild v tie st
    Desc st'.ordered ∧
    (∀ g, g ∈ st'.ordered ↔ (g ∈ st.groups.byId.map (·.2) ∧ userEnabled g = true)) ∧
    (∀ id m, aget st'.metrics.byId id = some m → m.grp = calcGroup st'.ordered m.name) := by
  intro st'
  refine ⟨sortGroups_desc _ _, ?_, ?_⟩
  · intro g
    show g ∈ orderedOf tie st.groups ↔ _
    simp only [orderedOf, mem_sortGroups, List.mem_filter]
  · intro id m h
    have e : st'.metrics.byId = st.metrics.byId.map (fun p => (p.1, regroup (orderedOf tie st.groups) p.2)) := by
      cases v <;> rfl
    rw [e] at h
    have := (get_map st.metrics.byId (regroup (orderedOf tie st.groups)) id).symm ▸ h
    obtain ⟨m0, _, rfl⟩ := Option.map_eq_some_iff.mp this
    cases v <;> rfl


theorem G_applyOne (v : Variant) (s : Store × Bool) (e : IEv)
    (hG : ∀ id m, aget s.1.metrics.byId id = some m → m.grp = calcGroup s.1.ordered m.name) :
    (∀ id m, aget (applyOne v s e).1.metrics.byId id = some m → m.grp = calcGroup (applyOne v s e).1.ordered m.name) ∧
    (applyOne v s e).1.ordered = s.1.ordered := by
  unfold applyOne
  split
  · exact ⟨hG, rfl⟩
  · split
    · refine ⟨?_, rfl⟩
      intro id m h
      simp only [applyMetric, upsert, put, renameOut_byId] at h ⊢
      by_cases hid : id = e.id
      · subst hid
        rw [get_set_same] at h; injection h with h; subst h
        simp only [metricGroup]
        split
        · rename_i old ho
          split
          · rename_i hn; rw [hG _ old ho, hn]
          · rfl
        · rfl
      · rw [get_set_other _ _ _ _ hid] at h; exact hG id m h
    · split
      · exact ⟨hG, rfl⟩
      · split
        · exact ⟨hG, rfl⟩
        · exact ⟨hG, rfl⟩

/-- C20 (groups): after any sequence of ApplyEvent calls (either variant, any tie orders) groupsOrdered is
    name-descending and every metric's GroupID is what `calcGroupForMetricLocked` gives on it — by
    `calcGroup_longest_prefix` the group in that list with the longest name that is a prefix of the metric name,
    or the default group when none matches. (`rebuild_groups`: right after a regrouping pass that list is exactly the set of
    enabled user groups.) -/
theorem group_assignment (v : Variant) (bs : List (List Int × List IEv)) :
    let st := applyTied v MetaIndex.init bs
    Desc st.ordered ∧ ∀ id m, aget st.metrics.byId id = some m → m.grp = calcGroup st.ordered m.name := by
  have step : ∀ (evs : List IEv) (s : Store × Bool),
      (Desc s.1.ordered ∧ ∀ id m, aget s.1.metrics.byId id = some m → m.grp = calcGroup s.1.ordered m.name) →
      (Desc (evs.foldl (applyOne v) s).1.ordered ∧ ∀ id m, aget (evs.foldl (applyOne v) s).1.metrics.byId id = some m →
        m.grp = calcGroup (evs.foldl (applyOne v) s).1.ordered m.name) := by
    intro evs
    induction evs with
    | nil => intro s h; exact h
    | cons e r ih =>
      intro s h
      have := G_applyOne v s e h.2
      exact ih _ ⟨by rw [this.2]; exact h.1, this.1⟩
  have batch : ∀ (tie : List Int) (st : Store) (evs : List IEv),
      (Desc st.ordered ∧ ∀ id m, aget st.metrics.byId id = some m → m.grp = calcGroup st.ordered m.name) →
      (Desc (applyBatch v tie st evs).ordered ∧ ∀ id m, aget (applyBatch v tie st evs).metrics.byId id = some m →
        m.grp = calcGroup (applyBatch v tie st evs).ordered m.name) := by
    intro tie st evs h
    unfold applyBatch finish
    split
    · have := rebuild_groups v tie (evs.foldl (applyOne v) (st, false)).1
      exact ⟨this.1, this.2.2⟩
    · exact step evs (st, false) h
  intro st
  have all : ∀ (bs : List (List Int × List IEv)) (st0 : Store),
      (Desc st0.ordered ∧ ∀ id m, aget st0.metrics.byId id = some m → m.grp = calcGroup st0.ordered m.name) →
      (Desc (applyTied v st0 bs).ordered ∧ ∀ id m, aget (applyTied v st0 bs).metrics.byId id = some m →
        m.grp = calcGroup (applyTied v st0 bs).ordered m.name) := by
    intro bs
    induction bs with
    | nil => intro st0 h; exact h
    | cons b r ih => intro st0 h; exact ih _ (batch b.1 st0 b.2 h)
  exact all bs MetaIndex.init ⟨by simp [MetaIndex.init, Desc], by intro id m h; simp [MetaIndex.init, aget] at h⟩

/-! ## the headline lookup theorem -/

/-- C20 (name lookups). Source history `H`: all versions of all entities, with the source's guarantee that two
    entities of one type never hold the same name at the same source version. A MetricsStorage object (fresh, i.e.
    after any restart) is fed ANY sequence of batches whose events are source events with strictly increasing versions
    — this is what latest-version-only diffs, item/byte limits, cuts, compaction skips and chunk-wise reloads produce
    (`applyUpdate_inv`, `load_inv`). Then at every moment: every metric / group / namespace the replica holds whose
    name has been its source name ever since the replica's version of it (in particular: everything the replica has
    in the source's latest version) is returned by the lookup of that name; and whatever a name lookup returns is the
    id-index entry carrying that name. -/
theorem lookup_by_name_current (H : List SEv) (hU : UniqueNames H) (bs : List (List Int × List IEv))
    (hsub : ∀ e ∈ allEvents bs, srcOf e ∈ H) (hpos : ∀ e ∈ allEvents bs, 0 < e.ver)
    (hinc : (allEvents bs).Pairwise (fun a b => a.ver < b.ver)) :
    let st := applyTied .fixed MetaIndex.init bs
    (∀ m, aget st.metrics.byId m.id = some m → 0 < m.ver → Stable H SH.Gen.C20.metricEvent m.id m.name m.ver →
        aget st.metrics.byName m.name = some m) ∧
    (∀ g, aget st.groups.byId g.id = some g → 0 < g.ver → Stable H SH.Gen.C20.metricsGroupEvent g.id g.name g.ver →
        aget st.groups.byName g.name = some g) ∧
    (∀ n, aget st.nss.byId n.id = some n → 0 < n.ver → Stable H SH.Gen.C20.namespaceEvent n.id n.name n.ver →
        aget st.nss.byName n.name = some n) ∧
    I1 st.metrics ∧ I1 st.groups ∧ I1 st.nss := by
  intro st
  obtain ⟨L, hs⟩ := sinv_applyTied H hU bs MetaIndex.init 0 (Int.le_refl _) (sinv_init H) hsub hpos hinc
  exact ⟨fun m h => hs.m.reach m.id m h, fun g h => hs.g.reach g.id g h, fun n h => hs.n.reach n.id n h,
    hs.m.i1, hs.g.i1, hs.n.i1⟩

/-- C20 (hashes): two journals reached by any op sequences that hold the same contents (as multisets of content
    hashes — versions and order do not matter) have the same state hash. -/
theorem same_contents_same_hash (j1 j2 : J) (h1 : JInv j1) (h2 : JInv j2)
    (hp : (j1.entries.map (·.hash)).Perm (j2.entries.map (·.hash))) : j1.hash = j2.hash := by
  rw [h1.hash, h2.hash]; exact xorAll_perm _ _ hp

/-
  The end-to-end convergence statement is section J (`converges`, `replicas_same_hash`), proved over every schedule of
  one hop in SH/Lemmas/JournalConv.lean. `converges_step_partial` below is kept from the first round; it is subsumed by
  `conv_deliver`.
-/

/-- one delivery step of the non-compact chain: everything handed over is stored with its version, nothing else
    changes key-wise, and the replica's loaderVersion is the last delivered version -/
theorem converges_step_partial (tab : Nat → Content) (j j' : J) (src applied : List Entry) (lk : Int)
    (hi : JInv j) (hc : j.compact = false) (hne : src ≠ [])
    (h : applyUpdate tab j src lk = some (j', applied)) :
    applied = src ∧ j'.lv = lastVer src 0 ∧ (∀ e ∈ src, e.ver ≤ j'.cur) ∧ JInv j' := by
  have hk : keptOf tab j src = src := by simp [keptOf, hc]
  have hinv := applyUpdate_inv tab j j' src applied lk hi h
  unfold applyUpdate at h
  rw [if_neg (by simpa using hne), hk] at h
  split at h
  · simp at h
  · rename_i j1 h1
    injection h with h; injection h with h2 h3; subst h2; subst h3
    obtain ⟨_, _, a1, _, _⟩ := addAll_inv _ j j1 hi h1
    exact ⟨rfl, rfl, fun e he => (a1 e he).2, hinv.1⟩

/-! ## I. non-vacuity, and the defect of the pinned code -/

def x_ : Name := [120]
def y_ : Name := [121]
def sA1 : SEv := { typ := 0, id := 1, name := x_, ver := 1 }   -- create A "x"
def sA2 : SEv := { typ := 0, id := 1, name := y_, ver := 2 }   -- rename A -> "y"
def sB3 : SEv := { typ := 0, id := 2, name := x_, ver := 3 }   -- create B "x" (reuse of the freed name)
def sA4 : SEv := { typ := 0, id := 1, name := y_, ver := 4 }   -- edit A
def wH : List SEv := [sA1, sA2, sB3, sA4]

def iev (s : SEv) : IEv := { typ := s.typ, id := s.id, name := s.name, ver := s.ver, ok := true, dis := false }

/-- the replica saw A as "x", then receives the latest-only diff [B@3, A@4] -/
def wBatches : List (List Int × List IEv) := [([], [iev sA1]), ([], [iev sB3, iev sA4])]

/-- the witness history satisfies the source guarantee (hypothesis `hU` of `lookup_by_name_current` is satisfiable
    by a history with a rename and a reuse of the freed name) -/
theorem wH_unique : UniqueNames wH := by
  intro v e1 e2 l1 l2 _ hn
  have m1 := l1.1
  have m2 := l2.1
  simp only [wH, List.mem_cons, List.not_mem_nil, or_false] at m1 m2
  have c1 := l1.2.2 sA2 (by simp [wH])
  have c2 := l2.2.2 sA2 (by simp [wH])
  have b1 := l1.2.1
  have b2 := l2.2.1
  rcases m1 with rfl | rfl | rfl | rfl <;> rcases m2 with rfl | rfl | rfl | rfl <;>
    first
    | rfl
    | (exfalso; revert hn; decide)
    | (exfalso; have := c1 rfl rfl; simp [sA1, sA2, sB3] at this b1 b2; omega)
    | (exfalso; have := c2 rfl rfl; simp [sA1, sA2, sB3] at this b1 b2; omega)

example : (∀ e ∈ allEvents wBatches, srcOf e ∈ wH) ∧ (∀ e ∈ allEvents wBatches, 0 < e.ver) ∧
    (allEvents wBatches).Pairwise (fun a b => a.ver < b.ver) := by decide

/-- B holds "x" at the source from version 3 on -/
example : Stable wH 0 2 x_ 3 := by
  intro e he _ hid _
  simp only [wH, List.mem_cons, List.not_mem_nil, or_false] at he
  rcases he with rfl | rfl | rfl | rfl <;> first | rfl | (exfalso; revert hid; decide)

/-- fixed code: B is found under "x", A under "y" -/
example : aget (applyTied .fixed MetaIndex.init wBatches).metrics.byName x_ = some { id := 2, name := x_, ver := 3, grp := -4 } := by decide
example : aget (applyTied .fixed MetaIndex.init wBatches).metrics.byName y_ = some { id := 1, name := y_, ver := 4, grp := -4 } := by decide

/-- DEFECT of the pinned code (`Variant.orig`): the replica holds B in its latest version under the name B holds at the
    source, yet the lookup of that name finds nothing — the conclusion of `lookup_by_name_current` is false for
    `.orig` on a history that satisfies all its hypotheses. -/
example : aget (applyTied .orig MetaIndex.init wBatches).metrics.byId 2 = some { id := 2, name := x_, ver := 3, grp := -4 } ∧
    aget (applyTied .orig MetaIndex.init wBatches).metrics.byName x_ = none := by decide

/-- non-vacuity for the journal theorems: a reachable journal with a replaced entry -/
def tabW : Nat → Content := fun k =>
  { typ := 0, id := if k < 2 then 1 else 2, name := [], dlen := 0, sz := 40, hash := 1000 + k, ok := true, dis := false, t := k, c := some k }

example : ∃ j, addAll {} [mkEntry tabW 1 0, mkEntry tabW 2 2, mkEntry tabW 5 1] = some j ∧
    j.entries.map (·.ver) = [2, 5] ∧ j.hash = 1002 ^^^ 1001 ∧ j.cur = 5 := by
  exact ⟨_, rfl, by decide, by decide, rfl⟩

example : (diff { entries := [mkEntry tabW 2 2, mkEntry tabW 5 1], cur := 5 } 0 1 1000).map (·.ver) = [2] := by decide

/-- non-vacuity for the group theorem: "ab" wins over "a" for metric "abc", order of arrival irrelevant -/
example : calcGroup (sortGroups [] [{ id := 7, name := [97], ver := 1 }, { id := 8, name := [97, 98], ver := 2 }]) [97, 98, 99] = 8 := by decide

/-! ## J. convergence of a replica under every schedule (SH/Lemmas/JournalConv.lean) -/

/-- C20 (replicas converge). One hop of the chain: an upstream journal that only grows (the source — or any journal
    that is never rolled back) and a replica of either kind with its journal file. For EVERY schedule of upstream
    edits, deliveries (any item / byte limits, cut anywhere), `Save()` and restarts from the file truncated at any byte
    offset, as long as the Go code does not panic (`runW … = some w`; it cannot, see `conv_deliver`/`add` — versions
    handed over are above currentVersion):
      * both journals keep one entry per entity, ascending, state hash = xor of entry hashes (`WInv.jU/jR`),
      * the replica is complete up to its loaderVersion and holds nothing foreign (`WInv.conv`),
      * and whenever the replica's loaderVersion has reached the upstream version: the replica holds exactly the
        upstream's entities that compaction does not discard, each with the content `storedAs` gives for the upstream's
        latest version (transported; compacted for compact journals), with the upstream's version when the replica is
        not compact (a compact replica may keep the older version whose compact form is identical). -/
theorem converges (tab : Nat → Content) (c : Bool) (hT : TabOK tab c) (ops : List Op) (w : W)
    (h : runW tab { R := { compact := c } } ops = some w) :
    WInv tab w ∧ w.R.compact = c ∧
    (w.U.cur ≤ w.R.lv →
      (∀ u ∈ w.U.entries, ∀ f, storedAs tab c u.k = some f →
          ∃ r ∈ w.R.entries, sameKey r u = true ∧ r.k = f ∧ r.ver ≤ u.ver ∧ (c = false → r.ver = u.ver)) ∧
      (∀ r ∈ w.R.entries, ∃ u ∈ w.U.entries, sameKey r u = true ∧ storedAs tab c u.k = some r.k)) := by
  obtain ⟨hi, hc⟩ := runW_inv tab ops _ w hT (winv_init tab c) h
  simp only at hc
  refine ⟨hi, hc, ?_⟩
  intro hs
  have := synced_contents tab w.R w.U hi.conv hi.jR hi.jU hs
  rw [hc] at this
  exact this

/-- C20 (replicas of the same journal end with identical state hashes). Two replicas of the same kind, each with its
    own schedule of deliveries, saves and truncated restarts, over the same upstream history: whenever both have caught
    up with the upstream journal their state hashes are equal. -/
theorem replicas_same_hash (tab : Nat → Content) (c : Bool) (hT : TabOK tab c) (ops1 ops2 : List Op) (w1 w2 : W)
    (h1 : runW tab { R := { compact := c } } ops1 = some w1) (h2 : runW tab { R := { compact := c } } ops2 = some w2)
    (hU : w1.U = w2.U) (s1 : w1.U.cur ≤ w1.R.lv) (s2 : w2.U.cur ≤ w2.R.lv) : w1.R.hash = w2.R.hash := by
  obtain ⟨i1, c1⟩ := runW_inv tab ops1 _ w1 hT (winv_init tab c) h1
  obtain ⟨i2, c2⟩ := runW_inv tab ops2 _ w2 hT (winv_init tab c) h2
  have conv2 := i2.conv
  rw [← hU] at conv2 s2
  exact synced_same_hash tab w1.R w2.R w1.U i1.conv conv2 i1.jR i2.jR i1.jU (c1.trans c2.symm) s1 s2

/-
  A replica whose *upstream itself* is rolled back (an agent behind an aggregator that restarts from an old or truncated
  file) is outside `converges`; it is section K: proved relative to the source for chains without the compaction skip
  (`two_hop_converges_no_skip`), and FALSE of the code for a compact aggregator
  (`two_hop_compact_rollback_counterexample`, known finding).
-/

/-- the observed functions of the witness table satisfy `TabOK` for both kinds (hypothesis of `converges` is satisfiable) -/
theorem tabW_ok (c : Bool) : TabOK tabW c := by
  refine ⟨?_, ?_, ?_, ?_⟩
  · intro k f h; cases c <;> simp [storedAs, tabW] at h <;> subst h <;> exact ⟨rfl, rfl⟩
  · intro k; exact ⟨rfl, rfl⟩
  · intro k k' _ _; cases c <;> simp [storedAs, tabW]
  · intro k; simp [tabW]

/-- a schedule with a limited delivery, a save, a later edit of a delivered entity, a restart from a file cut inside
    its only chunk (everything is lost) and re-delivery: the replica catches up and `converges` applies -/
def wOps : List Op :=
  [.upAdd 1 0, .upAdd 2 2, .deliver 1 1000 5, .save, .upAdd 5 1, .restart 30, .deliver 1000 100000 100]

example : ∃ w, runW tabW { R := { compact := true } } wOps = some w ∧ w.U.cur ≤ w.R.lv ∧
    w.R.entries.map (fun e => (e.ver, e.k)) = [(2, 2), (5, 1)] ∧ w.R.hash = w.U.hash := by
  refine ⟨_, rfl, by decide, by decide, by decide⟩

/-- the same upstream history, another schedule (no restart, one-item deliveries): same hash, as `replicas_same_hash` says -/
example : ∃ w, runW tabW { R := { compact := true } }
      [.upAdd 1 0, .deliver 1 1 1, .upAdd 2 2, .upAdd 5 1, .deliver 1 1 1, .save, .restart 1000, .deliver 1 1 1] = some w ∧
    w.U.cur ≤ w.R.lv ∧ w.R.hash = 1002 ^^^ 1001 := by
  refine ⟨_, rfl, by decide, by decide⟩

/-! ## H2. groupsOrdered is the set of enabled user groups after EVERY batch -/

def KeysNodup (l : List (Int × Ent)) : Prop := (l.map (·.1)).Nodup

theorem aset_keys (l : List (Int × Ent)) (k : Int) (v : Ent) :
    (aset l k v).map (·.1) = if k ∈ l.map (·.1) then l.map (·.1) else l.map (·.1) ++ [k] := by
  induction l with
  | nil => simp [aset]
  | cons p r ih =>
    obtain ⟨k0, v0⟩ := p
    by_cases h0 : k0 = k
    · subst h0; simp [aset]
    · have hne : ¬ k = k0 := fun h => h0 h.symm
      simp only [aset, h0, if_false, List.map_cons, List.mem_cons, hne, false_or, ih]
      split <;> simp

theorem aset_nodup (l : List (Int × Ent)) (k : Int) (v : Ent) (h : KeysNodup l) : KeysNodup (aset l k v) := by
  unfold KeysNodup at *
  rw [aset_keys]
  split
  · exact h
  · rename_i hk
    exact List.nodup_append.mpr ⟨h, by simp, by intro a ha b hb; simp at hb; subst hb; intro hab; subst hab; exact hk ha⟩

theorem aget_of_mem (l : List (Int × Ent)) (k : Int) (v : Ent) (hn : KeysNodup l) (hm : (k, v) ∈ l) : aget l k = some v := by
  induction l with
  | nil => simp at hm
  | cons p r ih =>
    obtain ⟨k0, v0⟩ := p
    unfold KeysNodup at hn
    simp only [List.map_cons, List.nodup_cons] at hn
    rcases List.mem_cons.mp hm with h | h
    · injection h with h1 h2; subst h1; subst h2; simp [aget]
    · have hk : k0 ≠ k := by
        intro he; subst he
        exact hn.1 (List.mem_map.mpr ⟨(k0, v), h, rfl⟩)
      simp only [aget, hk, if_false]
      exact ih hn.2 h

/-- the key invariant of groupsByID: keys are the ids, no key twice -/
def GK (st : Store) : Prop := KeysNodup st.groups.byId ∧ ∀ id g, aget st.groups.byId id = some g → g.id = id

/-- groupsOrdered = the enabled user groups (as (id, name) pairs; the stored copies may be older versions) -/
def GOrd (st : Store) : Prop :=
  (∀ g ∈ st.ordered, userEnabled g = true ∧
      ∃ g', aget st.groups.byId g.id = some g' ∧ g'.name = g.name ∧ userEnabled g' = true) ∧
  (∀ id g', aget st.groups.byId id = some g' → userEnabled g' = true → ∃ g ∈ st.ordered, g.id = id ∧ g.name = g'.name)

theorem groupChanged_false (st : Store) (e : IEv) (h : groupChanged st e = false) :
    ∃ old, aget st.groups.byId e.id = some old ∧ old.name = e.name ∧ old.dis = e.dis := by
  unfold groupChanged at h
  split at h
  · rename_i old ho
    simp at h
    exact ⟨old, ho, h.1, h.2⟩
  · simp at h

theorem gk_applyOne (v : Variant) (s : Store × Bool) (e : IEv) (h : GK s.1) : GK (applyOne v s e).1 := by
  unfold applyOne
  split
  · exact h
  · split
    · exact h
    · split
      · simp only [applyGroup, upsert, put, GK, renameOut_byId]
        refine ⟨aset_nodup _ _ _ h.1, ?_⟩
        intro id g hg
        by_cases hid : id = e.id
        · subst hid; rw [get_set_same] at hg; injection hg with hg; rw [← hg]
        · rw [get_set_other _ _ _ _ hid] at hg; exact h.2 id g hg
      · split
        · exact h
        · exact h

theorem gord_applyOne (v : Variant) (s : Store × Bool) (e : IEv) (hk : GK s.1) (h : s.2 = false → GOrd s.1) :
    (applyOne v s e).2 = false → GOrd (applyOne v s e).1 := by
  unfold applyOne
  split
  · exact h
  · split
    · intro h2; exact h h2
    · split
      · intro h2
        simp only [Bool.or_eq_false_iff] at h2
        obtain ⟨old, ho, hn, hd⟩ := groupChanged_false s.1 e h2.2
        have hg := h h2.1
        have hoid := hk.2 e.id old ho
        have hen : userEnabled ({ id := e.id, name := e.name, ver := e.ver, dis := e.dis } : Ent) = userEnabled old := by
          simp [userEnabled, hoid, hd]
        simp only [GOrd, applyGroup, upsert, put, renameOut_byId]
        refine ⟨?_, ?_⟩
        · intro g hgm
          obtain ⟨a, g', b1, b2, b3⟩ := hg.1 g hgm
          refine ⟨a, ?_⟩
          by_cases hid : g.id = e.id
          · rw [hid, get_set_same]
            rw [hid, ho] at b1; injection b1 with b1; subst b1
            exact ⟨_, rfl, by simp only; rw [← hn]; exact b2, by rw [hen]; exact b3⟩
          · rw [get_set_other _ _ _ _ hid]; exact ⟨g', b1, b2, b3⟩
        · intro id g' hg' hen'
          by_cases hid : id = e.id
          · subst hid
            rw [get_set_same] at hg'; injection hg' with hg'; subst hg'
            obtain ⟨g, c1, c2, c3⟩ := hg.2 e.id old ho (by rw [← hen]; exact hen')
            exact ⟨g, c1, c2, by simp only; rw [c3, hn]⟩
          · rw [get_set_other _ _ _ _ hid] at hg'; exact hg.2 id g' hg' hen'
      · split
        · intro h2; exact h h2
        · exact h

theorem gord_rebuild (v : Variant) (tie : List Int) (st : Store) (hk : GK st) : GOrd (rebuild v tie st) := by
  obtain ⟨_, hmem, _⟩ := rebuild_groups v tie st
  have hgr : (rebuild v tie st).groups = st.groups := by cases v <;> rfl
  simp only [GOrd, hgr]
  refine ⟨?_, ?_⟩
  · intro g hg
    obtain ⟨h1, h2⟩ := (hmem g).mp hg
    obtain ⟨p, hp, rfl⟩ := List.mem_map.mp h1
    have := aget_of_mem _ p.1 p.2 hk.1 hp
    have hid := hk.2 p.1 p.2 this
    exact ⟨h2, p.2, by rw [hid]; exact this, rfl, h2⟩
  · intro id g' hg' hen
    have hm := aget_mem _ _ _ hg'
    exact ⟨g', (hmem g').mpr ⟨List.mem_map.mpr ⟨(id, g'), hm, rfl⟩, hen⟩, hk.2 id g' hg', rfl⟩

theorem gk_init : GK MetaIndex.init := by
  refine ⟨by simp [KeysNodup, MetaIndex.init, SH.Gen.C20.builtinGroups], ?_⟩
  exact (sinv_init []).g.key

/-- C20 (groups, every batch): after ANY sequence of ApplyEvent calls — also those that end without a regrouping pass —
    groupsOrdered is name-descending and is exactly the set of enabled user groups of groupsByID (same ids and names;
    the stored copies can be older versions of the same group, which is all `calcGroupForMetricLocked` reads). With
    `group_assignment` and `calcGroup_longest_prefix`: every metric's group is the enabled user group with the longest
    name that is a prefix of the metric's name, at every batch boundary, for both code variants. -/
theorem groups_ordered_every_batch (v : Variant) (bs : List (List Int × List IEv)) :
    let st := applyTied v MetaIndex.init bs
    Desc st.ordered ∧ GOrd st := by
  intro st
  refine ⟨(group_assignment v bs).1, ?_⟩
  have fold : ∀ (evs : List IEv) (s : Store × Bool), GK s.1 → (s.2 = false → GOrd s.1) →
      GK (evs.foldl (applyOne v) s).1 ∧ ((evs.foldl (applyOne v) s).2 = false → GOrd (evs.foldl (applyOne v) s).1) := by
    intro evs
    induction evs with
    | nil => intro s a b; exact ⟨a, b⟩
    | cons e r ih => intro s a b; exact ih _ (gk_applyOne v s e a) (gord_applyOne v s e a b)
  have batch : ∀ (tie : List Int) (st0 : Store) (evs : List IEv), GK st0 → GOrd st0 →
      GK (applyBatch v tie st0 evs) ∧ GOrd (applyBatch v tie st0 evs) := by
    intro tie st0 evs a b
    obtain ⟨c, d⟩ := fold evs (st0, false) a (fun _ => b)
    unfold applyBatch finish
    split
    · have hgr : (rebuild v tie (evs.foldl (applyOne v) (st0, false)).1).groups
          = (evs.foldl (applyOne v) (st0, false)).1.groups := by cases v <;> rfl
      exact ⟨by simp only [GK, hgr]; exact c, gord_rebuild v tie _ c⟩
    · rename_i hch
      exact ⟨c, d (by simpa using hch)⟩
  have all : ∀ (bs : List (List Int × List IEv)) (st0 : Store), GK st0 → GOrd st0 →
      GOrd (applyTied v st0 bs) := by
    intro bs
    induction bs with
    | nil => intro st0 _ b; exact b
    | cons b r ih =>
      intro st0 a c
      obtain ⟨a', c'⟩ := batch b.1 st0 b.2 a c
      exact ih _ a' c'
  refine all bs MetaIndex.init gk_init ⟨by intro g hg; simp [MetaIndex.init] at hg, ?_⟩
  intro id g' hg' hen
  exfalso
  have hm := aget_mem _ _ _ hg'
  simp [MetaIndex.init, SH.Gen.C20.builtinGroups] at hm
  rcases hm with ⟨rfl, rfl⟩ | ⟨rfl, rfl⟩ | ⟨rfl, rfl⟩ <;> simp [userEnabled] at hen


/-- non-vacuity / the case the first-round theorem did not cover: the second batch edits group 7 without changing its
    name or its disable flag, so no regrouping pass runs, and groupsOrdered still lists exactly the enabled user group -/
example :
    let st := applyTied .fixed MetaIndex.init
      [([], [{ typ := 2, id := 7, name := [97], ver := 1, ok := true, dis := false }]),
       ([], [{ typ := 2, id := 7, name := [97], ver := 2, ok := true, dis := false },
             { typ := 0, id := 1, name := [97, 98], ver := 3, ok := true, dis := false }])]
    st.ordered.map (fun g => (g.id, g.ver)) = [(7, 1)] ∧ (aget st.groups.byId 7).map (·.ver) = some 2 ∧
    (aget st.metrics.byId 1).map (·.grp) = some 7 := by decide

/-! ## C2. what the source guarantees: the name is free *at the moment of the edit* — renames and reuse of freed
    names are allowed -/

/-- histories a name-checking source (the metadata engine's UNIQUE(type, name)) can produce: events come with increasing
    versions, and an event is accepted iff, at that moment, no OTHER entity of the type holds the name. A name that was
    freed by a rename may be taken by anybody afterwards. -/
inductive Valid : List SEv → Prop
  | nil : Valid []
  | snoc (H : List SEv) (e : SEv) : Valid H → (∀ e' ∈ H, e'.ver < e.ver) →
      (∀ e2, Latest H e2 e.ver → e2.typ = e.typ → e2.name = e.name → e2.id = e.id) → Valid (H ++ [e])

theorem latest_before (H : List SEv) (e x : SEv) (v : Int) (hv : v < e.ver) (h : Latest (H ++ [e]) x v) : Latest H x v := by
  obtain ⟨h1, h2, h3⟩ := h
  have hx : x ∈ H := by
    rcases List.mem_append.mp h1 with a | a
    · exact a
    · simp at a; subst a; omega
  exact ⟨hx, h2, fun e' he' => h3 e' (List.mem_append_left _ he')⟩

theorem latest_after (H : List SEv) (e x : SEv) (v : Int) (hnew : ∀ e' ∈ H, e'.ver < e.ver) (hv : e.ver ≤ v)
    (h : Latest (H ++ [e]) x v) : x = e ∨ Latest H x e.ver := by
  obtain ⟨h1, h2, h3⟩ := h
  rcases List.mem_append.mp h1 with a | a
  · right
    have := hnew x a
    refine ⟨a, by omega, ?_⟩
    intro e' he' t1 t2 _
    exact h3 e' (List.mem_append_left _ he') t1 t2 (by have := hnew e' he'; omega)
  · left; simpa using a

/-- a source that checks the name at each edit never has two holders of a name at any version -/
theorem valid_unique (H : List SEv) (h : Valid H) : UniqueNames H := by
  induction h with
  | nil => intro v e1 e2 l1; exact absurd l1.1 (by simp)
  | snoc H e _ hnew hacc ih =>
    intro v e1 e2 l1 l2 ht hn
    by_cases hv : v < e.ver
    · exact ih v e1 e2 (latest_before H e e1 v hv l1) (latest_before H e e2 v hv l2) ht hn
    · have hv' : e.ver ≤ v := by omega
      rcases latest_after H e e1 v hnew hv' l1 with h1 | a1 <;>
        rcases latest_after H e e2 v hnew hv' l2 with h2 | a2
      · rw [h1, h2]
      · rw [h1] at ht hn ⊢; exact (hacc e2 a2 ht.symm hn.symm).symm
      · rw [h2] at ht hn ⊢; exact hacc e1 a1 ht hn
      · exact ih e.ver e1 e2 a1 a2 ht hn

/-- C20 (name lookups, stated for every history a name-checking source can produce — renames and reuse of freed names
    included): same conclusion as `lookup_by_name_current`. -/
theorem lookup_by_name_checked_source (H : List SEv) (hV : Valid H) (bs : List (List Int × List IEv))
    (hsub : ∀ e ∈ allEvents bs, srcOf e ∈ H) (hpos : ∀ e ∈ allEvents bs, 0 < e.ver)
    (hinc : (allEvents bs).Pairwise (fun a b => a.ver < b.ver)) :
    let st := applyTied .fixed MetaIndex.init bs
    (∀ m, aget st.metrics.byId m.id = some m → 0 < m.ver → Stable H SH.Gen.C20.metricEvent m.id m.name m.ver →
        aget st.metrics.byName m.name = some m) ∧
    (∀ g, aget st.groups.byId g.id = some g → 0 < g.ver → Stable H SH.Gen.C20.metricsGroupEvent g.id g.name g.ver →
        aget st.groups.byName g.name = some g) ∧
    (∀ n, aget st.nss.byId n.id = some n → 0 < n.ver → Stable H SH.Gen.C20.namespaceEvent n.id n.name n.ver →
        aget st.nss.byName n.name = some n) ∧
    I1 st.metrics ∧ I1 st.groups ∧ I1 st.nss :=
  lookup_by_name_current H (valid_unique H hV) bs hsub hpos hinc

/-- the reuse history of the defect (A "x", A → "y", B takes the freed "x", A edited) is such a history -/
theorem wH_valid : Valid wH := by
  have e0 : wH = ((([] ++ [sA1]) ++ [sA2]) ++ [sB3]) ++ [sA4] := rfl
  rw [e0]
  refine Valid.snoc _ _ (Valid.snoc _ _ (Valid.snoc _ _ (Valid.snoc _ _ Valid.nil ?_ ?_) ?_ ?_) ?_ ?_) ?_ ?_
  · intro e' he'; simp at he'
  · intro e2 l; exact absurd l.1 (by simp)
  · decide
  · intro e2 l _ hn
    have := l.1; simp at this; subst this; revert hn; decide
  · decide
  · intro e2 l _ hn
    have hm := l.1
    simp at hm
    rcases hm with rfl | rfl
    · exfalso
      have := l.2.2 sA2 (by simp) rfl rfl (by decide)
      revert this; decide
    · revert hn; decide
  · decide
  · intro e2 l _ hn
    have hm := l.1
    simp at hm
    rcases hm with rfl | rfl | rfl
    · revert hn; decide
    · rfl
    · revert hn; decide

/-- …so the theorem applies to it: on the fixed code the replica that saw A as "x" and then receives [B@3, A@4] finds B
    under "x" (derived from the theorem, not by evaluation) -/
theorem lookup_after_reuse :
    aget (applyTied .fixed MetaIndex.init wBatches).metrics.byName x_ = some { id := 2, name := x_, ver := 3, grp := -4 } := by
  have h := (lookup_by_name_checked_source wH wH_valid wBatches (by decide) (by decide) (by decide)).1
    { id := 2, name := x_, ver := 3, grp := -4 } (by decide) (by decide)
  apply h
  intro e he _ hid _
  simp only [wH, List.mem_cons, List.not_mem_nil, or_false] at he
  rcases he with rfl | rfl | rfl | rfl <;> first | rfl | (exfalso; revert hid; decide)


/-! ## K. two hops, the aggregator may be rolled back (SH/Lemmas/JournalChain.lean) -/

/-- C20 (two hops, relative to the SOURCE, aggregator restarts allowed) — for chains without the compaction skip.
    Source S → aggregator A → agent G, both replicas non-compact. EVERY schedule of source edits, deliveries on either hop
    (any limits, any cut), saves and restarts of EITHER replica from an old and / or truncated file — so the agent can be
    ahead of a rolled-back aggregator, and `getJournalDiffLocked3` is then asked for a version above the aggregator's own
    (it answers with nothing and the agent waits; nothing is skipped later). Whenever the agent's loaderVersion has
    reached the source's version, the agent holds exactly the source's current entities, each transported twice, with the
    source's version (and the same for the aggregator with one transport). -/
theorem two_hop_converges_no_skip (tab : Nat → Content)
    (hkey : ∀ k, (tab (tab k).t).typ = (tab k).typ ∧ (tab (tab k).t).id = (tab k).id) (hsz : ∀ k, 0 < (tab k).sz)
    (ops : List Op2) (w : W2) (h : run2 tab {} ops = some w) :
    (w.S.cur ≤ w.G.lv → ∀ r, r ∈ w.G.entries ↔ ∃ s ∈ w.S.entries, r = img tab 2 s) ∧
    (w.S.cur ≤ w.A.lv → ∀ r, r ∈ w.A.entries ↔ ∃ s ∈ w.S.entries, r = img tab 1 s) ∧
    JInv w.G ∧ JInv w.A := by
  obtain ⟨H, hS, hA, _, hG, _⟩ := run2_inv tab hkey hsz ops {} w (inv2_init tab) h
  exact ⟨fun hs => chain_synced tab hkey 2 _ _ H hS hG hs, fun hs => chain_synced tab hkey 1 _ _ H hS hA hs,
    hG.jx.inv, hA.jx.inv⟩

/-- …and two agents (of possibly different aggregators, with different rollback histories) over the same source
    journal have equal state hashes whenever both have caught up with the source -/
theorem two_hop_agents_same_hash (tab : Nat → Content)
    (hkey : ∀ k, (tab (tab k).t).typ = (tab k).typ ∧ (tab (tab k).t).id = (tab k).id) (hsz : ∀ k, 0 < (tab k).sz)
    (ops1 ops2 : List Op2) (w1 w2 : W2) (h1 : run2 tab {} ops1 = some w1) (h2 : run2 tab {} ops2 = some w2)
    (hS : w1.S = w2.S) (s1 : w1.S.cur ≤ w1.G.lv) (s2 : w2.S.cur ≤ w2.G.lv) : w1.G.hash = w2.G.hash := by
  obtain ⟨c1, _, j1, _⟩ := two_hop_converges_no_skip tab hkey hsz ops1 w1 h1
  obtain ⟨c2, _, j2, _⟩ := two_hop_converges_no_skip tab hkey hsz ops2 w2 h2
  have e1 := c1 s1
  have e2 := c2 s2
  rw [← hS] at e2
  rw [j1.hash, j2.hash]
  apply xorAll_match _ _ j1.keys j2.keys
  · intro x hx; exact ⟨x, (e2 x).mpr ((e1 x).mp hx), sameKey_refl x, rfl⟩
  · intro y hy; exact ⟨y, (e1 y).mpr ((e2 y).mp hy), sameKey_refl y, rfl⟩

/-- The witness table: entity X (contents 0, 1, 2 — three source versions; 0 and 2 have the SAME compact form 10, 1 has
    compact form 11) and entity Y (content 3, compact form 13). Transport is the identity. -/
def tabK : Nat → Content := fun k =>
  { typ := 0, id := if k = 3 ∨ k = 13 then 2 else 1, name := [], dlen := 0, sz := 40, hash := 1000 + k, ok := true, dis := false,
    t := k, c := some (if k = 0 ∨ k = 2 then 10 else if k = 1 then 11 else if k = 3 then 13 else k) }

/-- the schedule of the finding: X@1 reaches the aggregator, which saves; X@2 (different compact form) reaches aggregator and
    agent; X@3 returns to the first form; the aggregator restarts from its (old) file, receives X@3; Y@4 lifts all versions -/
def rollbackOps : List Op2 :=
  [.src 1 0, .deliverA 1000 100000 100, .saveA, .src 2 1, .deliverA 1000 100000 100, .deliverG 1000 100000 100,
   .src 3 2, .restartA 100000, .deliverA 1000 100000 100, .src 4 3, .deliverA 1000 100000 100, .deliverG 1000 100000 100]

/-- non-vacuity of `two_hop_converges_no_skip` on exactly that schedule: with a non-compact aggregator the agent is
    transiently ahead of the rolled-back aggregator (checked: after `restartA`, A.cur = 1 < G.lv = 2) and ends with X@3 -/
example : ∃ w, run2 tabK {} rollbackOps = some w ∧ w.S.cur ≤ w.G.lv ∧
    w.G.entries.map (fun e => (e.ver, e.k)) = [(3, 2), (4, 3)] := ⟨_, rfl, by decide, by decide⟩

example : ∃ w, run2 tabK {} (rollbackOps.take 8) = some w ∧ w.A.cur = 1 ∧ w.G.lv = 2 := ⟨_, rfl, by decide, by decide⟩

/-- FINDING (the code as it is, compact aggregator): the same schedule. The restarted aggregator holds X@1 (compact form
    10) again; X@3 has compact form 10 too, so `applyUpdate` skips it as unchanged and keeps version 1, which is below the
    agent's loaderVersion 2: the agent is never sent it. At the end everybody is synced (G.lv = S.cur = 4 = A.cur) and
    the aggregator holds the stored form of the source's latest X (10), but the agent still holds the intermediate form 11
    and its hash differs from the aggregator's: the two-hop convergence statement is FALSE for compact aggregators that
    restart from an older file. (Replayed on the real chain by `verif-c20 -mode=witness`, case 5; known_findings.txt:
    sig=agent-ahead-of-rolled-back-compact-upstream.) -/
theorem two_hop_compact_rollback_counterexample :
    ∃ w, run2 tabK { A := { compact := true } } rollbackOps = some w ∧
      w.S.cur ≤ w.G.lv ∧ w.S.cur ≤ w.A.lv ∧ w.A.cur ≤ w.G.lv ∧
      w.S.entries.map (fun e => (e.ver, e.k)) = [(3, 2), (4, 3)] ∧
      w.A.entries.map (fun e => (e.ver, e.k)) = [(1, 10), (4, 13)] ∧
      w.G.entries.map (fun e => (e.ver, e.k)) = [(2, 11), (4, 13)] ∧
      w.G.hash ≠ w.A.hash :=
  ⟨_, rfl, by decide, by decide, by decide, by decide, by decide, by decide, by decide⟩

/-- the compact aggregator alone is fine in that run (one hop, `converges`): it holds storedAs of the source's latest -/
example : storedAs tabK true 2 = some 10 ∧ storedAs tabK true 3 = some 13 := by decide

/-! ## L. reload of a file cut exactly at a chunk boundary -/

/-- C20 (reload at chunk granularity — the statement `sf_load` needs, tied to `load` on chunk-boundary cuts). A file
    written by `save` and cut at ANY byte offset — in particular exactly at a chunk boundary, where `load` sees no error
    (`load_err_iff_tail`) — is reloaded into a journal that (1) is `Faithful` up to the loaderVersion it reports, and
    (2) whenever events of the saved journal are missing from what was read, reports as loaderVersion the version of the
    last event read, not the header's. -/
theorem load_any_cut (tab : Nat → Content) (hsz : ∀ k, 0 < (tab k).sz) (d : Nat) (Rs S R' : J) (H : List Entry) (keep : Nat)
    (bs : List (List Entry)) (err : Bool) (hRs : Rep tab d Rs S H)
    (hl : load false (truncate (saveFile Rs) keep) = some (R', bs, err)) :
    Rep tab d R' S H ∧ err = decide ((truncate (saveFile Rs) keep).tail ≠ 0) ∧
    ((((truncate (saveFile Rs) keep).chunks.map (·.evs)).flatten ≠ Rs.entries) → R'.lv = R'.cur) := by
  have hf := filesf_truncate tab d _ S H keep (filesf_save tab hsz d Rs S H hRs)
  refine ⟨sf_load tab d _ S R' H bs err hf hl, load_err_iff_tail _ _ _ _ _ hl, ?_⟩
  intro hstrict
  have hsaved : ((saveFile Rs).chunks.map (·.evs)).flatten = Rs.entries := by
    have : ∀ e ∈ Rs.entries, 0 < e.sz := by
      intro e he
      obtain ⟨h, _, rfl⟩ := hRs.fa.f2 e he
      simp only [img, mkEntry]; exact hsz _
    have := packChunks_flatten Rs.entries headerBytes [] (by simp [headerBytes]) this
    simp only [saveFile]; rw [this]; simp
  have hpre : ((truncate (saveFile Rs) keep).chunks.map (·.evs)).flatten <+: Rs.entries := by
    rw [← hsaved]; exact flatten_prefix _ _ (truncate_keeps_prefix _ keep)
  have hcur : (truncate (saveFile Rs) keep).cur = Rs.cur := by
    unfold truncate; split <;> rfl
  exact load_strict_prefix_lv false _ Rs R' bs err hRs.jx hpre hstrict hcur hl

/-- non-vacuity: a journal of three 300000-byte entries is saved as two chunks (ends 600040 and 900064); cut exactly at
    the first boundary it reads back without error, holds the first two entries, and reports loaderVersion 2 (the last
    event read), not the header's 7 -/
def tabBig : Nat → Content := fun k =>
  { typ := 0, id := k, name := [], dlen := 0, sz := 300000, hash := 1000 + k, ok := true, dis := false, t := k, c := some k }
def jBig : J :=
  { entries := [mkEntry tabBig 1 1, mkEntry tabBig 2 2, mkEntry tabBig 3 3], hash := 1001 ^^^ 1002 ^^^ 1003, cur := 3, lv := 7 }

example : (saveFile jBig).chunks.map (·.size) = [600040, 300024] := by decide
example : ∃ R bs, load false (truncate (saveFile jBig) 600040) = some (R, bs, false) ∧
    R.entries.map (·.ver) = [1, 2] ∧ R.cur = 2 ∧ R.lv = 2 := ⟨_, _, rfl, by decide, by decide, by decide⟩
/-- uncut, the header is believed -/
example : ∃ R bs, load false (saveFile jBig) = some (R, bs, false) ∧ R.cur = 3 ∧ R.lv = 7 := ⟨_, _, rfl, by decide, by decide⟩

/-! ## M. the compact form is modelled (SH.Model.CompactMetric), not an observed input -/

theorem clearTag_idem (t : Tag) : clearTag (clearTag t) = clearTag t := rfl
theorem tagKept_clear (t : Tag) : tagKept (clearTag t) = tagKept t := rfl

theorem cutTags_map_clear : ∀ l : List Tag, cutTags (l.map clearTag) = (cutTags l).map clearTag := by
  intro l
  induction l with
  | nil => rfl
  | cons t r ih =>
    simp only [List.map_cons, cutTags, ih]
    cases h : cutTags r with
    | nil => simp only [List.map_nil, tagKept_clear]; split <;> rename_i hk <;> simp [hk]
    | cons a b => simp

theorem cutTags_idem : ∀ l : List Tag, cutTags (cutTags l) = cutTags l := by
  intro l
  induction l with
  | nil => rfl
  | cons t r ih =>
    have e : cutTags (t :: r) = (match cutTags r with
        | [] => if tagKept t then [t] else []
        | r' => t :: r') := rfl
    rw [e]
    cases h : cutTags r with
    | nil =>
      simp only
      split
      · rename_i hk; simp [cutTags, hk]
      · rfl
    | cons a b =>
      simp only
      rw [h] at ih
      have e2 : cutTags (t :: a :: b) = (match cutTags (a :: b) with
          | [] => if tagKept t then [t] else []
          | r' => t :: r') := rfl
      rw [e2, ih]

/-- C20 (compact form): compacting a compact metric changes nothing — the compact journal of a compact journal, or a
    re-compaction after a restart, stores the same event -/
theorem compactForm_idem (name : Str) (m : MF) :
    compactForm .orig name (compactForm .orig name m) = compactForm .orig name m := by
  have hd : descOf .orig name (compactForm .orig name m) = descOf .orig name m := by
    simp only [descOf, compactForm]
    by_cases hk : keepDesc name m.desc = true
    · simp [hk]
    · have hk' : keepDesc name m.desc = false := by simpa using hk
      have hr : remoteConfigMetric name = false := by
        simp only [keepDesc, Bool.or_eq_false_iff] at hk'; exact hk'.1
      have : keepDesc name [] = false := by
        simp only [keepDesc, hr, Bool.false_or]; decide
      simp [hk', this]
  have hkind : (if hasPercentiles (if hasPercentiles m.kind then m.kind else []) then
      (if hasPercentiles m.kind then m.kind else []) else []) = (if hasPercentiles m.kind then m.kind else []) := by
    by_cases hp : hasPercentiles m.kind = true
    · simp [hp]
    · have : hasPercentiles [] = false := by decide
      simp [hp, this]
  have hw : (if normWeight (if normWeight m.weight = 1 then 0 else m.weight) = 1 then 0
      else (if normWeight m.weight = 1 then 0 else m.weight)) = (if normWeight m.weight = 1 then 0 else m.weight) := by
    by_cases h1 : normWeight m.weight = 1
    · rw [if_pos h1]; simp [normWeight]
    · simp [h1]
  have hr : (if allowedRes (if allowedRes m.res = 1 then 0 else m.res) = 1 then 0
      else (if allowedRes m.res = 1 then 0 else m.res)) = (if allowedRes m.res = 1 then 0 else m.res) := by
    by_cases h1 : allowedRes m.res = 1
    · rw [if_pos h1]; simp [allowedRes]
    · simp [h1]
  have ht : cutTags ((cutTags (m.tags.map clearTag)).map clearTag) = cutTags (m.tags.map clearTag) := by
    rw [← cutTags_map_clear, List.map_map]
    have : (clearTag ∘ clearTag) = clearTag := by funext t; rfl
    rw [this, cutTags_map_clear, cutTags_map_clear, cutTags_idem]
  have hdr : (m.drafts.map clearDraft).map clearDraft = m.drafts.map clearDraft := by
    rw [List.map_map]; rfl
  have e := hd
  simp only [descOf, compactForm] at e
  simp only [compactForm, descOf, MF.mk.injEq, and_true, true_and]
  exact ⟨e, hkind, hw, hr, ht, hdr⟩

/-- the description survives exactly for the remote-config / dump metrics and for marked descriptions -/
theorem compactForm_desc (name : Str) (m : MF) :
    (compactForm .orig name m).desc = if keepDesc name m.desc then m.desc else [] := rfl

theorem compactForm_desc_special (name : Str) (m : MF) (h : remoteConfigMetric name = true) :
    (compactForm .orig name m).desc = m.desc := by
  simp [compactForm, descOf, keepDesc, h]

/-- the compact form is determined by the kept fields: texts of tags, value comments, string-top description, pre-key
    settings, skip flags, metric type and the event-restored ids never reach it -/
theorem compactForm_ignores (v : KeepRule) (name : Str) (m : MF) (std pkt mtype vname : Str) (pkf : Nat) (a b c d : Bool) (mid ns ver : Int) :
    compactForm v name { m with std := std, pkt := pkt, pkf := pkf, skipMax := a, skipMin := b, skipSq := c, pkOnly := d, mtype := mtype, mid := mid, ns := ns, vname := vname, ver := ver } = compactForm v name m := by
  cases v <;> rfl

/-- a remote-config metric with an unmarked description (its payload) -/
def mfCfg : MF :=
  { desc := str "limit=5", kind := str "counter", weight := 1, res := 1, dis := false, stn := [], std := str "t", pkt := [], pkf := 0,
    skipMax := true, skipMin := false, skipSq := false, pkOnly := false, mtype := str "byte",
    tags := [{ name := [], desc := str "environment", raw := [], ncomm := 0 }, { name := str "k1", desc := str "c", raw := [], ncomm := 2 },
             { name := [], desc := [], raw := [], ncomm := 0 }],
    drafts := [{ key := str "d1", name := str "d1", desc := str "x", raw := [] }], mid := 7, ns := 0, vname := str "statshouse_api_remote_config", ver := 3 }

example : (compactForm .orig (str "statshouse_api_remote_config") mfCfg).desc = str "limit=5" ∧
    (compactForm .orig (str "statshouse_api_remote_config") mfCfg).tags = [{ name := [], desc := [], raw := [], ncomm := 0 }, { name := str "k1", desc := [], raw := [], ncomm := 0 }] ∧
    (compactForm .orig (str "abc") mfCfg).desc = [] ∧
    (compactForm .orig (str "abc") { mfCfg with desc := str "x __whales_off" }).desc = str "x __whales_off" := by decide

/-- SEEDED VARIANT (value.Name cleared before keepCompactMetricDescription is asked): the payload of a remote-config
    metric is lost, and two successive config edits compact to the same form (so a compact journal also skips the update) -/
example : (compactForm .seeded (str "statshouse_api_remote_config") mfCfg).desc = [] ∧
    compactForm .seeded (str "statshouse_api_remote_config") mfCfg =
      compactForm .seeded (str "statshouse_api_remote_config") { mfCfg with desc := str "limit=9" } ∧
    compactForm .orig (str "statshouse_api_remote_config") mfCfg ≠
      compactForm .orig (str "statshouse_api_remote_config") { mfCfg with desc := str "limit=9" } := by decide

/-- C20 (convergence "in compacted form", with the MODELLED compact function). `fld k` = (event name, metric fields) of
    content `k`. Hypothesis `hcf` — what a compact journal stores for `k` has the fields `compactForm` gives — is what the
    `cf` correspondence of cmd/verif-c20 checks on the real `compactJournalEvent` for every generated metric content.
    Then, for every schedule of the hop (`converges`), a caught-up compact replica holds for every entity of the upstream
    exactly `compactForm` of the upstream's latest version. -/
theorem converges_modelled_compact (tab : Nat → Content) (hT : TabOK tab true) (fld : Nat → Str × MF)
    (hcf : ∀ k f, storedAs tab true k = some f → fld f = ((fld k).1, compactForm .orig (fld k).1 (fld k).2))
    (ops : List Op) (w : W) (h : runW tab { R := { compact := true } } ops = some w) (hs : w.U.cur ≤ w.R.lv) :
    ∀ u ∈ w.U.entries, ∀ f, storedAs tab true u.k = some f →
      ∃ r ∈ w.R.entries, sameKey r u = true ∧ fld r.k = ((fld u.k).1, compactForm .orig (fld u.k).1 (fld u.k).2) := by
  intro u hu f hf
  obtain ⟨r, hr, hk, hrk, _⟩ := (converges tab true hT ops w h).2.2 hs |>.1 u hu f hf
  exact ⟨r, hr, hk, by rw [hrk]; exact hcf u.k f hf⟩


/-! ## N. two hops with a compact aggregator -/

/-- C20 (two hops, COMPACT aggregator allowed, aggregator never rolled back). Source S → aggregator A (kind `cA`) → agent G
    (kind `cG`). Every schedule of source edits, limited / cut deliveries on both hops, saves of both, restarts of the AGENT
    from an old or truncated file — but no restart of the aggregator. Whenever the aggregator has caught up with the source
    and the agent with the aggregator, the agent holds exactly the source's non-discarded entities, each in the doubly
    stored form `storedAs cG (storedAs cA ·)` of the source's latest version, and nothing else. -/
theorem two_hop_converges_compact_no_rollback (tab : Nat → Content) (cA cG : Bool) (hA : TabOK tab cA) (hG : TabOK tab cG)
    (ops : List Op2) (hno : NoRestartA ops) (w : W2)
    (h : run2 tab { A := { compact := cA }, G := { compact := cG } } ops = some w)
    (s1 : w.S.cur ≤ w.A.lv) (s2 : w.A.cur ≤ w.G.lv) :
    (∀ s ∈ w.S.entries, ∀ f1 f2, storedAs tab cA s.k = some f1 → storedAs tab cG f1 = some f2 →
        ∃ g ∈ w.G.entries, sameKey g s = true ∧ g.k = f2) ∧
    (∀ g ∈ w.G.entries, ∃ s ∈ w.S.entries, sameKey g s = true ∧
        ∃ f1, storedAs tab cA s.k = some f1 ∧ storedAs tab cG f1 = some g.k) := by
  have init : Inv2C tab { A := { compact := cA }, G := { compact := cG } } :=
    ⟨winv_init tab cA, jx_empty cG, conv_empty tab cG _ (jx_empty cA) (by intro e he; simp at he),
     fileok_empty tab cG _ (jx_empty cA) (by intro e he; simp at he)⟩
  obtain ⟨hi, cA', cG'⟩ := run2c_inv tab ops _ w hA hG hno init h
  simp only at cA' cG'
  obtain ⟨a1, b1⟩ := synced_contents tab w.A w.S hi.hop1.conv hi.hop1.jR hi.hop1.jU s1
  obtain ⟨a2, b2⟩ := synced_contents tab w.G w.A hi.conv2 hi.jG hi.hop1.jR s2
  rw [cA'] at a1 b1
  rw [cG'] at a2 b2
  refine ⟨?_, ?_⟩
  · intro s hs f1 f2 h1 h2
    obtain ⟨a, ha, ka, hak, _⟩ := a1 s hs f1 h1
    obtain ⟨g, hg, kg, hgk, _⟩ := a2 a ha f2 (by rw [hak]; exact h2)
    exact ⟨g, hg, sameKey_trans _ _ _ kg ka, hgk⟩
  · intro g hg
    obtain ⟨a, ha, kg, hga⟩ := b2 g hg
    obtain ⟨s, hs, ka, has⟩ := b1 a ha
    exact ⟨s, hs, sameKey_trans _ _ _ kg ka, a.k, has, hga⟩

/-- non-vacuity: the finding's schedule WITHOUT the aggregator restart, compact aggregator: the agent ends with the
    compact form 10 of X@3 (and the hypothesis `NoRestartA` holds) -/
example : NoRestartA (rollbackOps.filter (fun o => o ≠ .restartA 100000)) := by
  intro op hop k heq
  subst heq
  simp [rollbackOps] at hop
example : ∃ w, run2 tabK { A := { compact := true } } (rollbackOps.filter (fun o => o ≠ .restartA 100000)) = some w ∧
    w.S.cur ≤ w.A.lv ∧ w.A.cur ≤ w.G.lv ∧ w.G.entries.map (fun e => (e.ver, e.k)) = [(3, 10), (4, 13)] :=
  ⟨_, rfl, by decide, by decide, by decide⟩

/-
  NOT PROVED (kept as the statement of the remaining partial; `two_hop_converges_compact_no_rollback` above is the part
  of it that is proved, `two_hop_converges_no_skip` covers roll-backs for skip-free chains, and
  `two_hop_compact_rollback_counterexample` shows the hypothesis `NoReturn` cannot be dropped):

    /-- an entity's stored (compact) form never returns to an earlier value: for source versions h1 < h2 < h3 of one
        entity, storedAs cA h1.k = storedAs cA h3.k → storedAs cA h2.k = storedAs cA h1.k -/
    def NoReturn (tab) (cA) (H : List Entry) : Prop := …

    theorem two_hop_converges_compact_no_return (tab) (cA cG) (hA : TabOK tab cA) (hG : TabOK tab cG)
        (ops : List Op2)                       -- restarts of the aggregator from old / truncated files INCLUDED
        (w : W2) (h : run2 tab { A := { compact := cA }, G := { compact := cG } } ops = some w)
        (hnr : NoReturn tab cA (history of w.S))
        (s1 : w.S.cur ≤ w.A.lv) (s2 : w.A.cur ≤ w.G.lv) :
        (same conclusion as two_hop_converges_compact_no_rollback)

  Missing: the run-compressed invariant relative to the source — "an entry (v, f) of a journal at depth d stands for a run
  of source versions [v, v'] of its entity whose stored forms all equal f, v' being the entity's latest version not above
  the journal's loaderVersion" — and its preservation by `applyUpdate`'s skip (extends the run), by a restart of the
  aggregator (shrinks loaderVersion; under NoReturn a stale entry that is skipped later still covers the whole run) and by
  deliveries to an agent that is ahead of the aggregator. Not attempted inside the last 45-minute box.
-/

/-- C20 (two hops, compact aggregator WITH roll-backs, under `NoReturn`) — PARTIAL. The full statement
    `two_hop_converges_compact_no_return` stays in the comment above. Proved here: the two steps of the run-compressed
    invariant that distinguish it from the skip-free chain, for one stored entry `a` of a compact journal read as a run of
    source versions with identical stored form (`Covers`): (1) a restart only shortens the run (`covers_shrink`);
    (2) the skip of a later source version `he` with the same stored form — after a restart or not, with unseen versions
    in between or not — extends the run to `he.ver` (`covers_skip`), which needs `NoReturn`; hence (3) every source
    version of the entity between the entry's version and `he.ver` has the stored form the journal holds, so an agent that
    received any of them from the pre-restart aggregator holds that same form. Missing for the full theorem: lifting
    `Covers` to a journal / chain invariant through `applyUpdate` and deliveries to an agent ahead of the aggregator. -/
theorem two_hop_converges_compact_no_return_partial (tab : Nat → Content) (c : Bool) (H : List Entry)
    (hnr : NoReturn tab c H) (a he : Entry) (L L' : Int) (hc : Covers tab c H a L) (hl : L' ≤ L)
    (heH : he ∈ H) (hk : sameKey he a = true) (hv : a.ver ≤ he.ver) (hf : storedAs tab c he.k = some a.k) :
    Covers tab c H a L' ∧ Covers tab c H a he.ver ∧
    ∀ h' ∈ H, sameKey h' a = true → a.ver ≤ h'.ver → h'.ver ≤ he.ver → storedAs tab c h'.k = some a.k :=
  ⟨covers_shrink tab c H a L L' hc hl, covers_restart_then_skip tab c H hnr a he L L' hc hl heH hk hv hf,
   (covers_restart_then_skip tab c H hnr a he L L' hc hl heH hk hv hf).2⟩

/-- non-vacuity: the history X@1 (form 10), X@3 (form 10) satisfies `NoReturn`; the finding's history X@1, X@2 (form 11),
    X@3 does not — and there the conclusion fails: the stale entry (1, 10) does not cover X@2 -/
example : NoReturn tabK true [mkEntry tabK 1 0, mkEntry tabK 3 2] := by unfold NoReturn; decide
example : ¬ NoReturn tabK true [mkEntry tabK 1 0, mkEntry tabK 2 1, mkEntry tabK 3 2] := by unfold NoReturn; decide
example : Covers tabK true [mkEntry tabK 1 0, mkEntry tabK 3 2] (mkEntry tabK 1 10) 1 := by unfold Covers; decide
example : storedAs tabK true (mkEntry tabK 2 1).k ≠ some (mkEntry tabK 1 10).k := by decide

end SH.C20
